import Huginn.Model.Unified
/-
C20 — the unified analyzer equals the union of the protocol analyzers; configuration only masks.
Generic in the three protocol processors (any state types, any result types), for every trace.
-/
namespace Huginn.Props.C20
open Huginn.Unified

variable {SH ST Pkt RH RT RL : Type}

/-- The only way the glue can let the analyzers drift apart: HTTP is consulted first and its `?`
skips the TCP processor. The hypothesis says that whenever HTTP rejects a packet the TCP processor
would not have changed its state on it. (In the code both reject exactly the non-TCP packets, which
`process_ip` filters out before `execute_analysis`; the correspondence run exercises it.) -/
def NoSkew (cfg : Config) (H : Sub SH Pkt RH) (T : Sub ST Pkt RT) : Prop :=
  cfg.http = true → cfg.tcp = true → ∀ sh p, (H.step sh p).2 = none → ∀ st, (T.step st p).1 = st

/-- How `NoSkew` is met by the code: there is a gate on the packet alone (`is it TCP`) such that HTTP rejects only
packets outside the gate and the TCP processor leaves its state alone outside the gate. (HTTP's only error is
`UnsupportedProtocol` for a next-header other than TCP; the TCP processor rejects those before touching its
tracker. The correspondence run feeds `udp` frames to both.) -/
theorem noSkew_of_gate (cfg : Config) (H : Sub SH Pkt RH) (T : Sub ST Pkt RT) (gate : Pkt → Bool)
    (hH : ∀ sh p, (H.step sh p).2 = none → gate p = false)
    (hT : ∀ st p, gate p = false → (T.step st p).1 = st) : NoSkew cfg H T :=
  fun _ _ sh p h st => hT st p (hH sh p h)

/-- One packet: the glue's result is the masked union of what the processors say, and each enabled
processor's state advances exactly as in its standalone analyzer. -/
theorem extract_step (cfg : Config) (H : Sub SH Pkt RH) (T : Sub ST Pkt RT) (L : Pkt → Option RL)
    (eh : RH) (et : RT) (el : RL) (hs : NoSkew cfg H T) (sh : SH) (st : ST) (p : Pkt) :
    let r := extract cfg H T L eh et el (sh, st) p
    r.2 = union cfg eh et el (H.step sh p).2 (T.step st p).2 (L p) ∧
    r.1.1 = (if cfg.http then (H.step sh p).1 else sh) ∧
    r.1.2 = (if cfg.tcp then (T.step st p).1 else st) := by
  have key : cfg.http = true → cfg.tcp = true → (H.step sh p).2 = none → (T.step st p).1 = st :=
    fun a b c => hs a b sh p c st
  clear hs
  unfold extract union
  cases hh : cfg.http <;> cases ht : cfg.tcp <;> cases hl : cfg.tls <;>
    cases h1 : (H.step sh p).2 <;> cases h2 : (T.step st p).2 <;> cases h3 : L p <;> simp_all

/-- Pointwise union of three standalone runs. -/
def unionRuns (cfg : Config) (eh : RH) (et : RT) (el : RL) :
    List (Option RH) → List (Option RT) → List (Option RL) → List (Option (Obs RH RT RL))
  | h :: hs, t :: ts, l :: ls => union cfg eh et el h t l :: unionRuns cfg eh et el hs ts ls
  | _, _, _ => []

/-- `union` only looks at the results of enabled protocols. -/
theorem union_congr (cfg : Config) (eh : RH) (et : RT) (el : RL) (h h' : Option RH) (t t' : Option RT)
    (l : Option RL) (e1 : cfg.http = true → h = h') (e2 : cfg.tcp = true → t = t') :
    union cfg eh et el h t l = union cfg eh et el h' t' l := by
  unfold union
  cases hh : cfg.http <;> cases ht : cfg.tcp <;> simp_all

/-- Generalised form for the induction: a disabled protocol's standalone analyzer may be in any state. -/
theorem unified_eq_union_gen (cfg : Config) (H : Sub SH Pkt RH) (T : Sub ST Pkt RT) (L : Pkt → Option RL)
    (eh : RH) (et : RT) (el : RL) (hs : NoSkew cfg H T) (tr : List Pkt) (sh sh' : SH) (st st' : ST)
    (e1 : cfg.http = true → sh = sh') (e2 : cfg.tcp = true → st = st') :
    runUnified cfg H T L eh et el (sh, st) tr =
      unionRuns cfg eh et el (runSub H sh' tr) (runSub T st' tr) (tr.map L) := by
  induction tr generalizing sh sh' st st' with
  | nil => rfl
  | cons p tr ih =>
    obtain ⟨h1, h2, h3⟩ := extract_step cfg H T L eh et el hs sh st p
    simp only [runUnified, runSub, List.map_cons, unionRuns]
    rw [h1]
    congr 1
    · apply union_congr
      · intro hh; rw [e1 hh]
      · intro ht; rw [e2 ht]
    · have e : (extract cfg H T L eh et el (sh, st) p).1 =
          ((extract cfg H T L eh et el (sh, st) p).1.1, (extract cfg H T L eh et el (sh, st) p).1.2) := rfl
      rw [e, h2, h3]
      apply ih
      · intro hh; simp only [hh, if_true]; rw [e1 hh]
      · intro ht; simp only [ht, if_true]; rw [e2 ht]

/-- **C20.** For every trace and every configuration, the unified analyzer's per-packet results are
the masked union of the results of the HTTP analyzer, the TCP analyzer and the stateless TLS
analyzer on the same trace (all started from the same states): a packet yields a result exactly
when every enabled analyzer accepts it, and then each enabled protocol's fields are that analyzer's
fields, a disabled protocol's fields are empty. -/
theorem unified_eq_union (cfg : Config) (H : Sub SH Pkt RH) (T : Sub ST Pkt RT) (L : Pkt → Option RL)
    (eh : RH) (et : RT) (el : RL) (hs : NoSkew cfg H T) (tr : List Pkt) (sh : SH) (st : ST) :
    runUnified cfg H T L eh et el (sh, st) tr =
      unionRuns cfg eh et el (runSub H sh tr) (runSub T st tr) (tr.map L) :=
  unified_eq_union_gen cfg H T L eh et el hs tr sh sh st st (fun _ => rfl) (fun _ => rfl)

/-- Disabling a protocol removes only that protocol's fields: on every packet that all analyzers
accept, the other two protocols' fields are unchanged and the disabled one's are empty. -/
theorem disable_http_only_masks (cfg : Config) (eh : RH) (et : RT) (el : RL)
    (h : RH) (t : RT) (l : RL) (hc : cfg.tcp = true) (hl : cfg.tls = true) :
    union { cfg with http := false } eh et el (some h) (some t) (some l) = some ⟨eh, t, l⟩ ∧
    union { cfg with http := true } eh et el (some h) (some t) (some l) = some ⟨h, t, l⟩ := by
  simp [union, hc, hl]

theorem disable_tcp_only_masks (cfg : Config) (eh : RH) (et : RT) (el : RL)
    (h : RH) (t : RT) (l : RL) (hc : cfg.http = true) (hl : cfg.tls = true) :
    union { cfg with tcp := false } eh et el (some h) (some t) (some l) = some ⟨h, et, l⟩ ∧
    union { cfg with tcp := true } eh et el (some h) (some t) (some l) = some ⟨h, t, l⟩ := by
  simp [union, hc, hl]

theorem disable_tls_only_masks (cfg : Config) (eh : RH) (et : RT) (el : RL)
    (h : RH) (t : RT) (l : RL) (hc : cfg.http = true) (hl : cfg.tcp = true) :
    union { cfg with tls := false } eh et el (some h) (some t) (some l) = some ⟨h, t, el⟩ ∧
    union { cfg with tls := true } eh et el (some h) (some t) (some l) = some ⟨h, t, l⟩ := by
  simp [union, hc, hl]

/-- Disabling matching turns every quality into `disabled` and leaves every raw signature unchanged. -/
theorem matcher_off_only_quality {Sig Lab Q M : Type} (matcher : Option M)
    (f : M → Sig → Option (Lab × Q)) (sig : Sig) :
    (assemble false matcher f sig).sig = (assemble true matcher f sig).sig ∧
    (assemble false matcher f sig).quality = .disabled ∧
    (assemble false matcher f sig).label = none := by
  unfold assemble
  cases matcher.bind (fun m => f m sig) <;> simp

/-- With matching enabled the label and quality are exactly the standalone matcher's answer. -/
theorem matcher_on_is_lookup {Sig Lab Q M : Type} (m : M) (f : M → Sig → Option (Lab × Q)) (sig : Sig) :
    (assemble true (some m) f sig).sig = sig ∧
    (match f m sig with
     | some (l, q) => (assemble true (some m) f sig).label = some l ∧
                      (assemble true (some m) f sig).quality = .matched q
     | none => (assemble true (some m) f sig).label = none ∧
               (assemble true (some m) f sig).quality = .notMatched) := by
  unfold assemble
  simp only [if_true, Option.bind_some]
  cases f m sig with
  | none => exact ⟨rfl, rfl, rfl⟩
  | some lq => exact ⟨rfl, rfl, rfl⟩

/-! ### non-vacuity: a concrete pair of processors satisfying `NoSkew`, on which the glue skips nothing -/

def demoH : Sub Nat Nat Nat := ⟨fun s p => (s + p, if p = 0 then none else some (s + p))⟩
def demoT : Sub Nat Nat Nat := ⟨fun s p => (if p = 0 then s else s + 1, if p = 0 then none else some s)⟩

example : NoSkew {} demoH demoT := by
  intro _ _ sh p h st
  unfold demoH at h
  unfold demoT
  by_cases hp : p = 0 <;> simp_all

example : runUnified {} demoH demoT (fun p => some p) 0 0 0 (0, 0) [1, 0, 2] =
    [some ⟨1, 0, 1⟩, none, some ⟨3, 1, 2⟩] := by decide

end Huginn.Props.C20
