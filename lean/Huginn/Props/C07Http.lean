import Huginn.Props.C07
set_option linter.unusedSimpArgs false
set_option linter.unusedSectionVars false
/-
C07 for HTTP at full strength for the repaired code.

`http_isolation_partial` (Props/C07.lean) asks for parsers that never *write* processor-global
state. The repaired `Http2Parser` does write it: the one `hpack_patched::Decoder` object lives in
the parser and is overwritten with a fresh decoder at the start of every parse (fix 051dcb4), so
the state changes but no *result* depends on the state found. That is the hypothesis here:

  `ResultIndep H` — the value a parser returns is the same whatever processor state it is called in.

Under it the analyzer is observationally equal (table, outputs, eviction behaviour) to the analyzer
over the state-free parsers `H.pure g₀`, to which the generic isolation theorem applies. So:
for every trace, interleaving, connection and capacity, within capacity, HTTP outputs per
connection are those of the connection analysed alone — whatever garbage state other connections
leave in the shared decoder.

The unrepaired decoder (state carried across parses) is *not* `ResultIndep`:
`leaky_not_resultIndep`; its isolation failure is `kf_sharedHpack_witness`.
-/
namespace Huginn.Props.C07
open Huginn.Flow Huginn.FlowProgs

variable {κ σ γ ρ Pkt Out : Type} [DecidableEq κ]

/-- Two programs of the same shape whose `glob` nodes return the same *result* in any two states. -/
inductive Sim : Prog κ σ γ ρ Out → Prog κ σ γ ρ Out → Prop
  | ret (o) : Sim (.ret o) (.ret o)
  | get (k c c') : (∀ r, Sim (c r) (c' r)) → Sim (.get k c) (.get k c')
  | insert (k v ttl c c') : Sim c c' → Sim (.insert k v ttl c) (.insert k v ttl c')
  | set (k v c c') : Sim c c' → Sim (.set k v c) (.set k v c')
  | remove (k c c') : Sim c c' → Sim (.remove k c) (.remove k c')
  | glob (f f' c c') : (∀ g g', (f g).2 = (f' g').2) → (∀ r, Sim (c r) (c' r)) →
      Sim (.glob f c) (.glob f' c')

/-- Similar programs, run in arbitrary (different) global states: same table, same output, same
eviction behaviour. -/
theorem sim_run {p p' : Prog κ σ γ ρ Out} (h : Sim p p') (now : Nat) (m : TtlMap κ σ) (g g' : γ) :
    (p.run now m g).1 = (p'.run now m g').1 ∧ (p.run now m g).2.2 = (p'.run now m g').2.2 ∧
      (ProgNoEvict p now m g ↔ ProgNoEvict p' now m g') := by
  induction h generalizing m g g' with
  | ret o => exact ⟨rfl, rfl, Iff.rfl⟩
  | get k c c' _ ih => exact ih _ m g g'
  | insert k v ttl c c' _ ih =>
    obtain ⟨h1, h2, h3⟩ := ih (m.insert now k v ttl) g g'
    exact ⟨h1, h2, by simp only [ProgNoEvict]; rw [h3]⟩
  | set k v c c' _ ih => exact ih (m.set now k v) g g'
  | remove k c c' _ ih => exact ih (m.remove k) g g'
  | glob f f' c c' hf _ ih =>
    simp only [Prog.run, ProgNoEvict]
    rw [hf g g']
    exact ih _ m (f g).1 (f' g').1

/-- Lifted to traces: outputs and the capacity side condition coincide. -/
theorem sim_trace (A A' : Analyzer κ σ γ ρ Pkt Out) (ht : ∀ p, A.time p = A'.time p)
    (hs : ∀ p, Sim (A.prog p) (A'.prog p)) (tr : List Pkt) (m : TtlMap κ σ) (g g' : γ) :
    A.runOuts (m, g) tr = A'.runOuts (m, g') tr ∧ (NoEvict A (m, g) tr ↔ NoEvict A' (m, g') tr) := by
  induction tr generalizing m g g' with
  | nil => exact ⟨rfl, Iff.rfl⟩
  | cons p tr ih =>
    obtain ⟨h1, h2, h3⟩ := sim_run (hs p) (A.time p) m g g'
    simp only [Analyzer.runOuts, NoEvict, Analyzer.step]
    rw [← ht p] at *
    obtain ⟨i1, i2⟩ := ih ((A.prog p).run (A.time p) m g).1 ((A.prog p).run (A.time p) m g).2.1
      ((A'.prog p).run (A.time p) m g').2.1
    rw [h2, h3]
    constructor
    · congr 1
      rw [i1, h1]
    · rw [i2, h1]

/-- Isolation transfers along `Sim`: if `A` is similar to a local analyzer `A'`, `A` is isolated. -/
theorem isolation_fresh_sim {C : Type} [DecidableEq C] (A A' : Analyzer κ σ γ ρ Pkt Out)
    (ht : ∀ p, A.time p = A'.time p) (hs : ∀ p, Sim (A.prog p) (A'.prog p))
    (owner : κ → C) (conn : Pkt → C) (hloc : ∀ p, (A'.prog p).Local (fun k => owner k = conn p))
    (c : C) (tr : List Pkt) (cap : Nat) (g : γ) (hne : NoEvict A ({ cap := cap }, g) tr) :
    (A.runOuts ({ cap := cap }, g) tr).filter (fun po => decide (conn po.1 = c)) =
      A.runOuts ({ cap := cap }, g) (tr.filter (fun p => decide (conn p = c))) := by
  obtain ⟨h1, h2⟩ := sim_trace A A' ht hs tr { cap := cap } g g
  obtain ⟨h3, _⟩ := sim_trace A A' ht hs (tr.filter (fun p => decide (conn p = c))) { cap := cap } g g
  rw [h1, h3]
  exact isolation_fresh A' owner conn hloc c tr cap g (h2.1 hne)

/-- No poisoning transfers along `Sim` in the same way. -/
theorem fresh_probe_sim {C : Type} [DecidableEq C] (A A' : Analyzer κ σ γ ρ Pkt Out)
    (ht : ∀ p, A.time p = A'.time p) (hs : ∀ p, Sim (A.prog p) (A'.prog p))
    (owner : κ → C) (conn : Pkt → C) (hloc : ∀ p, (A'.prog p).Local (fun k => owner k = conn p))
    (c : C) (hist probe : List Pkt) (cap : Nat) (g : γ)
    (hh : ∀ p ∈ hist, conn p ≠ c) (hp : ∀ p ∈ probe, conn p = c)
    (hne : NoEvict A ({ cap := cap }, g) (hist ++ probe)) :
    (A.runOuts ({ cap := cap }, g) (hist ++ probe)).filter (fun po => decide (conn po.1 = c)) =
      A.runOuts ({ cap := cap }, g) probe := by
  obtain ⟨h1, h2⟩ := sim_trace A A' ht hs (hist ++ probe) { cap := cap } g g
  obtain ⟨h3, _⟩ := sim_trace A A' ht hs probe { cap := cap } g g
  rw [h1, h3]
  exact fresh_probe A' owner conn hloc c hist probe cap g hh hp (h2.1 hne)

/-! ### HTTP -/

/-- The value a parser returns does not depend on the processor state it is called in. -/
def ResultIndep {γ Q P : Type} (H : HttpParams γ Q P) : Prop :=
  (∀ g g' b, (H.parseReq g b).2 = (H.parseReq g' b).2) ∧
  (∀ g g' b, (H.parseResp g b).2 = (H.parseResp g' b).2)

/-- The same parsers with the state threading cut: called "in state `g₀`", state left alone. -/
def _root_.Huginn.FlowProgs.HttpParams.pure {γ Q P : Type} (H : HttpParams γ Q P) (g₀ : γ) : HttpParams γ Q P :=
  { H with parseReq := fun g b => (g, (H.parseReq g₀ b).2),
           parseResp := fun g b => (g, (H.parseResp g₀ b).2) }

theorem pure_stateless {γ Q P : Type} (H : HttpParams γ Q P) (g₀ : γ) : Stateless (H.pure g₀) :=
  ⟨fun _ _ => rfl, fun _ _ => rfl⟩

private theorem finish_sim {γ Q P : Type} (stored : FlowKey) (f : TcpFlow) (s : Seg) (o : HttpOut Q P) :
    Sim (httpFinish (γ := γ) stored f s o) (httpFinish stored f s o) := by
  unfold httpFinish
  split
  · exact .remove _ _ _ (.ret _)
  · split
    · exact .remove _ _ _ (.ret _)
    · exact .ret _

section
variable {γ Q P : Type} (H : HttpParams γ Q P) (hri : ResultIndep H) (g₀ : γ)
include hri

private theorem simReqGlob : ∀ g g' : γ, ∀ full : Bytes,
    ((fun g => let (g', r) := H.parseReq g full; (g', (PRes.req r : PRes Q P))) g).2 =
    ((fun g => let (g', r) := (H.pure g₀).parseReq g full; (g', (PRes.req r : PRes Q P))) g').2 := by
  intro g g' full
  show PRes.req (H.parseReq g full).2 = PRes.req (H.parseReq g₀ full).2
  rw [hri.1 g g₀ full]

private theorem simRespGlob : ∀ g g' : γ, ∀ full : Bytes,
    ((fun g => let (g', r) := H.parseResp g full; (g', (PRes.resp r : PRes Q P))) g).2 =
    ((fun g => let (g', r) := (H.pure g₀).parseResp g full; (g', (PRes.resp r : PRes Q P))) g').2 := by
  intro g g' full
  show PRes.resp (H.parseResp g full).2 = PRes.resp (H.parseResp g₀ full).2
  rw [hri.2 g g₀ full]

private theorem tryReq_sim (full : Bytes)
    (k k' : Option Q → Prog FlowKey TcpFlow γ (PRes Q P) (HttpOut Q P))
    (hk : ∀ q, Sim (k q) (k' q)) : Sim (httpTryReq H full k) (httpTryReq (H.pure g₀) full k') := by
  unfold httpTryReq
  by_cases hl : full.length < 4
  · rw [if_pos hl, if_pos hl]; exact hk _
  · rw [if_neg hl, if_neg hl]
    have hgo : Sim
        (.glob (fun g => let (g', r) := H.parseReq g full; (g', PRes.req r))
          fun r3 => match r3 with | .req q => k q | .resp _ => k none)
        (.glob (fun g => let (g', r) := (H.pure g₀).parseReq g full; (g', PRes.req r))
          fun r3 => match r3 with | .req q => k' q | .resp _ => k' none) := by
      refine .glob _ _ _ _ (fun g g' => simReqGlob H hri g₀ g g' full) (fun r3 => ?_)
      cases r3 <;> exact hk _
    refine .glob _ _ _ _ (fun g g' => simReqGlob H hri g₀ g g' full) (fun r1 => ?_)
    have hresp : Sim
        (.glob (fun g => let (g', r) := H.parseResp g full; (g', PRes.resp r))
          fun r2 => match r2 with
            | .resp (some _) => (.glob (fun g => let (g', r) := H.parseReq g full; (g', PRes.req r))
                fun r3 => match r3 with | .req q => k q | .resp _ => k none)
            | _ => k none)
        (.glob (fun g => let (g', r) := (H.pure g₀).parseResp g full; (g', PRes.resp r))
          fun r2 => match r2 with
            | .resp (some _) => (.glob (fun g => let (g', r) := (H.pure g₀).parseReq g full; (g', PRes.req r))
                fun r3 => match r3 with | .req q => k' q | .resp _ => k' none)
            | _ => k' none) := by
      refine .glob _ _ _ _ (fun g g' => simRespGlob H hri g₀ g g' full) (fun r2 => ?_)
      cases r2 with
      | req r => exact hk _
      | resp r => cases r with
        | none => exact hk _
        | some _ => exact hgo
    cases r1 with
    | req r => cases r with
      | some _ => exact hgo
      | none => exact hresp
    | resp r => exact hresp

private theorem tryResp_sim (full : Bytes)
    (k k' : Option P → Prog FlowKey TcpFlow γ (PRes Q P) (HttpOut Q P))
    (hk : ∀ q, Sim (k q) (k' q)) : Sim (httpTryResp H full k) (httpTryResp (H.pure g₀) full k') := by
  unfold httpTryResp
  by_cases hl : full.length < 4
  · rw [if_pos hl, if_pos hl]; exact hk _
  · rw [if_neg hl, if_neg hl]
    have hgo : Sim
        (.glob (fun g => let (g', r) := H.parseResp g full; (g', PRes.resp r))
          fun r3 => match r3 with | .resp q => k q | .req _ => k none)
        (.glob (fun g => let (g', r) := (H.pure g₀).parseResp g full; (g', PRes.resp r))
          fun r3 => match r3 with | .resp q => k' q | .req _ => k' none) := by
      refine .glob _ _ _ _ (fun g g' => simRespGlob H hri g₀ g g' full) (fun r3 => ?_)
      cases r3 <;> exact hk _
    refine .glob _ _ _ _ (fun g g' => simReqGlob H hri g₀ g g' full) (fun r1 => ?_)
    have hresp : Sim
        (.glob (fun g => let (g', r) := H.parseResp g full; (g', PRes.resp r))
          fun r2 => match r2 with
            | .resp (some _) => (.glob (fun g => let (g', r) := H.parseResp g full; (g', PRes.resp r))
                fun r3 => match r3 with | .resp q => k q | .req _ => k none)
            | _ => k none)
        (.glob (fun g => let (g', r) := (H.pure g₀).parseResp g full; (g', PRes.resp r))
          fun r2 => match r2 with
            | .resp (some _) => (.glob (fun g => let (g', r) := (H.pure g₀).parseResp g full; (g', PRes.resp r))
                fun r3 => match r3 with | .resp q => k' q | .req _ => k' none)
            | _ => k' none) := by
      refine .glob _ _ _ _ (fun g g' => simRespGlob H hri g₀ g g' full) (fun r2 => ?_)
      cases r2 with
      | req r => exact hk _
      | resp r => cases r with
        | none => exact hk _
        | some _ => exact hgo
    cases r1 with
    | req r => cases r with
      | some _ => exact hgo
      | none => exact hresp
    | resp r => exact hresp

private theorem body_sim (stored : FlowKey) (isClient : Bool) (f : TcpFlow) (s : Seg) :
    Sim (httpBody H stored isClient f s) (httpBody (H.pure g₀) stored isClient f s) := by
  have hmax : (H.pure g₀).maxHead = H.maxHead := rfl
  unfold httpBody
  rw [hmax]
  by_cases he : s.payload.isEmpty
  · rw [if_pos he, if_pos he]; exact .ret _
  · rw [if_neg he, if_neg he]
    dsimp only
    by_cases hc : (isClient && decide (s.src = f.client)) = true
    · rw [if_pos hc, if_pos hc]
      by_cases hp : (!f.clientParsed) = true
      · rw [if_pos hp, if_pos hp]
        split
        · exact .set _ _ _ _ (finish_sim _ _ _ _)
        · refine .set _ _ _ _ (tryReq_sim H hri g₀ _ _ _ (fun q => ?_))
          cases q with
          | some q => exact .set _ _ _ _ (finish_sim _ _ _ _)
          | none => exact finish_sim _ _ _ _
      · rw [if_neg hp, if_neg hp]; exact finish_sim _ _ _ _
    · rw [if_neg hc, if_neg hc]
      by_cases hsv : s.src = f.server
      · rw [if_pos hsv, if_pos hsv]
        by_cases hp : (!f.serverParsed) = true
        · rw [if_pos hp, if_pos hp]
          split
          · exact .set _ _ _ _ (finish_sim _ _ _ _)
          · refine .set _ _ _ _ (tryResp_sim H hri g₀ _ _ _ (fun q => ?_))
            cases q with
            | some q => exact .set _ _ _ _ (finish_sim _ _ _ _)
            | none => exact finish_sim _ _ _ _
        · rw [if_neg hp, if_neg hp]; exact finish_sim _ _ _ _
      · rw [if_neg hsv, if_neg hsv]; exact finish_sim _ _ _ _

private theorem withFlow_sim (stored : FlowKey) (isClient : Bool) (f : TcpFlow) (s : Seg) :
    Sim (httpWithFlow H stored isClient f s) (httpWithFlow (H.pure g₀) stored isClient f s) := by
  unfold httpWithFlow
  split
  · exact .set _ _ _ _ (body_sim H hri g₀ _ _ _ _)
  · exact body_sim H hri g₀ _ _ _ _

theorem httpDispatch_sim (s : Seg) : Sim (httpDispatch H s) (httpDispatch (H.pure g₀) s) := by
  have httl : (H.pure g₀).ttlMs = H.ttlMs := rfl
  unfold httpDispatch
  rw [httl]
  refine .get _ _ _ (fun f => ?_)
  cases f with
  | some f => exact withFlow_sim H hri g₀ _ _ _ _
  | none =>
    refine .get _ _ _ (fun f => ?_)
    cases f with
    | some f => exact withFlow_sim H hri g₀ _ _ _ _
    | none =>
      dsimp only
      split
      · exact .insert _ _ _ _ _ (.ret _)
      · exact .ret _

theorem httpProg_sim (s : Seg) : Sim (httpProg H s) (httpProg (H.pure g₀) s) := by
  unfold httpProg
  split
  · refine .get _ _ _ (fun f => ?_)
    split
    · exact httpDispatch_sim H hri g₀ s
    · exact .remove _ _ _ (.remove _ _ _ (httpDispatch_sim H hri g₀ s))
  · exact httpDispatch_sim H hri g₀ s

end

/-- **C07 for HTTP (full, repaired code).** For every trace, interleaving, connection and capacity,
as long as nothing is evicted: the HTTP results attributed to connection `c` in the interleaved run
are exactly those of analysing `c`'s segments alone with a fresh processor — for parsers whose
results do not depend on the processor state they find (the state itself may be rewritten by every
call, as the shared HPACK decoder object is). -/
theorem http_isolation {γ Q P : Type} (H : HttpParams γ Q P) (hri : ResultIndep H)
    (c : Ep × Ep) (tr : List Seg) (cap : Nat) (g : γ)
    (hne : NoEvict (httpAnalyzer H) ({ cap := cap }, g) tr) :
    ((httpAnalyzer H).runOuts ({ cap := cap }, g) tr).filter (fun po => decide (httpConnOf po.1 = c)) =
      (httpAnalyzer H).runOuts ({ cap := cap }, g) (tr.filter (fun p => decide (httpConnOf p = c))) := by
  have hs : ∀ p, Sim ((httpAnalyzer H).prog p) ((httpAnalyzer (H.pure g)).prog p) :=
    fun p => httpProg_sim H hri g p
  obtain ⟨h1, h2⟩ := sim_trace (httpAnalyzer H) (httpAnalyzer (H.pure g)) (fun _ => rfl) hs tr { cap := cap } g g
  obtain ⟨h3, _⟩ := sim_trace (httpAnalyzer H) (httpAnalyzer (H.pure g)) (fun _ => rfl) hs
    (tr.filter (fun p => decide (httpConnOf p = c))) { cap := cap } g g
  rw [h1, h3]
  exact http_isolation_partial (H.pure g) (pure_stateless H g) c tr cap g (h2.1 hne)


/-- Parsers whose reports are functions of the bytes alone, whatever they do to their internal state
(`updQ`/`updP`, e.g. overwrite the decoder object) — the shape of the parser models of C05
(`Http1.parseRequest/Response`) and C16 (`H2.processorsParseRequest/Response`, fresh HPACK context per
parse). -/
def pureReports {γ Q P : Type} (req : Bytes → Option Q) (resp : Bytes → Option P)
    (updQ updP : γ → Bytes → γ) (ttl maxHead : Nat) : HttpParams γ Q P where
  parseReq := fun g b => (updQ g b, req b)
  parseResp := fun g b => (updP g b, resp b)
  ttlMs := ttl
  maxHead := maxHead

theorem resultIndep_of_pure {γ Q P : Type} (req : Bytes → Option Q) (resp : Bytes → Option P)
    (updQ updP : γ → Bytes → γ) (ttl maxHead : Nat) :
    ResultIndep (pureReports req resp updQ updP ttl maxHead) :=
  ⟨fun _ _ _ => rfl, fun _ _ _ => rfl⟩

/-- **C07 for HTTP with pure-report parsers**: isolation holds whatever the parsers do to the
processor state. -/
theorem http_isolation_pure {γ Q P : Type} (req : Bytes → Option Q) (resp : Bytes → Option P)
    (updQ updP : γ → Bytes → γ) (ttl maxHead : Nat) (c : Ep × Ep) (tr : List Seg) (cap : Nat) (g : γ)
    (hne : NoEvict (httpAnalyzer (pureReports req resp updQ updP ttl maxHead)) ({ cap := cap }, g) tr) :
    ((httpAnalyzer (pureReports req resp updQ updP ttl maxHead)).runOuts ({ cap := cap }, g) tr).filter
        (fun po => decide (httpConnOf po.1 = c)) =
      (httpAnalyzer (pureReports req resp updQ updP ttl maxHead)).runOuts ({ cap := cap }, g)
        (tr.filter (fun p => decide (httpConnOf p = c))) :=
  http_isolation _ (resultIndep_of_pure req resp updQ updP ttl maxHead) c tr cap g hne

/-- The unrepaired shared decoder (`leaky`: a parse result depends on what earlier parses left
behind) does not satisfy the hypothesis — which is why it is a hypothesis. -/
theorem leaky_not_resultIndep : ¬ ResultIndep leaky := by
  intro h
  have := h.1 0 1 segB'.payload
  revert this
  decide

end Huginn.Props.C07
