import Huginn.Props.C13
/-
C13, requests with Cookie / Referer lines: the request parser takes EVERY `Cookie` and `Referer` line
out of the header list it hands on (any number of them, anywhere, any case). So a request conforms to
a signature as soon as it does once those lines are disregarded — and it is then matched exactly as
`reach_http_request` says. (The observation only depends on the header list through `parsedHeaders`.)
-/
namespace Huginn.Props.C13
open Huginn.Sig Huginn.TcpExtract Huginn.TcpSig.Spec Huginn.Match Huginn.Match.Spec
open Huginn.Reach Huginn.Reach.Spec Huginn.Reach.Lemmas Huginn.Lemmas.TcpMain

theorem parsedHeaders_idem (isReq : Bool) (hs : List (String × Option String)) :
    parsedHeaders isReq (parsedHeaders isReq hs) = parsedHeaders isReq hs := by
  unfold parsedHeaders
  rw [List.filter_filter]
  congr 1
  funext h
  simp

theorem httpObsOf_parsed (isReq : Bool) (v : HttpVersion) (hs : List (String × Option String))
    (sw : Option String) : httpObsOf isReq v (parsedHeaders isReq hs) sw = httpObsOf isReq v hs sw := by
  unfold httpObsOf
  rw [parsedHeaders_idem]

/-- **Requests with any number of Cookie / Referer lines.** If the request conforms to the bundled
signature once its Cookie and Referer lines are disregarded, it is matched at distance 0 (quality 1.0)
by the signature or an earlier accepting entry. -/
theorem reach_http_request_cookies (own : Nat × Nat × HttpSig) (hown : own ∈ entries bundledHttpRequest)
    (hr : ReachHttp true own.2.2) (v : HttpVersion) (hs : List (String × Option String))
    (sw : Option String) (hc : ConformsHttp true v (parsedHeaders true hs) sw own.2.2)
    (hab : ¬ KF.C13.httpAbsentList (absentHeaders true (parsedHeaders true hs)) own.2.2.habsent)
    (hsw : ¬ KF.C12.expswReversed (trafficClass sw) own.2.2.expsw) :
    Good HttpAccepts bundledHttpRequest own (httpObsOf true v hs sw)
      (httpAnalyze bundledHttpRequest bundledHttpResponse true (httpObsOf true v hs sw)) ∧
    httpScore 0 = 100 := by
  have := reach_http_request own hown hr v (parsedHeaders true hs) sw hc
    (by rw [parsedHeaders_idem]; exact hab) hsw
  rw [httpObsOf_parsed] at this
  exact this

end Huginn.Props.C13
