import Huginn.Lemmas.Wire
import Huginn.Gen.Wire
set_option linter.unusedSimpArgs false
set_option maxRecDepth 100000
/-
C18 (pure half: affinity only) — the worker chosen for a packet is a function of its connection
identity alone and a valid worker index. Property theorems only (helpers: Huginn/Lemmas/Wire.lean).
The concurrent accounting half of C18 (queued / dropped / counters under all interleavings) is
Props/C18Pool.lean.

Every theorem holds for *every* hash function `H : HashIn → Nat` (`DefaultHasher` is one instance,
implemented in Model/SipHash.lean only so that the driver can compare indices exactly).

Model: the hashers as repaired by fixes/C18-hashers-locate-ip-like-parser.patch — `locate_ip` finds the IP
header exactly as `packet_parser::parse_packet` does (`hashers_locate_as_parser`, for every byte string).

Two notions of identity, both proved:
 (A) what the analyzer itself decodes. "A frame the analyzer accepts" is `analyzerView a p = some v`
     (equivalently `analyzerEndpoints a p = some e`, `identityX p = some k`) of Model/Wire.lean — the
     packet-parser model `parsePacket` shared with C15 and C01: `parse_packet` succeeds under one of its three
     framings (Ethernet by ethertype, raw IP by version nibble, loopback `1e 00`), the protocol is TCP,
     `TcpPacket::new(ip.payload())` succeeds, and the analyzer's own gate before its first state access
     passes. Frames the analyzer keys to the same connection state reach the same worker — what
     parallel ≡ sequential (C10) needs. **Full strength**: `affinity_tcp / affinity_tls / affinity_http` have
     no exclusion class and no hypothesis besides the two identities (not even `0 < n`).
 (B) the endpoints of a well-formed frame of a *declared* link type (`wireEndpoints`, read off the RFCs).
     One explicit hypothesis remains, `LinkHonoured fr f`: `parse_packet` — which is handed bytes only, never
     the capture's link type — takes the frame for that link type. Always true for Ethernet
     (`linkHonoured_eth`); for raw IP it is exactly "the parser's Ethernet strategy does not fire"
     (`linkHonoured_raw`). Where it fails (raw IPv4 of ≥ 34 bytes from 8.0.x.x) the *analyzers* decode another
     frame, so there is no per-connection state to keep together; `sniffing_limit_example` records it.
The former exclusion classes KF.C18.looksLikeEthernet / nullFraming / versionNibble (and, earlier, IPv4
IHL < 5, fix 68f354c) are gone; their witnesses are regression theorems below and the first cases of the
harness.
-/
namespace Huginn.Props.C18
open Huginn.Wire Huginn.Wire.Spec

/-! ### valid worker index -/

theorem remOr0_lt (h n : Nat) (hn : 0 < n) : remOr0 h n < n := by
  unfold remOr0; rw [if_neg (by omega)]; exact Nat.mod_lt _ hn

/-- **worker_lt.** For every hash function, worker count `n > 0` and frame the index is `< n`. -/
theorem worker_tcp_lt (H : HashIn → Nat) (n : Nat) (hn : 0 < n) (p : Bytes) : workerTcp H n p < n :=
  remOr0_lt _ n hn
theorem worker_http_lt (H : HashIn → Nat) (n : Nat) (hn : 0 < n) (p : Bytes) : workerHttp H n p < n :=
  remOr0_lt _ n hn
theorem worker_tls_lt (H : HashIn → Nat) (n : Nat) (hn : 0 < n) (p : Bytes) (k : Nat)
    (h : workerTls H n p = some k) : k < n := by
  unfold workerTls at h
  cases hi : hashInputTls p with
  | none => simp [hi] at h
  | some i => simp [hi] at h; rw [← h]; exact remOr0_lt _ n hn

example : workerTls sumH 16 wOkA = some 15 ∧ workerTcp sumH 16 wOkA = 11 := by decide

/-! ### the hashers locate the IP header as the parser does -/

/-- **hashers_locate_as_parser.** For every byte string, `locate_ip` of the three hashers returns
the offset and IP version of the packet `parse_packet` hands to the analyzers — and `None` exactly
when `parse_packet` rejects the frame. -/
theorem hashers_locate_as_parser (p : Bytes) :
    locateIp p = (parsePacket p).map (fun l => (l.fr.offset, l.ver)) ∧
    ∀ l, parsePacket p = some l → l.ip = p.drop l.fr.offset :=
  ⟨locateIp_eq_parse p, parsePacket_ip p⟩

example : locateIp wNull4a = some (4, .v4) ∧ locateIp wRaw134a = some (0, .v4) ∧
    locateIp wNib5a = some (14, .v4) ∧ locateIp wOkA = some (14, .v4) ∧ locateIp wNull6a = some (4, .v6) ∧
    locateIp (wOkA.take 30) = none := by decide

/-! ### (A) identity = what the analyzer sees -/

/-- The full statements (true of the repaired hashers: `full_affinity_*`). -/
def FullAffinityTcp : Prop :=
  ∀ (H : HashIn → Nat) (n : Nat) (f₁ f₂ : Bytes) (k : IpVer × Bytes), 0 < n →
    identityTcp f₁ = some k → identityTcp f₂ = some k → workerTcp H n f₁ = workerTcp H n f₂
def FullAffinityHttp : Prop :=
  ∀ (H : HashIn → Nat) (n : Nat) (f₁ f₂ : Bytes) (k : Conn), 0 < n →
    identityHttp f₁ = some k → identityHttp f₂ = some k → workerHttp H n f₁ = workerHttp H n f₂
def FullAffinityTls : Prop :=
  ∀ (H : HashIn → Nat) (n : Nat) (f₁ f₂ : Bytes) (k : Ep), 0 < n →
    identityTls f₁ = some k → identityTls f₂ = some k → workerTls H n f₁ = workerTls H n f₂

/-- **affinity_tcp.** Two frames the TCP analyzer accepts — under any of the three framings, not
necessarily the same one — and in which it sees the same source address reach the same worker, for
every hash function and worker count: whatever their framing, payload, flags, lengths, ports,
destination, IP header length. -/
theorem affinity_tcp (H : HashIn → Nat) (n : Nat) (f₁ f₂ : Bytes) (k : IpVer × Bytes)
    (i₁ : identityTcp f₁ = some k) (i₂ : identityTcp f₂ = some k) :
    workerTcp H n f₁ = workerTcp H n f₂ := by
  unfold identityTcp analyzerEndpoints at i₁ i₂
  cases hv₁ : analyzerView .tcp f₁ with
  | none => simp [hv₁] at i₁
  | some v₁ =>
    cases hv₂ : analyzerView .tcp f₂ with
    | none => simp [hv₂] at i₂
    | some v₂ =>
      simp only [hv₁, hv₂, Option.map_some, Option.some.injEq, View.ep] at i₁ i₂
      unfold workerTcp
      rw [hashInputTcp_view .tcp f₁ v₁ hv₁, hashInputTcp_view .tcp f₂ v₂ hv₂]
      have : v₁.loc.src = v₂.loc.src := by
        have a := congrArg Prod.snd i₁; have b := congrArg Prod.snd i₂
        simp only at a b; rw [a, b]
      rw [this]

-- non-vacuity, one pair per framing: Ethernet; raw IP (the 134.221.1.1 SYN and its retransmission:
-- bytes 12–13 = `86 dd`); loopback; Ethernet with ethertype 0800 and version nibble 5; and two
-- *different* framings of the same source address
example : identityTcp wOkA = identityTcp wOkB ∧ identityTcp wOkA ≠ none ∧ wOkA ≠ wOkB := by decide
example : identityTcp wRaw134a = identityTcp wRaw134b ∧ identityTcp wRaw134a ≠ none ∧
    wRaw134a ≠ wRaw134b := by decide
example : identityTcp wNull4a = identityTcp wNull4b ∧ identityTcp wNull4a ≠ none ∧
    wNull4a ≠ wNull4b := by decide
example : identityTcp wNib5a = identityTcp wNib5b ∧ identityTcp wNib5a ≠ none ∧ wNib5a ≠ wNib5b := by decide
example : identityTcp wNull4a = identityTcp wOkB ∧ identityTcp wNull4a ≠ none := by decide

/-- **affinity_tls.** Two frames the TLS analyzer accepts with the same directed 4-tuple reach the
same worker — and neither is discarded by the dispatcher (`tls_accepted_not_discarded`). -/
theorem affinity_tls (H : HashIn → Nat) (n : Nat) (f₁ f₂ : Bytes) (k : Ep)
    (i₁ : identityTls f₁ = some k) (i₂ : identityTls f₂ = some k) :
    workerTls H n f₁ = workerTls H n f₂ := by
  unfold identityTls analyzerEndpoints at i₁ i₂
  cases hv₁ : analyzerView .tls f₁ with
  | none => simp [hv₁] at i₁
  | some v₁ =>
    cases hv₂ : analyzerView .tls f₂ with
    | none => simp [hv₂] at i₂
    | some v₂ =>
      simp only [hv₁, hv₂, Option.map_some, Option.some.injEq] at i₁ i₂
      unfold workerTls
      rw [hashInputTls_view .tls f₁ v₁ hv₁, hashInputTls_view .tls f₂ v₂ hv₂, i₁, i₂]

/-- A frame the TLS analyzer accepts is never discarded by the TLS dispatcher (`hash_flow` returns
`Some`), under every framing. (More generally: a frame *any* analyzer's common decode accepts.) -/
theorem tls_accepted_not_discarded (H : HashIn → Nat) (n : Nat) (f : Bytes) (k : Ep)
    (i : identityTls f = some k) : workerTls H n f = some (remOr0 (H (.flow k.src k.dst k.sp k.dp)) n) := by
  unfold identityTls analyzerEndpoints at i
  cases hv : analyzerView .tls f with
  | none => simp [hv] at i
  | some v =>
    simp only [hv, Option.map_some, Option.some.injEq] at i
    unfold workerTls
    rw [hashInputTls_view .tls f v hv, i]; rfl

example : identityTls wOkB = identityTls wOkB ∧ identityTls wOkB ≠ none := by decide
example : identityTls wNull4b = identityTls wOkB ∧ identityTls wNull4b ≠ none ∧
    (workerTls sumH 16 wNull4b).isSome := by decide
example : (identityTls wNull6a).map (fun e => (e.src, e.dst, e.sp, e.dp)) =
      (identityTls wNull6b).map (fun e => (e.src, e.dst, e.sp, e.dp)) ∧
    identityTls wNull6a = identityTls wNull6b ∧ identityTls wNull6a ≠ none ∧ wNull6a ≠ wNull6b := by decide
example : identityTls wRaw9b ≠ none ∧ identityTls wNib5b ≠ none ∧ identityTls wRaw9b = identityTls wRaw9b := by
  decide

/-- **affinity_http**, relational form: the endpoints the HTTP analyzer sees in the two accepted
frames are equal up to direction ⇒ same worker. -/
theorem affinity_http_sameConn (H : HashIn → Nat) (n : Nat) (f₁ f₂ : Bytes) (e₁ e₂ : Ep)
    (i₁ : analyzerEndpoints .http f₁ = some e₁) (i₂ : analyzerEndpoints .http f₂ = some e₂)
    (hc : SameConn e₁ e₂) : workerHttp H n f₁ = workerHttp H n f₂ := by
  unfold analyzerEndpoints at i₁ i₂
  cases hv₁ : analyzerView .http f₁ with
  | none => simp [hv₁] at i₁
  | some v₁ =>
    cases hv₂ : analyzerView .http f₂ with
    | none => simp [hv₂] at i₂
    | some v₂ =>
      simp only [hv₁, hv₂, Option.map_some, Option.some.injEq] at i₁ i₂
      unfold workerHttp
      rw [hashInputHttp_view .http f₁ v₁ hv₁, hashInputHttp_view .http f₂ v₂ hv₂, i₁, i₂]
      rcases hc with rfl | rfl
      · rfl
      · simp only [Ep.swap]
        rw [canonFlow_swap]

/-- **affinity_http** in the `identity = some k` form, `k` an unordered endpoint pair: two frames
the HTTP analyzer accepts and attributes to the same connection — either direction, any framing —
reach the same worker. -/
theorem affinity_http (H : HashIn → Nat) (n : Nat) (f₁ f₂ : Bytes) (k : Conn)
    (i₁ : identityHttp f₁ = some k) (i₂ : identityHttp f₂ = some k) :
    workerHttp H n f₁ = workerHttp H n f₂ := by
  unfold identityHttp at i₁ i₂
  cases he₁ : analyzerEndpoints .http f₁ with
  | none => rw [he₁] at i₁; cases i₁
  | some e₁ =>
    cases he₂ : analyzerEndpoints .http f₂ with
    | none => rw [he₂] at i₂; cases i₂
    | some e₂ =>
      rw [he₁] at i₁; rw [he₂] at i₂
      have i₁' : Quotient.mk connSetoid e₁ = k := Option.some.inj i₁
      have i₂' : Quotient.mk connSetoid e₂ = k := Option.some.inj i₂
      have : SameConn e₁ e₂ := Quotient.exact (i₁'.trans i₂'.symm)
      exact affinity_http_sameConn H n f₁ f₂ e₁ e₂ he₁ he₂ this

-- non-vacuity: the two directions of one connection under each framing (Ethernet, raw IP with
-- `86 dd` at bytes 12–13, loopback), and two segments of one direction
example : ∃ e₁ e₂, analyzerEndpoints .http wOkA = some e₁ ∧ analyzerEndpoints .http wOkRev = some e₂ ∧
      SameConn e₁ e₂ ∧ e₁ ≠ e₂ := ⟨_, _, rfl, rfl, by decide, by decide⟩
example : ∃ e₁ e₂, analyzerEndpoints .http wRaw134a = some e₁ ∧
      analyzerEndpoints .http wRaw134Rev = some e₂ ∧ SameConn e₁ e₂ ∧ e₁ ≠ e₂ :=
  ⟨_, _, rfl, rfl, by decide, by decide⟩
example : ∃ e₁ e₂, analyzerEndpoints .http wNull4b = some e₁ ∧
      analyzerEndpoints .http wNull4Rev = some e₂ ∧ SameConn e₁ e₂ ∧ e₁ ≠ e₂ :=
  ⟨_, _, rfl, rfl, by decide, by decide⟩
example : analyzerEndpoints .http wNib5a = analyzerEndpoints .http wNib5b ∧
    analyzerEndpoints .http wNib5a ≠ none := by decide

/-- The full-strength statements hold. -/
theorem full_affinity_tcp : FullAffinityTcp := fun H n f₁ f₂ k _ => affinity_tcp H n f₁ f₂ k
theorem full_affinity_http : FullAffinityHttp := fun H n f₁ f₂ k _ => affinity_http H n f₁ f₂ k
theorem full_affinity_tls : FullAffinityTls := fun H n f₁ f₂ k _ => affinity_tls H n f₁ f₂ k

/-! ### (B) identity = endpoints of the well-formed frame of the declared link type -/

theorem affinity_wire_tcp (fr : Framing) (H : HashIn → Nat) (n : Nat) (f₁ f₂ : Bytes) (e₁ e₂ : Ep)
    (h₁ : LinkHonoured fr f₁) (h₂ : LinkHonoured fr f₂)
    (i₁ : wireEndpoints fr f₁ = some e₁) (i₂ : wireEndpoints fr f₂ = some e₂)
    (hs : e₁.src = e₂.src) : workerTcp H n f₁ = workerTcp H n f₂ := by
  unfold workerTcp
  rw [hashInputTcp_wire fr f₁ e₁ i₁ h₁, hashInputTcp_wire fr f₂ e₂ i₂ h₂, hs]

theorem affinity_wire_http (fr : Framing) (H : HashIn → Nat) (n : Nat) (f₁ f₂ : Bytes) (e₁ e₂ : Ep)
    (h₁ : LinkHonoured fr f₁) (h₂ : LinkHonoured fr f₂)
    (i₁ : wireEndpoints fr f₁ = some e₁) (i₂ : wireEndpoints fr f₂ = some e₂)
    (hc : SameConn e₁ e₂) : workerHttp H n f₁ = workerHttp H n f₂ := by
  unfold workerHttp
  rw [hashInputHttp_wire fr f₁ e₁ i₁ h₁, hashInputHttp_wire fr f₂ e₂ i₂ h₂]
  rcases hc with rfl | rfl
  · rfl
  · simp only [Ep.swap]; rw [canonFlow_swap]

theorem affinity_wire_tls (fr : Framing) (H : HashIn → Nat) (n : Nat) (f₁ f₂ : Bytes) (e : Ep)
    (h₁ : LinkHonoured fr f₁) (h₂ : LinkHonoured fr f₂)
    (i₁ : wireEndpoints fr f₁ = some e) (i₂ : wireEndpoints fr f₂ = some e) :
    workerTls H n f₁ = workerTls H n f₂ := by
  unfold workerTls
  rw [hashInputTls_wire fr f₁ e i₁ h₁, hashInputTls_wire fr f₂ e i₂ h₂]

/-- A well-formed TLS-bearing frame which the parser takes for its link type is never discarded by
the TLS dispatcher. -/
theorem wire_tls_not_discarded (fr : Framing) (H : HashIn → Nat) (n : Nat) (f : Bytes) (e : Ep)
    (h : LinkHonoured fr f) (i : wireEndpoints fr f = some e) : (workerTls H n f).isSome := by
  unfold workerTls; rw [hashInputTls_wire fr f e i h]; rfl

/-- Ethernet needs no hypothesis at all: well-formed Ethernet frames of one connection (HTTP: either
direction) reach the same worker. -/
theorem affinity_wire_eth (H : HashIn → Nat) (n : Nat) (f₁ f₂ : Bytes) (e₁ e₂ : Ep)
    (i₁ : wireEndpoints .eth f₁ = some e₁) (i₂ : wireEndpoints .eth f₂ = some e₂) :
    (e₁.src = e₂.src → workerTcp H n f₁ = workerTcp H n f₂) ∧
    (SameConn e₁ e₂ → workerHttp H n f₁ = workerHttp H n f₂) ∧
    (e₁ = e₂ → workerTls H n f₁ = workerTls H n f₂ ∧ (workerTls H n f₁).isSome) := by
  have h₁ := linkHonoured_eth f₁ e₁ i₁
  have h₂ := linkHonoured_eth f₂ e₂ i₂
  refine ⟨affinity_wire_tcp .eth H n f₁ f₂ e₁ e₂ h₁ h₂ i₁ i₂,
    affinity_wire_http .eth H n f₁ f₂ e₁ e₂ h₁ h₂ i₁ i₂, ?_⟩
  rintro rfl
  exact ⟨affinity_wire_tls .eth H n f₁ f₂ e₁ h₁ h₂ i₁ i₂, wire_tls_not_discarded .eth H n f₁ e₁ h₁ i₁⟩

/-- Raw IP: the hypothesis is exactly that the parser's Ethernet strategy does not fire. -/
theorem affinity_wire_raw (H : HashIn → Nat) (n : Nat) (f₁ f₂ : Bytes) (e₁ e₂ : Ep)
    (h₁ : tryEthernet f₁ = none) (h₂ : tryEthernet f₂ = none)
    (i₁ : wireEndpoints .raw f₁ = some e₁) (i₂ : wireEndpoints .raw f₂ = some e₂) :
    (e₁.src = e₂.src → workerTcp H n f₁ = workerTcp H n f₂) ∧
    (SameConn e₁ e₂ → workerHttp H n f₁ = workerHttp H n f₂) ∧
    (e₁ = e₂ → workerTls H n f₁ = workerTls H n f₂ ∧ (workerTls H n f₁).isSome) := by
  have h₁ := (linkHonoured_raw f₁ e₁ i₁).2 h₁
  have h₂ := (linkHonoured_raw f₂ e₂ i₂).2 h₂
  refine ⟨affinity_wire_tcp .raw H n f₁ f₂ e₁ e₂ h₁ h₂ i₁ i₂,
    affinity_wire_http .raw H n f₁ f₂ e₁ e₂ h₁ h₂ i₁ i₂, ?_⟩
  rintro rfl
  exact ⟨affinity_wire_tls .raw H n f₁ f₂ e₁ h₁ h₂ i₁ i₂, wire_tls_not_discarded .raw H n f₁ e₁ h₁ i₁⟩

example : LinkHonoured .raw wRaw9a ∧ LinkHonoured .raw wRaw9b ∧
    wireEndpoints .raw wRaw9a = wireEndpoints .raw wRaw9b ∧ wireEndpoints .raw wRaw9a ≠ none := by decide
-- raw IPv4 from 134.221.1.1 (bytes 12–13 = `86 dd`, 40 bytes): honoured, formerly class looksLikeEthernet
example : LinkHonoured .raw wRaw134a ∧ LinkHonoured .raw wRaw134b ∧
    (wireEndpoints .raw wRaw134a).map (·.src) = (wireEndpoints .raw wRaw134b).map (·.src) ∧
    wireEndpoints .raw wRaw134a ≠ none := by decide
example : wireEndpoints .eth wOkA = analyzerEndpoints .http wOkA ∧ wireEndpoints .eth wOkA ≠ none := by decide
-- loopback `1e 00 00 00` (little-endian AF_INET6 = 30) + IPv6, formerly class nullFraming
example : LinkHonoured .null wNull6a ∧ LinkHonoured .null wNull6b ∧
    wireEndpoints .null wNull6a = wireEndpoints .null wNull6b ∧ wireEndpoints .null wNull6a ≠ none := by decide

/-! ### regressions: the witnesses of the former known-finding classes (first cases of the harness) -/

/-- former KF.C18.looksLikeEthernet: raw IPv4 from 134.221.1.1, a bare SYN and its retransmission
(40-byte frames, bytes 12–13 = `86 dd`): the analyzer decodes raw IPv4 with one source address; the
hashers now do too (they used to hash the whole frame). -/
theorem looksLikeEthernet_regression :
    identityTcp wRaw134a = identityTcp wRaw134b ∧ identityTcp wRaw134a ≠ none ∧
    hashInputTcp wRaw134a = hashInputTcp wRaw134b ∧ hashInputHttp wRaw134a = hashInputHttp wRaw134b ∧
    hashInputTls wRaw134a = hashInputTls wRaw134b ∧ hashInputTls wRaw134a ≠ none ∧
    hashInputHttp wRaw134a = hashInputHttp wRaw134Rev := by decide

/-- former KF.C18.nullFraming: loopback frames, two segments and the reverse direction. -/
theorem nullFraming_regression :
    identityTcp wNull4a = identityTcp wNull4b ∧ identityTcp wNull4a ≠ none ∧
    hashInputTcp wNull4a = hashInputTcp wNull4b ∧ hashInputHttp wNull4a = hashInputHttp wNull4b ∧
    hashInputTls wNull4a = hashInputTls wNull4b ∧ hashInputTls wNull4a ≠ none ∧
    hashInputHttp wNull4a = hashInputHttp wNull4Rev ∧
    hashInputTls wNull6a = hashInputTls wNull6b ∧ hashInputTls wNull6a ≠ none := by decide

/-- former KF.C18.versionNibble: ethertype 0800, version nibble 5 — analysed (and now hashed) by
ethertype. -/
theorem versionNibble_regression :
    identityTcp wNib5a = identityTcp wNib5b ∧ identityTcp wNib5a ≠ none ∧
    hashInputTcp wNib5a = hashInputTcp wNib5b ∧ hashInputHttp wNib5a = hashInputHttp wNib5b ∧
    hashInputTls wNib5a = hashInputTls wNib5b ∧ hashInputTls wNib5a ≠ none := by decide

/-- IHL = 0 (former class `KF.C18.ihlBelow5`, fixed by 68f354c): two segments of one connection
hash the ports the analyzer sees and reach the same worker. -/
theorem ihl0_regression :
    analyzerEndpoints .http wIhl0a = analyzerEndpoints .http wIhl0b ∧
    analyzerEndpoints .http wIhl0a ≠ none ∧
    hashInputHttp wIhl0a = hashInputHttp wIhl0b ∧ hashInputTls wIhl0a = hashInputTls wIhl0b := by decide

/-- What (B) still needs `LinkHonoured` for — a limit of `parse_packet`, which sniffs the link type
from the bytes, not of the dispatch hash: a raw IPv4 frame from 8.0.1.1 of 40 bytes has `08 00` at
bytes 12–13 and is *analysed* as Ethernet (protocol byte 0x50: not TCP, no analyzer looks at it). The
hashers follow the parser; relative to the frame's RFC endpoints two segments still get different
workers, but there is no analysis whose state could be split. -/
theorem sniffing_limit_example :
    ¬ LinkHonoured .raw wRaw8a ∧ (parsePacket wRaw8a).map (·.fr) = some .eth ∧
    analyzerEndpoints .tcp wRaw8a = none ∧ analyzerEndpoints .http wRaw8a = none ∧
    analyzerEndpoints .tls wRaw8b = none ∧
    wireEndpoints .raw wRaw8a = wireEndpoints .raw wRaw8b ∧ wireEndpoints .raw wRaw8a ≠ none ∧
    workerTcp sumH 16 wRaw8a ≠ workerTcp sumH 16 wRaw8b := by decide

/-! ### tie to the source (mechanism T) -/
open Huginn.Gen.Wire in
/-- The literals of the repaired source, regenerated on every run, are the ones the model uses:
`locate_ip` (whose whole shape the extractor matches), the way the three hashers consume it, the
flow hashers' offsets, and `packet_parser.rs`. -/
theorem gen_constants_match :
    -- locate_ip, Ethernet strategy
    liEthMin = 14 ∧ liEthB0 = 12 ∧ liEthB1 = 13 ∧
    liEthType4 = 0x0800 ∧ liEth4Need = 34 ∧ liEth4Off = 14 ∧ liEth4Ver = 4 ∧
    liEthType6 = 0x86DD ∧ liEth6Need = 54 ∧ liEth6Off = 14 ∧ liEth6Ver = 6 ∧
    -- raw IP strategy
    liRawMin = 20 ∧ liRawIdx = 0 ∧ liRawShift = 4 ∧ liRaw4Nib = 4 ∧ liRaw4Off = 0 ∧ liRaw4Ver = 4 ∧
    liRaw6Nib = 6 ∧ liRaw6Need = 40 ∧ liRaw6Off = 0 ∧ liRaw6Ver = 6 ∧
    -- loopback strategy
    liNullMin = 24 ∧ liNull0 = 0x1e ∧ liNull1 = 0 ∧ liNullIdx = 4 ∧ liNullShift = 4 ∧
    liNull4Nib = 4 ∧ liNull4Off = 4 ∧ liNull4Ver = 4 ∧ liNull6Nib = 6 ∧ liNull6Need = 44 ∧ liNull6Off = 4 ∧
    liNull6Ver = 6 ∧
    -- the three hashers
    phTcpV4Need = 16 ∧ phTcpV4From = 12 ∧ phTcpV4To = 16 ∧ phTcpV6Need = 24 ∧ phTcpV6From = 8 ∧
    phTcpV6To = 24 ∧ phHttpMin = 40 ∧ phTlsMin = 40 ∧
    phHttpIhlMul = 4 ∧ phHttpIhlMin = 20 ∧ phTlsIhlMul = 4 ∧ phTlsIhlMin = 20 ∧
    -- packet_parser.rs
    ppEthMin = 14 ∧ ppEthOff = 14 ∧ ppRawMin = 20 ∧ ppNullMin = 24 ∧
    ppNull0 = 0x1e ∧ ppNull1 = 0 ∧ ppNullOff = 4 := by decide

open Huginn.Gen.Wire in
/-- The hashers' literals against the parser's (both regenerated): same minimum sizes, offsets and
loopback signature; the extra length guards are the parser's offset plus pnet's minimum header size
(`Ipv4Packet::new` 20, `Ipv6Packet::new` 40 — third-party constants of the model). -/
theorem gen_locate_vs_parser :
    liEthMin = ppEthMin ∧ liEth4Off = ppEthOff ∧ liEth6Off = ppEthOff ∧
    liEth4Need = ppEthOff + 20 ∧ liEth6Need = ppEthOff + 40 ∧
    liRawMin = ppRawMin ∧ liRaw6Need = 40 ∧
    liNullMin = ppNullMin ∧ liNull0 = ppNull0 ∧ liNull1 = ppNull1 ∧ liNullIdx = ppNullOff ∧
    liNull4Off = ppNullOff ∧ liNull6Off = ppNullOff ∧ liNull6Need = ppNullOff + 40 := by decide

end Huginn.Props.C18
