import Huginn.Lemmas.Wire
import Huginn.Gen.Wire
set_option linter.unusedSimpArgs false
set_option maxRecDepth 100000
/-
C18 (pure half: affinity only) — the worker chosen for a packet is a function of its connection
identity alone and a valid worker index. Property theorems only (helpers: Huginn/Lemmas/Wire.lean).
The concurrent accounting half of C18 (queued / dropped / counters under all interleavings) is a
separate development on top of this hash model.

Every theorem holds for *every* hash function `H : HashIn → Nat` (`DefaultHasher` is one instance,
implemented in Model/SipHash.lean only so that the driver can compare indices exactly).

Two notions of identity, both proved:
 (A) what the analyzer itself decodes (`analyzerEndpoints`): frames the analyzer keys to the same
     connection state reach the same worker — what parallel ≡ sequential (C10) needs;
 (B) the endpoints of a well-formed frame of a declared link type (`wireEndpoints`, read off the
     RFCs): what the property statement says literally.
The full statements are false for the code as it is; the exclusion classes `KF.C18.*` each have a
kernel-checked witness below. (The former class IPv4 IHL < 5 was removed by fix 68f354c: the
hashers read the ports at max(ihl*4, 20) like pnet.)
-/
namespace Huginn.Props.C18
open Huginn.Wire Huginn.Wire.Spec

/-! ### valid worker index -/

theorem remOr0_lt (h n : Nat) (hn : 0 < n) : remOr0 h n < n := by
  unfold remOr0; rw [if_neg (by omega)]; exact Nat.mod_lt _ hn

/-- **worker_lt.** For every hash function, worker count `n > 0` and frame the index is `< n`. -/
theorem worker_tcp_lt (H : HashIn → Nat) (n : Nat) (hn : 0 < n) (p : Bytes) : workerTcp H n p < n :=
  remOr0_lt _ n hn
theorem worker_http_lt (H : HashIn → Nat) (n : Nat) (hn : 0 < n) (p : Bytes) : workerHttp H n p < n :=
  remOr0_lt _ n hn
theorem worker_tls_lt (H : HashIn → Nat) (n : Nat) (hn : 0 < n) (p : Bytes) (k : Nat)
    (h : workerTls H n p = some k) : k < n := by
  unfold workerTls at h
  cases hi : hashInputTls p with
  | none => simp [hi] at h
  | some i => simp [hi] at h; rw [← h]; exact remOr0_lt _ n hn

example : workerTls sumH 16 wOkA = some 15 ∧ workerTcp sumH 16 wOkA = 11 := by decide

/-! ### (A) identity = what the analyzer sees -/

/-- The full statements (false, see the witnesses). -/
def FullAffinityTcp : Prop :=
  ∀ (H : HashIn → Nat) (n : Nat) (f₁ f₂ : Bytes) (k : IpVer × Bytes), 0 < n →
    identityTcp f₁ = some k → identityTcp f₂ = some k → workerTcp H n f₁ = workerTcp H n f₂
def FullAffinityHttp : Prop :=
  ∀ (H : HashIn → Nat) (n : Nat) (f₁ f₂ : Bytes) (k : Conn), 0 < n →
    identityHttp f₁ = some k → identityHttp f₂ = some k → workerHttp H n f₁ = workerHttp H n f₂
def FullAffinityTls : Prop :=
  ∀ (H : HashIn → Nat) (n : Nat) (f₁ f₂ : Bytes) (k : Ep), 0 < n →
    identityTls f₁ = some k → identityTls f₂ = some k → workerTls H n f₁ = workerTls H n f₂

/-- **affinity_tcp.** Two frames in which the TCP analyzer sees the same source address reach the
same worker, for every hash function and worker count — whatever their payload, flags, lengths,
ports, destination, IP header length. (Outside the framing classes.) -/
theorem affinity_tcp_partial (H : HashIn → Nat) (n : Nat) (f₁ f₂ : Bytes) (k : IpVer × Bytes)
    (h₁ : ¬ KF.C18.seen .tcp f₁) (h₂ : ¬ KF.C18.seen .tcp f₂)
    (i₁ : identityTcp f₁ = some k) (i₂ : identityTcp f₂ = some k) :
    workerTcp H n f₁ = workerTcp H n f₂ := by
  unfold identityTcp analyzerEndpoints at i₁ i₂
  cases hv₁ : analyzerView .tcp f₁ with
  | none => simp [hv₁] at i₁
  | some v₁ =>
    cases hv₂ : analyzerView .tcp f₂ with
    | none => simp [hv₂] at i₂
    | some v₂ =>
      simp only [hv₁, hv₂, Option.map_some, Option.some.injEq, View.ep] at i₁ i₂
      unfold workerTcp
      rw [hashInputTcp_seen .tcp f₁ v₁ hv₁ h₁, hashInputTcp_seen .tcp f₂ v₂ hv₂ h₂]
      have : v₁.loc.src = v₂.loc.src := by
        have a := congrArg Prod.snd i₁; have b := congrArg Prod.snd i₂
        simp only at a b; rw [a, b]
      rw [this]

example : ¬ KF.C18.seen .tcp wOkA ∧ ¬ KF.C18.seen .tcp wOkB ∧
    identityTcp wOkA = identityTcp wOkB ∧ identityTcp wOkA ≠ none ∧ wOkA ≠ wOkB := by decide

/-- **affinity_tls.** Same directed 4-tuple as the TLS analyzer sees it ⇒ same worker (or both
discarded). -/
theorem affinity_tls_partial (H : HashIn → Nat) (n : Nat) (f₁ f₂ : Bytes) (k : Ep)
    (h₁ : ¬ KF.C18.seen .tls f₁) (h₂ : ¬ KF.C18.seen .tls f₂)
    (i₁ : identityTls f₁ = some k) (i₂ : identityTls f₂ = some k) :
    workerTls H n f₁ = workerTls H n f₂ := by
  unfold identityTls analyzerEndpoints at i₁ i₂
  cases hv₁ : analyzerView .tls f₁ with
  | none => simp [hv₁] at i₁
  | some v₁ =>
    cases hv₂ : analyzerView .tls f₂ with
    | none => simp [hv₂] at i₂
    | some v₂ =>
      simp only [hv₁, hv₂, Option.map_some, Option.some.injEq] at i₁ i₂
      unfold workerTls
      rw [hashInputTls_seen .tls f₁ v₁ hv₁ h₁, hashInputTls_seen .tls f₂ v₂ hv₂ h₂, i₁, i₂]

/-- **affinity_http**, relational form: the endpoints the HTTP analyzer sees in the two frames are
equal up to direction ⇒ same worker. -/
theorem affinity_http_sameConn (H : HashIn → Nat) (n : Nat) (f₁ f₂ : Bytes) (e₁ e₂ : Ep)
    (h₁ : ¬ KF.C18.seen .http f₁) (h₂ : ¬ KF.C18.seen .http f₂)
    (i₁ : analyzerEndpoints .http f₁ = some e₁) (i₂ : analyzerEndpoints .http f₂ = some e₂)
    (hc : SameConn e₁ e₂) : workerHttp H n f₁ = workerHttp H n f₂ := by
  unfold analyzerEndpoints at i₁ i₂
  cases hv₁ : analyzerView .http f₁ with
  | none => simp [hv₁] at i₁
  | some v₁ =>
    cases hv₂ : analyzerView .http f₂ with
    | none => simp [hv₂] at i₂
    | some v₂ =>
      simp only [hv₁, hv₂, Option.map_some, Option.some.injEq] at i₁ i₂
      unfold workerHttp
      rw [hashInputHttp_seen .http f₁ v₁ hv₁ h₁, hashInputHttp_seen .http f₂ v₂ hv₂ h₂, i₁, i₂]
      rcases hc with rfl | rfl
      · rfl
      · simp only [Ep.swap]
        rw [canonFlow_swap]

/-- **affinity_http** in the `identity = some k` form, `k` an unordered endpoint pair. -/
theorem affinity_http_partial (H : HashIn → Nat) (n : Nat) (f₁ f₂ : Bytes) (k : Conn)
    (h₁ : ¬ KF.C18.seen .http f₁) (h₂ : ¬ KF.C18.seen .http f₂)
    (i₁ : identityHttp f₁ = some k) (i₂ : identityHttp f₂ = some k) :
    workerHttp H n f₁ = workerHttp H n f₂ := by
  unfold identityHttp at i₁ i₂
  cases he₁ : analyzerEndpoints .http f₁ with
  | none => rw [he₁] at i₁; cases i₁
  | some e₁ =>
    cases he₂ : analyzerEndpoints .http f₂ with
    | none => rw [he₂] at i₂; cases i₂
    | some e₂ =>
      rw [he₁] at i₁; rw [he₂] at i₂
      have i₁' : Quotient.mk connSetoid e₁ = k := Option.some.inj i₁
      have i₂' : Quotient.mk connSetoid e₂ = k := Option.some.inj i₂
      have : SameConn e₁ e₂ := Quotient.exact (i₁'.trans i₂'.symm)
      exact affinity_http_sameConn H n f₁ f₂ e₁ e₂ h₁ h₂ he₁ he₂ this

-- non-vacuity: two segments of one connection, and its two directions
example : ¬ KF.C18.seen .http wOkA ∧ ¬ KF.C18.seen .http wOkRev ∧
    (∃ e₁ e₂, analyzerEndpoints .http wOkA = some e₁ ∧ analyzerEndpoints .http wOkRev = some e₂ ∧
      SameConn e₁ e₂ ∧ e₁ ≠ e₂) := by
  refine ⟨by decide, by decide, _, _, rfl, rfl, by decide, by decide⟩
example : identityTls wOkB ≠ none ∧ ¬ KF.C18.seen .tls wOkB := by decide

/-! ### (B) identity = endpoints of the well-formed frame of the declared link type -/

theorem affinity_wire_tcp (fr : Framing) (H : HashIn → Nat) (n : Nat) (f₁ f₂ : Bytes) (e₁ e₂ : Ep)
    (h₁ : ¬ KF.C18.wire fr f₁) (h₂ : ¬ KF.C18.wire fr f₂)
    (i₁ : wireEndpoints fr f₁ = some e₁) (i₂ : wireEndpoints fr f₂ = some e₂)
    (hs : e₁.src = e₂.src) : workerTcp H n f₁ = workerTcp H n f₂ := by
  unfold workerTcp
  rw [hashInputTcp_wire fr f₁ e₁ i₁ h₁, hashInputTcp_wire fr f₂ e₂ i₂ h₂, hs]

theorem affinity_wire_http (fr : Framing) (H : HashIn → Nat) (n : Nat) (f₁ f₂ : Bytes) (e₁ e₂ : Ep)
    (h₁ : ¬ KF.C18.wire fr f₁) (h₂ : ¬ KF.C18.wire fr f₂)
    (i₁ : wireEndpoints fr f₁ = some e₁) (i₂ : wireEndpoints fr f₂ = some e₂)
    (hc : SameConn e₁ e₂) : workerHttp H n f₁ = workerHttp H n f₂ := by
  unfold workerHttp
  rw [hashInputHttp_wire fr f₁ e₁ i₁ h₁, hashInputHttp_wire fr f₂ e₂ i₂ h₂]
  rcases hc with rfl | rfl
  · rfl
  · simp only [Ep.swap]; rw [canonFlow_swap]

theorem affinity_wire_tls (fr : Framing) (H : HashIn → Nat) (n : Nat) (f₁ f₂ : Bytes) (e : Ep)
    (h₁ : ¬ KF.C18.wire fr f₁) (h₂ : ¬ KF.C18.wire fr f₂)
    (i₁ : wireEndpoints fr f₁ = some e) (i₂ : wireEndpoints fr f₂ = some e) :
    workerTls H n f₁ = workerTls H n f₂ := by
  unfold workerTls
  rw [hashInputTls_wire fr f₁ e i₁ h₁, hashInputTls_wire fr f₂ e i₂ h₂]

/-- A well-formed TLS-bearing frame outside the classes is never discarded by the TLS dispatcher. -/
theorem wire_tls_not_discarded (fr : Framing) (H : HashIn → Nat) (n : Nat) (f : Bytes) (e : Ep)
    (h : ¬ KF.C18.wire fr f) (i : wireEndpoints fr f = some e) : (workerTls H n f).isSome := by
  unfold workerTls; rw [hashInputTls_wire fr f e i h]; rfl

example : ¬ KF.C18.wire .raw wRaw9a ∧ ¬ KF.C18.wire .raw wRaw9b ∧
    wireEndpoints .raw wRaw9a = wireEndpoints .raw wRaw9b ∧ wireEndpoints .raw wRaw9a ≠ none := by decide
example : ¬ KF.C18.wire .eth wOkA ∧ wireEndpoints .eth wOkA = analyzerEndpoints .http wOkA ∧
    wireEndpoints .eth wOkA ≠ none := by decide

/-! ### known findings: witnesses (replayed on the crates as the first cases of the harness) -/

/-- raw IPv4 from 8.0.1.1 (DESIGN §8 #18): well-formed raw frames of one connection, the hashers
take bytes 12–13 (`08 00`) for an ethertype and hash the whole frame. -/
theorem kf_looksLikeEthernet_wire_witness :
    KF.C18.wire .raw wRaw8a ∧ wireEndpoints .raw wRaw8a = wireEndpoints .raw wRaw8b ∧
    wireEndpoints .raw wRaw8a ≠ none ∧
    hashInputTcp wRaw8a ≠ hashInputTcp wRaw8b ∧ workerTcp sumH 16 wRaw8a ≠ workerTcp sumH 16 wRaw8b ∧
    workerHttp sumH 16 wRaw8a ≠ workerHttp sumH 16 wRaw8b := by decide

/-- raw IPv4 from 134.221.1.1, a bare SYN and its retransmission (40-byte frames): the analyzer
decodes them as raw IPv4 with one source address, the hashers as Ethernet. -/
theorem kf_looksLikeEthernet_witness :
    KF.C18.seen .tcp wRaw134a ∧ identityTcp wRaw134a = identityTcp wRaw134b ∧
    identityTcp wRaw134a ≠ none ∧ workerTcp sumH 16 wRaw134a ≠ workerTcp sumH 16 wRaw134b := by decide

theorem kf_nullFraming_witness :
    KF.C18.seen .tcp wNull4a ∧ identityTcp wNull4a = identityTcp wNull4b ∧
    identityTcp wNull4a ≠ none ∧ workerTcp sumH 16 wNull4a ≠ workerTcp sumH 16 wNull4b := by decide

theorem kf_versionNibble_witness :
    KF.C18.seen .tcp wNib5a ∧ identityTcp wNib5a = identityTcp wNib5b ∧
    identityTcp wNib5a ≠ none ∧ workerTcp sumH 16 wNib5a ≠ workerTcp sumH 16 wNib5b := by decide

/-- IHL = 0 (former class `KF.C18.ihlBelow5`, fixed by 68f354c): two segments of one connection
now hash the ports the analyzer sees and reach the same worker. -/
theorem ihl0_regression :
    ¬ KF.C18.seen .http wIhl0a ∧ ¬ KF.C18.seen .http wIhl0b ∧
    analyzerEndpoints .http wIhl0a = analyzerEndpoints .http wIhl0b ∧
    analyzerEndpoints .http wIhl0a ≠ none ∧
    hashInputHttp wIhl0a = hashInputHttp wIhl0b ∧ hashInputTls wIhl0a = hashInputTls wIhl0b := by decide

theorem full_tcp_fails : ¬ FullAffinityTcp := by
  intro h
  have w := kf_nullFraming_witness
  cases hk : identityTcp wNull4a with
  | none => exact w.2.2.1 hk
  | some k => exact w.2.2.2 (h sumH 16 wNull4a wNull4b k (by decide) hk (w.2.1 ▸ hk))

/-! ### tie to the source (mechanism T) -/
open Huginn.Gen.Wire in
theorem gen_constants_match :
    phEthGt = 14 ∧ phEthType4 = 0x0800 ∧ phEthType6 = 0x86DD ∧ phTcpMin = 20 ∧ phHttpMin = 40 ∧
    phTlsMin = 40 ∧ phHttpIhlMul = 4 ∧ phHttpIhlMin = 20 ∧ phTlsIhlMul = 4 ∧ phTlsIhlMin = 20 ∧
    ppEthMin = 14 ∧ ppEthOff = 14 ∧ ppRawMin = 20 ∧ ppNullMin = 24 ∧
    ppNull0 = 0x1e ∧ ppNull1 = 0 ∧ ppNullOff = 4 := by decide

end Huginn.Props.C18
