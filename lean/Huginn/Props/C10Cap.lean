import Huginn.Props.C10Http
import Huginn.Props.C07Cap
/-
C10 with the capacity condition stated on the traffic: for every schedule, if the dispatched packets
open at most `cap` distinct flows (keys in a list `K`, `K.length ≤ cap`), the pool delivers per worker
exactly the sequential analyzer's results for the packets routed to it — no eviction hypothesis.
-/
namespace Huginn.Props.C10
open Huginn.Flow Huginn.FlowProgs Huginn.Pool Huginn.Props.C07

theorem tls_pool_eq_seq_cap {R Sg : Type} (P : TlsParams R Sg) (hash : FlowKey → Nat) (n qcap cap : Nat)
    (ac ec : Bool) (sched : List (Step Seg)) (s : State (TtlMap FlowKey R × Unit) Seg (Option Sg))
    (hs : s = run ⟨n, qcap, fun p => some (hash (flowKeyOf p) % n), ac, ec⟩ (workerOf (tlsAnalyzer P) cap ())
      (init (workerOf (tlsAnalyzer P) cap ())) sched)
    (hq : Quiescent ⟨n, qcap, fun p => some (hash (flowKeyOf p) % n), ac, ec⟩ s)
    (hnodrop : ∀ x ∈ s.outcomes, ∃ w, x.2 = .queued w)
    (K : List FlowKey) (hK : ∀ p ∈ dispatchesOf sched, flowKeyOf p ∈ K) (hlen : K.length ≤ cap) (w : Nat) :
    (s.results.filter (fun r => decide (r.1 = w))).map (·.2) =
      ((tlsAnalyzer P).runOuts ({ cap := cap }, ()) (dispatchesOf sched)).filter
        (fun po => decide (some (hash (flowKeyOf po.1) % n) = some w)) :=
  tls_pool_eq_seq P hash n qcap cap ac ec sched s hs hq hnodrop
    (noEvict_of_keysIn (tlsAnalyzer P) K _ (fun p hp => tls_insertsIn P p K (hK p hp)) _ _
      (keysIn_empty K cap) hlen) w

theorem http_pool_eq_seq_cap {γ Q P : Type} (H : HttpParams γ Q P) (hri : ResultIndep H) (g : γ)
    (hash : Ep × Ep → Nat) (n qcap cap : Nat) (ac ec : Bool) (sched : List (Step Seg))
    (s : State (TtlMap FlowKey TcpFlow × γ) Seg (HttpOut Q P))
    (hs : s = run ⟨n, qcap, fun p => some (hash (httpConnOf p) % n), ac, ec⟩ (workerOf (httpAnalyzer H) cap g)
      (init (workerOf (httpAnalyzer H) cap g)) sched)
    (hq : Quiescent ⟨n, qcap, fun p => some (hash (httpConnOf p) % n), ac, ec⟩ s)
    (hnodrop : ∀ x ∈ s.outcomes, ∃ w, x.2 = .queued w)
    (K : List FlowKey) (hK : ∀ p ∈ dispatchesOf sched, p.syn = true → flowKeyOf p ∈ K)
    (hlen : K.length ≤ cap) (w : Nat) :
    (s.results.filter (fun r => decide (r.1 = w))).map (·.2) =
      ((httpAnalyzer H).runOuts ({ cap := cap }, g) (dispatchesOf sched)).filter
        (fun po => decide (some (hash (httpConnOf po.1) % n) = some w)) :=
  http_pool_eq_seq_full H hri g hash n qcap cap ac ec sched s hs hq hnodrop
    (noEvict_of_keysIn (httpAnalyzer H) K _ (fun p hp => http_insertsIn H p K (hK p hp)) _ _
      (keysIn_empty K cap) hlen) w

theorem tcp_pool_eq_seq_cap {U : Type} (P : UptimeParams U) (fc : Seg → Bool) (hash : Nat → Nat)
    (n qcap cap : Nat) (ac ec : Bool) (sched : List (Step Seg))
    (s : State (TtlMap TcpKey TsEntry × Unit) Seg (UptimeOut U))
    (hs : s = run ⟨n, qcap, fun p => some (hash p.src.addr % n), ac, ec⟩ (workerOf (tcpAnalyzer P fc) cap ())
      (init (workerOf (tcpAnalyzer P fc) cap ())) sched)
    (hq : Quiescent ⟨n, qcap, fun p => some (hash p.src.addr % n), ac, ec⟩ s)
    (hnodrop : ∀ x ∈ s.outcomes, ∃ w, x.2 = .queued w)
    (K : List TcpKey) (hK : ∀ p ∈ dispatchesOf sched, tcpKeyOf fc p ∈ K) (hlen : K.length ≤ cap) (w : Nat) :
    (s.results.filter (fun r => decide (r.1 = w))).map (·.2) =
      ((tcpAnalyzer P fc).runOuts ({ cap := cap }, ()) (dispatchesOf sched)).filter
        (fun po => decide (some (hash po.1.src.addr % n) = some w)) :=
  tcp_pool_eq_seq P fc hash n qcap cap ac ec sched s hs hq hnodrop
    (noEvict_of_keysIn (tcpAnalyzer P fc) K _ (fun p hp => tcp_insertsIn P fc p K (hK p hp)) _ _
      (keysIn_empty K cap) hlen) w

end Huginn.Props.C10
