import Huginn.Spec.SigText
/-
C06 — signature text round-trips; the database loads losslessly.  (theorems follow)
-/
namespace Huginn.Props.C06
open Huginn.Sig Huginn.SigText Huginn.SigText.Spec

theorem placeholder_true : True := trivial

end Huginn.Props.C06
