import Huginn.Lemmas.SigText
import Huginn.Lemmas.SigTextHttp
import Huginn.Lemmas.SigTextDoc
import Huginn.Lemmas.SigTextCanon
import Huginn.Lemmas.SigTextGrammar
import Huginn.Lemmas.SigTextBundledTcp
import Huginn.Lemmas.SigTextBundledHttpA
import Huginn.Lemmas.SigTextBundledHttpB
import Huginn.Lemmas.SigTextBundledHttpC
/-
C06 — signature text round-trips; the database loads losslessly.
Property theorems only; helper lemmas live in `Huginn/Lemmas/SigText*.lean`.
-/
namespace Huginn.Props.C06
open Huginn.Sig Huginn.SigText Huginn.SigText.Spec
set_option linter.unusedSimpArgs false

/-! ### the model's literals are the regenerated ones (mechanism T)

The plain-tag tables of the model *are* `Gen/Tokens.lean`.  The structured alternatives
(`parseTtl`, `parseWSize`, the `eol+n` / `?n` arms, the field sequences, the `Display` templates)
are written out in `Model/SigText.lean`; these theorems pin them to what the extractor found in
db_parse.rs / display.rs, so an edit there re-opens them. -/

theorem gen_ttl_arms : Huginn.Gen.Tokens.ttlParse =
    [("num-suffix", "-", 8, "Bad"), ("num-suffix", "+?", 8, "Guess"), ("num-sep-num", "+", 8, "Distance"),
     ("num", "", 8, "Value")] := by decide +kernel

theorem gen_window_arms : Huginn.Gen.Tokens.windowParse =
    [("tag", "*", 0, "Any"), ("prefix-num", "mss*", 8, "Mss"), ("prefix-num", "mtu*", 8, "Mtu"),
     ("prefix-num", "%", 16, "Mod"), ("num", "", 16, "Value")] := by decide +kernel

/-- `eol+n` first, then only plain tags, `?n` (range-checked like every other number) last -/
theorem gen_option_arms :
    Huginn.Gen.Tokens.tcpOptionParse.head? = some ("prefix-num", "eol+", 8, "Eol") ∧
    Huginn.Gen.Tokens.tcpOptionParse.getLast? = some ("prefix-num", "?", 8, "Unknown") ∧
    (Huginn.Gen.Tokens.tcpOptionParse.drop 1).dropLast.all (fun a => a.1 == "tag") = true := by decide +kernel

theorem gen_tcp_shape : Huginn.Gen.Tokens.tcpSigShape =
    ["parse_ip_version", "tag :", "parse_ttl", "tag :", "num 8", "tag :", "optnum * 16", "tag :",
     "parse_window_size", "tag ,", "optnum * 8", "tag :", "list0 , parse_tcp_option", "tag :",
     "list0 , parse_quirk", "tag :", "parse_payload_size"] := by decide +kernel

theorem gen_http_shape : Huginn.Gen.Tokens.httpSigShape =
    ["parse_http_version", "tag :", "list0 , parse_http_header", "tag :", "optlist0 , parse_http_header",
     "tag :", "rest"] := by decide +kernel

theorem gen_display_templates :
    Huginn.Gen.Tokens.ttlPrint = [("Value", "{}"), ("Distance", "{}+{}"), ("Guess", "{}+?"), ("Bad", "{}-")] ∧
    Huginn.Gen.Tokens.windowPrint =
      [("Mss", "mss*{}"), ("Mtu", "mtu*{}"), ("Value", "{}"), ("Mod", "%{}"), ("Any", "*")] ∧
    Huginn.Gen.Tokens.tcpOptionPrint.lookup "Eol" = some "eol+{}" ∧
    Huginn.Gen.Tokens.tcpOptionPrint.lookup "Unknown" = some "?{}" ∧
    Huginn.Gen.Tokens.tcpSigWrites =
      ["{}:{}:{}:", "{mss}", "*", ":{},", "{scale}", "*", ":", ",", "{o}", ":", ",", "{q}", ":{}"] ∧
    Huginn.Gen.Tokens.httpSigWrites = ["{}:", ",", "{h}", ":", ",", "{h}", ":{}"] ∧
    Huginn.Gen.Tokens.headerWrites = ["?", "=[{value}]"] ∧
    Huginn.Gen.Tokens.labelWrites = ["{}:{}:{}:{}"] := by decide +kernel

/-- no regenerated tag arm names a variant the model does not know (nothing silently dropped) -/
theorem gen_tables_complete :
    ipVersionTable.length = Huginn.Gen.Tokens.ipVersionParse.length ∧
    quirkTable.length = Huginn.Gen.Tokens.quirkParse.length ∧
    payloadTable.length = Huginn.Gen.Tokens.payloadParse.length ∧
    httpVersionTable.length = Huginn.Gen.Tokens.httpVersionParse.length ∧
    labelTypeTable.length = Huginn.Gen.Tokens.labelTypeParse.length ∧
    plainOptTable.length + 2 = Huginn.Gen.Tokens.tcpOptionParse.length := by decide +kernel

/-! ### TCP signatures -/

/-- **TCP signatures print to text that parses back to the same value** — every value whose
numeric fields fit their Rust widths; option and quirk lists of any length, also empty. -/
theorem tcp_print_parse (s : TcpSig) (h : WFTcp s) : parseTcpSigFull (printTcpSig s) = some s :=
  parseTcpSigFull_print s h

/-- non-vacuity: a well-formed signature with every kind of field (and one with empty lists) -/
example : WFTcp ⟨.v4, .distance 64 3, 0, some 1460, .mss 20, some 7, [.mss, .eol 2, .unknown 77], [.df, .nonZeroID], .zero⟩ ∧
    WFTcp ⟨.any, .bad 255, 255, none, .any, none, [], [], .any⟩ := by decide

/-- a printed TCP signature contains no whitespace at all, so it can be written after `sig = ` as it is:
the `LineSafe` condition of `WFDoc` is automatic for TCP signature lines -/
theorem tcp_print_line_safe (s : TcpSig) : LineSafe (printTcpSig s) := lineSafe_printTcpSig s

/-! ### HTTP signatures -/

/-- **HTTP signatures print to text that parses back to the same value** — every value over the
vocabulary (version 0/1/*, headers with non-empty names over `[A-Za-z0-9-]`, optional marks, bracketed
values without `]`, any `expsw`), both header lists of any length, **also empty**. -/
theorem http_print_parse_L (s : HttpSigL) (h : WFHttpL s) : parseHttpSigFullL (printHttpSigL s) = some s :=
  parseHttpSigFullL_print s h

/-- the same on the shared `Sig` types (`String` fields) -/
theorem http_print_parse (s : HttpSig) (h : WFHttp s) : parseHttpSigFull (printHttpSig s) = some s := by
  have := http_print_parse_L (.ofSig s) h
  unfold parseHttpSigFull printHttpSig
  rw [this]
  obtain ⟨ver, horder, habsent, expsw⟩ := s
  simp [HttpSigL.toSig, HttpSigL.ofSig, HeaderL.toSig, HeaderL.ofSig, String.ofList_toList, Function.comp_def]

/-- non-vacuity: a vocabulary value with every header shape, and the former finding (empty `horder`) -/
example : WFHttpL ⟨.any, [⟨false, "Host".toList, none⟩, ⟨true, "Accept".toList, some ",*/*;q=".toList⟩],
    [⟨false, "Keep-Alive".toList, none⟩], "Firefox/".toList⟩ ∧ WFHttpL ⟨.v11, [], [], ['x']⟩ ∧
    parseHttpSigFullL "1:::x".toList = some ⟨.v11, [], [], ['x']⟩ := by decide +kernel

/-! ### canonical lines: parse, then print -/

/-- **Every canonical TCP signature line that parses, prints back to the same line.**  `CanonTcp` is
lexical (it does not mention the parser): no numeral of the line has a leading zero. -/
theorem parse_print_canonical_tcp (l : Str) (sg : TcpSig) (h : parseTcpSigFull l = some sg)
    (hc : CanonTcp l) : printTcpSig sg = l :=
  parseTcpSig_canon h hc

/-- with `tcp_print_parse`: on canonical text and well-formed values, print and parse are inverse
bijections — a parsed canonical line is the *only* canonical line with that value -/
theorem parse_canonical_injective (l₁ l₂ : Str) (sg : TcpSig) (h₁ : parseTcpSigFull l₁ = some sg)
    (h₂ : parseTcpSigFull l₂ = some sg) (c₁ : CanonTcp l₁) (c₂ : CanonTcp l₂) : l₁ = l₂ := by
  rw [← parse_print_canonical_tcp l₁ sg h₁ c₁, ← parse_print_canonical_tcp l₂ sg h₂ c₂]

/-- non-vacuity: a bundled-style line is canonical (by the decidable check) and parses -/
example : CanonTcp "*:64:0:*:mss*20,10:mss,sok,ts,nop,ws,eol+2,?77:df,id+,0+,ts1-:0".toList ∧
    (parseTcpSigFull "*:64:0:*:mss*20,10:mss,sok,ts,nop,ws,eol+2,?77:df,id+,0+,ts1-:0".toList).isSome = true :=
  ⟨canonTcp_of_check (by decide +kernel), by decide +kernel⟩

/-- the hypothesis is needed: a leading zero parses but does not print back -/
example : (parseTcpSigFull "4:064:0:*:*,*:::0".toList).map printTcpSig = some "4:64:0:*:*,*:::0".toList := by
  decide +kernel

/-- **Every HTTP signature line that parses, prints back to the same line** — no canonicity condition:
the HTTP grammar has no redundant spellings (and, since a header needs a name, the `habsent` name filter
never removes anything). -/
theorem parse_print_http (l : Str) (s : HttpSigL) (h : parseHttpSigFullL l = some s) : printHttpSigL s = l :=
  parseHttpSig_inv h

example : parseHttpSigFullL "1:Host:,A:x".toList = none ∧ parseHttpSigFullL "1:::".toList = some ⟨.v11, [], [], []⟩ := by
  decide +kernel

/-! ### which texts are accepted: the parsers against the declarative grammars -/

/-- **`tcp::Signature::from_str` accepts exactly the lines of the TCP signature language** `Spec.TcpLine`
(a declarative description as concatenations of field spellings, written from the p0f format, not from
the parser) **and returns the value the line denotes** — every spelling (leading zeros too), any number of
options and quirks, also none.  In particular text that is not a signature is rejected. -/
theorem tcp_grammar (l : Str) (s : TcpSig) : parseTcpSigFull l = some s ↔ TcpLine l s :=
  ⟨line_of_parseTcpSigFull, parseTcpSigFull_of_line⟩

theorem tcp_not_line_rejected (l : Str) (h : ∀ s, ¬ TcpLine l s) : parseTcpSigFull l = none := by
  cases hp : parseTcpSigFull l with
  | none => rfl
  | some s => exact absurd ((tcp_grammar l s).mp hp) (h s)

/-- non-vacuity: a non-canonical line with every field form is in the language; the former finding
`?300` is rejected -/
example : TcpLine "4:64+03:0:1460:mss*020,7:mss,eol+1,?12:df,0+:+".toList
      ⟨.v4, .distance 64 3, 0, some 1460, .mss 20, some 7, [.mss, .eol 1, .unknown 12], [.df, .mustBeZero], .nonZero⟩ ∧
    parseTcpSigFull "*:64:0:*:*,0:?300::0".toList = none :=
  ⟨(tcp_grammar _ _).mp (by decide +kernel), by decide +kernel⟩

/-- **`http::Signature::from_str` accepts exactly the printed forms of the values over the vocabulary.** -/
theorem http_grammar (l : Str) (s : HttpSigL) :
    parseHttpSigFullL l = some s ↔ l = printHttpSigL s ∧ WFHttpL s := by
  constructor
  · intro h
    refine ⟨(parse_print_http l s h).symm, ?_⟩
    unfold parseHttpSigFullL full parseHttpSigL at h
    cases hp : parseHttpSigRawL l with
    | none => simp [hp] at h
    | some x =>
      obtain ⟨raw, r⟩ := x
      obtain ⟨rfl, _⟩ := parseHttpSigRawL_inv hp
      simp [hp] at h
      subst h
      rw [filterHabsent_id hp]
      exact wf_of_parse hp
  · rintro ⟨rfl, hw⟩
    exact http_print_parse_L s hw

/-! ### the database loader -/

/-- **Loading the text of a document yields exactly the classes, MTU groups, `ua_os` rules, labels and
signatures written in it** — in file order, each signature under the label and table it was written
under, nothing dropped, merged or duplicated — for **every** well-formed document: sections in any
order and repeated, comments, blank lines, any layout around `=`, `classes`/`ua_os` lines anywhere
(`ua_os` rules in p0f syntax `name` / `name=[text]`), unknown modules, `sys` lines.  Unbounded in the
number of sections, items, and in every text length. -/
theorem load_doc (d : Doc) (h : WFDoc d) : loadDb (renderDoc d) = .ok (flatten d) :=
  loadDb_renderDoc d h

/-- non-vacuity: a document with every kind of section and line, incl. the former findings
(`ua_os` rules with text, an HTTP signature with an empty header list) -/
example : ∃ d : Doc, WFDoc d ∧ d.sections.length = 5 ∧ (flatten d).tcpReq.length = 2 ∧
    (flatten d).mtu.length = 1 ∧ (flatten d).uaOs.length = 3 :=
  ⟨⟨[.comment [] " p0f".toList, .blank [], .classes {} ["win".toList, "unix".toList]],
    [.mtu [] [] [.label {} "Ethernet or modem".toList, .sig { pre := "   ".toList } 576, .sig {} 1500],
     .tcp [' '] ['\r'] false [.label {} ⟨.specified, some "unix".toList, "Linux".toList, some "3.x".toList⟩,
        .sig {} ⟨.any, .value 64, 0, none, .mss 20, some 10, [.mss, .sok, .ts, .nop, .ws], [.df, .nonZeroID], .zero⟩],
     .http [] [] false [.misc (.uaOs {} [("Linux".toList, none), ("iOS".toList, some "iPad".toList),
          ("Mac OS X".toList, none)]),
        .label {} ⟨.specified, none, "Firefox".toList, some "2.x".toList⟩, .sys {} "Windows,@unix".toList,
        .sig {} ⟨.any, [⟨false, "Host".toList, none⟩], [], "Firefox/".toList⟩,
        .sig {} ⟨.v11, [], [], ['x']⟩],
     .other [] [] "tls".toList none [.sig {} "anything".toList],
     .tcp [] [] false [.label {} ⟨.generic, none, "Again".toList, none⟩]]⟩,
   by decide +kernel⟩

/-- **A faulty `label`/`sig` line is an error, not a partial load**: after any well-formed document, if
the line is one `loadNamed` rejects in the state reached (see the `fault_*` theorems for the faults the
statement names), the whole text is rejected with that error — whatever follows it. -/
theorem load_rejects (d : Doc) (h : WFDoc d) {m : Str} {dd : Option Str}
    (hmod : lastMod none d.sections = some (m, dd))
    {pad : Pad} (hp : WFPad pad) {n : String} (hn : ItemName n) {v : Str} (hv : LineSafe v)
    {e : LoadErr} (he : loadNamed (flatten d) m dd (coreOf pad n.toList v) = .error e)
    (rest : List Str) (hrest : ∀ l ∈ rest, '\n' ∉ l) :
    loadDb (renderLines (docLines d ++ named pad n v :: rest)) = .error e :=
  loadDb_fault d h hmod hp hn hv he rest hrest

/-- a line outside any module (not blank, comment, `classes`, `ua_os` or a header) is an error -/
theorem load_rejects_outside (pre : List Misc) (hpre : ∀ m ∈ pre, WFMisc m) (l : Str)
    (h1 : trim l ≠ []) (h2 : (trim l).head? ≠ some ';') (h3 : (trim l).head? ≠ some '[')
    (h4 : stripPrefix classesKw (trim l) = none) (h5 : stripPrefix uaOsKw (trim l) = none)
    (hl : '\n' ∉ l) (rest : List Str) (hrest : ∀ x ∈ rest, '\n' ∉ x) :
    loadDb (renderLines (pre.map renderMisc ++ l :: rest)) = .error .outside :=
  loadDb_outside pre hpre l h1 h2 h3 h4 h5 hl rest hrest

/-- fault: a signature before any label of its table -/
theorem fault_sig_without_label (db : Db) {m : Str} {d : Option Str} {t : TableId}
    (ht : tableOf m d = some t) (hm : m ≠ mtuKw) {pad : Pad} (hp : WFPad pad) {v : Str} (hv : LineSafe v)
    (he : tableEmpty db t) :
    loadNamed db m d (coreOf pad "sig".toList v) = .error (noLabelErr t) :=
  loadNamed_sig_noLabel db ht hm hp hv he

/-- fault: a signature line whose text does not parse (by `tcp_grammar` / `http_grammar`: is not a line of
the signature language) -/
theorem fault_unparsable_sig (db : Db) {m : Str} {d : Option Str} {t : TableId}
    (ht : tableOf m d = some t) (hm : m ≠ mtuKw) {pad : Pad} (hp : WFPad pad) {v : Str} (hv : LineSafe v)
    (hne : ¬ tableEmpty db t) (hbad : sigParses t v = false) :
    loadNamed db m d (coreOf pad "sig".toList v) = .error (sigErr t) :=
  loadNamed_sig_unparsable db ht hm hp hv hne hbad

/-- fault: a label that does not parse (in any module except `mtu`, known or not) -/
theorem fault_unparsable_label (db : Db) {m : Str} (d : Option Str) (hm : m ≠ mtuKw) {pad : Pad}
    (hp : WFPad pad) {v : Str} (hv : LineSafe v) (hbad : parseLabelL v = none) :
    loadNamed db m d (coreOf pad "label".toList v) = .error .label :=
  loadNamed_label_unparsable db d hm hp hv hbad

/-- fault: an MTU value before any MTU label / that is not a 16-bit decimal number -/
theorem fault_mtu (db : Db) (d : Option Str) {pad : Pad} (hp : WFPad pad) {v : Str} (hv : LineSafe v) :
    (db.mtu = [] → loadNamed db mtuKw d (coreOf pad "sig".toList v) = .error .mtuNoLabel) ∧
    (db.mtu ≠ [] → mtuValueOk v = false →
      loadNamed db mtuKw d (coreOf pad "sig".toList v) = .error .mtuValue) :=
  ⟨loadNamed_mtu_noLabel db d hp hv, loadNamed_mtu_badValue db d hp hv⟩

/-- non-vacuity of `load_rejects`: `sig = 4:64:0:*:*,*:::` after `[tcp:request]` + a label; and a `ua_os`
line with an unparsable rest is an error now, not a silent truncation -/
example : loadDb (renderLines (docLines ⟨[], [.tcp [] [] false [.label {} ⟨.specified, none, ['x'], none⟩]]⟩ ++
    [named {} "sig" "4:64:0:*:*,*:::".toList, "sig = 4:64:0:*:*,*:::0".toList])) = .error .tcpSig ∧
    loadDb "ua_os = Linux,iOS=[iPad".toList = .error .uaOs := by
  decide +kernel

/-! ### every signature line of the bundled p0f.fp -/

/-- **Every `sig =` line of the `[tcp:*]` sections of the bundled p0f.fp** (regenerated into
`Gen/BundledChars.lean`) parses, and the parsed value prints back to exactly the line. -/
theorem bundled_roundtrip_tcp :
    ∀ t ∈ Huginn.Gen.BundledChars.tcpSigs, ∃ s, parseTcpSigFull t = some s ∧ printTcpSig s = t := by
  intro t ht
  apply tcpLineOk_iff.mp
  simp only [Huginn.Gen.BundledChars.tcpSigs, List.mem_append] at ht
  have := fun (l : List Str) (h : l.all tcpLineOk = true) (hm : t ∈ l) => List.all_eq_true.mp h t hm
  rcases ht with ((((((h | h) | h) | h) | h) | h) | h) | h
  · exact this _ tcp0_ok h
  · exact this _ tcp1_ok h
  · exact this _ tcp2_ok h
  · exact this _ tcp3_ok h
  · exact this _ tcp4_ok h
  · exact this _ tcp5_ok h
  · exact this _ tcp6_ok h
  · exact this _ tcp7_ok h

/-- the same for the `[http:*]` sections -/
theorem bundled_roundtrip_http :
    ∀ t ∈ Huginn.Gen.BundledChars.httpSigs, ∃ s, parseHttpSigFullL t = some s ∧ printHttpSigL s = t := by
  intro t ht
  apply httpLineOk_iff.mp
  simp only [Huginn.Gen.BundledChars.httpSigs, List.mem_append] at ht
  have := fun (l : List Str) (h : l.all httpLineOk = true) (hm : t ∈ l) => List.all_eq_true.mp h t hm
  rcases ht with ((((((h | h) | h) | h) | h) | h) | h) | h
  · exact this _ http0_ok h
  · exact this _ http1_ok h
  · exact this _ http2_ok h
  · exact this _ http3_ok h
  · exact this _ http4_ok h
  · exact this _ http5_ok h
  · exact this _ http6_ok h
  · exact this _ http7_ok h

/-- non-vacuity: the regenerated lists are not empty -/
example : Huginn.Gen.BundledChars.tcpSigs.length > 100 ∧ Huginn.Gen.BundledChars.httpSigs.length > 50 := by
  decide +kernel

end Huginn.Props.C06
