import Huginn.Lemmas.SigText
import Huginn.Lemmas.SigTextHttp
import Huginn.Lemmas.SigTextBundledTcp
import Huginn.Lemmas.SigTextBundledHttpA
import Huginn.Lemmas.SigTextBundledHttpB
import Huginn.Lemmas.SigTextBundledHttpC
/-
C06 — signature text round-trips; the database loads losslessly.
Property theorems only; helper lemmas live in `Huginn/Lemmas/SigText*.lean`.
-/
namespace Huginn.Props.C06
open Huginn.Sig Huginn.SigText Huginn.SigText.Spec
set_option linter.unusedSimpArgs false

/-! ### the model's literals are the regenerated ones (mechanism T)

The plain-tag tables of the model *are* `Gen/Tokens.lean`.  The structured alternatives
(`parseTtl`, `parseWSize`, the `eol+n` / `?n` arms, the field sequences, the `Display` templates)
are written out in `Model/SigText.lean`; these theorems pin them to what the extractor found in
db_parse.rs / display.rs, so an edit there re-opens them. -/

theorem gen_ttl_arms : Huginn.Gen.Tokens.ttlParse =
    [("num-suffix", "-", 8, "Bad"), ("num-suffix", "+?", 8, "Guess"), ("num-sep-num", "+", 8, "Distance"),
     ("num", "", 8, "Value")] := by decide +kernel

theorem gen_window_arms : Huginn.Gen.Tokens.windowParse =
    [("tag", "*", 0, "Any"), ("prefix-num", "mss*", 8, "Mss"), ("prefix-num", "mtu*", 8, "Mtu"),
     ("prefix-num", "%", 16, "Mod"), ("num", "", 16, "Value")] := by decide +kernel

/-- `eol+n` first, then only plain tags, `?n` (with `unwrap_or(0)`) last -/
theorem gen_option_arms :
    Huginn.Gen.Tokens.tcpOptionParse.head? = some ("prefix-num", "eol+", 8, "Eol") ∧
    Huginn.Gen.Tokens.tcpOptionParse.getLast? = some ("prefix-num-or0", "?", 8, "Unknown") ∧
    (Huginn.Gen.Tokens.tcpOptionParse.drop 1).dropLast.all (fun a => a.1 == "tag") = true := by decide +kernel

theorem gen_tcp_shape : Huginn.Gen.Tokens.tcpSigShape =
    ["parse_ip_version", "tag :", "parse_ttl", "tag :", "num 8", "tag :", "optnum * 16", "tag :",
     "parse_window_size", "tag ,", "optnum * 8", "tag :", "list0 , parse_tcp_option", "tag :",
     "list0 , parse_quirk", "tag :", "parse_payload_size"] := by decide +kernel

theorem gen_http_shape : Huginn.Gen.Tokens.httpSigShape =
    ["parse_http_version", "tag :", "list1 , parse_http_header", "tag :", "optlist0 , parse_http_header",
     "tag :", "rest"] := by decide +kernel

theorem gen_display_templates :
    Huginn.Gen.Tokens.ttlPrint = [("Value", "{}"), ("Distance", "{}+{}"), ("Guess", "{}+?"), ("Bad", "{}-")] ∧
    Huginn.Gen.Tokens.windowPrint =
      [("Mss", "mss*{}"), ("Mtu", "mtu*{}"), ("Value", "{}"), ("Mod", "%{}"), ("Any", "*")] ∧
    Huginn.Gen.Tokens.tcpOptionPrint.lookup "Eol" = some "eol+{}" ∧
    Huginn.Gen.Tokens.tcpOptionPrint.lookup "Unknown" = some "?{}" ∧
    Huginn.Gen.Tokens.tcpSigWrites =
      ["{}:{}:{}:", "{mss}", "*", ":{},", "{scale}", "*", ":", ",", "{o}", ":", ",", "{q}", ":{}"] ∧
    Huginn.Gen.Tokens.httpSigWrites = ["{}:", ",", "{h}", ":", ",", "{h}", ":{}"] ∧
    Huginn.Gen.Tokens.headerWrites = ["?", "=[{value}]"] ∧
    Huginn.Gen.Tokens.labelWrites = ["{}:{}:{}:{}"] := by decide +kernel

/-- no regenerated tag arm names a variant the model does not know (nothing silently dropped) -/
theorem gen_tables_complete :
    ipVersionTable.length = Huginn.Gen.Tokens.ipVersionParse.length ∧
    quirkTable.length = Huginn.Gen.Tokens.quirkParse.length ∧
    payloadTable.length = Huginn.Gen.Tokens.payloadParse.length ∧
    httpVersionTable.length = Huginn.Gen.Tokens.httpVersionParse.length ∧
    labelTypeTable.length = Huginn.Gen.Tokens.labelTypeParse.length ∧
    plainOptTable.length + 2 = Huginn.Gen.Tokens.tcpOptionParse.length := by decide +kernel

/-! ### TCP signatures -/

/-- **TCP signatures print to text that parses back to the same value** — every value whose
numeric fields fit their Rust widths; option and quirk lists of any length, also empty. -/
theorem tcp_print_parse (s : TcpSig) (h : WFTcp s) : parseTcpSigFull (printTcpSig s) = some s := by
  obtain ⟨ver, ittl, olen, mss, wsize, wscale, olayout, quirks, pclass⟩ := s
  have e : printTcpSig ⟨ver, ittl, olen, mss, wsize, wscale, olayout, quirks, pclass⟩ =
      printIpVersion ver ++ (':' :: (printTtl ittl ++ (':' :: (natDigits olen ++ (':' :: (printOptNat mss ++
      (':' :: (printWSize wsize ++ (',' :: (printOptNat wscale ++ (':' :: (joinComma printOpt olayout ++
      (':' :: (joinComma printQuirk quirks ++ (':' :: (printPayload pclass ++ [])))))))))))))))) := by
    simp [printTcpSig]
  have hol : ∀ r, sepList0 comma parseOpt (joinComma printOpt olayout ++ ':' :: r) = some (olayout, ':' :: r) :=
    fun r => sepList0_joinComma parseOpt printOpt olayout (Or.inr ⟨r, rfl⟩)
      (fun o ho r' hr' => parseOpt_print o (h.olayout o ho) hr') (fun _ => parseOpt_colon r)
  have hq : ∀ r, sepList0 comma parseQuirk (joinComma printQuirk quirks ++ ':' :: r) = some (quirks, ':' :: r) :=
    fun r => sepList0_joinComma parseQuirk printQuirk quirks (Or.inr ⟨r, rfl⟩)
      (fun q _ r' _ => parseQuirk_print q r') (fun _ => parseQuirk_colon r)
  unfold parseTcpSigFull full parseTcpSig
  rw [e]
  simp only [parseIpVersion_print, colon_cons, comma_cons, Option.bind_eq_bind, Option.bind_some,
    fun r => parseTtl_print ittl h.ittl (Delim.colon r),
    fun r => number_natDigits (show olen ≤ u8Max from h.olen) (NoDigit.cons (by decide : ':'.isDigit = false) r),
    fun r => optNum_print u16Max mss h.mss (Delim.colon r),
    fun r => parseWSize_print wsize h.wsize (Delim.comma r),
    fun r => optNum_print u8Max wscale h.wscale (Delim.colon r),
    hol, hq, parsePayload_print, Option.pure_def]

/-- non-vacuity: a well-formed signature with every kind of field (and one with empty lists) -/
example : WFTcp ⟨.v4, .distance 64 3, 0, some 1460, .mss 20, some 7, [.mss, .eol 2, .unknown 77], [.df, .nonZeroID], .zero⟩ ∧
    WFTcp ⟨.any, .bad 255, 255, none, .any, none, [], [], .any⟩ := by decide

/-! ### HTTP signatures -/

/-- The full statement of the property for HTTP signatures: every value over the vocabulary
(also with an empty `horder`) prints to text that parses back to itself.  **False on the current
tree** (`kf_httpEmptyHorder_witness`); proved outside `KF.C06.httpEmptyHorder` below. -/
def FullHttpPrintParse : Prop :=
  ∀ s : HttpSigL, WFHttpL s → parseHttpSigFullL (printHttpSigL s) = some s

/-- **HTTP signatures print to text that parses back to the same value**, for every value over
the vocabulary with at least one header in `horder`.  (Header names in `horder` may even be empty;
only `habsent` needs non-empty names.) -/
theorem http_print_parse_partial (s : HttpSigL) (hv : versionInGrammar s.version = true)
    (hh : ∀ h ∈ s.horder, WFHdrL h) (ha : ∀ h ∈ s.habsent, WFHdrL h ∧ h.name ≠ [])
    (hkf : ¬ Huginn.KF.C06.httpEmptyHorder s) :
    parseHttpSigFullL (printHttpSigL s) = some s := by
  obtain ⟨ver, horder, habsent, expsw⟩ := s
  cases horder with
  | nil => exact absurd rfl hkf
  | cons x xs =>
    have e : printHttpSigL ⟨ver, x :: xs, habsent, expsw⟩ =
        printHttpVersion ver ++ (':' :: (joinComma printHeaderL (x :: xs) ++
          (':' :: (joinComma printHeaderL habsent ++ (':' :: expsw))))) := by
      simp [printHttpSigL]
    have h1 : ∀ r, sepList1 comma parseHeaderL (joinComma printHeaderL (x :: xs) ++ ':' :: r) =
        some (x :: xs, ':' :: r) :=
      fun r => sepList1_joinComma parseHeaderL printHeaderL x xs (Or.inr ⟨r, rfl⟩)
        (fun h hm r' hr' => parseHeaderL_print h (hh h hm) hr')
    obtain ⟨L, h2, h3⟩ := habsent_parse habsent ha expsw
    unfold parseHttpSigFullL full parseHttpSigL
    rw [e]
    simp only [parseHttpVersion_print ver hv, colon_cons, Option.bind_eq_bind, Option.bind_some, h1, h2,
      rest, Option.pure_def, Option.getD_some, h3]

/-- the same on the shared `Sig` types (`String` fields) -/
theorem http_print_parse (s : HttpSig) (h : WFHttp s) (hkf : ¬ Huginn.KF.C06.httpEmptyHorder (.ofSig s)) :
    parseHttpSigFull (printHttpSig s) = some s := by
  have := http_print_parse_partial (.ofSig s) h.version (fun x hx => (h.horder x hx).1) h.habsent hkf
  unfold parseHttpSigFull printHttpSig
  rw [this]
  obtain ⟨ver, horder, habsent, expsw⟩ := s
  simp [HttpSigL.toSig, HttpSigL.ofSig, HeaderL.toSig, HeaderL.ofSig, String.ofList_toList, Function.comp_def]

/-- the full statement fails inside the known-finding class: `1:::x` comes back with one header -/
theorem kf_httpEmptyHorder_witness : ¬ FullHttpPrintParse := by
  intro h
  have := h ⟨.v11, [], [], ['x']⟩ (by decide)
  revert this
  decide +kernel

/-- non-vacuity of `http_print_parse_partial`: a vocabulary value with every header shape -/
example : WFHttpL ⟨.any, [⟨false, "Host".toList, none⟩, ⟨true, "Accept".toList, some ",*/*;q=".toList⟩],
    [⟨false, "Keep-Alive".toList, none⟩], "Firefox/".toList⟩ ∧
    ¬ Huginn.KF.C06.httpEmptyHorder ⟨.any, [⟨false, "Host".toList, none⟩], [], []⟩ := by decide +kernel

/-! ### every signature line of the bundled p0f.fp -/

/-- **Every `sig =` line of the `[tcp:*]` sections of the bundled p0f.fp** (regenerated into
`Gen/BundledChars.lean`) parses, and the parsed value prints back to exactly the line. -/
theorem bundled_roundtrip_tcp :
    ∀ t ∈ Huginn.Gen.BundledChars.tcpSigs, ∃ s, parseTcpSigFull t = some s ∧ printTcpSig s = t := by
  intro t ht
  apply tcpLineOk_iff.mp
  simp only [Huginn.Gen.BundledChars.tcpSigs, List.mem_append] at ht
  have := fun (l : List Str) (h : l.all tcpLineOk = true) (hm : t ∈ l) => List.all_eq_true.mp h t hm
  rcases ht with ((((((h | h) | h) | h) | h) | h) | h) | h
  · exact this _ tcp0_ok h
  · exact this _ tcp1_ok h
  · exact this _ tcp2_ok h
  · exact this _ tcp3_ok h
  · exact this _ tcp4_ok h
  · exact this _ tcp5_ok h
  · exact this _ tcp6_ok h
  · exact this _ tcp7_ok h

/-- the same for the `[http:*]` sections -/
theorem bundled_roundtrip_http :
    ∀ t ∈ Huginn.Gen.BundledChars.httpSigs, ∃ s, parseHttpSigFullL t = some s ∧ printHttpSigL s = t := by
  intro t ht
  apply httpLineOk_iff.mp
  simp only [Huginn.Gen.BundledChars.httpSigs, List.mem_append] at ht
  have := fun (l : List Str) (h : l.all httpLineOk = true) (hm : t ∈ l) => List.all_eq_true.mp h t hm
  rcases ht with ((((((h | h) | h) | h) | h) | h) | h) | h
  · exact this _ http0_ok h
  · exact this _ http1_ok h
  · exact this _ http2_ok h
  · exact this _ http3_ok h
  · exact this _ http4_ok h
  · exact this _ http5_ok h
  · exact this _ http6_ok h
  · exact this _ http7_ok h

/-- non-vacuity: the regenerated lists are not empty -/
example : Huginn.Gen.BundledChars.tcpSigs.length > 100 ∧ Huginn.Gen.BundledChars.httpSigs.length > 50 := by
  decide +kernel

end Huginn.Props.C06
