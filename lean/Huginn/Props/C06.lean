import Huginn.Lemmas.SigText
import Huginn.Lemmas.SigTextHttp
/-
C06 — signature text round-trips; the database loads losslessly.
Property theorems only; helper lemmas live in `Huginn/Lemmas/SigText*.lean`.
-/
namespace Huginn.Props.C06
open Huginn.Sig Huginn.SigText Huginn.SigText.Spec
set_option linter.unusedSimpArgs false

/-- **TCP signatures print to text that parses back to the same value** — every value whose
numeric fields fit their Rust widths; option and quirk lists of any length, also empty. -/
theorem tcp_print_parse (s : TcpSig) (h : WFTcp s) : parseTcpSigFull (printTcpSig s) = some s := by
  obtain ⟨ver, ittl, olen, mss, wsize, wscale, olayout, quirks, pclass⟩ := s
  have e : printTcpSig ⟨ver, ittl, olen, mss, wsize, wscale, olayout, quirks, pclass⟩ =
      printIpVersion ver ++ (':' :: (printTtl ittl ++ (':' :: (natDigits olen ++ (':' :: (printOptNat mss ++
      (':' :: (printWSize wsize ++ (',' :: (printOptNat wscale ++ (':' :: (joinComma printOpt olayout ++
      (':' :: (joinComma printQuirk quirks ++ (':' :: (printPayload pclass ++ [])))))))))))))))) := by
    simp [printTcpSig]
  have hol : ∀ r, sepList0 comma parseOpt (joinComma printOpt olayout ++ ':' :: r) = some (olayout, ':' :: r) :=
    fun r => sepList0_joinComma parseOpt printOpt olayout (Or.inr ⟨r, rfl⟩)
      (fun o ho r' hr' => parseOpt_print o (h.olayout o ho) hr') (fun _ => parseOpt_colon r)
  have hq : ∀ r, sepList0 comma parseQuirk (joinComma printQuirk quirks ++ ':' :: r) = some (quirks, ':' :: r) :=
    fun r => sepList0_joinComma parseQuirk printQuirk quirks (Or.inr ⟨r, rfl⟩)
      (fun q _ r' _ => parseQuirk_print q r') (fun _ => parseQuirk_colon r)
  unfold parseTcpSigFull full parseTcpSig
  rw [e]
  simp only [parseIpVersion_print, colon_cons, comma_cons, Option.bind_eq_bind, Option.bind_some,
    fun r => parseTtl_print ittl h.ittl (Delim.colon r),
    fun r => number_natDigits (show olen ≤ u8Max from h.olen) (NoDigit.cons (by decide : ':'.isDigit = false) r),
    fun r => optNum_print u16Max mss h.mss (Delim.colon r),
    fun r => parseWSize_print wsize h.wsize (Delim.comma r),
    fun r => optNum_print u8Max wscale h.wscale (Delim.colon r),
    hol, hq, parsePayload_print, Option.pure_def]

/-- non-vacuity: a well-formed signature with every kind of field (and one with empty lists) -/
example : WFTcp ⟨.v4, .distance 64 3, 0, some 1460, .mss 20, some 7, [.mss, .eol 2, .unknown 77], [.df, .nonZeroID], .zero⟩ ∧
    WFTcp ⟨.any, .bad 255, 255, none, .any, none, [], [], .any⟩ := by decide

/-! ### HTTP signatures -/

/-- The full statement of the property for HTTP signatures: every value over the vocabulary
(also with an empty `horder`) prints to text that parses back to itself.  **False on the current
tree** (`kf_httpEmptyHorder_witness`); proved outside `KF.C06.httpEmptyHorder` below. -/
def FullHttpPrintParse : Prop :=
  ∀ s : HttpSigL, WFHttpL s → parseHttpSigFullL (printHttpSigL s) = some s

/-- **HTTP signatures print to text that parses back to the same value**, for every value over
the vocabulary with at least one header in `horder`.  (Header names in `horder` may even be empty;
only `habsent` needs non-empty names.) -/
theorem http_print_parse_partial (s : HttpSigL) (hv : versionInGrammar s.version = true)
    (hh : ∀ h ∈ s.horder, WFHdrL h) (ha : ∀ h ∈ s.habsent, WFHdrL h ∧ h.name ≠ [])
    (hkf : ¬ Huginn.KF.C06.httpEmptyHorder s) :
    parseHttpSigFullL (printHttpSigL s) = some s := by
  obtain ⟨ver, horder, habsent, expsw⟩ := s
  cases horder with
  | nil => exact absurd rfl hkf
  | cons x xs =>
    have e : printHttpSigL ⟨ver, x :: xs, habsent, expsw⟩ =
        printHttpVersion ver ++ (':' :: (joinComma printHeaderL (x :: xs) ++
          (':' :: (joinComma printHeaderL habsent ++ (':' :: expsw))))) := by
      simp [printHttpSigL]
    have h1 : ∀ r, sepList1 comma parseHeaderL (joinComma printHeaderL (x :: xs) ++ ':' :: r) =
        some (x :: xs, ':' :: r) :=
      fun r => sepList1_joinComma parseHeaderL printHeaderL x xs (Or.inr ⟨r, rfl⟩)
        (fun h hm r' hr' => parseHeaderL_print h (hh h hm) hr')
    obtain ⟨L, h2, h3⟩ := habsent_parse habsent ha expsw
    unfold parseHttpSigFullL full parseHttpSigL
    rw [e]
    simp only [parseHttpVersion_print ver hv, colon_cons, Option.bind_eq_bind, Option.bind_some, h1, h2,
      rest, Option.pure_def, Option.getD_some, h3]

/-- the same on the shared `Sig` types (`String` fields) -/
theorem http_print_parse (s : HttpSig) (h : WFHttp s) (hkf : ¬ Huginn.KF.C06.httpEmptyHorder (.ofSig s)) :
    parseHttpSigFull (printHttpSig s) = some s := by
  have := http_print_parse_partial (.ofSig s) h.version (fun x hx => (h.horder x hx).1) h.habsent hkf
  unfold parseHttpSigFull printHttpSig
  rw [this]
  obtain ⟨ver, horder, habsent, expsw⟩ := s
  simp [HttpSigL.toSig, HttpSigL.ofSig, HeaderL.toSig, HeaderL.ofSig, String.ofList_toList, Function.comp_def]

/-- the full statement fails inside the known-finding class: `1:::x` comes back with one header -/
theorem kf_httpEmptyHorder_witness : ¬ FullHttpPrintParse := by
  intro h
  have := h ⟨.v11, [], [], ['x']⟩ (by decide)
  revert this
  decide +kernel

/-- non-vacuity of `http_print_parse_partial`: a vocabulary value with every header shape -/
example : WFHttpL ⟨.any, [⟨false, "Host".toList, none⟩, ⟨true, "Accept".toList, some ",*/*;q=".toList⟩],
    [⟨false, "Keep-Alive".toList, none⟩], "Firefox/".toList⟩ ∧
    ¬ Huginn.KF.C06.httpEmptyHorder ⟨.any, [⟨false, "Host".toList, none⟩], [], []⟩ := by decide +kernel

end Huginn.Props.C06
