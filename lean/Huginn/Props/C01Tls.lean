import Huginn.Model.TlsChecked
import Huginn.Lemmas.WireChecked
set_option linter.unusedSimpArgs false
/-
C01 (TLS byte level) — the ClientHello reader and the TLS entry functions never fault.

`Model/TlsChecked.lean` mirrors every indexing, slicing and `drain` expression of
tls_client_hello_reader.rs (`add_bytes`) and tls_process.rs (`is_tls_traffic`, the prefix selection of
`parse_tls_client_hello`, `process_tls_tcp`) with checked accessors that fail exactly where Rust
panics, behind the guards as written, and `saturating_add` as saturating addition on `usize`.
The theorems say: for every input — every byte string, every chunking, every parser, and every
reader state (in particular every state reachable from `new()`) — the run is `.ok`, and its value is
the one the total models (Model/TlsReader.lean, Model/Ja4.lean; the models C08 and C04 reason about)
compute. There are no loops in these functions. Third-party code (tls-parser, nom, ttl_cache, sha2)
is outside these theorems.
-/
namespace Huginn.Props.C01Tls
open Huginn.Tls Huginn.Gen.Tls Huginn.WireChecked Huginn.TlsChecked
open Huginn.Wire (byte slice)

variable {σ : Type}

private theorem upTo_ok (b : Bytes) (n : Nat) (h : n ≤ b.length) : upTo b n = .ok (b.take n) := by
  unfold upTo
  rw [range_ok b 0 n (Nat.zero_le _) h]
  simp [slice]

private theorem byte_lt (b : Bytes) (i : Nat) : byte b i < 256 := by
  unfold byte; exact (b.getD i 0).toNat_lt

/-- `record_len.saturating_add(5)` never saturates: it is the plain sum the total model uses. -/
theorem satAdd_record (b : Bytes) : satAdd (byte b 3 * 256 + byte b 4) 5 = be16 (b.getD 3 0) (b.getD 4 0) + 5 := by
  have h3 := byte_lt b 3
  have h4 := byte_lt b 4
  unfold satAdd usizeMax be16
  unfold byte at *
  omega

/-- **`TlsClientHelloReader::add_bytes`** — `buffer[0]`, `buffer[3]`, `buffer[4]`, `&buffer[..needed]`,
`buffer.drain(..needed)`, `saturating_add`: no fault, for every reader state, every chunk, every parser. -/
theorem add_bytes_no_fault (parse : Bytes → PR σ) (r : Reader σ) (data : Bytes) :
    addBytesC parse r data = .ok (r.addBytes parse data) := by
  unfold addBytesC Reader.addBytes Reader.addBytesT
  by_cases hs : r.signature.isSome = true
  · simp only [hs, if_true]; rfl
  · simp only [hs, Bool.false_eq_true, if_false]
    by_cases h5 : (r.buffer ++ data).length < readerHdrLen
    · simp only [h5, if_true]; rfl
    · have hlen : 5 ≤ (r.buffer ++ data).length := by
        have : readerHdrLen = 5 := rfl
        omega
      have e3 : readerLenHi = 3 := rfl
      have e4 : readerLenLo = 4 := rfl
      have e5 : readerLenAdd = 5 := rfl
      generalize hb : r.buffer ++ data = buf at *
      have i0 := idx_ok buf 0 (by omega)
      have i3 := idx_ok buf 3 (by omega)
      have i4 := idx_ok buf 4 (by omega)
      simp only [h5, if_false, e3, e4, e5, i0, i3, i4, ok_bind, satAdd_record, neededOf]
      have hbyte : byte buf 0 = (buf.getD 0 0).toNat := rfl
      rw [hbyte]
      by_cases hct : (buf.getD 0 0).toNat ≠ readerHandshake
      · simp only [hct, if_true, ne_eq, not_false_eq_true]; rfl
      · simp only [hct, if_false, ne_eq]
        by_cases hinc : buf.length < be16 (buf.getD 3 0) (buf.getD 4 0) + 5
        · simp only [hinc, if_true]; rfl
        · simp only [hinc, if_false]
          by_cases hbig : be16 (buf.getD 3 0) (buf.getD 4 0) + 5 > readerMaxNeeded
          · simp only [hbig, if_true]; rfl
          · have hu := upTo_ok buf (be16 (buf.getD 3 0) (buf.getD 4 0) + 5) (by omega)
            simp only [hbig, if_false, hu, ok_bind]
            cases parse (buf.take (be16 (buf.getD 3 0) (buf.getD 4 0) + 5)) <;> simp only [hu, ok_bind] <;> rfl

/-- … hence every history through one reader, from every state — in particular from `new()` — runs
without a fault and produces the outputs of the total model. -/
theorem reader_run_no_fault (parse : Bytes → PR σ) : ∀ (segs : List Bytes) (r : Reader σ),
    runC parse r segs = .ok (Reader.run parse r segs) := by
  intro segs
  induction segs with
  | nil => intro _; rfl
  | cons s rest ih =>
    intro r
    simp only [runC, add_bytes_no_fault, ok_bind, ih, Reader.run, pure_eq]

theorem reader_never_faults (parse : Bytes → PR σ) (segs : List Bytes) (e : Fault) :
    runC parse Reader.init segs ≠ .error e := by
  rw [reader_run_no_fault]; exact fun h => nomatch h

/-- **`is_tls_traffic`** — `payload[0]`, `payload[1]`, `payload[2]`: no fault, for every payload. -/
theorem is_tls_traffic_no_fault (p : Bytes) : isTlsTrafficC p = .ok (isTlsTraffic p) := by
  unfold isTlsTrafficC isTlsTraffic
  by_cases h5 : p.length < trafficMinLen
  · simp only [h5, if_true]; rfl
  · have hlen : 5 ≤ p.length := by
      have : trafficMinLen = 5 := rfl
      omega
    simp only [h5, if_false, idx_ok p 0 (by omega), ok_bind]
    have hbyte : byte p 0 = (p.getD 0 0).toNat := rfl
    rw [hbyte]
    by_cases hct : (p.getD 0 0).toNat = trafficHandshake
    · simp only [hct, if_true, be16At_ok p 1 2 (by omega) (by omega), ok_bind]; rfl
    · simp only [hct, if_false]; rfl

/-- the prefix selection of **`parse_tls_client_hello`** — `data[3]`, `data[4]`, `&data[..needed]`. -/
theorem parse_client_hello_no_fault (bodyOk : Nat → Bytes → Bool) (data : Bytes) :
    parseClientHelloC bodyOk data = .ok (parseClientHello bodyOk data) := by
  unfold parseClientHelloC prefixC parseClientHello
  by_cases h5 : data.length < 5
  · have : ¬ data.length ≥ 5 := by omega
    simp only [this, h5, if_true, if_false]; rfl
  · have hge : data.length ≥ 5 := by omega
    simp only [hge, h5, if_true, if_false, idx_ok data 3 (by omega), idx_ok data 4 (by omega), ok_bind,
      satAdd_record]
    by_cases hn : be16 (data.getD 3 0) (data.getD 4 0) + 5 ≤ data.length
    · have : data.length ≥ be16 (data.getD 3 0) (data.getD 4 0) + 5 := hn
      simp only [this, hn, if_true, upTo_ok data _ hn, ok_bind, pure_eq]
      cases parsePlaintext (data.take (be16 (data.getD 3 0) (data.getD 4 0) + 5)) with
      | none => rfl
      | some ms => dsimp only; cases firstHello ms <;> rfl
    · have : ¬ data.length ≥ be16 (data.getD 3 0) (data.getD 4 0) + 5 := by omega
      simp only [this, hn, if_false, ok_bind, pure_eq]
      cases parsePlaintext data with
      | none => rfl
      | some ms => dsimp only; cases firstHello ms <;> rfl

/-- **`process_tls_tcp`** — `payload[0]` (three uses) behind the emptiness checks. -/
theorem process_tls_tcp_no_fault (bodyOk : Nat → Bytes → Bool) (payload : Bytes) :
    processTlsTcpC bodyOk payload = .ok (processTlsTcp bodyOk payload) := by
  unfold processTlsTcpC processTlsTcp
  cases payload with
  | nil => rfl
  | cons b rest =>
    have hne : (b :: rest).isEmpty = false := rfl
    simp only [hne, Bool.false_eq_true, if_false, idx_ok (b :: rest) 0 (by simp), ok_bind,
      is_tls_traffic_no_fault, Bool.not_false, if_true]
    cases ht : isTlsTraffic (b :: rest) with
    | false =>
      simp only [Bool.not_false, if_true]
      by_cases h1 : byte (b :: rest) 0 = 0x17
      · simp only [h1, if_true]; rfl
      · simp only [h1, if_false]
        by_cases h2 : byte (b :: rest) 0 = 0x15
        · simp only [h2, if_true]; rfl
        · simp only [h2, if_false]; rfl
    | true =>
      simp only [Bool.not_true, Bool.false_eq_true, if_false, parse_client_hello_no_fault, ok_bind]
      cases parseClientHello bodyOk (b :: rest) <;> rfl

/-- In the form "the run is never an error", all entry points together. -/
theorem tls_never_faults (parse : Bytes → PR σ) (bodyOk : Nat → Bytes → Bool) (r : Reader σ) (p : Bytes)
    (segs : List Bytes) (e : Fault) :
    addBytesC parse r p ≠ .error e ∧ runC parse Reader.init segs ≠ .error e ∧ isTlsTrafficC p ≠ .error e ∧
    parseClientHelloC bodyOk p ≠ .error e ∧ processTlsTcpC bodyOk p ≠ .error e := by
  refine ⟨?_, reader_never_faults parse segs e, ?_, ?_, ?_⟩
  · rw [add_bytes_no_fault]; exact fun h => nomatch h
  · rw [is_tls_traffic_no_fault]; exact fun h => nomatch h
  · rw [parse_client_hello_no_fault]; exact fun h => nomatch h
  · rw [process_tls_tcp_no_fault]; exact fun h => nomatch h

/-! ### the checked accessors do fault when a guard is missing (non-vacuity) -/

/-- without the `len < 5` guard the same reads fault on a short buffer -/
example : (do let a ← idx ([0x16, 3] : Bytes) 0; let b ← idx ([0x16, 3] : Bytes) 3; pure (a + b) : M Nat)
    = .error (.index 3 2) := by decide
/-- `&buffer[..needed]` with `needed > len` is a fault of the checked model -/
example : upTo ([1, 2, 3] : Bytes) 4 = .error (.slice 0 4 3) := by decide
/-- a reachable run with every branch: short, incomplete, complete -/
example : runC (fun _ => (PR.notHello : PR Nat)) Reader.init [[0x16, 3], [1, 0, 1], [0xaa, 9]] =
    .ok [Out.none, Out.none, Out.none] := by decide

end Huginn.Props.C01Tls
