import Huginn.Lemmas.Pool
set_option linter.unusedSimpArgs false
/-
C18 (second half) — every packet handed to a pool is accounted for exactly once, under every
schedule of concurrent dispatchers and workers (Model/Pool.lean).
-/
namespace Huginn.Props.C18Pool
open Huginn.Pool
variable {S Pkt Out : Type}

/-- **Accounting at quiescence**, for every schedule: once every dispatch call has returned and the
queues are drained, the statistics agree with the outcomes the calls returned
(`dispatched` = #Queued, plus #Dropped-on-full for the pools that count attempts; `dropped` = #Dropped;
per-worker `dropped` = #Dropped-on-full at that worker, plus that worker's processing errors for a
pool that counts them — none of the three does, see `worker_dropped_exact` and `accounting_http`), every packet reported Queued has been analysed exactly once, by the
worker it was routed to, in dispatch order — and nothing else has been analysed. -/
theorem accounting (C : Cfg Pkt) (W : Worker S Pkt Out) (sched : List (Step Pkt))
    (s : State S Pkt Out) (hs : s = run C W (init W) sched) (hq : Quiescent C s) :
    s.dispatched = nQueued s + (if C.attemptCounted then nFull s else 0) ∧
    s.dropped = nFull s + nUnroutable s ∧
    (∀ w, s.wdropped w = nFullAt s w + (if C.errCountsWorkerDropped then s.werrs w else 0)) ∧
    (∀ w, s.processed w = queuedAt s w) ∧
    (∀ w, (s.results.filter (fun r => decide (r.1 = w))).map (·.2) = seqOuts W W.init (queuedAt s w)) := by
  subst hs
  obtain ⟨⟨c1, c2, c3⟩, iq, iw⟩ := inv_reachable C W sched
  obtain ⟨q1, q2, q3, q4⟩ := hq
  have hproc : ∀ w, (run C W (init W) sched).processed w = queuedAt (run C W (init W) sched) w := by
    intro w
    have := iq w
    rw [q4 w, List.append_nil] at this
    exact this
  refine ⟨by have := c1; simp only [q1] at this; simpa using this,
          by have := c2; simp only [q2] at this; simpa using this,
          fun w => by have := c3 w; simp only [q3 w] at this; simpa using this,
          hproc, fun w => ?_⟩
  rw [← hproc w]
  exact (iw w).1

/-- **Per-worker drops are exactly the queue-full drops**, for every pool that does not count
processing errors (all three since fixes/C18-http-worker-error-not-a-drop.patch): at quiescence
`workers[w].dropped` = the number of `Dropped` outcomes dispatch returned for a full queue of `w`,
however many queued packets failed analysis at `w`. -/
theorem worker_dropped_exact (C : Cfg Pkt) (W : Worker S Pkt Out) (sched : List (Step Pkt))
    (hC : C.errCountsWorkerDropped = false)
    (s : State S Pkt Out) (hs : s = run C W (init W) sched) (hq : Quiescent C s) (w : Nat) :
    s.wdropped w = nFullAt s w := by
  have := (accounting C W sched s hs hq).2.2.1 w
  simpa [hC] using this

/-- The statement of the property for the three pools as they are: the statistics are functions of
the outcomes the dispatch calls returned. -/
theorem accounting_http (n qcap : Nat) (route : Pkt → Nat) (W : Worker S Pkt Out) (sched : List (Step Pkt))
    (s : State S Pkt Out) (hs : s = run (httpPool n qcap route) W (init W) sched)
    (hq : Quiescent (httpPool n qcap route) s) :
    s.dispatched = nQueued s + nFull s ∧ s.dropped = nFull s ∧ (∀ w, s.wdropped w = nFullAt s w) ∧
    (∀ w, s.processed w = queuedAt s w) := by
  obtain ⟨a, b, _, d, _⟩ := accounting (httpPool n qcap route) W sched s hs hq
  have hu : nUnroutable s = 0 := by
    subst hs
    unfold nUnroutable
    rw [List.countP_eq_zero]
    intro x hx
    have := invRoute_reachable (httpPool n qcap route) W sched x hx
    cases hx2 : x.2 <;> simp_all [httpPool]
  refine ⟨by simpa [httpPool] using a, by omega, ?_, d⟩
  intro w
  exact worker_dropped_exact _ W sched rfl s hs hq w

theorem accounting_tcp (n qcap : Nat) (route : Pkt → Nat) (W : Worker S Pkt Out) (sched : List (Step Pkt))
    (s : State S Pkt Out) (hs : s = run (tcpPool n qcap route) W (init W) sched)
    (hq : Quiescent (tcpPool n qcap route) s) :
    s.dispatched = nQueued s ∧ s.dropped = nFull s + nUnroutable s ∧ (∀ w, s.wdropped w = nFullAt s w) ∧
    (∀ w, s.processed w = queuedAt s w) := by
  obtain ⟨a, b, _, d, _⟩ := accounting (tcpPool n qcap route) W sched s hs hq
  exact ⟨by simpa [tcpPool] using a, b, fun w => worker_dropped_exact _ W sched rfl s hs hq w, d⟩

theorem accounting_tls (n qcap : Nat) (route : Pkt → Option Nat) (W : Worker S Pkt Out)
    (sched : List (Step Pkt)) (s : State S Pkt Out) (hs : s = run (tlsPool n qcap route) W (init W) sched)
    (hq : Quiescent (tlsPool n qcap route) s) :
    s.dispatched = nQueued s + nFull s ∧ s.dropped = nFull s + nUnroutable s ∧
    (∀ w, s.wdropped w = nFullAt s w) ∧ (∀ w, s.processed w = queuedAt s w) := by
  obtain ⟨a, b, _, d, _⟩ := accounting (tlsPool n qcap route) W sched s hs hq
  exact ⟨by simpa [tlsPool] using a, b, fun w => worker_dropped_exact _ W sched rfl s hs hq w, d⟩

/-- **Safety at every moment** (not only at quiescence): what a worker has analysed so far is a
prefix of what was reported Queued for it; a Dropped packet is never analysed; the counters never
exceed the outcomes returned. -/
theorem never_more_than_queued (C : Cfg Pkt) (W : Worker S Pkt Out) (sched : List (Step Pkt)) (w : Nat)
    (s : State S Pkt Out) (hs : s = run C W (init W) sched) :
    s.processed w <+: queuedAt s w ∧
    s.dispatched ≤ nQueued s + (if C.attemptCounted then nFull s else 0) ∧
    s.dropped ≤ nFull s + nUnroutable s := by
  subst hs
  obtain ⟨⟨c1, c2, _⟩, iq, _⟩ := inv_reachable C W sched
  exact ⟨⟨_, iq w⟩, by omega, by omega⟩

/-- A packet is routed to a valid worker index whenever the routing function is `hash % n`. -/
theorem queued_worker_valid (C : Cfg Pkt) (W : Worker S Pkt Out) (sched : List (Step Pkt))
    (hroute : ∀ p w, C.route p = some w → w < C.n) :
    ∀ x ∈ (run C W (init W) sched).outcomes, ∀ w, x.2 = .queued w → w < C.n := by
  intro x hx w hw
  have := invRoute_reachable C W sched x hx
  rw [hw] at this
  exact hroute _ _ this

/-! ### non-vacuity: a two-worker pool, queue size 1, one overflow, run to quiescence -/

def demoCfg : Cfg Nat := { n := 2, qcap := 1, route := fun p => some (p % 2), attemptCounted := true,
                            errCountsWorkerDropped := false }
def demoW : Worker Nat Nat Nat := { init := 0, step := fun s p => (s + p, some (s + p)) }
def demoSched : List (Step Nat) :=
  [.dispatch 1, .dispatch 3, .dispatch 2, .work 1, .incD, .incD, .incX, .incD, .incW 1, .work 0]

example : Quiescent demoCfg (run demoCfg demoW (init demoW) demoSched) := by
  refine ⟨by decide, by decide, fun w => ?_, fun w => ?_⟩
  · by_cases h0 : w = 0
    · subst h0; decide
    · by_cases h1 : w = 1
      · subst h1; decide
      · simp [run, step, demoSched, demoCfg, demoW, init, upd, h0, h1]
  · by_cases h0 : w = 0
    · subst h0; decide
    · by_cases h1 : w = 1
      · subst h1; decide
      · simp [run, step, demoSched, demoCfg, demoW, init, upd, h0, h1]

example : (run demoCfg demoW (init demoW) demoSched).dispatched = 3 ∧
    (run demoCfg demoW (init demoW) demoSched).dropped = 1 ∧
    (run demoCfg demoW (init demoW) demoSched).results = [(1, 1, 1), (0, 2, 2)] := by decide

/-! ### regression of the former finding KF.C18.httpWorkerErrCountedDropped: an HTTP pool, one worker,
queue size 1; packet 7 makes the worker fail (a non-TCP frame), packet 9 is refused by the full queue -/

def errW : Worker Nat Nat Nat := { init := 0, step := fun s p => (s + 1, if p = 7 then none else some p) }
def errCfg : Cfg Nat := httpPool 1 1 (fun _ => 0)
def errSched : List (Step Nat) :=
  [.dispatch 7, .dispatch 9, .incD, .incD, .incX, .incW 0, .work 0, .dispatch 4, .incD, .work 0]

example : Quiescent errCfg (run errCfg errW (init errW) errSched) := by
  refine ⟨by decide, by decide, fun w => ?_, fun w => ?_⟩
  · by_cases h0 : w = 0
    · subst h0; decide
    · simp [run, step, errSched, errCfg, httpPool, errW, init, upd, h0]
  · by_cases h0 : w = 0
    · subst h0; decide
    · simp [run, step, errSched, errCfg, httpPool, errW, init, upd, h0]

/-- worker 0 had one processing error (packet 7) and one queue-full drop (packet 9): its `dropped`
statistic is 1, the number of `Dropped` outcomes — the unrepaired HTTP worker reported 2. -/
example : (run errCfg errW (init errW) errSched).werrs 0 = 1 ∧
    (run errCfg errW (init errW) errSched).wdropped 0 = 1 ∧
    nFullAt (run errCfg errW (init errW) errSched) 0 = 1 ∧
    (run errCfg errW (init errW) errSched).dispatched = 3 ∧
    (run errCfg errW (init errW) errSched).dropped = 1 ∧
    (run errCfg errW (init errW) errSched).results = [(0, 4, 4)] ∧
    (run { errCfg with errCountsWorkerDropped := true } errW (init errW) errSched).wdropped 0 = 2 := by decide

end Huginn.Props.C18Pool
