import Huginn.Lemmas.Pool
set_option linter.unusedSimpArgs false
/-
C18 (second half) — every packet handed to a pool is accounted for exactly once, under every
schedule of concurrent dispatchers and workers (Model/Pool.lean).
-/
namespace Huginn.Props.C18Pool
open Huginn.Pool
variable {S Pkt Out : Type}

/-- **Accounting at quiescence**, for every schedule: once every dispatch call has returned and the
queues are drained, the statistics agree with the outcomes the calls returned
(`dispatched` = #Queued, plus #Dropped-on-full for the pools that count attempts; `dropped` = #Dropped;
per-worker `dropped` = #Dropped-on-full at that worker, plus that worker's processing errors for
the pool that counts them), every packet reported Queued has been analysed exactly once, by the
worker it was routed to, in dispatch order — and nothing else has been analysed. -/
theorem accounting (C : Cfg Pkt) (W : Worker S Pkt Out) (sched : List (Step Pkt))
    (s : State S Pkt Out) (hs : s = run C W (init W) sched) (hq : Quiescent C s) :
    s.dispatched = nQueued s + (if C.attemptCounted then nFull s else 0) ∧
    s.dropped = nFull s + nUnroutable s ∧
    (∀ w, s.wdropped w = nFullAt s w + (if C.errCountsWorkerDropped then s.werrs w else 0)) ∧
    (∀ w, s.processed w = queuedAt s w) ∧
    (∀ w, (s.results.filter (fun r => decide (r.1 = w))).map (·.2) = seqOuts W W.init (queuedAt s w)) := by
  subst hs
  obtain ⟨⟨c1, c2, c3⟩, iq, iw⟩ := inv_reachable C W sched
  obtain ⟨q1, q2, q3, q4⟩ := hq
  have hproc : ∀ w, (run C W (init W) sched).processed w = queuedAt (run C W (init W) sched) w := by
    intro w
    have := iq w
    rw [q4 w, List.append_nil] at this
    exact this
  refine ⟨by have := c1; simp only [q1] at this; simpa using this,
          by have := c2; simp only [q2] at this; simpa using this,
          fun w => by have := c3 w; simp only [q3 w] at this; simpa using this,
          hproc, fun w => ?_⟩
  rw [← hproc w]
  exact (iw w).1

/-- **Safety at every moment** (not only at quiescence): what a worker has analysed so far is a
prefix of what was reported Queued for it; a Dropped packet is never analysed; the counters never
exceed the outcomes returned. -/
theorem never_more_than_queued (C : Cfg Pkt) (W : Worker S Pkt Out) (sched : List (Step Pkt)) (w : Nat)
    (s : State S Pkt Out) (hs : s = run C W (init W) sched) :
    s.processed w <+: queuedAt s w ∧
    s.dispatched ≤ nQueued s + (if C.attemptCounted then nFull s else 0) ∧
    s.dropped ≤ nFull s + nUnroutable s := by
  subst hs
  obtain ⟨⟨c1, c2, _⟩, iq, _⟩ := inv_reachable C W sched
  exact ⟨⟨_, iq w⟩, by omega, by omega⟩

/-- A packet is routed to a valid worker index whenever the routing function is `hash % n`. -/
theorem queued_worker_valid (C : Cfg Pkt) (W : Worker S Pkt Out) (sched : List (Step Pkt))
    (hroute : ∀ p w, C.route p = some w → w < C.n) :
    ∀ x ∈ (run C W (init W) sched).outcomes, ∀ w, x.2 = .queued w → w < C.n := by
  intro x hx w hw
  have := invRoute_reachable C W sched x hx
  rw [hw] at this
  exact hroute _ _ this

/-! ### non-vacuity: a two-worker pool, queue size 1, one overflow, run to quiescence -/

def demoCfg : Cfg Nat := { n := 2, qcap := 1, route := fun p => some (p % 2), attemptCounted := true,
                            errCountsWorkerDropped := false }
def demoW : Worker Nat Nat Nat := { init := 0, step := fun s p => (s + p, some (s + p)) }
def demoSched : List (Step Nat) :=
  [.dispatch 1, .dispatch 3, .dispatch 2, .work 1, .incD, .incD, .incX, .incD, .incW 1, .work 0]

example : Quiescent demoCfg (run demoCfg demoW (init demoW) demoSched) := by
  refine ⟨by decide, by decide, fun w => ?_, fun w => ?_⟩
  · by_cases h0 : w = 0
    · subst h0; decide
    · by_cases h1 : w = 1
      · subst h1; decide
      · simp [run, step, demoSched, demoCfg, demoW, init, upd, h0, h1]
  · by_cases h0 : w = 0
    · subst h0; decide
    · by_cases h1 : w = 1
      · subst h1; decide
      · simp [run, step, demoSched, demoCfg, demoW, init, upd, h0, h1]

example : (run demoCfg demoW (init demoW) demoSched).dispatched = 3 ∧
    (run demoCfg demoW (init demoW) demoSched).dropped = 1 ∧
    (run demoCfg demoW (init demoW) demoSched).results = [(1, 1, 1), (0, 2, 2)] := by decide

end Huginn.Props.C18Pool
