import Huginn.Props.C18Pool
/-
C18, accounting across `shutdown()`.

`WorkerPool::dispatch` first reads the shutdown flag; once it is set the call queues nothing, adds one to
the pool's `dropped` counter (repaired for the TCP and TLS pools by fix 44283c2; the HTTP pool always did)
and returns `Dropped`. In the pool model that is exactly a dispatch of a packet the pool does not route
(`route = none`). So a history with a shutdown in it is a history of the same model over packets tagged
with the phase in which their dispatch call read the flag, routed by `shutRoute` — and the accounting
theorem, which holds for EVERY schedule and EVERY routing function, covers it: the refused packets are
reported dropped, never analysed and counted in the drop statistics, and the workers drain what was
queued before (fix 75ee4d8) — quiescence is then reached with every queued packet analysed exactly once.
-/
namespace Huginn.Props.C18Shutdown
open Huginn.Pool Huginn.Props.C18Pool
variable {S Pkt Out : Type}

/-- Routing of phase-tagged packets: `true` = the dispatch call read the shutdown flag as set. -/
def shutRoute (route : Pkt → Option Nat) : Pkt × Bool → Option Nat
  | (p, false) => route p
  | (_, true) => none

/-- The pool configuration seen through the tagging. -/
def withShutdown (C : Cfg Pkt) : Cfg (Pkt × Bool) :=
  { n := C.n, qcap := C.qcap, route := shutRoute C.route, attemptCounted := C.attemptCounted,
    errCountsWorkerDropped := C.errCountsWorkerDropped }

/-- **Accounting with a shutdown in the history**, for every schedule of dispatchers, workers and the
shutdown call: at quiescence `dropped` = #Dropped (queue full + refused after shutdown + unroutable),
`dispatched` and the per-worker counters are as without a shutdown, and exactly the packets reported
Queued have been analysed, once, in order. -/
theorem accounting_with_shutdown (C : Cfg Pkt) (W : Worker S (Pkt × Bool) Out)
    (sched : List (Step (Pkt × Bool))) (s : State S (Pkt × Bool) Out)
    (hs : s = run (withShutdown C) W (init W) sched) (hq : Quiescent (withShutdown C) s) :
    s.dispatched = nQueued s + (if C.attemptCounted then nFull s else 0) ∧
    s.dropped = nFull s + nUnroutable s ∧
    (∀ w, s.processed w = queuedAt s w) :=
  let h := accounting (withShutdown C) W sched s hs hq
  ⟨h.1, h.2.1, h.2.2.2.1⟩

/-- A dispatch call that read the flag as set is never queued: its outcome is "dropped, no worker". -/
theorem refused_after_shutdown (C : Cfg Pkt) (W : Worker S (Pkt × Bool) Out) (s : State S (Pkt × Bool) Out)
    (p : Pkt) :
    (step (withShutdown C) W s (.dispatch (p, true))).outcomes = s.outcomes ++ [((p, true), .droppedUnroutable)] ∧
    (step (withShutdown C) W s (.dispatch (p, true))).queue = s.queue ∧
    (step (withShutdown C) W s (.dispatch (p, true))).pendX = s.pendX + 1 := by
  simp [step, withShutdown, shutRoute]

end Huginn.Props.C18Shutdown
