import Huginn.Lemmas.Flow
import Huginn.Model.FlowProgs
set_option linter.unusedSimpArgs false
set_option linter.unusedSectionVars false
/-
C07 — Connections are analysed in isolation.

Generic part: for EVERY analyzer whose per-packet cache program is *local* (touches only flow-table
keys owned by the packet's own connection, and no processor-global state), EVERY trace (any
interleaving, any length), EVERY connection `c` and any capacity, as long as nothing is evicted
(the statement's "within the configured connection capacity"):

   the outputs attributed to `c` in the interleaved run  =  the outputs of running `c`'s packets alone.

Time (expiry) is part of the model: a packet carries its arrival instant, identical in both runs.
The instantiations for the three stateful analyzers are in `Props/C07Inst.lean` (programs in
Model/FlowProgs.lean).
-/
namespace Huginn.Props.C07
open Huginn.Flow

variable {κ σ γ ρ C Pkt Out : Type} [DecidableEq κ] [DecidableEq C]

/-- Nothing is evicted while this packet's program runs. -/
def ProgNoEvict : Prog κ σ γ ρ Out → Nat → TtlMap κ σ → γ → Prop
  | .ret _, _, _, _ => True
  | .get k cont, now, m, g => ProgNoEvict (cont (m.get now k)) now m g
  | .insert k v ttl cont, now, m, g => m.Fits k ∧ ProgNoEvict cont now (m.insert now k v ttl) g
  | .set k v cont, now, m, g => ProgNoEvict cont now (m.set now k v) g
  | .remove k cont, now, m, g => ProgNoEvict cont now (m.remove k) g
  | .glob f cont, now, m, g => ProgNoEvict (cont (f g).2) now m (f g).1

/-- Nothing is evicted along the whole trace ("within capacity"). -/
def NoEvict (A : Analyzer κ σ γ ρ Pkt Out) : TtlMap κ σ × γ → List Pkt → Prop
  | _, [] => True
  | s, p :: tr => ProgNoEvict (A.prog p) (A.time p) s.1 s.2 ∧ NoEvict A (A.step s p).1 tr

/-- The executable eviction monitor used by the driver (`Prog.runNE`) computes the same result as
`Prog.run` and reports `true` exactly when `ProgNoEvict` holds: the driver's "specified" flag is the
theorem's hypothesis. -/
theorem runNE_spec (pr : Prog κ σ γ ρ Out) (now : Nat) (m : TtlMap κ σ) (g : γ) :
    (pr.runNE now m g).1 = pr.run now m g ∧
      ((pr.runNE now m g).2 = true ↔ ProgNoEvict pr now m g) := by
  induction pr generalizing m g with
  | ret o => simp [Prog.runNE, Prog.run, ProgNoEvict]
  | get k cont ih => simpa [Prog.runNE, Prog.run, ProgNoEvict] using ih _ m g
  | insert k v ttl cont ih =>
    have := ih (m.insert now k v ttl) g
    simp only [Prog.runNE, Prog.run, ProgNoEvict, TtlMap.Fits, Bool.and_eq_true, decide_eq_true_eq]
    exact ⟨this.1, by rw [this.2]; exact And.comm⟩
  | set k v cont ih => simpa [Prog.runNE, Prog.run, ProgNoEvict] using ih (m.set now k v) g
  | remove k cont ih => simpa [Prog.runNE, Prog.run, ProgNoEvict] using ih (m.remove k) g
  | glob f cont ih => simpa [Prog.runNE, Prog.run, ProgNoEvict] using ih _ m (f g).1

/-- Trace level: the driver's monitor `runOutsNE` reports `true` exactly when `NoEvict` holds, and
its outputs are those of `runOuts`. -/
theorem runOutsNE_spec (A : Analyzer κ σ γ ρ Pkt Out) (s : TtlMap κ σ × γ) (tr : List Pkt) :
    (A.runOutsNE s tr).1 = (A.runOuts s tr).map (·.2) ∧
      ((A.runOutsNE s tr).2 = true ↔ NoEvict A s tr) := by
  induction tr generalizing s with
  | nil => simp [Analyzer.runOutsNE, Analyzer.runOuts, NoEvict]
  | cons p tr ih =>
    obtain ⟨h1, h2⟩ := runNE_spec (A.prog p) (A.time p) s.1 s.2
    have := ih (A.step s p).1
    simp only [Analyzer.runOutsNE, Analyzer.runOuts, NoEvict, Analyzer.step, List.map_cons,
      Bool.and_eq_true] at this ⊢
    rw [h1, h2]
    exact ⟨by rw [this.1], by rw [this.2]⟩

/-- A local program never changes the global state. -/
theorem local_glob_unchanged (P : κ → Prop) (pr : Prog κ σ γ ρ Out) (h : pr.Local P)
    (now : Nat) (m : TtlMap κ σ) (g : γ) : (pr.run now m g).2.1 = g := by
  induction h generalizing m with
  | ret o => rfl
  | get k cont _ _ ih => exact ih _ m
  | insert k v ttl cont _ _ ih => exact ih _
  | set k v cont _ _ ih => exact ih _
  | remove k cont _ _ ih => exact ih _
  | glob f cont hf _ ih => simp only [Prog.run]; rw [hf g]; exact ih _ m

/-- One packet of connection `c` itself: running on the whole table or on `c`'s part of it gives
the same output, and the results restrict to each other. -/
theorem own_packet (owner : κ → C) (c : C) (pr : Prog κ σ γ ρ Out)
    (h : pr.Local (fun k => owner k = c)) (now : Nat) (m : TtlMap κ σ) (g : γ)
    (hne : ProgNoEvict pr now m g) :
    (pr.run now (m.restrict owner c) g).2.2 = (pr.run now m g).2.2 ∧
    (pr.run now (m.restrict owner c) g).1 = (pr.run now m g).1.restrict owner c := by
  induction h generalizing m with
  | ret o => exact ⟨rfl, rfl⟩
  | get k cont hk _ ih =>
    simp only [Prog.run, get_restrict_own owner c m now k hk]
    exact ih _ m hne
  | insert k v ttl cont hk _ ih =>
    simp only [Prog.run]
    rw [← insert_restrict_own owner c m now k v ttl hk hne.1]
    exact ih _ hne.2
  | set k v cont hk _ ih =>
    simp only [Prog.run]
    rw [← set_restrict_own owner c m now k v]
    exact ih _ hne
  | remove k cont hk _ ih =>
    simp only [Prog.run]
    rw [← remove_restrict_own owner c m k]
    exact ih _ hne
  | glob f cont hf _ ih =>
    simp only [Prog.run, ProgNoEvict] at hne ⊢
    rw [hf g] at hne ⊢
    exact ih _ m hne

/-- One packet of another connection leaves `c`'s part of the table untouched. -/
theorem other_packet (owner : κ → C) (c c' : C) (hcc : c' ≠ c) (pr : Prog κ σ γ ρ Out)
    (h : pr.Local (fun k => owner k = c')) (now : Nat) (m : TtlMap κ σ) (g : γ)
    (hne : ProgNoEvict pr now m g) :
    (pr.run now m g).1.restrict owner c = m.restrict owner c := by
  induction h generalizing m with
  | ret o => rfl
  | get k cont hk _ ih => exact ih _ m hne
  | insert k v ttl cont hk _ ih =>
    simp only [Prog.run]
    rw [ih _ hne.2]
    exact insert_restrict_other owner c m now k v ttl (by rw [hk]; exact hcc) hne.1
  | set k v cont hk _ ih =>
    simp only [Prog.run]
    rw [ih _ hne]
    exact set_restrict_other owner c m now k v (by rw [hk]; exact hcc)
  | remove k cont hk _ ih =>
    simp only [Prog.run]
    rw [ih _ hne]
    exact remove_restrict_other owner c m k (by rw [hk]; exact hcc)
  | glob f cont hf _ ih =>
    simp only [Prog.run, ProgNoEvict] at hne ⊢
    rw [hf g] at hne ⊢
    exact ih _ m hne

/-- **C07 (generic).** Isolation for every local analyzer, every trace, every connection. -/
theorem isolation (A : Analyzer κ σ γ ρ Pkt Out) (owner : κ → C) (conn : Pkt → C)
    (hloc : ∀ p, (A.prog p).Local (fun k => owner k = conn p))
    (c : C) (tr : List Pkt) (m : TtlMap κ σ) (g : γ) (hne : NoEvict A (m, g) tr) :
    (A.runOuts (m, g) tr).filter (fun po => decide (conn po.1 = c)) =
      A.runOuts (m.restrict owner c, g) (tr.filter (fun p => decide (conn p = c))) := by
  induction tr generalizing m g with
  | nil => rfl
  | cons p tr ih =>
    obtain ⟨hp, htr⟩ := hne
    have hg : ((A.prog p).run (A.time p) m g).2.1 = g :=
      local_glob_unchanged _ _ (hloc p) _ _ _
    by_cases hc : conn p = c
    · have hl : (A.prog p).Local (fun k => owner k = c) := hc ▸ hloc p
      obtain ⟨ho, hs⟩ := own_packet owner c (A.prog p) hl (A.time p) m g hp
      have hg' : ((A.prog p).run (A.time p) (m.restrict owner c) g).2.1 = g :=
        local_glob_unchanged _ _ (hloc p) _ _ _
      simp only [Analyzer.runOuts, Analyzer.step, List.filter_cons, hc, decide_true, if_true]
      rw [ho, hs, hg, hg']
      congr 1
      have := ih ((A.prog p).run (A.time p) m g).1 g (by simpa [Analyzer.step, hg] using htr)
      simpa using this
    · have hs := other_packet owner c (conn p) hc (A.prog p) (hloc p) (A.time p) m g hp
      simp only [Analyzer.runOuts, Analyzer.step, List.filter_cons, hc, decide_false,
        Bool.false_eq_true, if_false]
      rw [hg]
      have := ih ((A.prog p).run (A.time p) m g).1 g (by simpa [Analyzer.step, hg] using htr)
      rw [hs] at this
      exact this

/-- Starting from an empty table (a fresh analyzer instance), the isolated run is a fresh
analyzer run on `c`'s packets alone. -/
theorem isolation_fresh (A : Analyzer κ σ γ ρ Pkt Out) (owner : κ → C) (conn : Pkt → C)
    (hloc : ∀ p, (A.prog p).Local (fun k => owner k = conn p))
    (c : C) (tr : List Pkt) (cap : Nat) (g : γ) (hne : NoEvict A ({ cap := cap }, g) tr) :
    (A.runOuts ({ cap := cap }, g) tr).filter (fun po => decide (conn po.1 = c)) =
      A.runOuts ({ cap := cap }, g) (tr.filter (fun p => decide (conn p = c))) :=
  isolation A owner conn hloc c tr { cap := cap } g hne

/-- No poisoning (used by C01): after ANY history, a probe connection whose keys the history never
used is analysed exactly as by a fresh instance. -/
theorem fresh_probe (A : Analyzer κ σ γ ρ Pkt Out) (owner : κ → C) (conn : Pkt → C)
    (hloc : ∀ p, (A.prog p).Local (fun k => owner k = conn p))
    (c : C) (hist probe : List Pkt) (cap : Nat) (g : γ)
    (hh : ∀ p ∈ hist, conn p ≠ c) (hp : ∀ p ∈ probe, conn p = c)
    (hne : NoEvict A ({ cap := cap }, g) (hist ++ probe)) :
    (A.runOuts ({ cap := cap }, g) (hist ++ probe)).filter (fun po => decide (conn po.1 = c)) =
      A.runOuts ({ cap := cap }, g) probe := by
  rw [isolation_fresh A owner conn hloc c _ cap g hne]
  congr 1
  rw [List.filter_append]
  have h1 : hist.filter (fun p => decide (conn p = c)) = [] := by
    apply List.filter_eq_nil_iff.2
    intro p hp'; simpa using hh p hp'
  have h2 : probe.filter (fun p => decide (conn p = c)) = probe := by
    apply List.filter_eq_self.2
    intro p hp'; simpa using hp p hp'
  rw [h1, h2, List.nil_append]

/-! ## Instances: the three stateful analyzers -/

open Huginn.FlowProgs

section Instances

/-- Tactic: discharge `Local` goals for programs given by nested `if`/`match`. -/
local macro "local_tac" : tactic =>
  `(tactic| repeat (first
      | exact Prog.Local.ret _
      | (apply Prog.Local.get; (first | rfl | assumption | skip))
      | (apply Prog.Local.insert; (first | rfl | assumption | skip))
      | (apply Prog.Local.set; (first | rfl | assumption | skip))
      | (apply Prog.Local.remove; (first | rfl | assumption | skip))
      | intro _
      | split
      | (dsimp only; done)
      | dsimp only))

/-- TCP uptime tracker: a segment touches only the entry of its own (directed connection, role). -/
theorem tcp_local {U : Type} (P : UptimeParams U) (fc : Seg → Bool) (s : Seg) :
    (tcpProg P fc s).Local (fun k => k = (⟨s.src, s.dst, fc s⟩ : TcpKey)) := by
  unfold tcpProg
  local_tac

theorem tcp_isolation {U : Type} (P : UptimeParams U) (fc : Seg → Bool) (c : TcpKey)
    (tr : List Seg) (cap : Nat) (hne : NoEvict (tcpAnalyzer P fc) ({ cap := cap }, ()) tr) :
    ((tcpAnalyzer P fc).runOuts ({ cap := cap }, ()) tr).filter
        (fun po => decide (tcpKeyOf fc po.1 = c)) =
      (tcpAnalyzer P fc).runOuts ({ cap := cap }, ())
        (tr.filter (fun p => decide (tcpKeyOf fc p = c))) :=
  isolation_fresh (tcpAnalyzer P fc) (fun k => k) (tcpKeyOf fc)
    (fun p => tcp_local P fc p) c tr cap () hne

/-- TLS: a segment touches only the reader of its own directed 4-tuple. -/
theorem tlsBody_local {R S : Type} (P : TlsParams R S) (s : Seg) :
    (tlsBody P s).Local (fun k => k = (⟨s.src, s.dst⟩ : FlowKey)) := by
  have hw : ∀ r, (tlsWithReader P ⟨s.src, s.dst⟩ s.payload r).Local (fun k => k = (⟨s.src, s.dst⟩ : FlowKey)) := by
    intro r
    unfold tlsWithReader
    local_tac
  unfold tlsBody
  repeat (first
    | exact hw _
    | exact Prog.Local.ret _
    | (apply Prog.Local.get; (first | rfl | skip))
    | (apply Prog.Local.insert; (first | rfl | skip))
    | intro _
    | split
    | dsimp only)

/-- The SYN reset removes only the segment's own key. -/
theorem tls_local {R S : Type} (P : TlsParams R S) (s : Seg) :
    (tlsProg P s).Local (fun k => k = (⟨s.src, s.dst⟩ : FlowKey)) := by
  unfold tlsProg
  split
  · exact Prog.Local.remove _ _ rfl (tlsBody_local P s)
  · exact tlsBody_local P s

theorem tls_isolation {R S : Type} (P : TlsParams R S) (c : FlowKey) (tr : List Seg) (cap : Nat)
    (hne : NoEvict (tlsAnalyzer P) ({ cap := cap }, ()) tr) :
    ((tlsAnalyzer P).runOuts ({ cap := cap }, ()) tr).filter (fun po => decide (flowKeyOf po.1 = c)) =
      (tlsAnalyzer P).runOuts ({ cap := cap }, ()) (tr.filter (fun p => decide (flowKeyOf p = c))) :=
  isolation_fresh (tlsAnalyzer P) (fun k => k) flowKeyOf (fun p => tls_local P p) c tr cap () hne

/-! ### HTTP -/

theorem connOf_comm (a b : Ep) : connOf a b = connOf b a := by
  unfold connOf Ep.le
  by_cases h1 : a.addr < b.addr
  · have : ¬ b.addr < a.addr := by omega
    have h3 : ¬ b.addr = a.addr := by omega
    simp [h1, this, h3]
  · by_cases h2 : b.addr < a.addr
    · have h3 : ¬ a.addr = b.addr := by omega
      simp [h1, h2, h3]
    · have h3 : a.addr = b.addr := by omega
      by_cases h4 : a.port ≤ b.port <;> by_cases h5 : b.port ≤ a.port
      · have : a.port = b.port := by omega
        have : a = b := by cases a; cases b; simp_all
        subst this; rfl
      · simp [h1, h2, h3, h4, h5]
      · simp [h1, h2, h3, h4, h5]
      · omega

/-- The HTTP parsers do not carry state from one call to the next. -/
def Stateless {γ Q P : Type} (H : HttpParams γ Q P) : Prop :=
  (∀ g b, (H.parseReq g b).1 = g) ∧ (∀ g b, (H.parseResp g b).1 = g)

section
variable {γ Q P : Type} (H : HttpParams γ Q P) (hs : Stateless H) (Pk : FlowKey → Prop)
include hs

private theorem tryReq_local (full : Bytes) (k : Option Q → Prog FlowKey TcpFlow γ (PRes Q P) (HttpOut Q P))
    (hk : ∀ q, (k q).Local Pk) : (httpTryReq H full k).Local Pk := by
  unfold httpTryReq
  split
  · exact hk _
  · refine .glob _ _ (fun g => hs.1 g full) (fun r1 => ?_)
    have hgo : Prog.Local Pk (.glob (fun g => let (g', r) := H.parseReq g full; (g', PRes.req r))
        fun r3 => match r3 with | .req q => k q | .resp _ => k none) := by
      refine .glob _ _ (fun g => hs.1 g full) (fun r3 => ?_)
      cases r3 <;> exact hk _
    split
    · exact hgo
    · refine .glob _ _ (fun g => hs.2 g full) (fun r2 => ?_)
      split
      · exact hgo
      · exact hk _

private theorem tryResp_local (full : Bytes) (k : Option P → Prog FlowKey TcpFlow γ (PRes Q P) (HttpOut Q P))
    (hk : ∀ q, (k q).Local Pk) : (httpTryResp H full k).Local Pk := by
  unfold httpTryResp
  split
  · exact hk _
  · refine .glob _ _ (fun g => hs.1 g full) (fun r1 => ?_)
    have hgo : Prog.Local Pk (.glob (fun g => let (g', r) := H.parseResp g full; (g', PRes.resp r))
        fun r3 => match r3 with | .resp q => k q | .req _ => k none) := by
      refine .glob _ _ (fun g => hs.2 g full) (fun r3 => ?_)
      cases r3 <;> exact hk _
    split
    · exact hgo
    · refine .glob _ _ (fun g => hs.2 g full) (fun r2 => ?_)
      split
      · exact hgo
      · exact hk _

omit hs in
private theorem finish_local (rm : FlowKey) (hrm : Pk rm) (f : TcpFlow) (s : Seg) (o : HttpOut Q P) :
    (httpFinish (γ := γ) rm f s o).Local Pk := by
  unfold httpFinish
  split
  · exact .remove _ _ hrm (.ret _)
  · split
    · exact .remove _ _ hrm (.ret _)
    · exact .ret _

private theorem body_local (stored : FlowKey) (h1 : Pk stored) (isC : Bool)
    (f : TcpFlow) (s : Seg) : (httpBody H stored isC f s).Local Pk := by
  unfold httpBody
  repeat (first
    | exact .ret _
    | exact finish_local Pk stored h1 _ _ _
    | (refine .set _ _ _ h1 ?_)
    | (refine tryReq_local H hs Pk _ _ (fun q => ?_); cases q)
    | (refine tryResp_local H hs Pk _ _ (fun q => ?_); cases q)
    | split
    | dsimp only)

private theorem withFlow_local (stored : FlowKey) (h1 : Pk stored) (isC : Bool)
    (f : TcpFlow) (s : Seg) : (httpWithFlow H stored isC f s).Local Pk := by
  unfold httpWithFlow
  split
  · exact .set _ _ _ h1 (body_local H hs Pk stored h1 isC _ s)
  · exact body_local H hs Pk stored h1 isC f s

end

/-- HTTP: with parsers that keep no state between calls, a segment touches only the flow of its
own connection (stored under its own directed key or the reversed one). -/
theorem httpDispatch_local {γ Q P : Type} (H : HttpParams γ Q P) (hs : Stateless H) (s : Seg) :
    (httpDispatch H s).Local (fun k => httpConnOfKey k = httpConnOf s) := by
  have hk : httpConnOfKey ⟨s.src, s.dst⟩ = httpConnOf s := rfl
  have hr : httpConnOfKey ⟨s.dst, s.src⟩ = httpConnOf s := connOf_comm _ _
  unfold httpDispatch
  refine .get _ _ hk (fun f => ?_)
  cases f with
  | some f => exact withFlow_local H hs _ _ hk _ _ _
  | none =>
    dsimp only
    refine .get _ _ hr (fun f => ?_)
    cases f with
    | some f => exact withFlow_local H hs _ _ hr _ _ _
    | none =>
      dsimp only
      by_cases hsyn : s.syn = true
      · rw [if_pos hsyn]; exact .insert _ _ _ _ hk (.ret _)
      · rw [if_neg hsyn]; exact .ret _

/-- The SYN reset removes only the two directed keys of the segment's own connection. -/
theorem http_local {γ Q P : Type} (H : HttpParams γ Q P) (hs : Stateless H) (s : Seg) :
    (httpProg H s).Local (fun k => httpConnOfKey k = httpConnOf s) := by
  have hk : httpConnOfKey ⟨s.src, s.dst⟩ = httpConnOf s := rfl
  have hr : httpConnOfKey ⟨s.dst, s.src⟩ = httpConnOf s := connOf_comm _ _
  unfold httpProg
  split
  · refine .get _ _ hk (fun f => ?_)
    split
    · exact httpDispatch_local H hs s
    · exact .remove _ _ hk (.remove _ _ hr (httpDispatch_local H hs s))
  · exact httpDispatch_local H hs s

/-- **C07 for HTTP, partial**: isolation per *undirected* connection, for stateless parsers.
The hypothesis `Stateless` is what the shared HPACK decoder of `Http2Parser` violates
(KF.C07.sharedHpack, witness below). -/
theorem http_isolation_partial {γ Q P : Type} (H : HttpParams γ Q P) (hs : Stateless H)
    (c : Ep × Ep) (tr : List Seg) (cap : Nat) (g : γ)
    (hne : NoEvict (httpAnalyzer H) ({ cap := cap }, g) tr) :
    ((httpAnalyzer H).runOuts ({ cap := cap }, g) tr).filter (fun po => decide (httpConnOf po.1 = c)) =
      (httpAnalyzer H).runOuts ({ cap := cap }, g) (tr.filter (fun p => decide (httpConnOf p = c))) :=
  isolation_fresh (httpAnalyzer H) httpConnOfKey httpConnOf (fun p => http_local H hs p) c tr cap g hne

/-! ### A finished exchange frees its table entry (so a later connection on the same 4-tuple is analysed) -/

theorem find?_remove_self {κ σ : Type} [DecidableEq κ] (m : TtlMap κ σ) (k : κ) :
    (m.remove k).find? k = none := by
  unfold TtlMap.remove TtlMap.find?
  simp only [List.find?_eq_none]
  intro e he
  have := (List.mem_filter.1 he).2
  simpa using this

/-- Once request and response have both been reported (or the connection closes), the flow's entry
is gone, whichever direction the completing packet travelled in. -/
theorem http_finished_flow_removed {γ Q P : Type} (stored : FlowKey) (f : TcpFlow) (s : Seg)
    (o : HttpOut Q P) (now : Nat) (m : TtlMap FlowKey TcpFlow) (g : γ)
    (h : (f.clientParsed && f.serverParsed) = true ∨ (s.fin || s.rst) = true) :
    ((httpFinish (γ := γ) (Q := Q) (P := P) stored f s o).run now m g).1.find? stored = none := by
  unfold httpFinish
  rcases h with h | h
  · simp only [h, if_true, Prog.run]; exact find?_remove_self m stored
  · by_cases h1 : (f.clientParsed && f.serverParsed) = true
    · simp only [h1, if_true, Prog.run]; exact find?_remove_self m stored
    · simp only [h1, h, if_true, Prog.run]; exact find?_remove_self m stored

/-! ### KF.C07.sharedHpack: with a parser that keeps state across calls, isolation fails -/

/-- A toy stateful parser: the "decoder" counts calls and leaks the count into the result, like an
HPACK dynamic table filled by another connection leaks into a later header block. -/
def leaky : HttpParams Nat Nat Nat :=
  { parseReq := fun g _ => (g + 1, some g), parseResp := fun g _ => (g, none) }

def segA : Seg := ⟨⟨1, 1000⟩, ⟨2, 80⟩, 1, true, false, false, false, [], 0, 0, none⟩
def segA' : Seg := ⟨⟨1, 1000⟩, ⟨2, 80⟩, 2, false, true, false, false, [71, 69, 84, 32], 1, 1, none⟩
def segB : Seg := ⟨⟨3, 1000⟩, ⟨2, 80⟩, 1, true, false, false, false, [], 2, 2, none⟩
def segB' : Seg := ⟨⟨3, 1000⟩, ⟨2, 80⟩, 2, false, true, false, false, [71, 69, 84, 32], 3, 3, none⟩

/-- Witness: connection B's reported request differs between the interleaved run and B alone. -/
theorem kf_sharedHpack_witness :
    (((httpAnalyzer leaky).runOuts ({ cap := 10 }, 0) [segA, segA', segB, segB']).filter
        (fun po => decide (httpConnOf po.1 = httpConnOf segB))).map (fun po => po.2.req) ≠
      ((httpAnalyzer leaky).runOuts ({ cap := 10 }, 0)
        ([segA, segA', segB, segB'].filter (fun p => decide (httpConnOf p = httpConnOf segB)))).map
          (fun po => po.2.req) := by
  decide +kernel

/-- Non-vacuity: the capacity hypothesis holds on a real four-packet, two-connection trace. -/
example : NoEvict (httpAnalyzer leaky) ({ cap := 10 }, 0) [segA, segA', segB, segB'] :=
  (runOutsNE_spec (httpAnalyzer leaky) ({ cap := 10 }, 0) [segA, segA', segB, segB']).2.1
    (by decide +kernel)

end Instances

end Huginn.Props.C07
