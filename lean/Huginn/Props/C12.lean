import Huginn.Lemmas.Dist
/-
C12 — Match distances obey signature semantics: exact, wildcard, decisive, monotone.
Property theorems only; component lemmas are in `Huginn/Lemmas/{Bands,Dist}.lean`.

Model: `Huginn/Model/Match.lean` (every `distance_*`, the two sums, both score tables, over the
regenerated `Gen/Score.lean`). Specification: `Huginn/Spec/Match.lean` (`TcpInst`, `HttpInst`,
`specTcp`, `specHttp`, `ScoreOkAt`). Known-finding classes: `Huginn.KF.C12.*`.
-/
namespace Huginn.Props.C12
open Huginn.Sig Huginn.Match Huginn.Match.Spec

/-! ## 1. Quality is a non-increasing step function of the distance, within [0.05, 1.0],
and 1.0 exactly at distance 0 — for *every* distance, by a band argument over the regenerated
tables (`score_ok_of_check`: a first-match table is constant between breakpoints). -/

theorem tcp_table_check : scoreTableCheck Gen.Score.tcpScoreTable = true := by decide
theorem http_table_check : scoreTableCheck Gen.Score.httpScoreTable = true := by decide

theorem tcp_score_antitone (d₁ d₂ : Nat) (h : d₁ ≤ d₂) : tcpScore d₂ ≤ tcpScore d₁ :=
  (score_ok_of_check _ tcp_table_check).1 d₁ d₂ h
theorem tcp_score_range (d : Nat) (h : d ≤ u32Max) : 5 ≤ tcpScore d ∧ tcpScore d ≤ 100 :=
  (score_ok_of_check _ tcp_table_check).2.1 d h
theorem tcp_score_one_iff (d : Nat) : tcpScore d = 100 ↔ d = 0 :=
  (score_ok_of_check _ tcp_table_check).2.2 d

theorem http_score_antitone (d₁ d₂ : Nat) (h : d₁ ≤ d₂) : httpScore d₂ ≤ httpScore d₁ :=
  (score_ok_of_check _ http_table_check).1 d₁ d₂ h
theorem http_score_range (d : Nat) (h : d ≤ u32Max) : 5 ≤ httpScore d ∧ httpScore d ≤ 100 :=
  (score_ok_of_check _ http_table_check).2.1 d h
theorem http_score_one_iff (d : Nat) : httpScore d = 100 ↔ d = 0 :=
  (score_ok_of_check _ http_table_check).2.2 d

/-- The form checked case by case against the implementation (`C12.score`). -/
theorem tcp_score_ok (d : Nat) (h : d < u32Max) : ScoreOkAt tcpScore d :=
  ⟨(tcp_score_range d (Nat.le_of_lt h)).1, (tcp_score_range d (Nat.le_of_lt h)).2,
   tcp_score_one_iff d, tcp_score_antitone d (d + 1) (Nat.le_succ d)⟩
theorem http_score_ok (d : Nat) (h : d < u32Max) : ScoreOkAt httpScore d :=
  ⟨(http_score_range d (Nat.le_of_lt h)).1, (http_score_range d (Nat.le_of_lt h)).2,
   http_score_one_iff d, http_score_antitone d (d + 1) (Nat.le_succ d)⟩

example : tcpScore 0 = 100 ∧ tcpScore 4 = 80 ∧ tcpScore 18 = 10 ∧ tcpScore 19 = 5 ∧
    tcpScore u32Max = 5 := by decide
example : httpScore 3 = 80 ∧ httpScore 12 = 10 ∧ httpScore 13 = 5 := by decide

/-- Every accepted observation scores at least the `MAX_DISTANCE` band (0.10), never the 0.05 floor. -/
theorem tcp_accepted_within_max {s : TcpSig} {o : TcpObs} {d : Nat} (h : tcpDistance s o = some d) :
    d ≤ Gen.Score.tcpMaxDistance ∧ 10 ≤ tcpScore d := by
  have hd := tcpDistance_le h
  have h18 : d ≤ 18 := by omega
  refine ⟨by simpa [Gen.Score.tcpMaxDistance] using h18, ?_⟩
  have := tcp_score_antitone d 18 h18
  have e : tcpScore 18 = 10 := by decide
  omega

theorem http_accepted_within_max {s : HttpSig} {o : HttpObs} {d : Nat}
    (h : httpDistance s o = some d) : d ≤ Gen.Score.httpMaxDistance ∧ 10 ≤ httpScore d := by
  have hd := httpDistance_le h
  have h12 : d ≤ 12 := by omega
  refine ⟨by simpa [Gen.Score.httpMaxDistance] using h12, ?_⟩
  have := http_score_antitone d 12 h12
  have e : httpScore 12 = 10 := by decide
  omega

/-! ## 2. TCP: the distance is the specified one -/

/-- **TCP distance = specification.** Wherever the specification determines the outcome
(instance → 0, decisive mismatch → rejected, comparable differences → the sum of their fixed
penalties) the code agrees — full strength since the window repairs (`fixes/C12-2…4`). -/
theorem tcp_spec (s : TcpSig) (o : TcpObs) (r : Option Nat) (h : specTcp s o = some r) :
    tcpDistance s o = r :=
  tcpDistance_eq_spec s o r h

def sigLinux : TcpSig :=
  { version := .any, ittl := .value 64, olen := 0, mss := none, wsize := .mss 20, wscale := some 7,
    olayout := [.mss, .sok, .ts, .nop, .ws], quirks := [.df, .nonZeroID], pclass := .zero }
def obsLinux : TcpObs :=
  { version := .v4, ittl := .distance 57 7, olen := 0, mss := some 1460, wsize := .value 29200,
    wscale := some 7, olayout := [.mss, .sok, .ts, .nop, .ws], quirks := [.df, .nonZeroID],
    pclass := .zero }

-- non-vacuity: an instance (raw window = 20 × MSS, TTL 57+7), a two-field difference, a rejection
example : specTcp sigLinux obsLinux = some (some 0) := by decide
example : specTcp sigLinux { obsLinux with ittl := .value 63, wscale := some 8 } = some (some 3) ∧
    tcpDistance sigLinux { obsLinux with ittl := .value 63, wscale := some 8 } = some 3 := by decide
example : specTcp sigLinux { obsLinux with quirks := [.df] } = some none := by decide

-- the three repaired window classes (former KF.C12.modDivides / valueVsMod / windowMssFloor), kept
-- as regression examples: `%4096` and a raw 8192 instantiate `%1024`; 2921 is not 2 × 1460
example : tcpDistance { sigLinux with wsize := .mod 1024 } { obsLinux with wsize := .mod 4096 } = some 0 := by
  decide
example : tcpDistance { sigLinux with wsize := .mod 1024 } { obsLinux with wsize := .value 8192 } = some 0 := by
  decide
example : tcpDistance { sigLinux with wsize := .mss 2 } { obsLinux with wsize := .value 2921 } = some 2 ∧
    specTcp { sigLinux with wsize := .mss 2 } { obsLinux with wsize := .value 2921 } = some (some 2) := by
  decide
example : specTcp { sigLinux with wsize := .mod 1024 } { obsLinux with wsize := .value 8193 } = some (some 2) := by
  decide

/-- **Instance law.** An observation instantiating the signature — wildcards filled with any
concrete values, TTL `t+d` with `t + d` the signature's TTL and `d ≤ 30` hops — is accepted
with distance 0 and quality 1.0. -/
theorem tcp_instance (s : TcpSig) (o : TcpObs) (ho : TtlWF o.ittl) (hs : TtlWF s.ittl)
    (hv : o.version ≠ .any) (h : TcpInst o s) :
    tcpDistance s o = some 0 ∧ tcpScore 0 = 100 := by
  obtain ⟨⟨hver, hl, hq, hp⟩, ht, hol, hm, hw, hws⟩ := h
  refine ⟨?_, (tcp_score_one_iff 0).mpr rfl⟩
  rw [tcpDistance_of_parts (distIpVersion_ok hver hv) (distTtl_inst _ _ ho hs ht)
    (distOlen_eq o s) (distMss_eq o s) (distWindow_inst _ _ _ hw) (distWscale_eq o s)
    (by simp [distOlayout, hl, tcpHigh_eq] : distOlayout o s = some 0)
    (by simp [distQuirks, hq, tcpHigh_eq] : distQuirks o s = some 0) (distPayload_ok hp)]
  simp [hol, hm, hws, satAdd32]

example : TcpInst obsLinux sigLinux := by decide

/-- The TTL clause on its own: a signature TTL `T` is matched at distance 0 by the raw value `T`, by
the guess `T+?`, and by `(T-d)+d` for *every* hop count `d ≤ 30` (all `T ≤ 255`, `d ≤ T`). -/
theorem ttl_instance_all_hops (T d : Nat) (hT : T ≤ 255) (hd : d ≤ 30) (hdT : d ≤ T) :
    distTtl (.distance (T - d) d) (.value T) = some 0 ∧ distTtl (.value T) (.value T) = some 0 ∧
    distTtl (.guess T) (.value T) = some 0 := by
  refine ⟨distTtl_inst _ _ ?_ ?_ ?_, distTtl_inst _ _ ?_ ?_ ?_, distTtl_inst _ _ ?_ ?_ ?_⟩ <;>
    simp only [TtlWF, TtlInst, maxHops] <;> omega

/-- **Decisive fields.** A mismatch in IP version, option layout, quirks or payload class is
never accepted, whatever the other fields are. (Full strength.) -/
theorem tcp_decisive_mismatch (s : TcpSig) (o : TcpObs) (h : ¬ TcpDecisiveOk o s) :
    tcpDistance s o = none :=
  tcp_decisive_none s o h

example : ¬ TcpDecisiveOk { obsLinux with olayout := [.mss, .sok, .ts, .nop, .ws, .eol 0] } sigLinux := by
  decide

/-! ### single non-decisive fields: monotone, and the exact penalty where comparable -/

private theorem sat9_mono {a b c d e f g h i b' : Nat} (hb : b ≤ b') :
    satAdd32 (satAdd32 (satAdd32 (satAdd32 (satAdd32 (satAdd32 (satAdd32 (satAdd32 a b) c) d) e) f) g) h) i ≤
    satAdd32 (satAdd32 (satAdd32 (satAdd32 (satAdd32 (satAdd32 (satAdd32 (satAdd32 a b') c) d) e) f) g) h) i := by
  simp only [satAdd32, u32Max]; omega

/-- TTL: replacing an instance TTL by any other TTL never lowers the distance; by a TTL of
comparable form that is not an instance, it raises it by exactly the TTL penalty. -/
theorem ttl_single_field (s : TcpSig) (o : TcpObs) (t : Ttl) (d : Nat)
    (ho : TtlWF o.ittl) (hs : TtlWF s.ittl) (hi : TtlInst o.ittl s.ittl)
    (hd : tcpDistance s o = some d) :
    (∀ d', tcpDistance s { o with ittl := t } = some d' → d ≤ d') ∧
    (TtlWF t → ¬ TtlInst t s.ittl → TtlComparable t s.ittl →
      tcpDistance s { o with ittl := t } = some (d + penTtl)) := by
  obtain ⟨d0, d1, d2, d3, d4, d5, d6, d7, d8, h0, h1, h2, h3, h4, h5, h6, h7, h8, rfl⟩ :=
    tcpDistance_some hd
  rw [distTtl_inst _ _ ho hs hi] at h1
  cases h1
  constructor
  · intro d' hd'
    obtain ⟨e0, e1, e2, e3, e4, e5, e6, e7, e8, g0, g1, g2, g3, g4, g5, g6, g7, g8, rfl⟩ :=
      tcpDistance_some hd'
    have : e0 = d0 := Option.some.inj (g0.symm.trans h0)
    have : e2 = d2 := Option.some.inj (g2.symm.trans h2)
    have : e3 = d3 := Option.some.inj (g3.symm.trans h3)
    have : e4 = d4 := Option.some.inj (g4.symm.trans h4)
    have : e5 = d5 := Option.some.inj (g5.symm.trans h5)
    have : e6 = d6 := Option.some.inj (g6.symm.trans h6)
    have : e7 = d7 := Option.some.inj (g7.symm.trans h7)
    have : e8 = d8 := Option.some.inj (g8.symm.trans h8)
    subst_vars
    exact sat9_mono (Nat.zero_le _)
  · intro ht hni hc
    have g1 : distTtl ({ o with ittl := t } : TcpObs).ittl s.ittl = some tcpLow :=
      distTtl_differ t s.ittl ht hs hni hc
    rw [tcpDistance_of_parts (o := { o with ittl := t }) h0 g1 h2 h3 h4 h5 h6 h7 h8]
    have := distIpVersion_le h0; have := distOlen_le h2; have := distMss_le h3
    have := distWindow_le h4; have := distWscale_le h5; have := distOlayout_le h6
    have := distQuirks_le h7; have := distPayload_le h8
    have h1' : (0 : Nat) ≤ 2 := by omega
    have h6' : d6 ≤ 2 := by omega
    have h7' : d7 ≤ 2 := by omega
    have h8' : d8 ≤ 2 := by omega
    have h0' : d0 ≤ 2 := by omega
    have h5' : d5 ≤ 2 := by omega
    rw [penTtl_eq, tcpLow_eq, sat9_eq h0' (Nat.le_refl 2) ‹d2 ≤ 2› ‹d3 ≤ 2› ‹d4 ≤ 2› h5' h6' h7' h8',
      sat9_eq h0' h1' ‹d2 ≤ 2› ‹d3 ≤ 2› ‹d4 ≤ 2› h5' h6' h7' h8']
    congr 1; omega

example : tcpDistance sigLinux obsLinux = some 0 ∧
    tcpDistance sigLinux { obsLinux with ittl := .distance 56 7 } = some (0 + penTtl) := by decide

/-- Window: the same law for the window field. -/
theorem window_single_field (s : TcpSig) (o : TcpObs) (w : WindowSize) (d : Nat)
    (hi : WinInst o.wsize s.wsize o.mss) (hd : tcpDistance s o = some d) :
    (∀ d', tcpDistance s { o with wsize := w } = some d' → d ≤ d') ∧
    (¬ WinInst w s.wsize o.mss → WinComparable w s.wsize →
      tcpDistance s { o with wsize := w } = some (d + penWindow)) := by
  obtain ⟨d0, d1, d2, d3, d4, d5, d6, d7, d8, h0, h1, h2, h3, h4, h5, h6, h7, h8, rfl⟩ :=
    tcpDistance_some hd
  rw [distWindow_inst _ _ _ hi] at h4
  cases h4
  constructor
  · intro d' hd'
    obtain ⟨e0, e1, e2, e3, e4, e5, e6, e7, e8, g0, g1, g2, g3, g4, g5, g6, g7, g8, rfl⟩ :=
      tcpDistance_some hd'
    have : e0 = d0 := Option.some.inj (g0.symm.trans h0)
    have : e1 = d1 := Option.some.inj (g1.symm.trans h1)
    have : e2 = d2 := Option.some.inj (g2.symm.trans h2)
    have : e3 = d3 := Option.some.inj (g3.symm.trans h3)
    have : e5 = d5 := Option.some.inj (g5.symm.trans h5)
    have : e6 = d6 := Option.some.inj (g6.symm.trans h6)
    have : e7 = d7 := Option.some.inj (g7.symm.trans h7)
    have : e8 = d8 := Option.some.inj (g8.symm.trans h8)
    subst_vars
    simp only [satAdd32, u32Max]; omega
  · intro hni hc
    have g4 : distWindow ({ o with wsize := w } : TcpObs).wsize s.wsize o.mss = some tcpLow :=
      distWindow_differ w s.wsize o.mss hni hc
    rw [tcpDistance_of_parts (o := { o with wsize := w }) h0 h1 h2 h3 g4 h5 h6 h7 h8]
    have := distIpVersion_le h0; have := distTtl_le h1; have := distOlen_le h2
    have := distMss_le h3; have := distWscale_le h5; have := distOlayout_le h6
    have := distQuirks_le h7; have := distPayload_le h8
    have h4' : (0 : Nat) ≤ 2 := by omega
    have h6' : d6 ≤ 2 := by omega
    have h7' : d7 ≤ 2 := by omega
    have h8' : d8 ≤ 2 := by omega
    have h0' : d0 ≤ 2 := by omega
    have h5' : d5 ≤ 2 := by omega
    rw [penWindow_eq, tcpLow_eq, sat9_eq h0' ‹d1 ≤ 2› ‹d2 ≤ 2› ‹d3 ≤ 2› (Nat.le_refl 2) h5' h6' h7' h8',
      sat9_eq h0' ‹d1 ≤ 2› ‹d2 ≤ 2› ‹d3 ≤ 2› h4' h5' h6' h7' h8']
    congr 1; omega

/-- Option length and window scale: equal → 0, different → exactly the penalty, nothing else
changes. (`olen` shown; `wscale` is `wscale_single_field`.) -/
theorem olen_single_field (s : TcpSig) (o : TcpObs) (n : Nat) (d : Nat) (hi : o.olen = s.olen)
    (hd : tcpDistance s o = some d) :
    tcpDistance s { o with olen := n } = some (d + if n = s.olen then 0 else penOlen) := by
  obtain ⟨d0, d1, d2, d3, d4, d5, d6, d7, d8, h0, h1, h2, h3, h4, h5, h6, h7, h8, rfl⟩ :=
    tcpDistance_some hd
  rw [distOlen_eq, if_pos hi] at h2
  cases h2
  rw [tcpDistance_of_parts (o := { o with olen := n }) h0 h1 (distOlen_eq _ s) h3 h4 h5 h6 h7 h8]
  have := distIpVersion_le h0; have := distTtl_le h1; have := distMss_le h3
  have := distWindow_le h4; have := distWscale_le h5; have := distOlayout_le h6
  have := distQuirks_le h7; have := distPayload_le h8
  have e : penOlen = 2 := by decide
  have hx : (if n = s.olen then 0 else penOlen) ≤ 2 := by rw [e]; split <;> omega
  rw [sat9_eq (by omega) ‹d1 ≤ 2› hx ‹d3 ≤ 2› ‹d4 ≤ 2› (by omega) (by omega) (by omega) (by omega),
    sat9_eq (by omega) ‹d1 ≤ 2› (by omega) ‹d3 ≤ 2› ‹d4 ≤ 2› (by omega) (by omega) (by omega) (by omega)]
  congr 1; omega

theorem wscale_single_field (s : TcpSig) (o : TcpObs) (n : Option Nat) (d : Nat)
    (hi : OptInst o.wscale s.wscale) (hd : tcpDistance s o = some d) :
    tcpDistance s { o with wscale := n } =
      some (d + if OptInst n s.wscale then 0 else penWscale) := by
  obtain ⟨d0, d1, d2, d3, d4, d5, d6, d7, d8, h0, h1, h2, h3, h4, h5, h6, h7, h8, rfl⟩ :=
    tcpDistance_some hd
  rw [distWscale_eq, if_pos hi] at h5
  cases h5
  rw [tcpDistance_of_parts (o := { o with wscale := n }) h0 h1 h2 h3 h4 (distWscale_eq _ s) h6 h7 h8]
  have := distIpVersion_le h0; have := distTtl_le h1; have := distOlen_le h2; have := distMss_le h3
  have := distWindow_le h4; have := distOlayout_le h6
  have := distQuirks_le h7; have := distPayload_le h8
  have e : penWscale = 1 := by decide
  have hx : (if OptInst n s.wscale then 0 else penWscale) ≤ 2 := by rw [e]; split <;> omega
  rw [sat9_eq (by omega) ‹d1 ≤ 2› ‹d2 ≤ 2› ‹d3 ≤ 2› ‹d4 ≤ 2› hx (by omega) (by omega) (by omega),
    sat9_eq (by omega) ‹d1 ≤ 2› ‹d2 ≤ 2› ‹d3 ≤ 2› ‹d4 ≤ 2› (by omega) (by omega) (by omega) (by omega)]
  congr 1; omega

/-- MSS: the observed MSS also enters the window comparison (`value` against `mss*n`), so the
single-field law is stated where the window relation does not read it. -/
theorem mss_single_field (s : TcpSig) (o : TcpObs) (n : Option Nat) (d : Nat)
    (hi : OptInst o.mss s.mss) (hw : ∀ m m', distWindow o.wsize s.wsize m = distWindow o.wsize s.wsize m')
    (hd : tcpDistance s o = some d) :
    tcpDistance s { o with mss := n } = some (d + if OptInst n s.mss then 0 else penMss) := by
  obtain ⟨d0, d1, d2, d3, d4, d5, d6, d7, d8, h0, h1, h2, h3, h4, h5, h6, h7, h8, rfl⟩ :=
    tcpDistance_some hd
  rw [distMss_eq, if_pos hi] at h3
  cases h3
  rw [hw o.mss n] at h4
  rw [tcpDistance_of_parts (o := { o with mss := n }) h0 h1 h2 (distMss_eq _ s) h4 h5 h6 h7 h8]
  have := distIpVersion_le h0; have := distTtl_le h1; have := distOlen_le h2
  have := distWindow_le h4; have := distWscale_le h5; have := distOlayout_le h6
  have := distQuirks_le h7; have := distPayload_le h8
  have e : penMss = 2 := by decide
  have hx : (if OptInst n s.mss then 0 else penMss) ≤ 2 := by rw [e]; split <;> omega
  rw [sat9_eq (by omega) ‹d1 ≤ 2› ‹d2 ≤ 2› hx ‹d4 ≤ 2› (by omega) (by omega) (by omega) (by omega),
    sat9_eq (by omega) ‹d1 ≤ 2› ‹d2 ≤ 2› (by omega) ‹d4 ≤ 2› (by omega) (by omega) (by omega) (by omega)]
  congr 1; omega

/-! ## 3. HTTP -/

def FullHttpSpec : Prop := ∀ s o r, specHttp s o = some r → httpDistance s o = r

def HttpKF (s : HttpSig) (o : HttpObs) : Prop :=
  (KF.C12.headerRepeatedName s.horder ∨ KF.C12.headerRepeatedName s.habsent) ∨
  KF.C12.expswReversed o.expsw s.expsw

instance (s o) : Decidable (HttpKF s o) := by unfold HttpKF; exact inferInstance

/-- Version mismatch → rejected; header lists instantiating the signature's → 0, plus the
software-string penalty iff the observed string does not contain the token. -/
theorem http_spec_partial (s : HttpSig) (o : HttpObs) (r : Option Nat) (hk : ¬ HttpKF s o)
    (h : specHttp s o = some r) : httpDistance s o = r :=
  httpDistance_eq_spec s o r (fun e => hk (.inl e)) (fun e => hk (.inr e)) h

def sigFx : HttpSig :=
  { version := .any,
    horder := [⟨false, "Host", none⟩, ⟨false, "User-Agent", none⟩, ⟨true, "Accept-Language", none⟩,
               ⟨false, "Connection", some "keep-alive"⟩],
    habsent := [], expsw := "Firefox/" }
def obsFx (sw : String) : HttpObs :=
  { version := .v11,
    horder := [⟨false, "Host", none⟩, ⟨false, "User-Agent", none⟩, ⟨false, "Connection", some "keep-alive"⟩],
    habsent := [], expsw := sw }

-- non-vacuity: an instance inside no class (string equal to the token) and a rejection
example : ¬ HttpKF sigFx (obsFx "Firefox/") ∧ specHttp sigFx (obsFx "Firefox/") = some (some 0) := by
  decide
example : specHttp { sigFx with version := .v10 } (obsFx "Firefox/") = some none := by decide

/-- The user agent `Mozilla/5.0 Firefox/3.6` contains `Firefox/`: an instance, costs 3. -/
theorem kf_expswReversed_witness : ¬ FullHttpSpec := fun h =>
  absurd (h sigFx (obsFx "Mozilla/5.0 Firefox/3.6") (some 0) (by decide)) (by decide)
example : KF.C12.expswReversed "Mozilla/5.0 Firefox/3.6" "Firefox/" := by decide

def sigRep : HttpSig :=
  { version := .any,
    horder := [⟨true, "A", none⟩, ⟨false, "A", none⟩, ⟨true, "B", none⟩, ⟨false, "B", none⟩,
               ⟨true, "C", none⟩, ⟨false, "C", none⟩],
    habsent := [], expsw := "" }
def obsRep : HttpObs :=
  { version := .v11, horder := [⟨false, "A", none⟩, ⟨false, "B", none⟩, ⟨false, "C", none⟩],
    habsent := [], expsw := "" }

/-- `?A,A,?B,B,?C,C` against `A,B,C`: an instance (each optional copy left out), three errors. -/
theorem kf_headerRepeatedName_witness : ¬ FullHttpSpec := fun h =>
  absurd (h sigRep obsRep (some 0) (by decide)) (by decide)
example : KF.C12.headerRepeatedName sigRep.horder := by decide

def sigWild : HttpSig :=
  { version := .any, horder := [⟨false, "A", none⟩, ⟨false, "B", none⟩, ⟨false, "C", none⟩],
    habsent := [], expsw := "" }
def obsWild : HttpObs :=
  { version := .v11,
    horder := [⟨false, "A", some "x"⟩, ⟨false, "B", some "x"⟩, ⟨false, "C", some "x"⟩],
    habsent := [], expsw := "" }

-- the repaired value-wildcard class (former KF.C12.headerValueWildcard): `A,B,C` (no values
-- demanded) against `A=[x],B=[x],C=[x]` is an instance at distance 0
example : HttpInst obsWild sigWild ∧ httpDistance sigWild obsWild = some 0 := by decide

/-- **Instance law (HTTP).** -/
def FullHttpInstance : Prop :=
  ∀ s o, HttpInst o s → httpDistance s o = some 0 ∧ httpScore 0 = 100

theorem http_instance_partial (s : HttpSig) (o : HttpObs) (hk : ¬ HttpKF s o) (h : HttpInst o s) :
    httpDistance s o = some 0 ∧ httpScore 0 = 100 := by
  obtain ⟨hv, hh, ha, hs⟩ := h
  refine ⟨?_, (http_score_one_iff 0).mpr rfl⟩
  have h1 := distHeader_inst hh (fun e => hk (.inl (.inl e)))
  have h2 := distHeader_inst ha (fun e => hk (.inl (.inr e)))
  have h3 := distExpsw_eq o.expsw s.expsw (fun e => hk (.inr e))
  rw [if_pos hs] at h3
  simp [httpDistance, distHttpVersion_ok hv, h1, h2, h3, satAdd32]

example : HttpInst (obsFx "Firefox/") sigFx := by decide

theorem kf_http_instance_witness : ¬ FullHttpInstance := fun h =>
  absurd (h sigFx (obsFx "Mozilla/5.0 Firefox/3.6") (by decide)).1 (by decide)

/-- **Decisive field (HTTP).** Full strength. -/
theorem http_decisive_mismatch (s : HttpSig) (o : HttpObs) (h : ¬ HttpVersionOk o.version s.version) :
    httpDistance s o = none :=
  httpDistance_none_of_version s o h

/-- Software string: on instance header lists the distance is 0 if the observed string contains
the token and exactly the `Bad` penalty otherwise (`exact penalty`), outside the reversed class. -/
theorem expsw_exact_penalty (o s : String) (hk : ¬ KF.C12.expswReversed o s) :
    distExpsw o s = some (if SwInst o s then 0 else penExpsw) :=
  distExpsw_eq o s hk

/-- Header lists: `k` unknown extra headers after an instance cost exactly `k` errors, i.e. the
band of `k`; and the band is monotone in the number of errors (`errorBand_mono`). -/
theorem header_extra_exact {os ss : List Header} (ex : List Header) (h : HdrInst os ss)
    (hnd : ¬ KF.C12.headerRepeatedName ss)
    (hex : ∀ e ∈ ex, e.name ∉ ss.map (·.name)) (hlen : ex.length ≤ u32Max) :
    distHeader (os ++ ex) ss = errorBand ex.length := by
  unfold distHeader
  rw [hdrErrors_inst_extra h ex (Classical.not_not.mp hnd) hex, Nat.min_eq_left hlen]

/-- The walk is *greedy*: one unknown header in front of the observed list consumes the whole
signature list — every required header becomes an error and so does every observed header —
whereas the same header at the end costs one error (`header_extra_exact`). Monotone, but far from
a fixed penalty; the statement fixes none for header lists, so this is recorded, not a finding. -/
theorem header_leading_extra (x : Header) (os ss : List Header)
    (hx : x.name ∉ ss.map (·.name)) :
    hdrErrors (x :: os) ss = (ss.filter (fun s => !s.optional)).length + (os.length + 1) := by
  induction ss with
  | nil => simp [hdrErrors]
  | cons s ss ih =>
    have hne : x.name ≠ s.name := fun e => hx (by simp [e])
    have ih := ih (fun hm => hx (by simp only [List.map_cons, List.mem_cons]; exact .inr hm))
    by_cases hopt : s.optional = true
    · simp only [hdrErrors, hne, false_and, if_false, hopt, if_true, ih, List.filter_cons,
        Bool.not_true, Bool.false_eq_true]
    · have hopt' : s.optional = false := by simpa using hopt
      simp only [hdrErrors, hne, false_and, if_false, hopt', Bool.false_eq_true, ih,
        List.filter_cons, Bool.not_false, if_true, List.length_cons]
      omega

theorem header_band_monotone {e₁ e₂ d₂ : Nat} (he : e₁ ≤ e₂) (h : errorBand e₂ = some d₂) :
    ∃ d₁, errorBand e₁ = some d₁ ∧ d₁ ≤ d₂ :=
  errorBand_mono he h

example : errorBand 2 = some 0 ∧ errorBand 3 = some 1 ∧ errorBand 11 = some 3 ∧ errorBand 12 = none := by
  decide

end Huginn.Props.C12
