import Huginn.Props.C07
/-
C01 — analysis is total; an instance is never poisoned.

This file holds the instance-level half: after ANY history the same analyzer instance analyses a
following well-formed input exactly as a fresh instance would. It is the `fresh_probe` corollary of
the C07 isolation theorem, instantiated for the three stateful flow analyzers. "Any history" really
is any list of segments — malformed traffic included: the flow programs are total functions of the
segment view, and whatever a malformed frame did to the table it did under its own keys.

No-fault / termination theorems for the byte-level functions live in Props/C01<Part>.lean.
-/
namespace Huginn.Props.C01
open Huginn.Flow Huginn.FlowProgs Huginn.Props.C07

/-- TLS: a ClientHello probe on a 4-tuple the history never used is analysed as by a fresh instance. -/
theorem tls_not_poisoned {R S : Type} (P : TlsParams R S) (c : FlowKey) (hist probe : List Seg) (cap : Nat)
    (hh : ∀ p ∈ hist, flowKeyOf p ≠ c) (hp : ∀ p ∈ probe, flowKeyOf p = c)
    (hne : NoEvict (tlsAnalyzer P) ({ cap := cap }, ()) (hist ++ probe)) :
    ((tlsAnalyzer P).runOuts ({ cap := cap }, ()) (hist ++ probe)).filter
        (fun po => decide (flowKeyOf po.1 = c)) =
      (tlsAnalyzer P).runOuts ({ cap := cap }, ()) probe :=
  fresh_probe (tlsAnalyzer P) (fun k => k) flowKeyOf (fun p => tls_local P p) c hist probe cap () hh hp hne

/-- HTTP (stateless parsers): a probe connection between endpoints the history never paired. -/
theorem http_not_poisoned {γ Q P : Type} (H : HttpParams γ Q P) (hs : Stateless H) (g : γ)
    (c : Ep × Ep) (hist probe : List Seg) (cap : Nat)
    (hh : ∀ p ∈ hist, httpConnOf p ≠ c) (hp : ∀ p ∈ probe, httpConnOf p = c)
    (hne : NoEvict (httpAnalyzer H) ({ cap := cap }, g) (hist ++ probe)) :
    ((httpAnalyzer H).runOuts ({ cap := cap }, g) (hist ++ probe)).filter
        (fun po => decide (httpConnOf po.1 = c)) =
      (httpAnalyzer H).runOuts ({ cap := cap }, g) probe :=
  fresh_probe (httpAnalyzer H) httpConnOfKey httpConnOf (fun p => http_local H hs p) c hist probe cap g hh hp hne

/-- TCP uptime tracker: a probe (connection, role) the history never used. -/
theorem tcp_not_poisoned {U : Type} (P : UptimeParams U) (fc : Seg → Bool) (c : TcpKey)
    (hist probe : List Seg) (cap : Nat)
    (hh : ∀ p ∈ hist, tcpKeyOf fc p ≠ c) (hp : ∀ p ∈ probe, tcpKeyOf fc p = c)
    (hne : NoEvict (tcpAnalyzer P fc) ({ cap := cap }, ()) (hist ++ probe)) :
    ((tcpAnalyzer P fc).runOuts ({ cap := cap }, ()) (hist ++ probe)).filter
        (fun po => decide (tcpKeyOf fc po.1 = c)) =
      (tcpAnalyzer P fc).runOuts ({ cap := cap }, ()) probe :=
  fresh_probe (tcpAnalyzer P fc) (fun k => k) (tcpKeyOf fc) (fun p => tcp_local P fc p) c hist probe cap () hh hp hne

/-- Every flow program terminates and yields a result for every segment and every table: they are
total functions (`Prog.run` is structurally recursive on the program, which is finite by
construction — the `Prog` tree of one packet has no loops). Stated as: running is a function. -/
theorem flow_step_total {κ σ γ ρ Pkt Out : Type} [DecidableEq κ] (A : Analyzer κ σ γ ρ Pkt Out)
    (s : TtlMap κ σ × γ) (p : Pkt) : ∃ s' o, A.step s p = (s', o) :=
  ⟨(A.step s p).1, (A.step s p).2, rfl⟩

end Huginn.Props.C01
