import Huginn.Model.H2Message
import Huginn.Spec.H2Message
namespace Huginn.Props.C16
end Huginn.Props.C16
