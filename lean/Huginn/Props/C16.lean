import Huginn.Model.H2Message
import Huginn.Spec.H2Message
import Huginn.Spec.Hpack
import Huginn.Spec.Akamai
import Huginn.Lemmas.H2Frames
import Huginn.Lemmas.Akamai
import Huginn.Lemmas.H2Message
import Huginn.Lemmas.HpackTables
import Huginn.Props.C17
set_option linter.unusedSimpArgs false
set_option linter.unusedVariables false
/-
C16 — HTTP/2 requests and responses are decoded as RFC 7540/7541 define them.

Everything is parametric in HPACK (`H : Hpack`): the block handed to `H.dec` with the initial state
is assumed to decode to the field list `hs`; the theorems say what the code then reports.

  1. `request_fields` / `response_fields`: from the decoded field list to the reported message
     (pseudo-headers, ordered header list with positions, cookie crumbs, referer / status);
  2. `h2_request_decode`, `h2_response_decode` (= `h2_decode` of DESIGN §7, full strength after
     fixes/C16-1..3): for every byte string whose frames (RFC 7540 wire format, `Spec.H2.Splits`) contain
     a complete header block for the message — any padding, PRIORITY fields, CONTINUATION cuts —
     `Http2Parser::parse_request` / `parse_response` report exactly the message of the encoded field list;
  3. `h2_observable_request`, `h2_observable_response`: the same for
     `HttpProcessors::parse_request/parse_response` including user agent, language and the p0f-style
     signature;
  4. `FullNotYet` (nothing is reported before END_HEADERS has arrived) with a kernel-checked witness
     that it fails (`KF.C16.headersContinued`, the one remaining first-party class);
  5. `h2_request_roundtrip`: the serialising direction, for every framing.
-/
namespace Huginn.Props.C16
open Huginn.H2 Huginn.Spec.H2 Huginn.Spec.H2Message Huginn.Lemmas.H2Frames Huginn.Lemmas.Akamai
  Huginn.Lemmas.H2Message

/-! ## 1. from the field list to the message -/

/-- the accumulator of `build_stream` after the fields `ts` (text) -/
private def accOf (ts : List Field) : StreamAcc := ((ts.zipIdx).map mk).foldl StreamAcc.add {}

private theorem acc_slot {β} (ts : List Field) (get : StreamAcc → Option β) (n : Bytes) (val : Hdr → Option β)
    (hadd : ∀ a h, get (a.add h) = if h.name = n then val h else get a) (h0 : get {} = none) :
    get (accOf ts) = (((ts.zipIdx.map mk).filter (fun h => h.name == n)).getLast?).bind val := by
  unfold accOf
  rw [fold_slot get n val hadd (fun _ _ => Or.inr trivial)]
  cases ((ts.zipIdx.map mk).filter (fun h => h.name == n)).getLast? <;> simp [h0]

private theorem count_le_find (ts : List Field) (n : Bytes) (h : count ts n ≤ 1) :
    (ts.filter (fun f => f.1 == n)).getLast? = ts.find? (fun f => f.1 == n) :=
  last_eq_find _ _ h

/-- a pseudo-header that occurs at most once: the accumulator holds its value -/
private theorem acc_pseudo (ts : List Field) (get : StreamAcc → Option Bytes) (n : Bytes)
    (hadd : ∀ a h, get (a.add h) = if h.name = n then some (gv h) else get a) (h0 : get {} = none)
    (hc : count ts n ≤ 1) : get (accOf ts) = pseudoValue ts n := by
  rw [acc_slot ts get n (fun h => some (gv h)) hadd h0]
  have := slot_value ts n
  rw [count_le_find ts n hc] at this
  unfold pseudoValue
  rw [← this]
  cases ((ts.zipIdx.map mk).filter (fun h => h.name == n)).getLast? <;> rfl

private theorem acc_headers_raw (ts : List Field) :
    (accOf ts).headers = (ts.zipIdx.filter (fun p => !special p.1.1)).map mk := by
  unfold accOf
  rw [fold_headers, List.filter_map]
  rfl

/-- with only request pseudo-headers (or only `:status`) present, the regular fields are the
fields whose name is none of the five special names -/
private theorem acc_headers (ts : List Field)
    (hps : ∀ f ∈ ts, isPseudoField f = true → special f.1 = true) :
    (accOf ts).headers = (ts.zipIdx.filter (fun p => !isPseudoField p.1)).map mk := by
  rw [acc_headers_raw]
  congr 1
  apply List.filter_congr
  intro p hp
  have hm := mem_of_mem_zipIdx ts p hp
  by_cases hs : special p.1.1 = true
  · have : isPseudoField p.1 = true := by
      unfold isPseudoField; rw [special_pseudo _ hs]; rfl
    simp [hs, this]
  · have hs' : special p.1.1 = false := by simpa using hs
    have : isPseudoField p.1 = false := by
      by_cases hq : isPseudoField p.1 = true
      · exact absurd (hps p.1 hm hq) hs
      · simpa using hq
    simp [hs', this]

/-- regular fields as index pairs -/
private def R (ts : List Field) : List (Field × Nat) := ts.zipIdx.filter (fun p => !isPseudoField p.1)

private theorem regular_R (ts : List Field) : regular ts = (R ts).map mk' := rfl

private theorem mk_eq_mk' (p : Field × Nat) : mk p = mk' p := rfl

private theorem lastValue_map (L : List (Field × Nat)) (key : Bytes) (hk : lowerAscii key = key)
    (hc : (L.filter (fun p => eqIgnoreCase p.1.1 key)).length ≤ 1) :
    lastValue (L.map mk) key = valueOf (L.map mk') key := by
  have hsome : ∀ h ∈ L.map mk', eqIgnoreCase h.name key = true → h.value.isSome = true := by
    intro h hh _
    rw [List.mem_map] at hh
    obtain ⟨q, _, rfl⟩ := hh
    rfl
  have hcount : countHdr (L.map mk') key ≤ 1 := by
    unfold countHdr
    rw [List.filter_map, List.length_map]
    exact hc
  exact lastValue_eq_valueOf (L.map mk') key hk hsome hcount

/-- what `parse_request` makes of a decoded field list, against the specification -/
theorem request_fields (hs : List Field) (sid : Nat) (frames : List Frame)
    (hleg : legalRequestFields hs = true) :
    ∃ r, finishRequest ((toHdrs hs).foldl StreamAcc.add {}) sid frames = .ok (some r) ∧
      reqCore r = requestOf hs := by
  rw [toHdrs_eq]
  generalize hts : textFields hs = ts
  have hacc : (ts.zipIdx.map mk).foldl StreamAcc.add {} = accOf ts := rfl
  rw [hacc]
  unfold legalRequestFields at hleg
  rw [hts] at hleg
  simp only [Bool.and_eq_true, decide_eq_true_eq, beq_iff_eq] at hleg
  obtain ⟨⟨⟨⟨⟨⟨⟨hps, hcm⟩, hcp⟩, hcs⟩, hca⟩, hua⟩, hal⟩, hrf⟩ := hleg
  -- pseudo-headers
  have hps' : ∀ f ∈ ts, isPseudoField f = true → special f.1 = true := by
    intro f hf hp
    rw [List.all_eq_true] at hps
    have := hps f (List.mem_filter.mpr ⟨hf, hp⟩)
    simp only [Bool.or_eq_true, beq_iff_eq] at this
    unfold special
    rcases this with ((h | h) | h) | h <;> simp [h]
  have hm := acc_pseudo ts (·.method) nMethod add_method rfl (by omega)
  have hp := acc_pseudo ts (·.path) nPath add_path rfl (by omega)
  have ha := acc_pseudo ts (·.authority) nAuthority add_authority rfl hca
  have hsc := acc_pseudo ts (·.scheme) nScheme add_scheme rfl hcs
  have hmsome : ∃ m, pseudoValue ts nMethod = some m := by
    unfold pseudoValue
    cases hf : ts.find? (fun f => f.1 == nMethod) with
    | some f => exact ⟨f.2, rfl⟩
    | none =>
      exfalso
      have : ts.filter (fun f => f.1 == nMethod) = [] := by
        rw [List.filter_eq_nil_iff]; intro a ha'
        exact (List.find?_eq_none.mp hf) a ha'
      unfold count at hcm; rw [this] at hcm; simp at hcm
  have hpsome : ∃ p, pseudoValue ts nPath = some p := by
    unfold pseudoValue
    cases hf : ts.find? (fun f => f.1 == nPath) with
    | some f => exact ⟨f.2, rfl⟩
    | none =>
      exfalso
      have : ts.filter (fun f => f.1 == nPath) = [] := by
        rw [List.filter_eq_nil_iff]; intro a ha'
        exact (List.find?_eq_none.mp hf) a ha'
      unfold count at hcp; rw [this] at hcp; simp at hcp
  obtain ⟨m, hm'⟩ := hmsome
  obtain ⟨p, hp'⟩ := hpsome
  have hh := acc_headers ts hps'
  change (accOf ts).headers = (R ts).map mk at hh
  unfold finishRequest
  rw [hm, hp, hm', hp']
  simp only
  refine ⟨_, rfl, ?_⟩
  unfold reqCore requestOf
  rw [hts]
  simp only [ReqCore.mk.injEq, hm', hp', Option.getD_some, ha, hsc, true_and]
  rw [hh]
  refine ⟨?_, ?_, ?_⟩
  · -- ordered header list
    unfold requestHeaders
    rw [regular_R, List.filter_map, List.filter_map]
    have hpred : ((fun h : Hdr => lowerAscii h.name != nCookie && lowerAscii h.name != nReferer) ∘ mk)
        = ((fun h : Hdr => !isCookie h && !isReferer h) ∘ mk') := by
      funext q
      simp only [Function.comp, mk, mk', isCookie, isReferer, eqIgnoreCase, lower_fixed.1, lower_fixed.2.1, bne]
    rw [hpred]
    rfl
  · -- cookies
    rw [regular_R]
    exact cookies_eq (R ts)
  · -- referer
    rw [regular_R]
    have hfl : ((R ts).map mk).filter (fun h : Hdr => lowerAscii h.name == nReferer)
        = ((R ts).filter (fun q => eqIgnoreCase q.1.1 nReferer)).map mk := by
      rw [List.filter_map]
      congr 1
    rw [hfl]
    have hcnt : (((R ts).filter (fun q => eqIgnoreCase q.1.1 nReferer)).filter (fun q => eqIgnoreCase q.1.1 nReferer)).length ≤ 1 := by
      rw [List.filter_filter]
      simp only [Bool.and_self]
      unfold countHdr at hrf
      rw [regular_R, List.filter_map, List.length_map] at hrf
      exact hrf
    rw [lastValue_map _ nReferer lower_fixed.2.1 hcnt]
    unfold valueOf
    rw [List.find?_map, List.find?_map, List.find?_filter]
    have hpe : (fun a : Field × Nat => decide (eqIgnoreCase a.1.1 nReferer = true ∧
        ((fun h : Hdr => eqIgnoreCase h.name nReferer) ∘ mk') a = true))
        = ((fun h : Hdr => eqIgnoreCase h.name nReferer) ∘ mk') := by
      funext a
      simp [Function.comp, mk']
    rw [hpe]

/-! ## 2. from the bytes to the message -/

private theorem frames_of_data (data : Bytes) (frames : List Frame) (hpre : hasPreface data = true)
    (hsplit : Splits (afterPreface data) frames) : frames = parseFrames (data.drop preface.length) := by
  have h1 := C17.splits_unique hsplit (C17.parseFrames_splits _)
  rw [h1]
  unfold afterPreface
  unfold hasPreface at hpre
  rw [C17.preface_is_rfc] at hpre ⊢
  simp [hpre]

private theorem frames_nonempty (frames : List Frame) (x : Frame × List Frame × Block)
    (h : primaryBlock frames = some x) : frames.isEmpty = false := by
  cases frames with
  | nil => simp [primaryBlock, firstWithRest] at h
  | cons _ _ => rfl

/-- **C16, requests (`Http2Parser::parse_request`), full strength.** For every HPACK, every byte
string that starts with the client preface, the frames it carries (RFC 7540 §4.1), a complete header
block `b` of the first request — the HEADERS fragment without Pad Length / priority fields / padding
followed by the CONTINUATION fragments up to END_HEADERS (RFC 7540 §6.2/§6.10) — that decodes, with
a fresh context, to the field list `hs` (legal per RFC 7540 §8.1.2), and no further header-bearing
frame on the stream: the parser reports exactly method, path, authority, scheme, the ordered header
list, the cookies and the referer of `hs`. No exclusion: any padding, PRIORITY fields, any cut into
CONTINUATION frames, any empty values. -/
theorem h2_request_decode (H : Hpack) (data : Bytes) (frames : List Frame) (f : Frame)
    (after : List Frame) (b : Bytes) (hs : List Field) (σ' : H.σ)
    (hpre : hasPreface data = true) (hsplit : Splits (afterPreface data) frames)
    (hblk : primaryBlock frames = some (f, after, .complete b))
    (hdec : H.dec H.init b = (some hs, σ'))
    (hleg : legalRequestFields hs = true) (hlater : noLaterBlocks f after = true) :
    ∃ r, parseRequest H data = .ok (some r) ∧ reqCore r = requestOf hs := by
  have hfr := frames_of_data data frames hpre hsplit
  obtain ⟨hprim, hbuild⟩ := buildStream_block H frames f after b hs σ' hblk hdec hlater
  have hne := frames_nonempty frames _ hblk
  unfold parseRequest
  simp only [hpre, Bool.not_true, Bool.false_eq_true, if_false]
  rw [← hfr]
  simp only [hne, Bool.false_eq_true, if_false, hprim, hbuild]
  exact request_fields hs f.sid frames hleg

/-- the remaining statement that fails: while the END_HEADERS of the message's header block has not
arrived, nothing is reported (`KF.C16.headersContinued`) -/
def FullNotYet : Prop :=
  ∀ (H : Hpack) (data : Bytes) (frames : List Frame) (f : Frame) (after : List Frame),
    hasPreface data = true → Splits (afterPreface data) frames →
    primaryBlock frames = some (f, after, .incomplete) → parseRequest H data = .ok none

/-! ## 3. responses -/

private theorem status_slot (ts : List Field) (hc : count ts nStatus ≤ 1) :
    (accOf ts).status = statusOf ts := by
  rw [acc_slot ts (·.status) nStatus (fun h => h.value.bind parseU16) add_status rfl]
  unfold statusOf pseudoValue
  rw [← count_le_find ts nStatus hc, ← filter_zipIdx_fst (fun f : Field => f.1 == nStatus) ts,
    List.getLast?_map, List.filter_map, List.getLast?_map]
  have h1 : (ts.zipIdx.filter ((fun h => h.name == nStatus) ∘ mk))
      = ts.zipIdx.filter (fun p => (fun f : Field => f.1 == nStatus) p.1) := rfl
  rw [h1]
  cases (ts.zipIdx.filter (fun p => (fun f : Field => f.1 == nStatus) p.1)).getLast? with
  | none => rfl
  | some p => rfl

theorem response_fields (hs : List Field) (sid : Nat) (frames : List Frame)
    (hleg : legalResponseFields hs = true) :
    ∃ r, finishResponse ((toHdrs hs).foldl StreamAcc.add {}) sid frames = .ok (some r) ∧
      respCore r = responseOf hs := by
  rw [toHdrs_eq]
  generalize hts : textFields hs = ts
  have hacc : (ts.zipIdx.map mk).foldl StreamAcc.add {} = accOf ts := rfl
  rw [hacc]
  unfold legalResponseFields at hleg
  rw [hts] at hleg
  simp only [Bool.and_eq_true, decide_eq_true_eq, beq_iff_eq] at hleg
  obtain ⟨⟨⟨⟨hps, hcs⟩, hst⟩, _⟩, _⟩ := hleg
  have hps' : ∀ f ∈ ts, isPseudoField f = true → special f.1 = true := by
    intro f hf hp
    rw [List.all_eq_true] at hps
    have := hps f (List.mem_filter.mpr ⟨hf, hp⟩)
    simp only [beq_iff_eq] at this
    unfold special
    simp [this]
  have hs' := status_slot ts (by omega)
  obtain ⟨st, hst'⟩ := Option.isSome_iff_exists.mp hst
  have hh := acc_headers ts hps'
  change (accOf ts).headers = (R ts).map mk at hh
  unfold finishResponse
  rw [hs', hst']
  simp only
  refine ⟨_, rfl, ?_⟩
  unfold respCore responseOf
  rw [hts]
  simp only [RespCore.mk.injEq, hst', Option.getD_some, true_and]
  rw [hh, regular_R]
  rfl

/-- **C16, responses (`Http2Parser::parse_response`), full strength.** -/
theorem h2_response_decode (H : Hpack) (data : Bytes) (frames : List Frame) (f : Frame)
    (after : List Frame) (b : Bytes) (hs : List Field) (σ' : H.σ)
    (hsplit : Splits data frames)
    (hblk : primaryBlock frames = some (f, after, .complete b))
    (hdec : H.dec H.init b = (some hs, σ'))
    (hleg : legalResponseFields hs = true) (hlater : noLaterBlocks f after = true) :
    ∃ r, parseResponse H data = .ok (some r) ∧ respCore r = responseOf hs := by
  have hfr : frames = parseFrames data := C17.splits_unique hsplit (C17.parseFrames_splits _)
  obtain ⟨hprim, hbuild⟩ := buildStream_block H frames f after b hs σ' hblk hdec hlater
  have hne := frames_nonempty frames _ hblk
  unfold parseResponse
  rw [← hfr]
  simp only [hne, Bool.false_eq_true, if_false, hprim, hbuild]
  exact response_fields hs f.sid frames hleg

/-! ## 4. the observable level: user agent, language, p0f signature -/

private theorem countHdr_filter_le (l : List Hdr) (q : Hdr → Bool) (key : Bytes) :
    countHdr (l.filter q) key ≤ countHdr l key := by
  unfold countHdr
  rw [List.filter_filter]
  have : l.filter (fun a => eqIgnoreCase a.name key && q a) = (l.filter (fun h => eqIgnoreCase h.name key)).filter q := by
    rw [List.filter_filter]
    apply List.filter_congr
    intro a _
    exact Bool.and_comm _ _
  rw [this]
  exact List.length_filter_le _ _

private theorem regular_values_some (ts : List Field) : ∀ h ∈ regular ts, h.value.isSome = true := by
  intro h hh
  rw [regular_R, List.mem_map] at hh
  obtain ⟨q, _, rfl⟩ := hh
  rfl

theorem obs_request_of_core (lang : Bytes → Option Bytes) (hs : List Field) (r : Request)
    (hcore : reqCore r = requestOf hs) (hleg : legalRequestFields hs = true) :
    obsReqCore (toObsRequest lang r) = obsRequestOf lang hs := by
  unfold reqCore at hcore
  have hm : r.method = (requestOf hs).method := congrArg ReqCore.method hcore
  have hp : r.path = (requestOf hs).path := congrArg ReqCore.path hcore
  have hh : r.headers = (requestOf hs).headers := congrArg ReqCore.headers hcore
  have hc : r.cookies = (requestOf hs).cookies := congrArg ReqCore.cookies hcore
  have hr : r.referer = (requestOf hs).referer := congrArg ReqCore.referer hcore
  unfold legalRequestFields at hleg
  simp only [Bool.and_eq_true, decide_eq_true_eq] at hleg
  obtain ⟨⟨⟨_, hua⟩, hal⟩, _⟩ := hleg
  have hHs : (requestOf hs).headers = requestHeaders (textFields hs) := rfl
  have hsome : ∀ h ∈ (requestOf hs).headers, h.value.isSome = true := by
    intro h hh'
    rw [hHs] at hh'
    unfold requestHeaders at hh'
    exact regular_values_some _ h (List.mem_filter.mp hh').1
  have hcu : countHdr (requestOf hs).headers nUserAgent ≤ 1 := by
    rw [hHs]; unfold requestHeaders
    exact Nat.le_trans (countHdr_filter_le _ _ _) hua
  have hcl : countHdr (requestOf hs).headers nAcceptLanguage ≤ 1 := by
    rw [hHs]; unfold requestHeaders
    exact Nat.le_trans (countHdr_filter_le _ _ _) hal
  have hua' := lastValue_eq_valueOf (requestOf hs).headers nUserAgent lower_fixed.2.2.1 (fun h hh' _ => hsome h hh') hcu
  have hal' := lastValue_eq_valueOf (requestOf hs).headers nAcceptLanguage lower_fixed.2.2.2.1 (fun h hh' _ => hsome h hh') hcl
  unfold obsReqCore toObsRequest obsRequestOf
  simp only [hm, hp, hh, hc, hr, hua', hal', toSig_eq, absent_eq]

theorem obs_response_of_core (hs : List Field) (r : Response)
    (hcore : respCore r = responseOf hs) (hleg : legalResponseFields hs = true)
    (hsrv : r.server = lastValue r.headers nServer) :
    obsRespCore (toObsResponse r) = obsResponseOf hs := by
  unfold respCore at hcore
  have hst : r.status = (responseOf hs).status := congrArg RespCore.status hcore
  have hh : r.headers = (responseOf hs).headers := congrArg RespCore.headers hcore
  unfold legalResponseFields at hleg
  simp only [Bool.and_eq_true, decide_eq_true_eq] at hleg
  obtain ⟨_, hcs⟩ := hleg
  have hHs : (responseOf hs).headers = regular (textFields hs) := rfl
  have hsome : ∀ h ∈ (responseOf hs).headers, h.value.isSome = true := by
    intro h hh'; rw [hHs] at hh'; exact regular_values_some _ h hh'
  have hs' := lastValue_eq_valueOf (responseOf hs).headers nServer lower_fixed.2.2.2.2 (fun h hh' _ => hsome h hh')
    (by rw [hHs]; exact hcs)
  unfold obsRespCore toObsResponse obsResponseOf
  simp only [hst, hh, hsrv, hs', toSig_eq, absent_eq]

private theorem canParse_of_preface (data : Bytes) (hpre : hasPreface data = true) : h2CanParse data = true := by
  unfold h2CanParse
  have h24 : data.length ≥ 24 := by
    have := (List.isPrefixOf_iff_prefix.mp hpre).length_le
    have hl : preface.length = 24 := by decide
    omega
  simp [hpre, h24]

/-- **C16, observable request (`HttpProcessors::parse_request`), full strength.** Under the
hypotheses of `h2_request_decode` the analyzer reports method, uri, ordered header list, cookies,
referer, user agent, language and the p0f-style signature (`horder`, `habsent`, `expsw`, header
lists applied ignoring case) of the encoded field list. -/
theorem h2_observable_request (H : Hpack) (lang : Bytes → Option Bytes) (data : Bytes)
    (frames : List Frame) (f : Frame) (after : List Frame) (b : Bytes) (hs : List Field) (σ' : H.σ)
    (hpre : hasPreface data = true) (hsplit : Splits (afterPreface data) frames)
    (hblk : primaryBlock frames = some (f, after, .complete b))
    (hdec : H.dec H.init b = (some hs, σ'))
    (hleg : legalRequestFields hs = true) (hlater : noLaterBlocks f after = true) :
    (processorsParseRequest H lang data).map obsReqCore = some (obsRequestOf lang hs) := by
  obtain ⟨r, hr, hcore⟩ := h2_request_decode H data frames f after b hs σ' hpre hsplit hblk hdec hleg hlater
  unfold processorsParseRequest
  simp only [canParse_of_preface data hpre, if_true, hr, Option.map_some]
  rw [obs_request_of_core lang hs r hcore hleg]

/-- the `server` field of the response record is what `toObsResponse` reads -/
private theorem finishResponse_server {st : StreamAcc} {sid : Nat} {frames : List Frame} {r : Response}
    (h : finishResponse st sid frames = .ok (some r)) : r.server = lastValue r.headers nServer := by
  unfold finishResponse at h
  cases hs : st.status with
  | none => rw [hs] at h; cases h
  | some s =>
    rw [hs] at h
    simp only [Except.ok.injEq, Option.some.injEq] at h
    rw [← h]

/-- **C16, observable response (`HttpProcessors::parse_response`), full strength**, for inputs on
which the HTTP/2 adapter is consulted (`h2CanParse`). -/
theorem h2_observable_response (H : Hpack) (data : Bytes)
    (frames : List Frame) (f : Frame) (after : List Frame) (b : Bytes) (hs : List Field) (σ' : H.σ)
    (hcan : h2CanParse data = true) (hsplit : Splits data frames)
    (hblk : primaryBlock frames = some (f, after, .complete b))
    (hdec : H.dec H.init b = (some hs, σ'))
    (hleg : legalResponseFields hs = true) (hlater : noLaterBlocks f after = true) :
    (processorsParseResponse H data).map obsRespCore = some (obsResponseOf hs) := by
  have hfr : frames = parseFrames data := C17.splits_unique hsplit (C17.parseFrames_splits _)
  obtain ⟨hprim, hbuild⟩ := buildStream_block H frames f after b hs σ' hblk hdec hlater
  have hne := frames_nonempty frames _ hblk
  obtain ⟨r, hr, hcore⟩ := response_fields hs f.sid frames hleg
  have hparse : parseResponse H data = .ok (some r) := by
    unfold parseResponse
    rw [← hfr]
    simp only [hne, Bool.false_eq_true, if_false, hprim, hbuild]
    exact hr
  unfold processorsParseResponse
  simp only [hcan, if_true, hparse, Option.map_some]
  rw [obs_response_of_core hs r hcore hleg (finishResponse_server hr)]

/-! ## 5. non-vacuity and witnesses -/

/-- for a concrete input and the crate's HPACK: every hypothesis of `h2_request_decode` holds -/
private def hypsHold (data : Bytes) : Bool :=
  let frames := parseFrames (afterPreface data)
  match primaryBlock frames with
  | some (f, after, .complete b) =>
    match Hpack.crate.dec Hpack.crate.init b with
    | (some hs, _) => hasPreface data && legalRequestFields hs && noLaterBlocks f after
    | _ => false
  | _ => false

/-- … and the parser reports the request of the decoded field list -/
private def reportsRequest (data : Bytes) : Bool :=
  let frames := parseFrames (afterPreface data)
  match primaryBlock frames with
  | some (_, _, .complete b) =>
    match Hpack.crate.dec Hpack.crate.init b with
    | (some hs, _) =>
      (match parseRequest Hpack.crate data with
        | .ok (some r) => decide (reqCore r = requestOf hs)
        | _ => false)
    | _ => false
  | _ => false

private def pre : Bytes := Spec.H2.clientPreface
-- :method GET, :path /, :scheme https, user-agent: curl/8 (literal), accept: */*
private def blockGood : Bytes :=
  [0x82, 0x84, 0x87, 0x00, 0x0a, 117, 115, 101, 114, 45, 97, 103, 101, 110, 116, 0x06, 99, 117, 114, 108, 47, 56,
   0x00, 0x06, 97, 99, 99, 101, 112, 116, 0x03, 42, 47, 42]
-- HEADERS (END_STREAM|END_HEADERS) stream 1
private def wGood : Bytes := pre ++ [0, 0, 34, 1, 5, 0, 0, 0, 1] ++ blockGood

private def ua : Bytes := [117, 115, 101, 114, 45, 97, 103, 101, 110, 116]
private def curl8 : Bytes := [99, 117, 114, 108, 47, 56]
private def acc : Bytes := [97, 99, 99, 101, 112, 116]
private def star : Bytes := [42, 47, 42]

example : hypsHold wGood = true ∧
    (match parseRequest Hpack.crate wGood with
     | .ok (some r) => decide (reqCore r =
        { method := [71, 69, 84], path := [47], authority := none, scheme := some [104, 116, 116, 112, 115],
          headers := [{ name := ua, value := some curl8, position := 3 }, { name := acc, value := some star, position := 4 }],
          cookies := [], referer := none })
     | _ => false) = true := by decide

-- the same block behind the PRIORITY fields (flags END_STREAM|END_HEADERS|PRIORITY)
private def wPriority : Bytes := pre ++ [0, 0, 39, 1, 0x25, 0, 0, 0, 1, 0, 0, 0, 0, 15] ++ blockGood
-- the same block padded (PADDED, pad length 3)
private def wPadded : Bytes := pre ++ [0, 0, 38, 1, 0x0d, 0, 0, 0, 1, 3] ++ blockGood ++ [0, 0, 0]
-- the same block cut after 5 octets (inside the literal name), second part in a CONTINUATION frame
private def wContinued : Bytes :=
  pre ++ [0, 0, 5, 1, 1, 0, 0, 0, 1] ++ blockGood.take 5 ++ [0, 0, 29, 9, 4, 0, 0, 0, 1] ++ blockGood.drop 5
-- :method GET, :path /, x-e: (empty), accept: */*
private def wEmpty : Bytes :=
  pre ++ [0, 0, 20, 1, 5, 0, 0, 0, 1, 0x82, 0x84, 0x00, 0x03, 120, 45, 101, 0x00, 0x00, 0x06, 97, 99, 99, 101, 112, 116, 0x03, 42, 47, 42]

/-- the former finding classes (PRIORITY fields, padding, CONTINUATION, empty value) are instances of
`h2_request_decode` now -/
example : hypsHold wPriority = true ∧ reportsRequest wPriority = true ∧
    hypsHold wPadded = true ∧ reportsRequest wPadded = true ∧
    hypsHold wContinued = true ∧ reportsRequest wContinued = true ∧
    hypsHold wEmpty = true ∧ reportsRequest wEmpty = true := by decide

-- HEADERS without END_HEADERS carrying the whole block; the CONTINUATION has not arrived
private def wUnterminated : Bytes := pre ++ [0, 0, 34, 1, 1, 0, 0, 0, 1] ++ blockGood

theorem kf_headersContinued_witness :
    KF.C16.headersContinued (parseFrames (afterPreface wUnterminated)) = true ∧
    hasPreface wUnterminated = true ∧
    (primaryBlock (parseFrames (afterPreface wUnterminated))).map (fun x => x.2.2) = some .incomplete ∧
    (match parseRequest Hpack.crate wUnterminated with | .ok none => false | _ => true) = true := by decide

/-- a request is reported before the END_HEADERS of its header block has arrived -/
theorem fullNotYet_fails : ¬ FullNotYet := by
  intro hfull
  have hw := kf_headersContinued_witness
  cases hpb : primaryBlock (parseFrames (afterPreface wUnterminated)) with
  | none => rw [hpb] at hw; simp at hw
  | some x =>
    obtain ⟨f, after, blk⟩ := x
    have hblk : blk = .incomplete := by
      have := hw.2.2.1; rw [hpb] at this; simpa using this
    subst hblk
    have h := hw.2.2.2
    rw [hfull Hpack.crate wUnterminated _ f after hw.2.1 (C17.parseFrames_splits _) hpb] at h
    simp at h

/-- the p0f signature of `user-agent: curl/8`, `accept: */*`: the user-agent value is elided
(skip-value list, applied ignoring case) -/
example :
    let hs : List Field := [(nMethod, [71, 69, 84]), (nPath, [47]), (nScheme, [104, 116, 116, 112, 115]), (ua, curl8), (acc, star)]
    (Hpack.crate.dec Hpack.crate.init blockGood).1 = some hs ∧
    (processorsParseRequest Hpack.crate (fun _ => none) wGood).map obsReqCore = some (obsRequestOf (fun _ => none) hs) ∧
    renderSig (obsRequestOf (fun _ => none) hs).horder (obsRequestOf (fun _ => none) hs).habsent
        (obsRequestOf (fun _ => none) hs).expsw =
      Spec.Akamai.ascii "2:user-agent,accept=[*/*]:Host,Connection,Accept-Encoding,Accept-Language,Accept-Charset,Keep-Alive:curl/8" := by
  decide

/-! non-vacuity of the response theorems -/

-- HEADERS (END_HEADERS) stream 1: :status 200 (static 8), x-a: b (literal)
private def wResp : Bytes := [0, 0, 8, 1, 4, 0, 0, 0, 1, 0x88, 0x00, 0x03, 120, 45, 97, 0x01, 98]
private def xa : Bytes := [120, 45, 97]

example :
    let frames := parseFrames wResp
    let hs : List Field := [(nStatus, [50, 48, 48]), (xa, [98])]
    h2CanParse wResp = true ∧
    (primaryBlock frames).map (fun x => x.2.2) = some (.complete [0x88, 0x00, 0x03, 120, 45, 97, 0x01, 98]) ∧
    (Hpack.crate.dec Hpack.crate.init [0x88, 0x00, 0x03, 120, 45, 97, 0x01, 98]).1 = some hs ∧
    legalResponseFields hs = true ∧
    (processorsParseResponse Hpack.crate wResp).map obsRespCore = some (obsResponseOf hs) ∧
    (obsResponseOf hs).status = 200 ∧
    renderSig (obsResponseOf hs).horder (obsResponseOf hs).habsent (obsResponseOf hs).expsw =
      Spec.Akamai.ascii "2:x-a=[b]:Content-Type,Connection,Keep-Alive,Accept-Ranges,Date:???" := by decide

/-! ## 6. the serialising direction: every header list, every encoding, every framing, any frames first -/

/-- wire form of a frame sequence (reserved bits clear) -/
def ser (frames : List Frame) : Bytes := (frames.map (wire false)).flatten

private theorem wireAll_replicate (frames : List Frame) :
    wireAll (List.replicate frames.length false) frames = ser frames := by
  induction frames with
  | nil => rfl
  | cons f fs ih => simp [wireAll, ser, List.replicate_succ] at ih ⊢; rw [ih]

private theorem tail_nil : Tail [] := by
  rintro ⟨r, f, more, _, h⟩
  have := congrArg List.length h
  simp [wire] at this

private theorem splits_ser (frames : List Frame) (hacc : ∀ g ∈ frames, Acceptable g) : Splits (ser frames) frames :=
  ⟨List.replicate frames.length false, [], by simp, by rw [wireAll_replicate]; simp, hacc, tail_nil⟩

private theorem firstWithRest_append (p : Frame → Bool) : ∀ (pre l : List Frame),
    (∀ g ∈ pre, p g = false) → firstWithRest p (pre ++ l) = firstWithRest p l := by
  intro pre
  induction pre with
  | nil => intro l _; rfl
  | cons g gs ih =>
    intro l h
    simp only [List.cons_append, firstWithRest, h g (by simp), Bool.false_eq_true, if_false]
    exact ih l (fun x hx => h x (List.mem_cons_of_mem _ hx))

private theorem hasPreface_append (x : Bytes) : hasPreface (clientPreface ++ x) = true := by
  unfold hasPreface
  rw [C17.preface_is_rfc]
  exact List.isPrefixOf_iff_prefix.mpr (List.prefix_append _ _)

private theorem afterPreface_append (x : Bytes) : afterPreface (clientPreface ++ x) = x := by
  unfold afterPreface
  have : clientPreface.isPrefixOf (clientPreface ++ x) = true :=
    List.isPrefixOf_iff_prefix.mpr (List.prefix_append _ _)
  simp [this]

/-- **C16, serialising direction.** For *every* field list `hs` that is a legal request, *every*
encoding `block` of it (anything `H` decodes to `hs` — indexed, literal, Huffman, size updates, …),
*every* framing of that block as a HEADERS frame `hf` on a non-zero stream followed by the frames
`rest` (PADDED with any pad length, PRIORITY fields, any cut into CONTINUATION frames: whatever RFC 7540
§6.2/§6.10 reads back as `block`, with no further header-bearing frame on the stream), and *every*
sequence `pre` of acceptable frames sent first that contains no request HEADERS frame (SETTINGS,
WINDOW_UPDATE, PING, PRIORITY, DATA, …): the client preface followed by those frames is reported as
the request of `hs`. -/
theorem h2_request_roundtrip (H : Hpack) (pre : List Frame) (hf : Frame) (rest : List Frame) (block : Bytes)
    (hs : List Field) (σ' : H.σ)
    (hacc : ∀ g ∈ pre ++ hf :: rest, Acceptable g)
    (hmsg : isMsgHeaders hf = true) (hpre : ∀ g ∈ pre, isMsgHeaders g = false)
    (hblock : headerBlock hf rest = .complete block) (hlater : noLaterBlocks hf rest = true)
    (hdec : H.dec H.init block = (some hs, σ')) (hleg : legalRequestFields hs = true) :
    ∃ r, parseRequest H (clientPreface ++ ser (pre ++ hf :: rest)) = .ok (some r) ∧ reqCore r = requestOf hs := by
  have hfw : firstWithRest isMsgHeaders (pre ++ hf :: rest) = some (hf, rest) := by
    rw [firstWithRest_append _ _ _ hpre]
    simp [firstWithRest, hmsg]
  have hpb : primaryBlock (pre ++ hf :: rest) = some (hf, rest, .complete block) := by
    unfold primaryBlock
    rw [hfw]
    simp [hblock]
  exact h2_request_decode H _ (pre ++ hf :: rest) hf rest block hs σ' (hasPreface_append _)
    (by rw [afterPreface_append]; exact splits_ser _ hacc) hpb hdec hleg hlater

/-- instance: the block padded with 3 octets behind PRIORITY fields, cut into HEADERS + 2 CONTINUATION frames -/
example :
    let hf : Frame := { ty := 1, flags := 0x28, sid := 1, payload := [3, 0x80, 0, 0, 0, 15] ++ blockGood.take 4 ++ [0, 0, 0] }
    let rest : List Frame := [{ ty := 9, flags := 0, sid := 1, payload := (blockGood.drop 4).take 10 },
                              { ty := 9, flags := 4, sid := 1, payload := blockGood.drop 14 },
                              { ty := 0, flags := 1, sid := 1, payload := [1, 2, 3] }]
    isMsgHeaders hf = true ∧ headerBlock hf rest = .complete blockGood ∧ noLaterBlocks hf rest = true := by decide

/-! ## 7. the third-party HPACK tables against RFC 7541 (regenerated from the crate source on every run) -/

/-- the crate's `HUFFMAN_CODE_TABLE` is exactly the canonical Huffman code of the RFC 7541
Appendix B code lengths -/
theorem crate_huffman_is_rfc : Gen.Hpack.huffman = (List.range 257).map Lemmas.HpackTables.rfcCode :=
  Lemmas.HpackTables.crate_huffman_is_rfc

/-- that code is complete (Kraft sum = 1) … -/
theorem rfc_huffman_kraft : (Spec.Hpack.huffLengths.map (fun l => 2 ^ (30 - l))).sum = 2 ^ 30 :=
  Lemmas.HpackTables.rfc_huffman_kraft

/-- … and prefix-free: read as dyadic intervals of `[0, 2^30)` (the 30-bit strings that start with
the code word), the 257 code words tile `[0, 2^30)` in order — so no code word is a prefix of another
and every 30-bit string starts with exactly one of them -/
theorem rfc_huffman_partition :
    let iv := Spec.Hpack.huffCode.map Lemmas.HpackTables.interval
    iv.length = 257 ∧ iv.head?.map (·.1) = some 0 ∧ iv.getLast?.map (·.2) = some (2 ^ 30) ∧
    (iv.zip iv.tail).all (fun p => p.1.2 == p.2.1) = true :=
  Lemmas.HpackTables.rfc_huffman_partition

/-- the crate's `STATIC_TABLE` differs from RFC 7541 Appendix A in exactly one entry: index 15
(`accept-` instead of `accept-charset`) — the class `KF.C16.hpackStaticEntry15` -/
theorem crate_static_table_vs_rfc :
    Gen.Hpack.staticTable.length = 61 ∧ Spec.Hpack.staticTable.length = 61 ∧
    (List.range 61).filter (fun i => Gen.Hpack.staticTable[i]? != Spec.Hpack.staticTable[i]?) = [14] := by
  decide +kernel

theorem crate_defaults : Gen.Hpack.defaultDynSize = Spec.Hpack.protocolMax ∧ Gen.Hpack.octetLimit = 5 := by decide

end Huginn.Props.C16
