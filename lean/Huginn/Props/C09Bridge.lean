import Huginn.Model.FlowProgs
import Huginn.Lemmas.HttpFlowMap
import Huginn.Lemmas.HttpFlowKey
import Huginn.Lemmas.HttpFlowReset
import Huginn.Lemmas.Flow
import Huginn.Props.C07
import Huginn.Props.C08FlowBridge
set_option linter.unusedSimpArgs false
/-
Bridge between the two models of huginn-net-http's `process_tcp_packet`:

* `HttpFlow.step` (Model/HttpFlow.lean) — a function on a finite map without expiry or capacity; the
  object of C09's theorems (`reassembly`, `at_most_once`, `direction_correct`, …);
* `FlowProgs.httpProg` (Model/FlowProgs.lean) — a cache program on the `TtlMap` model of TtlCache
  (insertion order, capacity, expiry) with possibly stateful parsers; the object of C07 isolation,
  C10 pool ≡ sequential, C11 bounds, C01 no-poisoning.

Both use the same `get_full_data` (`HttpFlow.fullData`). Here: for pure parsers, with no entry expired at
the packet's instant and the SYN's insertion fitting the capacity (no eviction), one packet has the same
effect on both tables — read through `get` — and yields the same report.
-/
namespace Huginn.Props.C09Bridge
open Huginn.Flow Huginn.FlowProgs

/-! ### `get` after each TtlMap operation -/

section TtlMapGet
variable {κ σ : Type} [DecidableEq κ]

def Live (m : TtlMap κ σ) (now : Nat) : Prop := ∀ e ∈ m.es, ¬ now > e.exp

theorem find_filter_self (es : List (Entry κ σ)) (k : κ) :
    (es.filter (fun e => decide (e.key ≠ k))).find? (fun e => decide (e.key = k)) = none := by
  rw [List.find?_eq_none]
  intro e he
  have := (List.mem_filter.1 he).2
  simpa using this

theorem find_filter_ne (es : List (Entry κ σ)) (k k' : κ) (h : k' ≠ k) :
    (es.filter (fun e => decide (e.key ≠ k))).find? (fun e => decide (e.key = k')) =
      es.find? (fun e => decide (e.key = k')) := by
  induction es with
  | nil => rfl
  | cons e es ih =>
    by_cases hk : e.key = k
    · have h1 : ¬ (decide (e.key ≠ k) = true) := by simpa using hk
      have h2 : ¬ (decide (e.key = k') = true) := by
        simp only [decide_eq_true_eq]; rw [hk]; exact fun h' => h h'.symm
      rw [List.filter_cons_of_neg (p := fun e : Entry κ σ => decide (e.key ≠ k)) h1, List.find?_cons_of_neg (p := fun e : Entry κ σ => decide (e.key = k')) h2, ih]
    · have h1 : decide (e.key ≠ k) = true := by simpa using hk
      rw [List.filter_cons_of_pos (p := fun e : Entry κ σ => decide (e.key ≠ k)) h1]
      by_cases hk' : e.key = k'
      · have h2 : decide (e.key = k') = true := by simpa using hk'
        rw [List.find?_cons_of_pos (p := fun e : Entry κ σ => decide (e.key = k')) h2, List.find?_cons_of_pos (p := fun e : Entry κ σ => decide (e.key = k')) h2]
      · have h2 : ¬ (decide (e.key = k') = true) := by simpa using hk'
        rw [List.find?_cons_of_neg (p := fun e : Entry κ σ => decide (e.key = k')) h2, List.find?_cons_of_neg (p := fun e : Entry κ σ => decide (e.key = k')) h2, ih]

theorem get_remove (m : TtlMap κ σ) (now : Nat) (k k' : κ) :
    (m.remove k).get now k' = if k' = k then none else m.get now k' := by
  unfold TtlMap.get TtlMap.find? TtlMap.remove
  by_cases h : k' = k
  · subst h
    simp only [find_filter_self, if_true]
  · simp only [h, if_false, find_filter_ne m.es k k' h]

theorem get_set (m : TtlMap κ σ) (now : Nat) (k k' : κ) (v : σ) :
    (m.set now k v).get now k' = if k' = k then (m.get now k).map (fun _ => v) else m.get now k' := by
  unfold TtlMap.get TtlMap.find? TtlMap.set
  simp only
  induction m.es with
  | nil => by_cases h : k' = k <;> simp [h]
  | cons e es ih =>
    have hkey : (if e.key = k ∧ ¬ now > e.exp then { e with val := v } else e).key = e.key := by
      split <;> rfl
    rw [List.map_cons]
    by_cases hk' : e.key = k'
    · have h2 : decide ((if e.key = k ∧ ¬ now > e.exp then { e with val := v } else e).key = k') = true := by
        rw [hkey]; simpa using hk'
      rw [List.find?_cons_of_pos (p := fun e : Entry κ σ => decide (e.key = k')) h2]
      by_cases h : k' = k
      · subst h
        have h3 : decide (e.key = k') = true := by simpa using hk'
        rw [if_pos rfl, List.find?_cons_of_pos (p := fun e : Entry κ σ => decide (e.key = k')) h3]
        by_cases hx : now > e.exp
        · simp [hk', hx]
        · simp [hk', hx]
      · have hk : ¬ e.key = k := by rw [hk']; exact h
        have h3 : decide (e.key = k') = true := by simpa using hk'
        rw [if_neg h, List.find?_cons_of_pos (p := fun e : Entry κ σ => decide (e.key = k')) h3]
        simp [hk]
    · have h2 : ¬ (decide ((if e.key = k ∧ ¬ now > e.exp then { e with val := v } else e).key = k') = true) := by
        rw [hkey]; simpa using hk'
      rw [List.find?_cons_of_neg (p := fun e : Entry κ σ => decide (e.key = k')) h2]
      by_cases h : k' = k
      · subst h
        have h3 : ¬ (decide (e.key = k') = true) := by simpa using hk'
        rw [if_pos rfl] at ih ⊢
        rw [List.find?_cons_of_neg (p := fun e : Entry κ σ => decide (e.key = k')) h3]
        exact ih
      · have h3 : ¬ (decide (e.key = k') = true) := by simpa using hk'
        rw [if_neg h] at ih ⊢
        rw [List.find?_cons_of_neg (p := fun e : Entry κ σ => decide (e.key = k')) h3]
        exact ih

theorem get_insert (m : TtlMap κ σ) (now ttl : Nat) (k k' : κ) (v : σ) (hf : m.Fits k) :
    (m.insert now k v ttl).get now k' = if k' = k then some v else m.get now k' := by
  rw [insert_of_fits m now k v ttl hf]
  unfold TtlMap.get TtlMap.find?
  simp only [List.find?_append]
  by_cases h : k' = k
  · subst h
    rw [find_filter_self]
    simp
  · rw [find_filter_ne m.es k k' h]
    have hne : ¬ k = k' := fun h' => h h'.symm
    cases m.es.find? (fun e => decide (e.key = k')) <;> simp [h, hne]

end TtlMapGet

/-! ### conversions -/


def toKey (k : HttpFlow.FlowKey) : FlowKey := ⟨⟨k.srcIp, k.srcPort⟩, ⟨k.dstIp, k.dstPort⟩⟩

theorem toKey_inj {a b : HttpFlow.FlowKey} (h : toKey a = toKey b) : a = b := by
  cases a; cases b; simp only [toKey, FlowKey.mk.injEq, Ep.mk.injEq] at h
  obtain ⟨⟨h1, h2⟩, h3, h4⟩ := h
  subst h1 h2 h3 h4; rfl

theorem toKey_rev (k : HttpFlow.FlowKey) : toKey k.rev = ⟨(toKey k).dst, (toKey k).src⟩ := rfl

def toFlow (f : HttpFlow.TcpFlow) : TcpFlow :=
  { client := ⟨f.clientIp, f.clientPort⟩, server := ⟨f.serverIp, f.serverPort⟩,
    clientData := f.clientData, serverData := f.serverData,
    clientParsed := f.clientParsed, serverParsed := f.serverParsed,
    clientIsn := f.clientIsn, serverIsn := f.serverIsn }

/-- The segment view of a packet (`t`, `w`: arrival instants, not read by the HTTP flow logic). -/
def toSeg (p : HttpFlow.Pkt) (t w : Nat) : Seg :=
  { src := ⟨p.srcIp, p.srcPort⟩, dst := ⟨p.dstIp, p.dstPort⟩, seq := p.seq,
    syn := HttpFlow.hasFlag p.flags HttpFlow.SYN, ack := HttpFlow.hasFlag p.flags HttpFlow.ACK,
    fin := HttpFlow.hasFlag p.flags HttpFlow.FIN, rst := HttpFlow.hasFlag p.flags HttpFlow.RST,
    payload := p.payload, time := t, wall := w, tsval := none }

/-- Pure parsers as (state-free) `HttpParams`. -/
def params {ρ σ : Type} (P : HttpFlow.Parsers ρ σ) : HttpParams Unit ρ σ :=
  { parseReq := fun g b => (g, P.request b), parseResp := fun g b => (g, P.response b),
    maxHead := HttpFlow.maxBufferedHeadBytes }

/-- The two tables agree when read through `get` (no entry of the left one expired). -/
def Rel (now : Nat) (m : TtlMap FlowKey TcpFlow) (f : HttpFlow.FlowMap) : Prop :=
  ∀ k, m.get now (toKey k) = (f.get k).map toFlow

theorem sumLen_eq_buffered (l : List TcpData) : sumLen l = HttpFlow.bufferedLen l := by
  induction l with
  | nil => rfl
  | cons x l ih => simp only [HttpFlow.bufferedLen, ← ih]; simp [sumLen]

/-! ### the parser-facing steps with pure parsers -/

variable {ρ σ : Type} (P : HttpFlow.Parsers ρ σ)

theorem tryReq_run (full : Bytes) (k : Option ρ → Prog FlowKey TcpFlow Unit (PRes ρ σ) (HttpOut ρ σ))
    (now : Nat) (m : TtlMap FlowKey TcpFlow) :
    (httpTryReq (params P) full k).run now m () =
      (k (if HttpFlow.hasCompleteHttpData P full then P.request full else none)).run now m () := by
  unfold httpTryReq HttpFlow.hasCompleteHttpData params
  have h4 : Huginn.Gen.HttpLists.flowMinLen = 4 := rfl
  rw [h4]
  by_cases hl : full.length < 4
  · simp only [hl, if_true]; rfl
  · simp only [hl, if_false, Prog.run]
    cases hq : P.request full with
    | some q => simp [Prog.run, hq]
    | none =>
      cases hr : P.response full with
      | some r => simp [Prog.run, hq, hr]
      | none => simp [Prog.run, hq, hr]

theorem tryResp_run (full : Bytes) (k : Option σ → Prog FlowKey TcpFlow Unit (PRes ρ σ) (HttpOut ρ σ))
    (now : Nat) (m : TtlMap FlowKey TcpFlow) :
    (httpTryResp (params P) full k).run now m () =
      (k (if HttpFlow.hasCompleteHttpData P full then P.response full else none)).run now m () := by
  unfold httpTryResp HttpFlow.hasCompleteHttpData params
  have h4 : Huginn.Gen.HttpLists.flowMinLen = 4 := rfl
  rw [h4]
  by_cases hl : full.length < 4
  · simp only [hl, if_true]; rfl
  · simp only [hl, if_false, Prog.run]
    cases hq : P.request full with
    | some q =>
      cases hr : P.response full with
      | some r => simp [Prog.run, hq, hr]
      | none => simp [Prog.run, hq, hr]
    | none =>
      cases hr : P.response full with
      | some r => simp [Prog.run, hq, hr]
      | none => simp [Prog.run, hq, hr]

theorem finish_run (stored : FlowKey) (f : TcpFlow) (s : Seg) (o : HttpOut ρ σ) (now : Nat)
    (m : TtlMap FlowKey TcpFlow) :
    (httpFinish (γ := Unit) stored f s o).run now m () =
      (if (f.clientParsed && f.serverParsed) || (s.fin || s.rst) then m.remove stored else m, (), o) := by
  unfold httpFinish
  by_cases h1 : (f.clientParsed && f.serverParsed) = true
  · simp [h1, Prog.run]
  · by_cases h2 : (s.fin || s.rst) = true
    · simp [h1, h2, Prog.run]
    · simp [h1, h2, Prog.run]

/-! ### one packet of a known flow -/

/-- The left table holds `cur` under the flow's key and agrees with `f` elsewhere. -/
def Agree (now : Nat) (m : TtlMap FlowKey TcpFlow) (f : HttpFlow.FlowMap) (s' : HttpFlow.FlowKey)
    (cur : TcpFlow) : Prop :=
  m.get now (toKey s') = some cur ∧ ∀ k, k ≠ s' → m.get now (toKey k) = (f.get k).map toFlow

theorem agree_set {now m f s' cur} (h : Agree now m f s' cur) (v : TcpFlow) :
    Agree now (m.set now (toKey s') v) f s' v := by
  refine ⟨by rw [get_set, if_pos rfl, h.1]; rfl, fun k hk => ?_⟩
  rw [get_set, if_neg (fun e => hk (toKey_inj e))]
  exact h.2 k hk

theorem agree_rel {now m f s'} (v : HttpFlow.TcpFlow) (h : Agree now m f s' (toFlow v)) :
    Rel now m (f.set s' v) := by
  intro k
  by_cases hk : k = s'
  · subst hk; rw [h.1, HttpFlow.FlowMap.get_set_eq]; rfl
  · rw [h.2 k hk, HttpFlow.FlowMap.get_set_ne _ _ _ _ hk]

theorem agree_rel_remove {now m f s' cur} (v : HttpFlow.TcpFlow) (h : Agree now m f s' cur) :
    Rel now (m.remove (toKey s')) ((f.set s' v).erase s') := by
  intro k
  by_cases hk : k = s'
  · subst hk; rw [get_remove, if_pos rfl, HttpFlow.FlowMap.get_erase_eq]; rfl
  · rw [get_remove, if_neg (fun e => hk (toKey_inj e)), h.2 k hk,
      HttpFlow.FlowMap.get_erase_ne _ _ _ hk, HttpFlow.FlowMap.get_set_ne _ _ _ _ hk]

/-- What `stepFound` does after `dispatch` returned `(v, q, r)`. -/
def afterDispatch (f : HttpFlow.FlowMap) (s' : HttpFlow.FlowKey) (p : HttpFlow.Pkt)
    (v : HttpFlow.TcpFlow) : HttpFlow.FlowMap :=
  if v.clientParsed && v.serverParsed then (f.set s' v).erase s'
  else if HttpFlow.hasFlag p.flags HttpFlow.FIN || HttpFlow.hasFlag p.flags HttpFlow.RST then (f.set s' v).erase s'
  else f.set s' v

theorem finish_bridge {now m f s'} (p : HttpFlow.Pkt) (t w : Nat) (v : HttpFlow.TcpFlow)
    (o : HttpOut ρ σ) (h : Agree now m f s' (toFlow v)) :
    Rel now ((httpFinish (γ := Unit) (toKey s') (toFlow v) (toSeg p t w) o).run now m ()).1
        (afterDispatch f s' p v) ∧
      ((httpFinish (γ := Unit) (toKey s') (toFlow v) (toSeg p t w) o).run now m ()).2.2.req = o.req ∧
      ((httpFinish (γ := Unit) (toKey s') (toFlow v) (toSeg p t w) o).run now m ()).2.2.resp = o.resp := by
  rw [finish_run]
  unfold afterDispatch
  refine ⟨?_, rfl, rfl⟩
  show Rel now (if (v.clientParsed && v.serverParsed) ||
      (HttpFlow.hasFlag p.flags HttpFlow.FIN || HttpFlow.hasFlag p.flags HttpFlow.RST) then _ else _) _
  by_cases h1 : (v.clientParsed && v.serverParsed) = true
  · simp only [h1, Bool.true_or, if_true]; exact agree_rel_remove v h
  · by_cases h2 : (HttpFlow.hasFlag p.flags HttpFlow.FIN || HttpFlow.hasFlag p.flags HttpFlow.RST) = true
    · simp only [h1, h2, Bool.or_true, if_true, Bool.false_eq_true, if_false]; exact agree_rel_remove v h
    · simp only [h1, h2, Bool.or_self, Bool.false_eq_true, if_false]; exact agree_rel v h

theorem ep_eq (a b c d : Nat) : decide ((⟨a, b⟩ : Ep) = ⟨c, d⟩) = (a == c && b == d) := by
  by_cases h1 : a = c <;> by_cases h2 : b = d <;> simp [h1, h2]

theorem body_bridge {now : Nat} {m : TtlMap FlowKey TcpFlow} {f : HttpFlow.FlowMap} {s' : HttpFlow.FlowKey}
    (p : HttpFlow.Pkt) (t w : Nat) (flow1 : HttpFlow.TcpFlow) (isC : Bool)
    (hag : Agree now m f s' (toFlow flow1))
    (hkey : isC = true → flow1.clientIp = p.srcIp ∧ flow1.clientPort = p.srcPort)
    (hne : p.payload.isEmpty = false) :
    Rel now ((httpBody (params P) (toKey s') isC (toFlow flow1) (toSeg p t w)).run now m ()).1
        (afterDispatch f s' p (HttpFlow.dispatch P flow1 isC p).1) ∧
      ((httpBody (params P) (toKey s') isC (toFlow flow1) (toSeg p t w)).run now m ()).2.2.req =
        (HttpFlow.dispatch P flow1 isC p).2.1 ∧
      ((httpBody (params P) (toKey s') isC (toFlow flow1) (toSeg p t w)).run now m ()).2.2.resp =
        (HttpFlow.dispatch P flow1 isC p).2.2 := by
  have hpay : (toSeg p t w).payload.isEmpty = false := hne
  have hmax : (params P).maxHead = HttpFlow.maxBufferedHeadBytes := rfl
  unfold httpBody HttpFlow.dispatch
  rw [if_neg (by rw [hpay]; simp)]
  simp only [hmax]
  have hc1 : (isC && decide ((toSeg p t w).src = (toFlow flow1).client)) =
      (isC && p.srcIp == flow1.clientIp && p.srcPort == flow1.clientPort) := by
    show (isC && decide ((⟨p.srcIp, p.srcPort⟩ : Ep) = ⟨flow1.clientIp, flow1.clientPort⟩)) = _
    rw [ep_eq, Bool.and_assoc]
  have hc2 : decide ((toSeg p t w).src = (toFlow flow1).server) =
      (p.srcIp == flow1.serverIp && p.srcPort == flow1.serverPort) := by
    show decide ((⟨p.srcIp, p.srcPort⟩ : Ep) = ⟨flow1.serverIp, flow1.serverPort⟩) = _
    rw [ep_eq]
  by_cases hcl : (isC && p.srcIp == flow1.clientIp && p.srcPort == flow1.clientPort) = true
  · -- client direction
    rw [if_pos (by rw [hc1]; exact hcl), if_pos hcl]
    unfold HttpFlow.clientBranch
    by_cases hp : flow1.clientParsed = true
    · have : (!(toFlow flow1).clientParsed) = false := by simp [toFlow, hp]
      rw [if_neg (by rw [this]; simp), if_pos hp]
      exact finish_bridge p t w flow1 {} hag
    · have : (!(toFlow flow1).clientParsed) = true := by simp [toFlow, hp]
      rw [if_pos this, if_neg hp]
      simp only
      have hsl : sumLen ((toFlow flow1).clientData ++ [⟨(toSeg p t w).seq, (toSeg p t w).payload⟩]) =
          HttpFlow.bufferedLen (flow1.clientData ++ [⟨p.seq, p.payload⟩]) := sumLen_eq_buffered _
      by_cases hbig : HttpFlow.bufferedLen (flow1.clientData ++ [⟨p.seq, p.payload⟩]) > HttpFlow.maxBufferedHeadBytes
      · rw [if_pos (by rw [hsl]; exact hbig), if_pos hbig]
        simp only [Prog.run]
        exact finish_bridge p t w { flow1 with clientData := [], clientParsed := true } {}
          (agree_set hag _)
      · rw [if_neg (by rw [hsl]; exact hbig), if_neg hbig]
        simp only [Prog.run, tryReq_run]
        show _ ∧ _ ∧ _
        have hfull : fullData (some (toFlow flow1).clientIsn)
            ((toFlow flow1).clientData ++ [⟨(toSeg p t w).seq, (toSeg p t w).payload⟩]) =
            HttpFlow.fullData (some flow1.clientIsn) (flow1.clientData ++ [⟨p.seq, p.payload⟩]) := rfl
        rw [hfull]
        by_cases hcomp : HttpFlow.hasCompleteHttpData P
            (HttpFlow.fullData (some flow1.clientIsn) (flow1.clientData ++ [⟨p.seq, p.payload⟩])) = true
        · simp only [hcomp, if_true]
          cases hq : P.request (HttpFlow.fullData (some flow1.clientIsn) (flow1.clientData ++ [⟨p.seq, p.payload⟩])) with
          | some q =>
            simp only [Prog.run]
            exact finish_bridge p t w
              { flow1 with clientData := flow1.clientData ++ [⟨p.seq, p.payload⟩], clientParsed := true }
              { req := some q } (agree_set (agree_set hag _) _)
          | none =>
            exact finish_bridge p t w
              { flow1 with clientData := flow1.clientData ++ [⟨p.seq, p.payload⟩] } {} (agree_set hag _)
        · simp only [hcomp, Bool.false_eq_true, if_false]
          exact finish_bridge p t w
            { flow1 with clientData := flow1.clientData ++ [⟨p.seq, p.payload⟩] } {} (agree_set hag _)
  · rw [if_neg (by rw [hc1]; exact hcl), if_neg hcl]
    -- the lookup under the packet's own key always takes the client branch
    have hisC : isC = false := by
      cases hi : isC
      · rfl
      · exfalso; apply hcl
        obtain ⟨h1, h2⟩ := hkey hi
        simp [hi, h1, h2]
    subst hisC
    by_cases hsv : (p.srcIp == flow1.serverIp && p.srcPort == flow1.serverPort) = true
    · rw [if_pos (of_decide_eq_true (hc2.trans hsv)), if_pos hsv]
      unfold HttpFlow.serverBranch
      by_cases hp : flow1.serverParsed = true
      · have : (!(toFlow flow1).serverParsed) = false := by simp [toFlow, hp]
        rw [if_neg (by rw [this]; simp), if_pos hp]
        exact finish_bridge p t w flow1 {} hag
      · have : (!(toFlow flow1).serverParsed) = true := by simp [toFlow, hp]
        rw [if_pos this, if_neg hp]
        simp only
        have hsl : sumLen ((toFlow flow1).serverData ++ [⟨(toSeg p t w).seq, (toSeg p t w).payload⟩]) =
            HttpFlow.bufferedLen (flow1.serverData ++ [⟨p.seq, p.payload⟩]) := sumLen_eq_buffered _
        by_cases hbig : HttpFlow.bufferedLen (flow1.serverData ++ [⟨p.seq, p.payload⟩]) > HttpFlow.maxBufferedHeadBytes
        · rw [if_pos (by rw [hsl]; exact hbig), if_pos hbig]
          simp only [Prog.run]
          exact finish_bridge p t w { flow1 with serverData := [], serverParsed := true } {}
            (agree_set hag _)
        · rw [if_neg (by rw [hsl]; exact hbig), if_neg hbig]
          simp only [Prog.run, tryResp_run, Bool.false_eq_true, if_false]
          show _ ∧ _ ∧ _
          have hfull : fullData (toFlow flow1).serverIsn
              ((toFlow flow1).serverData ++ [⟨(toSeg p t w).seq, (toSeg p t w).payload⟩]) =
              HttpFlow.fullData flow1.serverIsn (flow1.serverData ++ [⟨p.seq, p.payload⟩]) := rfl
          rw [hfull]
          by_cases hcomp : HttpFlow.hasCompleteHttpData P
              (HttpFlow.fullData flow1.serverIsn (flow1.serverData ++ [⟨p.seq, p.payload⟩])) = true
          · simp only [hcomp, if_true]
            cases hq : P.response (HttpFlow.fullData flow1.serverIsn (flow1.serverData ++ [⟨p.seq, p.payload⟩])) with
            | some q =>
              simp only [Prog.run]
              exact finish_bridge p t w
                { flow1 with serverData := flow1.serverData ++ [⟨p.seq, p.payload⟩], serverParsed := true }
                { resp := some q } (agree_set (agree_set hag _) _)
            | none =>
              exact finish_bridge p t w
                { flow1 with serverData := flow1.serverData ++ [⟨p.seq, p.payload⟩] } {} (agree_set hag _)
          · simp only [hcomp, Bool.false_eq_true, if_false]
            exact finish_bridge p t w
              { flow1 with serverData := flow1.serverData ++ [⟨p.seq, p.payload⟩] } {} (agree_set hag _)
    · rw [if_neg (fun hA => hsv (hc2.symm.trans (decide_eq_true hA))), if_neg hsv]
      exact finish_bridge p t w flow1 {} hag

theorem stepFound_eq (f : HttpFlow.FlowMap) (p : HttpFlow.Pkt) (flow : HttpFlow.TcpFlow) (isC : Bool) :
    let s' := if isC then p.key else p.key.rev
    let flow1 := HttpFlow.noteSynAck flow isC p
    let o := HttpFlow.stepFound P f p flow isC
    (p.payload.isEmpty = true → o.map = f.set s' flow1 ∧ o.request = none ∧ o.response = none) ∧
    (p.payload.isEmpty = false → o.map = afterDispatch f s' p (HttpFlow.dispatch P flow1 isC p).1 ∧
      o.request = (HttpFlow.dispatch P flow1 isC p).2.1 ∧ o.response = (HttpFlow.dispatch P flow1 isC p).2.2) := by
  simp only
  unfold HttpFlow.stepFound afterDispatch
  constructor
  · intro he; simp only [he, if_true]; exact ⟨by trivial, by trivial, by trivial⟩
  · intro he
    simp only [he, Bool.false_eq_true, if_false]
    split
    · exact ⟨rfl, rfl, rfl⟩
    · split <;> exact ⟨rfl, rfl, rfl⟩

theorem found_bridge {now : Nat} {m : TtlMap FlowKey TcpFlow} {f : HttpFlow.FlowMap} (hrel : Rel now m f)
    (p : HttpFlow.Pkt) (t w : Nat) (flow : HttpFlow.TcpFlow) (isC : Bool)
    (hget : f.get (if isC then p.key else p.key.rev) = some flow)
    (hkey : isC = true → flow.clientIp = p.srcIp ∧ flow.clientPort = p.srcPort) :
    Rel now ((httpWithFlow (params P) (toKey (if isC then p.key else p.key.rev)) isC (toFlow flow)
          (toSeg p t w)).run now m ()).1 (HttpFlow.stepFound P f p flow isC).map ∧
      ((httpWithFlow (params P) (toKey (if isC then p.key else p.key.rev)) isC (toFlow flow)
          (toSeg p t w)).run now m ()).2.2.req = (HttpFlow.stepFound P f p flow isC).request ∧
      ((httpWithFlow (params P) (toKey (if isC then p.key else p.key.rev)) isC (toFlow flow)
          (toSeg p t w)).run now m ()).2.2.resp = (HttpFlow.stepFound P f p flow isC).response := by
  generalize hs' : (if isC then p.key else p.key.rev) = s' at hget ⊢
  have hag0 : Agree now m f s' (toFlow flow) :=
    ⟨by rw [hrel s', hget]; rfl, fun k _ => hrel k⟩
  obtain ⟨hE, hN⟩ := stepFound_eq P f p flow isC
  simp only [hs'] at hE hN
  -- the flow both sides continue with, and a table that agrees on it
  have key : ∀ (m1 : TtlMap FlowKey TcpFlow), Agree now m1 f s' (toFlow (HttpFlow.noteSynAck flow isC p)) →
      Rel now ((httpBody (params P) (toKey s') isC (toFlow (HttpFlow.noteSynAck flow isC p))
          (toSeg p t w)).run now m1 ()).1 (HttpFlow.stepFound P f p flow isC).map ∧
      ((httpBody (params P) (toKey s') isC (toFlow (HttpFlow.noteSynAck flow isC p))
          (toSeg p t w)).run now m1 ()).2.2.req = (HttpFlow.stepFound P f p flow isC).request ∧
      ((httpBody (params P) (toKey s') isC (toFlow (HttpFlow.noteSynAck flow isC p))
          (toSeg p t w)).run now m1 ()).2.2.resp = (HttpFlow.stepFound P f p flow isC).response := by
    intro m1 hag
    cases he : p.payload.isEmpty with
    | true =>
      obtain ⟨h1, h2, h3⟩ := hE he
      rw [h1, h2, h3]
      have : (toSeg p t w).payload.isEmpty = true := he
      unfold httpBody
      rw [if_pos this]
      exact ⟨agree_rel _ hag, rfl, rfl⟩
    | false =>
      obtain ⟨h1, h2, h3⟩ := hN he
      rw [h1, h2, h3]
      refine body_bridge P p t w _ isC hag ?_ he
      intro hi
      have := hkey hi
      unfold HttpFlow.noteSynAck
      split <;> exact this
  unfold httpWithFlow
  have hcond : ((toSeg p t w).syn && !isC && (toFlow flow).serverIsn.isNone) =
      (HttpFlow.hasFlag p.flags HttpFlow.SYN && !isC && flow.serverIsn.isNone) := rfl
  by_cases hc : (HttpFlow.hasFlag p.flags HttpFlow.SYN && !isC && flow.serverIsn.isNone) = true
  · rw [if_pos (by rw [hcond]; exact hc)]
    have hn : HttpFlow.noteSynAck flow isC p = { flow with serverIsn := some p.seq } := by
      unfold HttpFlow.noteSynAck; rw [if_pos hc]
    simp only [Prog.run]
    have := key (m.set now (toKey s') (toFlow (HttpFlow.noteSynAck flow isC p))) (agree_set hag0 _)
    rw [hn] at this
    exact this
  · rw [if_neg (by rw [hcond]; exact hc)]
    have hn : HttpFlow.noteSynAck flow isC p = flow := by
      unfold HttpFlow.noteSynAck; rw [if_neg hc]
    have := key m (by rw [hn]; exact hag0)
    rw [hn] at this
    exact this

/-! ### one packet, any case; packet histories -/

/-- One packet, the dispatch after the SYN reset: `httpDispatch` and `HttpFlow.step`. -/
theorem dispatch_bridge {now : Nat} {m : TtlMap FlowKey TcpFlow} {f : HttpFlow.FlowMap} (hrel : Rel now m f)
    (hki : HttpFlow.KeyInv f) (p : HttpFlow.Pkt) (w : Nat)
    (hne : Huginn.Props.C07.ProgNoEvict (httpDispatch (params P) (toSeg p now w)) now m ()) :
    Rel now ((httpDispatch (params P) (toSeg p now w)).run now m ()).1 (HttpFlow.step P f p).map ∧
      ((httpDispatch (params P) (toSeg p now w)).run now m ()).2.2.req = (HttpFlow.step P f p).request ∧
      ((httpDispatch (params P) (toSeg p now w)).run now m ()).2.2.resp = (HttpFlow.step P f p).response := by
  have hk1 : (⟨(toSeg p now w).src, (toSeg p now w).dst⟩ : FlowKey) = toKey p.key := rfl
  have hk2 : (⟨(toSeg p now w).dst, (toSeg p now w).src⟩ : FlowKey) = toKey p.key.rev := rfl
  unfold httpDispatch at hne
  simp only [Huginn.Props.C07.ProgNoEvict, hk1, hk2] at hne
  rw [hrel p.key] at hne
  unfold httpDispatch HttpFlow.step HttpFlow.lookup
  simp only [Prog.run, hk1, hk2]
  rw [hrel p.key]
  cases h1 : f.get p.key with
  | some flow =>
    simp only [Option.map_some]
    have hkey : true = true → flow.clientIp = p.srcIp ∧ flow.clientPort = p.srcPort := by
      intro _
      obtain ⟨a, _, c, _⟩ := hki _ _ h1
      exact ⟨a, c⟩
    exact found_bridge P hrel p now w flow true h1 hkey
  | none =>
    simp only [h1, Option.map_none, Huginn.Props.C07.ProgNoEvict] at hne
    rw [hrel p.key.rev] at hne
    simp only [Option.map_none, Prog.run]
    rw [hrel p.key.rev]
    cases h2 : f.get p.key.rev with
    | some flow =>
      simp only [Option.map_some]
      exact found_bridge P hrel p now w flow false h2 (fun h => by cases h)
    | none =>
      simp only [Option.map_none]
      unfold HttpFlow.stepNew
      have hsyn : (toSeg p now w).syn = HttpFlow.hasFlag p.flags HttpFlow.SYN := rfl
      rw [hsyn]
      by_cases hs : HttpFlow.hasFlag p.flags HttpFlow.SYN = true
      · simp only [h2, Option.map_none, hsyn, hs, if_true, Huginn.Props.C07.ProgNoEvict] at hne
        have hfit : m.Fits (toKey p.key) := hne.1
        simp only [hs, if_true, Prog.run]
        refine ⟨?_, by trivial, by trivial⟩
        intro k
        rw [get_insert _ _ _ _ _ _ hfit]
        by_cases hk : k = p.key
        · subst hk; rw [if_pos rfl, HttpFlow.FlowMap.get_set_eq]; rfl
        · rw [if_neg (fun e => hk (toKey_inj e)), HttpFlow.FlowMap.get_set_ne _ _ _ _ hk]
          exact hrel k
      · simp only [hs, Bool.false_eq_true, if_false, Prog.run]
        exact ⟨hrel, by trivial, by trivial⟩

theorem rel_remove {now : Nat} {m : TtlMap FlowKey TcpFlow} {f : HttpFlow.FlowMap} (hrel : Rel now m f)
    (k : HttpFlow.FlowKey) : Rel now (m.remove (toKey k)) (f.erase k) := by
  intro k'
  by_cases hk : k' = k
  · subst hk; rw [get_remove, if_pos rfl, HttpFlow.FlowMap.get_erase_eq]; rfl
  · rw [get_remove, if_neg (fun e => hk (toKey_inj e)), HttpFlow.FlowMap.get_erase_ne _ _ _ hk]
    exact hrel k'

/-- **One packet.** With tables that agree through `get`, the flows stored under their opener's key
(`KeyInv`, an invariant of `HttpFlow.stepS`) and — for a flow-opening SYN — room in the cache, the cache
program and `HttpFlow.stepS` (both with the SYN reset) leave agreeing tables and report the same request /
response. -/
theorem step_bridge {now : Nat} {m : TtlMap FlowKey TcpFlow} {f : HttpFlow.FlowMap} (hrel : Rel now m f)
    (hki : HttpFlow.KeyInv f) (p : HttpFlow.Pkt) (w : Nat)
    (hne : Huginn.Props.C07.ProgNoEvict (httpProg (params P) (toSeg p now w)) now m ()) :
    Rel now ((httpProg (params P) (toSeg p now w)).run now m ()).1 (HttpFlow.stepS P f p).map ∧
      ((httpProg (params P) (toSeg p now w)).run now m ()).2.2.req = (HttpFlow.stepS P f p).request ∧
      ((httpProg (params P) (toSeg p now w)).run now m ()).2.2.resp = (HttpFlow.stepS P f p).response := by
  have hk1 : (⟨(toSeg p now w).src, (toSeg p now w).dst⟩ : FlowKey) = toKey p.key := rfl
  have hk2 : (⟨(toSeg p now w).dst, (toSeg p now w).src⟩ : FlowKey) = toKey p.key.rev := rfl
  have hc : ((toSeg p now w).syn && !(toSeg p now w).ack) =
      (HttpFlow.hasFlag p.flags HttpFlow.SYN && !HttpFlow.hasFlag p.flags HttpFlow.ACK) := rfl
  have hseq : (toSeg p now w).seq = p.seq := rfl
  unfold httpProg at hne ⊢
  unfold HttpFlow.stepS HttpFlow.reset
  rw [hc] at hne ⊢
  by_cases hps : (HttpFlow.hasFlag p.flags HttpFlow.SYN && !HttpFlow.hasFlag p.flags HttpFlow.ACK) = true
  · simp only [hps, if_true, Prog.run, Huginn.Props.C07.ProgNoEvict, hk1, hk2, hseq] at hne ⊢
    rw [hrel p.key] at hne ⊢
    have hisn : (Option.map (fun x : TcpFlow => x.clientIsn) (Option.map toFlow (f.get p.key)) == some p.seq) =
        (Option.map (fun x : HttpFlow.TcpFlow => x.clientIsn) (f.get p.key) == some p.seq) := by
      cases f.get p.key <;> rfl
    rw [hisn] at hne ⊢
    by_cases hr : (Option.map (fun x : HttpFlow.TcpFlow => x.clientIsn) (f.get p.key) == some p.seq) = true
    · simp only [hr, if_true] at hne ⊢
      exact dispatch_bridge P hrel hki p w hne
    · simp only [hr, Bool.false_eq_true, if_false, Prog.run, Huginn.Props.C07.ProgNoEvict] at hne ⊢
      exact dispatch_bridge P (rel_remove (rel_remove hrel _) _)
        (HttpFlow.erase_keyInv _ _ (HttpFlow.erase_keyInv _ _ hki)) p w hne
  · simp only [hps, Bool.false_eq_true, if_false] at hne ⊢
    exact dispatch_bridge P hrel hki p w hne

theorem get_time_indep {κ σ : Type} [DecidableEq κ] (m : TtlMap κ σ) (t t' : Nat) (k : κ)
    (h : ∀ e ∈ m.es, t ≤ e.exp ∧ t' ≤ e.exp) : m.get t k = m.get t' k := by
  unfold TtlMap.get
  cases hf : m.find? k with
  | none => rfl
  | some e =>
    have := h e (List.mem_of_find?_eq_some hf)
    have h1 : ¬ t > e.exp := by omega
    have h2 : ¬ t' > e.exp := by omega
    simp only [h1, h2, if_false]

open Huginn.Props.C08Bridge (AllTtl run_exp_lb) in
theorem httpProg_allTtl {γ Q R : Type} (H : HttpParams γ Q R) (s : Seg) : AllTtl H.ttlMs (httpProg H s) := by
  have hfin : ∀ k f o, AllTtl H.ttlMs (httpFinish (γ := γ) (Q := Q) (P := R) k f s o) := by
    intro k f o; unfold httpFinish
    split
    · exact .remove _ _ (.ret _)
    · split
      · exact .remove _ _ (.ret _)
      · exact .ret _
  have hreq : ∀ full k, (∀ q, AllTtl H.ttlMs (k q)) → AllTtl H.ttlMs (httpTryReq H full k) := by
    intro full k hk; unfold httpTryReq
    split
    · exact hk _
    · refine .glob _ _ (fun r1 => ?_)
      have hgo : AllTtl H.ttlMs (Prog.glob (fun g => let (g', r) := H.parseReq g full; (g', PRes.req r))
          fun r3 => match r3 with | .req q => k q | .resp _ => k none) := by
        refine .glob _ _ (fun r3 => ?_); cases r3 <;> exact hk _
      split
      · exact hgo
      · refine .glob _ _ (fun r2 => ?_)
        split
        · exact hgo
        · exact hk _
  have hresp : ∀ full k, (∀ q, AllTtl H.ttlMs (k q)) → AllTtl H.ttlMs (httpTryResp H full k) := by
    intro full k hk; unfold httpTryResp
    split
    · exact hk _
    · refine .glob _ _ (fun r1 => ?_)
      have hgo : AllTtl H.ttlMs (Prog.glob (fun g => let (g', r) := H.parseResp g full; (g', PRes.resp r))
          fun r3 => match r3 with | .resp q => k q | .req _ => k none) := by
        refine .glob _ _ (fun r3 => ?_); cases r3 <;> exact hk _
      split
      · exact hgo
      · refine .glob _ _ (fun r2 => ?_)
        split
        · exact hgo
        · exact hk _
  have hbody : ∀ k isC f, AllTtl H.ttlMs (httpBody H k isC f s) := by
    intro k isC f
    unfold httpBody
    repeat (first
      | exact .ret _
      | exact hfin _ _ _
      | (refine .set _ _ _ ?_)
      | (refine hreq _ _ (fun q => ?_); cases q)
      | (refine hresp _ _ (fun q => ?_); cases q)
      | split
      | dsimp only)
  have hwith : ∀ k isC f, AllTtl H.ttlMs (httpWithFlow H k isC f s) := by
    intro k isC f; unfold httpWithFlow
    split
    · exact .set _ _ _ (hbody _ _ _)
    · exact hbody _ _ _
  have hd : AllTtl H.ttlMs (httpDispatch H s) := by
    unfold httpDispatch
    refine .get _ _ (fun r => ?_)
    cases r with
    | some f => exact hwith _ _ _
    | none =>
      refine .get _ _ (fun r => ?_)
      cases r with
      | some f => exact hwith _ _ _
      | none =>
        dsimp only
        split
        · exact .insert _ _ _ (.ret _)
        · exact .ret _
  unfold httpProg
  split
  · refine .get _ _ (fun f => ?_)
    split
    · exact hd
    · exact .remove _ _ (.remove _ _ hd)
  · exact hd

/-- **Packet histories.** For pure parsers, every capacity and every packet history whose arrival
instants lie within one time-to-live window and which stays within capacity (`NoEvict`), the cache
program analyzer reports, packet by packet, exactly what `HttpFlow.runS` reports (`runS` is `run`, the
object of C09's theorems, with the SYN reset; on one connection from an empty table the two coincide,
`HttpFlow.runS_conn`). -/
theorem http_trace_bridge (a : Nat) (ps : List (HttpFlow.Pkt × Nat × Nat))
    (hwin : ∀ x ∈ ps, a ≤ x.2.1 ∧ x.2.1 ≤ a + (params P).ttlMs)
    (m : TtlMap FlowKey TcpFlow) (f : HttpFlow.FlowMap)
    (hlb : ∀ e ∈ m.es, a + (params P).ttlMs ≤ e.exp) (hrel : Rel a m f) (hki : HttpFlow.KeyInv f)
    (hne : Huginn.Props.C07.NoEvict (httpAnalyzer (params P)) (m, ())
      (ps.map (fun x => toSeg x.1 x.2.1 x.2.2))) :
    ((httpAnalyzer (params P)).runOuts (m, ()) (ps.map (fun x => toSeg x.1 x.2.1 x.2.2))).map
        (fun po => (po.2.req, po.2.resp)) =
      HttpFlow.runS P f (ps.map (·.1)) := by
  induction ps generalizing m f with
  | nil => rfl
  | cons x ps ih =>
    obtain ⟨p, t, w⟩ := x
    have ht := hwin (p, t, w) (by simp)
    simp only at ht
    have hrelt : Rel t m f := by
      intro k
      rw [← hrel k]
      exact get_time_indep m t a _ (fun e he => by have := hlb e he; omega)
    simp only [List.map_cons, Huginn.Props.C07.NoEvict, httpAnalyzer, Analyzer.step] at hne
    obtain ⟨hne1, hne2⟩ := hne
    obtain ⟨h1, h2, h3⟩ := step_bridge P hrelt hki p w hne1
    have hlb' := Huginn.Props.C08Bridge.run_exp_lb (httpProg (params P) (toSeg p t w))
      (httpProg_allTtl _ _) t (a + (params P).ttlMs) (by omega) m () hlb
    have hrela : Rel a ((httpProg (params P) (toSeg p t w)).run t m ()).1 (HttpFlow.stepS P f p).map := by
      intro k
      rw [← h1 k]
      exact get_time_indep _ a t _ (fun e he => by have := hlb' e he; omega)
    have := ih (fun y hy => hwin y (by simp [hy])) _ _ hlb' hrela (HttpFlow.stepS_keyInv P f p hki)
      hne2
    simp only [List.map_cons, Analyzer.runOuts, Analyzer.step, httpAnalyzer, HttpFlow.runS]
    simp only [httpAnalyzer] at this
    have hhead : (((httpProg (params P) (toSeg p t w)).run (toSeg p t w).time m ()).2.2.req,
        ((httpProg (params P) (toSeg p t w)).run (toSeg p t w).time m ()).2.2.resp) =
        ((HttpFlow.stepS P f p).request, (HttpFlow.stepS P f p).response) := Prod.ext h2 h3
    rw [hhead]
    exact congrArg (List.cons _) this

/-- From a fresh analyzer and an empty map. -/
theorem http_trace_bridge_fresh (a cap : Nat) (ps : List (HttpFlow.Pkt × Nat × Nat))
    (hwin : ∀ x ∈ ps, a ≤ x.2.1 ∧ x.2.1 ≤ a + (params P).ttlMs)
    (hne : Huginn.Props.C07.NoEvict (httpAnalyzer (params P)) ({ cap := cap }, ())
      (ps.map (fun x => toSeg x.1 x.2.1 x.2.2))) :
    ((httpAnalyzer (params P)).runOuts ({ cap := cap }, ()) (ps.map (fun x => toSeg x.1 x.2.1 x.2.2))).map
        (fun po => (po.2.req, po.2.resp)) =
      HttpFlow.runS P [] (ps.map (·.1)) :=
  http_trace_bridge P a ps hwin { cap := cap } [] (by intro e he; cases he) (by intro k; rfl)
    HttpFlow.keyInv_nil hne

end Huginn.Props.C09Bridge
