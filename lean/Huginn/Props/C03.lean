import Huginn.Lemmas.TcpWin
import Huginn.Lemmas.TcpMain
import Huginn.Lemmas.TcpDecode
set_option linter.unusedSimpArgs false
/-!
C03 — TCP packets are rendered into the p0f signature their headers define.
Property theorems only (helper lemmas live in `Huginn/Lemmas/Tcp*.lean`).
-/
namespace Huginn.Props.C03
open Huginn.Sig Huginn.TcpExtract Huginn.TcpSig.Spec Huginn.Gen Huginn.Lemmas.TcpWin
open Huginn.Lemmas.TcpWalk Huginn.Lemmas.TcpQuirks Huginn.Lemmas.TcpMain Huginn.Lemmas.TcpDecode

/-! ### TTL classifier (all 256 values, over the regenerated band table) -/

/-- `calculate_ttl` meets the ittl specification for every TTL byte. -/
theorem calculateTtl_spec : ∀ t, t < 256 → TtlOk t (calculateTtl t) := by decide +kernel

example : calculateTtl 57 = .distance 57 7 ∧ calculateTtl 200 = .value 200 ∧ calculateTtl 0 = .bad 0 := by decide

/-! ### window classifier (all windows, all MSS values — no bound) -/

/-- `detect_win_multiplicator` follows the stated priority for every (16-bit) window and every MSS,
when it is given `total_header` = 0 (as `visit_tcp` now does) or the minimal header size: raw for
window 0 / MSS < 100, first MSS form, largest of 4096…256, first MTU form (Ethernet, Ethernet minus
headers [minus timestamps], the MTU the MSS implies), raw. Full strength since the repairs
`fixes/C03-window-*.patch` (no saturated divisor, no IHL-in-words). -/
theorem detectWin_spec (w m hdrC hdrS : Nat) (ts : Bool) (ver : IpVersion)
    (hver : (ver = .v4 ∧ hdrS = 40) ∨ (ver = .v6 ∧ hdrS = 60))
    (hh : hdrC = 0 ∨ hdrC = hdrS) (hw : w < 65536) :
    WinOk w (some m) hdrS ts (detectWin w m hdrC ts ver) := by
  unfold WinOk detectWin detectWinT
  simp only [TcpConst.minMss]
  by_cases hg : w = 0 ∨ m < 100
  · simp [hg]
  · simp only [hg, if_false]
    have hm : 100 ≤ m := by omega
    rw [mssDivs_eq ts hm]
    apply firstDiv_clauses w (mssForms m ts) WindowSize.mss
    · intro n h; simp [h]
    · intro h
      simp only [h]
      obtain ⟨hsome, hnone⟩ := find_modulos w
      cases hf : TcpConst.modulos.find? (fun m => decide (m ≠ 0 ∧ w % m = 0)) with
      | some p =>
        obtain ⟨_, hp0, hpmax⟩ := hsome p hf
        refine ⟨fun p' hp' h0 hmax => ?_, fun hall => absurd hp0 (hall p (hsome p hf).1)⟩
        have : p' = p := Nat.le_antisymm (hpmax p' hp' h0) (hmax p (hsome p hf).1 hp0)
        simp [this]
      | none =>
        have hall := hnone hf
        refine ⟨fun p' hp' h0 _ => absurd h0 (hall p' hp'), fun _ => ?_⟩
        simp only []
        -- MTU forms: the code's divisor list scans like the specification's
        have hlists : firstDiv w (mtuDivs m hdrC ts ver) = firstDiv w (mtuForms m hdrS ts) := by
          rw [mtuDivs_eq ts ver hm hver, mtuForms_eq, lastDivs_min ver hver hh]
          unfold chkAdd16
          by_cases hfit : m + hdrS ≤ 65535
          · rw [if_pos hfit]
          · rw [if_neg hfit, List.append_nil]
            have hnm : ¬ Mult w (m + hdrS) := by
              rintro ⟨_, hmod, _⟩
              rw [Nat.mod_eq_of_lt (by omega)] at hmod
              omega
            rw [firstDiv_append_not _ hnm]
        rw [hlists]
        apply firstDiv_clauses w (mtuForms m hdrS ts) WindowSize.mtu
        · intro n h; simp [h]
        · intro h; simp [h]

/-- no MSS option: the window is reported raw -/
theorem detectWin_noMss (w hdrC : Nat) (ts : Bool) (ver : IpVersion) (hdrS : Nat) :
    WinOk w none hdrS ts (detectWin w 0 hdrC ts ver) := by
  simp [WinOk, detectWin, detectWinT, TcpConst.minMss]

example : detectWin 7325 1460 0 false .v4 = .value 7325 ∧ detectWin 4320 1400 0 false .v4 = .mtu 3 ∧
    detectWin 65535 65495 60 true .v6 = .value 65535 := by decide

example : detectWin 29200 1460 40 true .v4 = .mss 20 ∧ detectWin 8192 1460 40 false .v4 = .mod 4096 ∧
    detectWin 4500 1460 40 false .v4 = .mtu 3 ∧ detectWin 7401 1460 40 false .v4 = .value 7401 := by decide

/-! ### option walk: termination, grammar, layout -/

/-- The loop `while let Some(opt) = TcpOptionPacket::new(buf)` terminates: it never needs more
iterations than there are option bytes (every iteration consumes at least one byte). -/
theorem walk_terminates (ty n : Nat) (buf : Bytes) (st : WalkSt) (h : buf.length ≤ n) :
    walkAux ty n buf st = walk ty buf st := walkAux_eq_walk ty n buf st h

/-- The decoder of the option grammar is sound: what it returns encodes back to the bytes and is
well formed (kind ≥ 2 options carry their true length, fixed-size options their size). -/
theorem parseArea_sound (b : Bytes) (a : Area) (h : parseArea b = some a) : a.encode = b ∧ a.WF := by
  unfold parseArea at h
  simp only [Option.map_eq_some_iff] at h
  obtain ⟨⟨is, pd⟩, hp, rfl⟩ := h
  refine ⟨?_, parseItems_wf _ _ is pd hp⟩
  have := parseItems_sound _ _ is pd hp
  unfold Area.encode
  cases pd <;> simpa [padBytes] using this

/-- … and complete: every well-formed area is recovered from its encoding (unambiguous grammar). -/
theorem parseArea_complete (a : Area) (h : a.WF) : parseArea a.encode = some a := by
  unfold parseArea
  have henc : a.encode = a.items.flatMap Item.encode ++ padBytes a.pad := by
    unfold Area.encode padBytes; cases a.pad <;> rfl
  rw [henc, parseItems_encode a.items a.pad _ h]
  · rfl
  · have : ∀ l : List Item, l.length ≤ (l.flatMap Item.encode).length := by
      intro l
      induction l with
      | nil => simp
      | cons i is ih =>
        have : 1 ≤ i.encode.length := by cases i <;> simp [Item.encode]
        simp only [List.flatMap_cons, List.length_append, List.length_cons]; omega
    simp only [List.length_append]
    have := this a.items
    omega

/-- Layout rendering: on the encoding of any well-formed option area with nothing after an EOL the
walk lists exactly the option kinds in wire order (and `eol+0` for a final EOL), for areas of any
length. -/
theorem walk_layout (ty : Nat) (a : Area) (h : a.WF) (hpad : a.pad = none ∨ a.pad = some []) (st : WalkSt) :
    (walk ty a.encode st).olayout = st.olayout ++ a.layout := by
  rw [walk_parseArea ty _ a st (parseArea_complete a h)]
  unfold afterArea
  rw [foldItems_eq _ _ _ h]
  rcases hpad with hp | hp <;> rw [hp] <;> simp [Area.layout, hp, walk, walkAux, walkStep]

example : (walk 2 [2, 4, 5, 180, 1, 3, 3, 7, 0] {}).olayout = [.mss, .nop, .ws, .eol 0] := by decide

/-! ### roles and flag sanity, all 256 flag bytes -/

/-- `from_client`, `from_server`, `is_valid` decide SYN∧¬ACK, SYN∧ACK and p0f's sanity filter. -/
theorem roles_spec (f : Fields) (h : f.tcp.flags < 256) :
    (fromClient f.tcp.flags = true ↔ (Syn f ∧ ¬ Ack f)) ∧
    (fromServer f.tcp.flags = true ↔ (Syn f ∧ Ack f)) ∧
    (isValid f.tcp.flags (tcpType f.tcp.flags) = true ↔ ValidFlags f) := by
  obtain ⟨hv, hc, hs, _, _⟩ := role_bits f.tcp.flags h
  exact ⟨hc, hs, hv⟩

/-- `is_packet_from_client`: handshake flags first, otherwise the well-known-port heuristic. -/
theorem isPacketFromClient_spec (f : Fields) (h : f.tcp.flags < 256) :
    isPacketFromClient f.tcp.flags f.tcp.sport f.tcp.dport = true ↔
      ((Syn f ∧ ¬ Ack f) ∨ (¬ Syn f ∧ f.tcp.sport > 1024 ∧ f.tcp.dport ≤ 1024)) := by
  obtain ⟨_, hc, hs, _, _⟩ := role_bits f.tcp.flags h
  unfold isPacketFromClient
  by_cases h1 : fromClient f.tcp.flags = true
  · simp only [h1, if_true, true_iff]; exact Or.inl (hc.1 h1)
  · by_cases h2 : fromServer f.tcp.flags = true
    · have := hs.1 h2
      simp only [h1, h2, if_true]
      constructor
      · intro h; cases h
      · rintro (⟨_, hn⟩ | ⟨hn, _⟩)
        · exact absurd this.2 hn
        · exact absurd this.1 hn
    · simp only [h1, h2, Bool.false_eq_true, if_false, TcpConst.portHeurSrcGt, TcpConst.portHeurDstLe,
        Bool.and_eq_true, decide_eq_true_eq]
      have hns : ¬ Syn f := by
        intro hsyn
        by_cases ha : Ack f
        · exact h2 (hs.2 ⟨hsyn, ha⟩)
        · exact h1 (hc.2 ⟨hsyn, ha⟩)
      constructor
      · rintro ⟨hp1, hp2⟩; exact Or.inr ⟨hns, of_decide_eq_true hp1, of_decide_eq_true hp2⟩
      · rintro (⟨hsyn, _⟩ | ⟨_, hp1, hp2⟩)
        · exact absurd hsyn hns
        · exact ⟨decide_eq_true hp1, decide_eq_true hp2⟩

/-! ### link label -/

/-- `matching_by_mtu` is the exact lookup in the `[mtu]` table, first label in file order —
for every table. -/
theorem matchingByMtu_spec (tbl : List (String × List Nat)) (m : Nat) : LinkOk tbl m (matchingByMtu tbl m) := by
  unfold LinkOk matchingByMtu
  induction tbl with
  | nil => simp [onOpt]
  | cons e r ih =>
    simp only [List.find?_cons]
    by_cases he : e.2.contains m = true
    · simp only [he, Option.map_some, onOpt]
      exact ⟨0, by simp, by simpa using he, by simp⟩
    · simp only [he]
      have hne : m ∉ e.2 := by simpa using he
      cases hf : r.find? (fun e => e.2.contains m) with
      | none =>
        simp only [hf, Option.map_none, onOpt] at ih ⊢
        intro x hx
        simp only [List.mem_cons] at hx
        rcases hx with rfl | hx
        · exact hne
        · exact ih x hx
      | some e' =>
        simp only [hf, Option.map_some, onOpt] at ih ⊢
        obtain ⟨k, hk, hget, hpre⟩ := ih
        refine ⟨k + 1, by simp; omega, by simpa using hget, ?_⟩
        intro x hx
        simp only [List.take_succ_cons, List.mem_cons] at hx
        rcases hx with rfl | hx
        · exact hne
        · exact hpre x hx

example : matchingByMtu TcpConst.mtuTable 1500 = some "Ethernet or modem" ∧
    matchingByMtu TcpConst.mtuTable 1499 = none := by decide

/-! ### one signature -/

/-- The signature the model builds is the one the header fields define. -/
theorem sig_meets_spec (f : Fields) (hwf : f.WF) (a : Area) (hpa : parseArea f.tcp.opts = some a)
    (hpad : a.pad = none ∨ a.pad = some []) (hamb : ¬ a.Ambiguous)
    (hvalid : ValidFlags f) (hsyn : Syn f) :
    SigOk f (modelSig f) := by
  obtain ⟨hlay, hmss, hws, _⟩ := walked_eq f a hpa hpad
  have hq := walked_quirks_unamb f a hpa hpad (fun h => hamb (Or.inr (Or.inl h))) (fun h => hamb (Or.inr (Or.inr h)))
  have hwf' := hwf
  unfold Fields.WF at hwf'
  obtain ⟨httl, hihl, _, _, _, _, _, _, _, _, _, _, _, htf, hwin16, _⟩ := hwf'
  obtain ⟨hbv, hbc, hbs, hbsyn, hbty⟩ := role_bits f.tcp.flags htf
  unfold Area.Ambiguous at hamb
  have hl1 : ¬ 1 < (mssValues a).length := fun h => hamb (Or.inl h)
  have hl2 : ¬ 1 < (wsValues a).length := fun h => hamb (Or.inr (Or.inl h))
  have hl3 : ¬ 1 < (tsValues a).length := fun h => hamb (Or.inr (Or.inr h))
  have hnrst : ¬ Rst f := by
    unfold ValidFlags Syn FinF Rst at *
    intro hr; exact hvalid.1 ⟨hsyn, Or.inr hr⟩
  have hnfin : ¬ FinF f := by
    unfold ValidFlags Syn FinF Rst at *
    intro hr; exact hvalid.1 ⟨hsyn, Or.inl hr⟩
  have hoptmem : ∀ q, q ∈ a.items.flatMap (itemQuirks (tcpType f.tcp.flags)) → q ∈ optionQuirks := by
    intro q hq
    rw [optQ_mem] at hq
    rcases hq with ⟨rfl, _⟩ | ⟨rfl, _⟩ | ⟨rfl, _⟩ <;> simp [optionQuirks]
  unfold SigOk
  simp only [hpa]
  refine ⟨?_, ?_, ?_, ?_, ?_, ?_, ?_⟩
  · simp [modelSig, ver]
  · exact calculateTtl_spec f.ip.ttl httl
  · simp only [modelSig, ipv6OptLen, ipv4OptLen, TcpConst.ihlGuard, TcpConst.ihlSub, TcpConst.ihlMul]
    cases f.ip.v6 <;> simp
    split <;> omega
  · simp [modelSig]
  · -- no duplicates
    simp only [modelSig, hq, badQ_parsed f a hpa, List.append_nil]
    rw [List.nodup_append]
    refine ⟨hdr_nodup f, optQ_nodup _ _ (by unfold wsValues at hl2; omega) (by unfold tsValues at hl3; omega), ?_⟩
    intro x hx y hy hxy
    subst hxy
    exact hdr_not_opt f x (Or.inl (hoptmem x hy)) hx
  · -- exactly the quirks whose condition holds
    intro q _ _
    simp only [modelSig, hq, badQ_parsed f a hpa, List.append_nil, List.mem_append]
    by_cases hqo : q ∈ optionQuirks
    · have hnh : q ∉ hdrQuirks f := hdr_not_opt f q (Or.inl hqo)
      simp only [hnh, false_or, optQ_mem]
      simp only [optionQuirks, List.mem_cons, List.not_mem_nil, or_false] at hqo
      rcases hqo with rfl | rfl | rfl | rfl
      · simp [QuirkCond, onOpt, tsValues]
      · simp only [QuirkCond, onOpt, tsValues, hbty]
        unfold Syn Ack FinF Rst at *
        simp [hsyn, hnrst, hnfin]
      · simp only [QuirkCond, onOpt]
        rcases hpad with h | h <;> simp [h]
      · simp [QuirkCond, onOpt, wsValues]
    · by_cases hqb : q = .optBad
      · subst hqb
        have hnh : Quirk.optBad ∉ hdrQuirks f := hdr_not_opt f _ (Or.inr rfl)
        have : Quirk.optBad ∉ a.items.flatMap (itemQuirks (tcpType f.tcp.flags)) := by
          intro h; have := hoptmem _ h; simp [optionQuirks] at this
        simp [hnh, this, QuirkCond]
      · have : q ∉ a.items.flatMap (itemQuirks (tcpType f.tcp.flags)) := fun h => hqo (hoptmem q h)
        simp only [this, or_false]
        exact hdr_mem f hwf (some a) hnrst q hqo hqb
  · -- layout, MSS, window scale, window
    simp only [onOpt]
    refine ⟨by simp [modelSig, hlay], ?_, ?_, ?_⟩
    · simp only [modelSig, hmss]; exact getLast?_eq_head? _ hl1
    · simp only [modelSig, hws]; exact getLast?_eq_head? _ hl2
    · simp only [modelSig, hmss, hlay, layout_contains_ts a hpad, getLast?_eq_head? _ hl1]
      cases hm : (mssValues a).head? with
      | none => exact detectWin_noMss _ _ _ _ _
      | some m =>
        simp only [Option.getD_some]
        have hwin : minHdr f = (if f.ip.v6 then 60 else 40) := rfl
        apply detectWin_spec
        · unfold ver minHdr; cases f.ip.v6 <;> simp
        · exact Or.inl rfl
        · exact hwin16

/-- Inside the known-finding classes too: version, ittl, olen and pclass of the signature the model
builds are always the ones the headers define (they do not depend on the option walk). -/
theorem header_fields_unconditional (f : Fields) (hwf : f.WF) :
    (modelSig f).version = (if f.ip.v6 then .v6 else .v4) ∧
    TtlOk f.ip.ttl (modelSig f).ittl ∧
    (modelSig f).olen = (if f.ip.v6 then 0 else (f.ip.ihl - 5) * 4) ∧
    (modelSig f).pclass = (if f.tcp.payLen = 0 then .zero else .nonZero) := by
  unfold Fields.WF at hwf
  obtain ⟨httl, hihl, _⟩ := hwf
  refine ⟨by simp [modelSig, ver], calculateTtl_spec f.ip.ttl httl, ?_, by simp [modelSig]⟩
  simp only [modelSig, ipv6OptLen, ipv4OptLen, TcpConst.ihlGuard, TcpConst.ihlSub, TcpConst.ihlMul]
  cases f.ip.v6 <;> simp
  split <;> omega

/-- `options_malformed` (the helper the repair `fixes/C03-bad-quirk-for-malformed-options.patch` added)
returns `true` exactly on the byte strings the option grammar rejects — for areas of any length. -/
theorem optionsMalformed_spec (b : Bytes) : optionsMalformed b = true ↔ parseArea b = none :=
  optionsMalformed_iff b

example : optionsMalformed [3, 2, 1, 1] = true ∧ optionsMalformed [2, 4, 5] = true ∧ optionsMalformed [8] = true ∧
    optionsMalformed [77, 1, 9] = true ∧ optionsMalformed [2, 4, 5, 180, 0, 9, 9] = false ∧
    optionsMalformed [5, 10, 1, 2, 3, 4, 5, 6, 7, 8] = false ∧ optionsMalformed [5, 12, 1, 2, 3, 4, 5, 6, 7, 8, 9, 10] = true := by
  decide

/-- **Malformed option areas.** When the grammar rejects the option bytes the signature carries `bad`
(once, and nowhere else), the header quirks are exactly those whose condition holds, no quirk is
listed twice (every push inside the option loop is guarded, fixes/C03-option-quirks-reported-once.patch),
and version, ittl, olen, pclass are the headers'; the specification leaves layout, MSS, window scale,
window and the other option-derived quirks open there. No further hypothesis. -/
theorem sig_meets_spec_malformed (f : Fields) (hwf : f.WF) (hpa : parseArea f.tcp.opts = none)
    (hvalid : ValidFlags f) (hsyn : Syn f) :
    SigOk f (modelSig f) := by
  obtain ⟨hver, httl, holen, hpc⟩ := header_fields_unconditional f hwf
  have hnrst : ¬ Rst f := by
    unfold ValidFlags Syn FinF Rst at *
    intro hr; exact hvalid.1 ⟨hsyn, Or.inr hr⟩
  have hbadopt : Quirk.optBad ∉ optionQuirks := by decide
  obtain ⟨ext, hq, hwq, hnd⟩ := modelSig_quirks f
  rw [badQ_malformed f hpa] at hq
  unfold SigOk
  simp only [hpa]
  refine ⟨hver, httl, holen, hpc, ?_, ?_, trivial⟩
  · -- no duplicates: header and option-derived quirks never repeat, `bad` is neither
    rw [hq, List.nodup_append]
    refine ⟨hnd, by simp, ?_⟩
    intro x hx y hy hxy
    simp only [List.mem_singleton] at hy
    subst hy; subst hxy
    rw [List.mem_append] at hx
    rcases hx with hx | hx
    · exact hdr_not_opt f _ (Or.inr rfl) hx
    · exact hbadopt (hwq _ hx)
  · -- `bad` is there; the header quirks are exactly those whose condition holds
    intro q _ hno
    have hqo : q ∉ optionQuirks := hno trivial
    rw [hq]
    simp only [List.mem_append, List.mem_singleton]
    by_cases hqb : q = .optBad
    · subst hqb; simp [QuirkCond]
    · have : q ∉ ext := fun h => hqo (hwq q h)
      simp only [this, hqb, or_false]
      exact hdr_mem f hwf none hnrst q hqo hqb

/-! ### the analysis outcome -/

/-- Full statement (false for the current code, see the witnesses below). -/
def FullRenderMeetsSpec : Prop := ∀ f : Fields, f.WF → Specified f → Holds f (process f)

/-- **C03, partial.** Outside the known-finding classes the model of
`process_ipv4_packet` / `process_ipv6_packet` reports exactly what the header fields define:
rejected flag combinations and non-handshake segments nothing, a SYN the client signature and
MTU = MSS + 40/60, a SYN+ACK the server signature; a malformed option area gives `bad` and no
quirk twice (the classes "bad never reported" and "option quirk listed twice in a malformed area" were
repaired: fixes/C03-bad-quirk-for-malformed-options.patch, fixes/C03-option-quirks-reported-once.patch).
The three classes still excluded are the ones the repository's golden snapshot pins. No bound on any field. -/
theorem render_meets_spec_partial (f : Fields) (hwf : f.WF) (hs : Specified f)
    (hk : ¬ Huginn.KF.C03.any f) : Holds f (process f) := by
  have hwf' := hwf
  unfold Fields.WF at hwf'
  obtain ⟨_, _, _, hfl, _, _, _, _, _, _, _, _, hdoff, htf, _⟩ := hwf'
  obtain ⟨hbv, hbc, hbs, hbsyn, hbty⟩ := role_bits f.tcp.flags htf
  obtain ⟨_, _, hmf⟩ := ipflag_bits f.ip.flags hfl
  unfold Huginn.KF.C03.any at hk
  simp only [not_or] at hk
  obtain ⟨hk_eol, hk_role, hk_mtu⟩ := hk
  obtain ⟨hproto, hfrag, hamb⟩ := hs
  have hfrag' : f.ip.v6 = true ∨ (f.ip.fragOff = 0 ∧ ¬ (f.ip.flags &&& IP_MF = IP_MF)) := by
    rcases hfrag with h | ⟨h1, h2⟩
    · exact Or.inl h
    · exact Or.inr ⟨h1, by rw [hmf]; exact h2⟩
  unfold Holds
  by_cases hvalid : ValidFlags f
  · -- accepted flag combination
    have hv : isValid f.tcp.flags (tcpType f.tcp.flags) = true := by
      rw [hbv]; exact hvalid
    have hsyn : Syn f := by
      by_cases h : Syn f
      · exact h
      · exact absurd ⟨hvalid, h⟩ hk_role
    cases hpa0 : parseArea f.tcp.opts with
    | none =>
      -- malformed option area: `bad`; layout, MSS, window and MTU are left open by the specification
      have hsig := sig_meets_spec_malformed f hwf hpa0 hvalid hsyn
      rw [process_ok f hproto hfrag' hv]
      simp only [hvalid, not_true_eq_false, if_false, hsyn]
      by_cases hack : Ack f
      · have hfc : fromClient f.tcp.flags = false := by
          rw [Bool.eq_false_iff]; intro h; rw [hbc] at h; exact h.2 hack
        simp [hack, hfc, hsig, onOpt]
      · have hfc : fromClient f.tcp.flags = true := by rw [hbc]; exact ⟨hsyn, hack⟩
        simp only [hack, if_false, hfc, if_true, Bool.not_true, Bool.false_eq_true]
        exact ⟨trivial, by simp [MtuOk, hpa0, onOpt], hsig⟩
    | some a =>
    have hpa : parseArea f.tcp.opts = some a := hpa0
    have hpad : a.pad = none ∨ a.pad = some [] := by
      unfold Huginn.KF.C03.optionsAfterEol at hk_eol
      simp only [hpa, onOpt] at hk_eol
      cases h : a.pad with
      | none => exact Or.inl rfl
      | some p =>
        simp only [h] at hk_eol
        right; congr
        cases p with
        | nil => rfl
        | cons x xs => exact absurd (by simp) hk_eol
    have hamb' : ¬ a.Ambiguous := by simpa only [hpa, onOpt] using hamb
    have hsig := sig_meets_spec f hwf a hpa hpad hamb' hvalid hsyn
    rw [process_ok f hproto hfrag' hv]
    simp only [hvalid, not_true_eq_false, if_false, hsyn]
    by_cases hack : Ack f
    · have hfc : fromClient f.tcp.flags = false := by
        rw [Bool.eq_false_iff]; intro h; rw [hbc] at h; exact h.2 hack
      simp [hack, hfc, hsig, onOpt]
    · have hfc : fromClient f.tcp.flags = true := by rw [hbc]; exact ⟨hsyn, hack⟩
      simp only [hack, if_false, hfc, if_true, Bool.not_true, Bool.false_eq_true]
      refine ⟨trivial, ?_, hsig⟩
      -- MTU
      obtain ⟨_, hmss, _, _⟩ := walked_eq f a hpa hpad
      unfold MtuOk modelMtu
      simp only [hpa, onOpt, hmss]
      have hl1 : ¬ 1 < (mssValues a).length := fun h => hamb' (Or.inl h)
      rw [getLast?_eq_head? _ hl1]
      cases hm : (mssValues a).head? with
      | none => rfl
      | some m =>
        simp only []
        intro hfit
        have hne : mssValues a ≠ [] := by intro h; rw [h] at hm; cases hm
        have hcode : Huginn.KF.C03.codeMtuHdr f = minHdr f := by
          unfold Huginn.KF.C03.mtuFromHeaderLengths at hk_mtu
          simp only [hpa, onOpt] at hk_mtu
          by_cases h : Huginn.KF.C03.codeMtuHdr f = minHdr f
          · exact h
          · exact absurd ⟨hsyn, hack, h, hne⟩ hk_mtu
        have hsynb : ((f.tcp.flags &&& SYN) == SYN) = true := by rw [hbsyn]; exact hsyn
        unfold Huginn.KF.C03.codeMtuHdr minHdr at hcode
        unfold minHdr at hfit
        cases h6 : f.ip.v6 <;> simp only [h6, if_true, if_false, Bool.false_eq_true] at hcode hfit ⊢
        · unfold minHdr; simp only [h6, if_false, Bool.false_eq_true]
          exact extractMtu4_eq _ _ _ _ hsynb hcode hfit
        · unfold minHdr; simp only [h6, if_true]
          exact extractMtu6_eq _ _ _ hsynb hcode hfit
  · -- rejected flag combination
    have hv : isValid f.tcp.flags (tcpType f.tcp.flags) = false := by
      rw [Bool.eq_false_iff]; intro h; rw [hbv] at h; exact hvalid h
    rw [process_invalid f hproto hfrag' hv]
    simp [hvalid, Nothing]

/-! ### from packet bytes to header fields -/

/-- Every record the frame decoder (the model of the pnet accessors) produces has the field widths
the theorems assume — for every byte string of any length. -/
theorem decodeFields_wf (v6 : Bool) (b : Bytes) (f : Fields) (hb : BytesOk b)
    (h : decodeFields v6 b = some (.ok f)) : f.WF := by
  unfold decodeFields at h
  have key : ∀ (ip : IpHdr) (pl : Bytes),
      (ip.ttl < 256 ∧ ip.ihl < 16 ∧ ip.ecn < (if ip.v6 then 256 else 4) ∧ ip.flags < 8 ∧ ip.ipid < 65536 ∧
        ip.fragOff < 8192 ∧ ip.flow < 1048576 ∧ ip.proto < 256) → BytesOk pl →
      (match decodeTcp pl with
        | none => some (Except.error Err.parse)
        | some t => some (Except.ok ({ ip := ip, tcp := t } : Fields))) = some (Except.ok f) → f.WF := by
    intro ip pl hip hpl hm
    cases ht : decodeTcp pl with
    | none => rw [ht] at hm; cases hm
    | some t =>
      rw [ht] at hm
      simp only [Option.some.injEq, Except.ok.injEq] at hm
      subst hm
      obtain ⟨h1, h2, h3, h4, h5, h6, h7, h8, h9, h10⟩ := decodeTcp_wf pl hpl t ht
      obtain ⟨a1, a2, a3, a4, a5, a6, a7, a8⟩ := hip
      exact ⟨a1, a2, a3, a4, a5, a6, a7, a8, h1, h2, h3, h4, h5, h6, h7, h8, h9, h10⟩
  cases v6
  · simp only [Bool.false_eq_true, if_false] at h
    cases hd : decodeIp4 b with
    | none => rw [hd] at h; cases h
    | some x =>
      obtain ⟨ip, pl⟩ := x
      rw [hd] at h
      obtain ⟨h6, a1, a2, a3, a4, a5, a6, a7, a8, hpl⟩ := decodeIp4_wf b hb ip pl hd
      exact key ip pl ⟨a1, a2, by rw [h6]; exact a3, a4, a5, a6, a7, a8⟩ hpl h
  · simp only [if_true] at h
    cases hd : decodeIp6 b with
    | none => rw [hd] at h; cases h
    | some x =>
      obtain ⟨ip, pl⟩ := x
      rw [hd] at h
      obtain ⟨h6, a1, a2, a3, a4, a5, a6, a7, a8, hpl⟩ := decodeIp6_wf b hb ip pl hd
      exact key ip pl ⟨a1, a2, by rw [h6]; exact a3, a4, a5, a6, a7, a8⟩ hpl h

/-- **C03 on packets.** For every IPv4 / IPv6 packet (any bytes, any length) that pnet accepts and
that lies in the domain of the statement and outside the known-finding classes, what the model of
`process_ipv4_packet` / `process_ipv6_packet` reports is what the packet's header fields define. -/
theorem packet_meets_spec_partial (v6 : Bool) (b : Bytes) (f : Fields) (hb : BytesOk b)
    (hd : decodeFields v6 b = some (.ok f)) (hs : Specified f) (hk : ¬ Huginn.KF.C03.any f) :
    ∃ o, processPacket v6 b = some o ∧ Holds f o := by
  refine ⟨process f, ?_, render_meets_spec_partial f (decodeFields_wf v6 b f hb hd) hs hk⟩
  unfold processPacket
  rw [hd]; rfl

/-! ### non-vacuity and the known-finding witnesses -/

/-- a Linux-like IPv4 SYN: mss,sok,ts,nop,ws — 20 option bytes -/
def linuxSyn : Fields :=
  { ip := { v6 := false, ttl := 64, flags := 2, ipid := 4660 },
    tcp := { sport := 40000, dport := 80, seq := 1000, doff := 10, flags := 2, window := 29200,
             opts := [2, 4, 5, 180, 4, 2, 8, 10, 0, 0, 0, 9, 0, 0, 0, 0, 1, 3, 3, 7] } }

/-- the hypotheses of `render_meets_spec_partial` are satisfiable, and the conclusion is not trivial
(for a malformed option area: `fixed_badNeverReported_regression` below) -/
example : linuxSyn.WF ∧ Specified linuxSyn ∧ ¬ Huginn.KF.C03.any linuxSyn ∧
    (∃ r s, process linuxSyn = .ok r ∧ r.syn = some s ∧ r.mtu = some 1500 ∧ s.wsize = .mss 20 ∧
      s.olayout = [.mss, .sok, .ts, .nop, .ws] ∧ s.quirks = [.df, .nonZeroID]) := by
  refine ⟨by decide +kernel, by decide +kernel, by decide +kernel, ?_⟩
  exact ⟨_, _, rfl, rfl, by decide +kernel, by decide +kernel, by decide +kernel, by decide +kernel⟩

def withOpts (o : Bytes) (doff : Nat) : Fields :=
  { linuxSyn with tcp := { linuxSyn.tcp with opts := o, doff := doff, window := 65535 } }

/-- (a) `mss, eol, 00 00 00`: rendered `mss,eol+3,eol+2,eol+1,eol+0` -/
theorem kf_optionsAfterEol_witness :
    let w := withOpts [2, 4, 5, 180, 0, 0, 0, 0] 7
    w.WF ∧ Specified w ∧ Huginn.KF.C03.optionsAfterEol w ∧ ¬ Holds w (process w) := by decide +kernel

/-- (b) plain ACK: reported as a server signature -/
theorem kf_nonHandshakeAsServer_witness :
    let w : Fields := { linuxSyn with tcp := { linuxSyn.tcp with flags := 16, ack := 77, opts := [], doff := 5 } }
    w.WF ∧ Specified w ∧ Huginn.KF.C03.nonHandshakeAsServer w ∧ ¬ Holds w (process w) := by decide +kernel

/-- (c) MSS 1460 with 4 option bytes: MTU 1484 -/
theorem kf_mtuFromHeaderLengths_witness :
    let w := withOpts [2, 4, 5, 180] 6
    w.WF ∧ Specified w ∧ Huginn.KF.C03.mtuFromHeaderLengths w ∧ ¬ Holds w (process w) ∧
      (∃ r, process w = .ok r ∧ r.mtu = some 1484) := by
  refine ⟨by decide +kernel, by decide +kernel, by decide +kernel, by decide +kernel, _, rfl, by decide +kernel⟩

/-- repaired (fixes/C03-ecn-quirk-once.patch): ECT in the IP header and ECE+CWR give `ecn` once.
The 20 option bytes of `linuxSyn` keep the MTU right, so the whole report meets the specification. -/
theorem fixed_ecnTwice_regression :
    let w : Fields := { linuxSyn with ip := { linuxSyn.ip with ecn := 2 }, tcp := { linuxSyn.tcp with flags := 194 } }
    w.WF ∧ Specified w ∧ ¬ Huginn.KF.C03.any w ∧ Holds w (process w) := by decide +kernel

/-- repaired (fixes/C03-window-classifier-minimal-headers.patch): window 7325 = 5·(1460+5) is raw,
window 4320 = 3·(1400+40) is `mtu*3` -/
theorem fixed_winHeaderWords_regression :
    let o := [2, 4, 5, 180, 1, 1, 1, 1, 1, 1, 1, 1, 1, 1, 1, 1, 1, 1, 1, 1]
    let w1 : Fields := { withOpts o 10 with tcp := { (withOpts o 10).tcp with window := 7325 } }
    let o2 := [2, 4, 5, 120, 1, 1, 1, 1, 1, 1, 1, 1, 1, 1, 1, 1, 1, 1, 1, 1]
    let w2 : Fields := { withOpts o2 10 with tcp := { (withOpts o2 10).tcp with window := 4320 } }
    Holds w1 (process w1) ∧ Holds w2 (process w2) ∧
      (∃ r s, process w2 = .ok r ∧ r.syn = some s ∧ s.wsize = .mtu 3) := by
  refine ⟨by decide +kernel, by decide +kernel, _, _, rfl, rfl, by decide +kernel⟩

/-- repaired (fixes/C03-bad-quirk-for-malformed-options.patch): the witness of the former class (g),
window scale without payload (`03 02`), now carries `bad` (last) and the whole report meets the
specification. -/
theorem fixed_badNeverReported_regression :
    let w := withOpts [3, 2, 1, 1] 6
    w.WF ∧ Specified w ∧ parseArea w.tcp.opts = none ∧ ¬ Huginn.KF.C03.any w ∧ Holds w (process w) ∧
      (∃ r s, process w = .ok r ∧ r.syn = some s ∧ s.quirks = [.df, .nonZeroID, .optBad]) := by
  refine ⟨by decide +kernel, by decide +kernel, by decide +kernel, by decide +kernel, by decide +kernel,
    _, _, rfl, rfl, by decide +kernel⟩

/-- quirk list of the client signature reported for `f` (empty when there is none) -/
private def synQuirks (f : Fields) : List Quirk :=
  match process f with
  | .ok r => (r.syn.map (·.quirks)).getD []
  | .error _ => []

/-- every kind of malformation the grammar distinguishes yields `bad` (last), a well-formed area does
not: no length byte, length byte 0 / 1, option running past the area, wrong size of MSS / window scale /
SACK-permitted / SACK / timestamps -/
example : ∀ o ∈ [[2], [77, 0, 1, 1], [77, 1, 1, 1], [77, 5, 1, 1], [2, 4, 5], [2, 3, 5, 1], [3, 2, 1, 1],
      [4, 3, 1, 1], [5, 4, 1, 1, 1, 1, 1, 1], [8, 6, 0, 0, 0, 1, 1, 1]],
    parseArea o = none ∧ (synQuirks (withOpts o 7)).getLast? = some .optBad := by decide +kernel
example : synQuirks (withOpts [2, 4, 5, 180, 77, 3, 9, 1] 7) = [.df, .nonZeroID] := by decide +kernel

/-- repaired (fixes/C03-option-quirks-reported-once.patch): the witness of the former class (i),
`03 02` (malformed) followed by two window-scale options with shift 15 — the walk still goes on past
the malformed option, but `exws` is listed once and the whole report meets the specification. -/
theorem fixed_malformedRepeatsQuirk_regression :
    let w := withOpts [3, 2, 3, 3, 15, 3, 3, 15] 7
    w.WF ∧ Specified w ∧ parseArea w.tcp.opts = none ∧ ¬ Huginn.KF.C03.any w ∧ Holds w (process w) ∧
      (∃ r s, process w = .ok r ∧ r.syn = some s ∧
        s.quirks = [.df, .nonZeroID, .excessiveWindowScaling, .optBad]) := by
  refine ⟨by decide +kernel, by decide +kernel, by decide +kernel, by decide +kernel, by decide +kernel,
    _, _, rfl, rfl, by decide +kernel⟩

/-- each of the four guarded pushes: a second timestamp option (TSval 0, TSecr ≠ 0 on a SYN), a
second end-of-options marker with a non-zero byte after it -/
example : synQuirks (withOpts [3, 2, 8, 10, 0, 0, 0, 0, 0, 0, 0, 5, 8, 10, 0, 0, 0, 0, 0, 0, 0, 6, 1, 1] 11)
      = [.df, .nonZeroID, .ownTimestampZero, .peerTimestampNonZero, .optBad] ∧
    synQuirks (withOpts [3, 2, 0, 1, 0, 1] 7) = [.df, .nonZeroID, .trailingNonZero, .optBad] := by decide +kernel

/-- repaired (fixes/C03-window-mtu-no-saturated-divisor.patch): window 65535 with MSS 65495 is raw -/
theorem fixed_winSaturatedMtu_regression :
    WinOk 65535 (some 65495) 60 true (detectWin 65535 65495 60 true .v6) := by decide +kernel

/-- the full statement is false for the current code -/
theorem full_statement_fails : ¬ FullRenderMeetsSpec := by
  intro h
  have w := kf_nonHandshakeAsServer_witness
  exact w.2.2.2 (h _ w.1 w.2.1)

end Huginn.Props.C03
