import Huginn.Model.H2Checked
import Huginn.Lemmas.WireChecked
import Huginn.Lemmas.H2Frames
set_option linter.unusedSimpArgs false
set_option linter.unusedVariables false
set_option maxRecDepth 100000
/-
C01 (HTTP/2 byte level) — the frame splitter, the HTTP/2 entry checks and the Akamai extractors never
fault and their loops terminate.

`Model/H2Checked.lean` mirrors every indexing / slicing expression of http2_parser.rs, http2_process.rs,
akamai_extractor.rs and http2_fingerprint_extractor.rs with checked accessors that fail exactly where
Rust panics, behind the guards as written. The theorems say: for every input — every byte string of
every length, every frame list, every extractor state — the run is `.ok`, and its value is the one the
total models (Model/H2Frames, Model/Akamai, Model/H2Message; the models C16 and C17 reason about)
compute. The two loops (`parse_frames`, `has_complete_frames`) are run with fuel = input length;
`*_progress` shows every iteration consumes at least 9 octets, so the fuel is never exhausted
(`Lemmas.H2Frames.aux_fuel`: any larger fuel gives the same result).
-/
namespace Huginn.Props.C01H2
open Huginn.H2 Huginn.WireChecked Huginn.H2Checked Huginn.Lemmas.H2Frames
open Huginn.Wire (byte)

private theorem nine (d : Bytes) (h : 9 ≤ d.length) :
    ∃ l0 l1 l2 ty fl s0 s1 s2 s3 rest, d = l0 :: l1 :: l2 :: ty :: fl :: s0 :: s1 :: s2 :: s3 :: rest := by
  rcases d with _ | ⟨l0, _ | ⟨l1, _ | ⟨l2, _ | ⟨ty, _ | ⟨fl, _ | ⟨s0, _ | ⟨s1, _ | ⟨s2, _ | ⟨s3, rest⟩⟩⟩⟩⟩⟩⟩⟩⟩ <;>
    simp at h
  exact ⟨l0, l1, l2, ty, fl, s0, s1, s2, s3, rest, rfl⟩

private theorem short_none {max : Nat} {d : Bytes} (h : d.length < 9) : parseOne max d = none := by
  cases hp : parseOne max d with
  | none => rfl
  | some p =>
    obtain ⟨f, x⟩ := p
    have := parseOne_length hp
    simp only [Frame.totalSize] at this
    omega

private theorem sat9 (n : Nat) (h : n < 2 ^ 24) : satAdd32 9 n = 9 + n := by
  unfold satAdd32; omega

private theorem be24_lt (a b c : UInt8) : be24 a b c < 2 ^ 24 := by
  have := a.toNat_lt; have := b.toNat_lt; have := c.toNat_lt
  unfold be24; omega

/-- the nine header reads and the two slices on a buffer that has them -/
private theorem reads (l0 l1 l2 ty fl s0 s1 s2 s3 : UInt8) (rest : Bytes) :
    let d := l0 :: l1 :: l2 :: ty :: fl :: s0 :: s1 :: s2 :: s3 :: rest
    len24C d = .ok (be24 l0 l1 l2) ∧ idx8 d 3 = .ok ty ∧ idx8 d 4 = .ok fl ∧ idx8 d 5 = .ok s0 ∧
    idx8 d 6 = .ok s1 ∧ idx8 d 7 = .ok s2 ∧ idx8 d 8 = .ok s3 ∧
    (∀ n, n ≤ rest.length → range d 9 (9 + n) = .ok (rest.take n) ∧ from_ d (9 + n) = .ok (rest.drop n)) := by
  intro d
  refine ⟨by simp [d, len24C, idx, be24], by simp [d, idx8], by simp [d, idx8], by simp [d, idx8],
    by simp [d, idx8], by simp [d, idx8], by simp [d, idx8], ?_⟩
  intro n hn
  have hlen : d.length = rest.length + 9 := by simp [d]
  have e : 9 + n = n + 9 := by omega
  constructor
  · unfold range
    have : 9 ≤ 9 + n ∧ 9 + n ≤ d.length := by omega
    simp only [this, and_self, if_true]
    rw [e]
    simp [d, List.take_succ_cons]
  · unfold from_
    have : 9 + n ≤ d.length := by omega
    simp only [this, if_true]
    rw [e]
    simp [d]

/-! ### http2_parser.rs -/

/-- **`parse_frames` loop body + `parse_single_frame`** — `remaining[0..2]`, `data[0..8]`,
`data[9..9+len]`, `&data[9+len..]`, `9_u32.saturating_add(len)`: no fault, for every byte string and
every configured maximum. -/
theorem parse_frames_step_no_fault (max : Nat) (d : Bytes) :
    parseFramesStepC max d = .ok (parseOne max d) := by
  unfold parseFramesStepC
  by_cases h9 : d.length ≥ 9
  · obtain ⟨l0, l1, l2, ty, fl, s0, s1, s2, s3, rest, rfl⟩ := nine d h9
    have hl := be24_lt l0 l1 l2
    obtain ⟨hlen, r3, r4, r5, r6, r7, r8, hsl⟩ := reads l0 l1 l2 ty fl s0 s1 s2 s3 rest
    have hL : (l0 :: l1 :: l2 :: ty :: fl :: s0 :: s1 :: s2 :: s3 :: rest).length = rest.length + 9 := by simp
    simp only [h9, if_true, hlen, ok_bind, sat9 _ hl]
    unfold parseSingleFrameC parseOne
    simp only [hlen, r3, r4, r5, r6, r7, r8, ok_bind, sat9 _ hl, hL]
    by_cases hinc : rest.length < be24 l0 l1 l2
    · have : rest.length + 9 < 9 + be24 l0 l1 l2 := by omega
      simp only [hinc, this, if_true, pure_eq]
    · have h1 : ¬ rest.length + 9 < 9 + be24 l0 l1 l2 := by omega
      have h2 : ¬ rest.length + 9 < 9 := by omega
      obtain ⟨hr, hf⟩ := hsl (be24 l0 l1 l2) (by omega)
      simp only [hinc, h1, h2, if_false]
      by_cases hbig : be24 l0 l1 l2 > max
      · simp only [hbig, if_true, pure_eq]
      · simp only [hbig, if_false, hr, hf, ok_bind, pure_eq]
  · have h9' : d.length < 9 := by omega
    simp only [h9, if_false, short_none h9', pure_eq]

/-- every iteration of the loop consumes at least 9 octets (termination of `parse_frames`) -/
theorem parse_frames_progress {max : Nat} {d : Bytes} {f : Frame} {rest : Bytes}
    (h : parseOne max d = some (f, rest)) : rest.length + 9 ≤ d.length := by
  have := parseOne_length h
  simp only [Frame.totalSize] at this
  omega

/-- **`parse_frames`** — for every byte string and every fuel the checked loop is `.ok` of the total
model's loop; with fuel = input length it is the frame list C16/C17 reason about. -/
theorem parse_frames_fuel_no_fault (max : Nat) : ∀ (fuel : Nat) (d : Bytes),
    parseFramesC max fuel d = .ok (parseFramesAux max fuel d) := by
  intro fuel
  induction fuel with
  | zero => intro d; rfl
  | succ n ih =>
    intro d
    simp only [parseFramesC, parseFramesAux, parse_frames_step_no_fault, ok_bind]
    cases parseOne max d with
    | none => rfl
    | some p =>
      obtain ⟨f, rest⟩ := p
      simp only [ih rest, ok_bind]
      rfl

theorem parse_frames_no_fault (d : Bytes) :
    parseFramesC Gen.H2.maxFrameSize d.length d = .ok (parseFrames d) :=
  parse_frames_fuel_no_fault _ _ _

private theorem preface_le {data : Bytes} (h : hasPreface data = true) : preface.length ≤ data.length :=
  (List.isPrefixOf_iff_prefix.mp h).length_le

/-- **`parse_frames_skip_preface`** — `&data[start..]` -/
theorem parse_frames_skip_preface_no_fault (data : Bytes) :
    parseFramesSkipPrefaceC data = .ok (parseFramesSkipPreface data) := by
  unfold parseFramesSkipPrefaceC parseFramesSkipPreface prefaceLen
  by_cases h : hasPreface data = true
  · simp only [h, if_true, from_ok data _ (preface_le h), ok_bind, parse_frames_no_fault]
    rfl
  · have h' : hasPreface data = false := by simpa using h
    have h0 : from_ data 0 = .ok data := by simp [from_]
    simp only [h', Bool.false_eq_true, if_false, h0, ok_bind, parse_frames_no_fault, List.drop_zero, Nat.zero_add]
    rfl

/-- **`parse_request`** — `&data[HTTP2_CONNECTION_PREFACE.len()..]` behind `has_http2_preface` -/
theorem request_frames_no_fault (data : Bytes) :
    requestFramesC data = .ok (if hasPreface data then some (parseFrames (data.drop preface.length)) else none) := by
  unfold requestFramesC
  by_cases h : hasPreface data = true
  · simp only [h, Bool.not_true, Bool.false_eq_true, if_false, if_true, from_ok data _ (preface_le h), ok_bind,
      parse_frames_no_fault]
    rfl
  · have h' : hasPreface data = false := by simpa using h
    simp [h']

/-- the frames never account for more octets than the input has: `Iterator::sum` over
`total_size()` in `parse_frames_with_offset` / `calculate_frames_bytes_consumed` cannot overflow -/
theorem consumed_bounded (d : Bytes) : consumed (parseFrames d) ≤ d.length := consumed_le _ d

/-- **`extract_settings`** — `chunk[0]` … `chunk[5]` for the chunks of `chunks_exact(6)` -/
theorem settings_chunks_no_fault : ∀ payload : Bytes,
    settingsOfPayloadC payload = .ok (parseSettingsPayload payload) := by
  intro payload
  generalize hn : payload.length = n
  induction n using Nat.strongRecOn generalizing payload with
  | _ n ih =>
    rcases payload with _ | ⟨a, _ | ⟨b, _ | ⟨c, _ | ⟨d, _ | ⟨e, _ | ⟨f, rest⟩⟩⟩⟩⟩⟩
    all_goals try (simp [settingsOfPayloadC, chunksExact6, parseSettingsPayload]; done)
    have ihr := ih rest.length (by simp only [List.length_cons] at hn; omega) rest rfl
    unfold settingsOfPayloadC at ihr ⊢
    simp only [chunksExact6, List.foldr_cons, ihr, parseSettingsPayload]
    simp [settingOfChunkC, idx8]

private theorem findIdx_spec {α} (p : α → Bool) : ∀ (l : List α) (i : Nat), l.findIdx? p = some i →
    ∃ x, l[i]? = some x ∧ p x = true := by
  intro l
  induction l with
  | nil => intro i h; simp at h
  | cons a r ih =>
    intro i h
    rw [List.findIdx?_cons] at h
    by_cases ha : p a = true
    · simp only [ha, if_true, Option.some.injEq] at h
      subst h
      exact ⟨a, rfl, ha⟩
    · simp only [ha, if_false, Bool.false_eq_true] at h
      cases hr : r.findIdx? p with
      | none => rw [hr] at h; simp at h
      | some j =>
        rw [hr] at h
        simp only [Option.map_some, Option.some.injEq] at h
        subst h
        obtain ⟨x, hx, hpx⟩ := ih j hr
        exact ⟨x, by simpa using hx, hpx⟩

/-- **`parse_cookies_from_headers`** — `cookie_str[..eq_pos]`: `eq_pos` is within the string and, being
the position of an ASCII `=`, a char boundary -/
theorem cookie_slice_no_fault (s : Bytes) (pos : Nat) : cookieOfC s pos = .ok (cookieOf s pos) := by
  unfold cookieOfC cookieOf
  cases hf : s.findIdx? (· == 61) with
  | none => rfl
  | some i =>
    obtain ⟨x, hx, hpx⟩ := findIdx_spec _ s i hf
    have hx61 : x = 61 := by simpa using hpx
    have hlt : i < s.length := by
      rcases Nat.lt_or_ge i s.length with h | h
      · exact h
      · rw [List.getElem?_eq_none h] at hx; cases hx
    have hb : isCharBoundary s i = true := by
      unfold isCharBoundary
      rw [hx, hx61]
      simp
    have : strUpTo s i = .ok (s.take i) := by
      unfold strUpTo
      simp [Nat.le_of_lt hlt, hb]
    simp only [this, ok_bind]
    rfl

/-! ### http2_process.rs -/

/-- **`looks_like_http2_response`** — `data[0..3]` behind `data.len() < 9` -/
theorem looks_like_no_fault (data : Bytes) : looksLikeH2ResponseC data = .ok (looksLikeH2Response data) := by
  unfold looksLikeH2ResponseC
  by_cases h9 : data.length < 9
  · simp only [h9, if_true]
    rcases data with _ | ⟨l0, _ | ⟨l1, _ | ⟨l2, _ | ⟨ty, _ | ⟨fl, _ | ⟨s0, _ | ⟨s1, _ | ⟨s2, _ | ⟨s3, rest⟩⟩⟩⟩⟩⟩⟩⟩⟩
    all_goals first | rfl | (exfalso; simp only [List.length_cons] at h9; omega)
  · obtain ⟨l0, l1, l2, ty, fl, s0, s1, s2, s3, rest, rfl⟩ := nine data (by omega)
    obtain ⟨hlen, r3, _⟩ := reads l0 l1 l2 ty fl s0 s1 s2 s3 rest
    simp only [h9, if_false, hlen, r3, ok_bind, looksLikeH2Response, pure_eq]
    by_cases hb : be24 l0 l1 l2 > 16384
    · have : ¬ be24 l0 l1 l2 ≤ 16384 := by omega
      simp [hb, this]
    · have : be24 l0 l1 l2 ≤ 16384 := by omega
      simp [hb, this]

/-- **`can_process_request` / `can_process_response`** — `&data[..data.len().min(20)]`; together they
are `Http2ParserAdapter::can_parse` -/
theorem can_process_no_fault (data : Bytes) :
    (do let r ← canProcessResponseC data; pure (canProcessRequest data || r)) = .ok (h2CanParse data) := by
  unfold canProcessResponseC canProcessRequest h2CanParse
  by_cases h9 : data.length < 9
  · have h24 : data.length < 24 := by omega
    have : ¬ data.length ≥ 9 := by omega
    have : ¬ data.length ≥ 24 := by omega
    simp [h9, h24, *]
  · have hr : range data 0 (min data.length 20) = .ok (data.take 20) := by
      unfold range
      have : 0 ≤ min data.length 20 ∧ min data.length 20 ≤ data.length := ⟨Nat.zero_le _, Nat.min_le_left _ _⟩
      simp only [this, and_self, if_true, List.drop_zero]
      congr 1
      rcases Nat.le_total data.length 20 with h | h
      · rw [Nat.min_eq_left h, List.take_of_length_le (Nat.le_refl _), List.take_of_length_le h]
      · rw [Nat.min_eq_right h]
    have hge : data.length ≥ 9 := by omega
    have e24 : (!decide (data.length < 24)) = decide (data.length ≥ 24) := by
      by_cases h : data.length < 24
      · have : ¬ data.length ≥ 24 := by omega
        simp [h, this]
      · have : data.length ≥ 24 := by omega
        simp [h, this]
    simp only [h9, if_false, hr, ok_bind, looks_like_no_fault, e24]
    by_cases hp : http1Dot.isPrefixOf (lossy (data.take 20)) = true
    · simp [hp, hge]
    · simp [hp, hge]

private theorem satTotal (l0 l1 l2 : UInt8) : satAdd32 9 (be24 l0 l1 l2) = 9 + be24 l0 l1 l2 :=
  sat9 _ (be24_lt l0 l1 l2)

/-- **`has_complete_frames`** — `remaining[0..8]`, `&remaining[frame_total_size..]`: no fault for every
byte string and every fuel; the value is the total model's. -/
theorem has_complete_frames_no_fault : ∀ (fuel : Nat) (d : Bytes),
    hasCompleteFramesC fuel d = .ok (hasCompleteFrames fuel d) := by
  intro fuel
  induction fuel with
  | zero => intro d; rfl
  | succ n ih =>
    intro d
    unfold hasCompleteFramesC hasCompleteFrames
    by_cases h9 : d.length ≥ 9
    · obtain ⟨l0, l1, l2, ty, fl, s0, s1, s2, s3, rest, rfl⟩ := nine d h9
      obtain ⟨hlen, r3, r4, r5, r6, r7, r8, hsl⟩ := reads l0 l1 l2 ty fl s0 s1 s2 s3 rest
      have hL : (l0 :: l1 :: l2 :: ty :: fl :: s0 :: s1 :: s2 :: s3 :: rest).length = rest.length + 9 := by simp
      have hl := be24_lt l0 l1 l2
      have hbig : ¬ be24 l0 l1 l2 > 16777216 := by omega
      have h9r : rest.length + 9 ≥ 9 := by omega
      simp only [h9, if_true, hasCompleteStepC, hlen, r3, r4, r5, r6, r7, r8, ok_bind, satTotal, parseOne, hL]
      by_cases hinc : rest.length < be24 l0 l1 l2
      · have : rest.length + 9 < 9 + be24 l0 l1 l2 := by omega
        simp only [hinc, this, h9r, if_true, pure_eq, ok_bind]
      · have h1 : ¬ rest.length + 9 < 9 + be24 l0 l1 l2 := by omega
        obtain ⟨_, hf⟩ := hsl (be24 l0 l1 l2) (by omega)
        simp only [hinc, h1, if_false, hbig, hf, h9r, if_true]
        by_cases hh : (ty == 1 && decide (be32 (s0 &&& 0x7f) s1 s2 s3 > 0)) = true
        · simp only [hh, if_true, pure_eq, ok_bind]
        · simp only [hh, if_false, pure_eq, ok_bind, Bool.false_eq_true, ih]
    · have h9' : d.length < 9 := by omega
      simp only [h9, if_false, short_none h9', pure_eq]

/-- every iteration of `has_complete_frames` that continues consumes at least 9 octets -/
theorem has_complete_frames_progress {d : Bytes} {f : Frame} {rest : Bytes}
    (h : parseOne 16777216 d = some (f, rest)) : rest.length + 9 ≤ d.length :=
  parse_frames_progress h

/-- **`has_complete_data`** — `&data[PREFACE.len()..]` behind `starts_with` -/
theorem has_complete_data_no_fault (data : Bytes) : ∃ r, hasCompleteDataC data = .ok r := by
  unfold hasCompleteDataC
  by_cases h : hasPreface data = true
  · simp only [h, if_true, from_ok data _ (preface_le h), ok_bind, has_complete_frames_no_fault]
    exact ⟨_, rfl⟩
  · simp only [h, if_false, has_complete_frames_no_fault]
    exact ⟨_, rfl⟩

/-! ### akamai_extractor.rs -/

/-- **`parse_window_update_payload`** — `payload[0..3]` behind `payload.len() < 4` -/
theorem window_update_no_fault (payload : Bytes) : parseWindowUpdateC payload = .ok (parseWindowUpdate payload) := by
  unfold parseWindowUpdateC
  rcases payload with _ | ⟨a, _ | ⟨b, _ | ⟨c, _ | ⟨d, r⟩⟩⟩⟩ <;> simp [parseWindowUpdate, idx8]

/-- **`parse_priority_payload`** — `payload[0..4]` behind `payload.len() < 5` -/
theorem priority_no_fault (sid : Nat) (payload : Bytes) : parsePriorityC sid payload = .ok (parsePriority sid payload) := by
  unfold parsePriorityC
  rcases payload with _ | ⟨a, _ | ⟨b, _ | ⟨c, _ | ⟨d, _ | ⟨w, r⟩⟩⟩⟩⟩ <;> simp [parsePriority, idx8]

private theorem findIdx_drop (p : Frame → Bool) : ∀ (l : List Frame),
    (match l.findIdx? p with
     | some i => i ≤ l.length ∧ l.drop i = l.dropWhile (fun f => !p f)
     | none => l.dropWhile (fun f => !p f) = []) := by
  intro l
  induction l with
  | nil => simp
  | cons a r ih =>
    rw [List.findIdx?_cons]
    by_cases ha : p a = true
    · simp [ha, List.dropWhile]
    · have ha' : p a = false := by simpa using ha
      simp only [ha', Bool.false_eq_true, if_false]
      cases hr : r.findIdx? p with
      | none => rw [hr] at ih; simp [List.dropWhile, ha', ih]
      | some j =>
        rw [hr] at ih
        simp only [Option.map_some]
        refine ⟨by simp only [List.length_cons]; omega, ?_⟩
        simp [List.dropWhile, ha', ih.2]

/-- **`extract_pseudo_header_order`** — `&frames[i..]` with `i` from `position(..)`: in range for every
frame list; the slice is what the model hands to `header_block` -/
theorem header_frames_no_fault (frames : List Frame) :
    ∃ r, headerFramesC frames = .ok r ∧
      r.getD [] = frames.dropWhile (fun f => !(f.ty == tyHeaders && f.sid > 0)) := by
  unfold headerFramesC
  have := findIdx_drop (fun f => f.ty == tyHeaders && f.sid > 0) frames
  cases hf : frames.findIdx? (fun f => f.ty == tyHeaders && f.sid > 0) with
  | none =>
    rw [hf] at this
    exact ⟨none, rfl, by simp only [Option.getD_none]; exact this.symm⟩
  | some i =>
    rw [hf] at this
    refine ⟨some (frames.drop i), ?_, by simp only [Option.getD_some]; exact this.2⟩
    simp [framesFrom, this.1]

/-! ### http2_fingerprint_extractor.rs -/

/-- **`Http2FingerprintExtractor::add_bytes`** — `&self.buffer[start_offset..]`: no fault for *every*
extractor state (in particular every state reachable from `new()`), every chunk, every HPACK; the
result is the model's step. -/
theorem add_bytes_no_fault (H : Hpack) (s : Extractor) (data : Bytes) :
    addBytesC H s data = .ok (s.addBytes H data) := by
  unfold addBytesC Extractor.addBytes
  by_cases hs : s.fingerprint.isSome = true
  · simp [hs]
  · simp only [hs, Bool.false_eq_true, if_false]
    have hstart : (if hasPreface (s.buffer ++ data) = true then preface.length else 0) ≤ (s.buffer ++ data).length := by
      split
      · rename_i h; exact preface_le h
      · omega
    generalize (if hasPreface (s.buffer ++ data) = true then preface.length else 0) = start at *
    simp only [from_ok _ _ hstart, ok_bind, parse_frames_no_fault]
    by_cases hlen : ((s.buffer ++ data).drop start).length ≥ 9
    · simp only [hlen, if_true, ok_bind]
      cases (parseFrames ((s.buffer ++ data).drop start)).isEmpty
      · simp only [Bool.false_eq_true, if_false]
        cases extractAkamai H (parseFrames ((s.buffer ++ data).drop start)) <;> rfl
      · rfl
    · simp only [hlen, if_false]
      rfl

/-- … hence every chunk sequence through one extractor, from every state — in particular from
`new()` — runs without a fault and produces the outputs of the total model. -/
theorem extractor_run_no_fault (H : Hpack) : ∀ (chunks : List Bytes) (s : Extractor),
    runC H s chunks = .ok (Extractor.run H s chunks) := by
  intro chunks
  induction chunks with
  | nil => intro _; rfl
  | cons c cs ih =>
    intro s
    simp only [runC, Extractor.run, add_bytes_no_fault, ok_bind, ih, pure_eq]

/-! concrete instances (the checked runs really are `.ok` of non-trivial values) -/
example : parseFramesC Gen.H2.maxFrameSize 21 [0, 0, 12, 4, 0, 0, 0, 0, 0, 0, 1, 0, 1, 0, 0, 0, 4, 0, 2, 0, 0] =
    .ok [{ ty := 4, flags := 0, sid := 0, payload := [0, 1, 0, 1, 0, 0, 0, 4, 0, 2, 0, 0] }] := by decide
example : hasCompleteFramesC 13 [0, 0, 0, 4, 0, 0, 0, 0, 0, 0, 0, 0, 1] = .ok false ∧
    hasCompleteFramesC 11 [0, 0, 2, 1, 4, 0, 0, 0, 1, 0x82, 0x84] = .ok true := by decide
example : cookieOfC [97, 61, 98] 0 = .ok { name := [97], value := some [98], position := 0 } := by decide

/-- `Http2FingerprintExtractor::new`: `Vec::with_capacity(64 * 1024)` — the product of two literals
fits `usize` on every supported target (≥ 32 bit), so the constant expression cannot overflow. -/
theorem extractor_new_capacity_fits : 64 * 1024 < 2 ^ 32 := by decide

end Huginn.Props.C01H2
