import Huginn.Lemmas.Pool
import Huginn.Props.C07
set_option linter.unusedSimpArgs false
set_option linter.unusedSectionVars false
/-
C10 — parallel mode is observationally equivalent to sequential mode.

C10 = FIFO queues + per-worker sequential analysis (pool invariants, every schedule)
    + dispatch affinity (C18: the worker is a function of the connection identity)
    + isolation (C07: a local analyzer's outputs for a class of connections do not depend on the rest).
-/
namespace Huginn.Props.C10
open Huginn.Pool

variable {S Pkt Out : Type}

/-- The packets of the `dispatch` steps of a schedule, in order (for one dispatcher thread: the trace). -/
def dispatchesOf : List (Step Pkt) → List Pkt
  | [] => []
  | .dispatch p :: r => p :: dispatchesOf r
  | _ :: r => dispatchesOf r

/-- The analyzer run by the workers is *isolated at worker granularity* on a trace: what it reports
for the packets routed to worker `w` does not depend on the packets routed elsewhere. -/
def WorkerIsolatedOn (W : Worker S Pkt Out) (route : Pkt → Option Nat) (tr : List Pkt) : Prop :=
  ∀ w, seqOuts W W.init (tr.filter (fun p => decide (route p = some w))) =
        (seqOuts W W.init tr).filter (fun po => decide (route po.1 = some w))

/-! ### dispatch order is recorded faithfully -/

private theorem outcomes_step (C : Cfg Pkt) (W : Worker S Pkt Out) (s : State S Pkt Out) (a : Step Pkt) :
    (step C W s a).outcomes.map (·.1) = s.outcomes.map (·.1) ++ dispatchesOf [a] := by
  cases a with
  | dispatch p =>
    cases hr : C.route p with
    | none => rw [step_dispatch_none C W s p hr]; simp [dispatchesOf]
    | some w =>
      by_cases hq : (s.queue w).length < C.qcap
      · rw [step_dispatch_queued C W s p w hr hq]; simp [dispatchesOf]
      · rw [step_dispatch_full C W s p w hr hq]; simp [dispatchesOf]
  | incD =>
    rw [step_incD]
    by_cases hp : s.pendD = 0
    · rw [if_pos hp]; simp [dispatchesOf]
    · rw [if_neg hp]; simp [dispatchesOf]
  | incX =>
    rw [step_incX]
    by_cases hp : s.pendX = 0
    · rw [if_pos hp]; simp [dispatchesOf]
    · rw [if_neg hp]; simp [dispatchesOf]
  | incW w =>
    rw [step_incW]
    by_cases hp : s.pendW w = 0
    · rw [if_pos hp]; simp [dispatchesOf]
    · rw [if_neg hp]; simp [dispatchesOf]
  | work w =>
    cases hq : s.queue w with
    | nil => rw [step_work_nil C W s w hq]; simp [dispatchesOf]
    | cons p rest =>
      cases hr : (W.step (s.wst w) p).2 with
      | some o => rw [step_work_some C W s w p rest o hq hr]; simp [dispatchesOf]
      | none => rw [step_work_err C W s w p rest hq hr]; simp [dispatchesOf]

private theorem dispatchesOf_cons (a : Step Pkt) (as : List (Step Pkt)) :
    dispatchesOf (a :: as) = dispatchesOf [a] ++ dispatchesOf as := by
  cases a <;> simp [dispatchesOf]

theorem outcomes_order (C : Cfg Pkt) (W : Worker S Pkt Out) (sched : List (Step Pkt)) (s : State S Pkt Out) :
    (run C W s sched).outcomes.map (·.1) = s.outcomes.map (·.1) ++ dispatchesOf sched := by
  induction sched generalizing s with
  | nil => simp [run, dispatchesOf]
  | cons a as ih =>
    rw [run, ih, outcomes_step, dispatchesOf_cons a as, List.append_assoc]

/-- With no drops, the packets queued for worker `w` are exactly the dispatched packets routed to `w`. -/
private theorem queuedAt_eq_filter (C : Cfg Pkt) (s : State S Pkt Out) (hr : InvRoute C s)
    (hall : ∀ x ∈ s.outcomes, ∃ w, x.2 = .queued w) (w : Nat) :
    queuedAt s w = (s.outcomes.map (·.1)).filter (fun p => decide (C.route p = some w)) := by
  unfold queuedAt
  have : ∀ l : List (Pkt × Outcome), (∀ x ∈ l, match x.2 with
        | .queued w => C.route x.1 = some w
        | .droppedFull w => C.route x.1 = some w
        | .droppedUnroutable => C.route x.1 = none) → (∀ x ∈ l, ∃ w, x.2 = .queued w) →
      l.filterMap (fun x => if x.2 = .queued w then some x.1 else none) =
        (l.map (·.1)).filter (fun p => decide (C.route p = some w)) := by
    intro l
    induction l with
    | nil => intro _ _; rfl
    | cons x l ih =>
      intro h1 h2
      obtain ⟨w', hw'⟩ := h2 x (List.mem_cons_self ..)
      have hx := h1 x (List.mem_cons_self ..)
      rw [hw'] at hx
      have ih' := ih (fun y hy => h1 y (List.mem_cons_of_mem _ hy)) (fun y hy => h2 y (List.mem_cons_of_mem _ hy))
      by_cases hww : w' = w
      · subst hww
        simp [List.filterMap_cons, hw', hx, ih']
      · have hne : ¬ (Outcome.queued w' = Outcome.queued w) := by
          intro h; injection h with h; exact hww h
        have hne2 : ¬ (C.route x.1 = some w) := by rw [hx]; intro h; injection h with h; exact hww h
        simp [List.filterMap_cons, hw', hne, hne2, ih']
  exact this s.outcomes hr hall

/-- **C10 (per worker).** Every schedule that runs to quiescence without a queue overflow delivers,
from each worker, exactly the sequential analyzer's results for the packets routed to that worker,
in the sequential order — given that the analyzer is isolated at worker granularity on the trace. -/
theorem pool_eq_seq_per_worker (C : Cfg Pkt) (W : Worker S Pkt Out) (sched : List (Step Pkt))
    (s : State S Pkt Out) (hs : s = run C W (init W) sched) (hq : Quiescent C s)
    (hnodrop : ∀ x ∈ s.outcomes, ∃ w, x.2 = .queued w)
    (hiso : WorkerIsolatedOn W C.route (dispatchesOf sched)) (w : Nat) :
    (s.results.filter (fun r => decide (r.1 = w))).map (·.2) =
      (seqOuts W W.init (dispatchesOf sched)).filter (fun po => decide (C.route po.1 = some w)) := by
  subst hs
  obtain ⟨⟨_, _, _⟩, iq, iw⟩ := inv_reachable C W sched
  have hproc : (run C W (init W) sched).processed w = queuedAt (run C W (init W) sched) w := by
    have := iq w
    rw [hq.2.2.2 w, List.append_nil] at this
    exact this
  have hord := outcomes_order C W sched (init W)
  simp only [init, List.map_nil, List.nil_append] at hord
  rw [(iw w).1, hproc, queuedAt_eq_filter C _ (invRoute_reachable C W sched) hnodrop w]
  rw [show (init W) = (init W) from rfl] at *
  have : (run C W (init W) sched).outcomes.map (·.1) = dispatchesOf sched := hord
  rw [this]
  exact hiso w

/-- **C10 (per connection).** The results of any one connection (any set of packets that the
dispatcher routes to a single worker) come out in the sequential order. -/
theorem per_connection_order (C : Cfg Pkt) (W : Worker S Pkt Out) (sched : List (Step Pkt))
    (s : State S Pkt Out) (hs : s = run C W (init W) sched) (hq : Quiescent C s)
    (hnodrop : ∀ x ∈ s.outcomes, ∃ w, x.2 = .queued w)
    (hiso : WorkerIsolatedOn W C.route (dispatchesOf sched))
    (inConn : Pkt → Bool) (w : Nat) (haff : ∀ p, inConn p = true → C.route p = some w) :
    ((s.results.filter (fun r => decide (r.1 = w))).map (·.2)).filter (fun po => inConn po.1) =
      (seqOuts W W.init (dispatchesOf sched)).filter (fun po => inConn po.1) := by
  rw [pool_eq_seq_per_worker C W sched s hs hq hnodrop hiso w, List.filter_filter]
  apply List.filter_congr
  intro po _
  by_cases h : inConn po.1 = true
  · simp [h, haff po.1 h]
  · simp [h]

/-- packets of a sequential run's outputs come from its input -/
private theorem seqOuts_mem (W : Worker S Pkt Out) (st : S) (ps : List Pkt) :
    ∀ po ∈ seqOuts W st ps, po.1 ∈ ps := by
  induction ps generalizing st with
  | nil => intro po h; simp [seqOuts] at h
  | cons p ps ih =>
    intro po h
    simp only [seqOuts] at h
    cases hr : (W.step st p).2 with
    | none => rw [hr] at h; exact List.mem_cons_of_mem _ (ih _ po h)
    | some o =>
      rw [hr] at h
      rcases List.mem_cons.1 h with h | h
      · subst h; exact List.mem_cons_self ..
      · exact List.mem_cons_of_mem _ (ih _ po h)

/-- **C10 (multiset).** Under the same conditions the results delivered by the pool are, as a
multiset, exactly the results of the sequential analyzer on the trace. -/
theorem pool_eq_seq_multiset [DecidableEq Pkt] [DecidableEq Out]
    (C : Cfg Pkt) (W : Worker S Pkt Out) (sched : List (Step Pkt))
    (s : State S Pkt Out) (hs : s = run C W (init W) sched) (hq : Quiescent C s)
    (hnodrop : ∀ x ∈ s.outcomes, ∃ w, x.2 = .queued w)
    (hroute : ∀ p w, C.route p = some w → w < C.n)
    (hiso : WorkerIsolatedOn W C.route (dispatchesOf sched)) :
    List.Perm (s.results.map (·.2)) (seqOuts W W.init (dispatchesOf sched)) := by
  rw [List.perm_iff_count]
  intro a
  have hper := fun w => pool_eq_seq_per_worker C W sched s hs hq hnodrop hiso w
  subst hs
  have htag := invTag_reachable C W sched
  have hrt := invRoute_reachable C W sched
  have hord := outcomes_order C W sched (init W)
  simp only [init, List.map_nil, List.nil_append] at hord
  -- left: partition the channel by worker tag
  have hL := count_partition (run C W (init W) sched).results (fun r => r.1) (fun r => r.2) C.n
    (fun r hr => hroute _ _ (htag r hr)) a
  -- right: partition the sequential results by the worker their packet is routed to
  have hroutes : ∀ po ∈ seqOuts W W.init (dispatchesOf sched), ∃ w, C.route po.1 = some w := by
    intro po hpo
    have hin : po.1 ∈ dispatchesOf sched := seqOuts_mem W W.init _ po hpo
    have hord' : (run C W (init W) sched).outcomes.map (·.1) = dispatchesOf sched := hord
    rw [← hord'] at hin
    obtain ⟨x, hx, hxe⟩ := List.mem_map.1 hin
    obtain ⟨w, hw⟩ := hnodrop x hx
    have := hrt x hx
    rw [hw] at this
    exact ⟨w, by rw [← hxe]; exact this⟩
  have hR := count_partition (seqOuts W W.init (dispatchesOf sched)) (fun po => (C.route po.1).getD 0) id C.n
    (fun po hpo => by
      obtain ⟨w, hw⟩ := hroutes po hpo
      simp only [hw, Option.getD_some]
      exact hroute _ _ hw) a
  rw [List.map_id] at hR
  rw [hL, hR]
  congr 1
  apply List.map_congr_left
  intro w _
  rw [hper w]
  simp only [List.map_id]
  congr 1
  apply List.filter_congr
  intro po hpo
  obtain ⟨w', hw'⟩ := hroutes po hpo
  simp [hw']

/-! ### bridge to C07: a local flow analyzer is isolated at worker granularity -/

section Bridge
open Huginn.Flow Huginn.Props.C07
variable {κ σ γ ρ Cn : Type} [DecidableEq κ] [DecidableEq Cn]

theorem local_mono {P Q : κ → Prop} (pr : Prog κ σ γ ρ Out) (h : pr.Local P) (hpq : ∀ k, P k → Q k) :
    pr.Local Q := by
  induction h with
  | ret o => exact .ret o
  | get k cont hk _ ih => exact .get k cont (hpq k hk) ih
  | insert k v ttl cont hk _ ih => exact .insert k v ttl cont (hpq k hk) ih
  | set k v cont hk _ ih => exact .set k v cont (hpq k hk) ih
  | remove k cont hk _ ih => exact .remove k cont (hpq k hk) ih
  | glob f cont hf _ ih => exact .glob f cont hf ih

/-- The pool worker that runs a flow analyzer (every packet yields one output). -/
def workerOf (A : Analyzer κ σ γ ρ Pkt Out) (cap : Nat) (g : γ) : Worker (TtlMap κ σ × γ) Pkt Out :=
  { init := ({ cap := cap }, g), step := fun s p => ((A.step s p).1, some (A.step s p).2) }

theorem seqOuts_workerOf (A : Analyzer κ σ γ ρ Pkt Out) (cap : Nat) (g : γ) (s : TtlMap κ σ × γ)
    (tr : List Pkt) : seqOuts (workerOf A cap g) s tr = A.runOuts s tr := by
  induction tr generalizing s with
  | nil => rfl
  | cons p tr ih =>
    have := ih (A.step s p).1
    simp only [seqOuts, Analyzer.runOuts]
    simp only [workerOf] at this ⊢
    rw [this]

/-- If every packet's program is local to its connection and the dispatcher's routing is a function
of the connection identity (C18 affinity), the analyzer is isolated at worker granularity on every
trace that stays within capacity. -/
theorem workerIsolated_of_local (A : Analyzer κ σ γ ρ Pkt Out) (owner : κ → Cn) (conn : Pkt → Cn)
    (hloc : ∀ p, (A.prog p).Local (fun k => owner k = conn p))
    (wc : Cn → Option Nat) (route : Pkt → Option Nat) (haff : ∀ p, route p = wc (conn p))
    (cap : Nat) (g : γ) (tr : List Pkt) (hne : NoEvict A ({ cap := cap }, g) tr) :
    WorkerIsolatedOn (workerOf A cap g) route tr := by
  intro w
  rw [seqOuts_workerOf, seqOuts_workerOf]
  have hloc' : ∀ p, (A.prog p).Local (fun k => wc (owner k) = route p) := by
    intro p
    refine local_mono _ (hloc p) (fun k hk => ?_)
    rw [haff p, hk]
  have := isolation_fresh A (fun k => wc (owner k)) route hloc' (some w) tr cap g hne
  exact this.symm

/-! ### the three pools (instances; the hypotheses are met by the models of C07 and C18) -/

open Huginn.FlowProgs

/-- TLS pool: routing is a function of the directed 4-tuple. -/
theorem tls_pool_eq_seq {R Sg : Type} (P : TlsParams R Sg) (hash : FlowKey → Nat) (n qcap cap : Nat)
    (ac ec : Bool) (sched : List (Step Seg)) (s : State (TtlMap FlowKey R × Unit) Seg (Option Sg))
    (hs : s = run ⟨n, qcap, fun p => some (hash (flowKeyOf p) % n), ac, ec⟩ (workerOf (tlsAnalyzer P) cap ())
      (init (workerOf (tlsAnalyzer P) cap ())) sched)
    (hq : Quiescent ⟨n, qcap, fun p => some (hash (flowKeyOf p) % n), ac, ec⟩ s)
    (hnodrop : ∀ x ∈ s.outcomes, ∃ w, x.2 = .queued w)
    (hne : NoEvict (tlsAnalyzer P) ({ cap := cap }, ()) (dispatchesOf sched)) (w : Nat) :
    (s.results.filter (fun r => decide (r.1 = w))).map (·.2) =
      ((tlsAnalyzer P).runOuts ({ cap := cap }, ()) (dispatchesOf sched)).filter
        (fun po => decide (some (hash (flowKeyOf po.1) % n) = some w)) := by
  have hiso := workerIsolated_of_local (tlsAnalyzer P) (fun k => k) flowKeyOf (fun p => tls_local P p)
    (fun k => some (hash k % n)) (fun p => some (hash (flowKeyOf p) % n)) (fun _ => rfl) cap () _ hne
  have := pool_eq_seq_per_worker _ _ sched s hs hq hnodrop hiso w
  rw [this, seqOuts_workerOf]
  rfl

/-- HTTP pool: routing is a function of the *unordered* endpoint pair (both directions together). -/
theorem http_pool_eq_seq {γ Q P : Type} (H : HttpParams γ Q P) (hst : Stateless H) (g : γ)
    (hash : Ep × Ep → Nat) (n qcap cap : Nat) (ac ec : Bool) (sched : List (Step Seg))
    (s : State (TtlMap FlowKey TcpFlow × γ) Seg (HttpOut Q P))
    (hs : s = run ⟨n, qcap, fun p => some (hash (httpConnOf p) % n), ac, ec⟩ (workerOf (httpAnalyzer H) cap g)
      (init (workerOf (httpAnalyzer H) cap g)) sched)
    (hq : Quiescent ⟨n, qcap, fun p => some (hash (httpConnOf p) % n), ac, ec⟩ s)
    (hnodrop : ∀ x ∈ s.outcomes, ∃ w, x.2 = .queued w)
    (hne : NoEvict (httpAnalyzer H) ({ cap := cap }, g) (dispatchesOf sched)) (w : Nat) :
    (s.results.filter (fun r => decide (r.1 = w))).map (·.2) =
      ((httpAnalyzer H).runOuts ({ cap := cap }, g) (dispatchesOf sched)).filter
        (fun po => decide (some (hash (httpConnOf po.1) % n) = some w)) := by
  have hiso := workerIsolated_of_local (httpAnalyzer H) httpConnOfKey httpConnOf (fun p => http_local H hst p)
    (fun c => some (hash c % n)) (fun p => some (hash (httpConnOf p) % n)) (fun _ => rfl) cap g _ hne
  have := pool_eq_seq_per_worker _ _ sched s hs hq hnodrop hiso w
  rw [this, seqOuts_workerOf]
  rfl

/-- TCP pool: routing is a function of the sender's address; each tracker entry belongs to one sender. -/
theorem tcp_pool_eq_seq {U : Type} (P : UptimeParams U) (fc : Seg → Bool) (hash : Nat → Nat)
    (n qcap cap : Nat) (ac ec : Bool) (sched : List (Step Seg))
    (s : State (TtlMap TcpKey TsEntry × Unit) Seg (UptimeOut U))
    (hs : s = run ⟨n, qcap, fun p => some (hash p.src.addr % n), ac, ec⟩ (workerOf (tcpAnalyzer P fc) cap ())
      (init (workerOf (tcpAnalyzer P fc) cap ())) sched)
    (hq : Quiescent ⟨n, qcap, fun p => some (hash p.src.addr % n), ac, ec⟩ s)
    (hnodrop : ∀ x ∈ s.outcomes, ∃ w, x.2 = .queued w)
    (hne : NoEvict (tcpAnalyzer P fc) ({ cap := cap }, ()) (dispatchesOf sched)) (w : Nat) :
    (s.results.filter (fun r => decide (r.1 = w))).map (·.2) =
      ((tcpAnalyzer P fc).runOuts ({ cap := cap }, ()) (dispatchesOf sched)).filter
        (fun po => decide (some (hash po.1.src.addr % n) = some w)) := by
  have hiso := workerIsolated_of_local (tcpAnalyzer P fc) (fun k => k) (tcpKeyOf fc) (fun p => tcp_local P fc p)
    (fun k => some (hash k.src.addr % n)) (fun p => some (hash p.src.addr % n)) (fun _ => rfl) cap () _ hne
  have := pool_eq_seq_per_worker _ _ sched s hs hq hnodrop hiso w
  rw [this, seqOuts_workerOf]
  rfl

end Bridge

end Huginn.Props.C10

namespace Huginn.Props.C10
open Huginn.Pool

/-! ### non-vacuity: a stateless analyzer is isolated on every trace, and a concrete two-worker run reaches
quiescence without drops and delivers the sequential results -/

def echoW : Worker Unit Nat Nat := { init := (), step := fun s p => (s, some (p * 10)) }

private theorem echo_seq (tr : List Nat) : seqOuts echoW () tr = tr.map (fun p => (p, p * 10)) := by
  induction tr with
  | nil => rfl
  | cons p tr ih =>
    simp only [seqOuts, List.map_cons]
    show (p, p * 10) :: seqOuts echoW () tr = _
    rw [ih]

example (route : Nat → Option Nat) (tr : List Nat) : WorkerIsolatedOn echoW route tr := by
  intro w
  show seqOuts echoW () _ = (seqOuts echoW () tr).filter _
  rw [echo_seq, echo_seq, List.filter_map]
  rfl

def echoCfg : Cfg Nat := { n := 2, qcap := 4, route := fun p => some (p % 2), attemptCounted := false,
                            errCountsWorkerDropped := false }
def echoSched : List (Step Nat) := [.dispatch 1, .dispatch 2, .dispatch 3, .work 1, .incD, .work 0, .incD, .work 1, .incD]

example : (run echoCfg echoW (init echoW) echoSched).results = [(1, 1, 10), (0, 2, 20), (1, 3, 30)] ∧
    dispatchesOf echoSched = [1, 2, 3] ∧
    (∀ x ∈ (run echoCfg echoW (init echoW) echoSched).outcomes, ∃ w, x.2 = .queued w) := by
  refine ⟨by decide, by decide, ?_⟩
  intro x hx
  have : (run echoCfg echoW (init echoW) echoSched).outcomes = [(1, .queued 1), (2, .queued 0), (3, .queued 1)] := by decide
  rw [this] at hx
  simp at hx
  rcases hx with rfl | rfl | rfl <;> exact ⟨_, rfl⟩

end Huginn.Props.C10
