import Huginn.Props.C10
import Huginn.Props.C07Http
/-
C10 for the HTTP pool at full strength for the repaired code: `http_pool_eq_seq` (Props/C10.lean)
asks for parsers that never write processor state. Each worker owns one `HttpProcessors` whose
HPACK decoder object is rewritten by every parse; under `ResultIndep` (no result depends on the
state found, Props/C07Http.lean) the worker analyzer is observationally equal to a local one, so it
is isolated at worker granularity and the pool theorem applies.
-/
namespace Huginn.Props.C10
open Huginn.Flow Huginn.FlowProgs Huginn.Pool Huginn.Props.C07

theorem http_pool_eq_seq_full {γ Q P : Type} (H : HttpParams γ Q P) (hri : ResultIndep H) (g : γ)
    (hash : Ep × Ep → Nat) (n qcap cap : Nat) (ac ec : Bool) (sched : List (Step Seg))
    (s : State (TtlMap FlowKey TcpFlow × γ) Seg (HttpOut Q P))
    (hs : s = run ⟨n, qcap, fun p => some (hash (httpConnOf p) % n), ac, ec⟩ (workerOf (httpAnalyzer H) cap g)
      (init (workerOf (httpAnalyzer H) cap g)) sched)
    (hq : Quiescent ⟨n, qcap, fun p => some (hash (httpConnOf p) % n), ac, ec⟩ s)
    (hnodrop : ∀ x ∈ s.outcomes, ∃ w, x.2 = .queued w)
    (hne : NoEvict (httpAnalyzer H) ({ cap := cap }, g) (dispatchesOf sched)) (w : Nat) :
    (s.results.filter (fun r => decide (r.1 = w))).map (·.2) =
      ((httpAnalyzer H).runOuts ({ cap := cap }, g) (dispatchesOf sched)).filter
        (fun po => decide (some (hash (httpConnOf po.1) % n) = some w)) := by
  have hiso : WorkerIsolatedOn (workerOf (httpAnalyzer H) cap g)
      (fun p => some (hash (httpConnOf p) % n)) (dispatchesOf sched) := by
    intro w
    rw [seqOuts_workerOf, seqOuts_workerOf]
    have hloc' : ∀ p, ((httpAnalyzer (H.pure g)).prog p).Local
        (fun k => some (hash (httpConnOfKey k) % n) = some (hash (httpConnOf p) % n)) := by
      intro p
      refine local_mono _ (http_local (H.pure g) (pure_stateless H g) p) (fun k hk => ?_)
      rw [hk]
    exact (isolation_fresh_sim (httpAnalyzer H) (httpAnalyzer (H.pure g)) (fun _ => rfl)
      (fun p => httpProg_sim H hri g p) (fun k => some (hash (httpConnOfKey k) % n))
      (fun p => some (hash (httpConnOf p) % n)) hloc' (some w) _ cap g hne).symm
  have := pool_eq_seq_per_worker _ _ sched s hs hq hnodrop hiso w
  rw [this, seqOuts_workerOf]
  rfl

end Huginn.Props.C10
