import Huginn.Props.C08Bridge
import Huginn.Lemmas.Flow
set_option linter.unusedSimpArgs false
/-
Packet-level bridge: the TLS cache program `FlowProgs.tlsProg` (on the `TtlMap` model of TtlCache
with expiry, the object of C07 isolation / C10 pool / C11 bounds / C01 no-poisoning) and
`Tls.processTcp` (on the expiry-free `Flows`, the object of C08's flow_* theorems) compute the same
table and the same result for every packet, as long as no entry of the table is expired at the
packet's arrival time — C08's recorded assumption. Lifted to packet histories whose arrival times
stay within one TTL window.
-/
namespace Huginn.Props.C08Bridge
open Huginn.Tls Huginn.FlowProgs Huginn.Flow

variable {σ : Type}

/-- Entry-wise correspondence of the two tables (expiry instants are extra data on the left). -/
inductive RelL : List (Entry FlowKey FlowProgs.Reader) → List (FlowKey × Huginn.Tls.Reader σ) → Prop
  | nil : RelL [] []
  | cons (e : Entry FlowKey FlowProgs.Reader) (k : FlowKey) (r : Huginn.Tls.Reader σ) (es fs) :
      e.key = k → e.val = toReader r → RelL es fs → RelL (e :: es) ((k, r) :: fs)

structure Rel (m : TtlMap FlowKey FlowProgs.Reader) (f : Flows FlowKey σ) : Prop where
  cap : m.cap = f.cap
  es : RelL m.es f.entries

/-- No entry is expired at `now`. -/
def Live (m : TtlMap FlowKey FlowProgs.Reader) (now : Nat) : Prop := ∀ e ∈ m.es, ¬ now > e.exp

theorem RelL.length {es} {fs : List (FlowKey × Huginn.Tls.Reader σ)} (h : RelL es fs) :
    es.length = fs.length := by
  induction h with
  | nil => rfl
  | cons _ _ _ _ _ _ _ _ ih => simp [ih]

theorem RelL.filter {es} {fs : List (FlowKey × Huginn.Tls.Reader σ)} (h : RelL es fs) (k : FlowKey) :
    RelL (es.filter (fun e => e.key ≠ k)) (fs.filter (fun e => e.1 ≠ k)) := by
  induction h with
  | nil => exact .nil
  | cons e k' r es fs hk hv _ ih =>
    simp only [List.filter_cons]
    by_cases hkk : k' = k
    · have : e.key = k := hk.trans hkk
      simpa [this, hkk] using ih
    · have : e.key ≠ k := by rw [hk]; exact hkk
      simp only [ne_eq, this, not_false_eq_true, decide_true, if_true, hkk]
      exact .cons e k' r _ _ hk hv ih

theorem RelL.append {es es'} {fs fs' : List (FlowKey × Huginn.Tls.Reader σ)} (h : RelL es fs)
    (h' : RelL es' fs') : RelL (es ++ es') (fs ++ fs') := by
  induction h with
  | nil => exact h'
  | cons e k r es fs hk hv _ ih => exact .cons e k r _ _ hk hv ih

theorem RelL.drop1 {es} {fs : List (FlowKey × Huginn.Tls.Reader σ)} (h : RelL es fs) :
    RelL (es.drop 1) (fs.drop 1) := by
  cases h with
  | nil => exact .nil
  | cons e k r es fs hk hv h => exact h

theorem RelL.find {es} {fs : List (FlowKey × Huginn.Tls.Reader σ)} (h : RelL es fs) (k : FlowKey) :
    (es.find? (fun e => e.key = k)).map (·.val) = (fs.lookup k).map toReader := by
  induction h with
  | nil => rfl
  | cons e k' r es fs hk hv _ ih =>
    by_cases hkk : k = k'
    · subst hkk
      simp [List.find?_cons, List.lookup_cons, hk, hv]
    · have h1 : ¬ e.key = k := by rw [hk]; exact fun h => hkk h.symm
      have h2 : (k == k') = false := by simpa using hkk
      simp only [List.find?_cons, h1, decide_false, List.lookup_cons, h2]
      exact ih

theorem RelL.set {es} {fs : List (FlowKey × Huginn.Tls.Reader σ)} (h : RelL es fs) (k : FlowKey)
    (now : Nat) (hl : ∀ e ∈ es, ¬ now > e.exp) (r : Huginn.Tls.Reader σ) :
    RelL (es.map (fun e => if e.key = k ∧ ¬ now > e.exp then { e with val := toReader r } else e))
      (fs.map (fun e => if e.1 = k then (k, r) else e)) := by
  induction h with
  | nil => exact .nil
  | cons e k' r' es fs hk hv _ ih =>
    have hle := hl e (by simp)
    have ih' := ih (fun e he => hl e (by simp [he]))
    simp only [List.map_cons]
    by_cases hkk : k' = k
    · have : e.key = k := hk.trans hkk
      simp only [this, hle, not_false_eq_true, and_self, if_true, hkk]
      exact .cons _ _ _ _ _ rfl rfl ih'
    · have : ¬ e.key = k := by rw [hk]; exact hkk
      simp only [this, false_and, if_false, hkk]
      exact .cons _ _ _ _ _ hk hv ih'

/-! ### the four table operations -/

theorem rel_get {m} {f : Flows FlowKey σ} (h : Rel m f) (now : Nat) (hl : Live m now) (k : FlowKey) :
    m.get now k = (f.get? k).map toReader := by
  have hf := h.es.find k
  unfold TtlMap.get TtlMap.find? Flows.get?
  cases hfe : m.es.find? (fun e => e.key = k) with
  | none => rw [hfe] at hf; simp only [Option.map_none] at hf; rw [← hf]
  | some e =>
    rw [hfe] at hf
    have hmem : e ∈ m.es := List.mem_of_find?_eq_some hfe
    simp only [hl e hmem, if_false]
    rw [← hf]; rfl

theorem rel_remove {m} {f : Flows FlowKey σ} (h : Rel m f) (k : FlowKey) : Rel (m.remove k) (f.remove k) :=
  ⟨h.cap, h.es.filter k⟩

theorem rel_set {m} {f : Flows FlowKey σ} (h : Rel m f) (now : Nat) (hl : Live m now) (k : FlowKey)
    (r : Huginn.Tls.Reader σ) : Rel (m.set now k (toReader r)) (f.set k r) :=
  ⟨h.cap, h.es.set k now hl r⟩

theorem rel_insert {m} {f : Flows FlowKey σ} (h : Rel m f) (now ttl : Nat) (k : FlowKey)
    (r : Huginn.Tls.Reader σ) : Rel (m.insert now k (toReader r) ttl) (f.insert k r) := by
  have happ : RelL (m.es.filter (fun e => e.key ≠ k) ++ [⟨k, toReader r, now + ttl⟩])
      (f.entries.filter (fun e => e.1 ≠ k) ++ [(k, r)]) :=
    (h.es.filter k).append (.cons _ _ _ _ _ rfl rfl .nil)
  refine ⟨h.cap, ?_⟩
  unfold TtlMap.insert Flows.insert
  simp only
  rw [happ.length, h.cap]
  split
  · exact happ.drop1
  · exact happ

theorem live_remove {m : TtlMap FlowKey FlowProgs.Reader} {now} (hl : Live m now) (k : FlowKey) :
    Live (m.remove k) now := by
  intro e he
  exact hl e (List.mem_filter.1 he).1

theorem live_set {m : TtlMap FlowKey FlowProgs.Reader} {now} (hl : Live m now) (k : FlowKey) (v) :
    Live (m.set now k v) now := by
  intro e he
  simp only [TtlMap.set, List.mem_map] at he
  obtain ⟨e', he', rfl⟩ := he
  split <;> exact hl e' he'

theorem live_insert {m : TtlMap FlowKey FlowProgs.Reader} {now} (hl : Live m now) (k : FlowKey) (v) (ttl : Nat) :
    Live (m.insert now k v ttl) now := by
  have hbase : ∀ e ∈ m.es.filter (fun e => e.key ≠ k) ++ [⟨k, v, now + ttl⟩], ¬ now > e.exp := by
    intro e he
    rcases List.mem_append.1 he with he | he
    · exact hl e (List.mem_filter.1 he).1
    · simp only [List.mem_singleton] at he; subst he; simp
  intro e he
  unfold TtlMap.insert at he
  simp only at he
  split at he
  · exact hbase e (List.mem_of_mem_drop he)
  · exact hbase e he

/-! ### one packet -/

def toPOut : POut σ → Option σ
  | .none => none
  | .sig s => some s
  | .errInsert => none

/-- The TLS analyzer parameters instantiated with the real reader logic and `is_tls_traffic`. -/
def tlsP (parse : Huginn.Tls.Bytes → PR σ) : TlsParams FlowProgs.Reader σ :=
  tlsParamsOf (fun b => toRes (parse b)) isTlsTraffic

private theorem withReader_bridge (parse : Huginn.Tls.Bytes → PR σ) (now : Nat)
    (m : TtlMap FlowKey FlowProgs.Reader) (f1 : Flows FlowKey σ) (h : Rel m f1) (hl : Live m now)
    (k : FlowKey) (payload : Huginn.Tls.Bytes) (rd : Huginn.Tls.Reader σ) (pre : String) :
    let r := (tlsWithReader (tlsP parse) k payload (toReader rd)).run now m ()
    let x := rd.addBytesT parse payload
    let r' : Flows FlowKey σ × POut σ × String := match x.2.1 with
        | .sig s => (f1.remove k, .sig s, pre ++ "/" ++ x.2.2)
        | .none => (f1.set k x.1, .none, pre ++ "/" ++ x.2.2)
        | _ => (f1.remove k, .none, pre ++ "/" ++ x.2.2)
    Rel r.1 r'.1 ∧ Live r.1 now ∧ r.2.2 = toPOut r'.2.1 := by
  have hag := reader_models_agree parse rd payload
  simp only [Reader.addBytes] at hag
  unfold tlsWithReader tlsP tlsParamsOf
  simp only
  rw [hag]
  cases hx : (rd.addBytesT parse payload).2.1 with
  | none =>
    simp only [toOut, Prog.run, toPOut]
    exact ⟨rel_set h now hl k _, live_set hl k _, by trivial⟩
  | sig s =>
    simp only [toOut, Prog.run, toPOut]
    exact ⟨rel_remove h k, live_remove hl k, by trivial⟩
  | errTooLarge =>
    simp only [toOut, Prog.run, toPOut]
    exact ⟨rel_remove h k, live_remove hl k, by trivial⟩
  | errParse =>
    simp only [toOut, Prog.run, toPOut]
    exact ⟨rel_remove h k, live_remove hl k, by trivial⟩

/-- One packet without the SYN reset: `tlsBody` and `processTcp`. -/
theorem tlsBody_step_bridge (parse : Huginn.Tls.Bytes → PR σ) (now : Nat)
    (m : TtlMap FlowKey FlowProgs.Reader) (f : Flows FlowKey σ) (h : Rel m f) (hl : Live m now)
    (s : Seg) :
    Rel ((tlsBody (tlsP parse) s).run now m ()).1 (processTcp parse f ⟨s.src, s.dst⟩ s.payload).1 ∧
    Live ((tlsBody (tlsP parse) s).run now m ()).1 now ∧
    ((tlsBody (tlsP parse) s).run now m ()).2.2 = toPOut (processTcp parse f ⟨s.src, s.dst⟩ s.payload).2 := by
  unfold tlsBody processTcp processTcpT
  simp only
  by_cases he : s.payload.isEmpty = true
  · simp only [he, if_true, Prog.run, toPOut]; exact ⟨h, hl, by trivial⟩
  · simp only [he, Bool.false_eq_true, if_false, Prog.run]
    have hget := rel_get h now hl ⟨s.src, s.dst⟩
    rw [hget]
    cases hf : f.get? ⟨s.src, s.dst⟩ with
    | some rd =>
      have hc : f.contains ⟨s.src, s.dst⟩ = true := by simp [Flows.contains, hf]
      simp only [Option.map_some, Option.isSome_some, Bool.true_or, Bool.not_true, Bool.false_eq_true,
        if_false, hc, if_true, hf, Prog.run, hget]
      exact withReader_bridge parse now m f h hl _ _ rd "cont"
    | none =>
      have hc : f.contains ⟨s.src, s.dst⟩ = false := by simp [Flows.contains, hf]
      simp only [Option.map_none, Option.isSome_none, Bool.false_or, hc, Bool.false_eq_true, if_false]
      have hist : (tlsP parse).isTls s.payload = isTlsTraffic s.payload := rfl
      rw [hist]
      by_cases ht : isTlsTraffic s.payload = true
      · simp only [ht, Bool.not_true, Bool.false_eq_true, if_false, Prog.run, hget, hf, Option.map_none]
        have hnew : (tlsP parse).newReader = toReader ({} : Huginn.Tls.Reader σ) := rfl
        rw [hnew]
        have hri := rel_insert h now (tlsP parse).ttlMs ⟨s.src, s.dst⟩ ({} : Huginn.Tls.Reader σ)
        have hli := live_insert hl ⟨s.src, s.dst⟩ (toReader ({} : Huginn.Tls.Reader σ)) (tlsP parse).ttlMs
        rw [rel_get hri now hli ⟨s.src, s.dst⟩]
        cases hf2 : (f.insert ⟨s.src, s.dst⟩ {}).get? ⟨s.src, s.dst⟩ with
        | some rd =>
          simp only [Option.map_some]
          exact withReader_bridge parse now _ _ hri hli _ _ rd "new"
        | none =>
          simp only [Option.map_none, Prog.run, toPOut]
          exact ⟨hri, hli, by trivial⟩
      · simp only [ht, Bool.not_false, if_true, Prog.run, toPOut]
        exact ⟨h, hl, by trivial⟩

/-- **One packet.** With related tables and nothing expired, `tlsProg` and `processTcpS` (both with the SYN
reset) produce related tables and the same result. -/
theorem tls_step_bridge (parse : Huginn.Tls.Bytes → PR σ) (now : Nat)
    (m : TtlMap FlowKey FlowProgs.Reader) (f : Flows FlowKey σ) (h : Rel m f) (hl : Live m now)
    (s : Seg) :
    Rel ((tlsProg (tlsP parse) s).run now m ()).1 (processTcpS parse f ⟨s.src, s.dst⟩ s.syn s.payload).1 ∧
    Live ((tlsProg (tlsP parse) s).run now m ()).1 now ∧
    ((tlsProg (tlsP parse) s).run now m ()).2.2 =
      toPOut (processTcpS parse f ⟨s.src, s.dst⟩ s.syn s.payload).2 := by
  unfold tlsProg processTcpS
  cases hs : s.syn with
  | true =>
    simp only [if_true, Prog.run]
    exact tlsBody_step_bridge parse now _ _ (rel_remove h _) (live_remove hl _) s
  | false =>
    simp only [Bool.false_eq_true, if_false]
    exact tlsBody_step_bridge parse now m f h hl s

/-! ### packet histories within one TTL window -/

/-- Every `insert` of the program uses the time-to-live `T`. -/
inductive AllTtl {κ σ' γ ρ Out : Type} (T : Nat) : Prog κ σ' γ ρ Out → Prop
  | ret (o) : AllTtl T (.ret o)
  | get (k c) : (∀ r, AllTtl T (c r)) → AllTtl T (.get k c)
  | insert (k v c) : AllTtl T c → AllTtl T (.insert k v T c)
  | set (k v c) : AllTtl T c → AllTtl T (.set k v c)
  | remove (k c) : AllTtl T c → AllTtl T (.remove k c)
  | glob (f c) : (∀ r, AllTtl T (c r)) → AllTtl T (.glob f c)

/-- Entries never expire before `B` if they did not before and every insert happens at an instant
`now` with `B ≤ now + T`. -/
theorem run_exp_lb {κ σ' γ ρ Out : Type} [DecidableEq κ] {T : Nat} (p : Prog κ σ' γ ρ Out)
    (h : AllTtl T p) (now B : Nat) (hB : B ≤ now + T) (m : TtlMap κ σ') (g : γ)
    (hm : ∀ e ∈ m.es, B ≤ e.exp) : ∀ e ∈ (p.run now m g).1.es, B ≤ e.exp := by
  induction h generalizing m g with
  | ret o => exact hm
  | get k c _ ih => exact ih _ m g hm
  | insert k v c _ ih =>
    refine ih (m.insert now k v T) g ?_
    have hbase : ∀ e ∈ m.es.filter (fun e => e.key ≠ k) ++ [⟨k, v, now + T⟩], B ≤ e.exp := by
      intro e he
      rcases List.mem_append.1 he with he | he
      · exact hm e (List.mem_filter.1 he).1
      · simp only [List.mem_singleton] at he; subst he; exact hB
    intro e he
    unfold TtlMap.insert at he
    simp only at he
    split at he
    · exact hbase e (List.mem_of_mem_drop he)
    · exact hbase e he
  | set k v c _ ih =>
    refine ih (m.set now k v) g ?_
    intro e he
    simp only [TtlMap.set, List.mem_map] at he
    obtain ⟨e', he', rfl⟩ := he
    split <;> exact hm e' he'
  | remove k c _ ih =>
    refine ih (m.remove k) g ?_
    intro e he
    exact hm e (List.mem_filter.1 he).1
  | glob f c _ ih => exact ih _ m _ hm

theorem tlsBody_allTtl {R S : Type} (P : TlsParams R S) (s : Seg) : AllTtl P.ttlMs (tlsBody P s) := by
  have hw : ∀ r, AllTtl P.ttlMs (tlsWithReader P ⟨s.src, s.dst⟩ s.payload r) := by
    intro r
    unfold tlsWithReader
    split
    · exact .remove _ _ (.ret _)
    · exact .set _ _ _ (.ret _)
    · exact .remove _ _ (.ret _)
  unfold tlsBody
  simp only
  split
  · exact .ret _
  · refine .get _ _ (fun a => ?_)
    split
    · exact .ret _
    · refine .get _ _ (fun r => ?_)
      cases r with
      | some r => exact hw r
      | none =>
        refine .insert _ _ _ (.get _ _ (fun r => ?_))
        cases r with
        | some r => exact hw r
        | none => exact .ret _

theorem tlsProg_allTtl {R S : Type} (P : TlsParams R S) (s : Seg) : AllTtl P.ttlMs (tlsProg P s) := by
  unfold tlsProg
  split
  · exact .remove _ _ (tlsBody_allTtl P s)
  · exact tlsBody_allTtl P s

/-- **Packet histories.** For every parser, capacity and packet history whose arrival instants lie
within one time-to-live window `[a, a + ttl]` (so that nothing expires — C08's recorded
assumption), the cache-program analyzer reports exactly what `runPacketsS` reports, packet by packet
(`runPacketsS` is `runPackets`, the object of C08's flow theorems, with the SYN reset; the two coincide on
histories in which no SYN meets a stored reader, `runPacketsS_noSyn` / `runPacketsS_headSyn`). -/
theorem tls_trace_bridge (parse : Huginn.Tls.Bytes → PR σ) (a : Nat) (tr : List Seg)
    (hwin : ∀ s ∈ tr, a ≤ s.time ∧ s.time ≤ a + (tlsP parse).ttlMs)
    (m : TtlMap FlowKey FlowProgs.Reader) (f : Flows FlowKey σ) (h : Rel m f)
    (hm : ∀ e ∈ m.es, a + (tlsP parse).ttlMs ≤ e.exp) :
    ((tlsAnalyzer (tlsP parse)).runOuts (m, ()) tr).map (·.2) =
      (runPacketsS parse f (tr.map (fun s => ((⟨s.src, s.dst⟩ : FlowKey), s.syn, s.payload)))).map toPOut := by
  induction tr generalizing m f with
  | nil => rfl
  | cons s tr ih =>
    have hs := hwin s (by simp)
    have hl : Live m s.time := by
      intro e he
      have := hm e he
      omega
    obtain ⟨h1, _, h3⟩ := tls_step_bridge parse s.time m f h hl s
    have hm' := run_exp_lb (tlsProg (tlsP parse) s) (tlsProg_allTtl _ s) s.time
      (a + (tlsP parse).ttlMs) (by omega) m () hm
    have := ih (fun s' hs' => hwin s' (by simp [hs'])) _ _ h1 hm'
    simp only [Analyzer.runOuts, Analyzer.step, tlsAnalyzer, List.map_cons, runPacketsS]
    simp only [tlsAnalyzer] at this
    rw [this, h3]

/-- From a fresh analyzer / an empty cache of the same capacity. -/
theorem tls_trace_bridge_fresh (parse : Huginn.Tls.Bytes → PR σ) (a cap : Nat) (tr : List Seg)
    (hwin : ∀ s ∈ tr, a ≤ s.time ∧ s.time ≤ a + (tlsP parse).ttlMs) :
    ((tlsAnalyzer (tlsP parse)).runOuts ({ cap := cap }, ()) tr).map (·.2) =
      (runPacketsS parse { cap := cap } (tr.map (fun s => ((⟨s.src, s.dst⟩ : FlowKey), s.syn, s.payload)))).map toPOut :=
  tls_trace_bridge parse a tr hwin { cap := cap } { cap := cap } ⟨rfl, .nil⟩ (by intro e he; cases he)

/-- Without SYN segments the reset never fires. -/
theorem runPacketsS_noSyn {κ : Type} [DecidableEq κ] (parse : Huginn.Tls.Bytes → PR σ) (f : Flows κ σ) (ps : List (κ × Bool × Huginn.Tls.Bytes))
    (h : ∀ x ∈ ps, x.2.1 = false) :
    runPacketsS parse f ps = runPackets parse f (ps.map (fun x => (x.1, x.2.2))) := by
  induction ps generalizing f with
  | nil => rfl
  | cons x ps ih =>
    obtain ⟨k, syn, p⟩ := x
    have hx : syn = false := h (k, syn, p) (by simp)
    subst hx
    simp only [runPacketsS, processTcpS, Bool.false_eq_true, if_false, List.map_cons, runPackets]
    rw [ih _ (fun y hy => h y (by simp [hy]))]

/-- A connection that opens with its SYN (alone or carrying data) on a table that does not hold its key:
the reset removes nothing. -/
theorem runPacketsS_headSyn {κ : Type} [DecidableEq κ] (parse : Huginn.Tls.Bytes → PR σ) (f : Flows κ σ) (k : κ) (syn : Bool)
    (p : Huginn.Tls.Bytes) (ps : List (κ × Bool × Huginn.Tls.Bytes))
    (hk : ∀ e ∈ f.entries, e.1 ≠ k) (h : ∀ x ∈ ps, x.2.1 = false) :
    runPacketsS parse f ((k, syn, p) :: ps) = runPackets parse f (((k, syn, p) :: ps).map (fun x => (x.1, x.2.2))) := by
  have hrm : f.remove k = f := by
    unfold Flows.remove
    have : f.entries.filter (fun e => e.1 ≠ k) = f.entries := by
      apply List.filter_eq_self.2
      intro e he; simpa using hk e he
    rw [this]
  simp only [runPacketsS, processTcpS, List.map_cons, runPackets]
  have : (if syn = true then f.remove k else f) = f := by split <;> simp [hrm]
  rw [this, runPacketsS_noSyn parse _ ps h]

end Huginn.Props.C08Bridge
