import Huginn.Spec.Uptime
import Huginn.Lemmas.UptimeGrid
import Huginn.Lemmas.UptimeCache
set_option linter.unusedSimpArgs false
set_option linter.unusedVariables false
/-!
C19 — Uptime estimates are sound for steady clocks and withheld otherwise.
Property theorems only. All statements are about the exact-rational model of `uptime.rs`
(`Model/Uptime.lean`; the float argument is stated there and exercised by the harness).
-/
namespace Huginn.Props.C19
open Huginn.Uptime Huginn.Uptime.Spec Huginn.Gen Huginn.Lemmas.UptimeGrid Huginn.Lemmas.UptimeCache

/-! ### constants the model reads from the regenerated table have the shape the proofs assume -/

theorem gen_shape :
    Uptime.maxFinalHz = (1500, 1) ∧ Uptime.minFinalHz = (1, 1) ∧ Uptime.guessHz1k = (1000, 1) ∧
    Uptime.guessHz100 = (100, 1) ∧ Uptime.guessTolerance = (1, 10) ∧ Uptime.minTwait = 25 ∧
    Uptime.maxTwait = 600000 ∧ Uptime.minTsDiff = 5 ∧ Uptime.freqScale = 1000 := by decide

/-! ### uptime decomposition and wrap period -/

private theorem not_dvd_u32 (f : Nat) : ¬ (f * 86400 ∣ U32) := by
  intro h
  have h3 : 3 ∣ f * 86400 := ⟨f * 28800, by omega⟩
  have := Nat.dvd_trans h3 h
  unfold U32 at this
  omega

/-- `calculate_uptime_from_frequency`: for every timestamp and every positive frequency the report
is the timestamp divided by the frequency, in whole minutes, split into days, hours < 24 and
minutes < 60; the wrap period is 2^32 ticks (the code divides 2^32 − 1, which never differs). -/
theorem uptime_split (ts f : Nat) (hf : 0 < f) : UptimeOk ts f (uptimeFrom ts f) := by
  have hmix : ∀ a t : Nat, t % (a * 1440) / (a * 60) = t / a % 1440 / 60 ∧ t % (a * 60) / a = t / a % 60 ∧
      t / (a * 1440) = t / a / 1440 := by
    intro a t
    refine ⟨?_, Nat.mod_mul_right_div_self _ _ _, (Nat.div_div_eq_div_mul _ _ _).symm⟩
    rw [← Nat.div_div_eq_div_mul, Nat.mod_mul_right_div_self]
  obtain ⟨hh, hm, hd⟩ := hmix (f * 60) ts
  have e1 : f * 86400 = f * 60 * 1440 := (Nat.mul_assoc f 60 1440).symm
  have e2 : f * 3600 = f * 60 * 60 := (Nat.mul_assoc f 60 60).symm
  have e3 : f * 60 * 60 * 24 = f * 86400 := by rw [Nat.mul_assoc, Nat.mul_assoc]
  unfold UptimeOk uptimeFrom
  refine ⟨rfl, ?_, ?_, ?_, ?_⟩
  · show ts % (f * 86400) / (f * 3600) < 24
    rw [e1, e2, hh]; omega
  · show ts % (f * 3600) / (f * 60) < 60
    rw [e2, hm]; omega
  · show (ts / (f * 86400) * 24 + ts % (f * 86400) / (f * 3600)) * 60 + ts % (f * 3600) / (f * 60) = ts / (f * 60)
    rw [e1, e2, hh, hm, hd]; omega
  · show (U32 - 1) / (f * 60 * 60 * 24) = U32 / (f * 86400)
    rw [e3]
    have key : ((U32 - 1) + 1) / (f * 86400) =
        (U32 - 1) / (f * 86400) + if f * 86400 ∣ (U32 - 1) + 1 then 1 else 0 := Nat.succ_div
    have hU : (U32 - 1) + 1 = U32 := by unfold U32; omega
    rw [hU] at key
    rw [key, if_neg (not_dvd_u32 f)]; omega

example : uptimeFrom 4294967295 1000 = { days := 49, hours := 17, min := 2, modDays := 49, freq := 1000 } := by
  decide

/-! ### the frequency grid -/

/-- `round_frequency_p0f_style` implements the documented rounding table, for every rate. -/
theorem roundFrequency_rounded (r : Freq) : Rounded (r.num / r.den) (roundFrequency r) := by
  unfold roundFrequency
  generalize r.num / r.den = x
  simp only [Uptime.roundZero, Uptime.roundIdent, Uptime.roundArms, Uptime.roundDefault, roundArm]
  unfold Rounded
  simp only [steps, List.mem_cons, List.not_mem_nil, or_false, forall_eq_or_imp, forall_eq]
  by_cases h0 : x = 0
  · subst h0; simp
  · by_cases h1 : 1 ≤ x ∧ x ≤ 10
    · simp only [h0, if_false, h1, and_self, if_true]
      refine ⟨?_, ?_, ⟨?_, ?_, ?_⟩, ?_⟩ <;> intros <;> first | contradiction | trivial | omega
    · simp only [h0, if_false, h1]
      by_cases h2 : 11 ≤ x ∧ x ≤ 50
      · simp only [h2, and_self, if_true]
        refine ⟨?_, ?_, ⟨?_, ?_, ?_⟩, ?_⟩ <;> intros <;> first | contradiction | trivial | omega
      · by_cases h3 : 51 ≤ x ∧ x ≤ 100
        · simp only [h2, h3, and_self, if_true, if_false]
          refine ⟨?_, ?_, ⟨?_, ?_, ?_⟩, ?_⟩ <;> intros <;> first | contradiction | trivial | omega
        · by_cases h4 : 101 ≤ x ∧ x ≤ 500
          · simp only [h2, h3, h4, and_self, if_true, if_false]
            refine ⟨?_, ?_, ⟨?_, ?_, ?_⟩, ?_⟩ <;> intros <;> first | contradiction | trivial | omega
          · simp only [h2, h3, h4, if_false]
            refine ⟨?_, ?_, ⟨?_, ?_, ?_⟩, ?_⟩ <;> intros <;> first | contradiction | trivial | omega

example : roundFrequency ⟨13000, 1000⟩ = 15 ∧ roundFrequency ⟨248000, 1000⟩ = 250 ∧
    roundFrequency ⟨650000, 1000⟩ = 700 := by decide

theorem roundFrequency_pos (r : Freq) : 0 < roundFrequency r := by
  have hr := roundFrequency_rounded r
  unfold Rounded at hr
  simp only [steps, List.mem_cons, List.not_mem_nil, or_false, forall_eq_or_imp, forall_eq] at hr
  obtain ⟨h0, h1, ⟨h2, h3, h4⟩, h5⟩ := hr
  generalize r.num / r.den = x at *
  generalize roundFrequency r = g at *
  by_cases c0 : x = 0
  · have := h0 c0; omega
  · by_cases c1 : x ≤ 10
    · have := h1 ⟨by omega, c1⟩; omega
    · by_cases c2 : x ≤ 50
      · have := h2 ⟨by omega, c2⟩; omega
      · by_cases c3 : x ≤ 100
        · have := h3 ⟨by omega, c3⟩; omega
        · by_cases c4 : x ≤ 500
          · have := h4 ⟨by omega, c4⟩; omega
          · have := h5 (by omega); omega

/-- The `final_freq` chain (`guess_frequency` at 1000 Hz, at 100 Hz, then the rounding table) lands on
the documented grid for every rate `n/d` — full strength since `guess_frequency` returns the multiple
it matched (fixes/C19-guess-frequency-returns-the-multiple.patch). -/
theorem finalFreq_grid (n d : Nat) (hd : 0 < d) :
    Grid n d (finalFreq ⟨n, d⟩) ∧ 0 < finalFreq ⟨n, d⟩ := by
  unfold Grid finalFreq finalFreqT
  simp only [Uptime.guessHz1k, Uptime.guessHz100, Uptime.guessTolerance]
  by_cases hs1 : Snaps 1000 n d
  · obtain ⟨M, _, hM⟩ := hs1
    have hu := snap_unique n d 1000 M hd (by omega) hM
    have hg : guessFrequency ⟨n, d⟩ 1000 (1, 10) = some (1000 * multOf n d 1000) := by
      rw [guess_iff n d 1000 hd (by omega), ← hu]; exact hM
    have hs1' : Snaps 1000 n d := ⟨M, by assumption, hM⟩
    simp only [hg, hs1', if_true]
    rw [← hu]
    exact ⟨hM, hM.1⟩
  · have hg : guessFrequency ⟨n, d⟩ 1000 (1, 10) = none := by
      rcases guess_cases ⟨n, d⟩ 1000 (1, 10) with h | h
      · exact h
      · exfalso
        have hsnap := (guess_iff n d 1000 hd (by omega)).1 h
        exact hs1 ⟨_, snap_le n d 1000 _ hd hsnap, hsnap⟩
    simp only [hg, hs1, if_false]
    by_cases hs2 : Snaps 100 n d
    · obtain ⟨M, hMle, hM⟩ := hs2
      have hu := snap_unique n d 100 M hd (by omega) hM
      have hg2 : guessFrequency ⟨n, d⟩ 100 (1, 10) = some (100 * multOf n d 100) := by
        rw [guess_iff n d 100 hd (by omega), ← hu]; exact hM
      have hs2' : Snaps 100 n d := ⟨M, hMle, hM⟩
      simp only [hg2, hs2', if_true]
      rw [← hu]
      exact ⟨hM, hM.1⟩
    · have hg2 : guessFrequency ⟨n, d⟩ 100 (1, 10) = none := by
        rcases guess_cases ⟨n, d⟩ 100 (1, 10) with h | h
        · exact h
        · exfalso
          have hsnap := (guess_iff n d 100 hd (by omega)).1 h
          exact hs2 ⟨_, snap_le n d 100 _ hd hsnap, hsnap⟩
      simp only [hg2, hs2, if_false]
      exact ⟨roundFrequency_rounded ⟨n, d⟩, roundFrequency_pos ⟨n, d⟩⟩

example : finalFreq ⟨1000 * 1000, 1000⟩ = 1000 ∧ finalFreq ⟨100 * 1000, 1000⟩ = 100 ∧
    finalFreq ⟨250 * 1000, 1000⟩ = 250 ∧ finalFreq ⟨1024 * 1000, 1000⟩ = 1000 ∧
    finalFreq ⟨300 * 1000, 1000⟩ = 300 ∧ finalFreq ⟨700 * 1000, 1000⟩ = 700 := by decide

/-! ### one estimate -/

/-- Full statement (false for the current code, see the witnesses). -/
def FullEstimateMeetsSpec : Prop :=
  ∀ t0 v0 t1 v1 : Nat, v0 < U32 → v1 < U32 → EstOk t0 v0 t1 v1 (estimate t0 v0 t1 v1)

/-- **C19, partial.** For every reference `(t0, v0)` and current segment `(t1, v1)` outside the one
remaining known-finding class (fewer than 5 ticks): an estimate is reported iff the interval is within 25 ms … 10 min and the
rate within 1 … 1500 Hz; its frequency is the rate on the documented grid; the uptime is the later
timestamp divided by it, split with hours < 24 and minutes < 60; the wrap period is 2^32 ticks in
whole days. No bound on times or timestamp values. -/
theorem estimate_meets_spec_partial (t0 v0 t1 v1 : Nat) (h0 : v0 < U32) (h1 : v1 < U32)
    (hk : ¬ Huginn.KF.C19.any t0 v0 t1 v1) : EstOk t0 v0 t1 v1 (estimate t0 v0 t1 v1) := by
  unfold Huginn.KF.C19.any Huginn.KF.C19.minTicks at hk
  have htd : (v1 + U32 - v0) % U32 = advance v0 v1 := rfl
  have hlt : advance v0 v1 < U32 := Nat.mod_lt _ (by unfold U32; omega)
  unfold EstOk
  by_cases hin : InBounds t0 v0 t1 v1
  · -- inside the bounds: an estimate on the grid
    simp only [hin, if_true]
    have hmin : ¬ advance v0 v1 < 5 := fun h => hk ⟨hin, h⟩
    obtain ⟨hle, hlo, hhi, hr1, hr2⟩ := hin
    have hcalc : calcFreq v1 t1 v0 t0 = some ⟨advance v0 v1 * 1000, t1 - t0⟩ := by
      unfold calcFreq calcFreqT
      simp only [htd, Uptime.minTwait, Uptime.maxTwait, Uptime.minTsDiff, Uptime.maxFinalHz,
        Uptime.minFinalHz, Uptime.freqScale]
      have hb : ¬ advance v0 v1 > U32 - 1 - advance v0 v1 := by unfold U32; omega
      have hmax1 : max (t1 - t0) 1 = t1 - t0 := Nat.max_eq_left (by omega)
      simp only [show ¬ t1 - t0 < 25 by omega, show ¬ t1 - t0 > 600000 by omega, hb, hmin, if_false,
        hmax1, Nat.mul_one, Nat.one_mul]
      rw [if_neg (by omega), if_neg (by omega)]
    unfold estimate
    rw [hcalc]
    have hdpos : 0 < t1 - t0 := by omega
    obtain ⟨hgrid, hpos⟩ := finalFreq_grid (advance v0 v1 * 1000) (t1 - t0) hdpos
    have hfreq : ∀ F, (uptimeFrom v1 F).freq = F := fun _ => rfl
    simp only [hfreq]
    exact ⟨hgrid, uptime_split v1 _ hpos⟩
  · -- outside the bounds: nothing (backward steps are withheld; an accepted forward step is in bounds)
    simp only [hin, if_false]
    unfold estimate
    have hnone : calcFreq v1 t1 v0 t0 = none := by
      unfold calcFreq calcFreqT
      simp only [htd, Uptime.minTwait, Uptime.maxTwait, Uptime.minTsDiff, Uptime.maxFinalHz,
        Uptime.minFinalHz, Uptime.freqScale, Nat.mul_one, Nat.one_mul]
      by_cases c1 : t1 - t0 < 25
      · simp [c1]
      · by_cases c2 : t1 - t0 > 600000
        · simp [c1, c2]
        · by_cases cb : advance v0 v1 > U32 - 1 - advance v0 v1
          · simp [c1, c2, cb]
          · by_cases c3 : advance v0 v1 < 5
            · simp [c1, c2, cb, c3]
            · have hmax1 : max (t1 - t0) 1 = t1 - t0 := Nat.max_eq_left (by omega)
              simp only [c1, c2, cb, c3, if_false, hmax1]
              by_cases c4 : advance v0 v1 * 1000 < t1 - t0
              · simp [c4]
              · by_cases c5 : advance v0 v1 * 1000 > 1500 * (t1 - t0)
                · simp [c4, c5]
                · exfalso
                  exact hin ⟨by omega, by omega, by omega, by omega, by omega⟩
    rw [hnone]

/-! ### the tracker: bad markers, directions, histories -/

/-- `check_ts_tcp` in closed form: first segment of an endpoint → stored; bad marker → nothing, cache
untouched; otherwise the estimate against the stored reference, in the slot of the caller's role,
and a bad marker when there is none. -/
theorem checkTs_eq (c : Cache) (mono wall : Nat) (conn : Conn) (fc : Bool) (ts : Nat) :
    checkTs c mono wall conn fc ts =
      match c.get mono ⟨conn, fc⟩ with
      | none => (c.insert mono ⟨conn, fc⟩ { tsVal := ts, recvMs := wall } cacheTtlMs, {})
      | some ref =>
        if ref.bad then (c, {})
        else match estimate ref.recvMs ref.tsVal wall ts with
          | some u => (c, if fc then { client := some u } else { server := some u })
          | none => (c.insert mono ⟨conn, fc⟩ badMarker cacheTtlMs, {}) := by
  cases hg : c.get mono ⟨conn, fc⟩ with
  | none => simp only [checkTs, checkTsT, hg]
  | some ref =>
    simp only [checkTs, checkTsT, hg, estimate, calcFreq]
    by_cases hb : ref.bad = true
    · simp only [hb, if_true]
    · simp only [hb, Bool.false_eq_true, if_false]
      cases hc : (calcFreqT ts wall ref.tsVal ref.recvMs).1 with
      | none => simp only [hc]
      | some r => simp only [hc, finalFreq]

/-- "the endpoint is not re-evaluated while its entry lives": on a bad marker nothing is reported and
the tracker is left exactly as it was — for every later segment, time and timestamp. -/
theorem bad_is_sticky (c : Cache) (mono wall : Nat) (conn : Conn) (fc : Bool) (ts : Nat) (st : Stamp)
    (hget : c.get mono ⟨conn, fc⟩ = some st) (hbad : st.bad = true) :
    checkTs c mono wall conn fc ts = (c, {}) := by
  rw [checkTs_eq, hget]; simp [hbad]

/-- the estimate is labelled by the caller's role: a client segment never fills the server slot and
vice versa -/
theorem role_slot (c : Cache) (mono wall : Nat) (conn : Conn) (fc : Bool) (ts : Nat) :
    (fc = true → (checkTs c mono wall conn fc ts).2.server = none) ∧
    (fc = false → (checkTs c mono wall conn fc ts).2.client = none) := by
  rw [checkTs_eq]
  cases c.get mono ⟨conn, fc⟩ with
  | none => simp
  | some ref =>
    simp only []
    split
    · simp
    · cases estimate ref.recvMs ref.tsVal wall ts <;> cases fc <;> simp

/-- "the two directions of a connection are tracked separately": a segment of one endpoint leaves the
entry of every other (connection, direction) untouched, as long as the tracker has room. -/
theorem other_keys_untouched (c : Cache) (mono wall m' : Nat) (conn : Conn) (fc : Bool) (ts : Nat) (k' : Key)
    (hne : k' ≠ ⟨conn, fc⟩) (hroom : Room c ⟨conn, fc⟩) :
    (checkTs c mono wall conn fc ts).1.get m' k' = c.get m' k' := by
  rw [checkTs_eq]
  cases c.get mono ⟨conn, fc⟩ with
  | none => exact get_insert_other c mono m' _ k' _ _ hroom hne
  | some ref =>
    simp only []
    split
    · rfl
    · cases estimate ref.recvMs ref.tsVal wall ts with
      | none => exact get_insert_other c mono m' _ k' _ _ hroom hne
      | some u => rfl

/-! ### histories against the abstract per-endpoint map -/

def toStamp : Entry → Stamp
  | .ref t v => { tsVal := v, recvMs := t }
  | .bad => badMarker

/-- the cache represents the abstract map for every lookup up to instant `T`; stored timestamps are
32-bit -/
def Rel (c : Cache) (s : State) (T : Nat) : Prop :=
  (∀ k m, m ≤ T → c.get m k = (s.get k).map toStamp) ∧
  (∀ k t v, s.get k = some (.ref t v) → v < U32)

/-- no step of the history falls into a known-finding class (judged against the reference the
abstract map holds at that step) -/
def stepOk (s : State) (o : Obs) : Prop :=
  match s.get ⟨o.conn, o.fromClient⟩ with
  | some (.ref t0 v0) => ¬ Huginn.KF.C19.any t0 v0 o.wall o.ts
  | _ => True
instance (s : State) (o : Obs) : Decidable (stepOk s o) := by
  unfold stepOk; split <;> exact inferInstance

def noKF : State → List Obs → Prop
  | _, [] => True
  | s, o :: os => stepOk s o ∧ noKF (specStep s o {}).1 os
instance decNoKF : (s : State) → (os : List Obs) → Decidable (noKF s os)
  | _, [] => isTrue trivial
  | s, o :: os => @instDecidableAnd _ _ _ (decNoKF _ os)

def mineOf (o : Obs) (out : Out) : Option Uptime := if o.fromClient then out.client else out.server
def otherOf (o : Obs) (out : Out) : Option Uptime := if o.fromClient then out.server else out.client

private theorem specStep_none (s : State) (o : Obs) (out : Out) (h : s.get ⟨o.conn, o.fromClient⟩ = none) :
    specStep s o out = (s.set ⟨o.conn, o.fromClient⟩ (.ref o.wall o.ts),
      decide (mineOf o out = none ∧ otherOf o out = none)) := by
  simp only [specStep, h, mineOf, otherOf]
  rfl

private theorem specStep_bad (s : State) (o : Obs) (out : Out) (h : s.get ⟨o.conn, o.fromClient⟩ = some .bad) :
    specStep s o out = (s, decide (mineOf o out = none ∧ otherOf o out = none)) := by
  simp only [specStep, h, mineOf, otherOf]
  rfl

private theorem specStep_ref (s : State) (o : Obs) (out : Out) (t0 v0 : Nat)
    (h : s.get ⟨o.conn, o.fromClient⟩ = some (.ref t0 v0)) :
    specStep s o out = (if InBounds t0 v0 o.wall o.ts then s else s.set ⟨o.conn, o.fromClient⟩ .bad,
      decide (EstOk t0 v0 o.wall o.ts (mineOf o out) ∧ otherOf o out = none)) := by
  simp only [specStep, h, mineOf, otherOf]
  rfl

private theorem specStep_state (s : State) (o : Obs) (out : Out) : (specStep s o out).1 = (specStep s o {}).1 := by
  cases h : s.get ⟨o.conn, o.fromClient⟩ with
  | none => rw [specStep_none _ _ _ h, specStep_none _ _ _ h]
  | some e =>
    cases e with
    | bad => rw [specStep_bad _ _ _ h, specStep_bad _ _ _ h]
    | ref t v => rw [specStep_ref _ _ _ _ _ h, specStep_ref _ _ _ _ _ h]

private theorem mine_slot (o : Obs) (u : Option Uptime) :
    mineOf o (match u with | some x => (if o.fromClient then { client := some x } else { server := some x }) | none => {}) = u ∧
    otherOf o (match u with | some x => (if o.fromClient then { client := some x } else { server := some x }) | none => {}) = none := by
  unfold mineOf otherOf
  cases u <;> cases o.fromClient <;> simp

/-- **C19, histories.** For every history of timestamped segments — any number of connections, both
directions interleaved, any arrival times and timestamp values — that fits the tracker (capacity at
least the number of segments, all within the entry lifetime) and avoids the known-finding classes,
every output of the model is what the abstract per-endpoint map allows: nothing for the first
segment of an endpoint, the estimate of `estimate_meets_spec_partial` against the *first* segment
afterwards (in the slot of the caller's role, the other slot empty), nothing once an out-of-bounds
pair has been seen. -/
theorem run_meets_spec_partial : ∀ (os : List Obs) (c : Cache) (s : State),
    Rel c s cacheTtlMs → c.entries.length + os.length ≤ c.cap →
    (∀ o ∈ os, o.mono ≤ cacheTtlMs ∧ o.ts < U32) → noKF s os →
    specRun s os (run c os) = true := by
  intro os
  induction os with
  | nil => intro c s _ _ _ _; rfl
  | cons o os ih =>
    intro c s hrel hcap hwf hkf
    obtain ⟨hget, hu32⟩ := hrel
    obtain ⟨hom, hots⟩ := hwf o (by simp)
    have hwf' : ∀ o' ∈ os, o'.mono ≤ cacheTtlMs ∧ o'.ts < U32 := fun o' h => hwf o' (by simp [h])
    obtain ⟨hkf0, hkfs⟩ := hkf
    unfold stepOk at hkf0
    simp only [List.length_cons] at hcap
    have hroom : Room c ⟨o.conn, o.fromClient⟩ := room_of_length c _ (by omega)
    have hk := hget ⟨o.conn, o.fromClient⟩ o.mono hom
    -- relation after inserting `e` for this endpoint
    have hrel_ins : ∀ (v : Stamp) (e : Entry), toStamp e = v → (∀ t x, e = .ref t x → x < U32) →
        Rel (c.insert o.mono ⟨o.conn, o.fromClient⟩ v cacheTtlMs) (s.set ⟨o.conn, o.fromClient⟩ e) cacheTtlMs := by
      intro v e hv he
      constructor
      · intro k m hm
        by_cases hkk : k = ⟨o.conn, o.fromClient⟩
        · subst hkk
          rw [get_insert_self c o.mono m _ v _ hroom (by omega), state_get_set_self, Option.map_some, hv]
        · rw [get_insert_other c o.mono m _ k v _ hroom hkk, state_get_set_other s _ k e hkk]
          exact hget k m hm
      · intro k t x hx
        by_cases hkk : k = ⟨o.conn, o.fromClient⟩
        · subst hkk
          rw [state_get_set_self] at hx
          exact he t x (Option.some.inj hx)
        · rw [state_get_set_other s _ k e hkk] at hx
          exact hu32 k t x hx
    have hlen_ins : ∀ v, (c.insert o.mono ⟨o.conn, o.fromClient⟩ v cacheTtlMs).entries.length + os.length
        ≤ (c.insert o.mono ⟨o.conn, o.fromClient⟩ v cacheTtlMs).cap := by
      intro v
      have := insert_length_le c o.mono ⟨o.conn, o.fromClient⟩ v cacheTtlMs
      rw [insert_cap]; omega
    show ((specStep s o (checkTs c o.mono o.wall o.conn o.fromClient o.ts).2).2 &&
          specRun (specStep s o (checkTs c o.mono o.wall o.conn o.fromClient o.ts).2).1 os
            (run (checkTs c o.mono o.wall o.conn o.fromClient o.ts).1 os)) = true
    simp only [Bool.and_eq_true]
    rw [specStep_state]
    rw [checkTs_eq]
    cases hs : s.get ⟨o.conn, o.fromClient⟩ with
    | none =>
      rw [hs] at hk
      simp only [Option.map_none] at hk
      rw [hk]
      simp only []
      rw [specStep_none _ _ _ hs] at hkfs
      rw [specStep_none _ _ _ hs]
      refine ⟨by simp [mineOf, otherOf],
        ih _ _ (hrel_ins _ _ rfl (by intro t x h; cases h; exact hots)) (hlen_ins _) hwf' hkfs⟩
    | some e =>
      rw [hs] at hk hkf0
      simp only [Option.map_some] at hk
      rw [hk]
      cases e with
      | bad =>
        rw [specStep_bad _ _ _ hs] at hkfs
        simp only [toStamp, badMarker, if_true]
        rw [specStep_bad _ _ _ hs]
        exact ⟨by simp [mineOf, otherOf], ih _ _ ⟨hget, hu32⟩ (by omega) hwf' hkfs⟩
      | ref t0 v0 =>
        simp only [toStamp, Bool.false_eq_true, if_false]
        have hv0 := hu32 _ t0 v0 hs
        have hest := estimate_meets_spec_partial t0 v0 o.wall o.ts hv0 hots hkf0
        rw [specStep_ref _ _ _ _ _ hs] at hkfs
        simp only [specStep_ref _ _ _ _ _ hs]
        obtain ⟨hmine, hother⟩ := mine_slot o (estimate t0 v0 o.wall o.ts)
        by_cases hin : InBounds t0 v0 o.wall o.ts
        · simp only [hin, if_true] at hkfs ⊢
          cases hes : estimate t0 v0 o.wall o.ts with
          | none =>
            unfold EstOk at hest
            simp only [hin, if_true, hes] at hest
          | some u =>
            rw [hes] at hmine hother hest
            simp only [] at hmine hother ⊢
            refine ⟨?_, ih _ _ ⟨hget, hu32⟩ (by omega) hwf' hkfs⟩
            rw [hmine, hother]
            simp [hest]
        · simp only [hin, if_false] at hkfs ⊢
          have hnone : estimate t0 v0 o.wall o.ts = none := by
            unfold EstOk at hest
            simpa only [hin, if_false] using hest
          rw [hnone] at hmine hother hest
          simp only [hnone] at hmine hother ⊢
          refine ⟨?_, ih _ _ (hrel_ins _ _ rfl (by intro t x h; cases h)) (hlen_ins _) hwf' hkfs⟩
          rw [hmine, hother]
          simp [hest]

/-! ### non-vacuity and the known-finding witnesses -/

/-- a 1000 Hz clock seen twice, 1 s apart, then a server at 250 Hz: hypotheses satisfiable, outputs
non-trivial -/
example :
    let c1 : Conn := { src := (false, 1), sport := 40000, dst := (false, 2), dport := 80 }
    let c2 : Conn := { src := (false, 2), sport := 80, dst := (false, 1), dport := 40000 }
    let os : List Obs := [⟨0, 1000000, c1, true, 5000⟩, ⟨0, 1000001, c2, false, 900000⟩,
                          ⟨0, 1001000, c1, true, 6000⟩, ⟨0, 1001001, c2, false, 900250⟩]
    noKF [] os ∧ (run { cap := 8 } os).map showOut = ["-", "-", "c:0:0:0:49:1000", "s:0:1:0:198:250"] := by
  decide +kernel

/-- repaired (DESIGN §8 #28, fixes/C19-guess-frequency-returns-the-multiple.patch): +60 ticks in
200 ms is reported as 300 Hz -/
theorem fixed_multipleOfBase_regression :
    EstOk 0 1000 200 1060 (estimate 0 1000 200 1060) ∧ (estimate 0 1000 200 1060).map (·.freq) = some 300 := by
  decide +kernel

/-- 2 ticks in one second (2 Hz) is inside the stated bounds, yet nothing is reported -/
theorem kf_minTicks_witness :
    Huginn.KF.C19.minTicks 0 1000 1000 1002 ∧ ¬ EstOk 0 1000 1000 1002 (estimate 0 1000 1000 1002) ∧
    estimate 0 1000 1000 1002 = none := by decide +kernel

/-- repaired (fixes/C19-backward-timestamp-withheld.patch): a timestamp that went back by 100 ticks
in one second yields nothing -/
theorem fixed_backwardAccepted_regression :
    EstOk 0 5000 1000 4900 (estimate 0 5000 1000 4900) ∧ estimate 0 5000 1000 4900 = none := by decide +kernel

theorem full_statement_fails : ¬ FullEstimateMeetsSpec := by
  intro h
  exact kf_minTicks_witness.2.1 (h 0 1000 1000 1002 (by decide) (by decide))

end Huginn.Props.C19
