import Huginn.Props.C09
/-
C09, the excluded point of `reassembly`: its hypothesis `PlainData` excludes FIN among the data segments.
The statement does not: a sender's last segment carries FIN, and every arrival order is quantified over.
At that point the current code loses a report — a data segment with FIN removes the flow at once, so a
FIN-bearing last segment that arrives before an earlier segment of the same head makes the head
unreportable. Open finding `KF.C09.finBeforeHeadComplete` (known_findings.json): the full statement, the
witness that it fails on the model (which the check shows to agree with the real analyzer on exactly such
histories), and the partial theorem (`reassembly`, `reassembly_partition`) side by side.
-/
namespace Huginn.Props.C09
open Huginn.HttpFlow Huginn.HttpFlow.Spec

/-- data segments without RST / SYN (FIN allowed) -/
def NoRstSyn (ds : List DataPkt) : Prop :=
  ∀ d ∈ ds, hasFlag d.flags RST = false ∧ hasFlag d.flags SYN = false
instance (ds) : Decidable (NoRstSyn ds) := by unfold NoRstSyn; exact inferInstance

/-- `reassembly_partition` with FIN allowed among the data: the statement at full strength. -/
def FullReassemblyPartition : Prop :=
  ∀ (P : Parsers Bytes Bytes) (c : Conn) (C S : Bytes) (ds : List DataPkt),
    MinLen P → c.client ≠ c.client.rev → NoRstSyn ds →
    C.length ≤ maxBufferedHeadBytes → S.length ≤ maxBufferedHeadBytes →
    PartitionOf c.isnC C (segsOf true ds) → PartitionOf c.isnS S (segsOf false ds) →
    run P [] (c.packets ds) = specConn P c ds

private def toyF : Parsers Bytes Bytes :=
  { request := fun d => if d.length ≥ 4 ∧ d.reverse.take 2 = [10, 10] then some d else none,
    response := fun d => if d.length ≥ 4 ∧ d.reverse.take 2 = [10, 10] then some d else none }

private def cF : Conn := ⟨⟨1, 2, 40000, 80⟩, 1000, 5000⟩

/-- the response `ab\\n\\n` in two segments; the second (last) one carries FIN and arrives first -/
private def dsF : List DataPkt :=
  [⟨false, 5003, 25, [10, 10]⟩, ⟨false, 5001, 24, [97, 98]⟩]

/-- Witness: with the FIN-bearing last segment first, the model reports nothing; the specification
reports the response when the earlier segment arrives. -/
theorem kf_finBeforeHeadComplete_witness :
    run toyF [] (cF.packets dsF) = [(none, none), (none, none), (none, none), (none, none)] ∧
    specConn toyF cF dsF = [(none, none), (none, none), (none, none), (none, some [97, 98, 10, 10])] := by
  decide +kernel

private theorem toyF_minLen : MinLen toyF := by
  have h4 : Huginn.Gen.HttpLists.flowMinLen = 4 := rfl
  constructor <;>
  · intro d r h
    unfold toyF at h
    simp only at h
    rw [h4]
    split at h
    · omega
    · cases h

theorem full_statement_fails : ¬ FullReassemblyPartition := by
  intro h
  have pC : PartitionOf cF.isnC [] (segsOf true dsF) := ⟨[], by decide, by decide +kernel, by decide⟩
  have pS : PartitionOf cF.isnS [97, 98, 10, 10] (segsOf false dsF) :=
    ⟨[⟨5001, [97, 98]⟩, ⟨5003, [10, 10]⟩], by decide, by decide +kernel, by decide⟩
  have := h toyF cF [] [97, 98, 10, 10] dsF toyF_minLen (by decide) (by decide) (by decide) (by decide) pC pS
  rw [kf_finBeforeHeadComplete_witness.1, kf_finBeforeHeadComplete_witness.2] at this
  revert this
  decide

end Huginn.Props.C09
