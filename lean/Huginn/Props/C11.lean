import Huginn.Model.FlowProgs
import Huginn.Lemmas.HttpFlowData
set_option linter.unusedSimpArgs false
set_option linter.unusedSectionVars false
/-
C11 — memory per connection and work per packet stay bounded for any traffic.

For every trace (any length, any content) and every capacity:
  * the flow table never holds more than `cap` entries (model of `TtlCache`);
  * every stored entry obeys a fixed per-connection limit (HTTP: each direction ≤ max(64 KiB, L)
    buffered bytes, L = largest payload of one segment; TLS: < 64 KiB + 4 buffered bytes; TCP: a
    constant-size record), hence retained bytes ≤ cap × limit;
  * the work for one packet is ≤ constant + constant × its payload size.
The per-entry limits are *table invariants* proved through a small Hoare rule for cache programs.
-/
namespace Huginn.Props.C11
open Huginn.Flow Huginn.FlowProgs

variable {κ σ γ ρ Out : Type} [DecidableEq κ]

/-! ## capacity -/

theorem insert_cap (m : TtlMap κ σ) (now : Nat) (k : κ) (v : σ) (ttl : Nat) :
    (m.insert now k v ttl).cap = m.cap := rfl

theorem insert_length_le (m : TtlMap κ σ) (now : Nat) (k : κ) (v : σ) (ttl : Nat)
    (h : m.es.length ≤ m.cap) : (m.insert now k v ttl).es.length ≤ m.cap := by
  have hf : (m.es.filter (fun e => decide (e.key ≠ k))).length ≤ m.cap :=
    Nat.le_trans (List.length_filter_le _ _) h
  unfold TtlMap.insert
  dsimp only
  split
  · simp only [List.length_drop, List.length_append, List.length_singleton]; omega
  · rename_i hc
    simp only [List.length_append, List.length_singleton] at hc ⊢; omega

/-- The table never exceeds its capacity, whatever the program does. -/
theorem run_length_le (pr : Prog κ σ γ ρ Out) (now : Nat) (m : TtlMap κ σ) (g : γ)
    (h : m.es.length ≤ m.cap) :
    (pr.run now m g).1.es.length ≤ (pr.run now m g).1.cap ∧ (pr.run now m g).1.cap = m.cap := by
  induction pr generalizing m g with
  | ret o => exact ⟨h, rfl⟩
  | get k cont ih => exact ih _ m g h
  | insert k v ttl cont ih =>
    have h1 := insert_length_le m now k v ttl h
    have r := ih (m.insert now k v ttl) g (by rw [insert_cap]; exact h1)
    exact ⟨r.1, r.2.trans (insert_cap m now k v ttl)⟩
  | set k v cont ih =>
    have : (m.set now k v).es.length ≤ (m.set now k v).cap := by simpa [TtlMap.set] using h
    have r := ih (m.set now k v) g this
    exact ⟨r.1, r.2⟩
  | remove k cont ih =>
    have : (m.remove k).es.length ≤ (m.remove k).cap :=
      Nat.le_trans (List.length_filter_le _ _) h
    have r := ih (m.remove k) g this
    exact ⟨r.1, r.2⟩
  | glob f cont ih => exact ih _ m (f g).1 h

/-! ## a Hoare rule for table invariants -/

/-- `I k v` holds of every stored entry. -/
def TableInv (I : κ → σ → Prop) (m : TtlMap κ σ) : Prop := ∀ e ∈ m.es, I e.key e.val

/-- Every value the program writes satisfies `I`, assuming every value it reads does. -/
inductive Preserves (I : κ → σ → Prop) : Prog κ σ γ ρ Out → Prop
  | ret (o) : Preserves I (.ret o)
  | get (k cont) : (∀ r, (∀ v, r = some v → I k v) → Preserves I (cont r)) → Preserves I (.get k cont)
  | insert (k v ttl cont) : I k v → Preserves I cont → Preserves I (.insert k v ttl cont)
  | set (k v cont) : I k v → Preserves I cont → Preserves I (.set k v cont)
  | remove (k cont) : Preserves I cont → Preserves I (.remove k cont)
  | glob (f cont) : (∀ r, Preserves I (cont r)) → Preserves I (.glob f cont)

theorem get_some_inv (I : κ → σ → Prop) (m : TtlMap κ σ) (now : Nat) (k : κ) (v : σ)
    (h : TableInv I m) (hg : m.get now k = some v) : I k v := by
  unfold TtlMap.get TtlMap.find? at hg
  cases hf : m.es.find? (fun e => decide (e.key = k)) with
  | none => rw [hf] at hg; simp at hg
  | some e =>
    rw [hf] at hg
    have hmem := List.mem_of_find?_eq_some hf
    have hk : e.key = k := by simpa using List.find?_some hf
    by_cases hx : now > e.exp
    · simp [hx] at hg
    · simp [hx] at hg
      rw [← hk, ← hg]
      exact h e hmem

theorem preserves_run (I : κ → σ → Prop) (pr : Prog κ σ γ ρ Out) (hp : Preserves I pr)
    (now : Nat) (m : TtlMap κ σ) (g : γ) (h : TableInv I m) : TableInv I (pr.run now m g).1 := by
  induction hp generalizing m g with
  | ret o => exact h
  | get k cont _ ih => exact ih _ (fun v hv => get_some_inv I m now k v h hv) m g h
  | insert k v ttl cont hv _ ih =>
    apply ih
    intro e he
    unfold TtlMap.insert at he
    simp only at he
    have hsub : ∀ e ∈ (m.es.filter (fun e => decide (e.key ≠ k)) ++ [(⟨k, v, now + ttl⟩ : Entry κ σ)]),
        I e.key e.val := by
      intro e he
      rcases List.mem_append.1 he with he | he
      · exact h e (List.mem_filter.1 he).1
      · simp at he; subst he; exact hv
    split at he
    · exact hsub e (List.mem_of_mem_drop he)
    · exact hsub e he
  | set k v cont hv _ ih =>
    apply ih
    intro e he
    unfold TtlMap.set at he
    simp only [List.mem_map] at he
    obtain ⟨e0, he0, rfl⟩ := he
    split
    · rename_i hc; rw [hc.1]; exact hv
    · exact h e0 he0
  | remove k cont _ ih =>
    apply ih
    intro e he
    exact h e (List.mem_filter.1 he).1
  | glob f cont _ ih => exact ih _ m (f g).1 h

/-- Invariant of every state reachable by an analyzer from the empty table. -/
theorem reachable_inv {Pkt : Type} (A : Analyzer κ σ γ ρ Pkt Out) (I : κ → σ → Prop)
    (ok : Pkt → Prop) (hp : ∀ p, ok p → Preserves I (A.prog p))
    (tr : List Pkt) (htr : ∀ p ∈ tr, ok p) (s : TtlMap κ σ × γ)
    (h : TableInv I s.1) (hl : s.1.es.length ≤ s.1.cap) :
    TableInv I (A.finalState s tr).1 ∧ (A.finalState s tr).1.es.length ≤ (A.finalState s tr).1.cap ∧
      (A.finalState s tr).1.cap = s.1.cap := by
  induction tr generalizing s with
  | nil => exact ⟨h, hl, rfl⟩
  | cons p tr ih =>
    have hp' := hp p (htr p (List.mem_cons_self ..))
    have h1 := preserves_run I (A.prog p) hp' (A.time p) s.1 s.2 h
    have h2 := run_length_le (A.prog p) (A.time p) s.1 s.2 hl
    have r := ih (fun q hq => htr q (List.mem_cons_of_mem _ hq)) (A.step s p).1 h1 h2.1
    exact ⟨r.1, r.2.1, r.2.2.trans h2.2⟩

/-- Sum of a per-entry size that is bounded entry-wise. -/
theorem sum_le_length_mul {α : Type} (l : List α) (f : α → Nat) (B : Nat) (h : ∀ x ∈ l, f x ≤ B) :
    (l.map f).sum ≤ l.length * B := by
  induction l with
  | nil => simp
  | cons x l ih =>
    have := ih (fun y hy => h y (List.mem_cons_of_mem _ hy))
    have hx := h x (List.mem_cons_self ..)
    simp only [List.map_cons, List.sum_cons, List.length_cons, Nat.succ_mul]
    omega

/-! ## HTTP -/

theorem sumLen_append (a b : List TcpData) : sumLen (a ++ b) = sumLen a + sumLen b := by
  simp [sumLen, List.sum_append]

private theorem sumLen_cons (d : TcpData) (l : List TcpData) :
    sumLen (d :: l) = d.data.length + sumLen l := by simp [sumLen]

theorem sumLen_eq_totalLen (l : List TcpData) : sumLen l = Huginn.HttpFlow.Spec.totalLen l := by
  induction l with
  | nil => rfl
  | cons x l ih => rw [sumLen_cons, ih]; rfl

/-- Reassembly never invents bytes: the gap-free, duplicate-free run is no longer than what is
stored (and, unlike before fix C09-1, can be much shorter — which is why the 64 KiB limit is on the
stored bytes). -/
theorem fullData_length (isn : Option Nat) (ds : List TcpData) : (fullData isn ds).length ≤ sumLen ds := by
  rw [sumLen_eq_totalLen]
  exact Huginn.HttpFlow.fullData_length_le isn ds

/-- Per-connection invariant: the flow sits under its opener's key and neither direction buffers more
than `B` bytes. -/
def HttpInv (B : Nat) (k : FlowKey) (f : TcpFlow) : Prop :=
  f.client = k.src ∧ f.server = k.dst ∧ sumLen f.clientData ≤ B ∧ sumLen f.serverData ≤ B

section Http
variable {G Q P : Type} (H : HttpParams G Q P) (B : Nat)

private theorem tryReq_preserves (I : FlowKey → TcpFlow → Prop) (full : Bytes)
    (k : Option Q → Prog FlowKey TcpFlow G (PRes Q P) (HttpOut Q P)) (hk : ∀ q, Preserves I (k q)) :
    Preserves I (httpTryReq H full k) := by
  unfold httpTryReq
  split
  · exact hk _
  · refine .glob _ _ (fun r1 => ?_)
    have hgo : Preserves I (Prog.glob (fun g => let (g', r) := H.parseReq g full; (g', PRes.req r))
        fun r3 => match r3 with | .req q => k q | .resp _ => k none) := by
      refine .glob _ _ (fun r3 => ?_)
      cases r3 <;> exact hk _
    split
    · exact hgo
    · refine .glob _ _ (fun r2 => ?_)
      split
      · exact hgo
      · exact hk _

private theorem tryResp_preserves (I : FlowKey → TcpFlow → Prop) (full : Bytes)
    (k : Option P → Prog FlowKey TcpFlow G (PRes Q P) (HttpOut Q P)) (hk : ∀ q, Preserves I (k q)) :
    Preserves I (httpTryResp H full k) := by
  unfold httpTryResp
  split
  · exact hk _
  · refine .glob _ _ (fun r1 => ?_)
    have hgo : Preserves I (Prog.glob (fun g => let (g', r) := H.parseResp g full; (g', PRes.resp r))
        fun r3 => match r3 with | .resp q => k q | .req _ => k none) := by
      refine .glob _ _ (fun r3 => ?_)
      cases r3 <;> exact hk _
    split
    · exact hgo
    · refine .glob _ _ (fun r2 => ?_)
      split
      · exact hgo
      · exact hk _

private theorem finish_preserves (I : FlowKey → TcpFlow → Prop) (rm : FlowKey) (f : TcpFlow) (s : Seg)
    (o : HttpOut Q P) : Preserves I (httpFinish (γ := G) rm f s o) := by
  unfold httpFinish
  split
  · exact .remove _ _ (.ret _)
  · split
    · exact .remove _ _ (.ret _)
    · exact .ret _

/-- With a flow found (under the packet's key: `isC = true`; under the reversed key: `false`),
everything written back still obeys the invariant, provided `H.maxHead ≤ B`. -/
private theorem body_preserves (hB : H.maxHead ≤ B) (stored : FlowKey) (isC : Bool) (f : TcpFlow) (s : Seg)
    (hinv : HttpInv B stored f) (hkey : isC = true → stored = ⟨s.src, s.dst⟩) :
    Preserves (HttpInv B) (httpBody H stored isC f s) := by
  obtain ⟨hc, hsv, hb1, hb2⟩ := hinv
  have fin : ∀ f' o, Preserves (HttpInv B) (httpFinish (γ := G) (Q := Q) (P := P) stored f' s o) :=
    fun f' o => finish_preserves _ _ _ _ _
  unfold httpBody
  by_cases hempty : s.payload.isEmpty = true
  · rw [if_pos hempty]; exact .ret _
  rw [if_neg hempty]
  dsimp only
  by_cases hcl : (isC && decide (s.src = f.client)) = true
  · rw [if_pos hcl]
    by_cases hp : (!f.clientParsed) = true
    · rw [if_pos hp]
      by_cases hfull : sumLen (f.clientData ++ [⟨s.seq, s.payload⟩]) > H.maxHead
      · rw [if_pos hfull]
        exact .set _ _ _ (show HttpInv B stored _ from ⟨hc, hsv, by simp [sumLen], hb2⟩) (fin _ _)
      · rw [if_neg hfull]
        have hle : sumLen (f.clientData ++ [⟨s.seq, s.payload⟩]) ≤ B := by omega
        refine .set _ _ _ (show HttpInv B stored _ from ⟨hc, hsv, hle, hb2⟩)
          (tryReq_preserves H _ _ _ (fun q => ?_))
        cases q
        · exact fin _ _
        · exact .set _ _ _ (show HttpInv B stored _ from ⟨hc, hsv, hle, hb2⟩) (fin _ _)
    · rw [if_neg hp]; exact fin _ _
  · rw [if_neg hcl]
    by_cases hsrv : s.src = f.server
    · rw [if_pos hsrv]
      by_cases hp : (!f.serverParsed) = true
      · rw [if_pos hp]
        by_cases hfull : sumLen (f.serverData ++ [⟨s.seq, s.payload⟩]) > H.maxHead
        · rw [if_pos hfull]
          exact .set _ _ _ (show HttpInv B stored _ from ⟨hc, hsv, hb1, by simp [sumLen]⟩) (fin _ _)
        · rw [if_neg hfull]
          have hle : sumLen (f.serverData ++ [⟨s.seq, s.payload⟩]) ≤ B := by omega
          refine .set _ _ _ (show HttpInv B stored _ from ⟨hc, hsv, hb1, hle⟩)
            (tryResp_preserves H _ _ _ (fun q => ?_))
          cases q
          · exact fin _ _
          · exact .set _ _ _ (show HttpInv B stored _ from ⟨hc, hsv, hb1, hle⟩) (fin _ _)
      · rw [if_neg hp]; exact fin _ _
    · rw [if_neg hsrv]; exact fin _ _

private theorem withFlow_preserves (hB : H.maxHead ≤ B) (stored : FlowKey) (isC : Bool) (f : TcpFlow) (s : Seg)
    (hinv : HttpInv B stored f) (hkey : isC = true → stored = ⟨s.src, s.dst⟩) :
    Preserves (HttpInv B) (httpWithFlow H stored isC f s) := by
  unfold httpWithFlow
  split
  · have hinv' : HttpInv B stored { f with serverIsn := some s.seq } := hinv
    exact .set _ _ _ hinv' (body_preserves H B hB stored isC _ s hinv' hkey)
  · exact body_preserves H B hB stored isC f s hinv hkey

/-- Every segment whose payload is at most `L` bytes preserves the per-connection bound
`B = max(maxHead, L)`. -/
theorem httpDispatch_preserves (L : Nat) (s : Seg) (hs : s.payload.length ≤ L) :
    Preserves (HttpInv (max H.maxHead L)) (httpDispatch H s) := by
  have hB : H.maxHead ≤ max H.maxHead L := Nat.le_max_left ..
  unfold httpDispatch
  refine .get _ _ (fun r hr => ?_)
  cases r with
  | some f => exact withFlow_preserves H _ hB _ true f s (hr f rfl) (fun _ => rfl)
  | none =>
    dsimp only
    refine .get _ _ (fun r hr => ?_)
    cases r with
    | some f => exact withFlow_preserves H _ hB _ false f s (hr f rfl) (fun h => by cases h)
    | none =>
      dsimp only
      split
      · refine .insert _ _ _ _ ⟨rfl, rfl, ?_, by simp [sumLen]⟩ (.ret _)
        simp only [sumLen, List.map_cons, List.map_nil, List.sum_cons, List.sum_nil, Nat.add_zero]
        exact Nat.le_trans hs (Nat.le_max_right ..)
      · exact .ret _

theorem http_preserves (L : Nat) (s : Seg) (hs : s.payload.length ≤ L) :
    Preserves (HttpInv (max H.maxHead L)) (httpProg H s) := by
  unfold httpProg
  split
  · refine .get _ _ (fun f _ => ?_)
    split
    · exact httpDispatch_preserves H L s hs
    · exact .remove _ _ (.remove _ _ (httpDispatch_preserves H L s hs))
  · exact httpDispatch_preserves H L s hs

/-- **C11, HTTP memory.** After ANY trace of segments (payloads ≤ L), from an empty table of any
capacity, the bytes retained are at most `cap × 2·max(maxHead, L)`. -/
theorem http_memory_bounded (L cap : Nat) (g : G) (tr : List Seg) (htr : ∀ s ∈ tr, s.payload.length ≤ L) :
    (((httpAnalyzer H).finalState ({ cap := cap }, g) tr).1.es.map (fun e => e.val.bytes)).sum
      ≤ cap * (2 * max H.maxHead L) := by
  obtain ⟨hinv, hlen, hcap⟩ := reachable_inv (httpAnalyzer H) (HttpInv (max H.maxHead L))
    (fun s => s.payload.length ≤ L) (fun s hs => http_preserves H L s hs) tr htr ({ cap := cap }, g)
    (by intro e he; simp at he) (by simp)
  have h1 := sum_le_length_mul ((httpAnalyzer H).finalState ({ cap := cap }, g) tr).1.es
    (fun e => e.val.bytes) (2 * max H.maxHead L) (by
      intro e he
      obtain ⟨_, _, a, b⟩ := hinv e he
      simp only [TcpFlow.bytes]; omega)
  have hlen' : ((httpAnalyzer H).finalState ({ cap := cap }, g) tr).1.es.length ≤ cap := by
    rw [hcap] at hlen; exact hlen
  calc _ ≤ _ := h1
    _ ≤ cap * (2 * max H.maxHead L) := Nat.mul_le_mul_right _ hlen'

/-- **C11, HTTP work.** Whatever the flow has carried so far, the work for one more segment is at most
`4·maxHead + L + 2·|payload|`. -/
theorem http_work_bounded (L : Nat) (stored : FlowKey) (f : TcpFlow) (isC : Bool) (s : Seg)
    (hinv : HttpInv (max H.maxHead L) stored f) (hkey : isC = true → stored = ⟨s.src, s.dst⟩)
    (hs : s.payload.length ≤ L) :
    httpWork H.maxHead (some f) isC s ≤ 4 * H.maxHead + L + 2 * s.payload.length := by
  obtain ⟨hc, hsv, hb1, hb2⟩ := hinv
  have hmax : max H.maxHead L ≤ H.maxHead + L := by omega
  unfold httpWork
  simp only
  split
  · omega
  · split
    · split
      · split <;> omega
      · omega
    · rename_i hnotc
      split
      · have hisC : isC = false := by
          cases hi : isC
          · rfl
          · exfalso
            apply hnotc
            simp only [hi, Bool.true_and, decide_eq_true_eq]
            rw [hc, hkey hi]
        subst hisC
        split
        · simp only [Bool.false_eq_true, if_false]; split <;> omega
        · omega
      · omega

theorem http_work_noflow (s : Seg) : httpWork H.maxHead none false s ≤ s.payload.length := by
  simp [httpWork]

end Http

/-! ## TLS -/

/-- Stored readers have not finished and hold less than one maximal record. -/
def TlsInv (_ : FlowKey) (r : Reader) : Prop := r.done = false ∧ r.buf.length < 64 * 1024 + 5

private theorem needed_le (buf : Bytes) : (buf.getD 3 0).toNat * 256 + (buf.getD 4 0).toNat + 5 ≤ 64 * 1024 + 4 := by
  have h3 := (buf.getD 3 0).toNat_lt
  have h4 := (buf.getD 4 0).toNat_lt
  omega

/-- What `add_bytes` leaves in the table when it reports "pending" obeys the invariant. -/
theorem readerAdd_pending_inv {S : Type} (parse : Bytes → AddRes S) (r : Reader) (data : Bytes) (k : FlowKey)
    (hr : TlsInv k r) (r' : Reader) (h : readerAdd parse r data = (r', .pending)) : TlsInv k r' := by
  obtain ⟨hd, hl⟩ := hr
  unfold readerAdd at h
  simp only [hd, Bool.false_eq_true, if_false] at h
  split at h
  · rename_i h5; injection h with h _; subst h; exact ⟨rfl, by simp only; omega⟩
  · split at h
    · injection h with h _; subst h; exact ⟨rfl, by simp⟩
    · split at h
      · rename_i hn
        injection h with h _; subst h
        have := needed_le (r.buf ++ data)
        exact ⟨rfl, by simp only; omega⟩
      · split at h
        · injection h with _ h; cases h
        · split at h
          · injection h with _ h; cases h
          · injection h with h _; subst h; exact ⟨rfl, by simp⟩
          · injection h with _ h; cases h

theorem tlsBody_preserves {S : Type} (parse : Bytes → AddRes S) (isTls : Bytes → Bool) (s : Seg) :
    Preserves TlsInv (tlsBody (tlsParamsOf parse isTls) s) := by
  have hnew : TlsInv ⟨s.src, s.dst⟩ ({} : Reader) := ⟨rfl, by simp⟩
  have hwith : ∀ r : Reader, TlsInv ⟨s.src, s.dst⟩ r →
      Preserves TlsInv (tlsWithReader (tlsParamsOf parse isTls) ⟨s.src, s.dst⟩ s.payload r) := by
    intro r hr
    unfold tlsWithReader
    cases hres : (tlsParamsOf parse isTls).addBytes r s.payload with
    | mk r' res =>
      cases res with
      | sig x => exact .remove _ _ (.ret _)
      | pending => exact .set _ _ _ (readerAdd_pending_inv parse r s.payload _ hr r' hres) (.ret _)
      | err => exact .remove _ _ (.ret _)
  unfold tlsBody
  dsimp only
  split
  · exact .ret _
  · refine .get _ _ (fun a _ => ?_)
    split
    · exact .ret _
    · refine .get _ _ (fun r hr => ?_)
      cases r with
      | some r => dsimp only; exact hwith r (hr r rfl)
      | none =>
        dsimp only
        refine .insert _ _ _ _ hnew (.get _ _ (fun r hr => ?_))
        cases r with
        | some r => dsimp only; exact hwith r (hr r rfl)
        | none => exact .ret _

theorem tls_preserves {S : Type} (parse : Bytes → AddRes S) (isTls : Bytes → Bool) (s : Seg) :
    Preserves TlsInv (tlsProg (tlsParamsOf parse isTls) s) := by
  unfold tlsProg
  split
  · exact .remove _ _ (tlsBody_preserves parse isTls s)
  · exact tlsBody_preserves parse isTls s

/-- **C11, TLS memory.** After ANY trace, the bytes buffered are at most `cap × (64 KiB + 4)`. -/
theorem tls_memory_bounded {S : Type} (parse : Bytes → AddRes S) (isTls : Bytes → Bool) (cap : Nat)
    (tr : List Seg) :
    (((tlsAnalyzer (tlsParamsOf parse isTls)).finalState ({ cap := cap }, ()) tr).1.es.map
        (fun e => e.val.buf.length)).sum ≤ cap * (64 * 1024 + 4) := by
  obtain ⟨hinv, hlen, hcap⟩ := reachable_inv (tlsAnalyzer (tlsParamsOf parse isTls)) TlsInv
    (fun _ => True) (fun s _ => tls_preserves parse isTls s) tr (fun _ _ => trivial) ({ cap := cap }, ())
    (by intro e he; simp at he) (by simp)
  have h1 := sum_le_length_mul ((tlsAnalyzer (tlsParamsOf parse isTls)).finalState ({ cap := cap }, ()) tr).1.es
    (fun e => e.val.buf.length) (64 * 1024 + 4) (by
      intro e he
      have := (hinv e he).2
      show e.val.buf.length ≤ 64 * 1024 + 4
      omega)
  have hlen' : ((tlsAnalyzer (tlsParamsOf parse isTls)).finalState ({ cap := cap }, ()) tr).1.es.length ≤ cap := by
    rw [hcap] at hlen; exact hlen
  calc _ ≤ _ := h1
    _ ≤ cap * (64 * 1024 + 4) := Nat.mul_le_mul_right _ hlen'

/-- **C11, TLS work.** At most the payload plus one maximal record. -/
theorem tls_work_bounded (r : Option Reader) (s : Seg) :
    tlsWork r s ≤ (64 * 1024 + 4) + s.payload.length := by
  unfold tlsWork
  cases r with
  | none => simp only; omega
  | some r => simp only; split <;> omega

/-! ## TCP uptime tracker: one constant-size record per (connection, role) -/

theorem tcp_entries_bounded {U : Type} (P : UptimeParams U) (fc : Seg → Bool) (cap : Nat) (tr : List Seg) :
    ((tcpAnalyzer P fc).finalState ({ cap := cap }, ()) tr).1.es.length ≤ cap := by
  obtain ⟨_, hlen, hcap⟩ := reachable_inv (tcpAnalyzer P fc) (fun _ _ => True) (fun _ => True)
    (fun s _ => by
      unfold tcpAnalyzer tcpProg
      dsimp only
      split
      · exact .ret _
      · refine .get _ _ (fun r _ => ?_)
        cases r with
        | none => exact .insert _ _ _ _ trivial (.ret _)
        | some ref =>
          dsimp only
          split
          · exact .ret _
          · split
            · exact .ret _
            · exact .insert _ _ _ _ trivial (.ret _))
    tr (fun _ _ => trivial) ({ cap := cap }, ()) (by intro e he; simp at he) (by simp)
  rw [hcap] at hlen; exact hlen

/-! ## non-vacuity: the bounds are attained up to the constant (a 3-segment HTTP flow keeps its bytes) -/

example : HttpInv 65536 ⟨⟨1, 1000⟩, ⟨2, 80⟩⟩
    ⟨⟨1, 1000⟩, ⟨2, 80⟩, [⟨1, []⟩, ⟨2, [71, 69]⟩], [], false, false, 0, none⟩ := by
  refine ⟨rfl, rfl, ?_, ?_⟩ <;> simp [sumLen]

end Huginn.Props.C11
