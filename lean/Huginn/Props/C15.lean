import Huginn.Lemmas.Wire
import Huginn.Gen.Wire
import Huginn.Props.C14
set_option linter.unusedSimpArgs false
set_option maxRecDepth 100000
/-
C15 — Filtering commutes with analysis: filters remove packets, never change results.
Property theorems only (helpers are in Huginn/Lemmas/Wire.lean).

Shape of the argument: the filter is consulted on the raw frame by `raw_filter.rs`, which decodes
addresses and ports on its own; the analyzers decode the same frame through `packet_parser.rs` and
pnet. `decoders_agree` says the two decoders find the same endpoints on *every* frame the analyzer
does not discard (since the fixes 68f354c — ports read at max(ihl*4, 20) — and 1765a5f — the `1e 00`
loopback header); `filter_commutes` derives the property for every trace, filter and start state, for
*any* analyzer that does nothing with a frame it cannot decode (`Inert`). The two former
known-finding classes (IPv4 IHL < 5, loopback header) are gone; their witness frames stay below as
regression examples.
-/
namespace Huginn.Props.C15
open Huginn.Wire Huginn.Wire.Spec Huginn.Filter

/-! ### the two decoders agree -/

/-- **decoders_agree.** On every frame, the raw filter's quick decoder finds exactly the endpoints
the analyzer reports (or the analyzer discards the frame): every framing (Ethernet / raw /
loopback), IPv4 with every header length 0..15, IPv6, every truncation. -/
theorem decoders_agree (a : Analyzer) (p : Bytes) : Agree a p := by
  unfold Agree analyzerEndpoints analyzerView
  cases hb : baseView p with
  | none => simp
  | some v =>
    by_cases hg : gate a v = true
    · simp only [hg, if_true, Option.map_some]
      exact Or.inr (extract_eq p v hb)
    · simp [hg]

-- non-vacuity: frames the analyzer does look at, incl. the former witnesses of the two findings
example : analyzerEndpoints .tcp wEth5 ≠ none ∧ analyzerEndpoints .tcp wIhl3 ≠ none ∧
    analyzerEndpoints .tcp wNull4 ≠ none ∧ analyzerEndpoints .tcp wNull6 ≠ none := by decide
example : rawFilterExtract wIhl3 = analyzerEndpoints .tcp wIhl3 ∧
    rawFilterExtract wNull4 = analyzerEndpoints .http wNull4 := by decide

/-- Agreement of the decoders gives agreement of the verdicts, for every filter. -/
theorem agreeFor_of_agree (a : Analyzer) (c : Config) (p : Bytes) (h : Agree a p) :
    AgreeFor a c p := by
  rcases h with h | h
  · exact Or.inl h
  · cases he : analyzerEndpoints a p with
    | none => exact Or.inl he
    | some e =>
      right
      rw [he] at h
      simp [rawFilterApply, ownAdmits, h, he]

/-! ### the property -/

/-- **filter_commutes** under per-filter agreement: for every analyzer step function that ignores
frames it cannot decode, every filter, start state and trace whose frames get the same verdict
from the raw filter as their own endpoints do. -/
theorem filter_commutes_of_agreeFor {σ ρ} (a : Analyzer) (step : σ → Bytes → σ × Option ρ)
    (hI : Inert a step) (c : Config) (s₀ : σ) (tr : List Bytes)
    (h : ∀ p ∈ tr, AgreeFor a c p) : Commutes a step c s₀ tr := by
  unfold Commutes
  induction tr generalizing s₀ with
  | nil => simp [run, results]
  | cons p tr ih =>
    have hp := h p (by simp)
    have ih' := fun s => ih s (fun q hq => h q (by simp [hq]))
    cases hep : analyzerEndpoints a p with
    | none =>
      have hs := hI s₀ p hep
      have hadm : ownAdmits a c p = true := by simp [ownAdmits, hep]
      simp only [List.filter_cons, hadm, if_true, run, stepFiltered]
      by_cases hap : rawFilterApply c p = true
      · simp [hap, hs, results] at *
        exact ih' s₀
      · simp [hap, hs, results] at *
        exact ih' s₀
    | some e =>
      have hag : rawFilterApply c p = ownAdmits a c p := by
        rcases hp with hp | hp
        · simp [hep] at hp
        · exact hp
      by_cases hadm : ownAdmits a c p = true
      · simp only [List.filter_cons, hadm, if_true, run, stepFiltered, hag]
        have := ih' (step s₀ p).1
        simp only [results] at this ⊢
        cases (step s₀ p).2 <;> simp [this]
      · have hadm' : ownAdmits a c p = false := by simpa using hadm
        simp only [List.filter_cons, hadm', run, stepFiltered, hag]
        have := ih' s₀
        simp only [results] at this ⊢
        simp [this]

/-- The full statement of C15 (every analyzer that ignores undecodable frames, every filter,
start state and trace). -/
def FullCommutes : Prop :=
  ∀ (σ ρ : Type) (a : Analyzer) (step : σ → Bytes → σ × Option ρ), Inert a step →
    ∀ (c : Config) (s₀ : σ) (tr : List Bytes), Commutes a step c s₀ tr

/-- **filter_commutes.** C15 at full strength: with the filter installed the analyzer reports
exactly what it reports without a filter on the sub-trace whose own endpoints the filter admits —
for every trace of well-formed and malformed frames. -/
theorem filter_commutes {σ ρ} (a : Analyzer) (step : σ → Bytes → σ × Option ρ)
    (hI : Inert a step) (c : Config) (s₀ : σ) (tr : List Bytes) : Commutes a step c s₀ tr :=
  filter_commutes_of_agreeFor a step hI c s₀ tr
    (fun p _ => agreeFor_of_agree a c p (decoders_agree a p))

theorem full_commutes : FullCommutes :=
  fun _ _ a step hI c s₀ tr => filter_commutes a step hI c s₀ tr

/-- An analyzer that reports the endpoints it decodes and keeps no state: the simplest `Inert` one. -/
def report (a : Analyzer) : Unit → Bytes → Unit × Option Ep := fun s p => (s, analyzerEndpoints a p)
theorem report_inert (a : Analyzer) : Inert a (report a) := by
  intro s p h; simp [report, h]

-- non-vacuity: traces on which the filter really removes packets; the former finding witnesses
example : results (run (report .tcp) (some denyDst80) () [wEth5, wNull6]).2 = [] ∧
    results (run (report .tcp) none () [wEth5, wNull6]).2 ≠ [] := by decide
example : results (run (report .tcp) (some allowDst80) () [wIhl3, wNull4]).2 =
    results (run (report .tcp) none () [wIhl3, wNull4]).2 ∧
    results (run (report .tcp) none () [wIhl3, wNull4]).2 ≠ [] := by decide

/-- Every analyzer of the shape "decode, then do anything with the decoded view" (which is how
`process.rs` of all three crates is written) is `Inert`. -/
def decodeThen {σ ρ} (a : Analyzer) (core : σ → View → σ × Option ρ) : σ → Bytes → σ × Option ρ :=
  fun s p => match analyzerView a p with
    | none => (s, none)
    | some v => core s v

theorem decodeThen_inert {σ ρ} (a : Analyzer) (core : σ → View → σ × Option ρ) :
    Inert a (decodeThen a core) := by
  intro s p h
  unfold analyzerEndpoints at h
  unfold decodeThen
  cases hv : analyzerView a p with
  | none => rfl
  | some v => simp [hv] at h

theorem filter_commutes_decodeThen {σ ρ} (a : Analyzer) (core : σ → View → σ × Option ρ)
    (c : Config) (s₀ : σ) (tr : List Bytes) : Commutes a (decodeThen a core) c s₀ tr :=
  filter_commutes a _ (decodeThen_inert a core) c s₀ tr

/-! ### agreement of the decoders is exactly what the property needs
(kept: if a later change breaks `decoders_agree`, these say on which frames C15 then fails) -/

/-- For the endpoint-reporting analyzer and a one-frame trace, C15 for filter `c` is exactly
`AgreeFor`. -/
theorem commutes_single_iff (a : Analyzer) (c : Config) (p : Bytes) :
    Commutes a (report a) c () [p] ↔ AgreeFor a c p := by
  unfold Commutes AgreeFor
  cases he : analyzerEndpoints a p with
  | none =>
    simp only [true_or, iff_true]
    have : ownAdmits a c p = true := by simp [ownAdmits, he]
    simp only [List.filter_cons, this, if_true, List.filter_nil, run, stepFiltered, report, he, results]
    by_cases h : rawFilterApply c p = true <;> simp [h]
  | some e =>
    simp only [reduceCtorEq, false_or]
    by_cases h1 : rawFilterApply c p = true <;> by_cases h2 : ownAdmits a c p = true <;>
      simp_all [run, stepFiltered, report, results]

/-- **agree_is_exact.** The frames on which the two decoders agree are exactly the frames for
which C15 holds (already on the one-frame trace) for *every* filter. -/
theorem agree_is_exact (a : Analyzer) (p : Bytes) :
    Agree a p ↔ ∀ c : Config, Commutes a (report a) c () [p] := by
  constructor
  · intro h c
    exact filter_commutes_of_agreeFor a (report a) (report_inert a) c () [p]
      (by intro q hq; simp at hq; subst hq; exact agreeFor_of_agree a c q h)
  · intro h
    apply Classical.byContradiction
    intro hn
    obtain ⟨c, hc⟩ := exists_filter_of_not_agree a p hn
    exact hc ((commutes_single_iff a c p).1 (h c))

theorem agree_iff_all_filters (a : Analyzer) (p : Bytes) : Agree a p ↔ ∀ c : Config, AgreeFor a c p :=
  ⟨fun h c => agreeFor_of_agree a c p h, fun h => Classical.byContradiction fun hn =>
    let ⟨c, hc⟩ := exists_filter_of_not_agree a p hn; hc (h c)⟩

/-! ### in terms of the documented filter rule (C14) -/

theorem addrWF_mkAddr (e : Ep) (h : AddrLens e) :
    Huginn.Props.C14.AddrWF (mkAddr e.ver e.src) ∧ Huginn.Props.C14.AddrWF (mkAddr e.ver e.dst) := by
  obtain ⟨ver, src, dst, sp, dp⟩ := e
  have h1 := beNat_lt src
  have h2 := beNat_lt dst
  simp only [AddrLens] at h
  cases ver
  · simp only [mkAddr, Huginn.Props.C14.AddrWF]
    rw [h.1] at h1; rw [h.2] at h2
    exact ⟨by omega, by omega⟩
  · simp only [mkAddr, Huginn.Props.C14.AddrWF]
    rw [h.1] at h1; rw [h.2] at h2
    have : (256 : Nat) ^ 16 = 2 ^ 128 := by decide
    exact ⟨by omega, by omega⟩

/-- For a configuration written with the builder API, "the filter admits the packet's own
endpoints" is the documented boolean function of C14 (`Admits`) applied to the endpoints the
analyzer reports. -/
theorem ownAdmits_eq_documented (u : Spec.UserConfig) (hc : Huginn.Props.C14.ConfigWF u)
    (a : Analyzer) (p : Bytes) (e : Ep) (he : analyzerEndpoints a p = some e) :
    ownAdmits a u.build p = true ↔
      Spec.Admits u (mkAddr e.ver e.src) (mkAddr e.ver e.dst) e.sp e.dp := by
  have hl := addrWF_mkAddr e (analyzerEndpoints_lens a p e he)
  simp only [ownAdmits, he, Ep.admittedBy]
  exact Huginn.Props.C14.should_process_eq_spec u _ _ _ _ hc hl.1 hl.2

/-! ### "no result is ever emitted for endpoints the filter rejects" -/

/-- results tagged with the frame that produced them -/
def tagged {σ ρ} (step : σ → Bytes → σ × Option ρ) : σ → Bytes → σ × Option (Bytes × ρ) :=
  fun s p => ((step s p).1, (step s p).2.map (fun r => (p, r)))

theorem no_result_for_rejected {σ ρ} (a : Analyzer) (step : σ → Bytes → σ × Option ρ)
    (c : Config) (s₀ : σ) (tr : List Bytes) :
    ∀ pr ∈ results (run (tagged step) (some c) s₀ tr).2, ownAdmits a c pr.1 = true := by
  induction tr generalizing s₀ with
  | nil => simp [run, results]
  | cons p tr ih =>
    have hp := agreeFor_of_agree a c p (decoders_agree a p)
    have ih' := fun s => ih s
    intro pr hpr
    simp only [run, stepFiltered, results, List.filterMap_cons] at hpr
    by_cases hap : rawFilterApply c p = true
    · simp only [hap, if_true] at hpr
      have hown : ownAdmits a c p = true := by
        rcases hp with hp | hp
        · simp [ownAdmits, hp]
        · rw [← hp]; exact hap
      cases hr : (tagged step s₀ p).2 with
      | none =>
        simp only [hr, id] at hpr
        exact ih' _ pr hpr
      | some x =>
        simp only [hr, id, List.mem_cons] at hpr
        rcases hpr with hx | hpr
        · have : x.1 = p := by
            unfold tagged at hr
            cases h2 : (step s₀ p).2 <;> simp [h2] at hr
            rw [← hr]
          rw [hx, this]; exact hown
        · exact ih' _ pr hpr
    · have hap' : rawFilterApply c p = false := by simpa using hap
      simp only [hap', id] at hpr
      exact ih' _ pr (by simpa [results] using hpr)

example : results (run (tagged (report .tcp)) (some allowDst80) () [wEth5]).2 ≠ [] := by decide

/-! ### regression: the witnesses of the two fixed findings -/

/-- Ethernet IPv4 with IHL = 3, SYN 1234 → 80, filter "destination port 80" (DESIGN §8 #24; fixed by
68f354c): the frame is admitted and reported, as without the filter. -/
theorem ihl3_regression :
    rawFilterApply allowDst80 wIhl3 = true ∧ Commutes .tcp (report .tcp) allowDst80 () [wIhl3] ∧
    results (run (report .tcp) (some allowDst80) () [wIhl3]).2 ≠ [] := by decide

/-- `1e 00 00 00` + IPv4 with "deny destination port 80" (fixed by 1765a5f): dropped by the filter,
and absent from the reference sub-trace as well. -/
theorem null4_regression :
    rawFilterApply denyDst80 wNull4 = false ∧ Commutes .tcp (report .tcp) denyDst80 () [wNull4] := by decide

/-! ### tie to the source (mechanism T): the literals Model/Wire mirrors, regenerated from
packet_parser.rs and raw_filter.rs on every run -/
namespace Huginn.Props.C15
open Huginn.Gen.Wire in
theorem gen_constants_match :
    ppEthMin = 14 ∧ ppEthOff = 14 ∧ ppRawMin = 20 ∧ ppNullMin = 24 ∧ ppNull0 = 0x1e ∧ ppNull1 = 0 ∧
    ppNullOff = 4 ∧ rfFam4 = 2 ∧ rfFam6a = 30 ∧ rfFam6b = 28 ∧ rfNullOff = 4 ∧ rfV4Min = 20 ∧
    rfV4ProtoOff = 9 ∧ rfProto = 6 ∧ rfIhlMul = 4 ∧ rfPortBytes = 4 ∧ rfV6Min = 40 ∧ rfV6NhOff = 6 ∧
    rfV6Proto = 6 ∧ rfV6Need = 44 ∧ rfIhlMin = 20 ∧ rfNullSig0 = 0x1e ∧ rfNullSig1 = 0 ∧
    rfNullSigGt = 4 := by decide
end Huginn.Props.C15
