import Huginn.Model.FlowProgs
import Huginn.Model.Uptime
import Huginn.Props.C19
set_option linter.unusedSimpArgs false
/-
Bridge between the two models of `check_ts_tcp` (huginn-net-tcp/src/uptime.rs):

* `Uptime.checkTs` on `Uptime.Cache` (Model/Uptime.lean) — the object of C19's theorems;
* `FlowProgs.tcpProg` on the generic `TtlMap` (Model/FlowProgs.lean) with the frequency estimate as a
  parameter — the object of C07 isolation, C10 pool ≡ sequential, C11 bounds and C01 no-poisoning.

With the parameter instantiated by C19's `calcFreq`/`finalFreq`/`uptimeFrom`, the two are the same
function: same table afterwards (entry by entry, insertion order, expiry instants, eviction), same
report — for every table, capacity, instant and timestamp. No side condition.
-/
namespace Huginn.Props.C19Bridge
open Huginn.Flow Huginn.FlowProgs Huginn.Uptime

def toAddrKey (k : TcpKey) : Key :=
  ⟨⟨(false, k.src.addr), k.src.port, (false, k.dst.addr), k.dst.port⟩, k.isClient⟩

theorem toAddrKey_inj {a b : TcpKey} (h : toAddrKey a = toAddrKey b) : a = b := by
  obtain ⟨⟨a1, a2⟩, ⟨a3, a4⟩, a5⟩ := a
  obtain ⟨⟨b1, b2⟩, ⟨b3, b4⟩, b5⟩ := b
  simp only [toAddrKey, Key.mk.injEq, Conn.mk.injEq, Prod.mk.injEq, true_and] at h
  obtain ⟨⟨h1, h2, h3, h4⟩, h5⟩ := h
  subst h1 h2 h3 h4 h5; rfl

def toStamp (v : TsEntry) : Stamp := ⟨v.tsVal, v.recvMs, v.bad⟩

def conv (e : Entry TcpKey TsEntry) : Key × Stamp × Nat := (toAddrKey e.key, toStamp e.val, e.exp)

def toCache (m : TtlMap TcpKey TsEntry) : Cache := ⟨m.cap, m.es.map conv⟩

/-- The frequency chain of C19 as the parameter of the cache program. -/
def uptimeParams : UptimeParams Uptime :=
  { estimate := fun ts wall rts rms => (calcFreq ts wall rts rms).map (fun r => uptimeFrom ts (finalFreq r)),
    ttlMs := cacheTtlMs }

def toOut : UptimeOut Uptime → Out
  | .none => {}
  | .client u => { client := some u }
  | .server u => { server := some u }

theorem find_conv (es : List (Entry TcpKey TsEntry)) (k : TcpKey) :
    (es.map conv).find? (fun e => e.1 == toAddrKey k) = (es.find? (fun e => e.key = k)).map conv := by
  induction es with
  | nil => rfl
  | cons e es ih =>
    by_cases h : e.key = k
    · have h1 : ((conv e).1 == toAddrKey k) = true := by simp [conv, h]
      have h2 : decide (e.key = k) = true := by simpa using h
      rw [List.map_cons, List.find?_cons_of_pos (p := fun e : Key × Stamp × Nat => e.1 == toAddrKey k) h1,
        List.find?_cons_of_pos (p := fun e : Entry TcpKey TsEntry => decide (e.key = k)) h2]
      rfl
    · have h1 : ¬ (((conv e).1 == toAddrKey k) = true) := by
        simp only [conv, beq_iff_eq]; exact fun h' => h (toAddrKey_inj h')
      have h2 : ¬ (decide (e.key = k) = true) := by simpa using h
      rw [List.map_cons, List.find?_cons_of_neg (p := fun e : Key × Stamp × Nat => e.1 == toAddrKey k) h1,
        List.find?_cons_of_neg (p := fun e : Entry TcpKey TsEntry => decide (e.key = k)) h2]
      exact ih

theorem filter_conv (es : List (Entry TcpKey TsEntry)) (k : TcpKey) :
    (es.map conv).filter (fun e => !(e.1 == toAddrKey k)) = (es.filter (fun e => e.key ≠ k)).map conv := by
  induction es with
  | nil => rfl
  | cons e es ih =>
    by_cases h : e.key = k
    · have h1 : ¬ ((!((conv e).1 == toAddrKey k)) = true) := by simp [conv, h]
      have h2 : ¬ (decide (e.key ≠ k) = true) := by simpa using h
      rw [List.map_cons, List.filter_cons_of_neg (p := fun e : Key × Stamp × Nat => !(e.1 == toAddrKey k)) h1,
        List.filter_cons_of_neg (p := fun e : Entry TcpKey TsEntry => decide (e.key ≠ k)) h2]
      exact ih
    · have h1 : (!((conv e).1 == toAddrKey k)) = true := by
        simp only [conv, Bool.not_eq_true', beq_eq_false_iff_ne, ne_eq]
        exact fun h' => h (toAddrKey_inj h')
      have h2 : decide (e.key ≠ k) = true := by simpa using h
      rw [List.map_cons, List.filter_cons_of_pos (p := fun e : Key × Stamp × Nat => !(e.1 == toAddrKey k)) h1,
        List.filter_cons_of_pos (p := fun e : Entry TcpKey TsEntry => decide (e.key ≠ k)) h2, List.map_cons, ih]

theorem get_conv (m : TtlMap TcpKey TsEntry) (now : Nat) (k : TcpKey) :
    (toCache m).get now (toAddrKey k) = (m.get now k).map toStamp := by
  unfold Cache.get toCache TtlMap.get TtlMap.find?
  simp only [find_conv]
  cases m.es.find? (fun e => e.key = k) with
  | none => rfl
  | some e =>
    simp only [Option.map_some, conv]
    split <;> rfl

theorem insert_conv (m : TtlMap TcpKey TsEntry) (now : Nat) (k : TcpKey) (v : TsEntry) (ttl : Nat) :
    toCache (m.insert now k v ttl) = (toCache m).insert now (toAddrKey k) (toStamp v) ttl := by
  unfold Cache.insert toCache TtlMap.insert
  simp only [filter_conv]
  have happ : (m.es.filter (fun e => e.key ≠ k)).map conv ++ [(toAddrKey k, toStamp v, now + ttl)] =
      (m.es.filter (fun e : Entry TcpKey TsEntry => e.key ≠ k) ++ [(⟨k, v, now + ttl⟩ : Entry TcpKey TsEntry)]).map conv := by
    rw [List.map_append]; rfl
  rw [happ, List.length_map]
  by_cases hc : (m.es.filter (fun e : Entry TcpKey TsEntry => e.key ≠ k) ++
      [(⟨k, v, now + ttl⟩ : Entry TcpKey TsEntry)]).length > m.cap
  · simp only [hc, if_true, List.map_drop]
  · simp only [hc, if_false]

/-- **One timestamped segment**: same table, same report. -/
theorem tcp_step_bridge (fc : Seg → Bool) (s : Seg) (ts : Nat) (hts : s.tsval = some ts)
    (now : Nat) (m : TtlMap TcpKey TsEntry) :
    toCache ((tcpProg uptimeParams fc s).run now m ()).1 =
        (checkTs (toCache m) now s.wall (toAddrKey ⟨s.src, s.dst, fc s⟩).conn (fc s) ts).1 ∧
      toOut ((tcpProg uptimeParams fc s).run now m ()).2.2 =
        (checkTs (toCache m) now s.wall (toAddrKey ⟨s.src, s.dst, fc s⟩).conn (fc s) ts).2 := by
  have hk : (⟨(toAddrKey ⟨s.src, s.dst, fc s⟩).conn, fc s⟩ : Key) = toAddrKey ⟨s.src, s.dst, fc s⟩ := rfl
  unfold tcpProg checkTs checkTsT
  simp only [hts, Prog.run, hk, get_conv]
  cases hg : m.get now ⟨s.src, s.dst, fc s⟩ with
  | none =>
    simp only [Option.map_none, Prog.run]
    exact ⟨insert_conv m now _ _ _, rfl⟩
  | some ref =>
    simp only [Option.map_some, toStamp]
    by_cases hb : ref.bad = true
    · simp only [hb, if_true, Prog.run]; exact ⟨by trivial, by trivial⟩
    · simp only [hb, Bool.false_eq_true, if_false]
      have hest : uptimeParams.estimate ts s.wall ref.tsVal ref.recvMs =
          ((calcFreqT ts s.wall ref.tsVal ref.recvMs).1).map (fun r => uptimeFrom ts (finalFreqT r).1) := rfl
      rw [hest]
      cases hc : (calcFreqT ts s.wall ref.tsVal ref.recvMs).1 with
      | none =>
        simp only [Option.map_none, Prog.run]
        exact ⟨insert_conv m now _ _ _, rfl⟩
      | some r =>
        simp only [Option.map_some, Prog.run]
        refine ⟨by trivial, ?_⟩
        cases fc s <;> rfl

/-- The two extractions of the tracker's entry lifetime (Gen/Uptime.lean for C19, Gen/FlowTtl.lean for the
cache programs) read the same constant: the cache program's default lifetime is C19's. -/
theorem ttl_agree : ({ estimate := uptimeParams.estimate } : UptimeParams Uptime).ttlMs = cacheTtlMs := by decide

/-- The observation the tracker makes of a timestamped segment. -/
def toObs (fc : Seg → Bool) (s : Seg) (ts : Nat) : Obs :=
  { mono := s.time, wall := s.wall, conn := (toAddrKey ⟨s.src, s.dst, fc s⟩).conn, fromClient := fc s, ts := ts }

/-- **Histories**: for every sequence of timestamped segments, every table and capacity (eviction and
expiry included), the uptime analyzer as a cache program reports exactly what `Uptime.run` — the object
of C19's theorems — reports. -/
theorem tcp_trace_bridge (fc : Seg → Bool) (tr : List (Seg × Nat)) (htr : ∀ x ∈ tr, x.1.tsval = some x.2)
    (m : TtlMap TcpKey TsEntry) :
    ((tcpAnalyzer uptimeParams fc).runOuts (m, ()) (tr.map (·.1))).map (fun po => toOut po.2) =
      Uptime.run (toCache m) (tr.map (fun x => toObs fc x.1 x.2)) := by
  induction tr generalizing m with
  | nil => rfl
  | cons x tr ih =>
    obtain ⟨s, ts⟩ := x
    have hts : s.tsval = some ts := htr (s, ts) (by simp)
    obtain ⟨h1, h2⟩ := tcp_step_bridge fc s ts hts s.time m
    have := ih (fun y hy => htr y (by simp [hy])) ((tcpProg uptimeParams fc s).run s.time m ()).1
    simp only [List.map_cons, Analyzer.runOuts, Analyzer.step, tcpAnalyzer, Uptime.run, toObs]
    simp only [tcpAnalyzer] at this
    rw [h1] at this
    have hhead : toOut ((tcpProg uptimeParams fc s).run s.time m ()).2.2 =
        (checkTs (toCache m) s.time s.wall (toAddrKey ⟨s.src, s.dst, fc s⟩).conn (fc s) ts).2 := h2
    rw [hhead]
    exact congrArg (List.cons _) this

/-- **C19 on the cache-program analyzer.** For every history of timestamped segments (any number of
connections, both directions interleaved) that fits a fresh tracker of capacity `cap` and avoids the
known-finding classes, what the uptime analyzer *as a cache program* (the model C07/C10/C11/C01 are
about) reports satisfies C19's per-endpoint specification. -/
theorem run_meets_spec_cache (fc : Seg → Bool) (tr : List (Seg × Nat)) (htr : ∀ x ∈ tr, x.1.tsval = some x.2)
    (cap : Nat) (hcap : tr.length ≤ cap)
    (hwf : ∀ x ∈ tr, x.1.time ≤ cacheTtlMs ∧ x.2 < U32)
    (hkf : Huginn.Props.C19.noKF [] (tr.map (fun x => toObs fc x.1 x.2))) :
    Huginn.Uptime.Spec.specRun [] (tr.map (fun x => toObs fc x.1 x.2))
      (((tcpAnalyzer uptimeParams fc).runOuts ({ cap := cap }, ()) (tr.map (·.1))).map (fun po => toOut po.2)) = true := by
  rw [tcp_trace_bridge fc tr htr]
  refine Huginn.Props.C19.run_meets_spec_partial _ (toCache { cap := cap }) [] ?_ ?_ ?_ hkf
  · exact ⟨fun k m _ => rfl, fun k t v h => by cases h⟩
  · simp [toCache]; exact hcap
  · intro o ho
    obtain ⟨x, hx, rfl⟩ := List.mem_map.1 ho
    exact hwf x hx

end Huginn.Props.C19Bridge
