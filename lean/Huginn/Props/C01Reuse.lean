import Huginn.Props.C01
/-
C01 / C07, the excluded point of the no-poisoning and isolation theorems: they are stated per flow key and
require the probe connection's key to be unused by the history (`fresh_probe`: `∀ p ∈ hist, conn p ≠ c`).
The statement has no such condition ("after any such input the same analyzer instance still analyses a
following well-formed input exactly as a fresh instance would"; "no connection can disable analysis of the
connections that follow it"). At the excluded point — a NEW connection on a 4-tuple whose previous connection
left an unfinished flow behind — the flow tables, keyed by the 4-tuple alone and blind to SYN, splice the old
leftovers and the new bytes together: the new connection is reported with a fingerprint that is not its own
(TLS) or not at all (HTTP). Open finding `KF.C01.reusedTupleUnfinishedFlow` (known_findings.json; real-code
witness: op `C01.reuse`). Here: the witness on the model.
-/
namespace Huginn.Props.C01
open Huginn.Flow Huginn.FlowProgs Huginn.Props.C07

private def toyParse (b : Bytes) : AddRes Bytes := .sig b
private def toyIsTls (p : Bytes) : Bool := p.take 1 == [0x16]
private def kEp : Ep × Ep := (⟨1, 40000⟩, ⟨2, 443⟩)
private def mkSeg (syn : Bool) (payload : Bytes) (t : Nat) : Seg :=
  ⟨kEp.1, kEp.2, 0, syn, !syn, false, false, payload, t, t, none⟩

/-- old connection: SYN, then 7 of the 9 bytes of a record; new connection on the same 4-tuple: SYN, then a
whole 9-byte record -/
private def oldConn : List Seg := [mkSeg true [] 0, mkSeg false [0x16, 3, 1, 0, 4, 0xa1, 0xa2] 1]
private def newConn : List Seg := [mkSeg true [] 2, mkSeg false [0x16, 3, 1, 0, 4, 0xb1, 0xb2, 0xb3, 0xb4] 3]

/-- Witness: after the unfinished old connection, the new one is reported with bytes of BOTH connections;
a fresh analyzer reports the new connection's own record. -/
theorem kf_reusedTuple_witness :
    (((tlsAnalyzer (tlsParamsOf toyParse toyIsTls)).runOuts ({ cap := 8 }, ()) (oldConn ++ newConn)).map (·.2)).drop 2 =
      [none, some [0x16, 3, 1, 0, 4, 0xa1, 0xa2, 0x16, 3]] ∧
    ((tlsAnalyzer (tlsParamsOf toyParse toyIsTls)).runOuts ({ cap := 8 }, ()) newConn).map (·.2) =
      [none, some [0x16, 3, 1, 0, 4, 0xb1, 0xb2, 0xb3, 0xb4]] := by
  decide +kernel

end Huginn.Props.C01
