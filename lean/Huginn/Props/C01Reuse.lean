import Huginn.Props.C01
import Huginn.Props.C08FlowBridge
import Huginn.Lemmas.TlsReader
import Huginn.Props.C07Cap
/-
C01 / C07, the excluded point of the no-poisoning and isolation theorems: they are stated per flow key and
require the probe connection's key to be unused by the history (`fresh_probe`: `∀ p ∈ hist, conn p ≠ c`).
The statement has no such condition ("after any such input the same analyzer instance still analyses a
following well-formed input exactly as a fresh instance would"; "no connection can disable analysis of the
connections that follow it"). At the excluded point — a NEW connection on a 4-tuple whose previous connection
left an unfinished flow behind — flow tables keyed by the 4-tuple alone and blind to SYN splice the old
leftovers and the new bytes together.

Both repaired (`fix: a SYN drops the stale TLS reassembly state of its 4-tuple`, `fix: a SYN with a new sequence
number drops the stale HTTP flow of its 4-tuple`); `tlsProg` / `httpProg` model the reset. `tls_syn_resets` and
`http_syn_resets` / `http_reused_tuple_as_fresh` prove, for EVERY earlier history on the 4-tuple, that a connection
opened by its SYN is reported as by a fresh analyzer. `reset_is_needed` keeps the witness of what `tlsBody` alone
(the code before the repair) did. Real-code witness: op `C01.reuse`.
-/
namespace Huginn.Props.C01
open Huginn.Flow Huginn.FlowProgs Huginn.Props.C07 Huginn.Tls Huginn.Lemmas.TlsReader Huginn.Props.C08Bridge

/-- **A SYN makes the 4-tuple fresh (TLS).** For every parser, every table `f` (whatever earlier connections —
on this 4-tuple or others — left in it), every key `k`: after the SYN of a new connection on `k` (with or
without Fast-Open data `p0`), the reports for the connection's segments `p0 :: segs` are exactly those of a
table that never saw `k` — they do not depend on `f` at all. -/
theorem tls_syn_resets {κ σ : Type} [DecidableEq κ] (parse : Huginn.Tls.Bytes → PR σ) (f : Flows κ σ)
    (hcap : 1 ≤ f.cap) (k : κ) (p0 : Huginn.Tls.Bytes) (segs : List Huginn.Tls.Bytes) :
    runPacketsS parse f ((k, true, p0) :: segs.map (fun p => (k, false, p))) =
      flowRun parse none (p0 :: segs) := by
  have hns : ∀ x ∈ segs.map (fun p => (k, false, p)), x.2.1 = false := by
    intro x hx; obtain ⟨_, _, rfl⟩ := List.mem_map.1 hx; rfl
  have hrun := runPackets_single parse k (p0 :: segs) (f.remove k) (by simpa [Flows.remove] using hcap)
  simp only [runPacketsS, processTcpS, if_true]
  rw [runPacketsS_noSyn parse _ _ hns]
  simp only [List.map_cons, runPackets, List.map_map, Function.comp_def] at hrun ⊢
  rw [hrun]
  have hg : (f.remove k).get? k = none := get?_remove f k
  rw [hg]

/-- … in particular the same reports as a fresh table of any capacity ≥ 1. -/
theorem tls_syn_as_fresh {κ σ : Type} [DecidableEq κ] (parse : Huginn.Tls.Bytes → PR σ) (f : Flows κ σ)
    (hcap : 1 ≤ f.cap) (cap' : Nat) (hcap' : 1 ≤ cap') (k : κ) (p0 : Huginn.Tls.Bytes) (segs : List Huginn.Tls.Bytes) :
    runPacketsS parse f ((k, true, p0) :: segs.map (fun p => (k, false, p))) =
      runPacketsS parse ({ cap := cap' } : Flows κ σ) ((k, true, p0) :: segs.map (fun p => (k, false, p))) := by
  rw [tls_syn_resets parse f hcap, tls_syn_resets parse _ hcap']

/-! ### HTTP -/

/-- **A SYN with a new sequence number makes the 4-tuple fresh (HTTP), one packet.** On a table that holds only
flows of this 4-tuple (whatever an earlier connection left there), a SYN without ACK whose sequence number is not
the stored flow's is processed exactly as on the empty table: same table afterwards, same processor state, same
output — so everything that follows is analysed as by a fresh analyzer. -/
theorem http_syn_resets {γ Q P : Type} (H : HttpParams γ Q P) (s : Seg) (hs : s.syn = true) (ha : s.ack = false)
    (now : Nat) (m : TtlMap FlowKey TcpFlow) (g : γ)
    (hkeys : ∀ e ∈ m.es, e.key = ⟨s.src, s.dst⟩ ∨ e.key = ⟨s.dst, s.src⟩)
    (hisn : (m.get now ⟨s.src, s.dst⟩).map (·.clientIsn) ≠ some s.seq) :
    (httpProg H s).run now m g = (httpProg H s).run now { cap := m.cap } g := by
  have hrm : (m.remove ⟨s.src, s.dst⟩).remove ⟨s.dst, s.src⟩ = { cap := m.cap } := by
    unfold TtlMap.remove
    simp only [List.filter_filter]
    congr 1
    apply List.filter_eq_nil_iff.2
    intro e he
    rcases hkeys e he with h | h <;> simp [h]
  have hc : ((Option.map (fun x : TcpFlow => x.clientIsn) (m.get now ⟨s.src, s.dst⟩)) == some s.seq) = false := by
    simpa using hisn
  have he : ({ cap := m.cap } : TtlMap FlowKey TcpFlow).get now ⟨s.src, s.dst⟩ = none := rfl
  unfold httpProg
  simp only [hs, ha, Bool.not_false, Bool.and_self, if_true, Prog.run, hc, Bool.false_eq_true, if_false, hrm, he,
    Option.map_none]
  rfl

/-- Report results do not depend on the processor state the run starts in (for parsers with `ResultIndep`). -/
theorem http_runOuts_state_indep {γ Q P : Type} (H : HttpParams γ Q P) (hri : ResultIndep H)
    (tr : List Seg) (m : TtlMap FlowKey TcpFlow) (g g' : γ) :
    (httpAnalyzer H).runOuts (m, g) tr = (httpAnalyzer H).runOuts (m, g') tr := by
  have h1 := (sim_trace (httpAnalyzer H) (httpAnalyzer (H.pure g)) (fun _ => rfl)
    (fun p => httpProg_sim H hri g p) tr m g g).1
  have h2 := (sim_trace (httpAnalyzer H) (httpAnalyzer (H.pure g)) (fun _ => rfl)
    (fun p => httpProg_sim H hri g p) tr m g' g).1
  rw [h1, h2]

/-- **Reused 4-tuple, whole traces (HTTP).** Take ANY earlier history `old` on the two directed keys of a
4-tuple (finished or not, well-formed or not), on a fresh analyzer of capacity ≥ 2; then a new connection: its
SYN `s` (no ACK, a sequence number other than the stored flow's) and anything after it. The reports for
`s :: rest` are exactly those of a fresh analyzer. -/
theorem http_reused_tuple_as_fresh {γ Q P : Type} (H : HttpParams γ Q P) (hri : ResultIndep H)
    (old : List Seg) (s : Seg) (rest : List Seg) (cap : Nat) (hcap : 2 ≤ cap) (g : γ)
    (hs : s.syn = true) (ha : s.ack = false)
    (hold : ∀ x ∈ old, flowKeyOf x = ⟨s.src, s.dst⟩ ∨ flowKeyOf x = ⟨s.dst, s.src⟩)
    (hisn : (((httpAnalyzer H).finalState ({ cap := cap }, g) old).1.get s.time ⟨s.src, s.dst⟩).map (·.clientIsn)
      ≠ some s.seq) :
    (httpAnalyzer H).runOuts ((httpAnalyzer H).finalState ({ cap := cap }, g) old) (s :: rest) =
      (httpAnalyzer H).runOuts ({ cap := cap }, g) (s :: rest) := by
  -- the table after `old` holds only the two keys, and keeps its capacity
  have hinv : ∀ (tr : List Seg) (m : TtlMap FlowKey TcpFlow) (g : γ),
      (∀ x ∈ tr, flowKeyOf x = ⟨s.src, s.dst⟩ ∨ flowKeyOf x = ⟨s.dst, s.src⟩) →
      KeysIn [⟨s.src, s.dst⟩, ⟨s.dst, s.src⟩] m → 2 ≤ m.cap →
      KeysIn [⟨s.src, s.dst⟩, ⟨s.dst, s.src⟩] ((httpAnalyzer H).finalState (m, g) tr).1 ∧
        ((httpAnalyzer H).finalState (m, g) tr).1.cap = m.cap := by
    intro tr
    induction tr with
    | nil => intro m g _ h _; exact ⟨h, rfl⟩
    | cons x tr ih =>
      intro m g hx h hc
      have hins : InsertsIn [⟨s.src, s.dst⟩, ⟨s.dst, s.src⟩] (httpProg H x) :=
        http_insertsIn H x _ (fun _ => by
          show flowKeyOf x ∈ _
          rcases hx x (by simp) with h | h <;> simp [h])
      obtain ⟨_, b, c⟩ := progNoEvict_of_keysIn (httpProg H x) hins x.time m g h (by simpa using hc)
      obtain ⟨i1, i2⟩ := ih _ ((httpProg H x).run x.time m g).2.1 (fun y hy => hx y (by simp [hy])) b (by rw [c]; exact hc)
      exact ⟨i1, i2.trans c⟩
  obtain ⟨hk, hc⟩ := hinv old { cap := cap } g hold (keysIn_empty _ cap) hcap
  have hstep := http_syn_resets H s hs ha s.time ((httpAnalyzer H).finalState ({ cap := cap }, g) old).1
    ((httpAnalyzer H).finalState ({ cap := cap }, g) old).2
    (fun e he => by simpa using hk.2 e he) hisn
  rw [hc] at hstep
  rw [http_runOuts_state_indep H hri (s :: rest) { cap := cap } g ((httpAnalyzer H).finalState ({ cap := cap }, g) old).2]
  simp only [Analyzer.runOuts, Analyzer.step, httpAnalyzer] at hstep ⊢
  rw [hstep]

private def toyParse (b : FlowProgs.Bytes) : AddRes FlowProgs.Bytes := .sig b
private def toyIsTls (p : FlowProgs.Bytes) : Bool := p.take 1 == [0x16]
private def kEp : Ep × Ep := (⟨1, 40000⟩, ⟨2, 443⟩)
private def mkSeg (syn : Bool) (payload : FlowProgs.Bytes) (t : Nat) : Seg :=
  ⟨kEp.1, kEp.2, 0, syn, !syn, false, false, payload, t, t, none⟩

/-- old connection: SYN, then 7 of the 9 bytes of a record; new connection on the same 4-tuple: SYN, then a
whole 9-byte record -/
private def oldConn : List Seg := [mkSeg true [] 0, mkSeg false [0x16, 3, 1, 0, 4, 0xa1, 0xa2] 1]
private def newConn : List Seg := [mkSeg true [] 2, mkSeg false [0x16, 3, 1, 0, 4, 0xb1, 0xb2, 0xb3, 0xb4] 3]

private def toyH : HttpParams Unit Nat Nat :=
  { parseReq := fun g b => (g, if b.length ≥ 4 then some b.length else none), parseResp := fun g _ => (g, none) }
private def hSeg (syn : Bool) (seq : Nat) (payload : FlowProgs.Bytes) (t : Nat) : Seg :=
  ⟨kEp.1, kEp.2, seq, syn, !syn, false, false, payload, t, t, none⟩

/-- Non-vacuity of `http_reused_tuple_as_fresh`: an old connection (ISN 100) that left two bytes behind, then a
new SYN with ISN 7000 — the hypotheses hold, and the new connection's four bytes are reported. -/
example :
    let old := [hSeg true 100 [] 0, hSeg false 101 [71, 69] 1]
    let s := hSeg true 7000 [] 2
    (∀ x ∈ old, flowKeyOf x = ⟨s.src, s.dst⟩ ∨ flowKeyOf x = ⟨s.dst, s.src⟩) ∧
    ((((httpAnalyzer toyH).finalState ({ cap := 4 }, ()) old).1.get s.time ⟨s.src, s.dst⟩).map (·.clientIsn)
      ≠ some s.seq) ∧
    ((httpAnalyzer toyH).runOuts ((httpAnalyzer toyH).finalState ({ cap := 4 }, ()) old)
        [s, hSeg false 7001 [71, 69, 84, 32] 3]).map (·.2.req) = [none, some 4] := by
  decide +kernel

/-- The cache-program analyzer on the concrete history: with the reset the new connection is reported with its
own record, after the unfinished old connection as on a fresh analyzer. -/
theorem reusedTuple_tls_now_fresh :
    (((tlsAnalyzer (tlsParamsOf toyParse toyIsTls)).runOuts ({ cap := 8 }, ()) (oldConn ++ newConn)).map (·.2)).drop 2 =
      ((tlsAnalyzer (tlsParamsOf toyParse toyIsTls)).runOuts ({ cap := 8 }, ()) newConn).map (·.2) ∧
    ((tlsAnalyzer (tlsParamsOf toyParse toyIsTls)).runOuts ({ cap := 8 }, ()) newConn).map (·.2) =
      [none, some [0x16, 3, 1, 0, 4, 0xb1, 0xb2, 0xb3, 0xb4]] := by
  decide +kernel

/-- What the code before the repair did (`tlsBody` alone, no reset): after the unfinished old connection the new
one is reported with bytes of BOTH connections. -/
theorem reset_is_needed :
    let noReset : Analyzer FlowKey Reader Unit Unit Seg (Option FlowProgs.Bytes) := ⟨tlsBody (tlsParamsOf toyParse toyIsTls), Seg.time⟩
    ((noReset.runOuts ({ cap := 8 }, ()) (oldConn ++ newConn)).map (·.2)).drop 2 =
      [none, some [0x16, 3, 1, 0, 4, 0xa1, 0xa2, 0x16, 3]] := by
  decide +kernel

/-! ### inside arbitrary other traffic (C07 ∘ the reset) -/

theorem runOuts_append {κ σ γ ρ Pkt Out : Type} [DecidableEq κ] (A : Analyzer κ σ γ ρ Pkt Out)
    (st : TtlMap κ σ × γ) (a b : List Pkt) :
    A.runOuts st (a ++ b) = A.runOuts st a ++ A.runOuts (A.finalState st a) b := by
  induction a generalizing st with
  | nil => rfl
  | cons p a ih => simp only [List.cons_append, Analyzer.runOuts, Analyzer.finalState, ih]

theorem runOuts_length {κ σ γ ρ Pkt Out : Type} [DecidableEq κ] (A : Analyzer κ σ γ ρ Pkt Out)
    (st : TtlMap κ σ × γ) (a : List Pkt) : (A.runOuts st a).length = a.length := by
  induction a generalizing st with
  | nil => rfl
  | cons p a ih => simp only [Analyzer.runOuts, List.length_cons, ih]

theorem connOf_eq {a b c d : Ep} (h : connOf a b = connOf c d) : (a = c ∧ b = d) ∨ (a = d ∧ b = c) := by
  unfold connOf at h
  by_cases h1 : Ep.le a b = true <;> by_cases h2 : Ep.le c d = true <;>
    simp only [h1, h2, if_true, if_false, Prod.mk.injEq, Bool.false_eq_true] at h
  · exact Or.inl h
  · exact Or.inr h
  · exact Or.inr ⟨h.2, h.1⟩
  · exact Or.inl ⟨h.2, h.1⟩

/-- **Reused 4-tuple inside arbitrary other traffic (HTTP).** In ANY capture that opens at most `cap ≥ 2`
distinct flows: if the segments of connection `s`'s endpoint pair are, in arrival order, `old ++ s :: rest` —
any earlier traffic on the pair, then a SYN without ACK whose sequence number is not the stored flow's — what
the analyzer reports for `s :: rest` in the interleaved run is exactly what a fresh analyzer reports for
`s :: rest` alone. -/
theorem http_reused_tuple_interleaved {γ Q P : Type} (H : HttpParams γ Q P) (hri : ResultIndep H)
    (tr old : List Seg) (s : Seg) (rest : List Seg) (cap : Nat) (hcap : 2 ≤ cap) (g : γ)
    (hs : s.syn = true) (ha : s.ack = false)
    (hsel : tr.filter (fun p => decide (httpConnOf p = httpConnOf s)) = old ++ s :: rest)
    (hisn : (((httpAnalyzer H).finalState ({ cap := cap }, g) old).1.get s.time ⟨s.src, s.dst⟩).map (·.clientIsn)
      ≠ some s.seq)
    (K : List FlowKey) (hK : ∀ x ∈ tr, x.syn = true → flowKeyOf x ∈ K) (hlen : K.length ≤ cap) :
    (((httpAnalyzer H).runOuts ({ cap := cap }, g) tr).filter
        (fun po => decide (httpConnOf po.1 = httpConnOf s))).drop old.length =
      (httpAnalyzer H).runOuts ({ cap := cap }, g) (s :: rest) := by
  have hold : ∀ x ∈ old, flowKeyOf x = ⟨s.src, s.dst⟩ ∨ flowKeyOf x = ⟨s.dst, s.src⟩ := by
    intro x hx
    have hm : x ∈ tr.filter (fun p => decide (httpConnOf p = httpConnOf s)) := by rw [hsel]; simp [hx]
    have := of_decide_eq_true (List.mem_filter.1 hm).2
    rcases connOf_eq this with ⟨h1, h2⟩ | ⟨h1, h2⟩
    · left; simp [flowKeyOf, h1, h2]
    · right; simp [flowKeyOf, h1, h2]
  rw [http_isolation_cap H hri (httpConnOf s) tr cap g K hK hlen, hsel, runOuts_append]
  have hl := runOuts_length (httpAnalyzer H) ({ cap := cap }, g) old
  rw [List.drop_left' hl]
  exact http_reused_tuple_as_fresh H hri old s rest cap hcap g hs ha hold hisn


/-- **A SYN makes the 4-tuple fresh (TLS), on the cache-program model, one packet.** -/
theorem tls_syn_resets_cache {R S : Type} (P : TlsParams R S) (s : Seg) (hs : s.syn = true) (now : Nat)
    (m : TtlMap FlowKey R) (hkeys : ∀ e ∈ m.es, e.key = ⟨s.src, s.dst⟩) :
    (tlsProg P s).run now m () = (tlsProg P s).run now { cap := m.cap } () := by
  have hrm : m.remove ⟨s.src, s.dst⟩ = { cap := m.cap } := by
    unfold TtlMap.remove
    congr 1
    apply List.filter_eq_nil_iff.2
    intro e he
    simp [hkeys e he]
  unfold tlsProg
  simp only [hs, if_true, Prog.run, hrm]
  rfl

/-- **Reused 4-tuple, whole traces (TLS).** After ANY earlier history `old` on the directed 4-tuple, on a fresh
analyzer of capacity ≥ 1, a connection opened by its SYN is reported exactly as by a fresh analyzer. -/
theorem tls_reused_tuple_as_fresh {R S : Type} (P : TlsParams R S) (old : List Seg) (s : Seg) (rest : List Seg)
    (cap : Nat) (hcap : 1 ≤ cap) (hs : s.syn = true) (hold : ∀ x ∈ old, flowKeyOf x = flowKeyOf s) :
    (tlsAnalyzer P).runOuts ((tlsAnalyzer P).finalState ({ cap := cap }, ()) old) (s :: rest) =
      (tlsAnalyzer P).runOuts ({ cap := cap }, ()) (s :: rest) := by
  have hinv : ∀ (tr : List Seg) (m : TtlMap FlowKey R),
      (∀ x ∈ tr, flowKeyOf x = flowKeyOf s) → KeysIn [flowKeyOf s] m → 1 ≤ m.cap →
      KeysIn [flowKeyOf s] ((tlsAnalyzer P).finalState (m, ()) tr).1 ∧
        ((tlsAnalyzer P).finalState (m, ()) tr).1.cap = m.cap := by
    intro tr
    induction tr with
    | nil => intro m _ h _; exact ⟨h, rfl⟩
    | cons x tr ih =>
      intro m hx h hc
      have hins : InsertsIn [flowKeyOf s] (tlsProg P x) :=
        tls_insertsIn P x _ (by
          show flowKeyOf x ∈ _
          rw [hx x (by simp)]; simp)
      obtain ⟨_, b, c⟩ := progNoEvict_of_keysIn (tlsProg P x) hins x.time m () h (by simpa using hc)
      obtain ⟨i1, i2⟩ := ih _ (fun y hy => hx y (by simp [hy])) b (by rw [c]; exact hc)
      exact ⟨i1, i2.trans c⟩
  obtain ⟨hk, hc⟩ := hinv old { cap := cap } hold (keysIn_empty _ cap) hcap
  have hstep := tls_syn_resets_cache P s hs s.time ((tlsAnalyzer P).finalState ({ cap := cap }, ()) old).1
    (fun e he => by simpa [flowKeyOf] using hk.2 e he)
  rw [hc] at hstep
  simp only [Analyzer.runOuts, Analyzer.step, tlsAnalyzer] at hstep ⊢
  rw [hstep]

/-- **Reused 4-tuple inside arbitrary other traffic (TLS).** -/
theorem tls_reused_tuple_interleaved {R S : Type} (P : TlsParams R S) (tr old : List Seg) (s : Seg) (rest : List Seg)
    (cap : Nat) (hcap : 1 ≤ cap) (hs : s.syn = true)
    (hsel : tr.filter (fun p => decide (flowKeyOf p = flowKeyOf s)) = old ++ s :: rest)
    (K : List FlowKey) (hK : ∀ x ∈ tr, flowKeyOf x ∈ K) (hlen : K.length ≤ cap) :
    (((tlsAnalyzer P).runOuts ({ cap := cap }, ()) tr).filter
        (fun po => decide (flowKeyOf po.1 = flowKeyOf s))).drop old.length =
      (tlsAnalyzer P).runOuts ({ cap := cap }, ()) (s :: rest) := by
  have hold : ∀ x ∈ old, flowKeyOf x = flowKeyOf s := by
    intro x hx
    have hm : x ∈ tr.filter (fun p => decide (flowKeyOf p = flowKeyOf s)) := by rw [hsel]; simp [hx]
    exact of_decide_eq_true (List.mem_filter.1 hm).2
  rw [tls_isolation_cap P (flowKeyOf s) tr cap K hK hlen, hsel, runOuts_append]
  have hl := runOuts_length (tlsAnalyzer P) ({ cap := cap }, ()) old
  rw [List.drop_left' hl]
  exact tls_reused_tuple_as_fresh P old s rest cap hcap hs hold


end Huginn.Props.C01
