import Huginn.Spec.Http1
import Huginn.Lemmas.Http1Find
import Huginn.Lemmas.Http1Gate
import Huginn.Lemmas.Http1Pref
/-
C05 — HTTP/1.x heads are reported faithfully and independently of the body.
Property theorems only; helper lemmas live in Huginn/Lemmas/Http1*.lean.
-/
namespace Huginn.Props.C05
open Huginn.Http1 Huginn.Http1.Spec Huginn.KF.C05

/-! ### the statement at full strength -/

/-- C05 for requests, as the property states it: every well-formed head, every body. -/
def FullHeadReportReq : Prop :=
  ∀ (h2 : H2) (h : ReqHead) (body : Bytes), WFReq h →
    processorsParseRequest h2 (renderReq h ++ body) = some (some (reportReq h))

/-- C05 for responses. -/
def FullHeadReportRes : Prop :=
  ∀ (h2 : H2) (h : ResHead) (body : Bytes), WFRes h →
    processorsParseResponse h2 (renderRes h ++ body) = some (reportRes h)

/-! ### head_report: the main theorems -/

private theorem fields_no_uspace_req {h : ReqHead} (k5 : ¬ unicodeSpaceReq h) : ∀ f ∈ h.fields, fieldUSpace f = false := by
  intro f hf
  cases hq : fieldUSpace f with
  | false => rfl
  | true => exact absurd (Or.inl ⟨f, hf, hq⟩) k5

private theorem fields_no_uspace_res {h : ResHead} (k5 : ¬ unicodeSpaceRes h) : ∀ f ∈ h.fields, fieldUSpace f = false := by
  intro f hf
  cases hq : fieldUSpace f with
  | false => rfl
  | true => exact absurd ⟨f, hf, hq⟩ k5

/-- **head_report (requests).** For every well-formed request head (any supported method, any
header names incl. case variants and duplicates, any UTF-8 values, any OWS, 0..100 headers, CRLF line
ends), every body and every HTTP/2 processor behind the HTTP/1 one: `HttpProcessors::parse_request`
on `render h ++ body` reports exactly `reportReq h` — outside the five known-finding classes. -/
theorem head_report_req_partial (h2 : H2) (h : ReqHead) (body : Bytes) (wf : WFReq h)
    (k1 : ¬ methodGate h) (k2 : ¬ headerNameCaseReq h) (k3 : ¬ langWeightOws h) (k4 : ¬ langTagCase h)
    (k5 : ¬ unicodeSpaceReq h) :
    processorsParseRequest h2 (renderReq h ++ body) = some (some (reportReq h)) := by
  obtain ⟨info, hp⟩ := parseRequest_wf h body wf (fields_no_uspace_req k5)
  have hg : h1CanParse (renderReq h ++ body) = true := by
    unfold h1CanParse; rw [h1CanRequest_wf h body wf k1]; rfl
  unfold processorsParseRequest
  simp only [hg, if_true]
  unfold h1ProcessRequest
  rw [hp]
  simp only [toObsReq_assemble h info wf k2 k3 k4 k5, Option.map_some]

/-- **head_report (responses).** -/
theorem head_report_res_partial (h2 : H2) (h : ResHead) (body : Bytes) (wf : WFRes h)
    (k2 : ¬ headerNameCaseRes h) (k5 : ¬ unicodeSpaceRes h) :
    processorsParseResponse h2 (renderRes h ++ body) = some (reportRes h) := by
  obtain ⟨info, hp⟩ := parseResponse_wf h body wf (fields_no_uspace_res k5)
  have hg : h1CanParse (renderRes h ++ body) = true := by
    unfold h1CanParse; rw [h1CanResponse_wf h body wf]; simp
  unfold processorsParseResponse
  simp only [hg, if_true]
  unfold h1ProcessResponse
  rw [hp]
  simp only [toObsRes_assemble h info k2]

/-- **body_independent** (corollary): nothing that follows the blank line changes the report. -/
theorem body_independent_req (h2 : H2) (h : ReqHead) (b₁ b₂ : Bytes) (wf : WFReq h)
    (k1 : ¬ methodGate h) (k2 : ¬ headerNameCaseReq h) (k3 : ¬ langWeightOws h) (k4 : ¬ langTagCase h)
    (k5 : ¬ unicodeSpaceReq h) :
    processorsParseRequest h2 (renderReq h ++ b₁) = processorsParseRequest h2 (renderReq h ++ b₂) := by
  rw [head_report_req_partial h2 h b₁ wf k1 k2 k3 k4 k5, head_report_req_partial h2 h b₂ wf k1 k2 k3 k4 k5]

theorem body_independent_res (h2 : H2) (h : ResHead) (b₁ b₂ : Bytes) (wf : WFRes h)
    (k2 : ¬ headerNameCaseRes h) (k5 : ¬ unicodeSpaceRes h) :
    processorsParseResponse h2 (renderRes h ++ b₁) = processorsParseResponse h2 (renderRes h ++ b₂) := by
  rw [head_report_res_partial h2 h b₁ wf k2 k5, head_report_res_partial h2 h b₂ wf k2 k5]

/-- non-vacuity: a well-formed head outside every known-finding class, with duplicates, a case
variant, UTF-8, OWS variants, a Cookie and an Accept-Language list -/
private def sample : ReqHead :=
  { method := ascii "GET", target := ascii "/index.html?q=1", ver := .v11,
    fields := [⟨ascii "Host", [SP], ascii "example.com", []⟩,
               ⟨ascii "User-Agent", [SP, HT], ascii "curl/8.4.0", [SP]⟩,
               ⟨ascii "X-Name", [], [0xE4, 0xB8, 0xAD, 0xE6, 0x96, 0x87], []⟩,
               ⟨ascii "x-name", [SP], ascii "again", []⟩,
               ⟨ascii "Cookie", [SP], ascii "a=1; b", []⟩,
               ⟨ascii "Accept-Language", [SP], ascii "fr;q=0.5,en-US;q=0.8 ,de", []⟩],
    langs := [⟨[], ascii "fr", [], some ⟨[], false, 0, ascii "5", true, []⟩⟩,
              ⟨[], ascii "en-US", [], some ⟨[], false, 0, ascii "8", true, [SP]⟩⟩,
              ⟨[], ascii "de", [], none⟩] }

example : WFReq sample ∧ ¬ methodGate sample ∧ ¬ headerNameCaseReq sample ∧ ¬ langTagCase sample ∧
    ¬ unicodeSpaceReq sample := by decide +kernel

private def sample2 : ReqHead := { sample with
  fields := sample.fields.take 5 ++ [⟨ascii "Accept-Language", [SP], ascii "fr;q=0.5,en-US;q=0.8,de", []⟩],
  langs := [⟨[], ascii "fr", [], some ⟨[], false, 0, ascii "5", true, []⟩⟩,
            ⟨[], ascii "en-US", [], some ⟨[], false, 0, ascii "8", true, []⟩⟩,
            ⟨[], ascii "de", [], none⟩] }

example : WFReq sample2 ∧ ¬ methodGate sample2 ∧ ¬ headerNameCaseReq sample2 ∧ ¬ langWeightOws sample2 ∧
    ¬ langTagCase sample2 ∧ ¬ unicodeSpaceReq sample2 := by decide +kernel

example : (reportReq sample2).lang = some (ascii "German") ∧ (reportReq sample2).headers.length = 5 ∧
    (reportReq sample2).cookies.length = 2 := by decide +kernel

private def sampleRes : ResHead :=
  { ver := .v10, status := ascii "404", reason := ascii "Not Found",
    fields := [⟨ascii "Server", [SP], ascii "nginx/1.24.0", []⟩, ⟨ascii "Content-Length", [SP], ascii "3", []⟩] }

example : WFRes sampleRes ∧ ¬ headerNameCaseRes sampleRes ∧ ¬ unicodeSpaceRes sampleRes := by decide +kernel

/-! ### lang_highest_q -/

/-- **lang_highest_q.** For every RFC 7231 Accept-Language list (elements with OWS, language ranges
with subtags, optional `;q=` weights of up to three decimals; outside the two weight/tag classes)
`get_highest_quality_language` on its rendering returns the language of the *earliest* element among
those with the *maximal* quality among elements with a known primary tag (qualities compared as exact
rationals) — and nothing if no element has a known tag. -/
theorem lang_highest_q (ls : List LangItem) (hne : ls ≠ [])
    (hwf : ∀ i ∈ ls, LangItemWF i) (k3 : ∀ i ∈ ls, weightOws i = false)
    (k4 : ∀ i ∈ ls, (splitByte 45 i.tag).headD [] = primaryLower i) :
    (∀ name, highestQualityLanguage (renderLangs ls) = some (some name) → Preferred ls name) ∧
    (highestQualityLanguage (renderLangs ls) = some none → NoPreferred ls) ∧
    highestQualityLanguage (renderLangs ls) ≠ none := by
  have hp := highestQualityLanguage_plain ls hne (fun i hi => ⟨hwf i hi, k3 i hi, k4 i hi⟩)
  obtain ⟨s1, s2⟩ := preferredLang_spec ls
  rw [hp]
  refine ⟨fun name hn => s1 name (by simpa using hn), fun hn => s2 (by simpa using hn), by simp⟩

/-- non-vacuity: `fr;q=0.5, en-US;q=0.8, de;q=0.8` prefers English (earliest among the two maxima) -/
example : Preferred [⟨[], ascii "fr", [], some ⟨[], false, 0, ascii "5", true, []⟩⟩,
    ⟨[SP], ascii "en-US", [], some ⟨[], false, 0, ascii "8", true, []⟩⟩,
    ⟨[SP], ascii "de", [], some ⟨[], false, 0, ascii "8", true, []⟩⟩] (ascii "English") :=
  ⟨[_], _, [_], rfl, by decide +kernel, by decide +kernel, by decide +kernel⟩

/-! ### body independence of the parser (unconditional on the head's content) -/

/-- Whatever bytes form a complete head (they contain a blank line and the first one ends them),
`Http1Parser::parse_request` returns the same result for every body — binary or textual, containing
line breaks, header-like lines or other blank lines. No well-formedness is assumed. -/
theorem parser_request_body_independent (hd b₁ b₂ : Bytes) (h : EndsAtFirstBlank hd) :
    parseRequest (hd ++ b₁) = parseRequest (hd ++ b₂) := by
  unfold parseRequest; rw [headBytes_append hd b₁ h, headBytes_append hd b₂ h]

theorem parser_response_body_independent (hd b₁ b₂ : Bytes) (h : EndsAtFirstBlank hd) :
    parseResponse (hd ++ b₁) = parseResponse (hd ++ b₂) := by
  unfold parseResponse; rw [headBytes_append hd b₁ h, headBytes_append hd b₂ h]

/-- non-vacuity: a complete head exists, and a binary body after it is ignored -/
example : EndsAtFirstBlank (ascii "HTTP/1.1 200 OK\r\nServer: x\r\n\r\n") := by decide +kernel
example : parseResponse (ascii "HTTP/1.1 200 OK\r\nServer: x\r\n\r\n" ++ [0x1f, 0x8b, 0xff, 0xfe]) =
    parseResponse (ascii "HTTP/1.1 200 OK\r\nServer: x\r\n\r\n") := by decide +kernel

/-! ### known-finding witnesses: the full statement fails inside each class -/

private def noH2 : H2 := ⟨fun _ => none, fun _ => none⟩

private def wGate : ReqHead :=
  { method := ascii "REPORT", target := ascii "/", ver := .v11,
    fields := [⟨ascii "Host", [SP], ascii "a", []⟩] }

theorem kf_methodGate_witness : ¬ FullHeadReportReq := by
  intro hf
  have h := hf noH2 wGate [] (by decide +kernel)
  revert h; decide +kernel

example : methodGate wGate := by decide +kernel

private def wCase : ReqHead :=
  { method := ascii "GET", target := ascii "/", ver := .v11,
    fields := [⟨ascii "host", [SP], ascii "a", []⟩, ⟨ascii "user-agent", [SP], ascii "curl/8", []⟩] }

theorem kf_headerNameCase_witness : ¬ FullHeadReportReq := by
  intro hf
  have h := hf noH2 wCase [] (by decide +kernel)
  revert h; decide +kernel

example : headerNameCaseReq wCase ∧ ¬ methodGate wCase := by decide +kernel

private def wCaseRes : ResHead :=
  { ver := .v11, status := ascii "200", reason := ascii "OK",
    fields := [⟨ascii "server", [SP], ascii "nginx", []⟩] }

theorem kf_headerNameCase_witness_res : ¬ FullHeadReportRes := by
  intro hf
  have h := hf noH2 wCaseRes [] (by decide +kernel)
  revert h; decide +kernel

private def wLang : ReqHead :=
  { method := ascii "GET", target := ascii "/", ver := .v11,
    fields := [⟨ascii "Host", [SP], ascii "a", []⟩,
               ⟨ascii "Accept-Language", [SP], ascii "fr; q=0.1,en", []⟩],
    langs := [⟨[], ascii "fr", [], some ⟨[SP], false, 0, ascii "1", true, []⟩⟩, ⟨[], ascii "en", [], none⟩] }

/-- `fr; q=0.1,en`: the code reports French. -/
theorem kf_langWeightOws_witness : ¬ FullHeadReportReq := by
  intro hf
  have h := hf noH2 wLang [] (by decide +kernel)
  revert h; decide +kernel

example : langWeightOws wLang ∧ ¬ headerNameCaseReq wLang ∧ ¬ langTagCase wLang := by decide +kernel

private def wTag : ReqHead :=
  { method := ascii "GET", target := ascii "/", ver := .v11,
    fields := [⟨ascii "Accept-Language", [SP], ascii "EN-US,fr;q=0.5", []⟩],
    langs := [⟨[], ascii "EN-US", [], none⟩, ⟨[], ascii "fr", [], some ⟨[], false, 0, ascii "5", true, []⟩⟩] }

theorem kf_langTagCase_witness : ¬ FullHeadReportReq := by
  intro hf
  have h := hf noH2 wTag [] (by decide +kernel)
  revert h; decide +kernel

example : langTagCase wTag ∧ ¬ langWeightOws wTag := by decide +kernel

private def wSpace : ReqHead :=
  { method := ascii "GET", target := ascii "/", ver := .v11,
    fields := [⟨ascii "X-Note", [SP], [0xC2, 0xA0] ++ ascii "padded", []⟩] }

/-- a value starting with U+00A0 loses it -/
theorem kf_unicodeSpace_witness : ¬ FullHeadReportReq := by
  intro hf
  have h := hf noH2 wSpace [] (by decide +kernel)
  revert h; decide +kernel

example : unicodeSpaceReq wSpace := by decide +kernel

end Huginn.Props.C05
