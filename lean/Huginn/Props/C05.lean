import Huginn.Spec.Http1
import Huginn.Lemmas.Http1Find
/-
C05 — HTTP/1.x heads are reported faithfully and independently of the body.
Property theorems only; helper lemmas live in Huginn/Lemmas/Http1*.lean.
-/
namespace Huginn.Props.C05
open Huginn.Http1 Huginn.Http1.Spec Huginn.KF.C05

/-! ### the statement at full strength -/

/-- C05 for requests, as the property states it: every well-formed head, every body. -/
def FullHeadReportReq : Prop :=
  ∀ (h2 : H2) (h : ReqHead) (body : Bytes), WFReq h →
    processorsParseRequest h2 (renderReq h ++ body) = some (some (reportReq h))

/-- C05 for responses. -/
def FullHeadReportRes : Prop :=
  ∀ (h2 : H2) (h : ResHead) (body : Bytes), WFRes h →
    processorsParseResponse h2 (renderRes h ++ body) = some (reportRes h)

/-! ### body independence of the parser (unconditional on the head's content) -/

/-- Whatever bytes form a complete head (they contain a blank line and the first one ends them),
`Http1Parser::parse_request` returns the same result for every body — binary or textual, containing
line breaks, header-like lines or other blank lines. No well-formedness is assumed. -/
theorem parser_request_body_independent (hd b₁ b₂ : Bytes) (h : EndsAtFirstBlank hd) :
    parseRequest (hd ++ b₁) = parseRequest (hd ++ b₂) := by
  unfold parseRequest; rw [headBytes_append hd b₁ h, headBytes_append hd b₂ h]

theorem parser_response_body_independent (hd b₁ b₂ : Bytes) (h : EndsAtFirstBlank hd) :
    parseResponse (hd ++ b₁) = parseResponse (hd ++ b₂) := by
  unfold parseResponse; rw [headBytes_append hd b₁ h, headBytes_append hd b₂ h]

/-- non-vacuity: a complete head exists, and a binary body after it is ignored -/
example : EndsAtFirstBlank (ascii "HTTP/1.1 200 OK\r\nServer: x\r\n\r\n") := by decide +kernel
example : parseResponse (ascii "HTTP/1.1 200 OK\r\nServer: x\r\n\r\n" ++ [0x1f, 0x8b, 0xff, 0xfe]) =
    parseResponse (ascii "HTTP/1.1 200 OK\r\nServer: x\r\n\r\n") := by decide +kernel

/-! ### known-finding witnesses: the full statement fails inside each class -/

private def noH2 : H2 := ⟨fun _ => none, fun _ => none⟩

private def wGate : ReqHead :=
  { method := ascii "REPORT", target := ascii "/", ver := .v11,
    fields := [⟨ascii "Host", [SP], ascii "a", []⟩] }

theorem kf_methodGate_witness : ¬ FullHeadReportReq := by
  intro hf
  have h := hf noH2 wGate [] (by decide +kernel)
  revert h; decide +kernel

example : methodGate wGate := by decide +kernel

private def wCase : ReqHead :=
  { method := ascii "GET", target := ascii "/", ver := .v11,
    fields := [⟨ascii "host", [SP], ascii "a", []⟩, ⟨ascii "user-agent", [SP], ascii "curl/8", []⟩] }

theorem kf_headerNameCase_witness : ¬ FullHeadReportReq := by
  intro hf
  have h := hf noH2 wCase [] (by decide +kernel)
  revert h; decide +kernel

example : headerNameCaseReq wCase ∧ ¬ methodGate wCase := by decide +kernel

private def wCaseRes : ResHead :=
  { ver := .v11, status := ascii "200", reason := ascii "OK",
    fields := [⟨ascii "server", [SP], ascii "nginx", []⟩] }

theorem kf_headerNameCase_witness_res : ¬ FullHeadReportRes := by
  intro hf
  have h := hf noH2 wCaseRes [] (by decide +kernel)
  revert h; decide +kernel

private def wLang : ReqHead :=
  { method := ascii "GET", target := ascii "/", ver := .v11,
    fields := [⟨ascii "Host", [SP], ascii "a", []⟩,
               ⟨ascii "Accept-Language", [SP], ascii "fr; q=0.1,en", []⟩],
    langs := [⟨[], ascii "fr", [], some ⟨[SP], false, 0, ascii "1", true, []⟩⟩, ⟨[], ascii "en", [], none⟩] }

/-- `fr; q=0.1,en`: the code reports French. -/
theorem kf_langWeightOws_witness : ¬ FullHeadReportReq := by
  intro hf
  have h := hf noH2 wLang [] (by decide +kernel)
  revert h; decide +kernel

example : langWeightOws wLang ∧ ¬ headerNameCaseReq wLang ∧ ¬ langTagCase wLang := by decide +kernel

private def wTag : ReqHead :=
  { method := ascii "GET", target := ascii "/", ver := .v11,
    fields := [⟨ascii "Accept-Language", [SP], ascii "EN-US,fr;q=0.5", []⟩],
    langs := [⟨[], ascii "EN-US", [], none⟩, ⟨[], ascii "fr", [], some ⟨[], false, 0, ascii "5", true, []⟩⟩] }

theorem kf_langTagCase_witness : ¬ FullHeadReportReq := by
  intro hf
  have h := hf noH2 wTag [] (by decide +kernel)
  revert h; decide +kernel

example : langTagCase wTag ∧ ¬ langWeightOws wTag := by decide +kernel

private def wSpace : ReqHead :=
  { method := ascii "GET", target := ascii "/", ver := .v11,
    fields := [⟨ascii "X-Note", [SP], [0xC2, 0xA0] ++ ascii "padded", []⟩] }

/-- a value starting with U+00A0 loses it -/
theorem kf_unicodeSpace_witness : ¬ FullHeadReportReq := by
  intro hf
  have h := hf noH2 wSpace [] (by decide +kernel)
  revert h; decide +kernel

example : unicodeSpaceReq wSpace := by decide +kernel

end Huginn.Props.C05
