import Huginn.Spec.Http1
import Huginn.Lemmas.Http1Find
import Huginn.Lemmas.Http1Gate
import Huginn.Lemmas.Http1Pref
/-
C05 — HTTP/1.x heads are reported faithfully and independently of the body.
Property theorems only; helper lemmas live in Huginn/Lemmas/Http1*.lean.

The statement holds at full strength: the five known-finding classes of the snapshot (method gate,
header-name case, Accept-Language weight OWS / "Q=", language-tag case, Unicode white-space
trimming) were repaired in /repo (fixes/C05-1 … C05-4); their former witnesses are kept below as
regression examples of the theorem.
-/
namespace Huginn.Props.C05
open Huginn.Http1 Huginn.Http1.Spec

/-! ### head_report: the main theorems -/

/-- **head_report (requests).** For every well-formed request head (any of the 18 supported methods,
any header names incl. case variants and duplicates, any UTF-8 values, any OWS, 0..100 headers, lines
up to 8192 bytes, CRLF line ends; Cookie and Referer lines may repeat like any other; Accept-Language
per RFC 7231), every body and every HTTP/2 processor behind the HTTP/1 one:
`HttpProcessors::parse_request` on `render h ++ body` reports exactly `reportReq h`. -/
theorem head_report_req (h2 : H2) (h : ReqHead) (body : Bytes) (wf : WFReq h) :
    processorsParseRequest h2 (renderReq h ++ body) = some (some (reportReq h)) := by
  obtain ⟨info, hp⟩ := parseRequest_wf h body wf
  have hg : h1CanParse (renderReq h ++ body) = true := by
    unfold h1CanParse; rw [h1CanRequest_wf h body wf]; rfl
  unfold processorsParseRequest
  simp only [hg, if_true]
  unfold h1ProcessRequest
  rw [hp]
  simp only [toObsReq_assemble h info wf, Option.map_some]

/-- **head_report (responses).** -/
theorem head_report_res (h2 : H2) (h : ResHead) (body : Bytes) (wf : WFRes h) :
    processorsParseResponse h2 (renderRes h ++ body) = some (reportRes h) := by
  obtain ⟨info, hp⟩ := parseResponse_wf h body wf
  have hg : h1CanParse (renderRes h ++ body) = true := by
    unfold h1CanParse; rw [h1CanResponse_wf h body wf]; simp
  unfold processorsParseResponse
  simp only [hg, if_true]
  unfold h1ProcessResponse
  rw [hp]
  simp only [toObsRes_assemble h info]

/-- **body_independent** (corollary): nothing that follows the blank line changes the report. -/
theorem body_independent_req (h2 : H2) (h : ReqHead) (b₁ b₂ : Bytes) (wf : WFReq h) :
    processorsParseRequest h2 (renderReq h ++ b₁) = processorsParseRequest h2 (renderReq h ++ b₂) := by
  rw [head_report_req h2 h b₁ wf, head_report_req h2 h b₂ wf]

theorem body_independent_res (h2 : H2) (h : ResHead) (b₁ b₂ : Bytes) (wf : WFRes h) :
    processorsParseResponse h2 (renderRes h ++ b₁) = processorsParseResponse h2 (renderRes h ++ b₂) := by
  rw [head_report_res h2 h b₁ wf, head_report_res h2 h b₂ wf]

/-- non-vacuity: a well-formed head with duplicates, case variants (`user-agent`, `cache-control`),
UTF-8 incl. a value edged by U+00A0, OWS variants, a Cookie and an Accept-Language list with OWS
after ";", "Q=" and an upper-case tag -/
private def sample : ReqHead :=
  { method := ascii "REPORT", target := ascii "/index.html?q=1", ver := .v11,
    fields := [⟨ascii "Host", [SP], ascii "example.com", []⟩,
               ⟨ascii "user-agent", [SP, HT], ascii "curl/8.4.0", [SP]⟩,
               ⟨ascii "X-Name", [], [0xC2, 0xA0, 0xE4, 0xB8, 0xAD, 0xE6, 0x96, 0x87], []⟩,
               ⟨ascii "x-name", [SP], ascii "again", []⟩,
               ⟨ascii "cache-control", [SP], ascii "no-cache", []⟩,
               ⟨ascii "Cookie", [SP], ascii "a=1; b", []⟩,
               ⟨ascii "Accept-Language", [SP], ascii "fr; q=0.9,EN-US;Q=0.8 ,de;q=0.9", []⟩],
    langs := [⟨[], ascii "fr", [], some ⟨[SP], false, 0, ascii "9", true, []⟩⟩,
              ⟨[], ascii "EN-US", [], some ⟨[], true, 0, ascii "8", true, [SP]⟩⟩,
              ⟨[], ascii "de", [], some ⟨[], false, 0, ascii "9", true, []⟩⟩] }

example : WFReq sample := by decide +kernel

example : (reportReq sample).lang = some (ascii "French") ∧ (reportReq sample).headers.length = 6 ∧
    (reportReq sample).cookies.length = 2 ∧
    (reportReq sample).horder[1]? = some ⟨false, ascii "user-agent", none⟩ ∧
    (reportReq sample).horder[4]? = some ⟨true, ascii "cache-control", none⟩ ∧
    ((reportReq sample).headers[2]?.bind (·.value)) = some [0xC2, 0xA0, 0xE4, 0xB8, 0xAD, 0xE6, 0x96, 0x87] := by
  decide +kernel

private def sampleRes : ResHead :=
  { ver := .v10, status := ascii "404", reason := ascii "Not Found",
    fields := [⟨ascii "server", [SP], ascii "nginx/1.24.0", []⟩, ⟨ascii "Content-Length", [SP], ascii "3", []⟩] }

example : WFRes sampleRes ∧ (reportRes sampleRes).expsw = ascii "nginx/1.24.0" := by decide +kernel

/-! ### lang_highest_q -/

/-- **lang_highest_q.** For every RFC 7231 Accept-Language list (elements with OWS, language ranges
with subtags in any letter case, optional weights `OWS ";" OWS ("q="/"Q=") qvalue OWS` of up to three
decimals) `get_highest_quality_language` on its rendering returns the language of the *earliest*
element among those with the *maximal* quality among elements with a known primary tag (qualities
compared as exact rationals) — and nothing if no element has a known tag. -/
theorem lang_highest_q (ls : List LangItem) (hne : ls ≠ []) (hwf : ∀ i ∈ ls, LangItemWF i) :
    (∀ name, highestQualityLanguage (renderLangs ls) = some (some name) → Preferred ls name) ∧
    (highestQualityLanguage (renderLangs ls) = some none → NoPreferred ls) ∧
    highestQualityLanguage (renderLangs ls) ≠ none := by
  have hp := highestQualityLanguage_wf ls hne hwf
  obtain ⟨s1, s2⟩ := preferredLang_spec ls
  rw [hp]
  refine ⟨fun name hn => s1 name (by simpa using hn), fun hn => s2 (by simpa using hn), by simp⟩

/-- non-vacuity: `fr;q=0.5, en-US;q=0.8, de;q=0.8` prefers English (earliest among the two maxima) -/
example : Preferred [⟨[], ascii "fr", [], some ⟨[], false, 0, ascii "5", true, []⟩⟩,
    ⟨[SP], ascii "en-US", [], some ⟨[], false, 0, ascii "8", true, []⟩⟩,
    ⟨[SP], ascii "de", [], some ⟨[], false, 0, ascii "8", true, []⟩⟩] (ascii "English") :=
  ⟨[_], _, [_], rfl, by decide +kernel, by decide +kernel, by decide +kernel⟩

/-! ### body independence of the parser (unconditional on the head's content) -/

/-- Whatever bytes form a complete head (they contain a blank line and the first one ends them),
`Http1Parser::parse_request` returns the same result for every body — binary or textual, containing
line breaks, header-like lines or other blank lines. No well-formedness is assumed. -/
theorem parser_request_body_independent (hd b₁ b₂ : Bytes) (h : EndsAtFirstBlank hd) :
    parseRequest (hd ++ b₁) = parseRequest (hd ++ b₂) := by
  unfold parseRequest; rw [headBytes_append hd b₁ h, headBytes_append hd b₂ h]

theorem parser_response_body_independent (hd b₁ b₂ : Bytes) (h : EndsAtFirstBlank hd) :
    parseResponse (hd ++ b₁) = parseResponse (hd ++ b₂) := by
  unfold parseResponse; rw [headBytes_append hd b₁ h, headBytes_append hd b₂ h]

/-- non-vacuity: a complete head exists, and a binary body after it is ignored -/
example : EndsAtFirstBlank (ascii "HTTP/1.1 200 OK\r\nServer: x\r\n\r\n") := by decide +kernel
example : parseResponse (ascii "HTTP/1.1 200 OK\r\nServer: x\r\n\r\n" ++ [0x1f, 0x8b, 0xff, 0xfe]) =
    parseResponse (ascii "HTTP/1.1 200 OK\r\nServer: x\r\n\r\n") := by decide +kernel

/-! ### regression: the witnesses of the repaired findings now satisfy the statement -/

/-- two Cookie lines (any letter case, anywhere) and two Referer lines: the cookies of both lines are
reported in wire order, numbered through; the referer is the last line's (was: only `b=2`) -/
private def twoCookies : ReqHead :=
  { method := ascii "GET", target := ascii "/", ver := .v11,
    fields := [⟨ascii "Cookie", [SP], ascii "a=1; x", []⟩, ⟨ascii "Referer", [SP], ascii "r1", []⟩,
               ⟨ascii "Host", [SP], ascii "h", []⟩, ⟨ascii "COOKIE", [SP], ascii "b=2", []⟩,
               ⟨ascii "referer", [SP], ascii "r2", []⟩] }

example : WFReq twoCookies ∧
    (reportReq twoCookies).cookies = [⟨ascii "a", some (ascii "1"), 0⟩, ⟨ascii "x", none, 1⟩, ⟨ascii "b", some (ascii "2"), 2⟩] ∧
    (reportReq twoCookies).referer = some (ascii "r2") ∧ (reportReq twoCookies).headers.length = 1 := by
  decide +kernel

example : processorsParseRequest ⟨fun _ => none, fun _ => none⟩ (renderReq twoCookies) = some (some (reportReq twoCookies)) := by
  decide +kernel


private def noH2 : H2 := ⟨fun _ => none, fun _ => none⟩

/-- `fr; q=0.1,en` reports English (was French) -/
example : ((processorsParseRequest noH2 (ascii "GET / HTTP/1.1\r\nAccept-Language: fr; q=0.1,en\r\n\r\n")).bind id).bind (·.lang)
    = some (ascii "English") := by decide +kernel

/-- `REPORT` passes the gate (was not reported) -/
example : (processorsParseRequest noH2 (ascii "REPORT /cal HTTP/1.1\r\nHost: a\r\n\r\n")).bind id ≠ none := by
  decide +kernel

end Huginn.Props.C05
