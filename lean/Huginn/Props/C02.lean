import Huginn.Lemmas.Index
import Huginn.Lemmas.Key
import Huginn.Lemmas.Dist
/-
C02 — Best match = optimum of a full database scan; the index is transparent.
Property theorems only; the generic argument is in `Huginn/Lemmas/Index.lean`, key injectivity in
`Huginn/Lemmas/Key.lean`.

Model: `tcpFind` / `httpFind` = `find_best_match` over `FingerprintCollection::new(db)`
(`Model/Match.lean`). Specification: `scanBest` (one pass over *all* entries in database order,
first strict minimum) and its declarative reading `IsBest` (`Spec/Match.lean`).
Unbounded in the number of labels, signatures per label, list lengths.
-/
namespace Huginn.Props.C02
open Huginn.Sig Huginn.Match Huginn.Match.Spec

/-! ### coverage: an accepting signature is filed under the observation's key -/

theorem tcp_coverage (s : TcpSig) (o : TcpObs) (d : Nat) (hv : o.version ≠ .any)
    (hp : o.pclass ≠ .any) (h : tcpDistance s o = some d) : tcpObsKey o ∈ tcpSigKeys s := by
  obtain ⟨d0, d1, d2, d3, d4, d5, d6, d7, d8, h0, _, _, _, _, _, h6, _, h8, _⟩ := tcpDistance_some h
  have hl : o.olayout = s.olayout := by
    unfold distOlayout at h6; split at h6 <;> simp_all
  have hver : s.version = .any ∨ o.version = s.version := by
    apply Classical.byContradiction; intro hn
    rw [distIpVersion_bad (o := o.version) (s := s.version) hn] at h0; cases h0
  have hpc : s.pclass = .any ∨ o.pclass = s.pclass := by
    apply Classical.byContradiction; intro hn
    rw [distPayload_bad (o := o.pclass) (s := s.pclass) hn] at h8; cases h8
  simp only [tcpSigKeys, tcpObsKey, List.mem_flatMap, List.mem_map]
  refine ⟨o.version, ?_, o.pclass, ?_, by rw [hl]⟩
  · by_cases hs : s.version = .any
    · simp only [hs, if_true]
      cases hov : o.version <;> simp_all
    · simp only [hs, if_false, List.mem_singleton]
      rcases hver with h | h
      · exact absurd h hs
      · exact h
  · by_cases hs : s.pclass = .any
    · simp only [hs, if_true]
      cases hop : o.pclass <;> simp_all
    · simp only [hs, if_false, List.mem_singleton]
      rcases hpc with h | h
      · exact absurd h hs
      · exact h

theorem http_coverage (s : HttpSig) (o : HttpObs) (d : Nat) (hv : o.version ≠ .any)
    (h : httpDistance s o = some d) : httpObsKey o ∈ httpSigKeys s := by
  obtain ⟨d0, d1, d2, d3, h0, _, _, _, _⟩ := httpDistance_some h
  have hver : s.version = .any ∨ o.version = s.version := by
    apply Classical.byContradiction; intro hn
    rw [distHttpVersion_bad (o := o.version) (s := s.version) hn] at h0; cases h0
  unfold httpSigKeys httpObsKey
  by_cases hs : s.version = .any
  · simp only [hs, if_true]
    cases hov : o.version <;> simp_all
  · simp only [hs, if_false, List.mem_singleton]
    rcases hver with h | h
    · exact absurd h hs
    · rw [h]

/-! ### the main theorems -/

/-- **TCP.** For every database and every observation an analyzer can emit (concrete IP version
and payload class) `find_best_match` through the index does not panic and returns exactly what
the exhaustive scan selects: label index, signature index and the distance whose score is the
reported quality. -/
theorem find_eq_scan_tcp (db : TcpDb) (o : TcpObs) (hv : o.version ≠ .any) (hp : o.pclass ≠ .any) :
    tcpFind db o = some (scanBest tcpDistance db o) :=
  findBest_eq_scan tcpDistance tcpObsKey tcpSigKeys db o
    (fun e _ d hd => tcp_coverage e.2.2 o d hv hp hd)
    (fun _ _ d hd => by have := tcpDistance_le hd; unfold u32Max; omega)

/-- **HTTP request.** Same statement for the HTTP request collection (observations carry a
concrete HTTP version: 1.0, 1.1, 2 or 3). -/
theorem find_eq_scan_http_request (db : HttpDb) (o : HttpObs) (hv : o.version ≠ .any) :
    httpFind db o = some (scanBest httpDistance db o) :=
  findBest_eq_scan httpDistance httpObsKey httpSigKeys db o
    (fun e _ d hd => http_coverage e.2.2 o d hv hd)
    (fun _ _ d hd => by have := httpDistance_le hd; unfold u32Max; omega)

/-- **HTTP response.** The response collection is the same generic code instantiated with the
same distance and key functions (`HttpDistance` default methods); the harness exercises both. -/
theorem find_eq_scan_http_response (db : HttpDb) (o : HttpObs) (hv : o.version ≠ .any) :
    httpFind db o = some (scanBest httpDistance db o) :=
  find_eq_scan_http_request db o hv

/-- What the scan selects is the first entry in database order with the smallest distance among
all entries that accept the observation; nothing exactly when none accepts. -/
theorem scan_is_best_tcp (db : TcpDb) (o : TcpObs) :
    IsBest tcpDistance (entries db) o (scanBest tcpDistance db o) :=
  scanBest_isBest tcpDistance db o

theorem scan_is_best_http (db : HttpDb) (o : HttpObs) :
    IsBest httpDistance (entries db) o (scanBest httpDistance db o) :=
  scanBest_isBest httpDistance db o

/-- Nothing is reported exactly when no entry of the whole database accepts the observation. -/
theorem tcp_none_iff (db : TcpDb) (o : TcpObs) (hv : o.version ≠ .any) (hp : o.pclass ≠ .any) :
    tcpFind db o = some none ↔ ∀ e ∈ entries db, tcpDistance e.2.2 o = none := by
  rw [find_eq_scan_tcp db o hv hp, Option.some.injEq, scanBest_none_iff]

theorem http_none_iff (db : HttpDb) (o : HttpObs) (hv : o.version ≠ .any) :
    httpFind db o = some none ↔ ∀ e ∈ entries db, httpDistance e.2.2 o = none := by
  rw [find_eq_scan_http_request db o hv, Option.some.injEq, scanBest_none_iff]

/-- The quality reported with a match is the score of the winning entry's own distance, and is
at least 0.10 (accepted distances never exceed `MAX_DISTANCE`). -/
theorem tcp_reported_quality (db : TcpDb) (o : TcpObs) (hv : o.version ≠ .any)
    (hp : o.pclass ≠ .any) (i j d : Nat) (h : tcpFind db o = some (some (i, j, d))) :
    ∃ s, (i, j, s) ∈ entries db ∧ tcpDistance s o = some d ∧ 10 ≤ tcpScore d := by
  rw [find_eq_scan_tcp db o hv hp, Option.some.injEq] at h
  have hb := scan_is_best_tcp db o
  rw [h] at hb
  obtain ⟨pre, s, post, hl, hs, _, _⟩ := hb
  refine ⟨s, by rw [hl]; simp, hs, ?_⟩
  have hd := tcpDistance_le hs
  have h18 : d ≤ 18 := by omega
  have := (score_ok_of_check _ (by decide : scoreTableCheck Gen.Score.tcpScoreTable = true)).1 d 18 h18
  have e : scoreOf Gen.Score.tcpScoreTable 18 = 10 := by decide
  unfold tcpScore; omega

/-! ### non-vacuity, and why `ObsWF` is needed -/

def lbl (n : String) : Label := { ty := .specified, cls := none, name := n, flavor := none }

def sigA : TcpSig :=
  { version := .any, ittl := .value 64, olen := 0, mss := none, wsize := .any, wscale := none,
    olayout := [.mss, .nop, .ws], quirks := [.df], pclass := .any }
def dbEx : TcpDb :=
  [(lbl "far", [{ sigA with ittl := .value 128 }, { sigA with olayout := [.mss] }]),
   (lbl "near", [sigA, sigA]),
   (lbl "v6", [{ sigA with version := .v6 }])]
def obsEx : TcpObs :=
  { version := .v4, ittl := .distance 60 4, olen := 0, mss := some 1460, wsize := .value 8192,
    wscale := some 2, olayout := [.mss, .nop, .ws], quirks := [.df], pclass := .zero }

-- the first accepting entry (0,0) is at distance 2; (1,0) is strictly better and wins over its tie (1,1)
example : tcpFind dbEx obsEx = some (some (1, 0, 0)) ∧ scanBest tcpDistance dbEx obsEx = some (1, 0, 0) ∧
    tcpDistance { sigA with ittl := .value 128 } obsEx = some 2 := by decide
-- a layout no signature has: no bucket, and the scan agrees
example : tcpFind dbEx { obsEx with olayout := [.mss, .nop] } = some none ∧
    scanBest tcpDistance dbEx { obsEx with olayout := [.mss, .nop] } = none := by decide

/-- Without `ObsWF` the statement is false: a wildcard *observation* is accepted by wildcard
signatures but is filed under no key. Analyzers never emit it. -/
example : tcpFind dbEx { obsEx with version := .any } = some none ∧
    scanBest tcpDistance dbEx { obsEx with version := .any } = some (1, 0, 0) := by decide

def hsig (v : HttpVersion) (sw : String) : HttpSig :=
  { version := v, horder := [⟨false, "Host", none⟩, ⟨true, "Accept", none⟩], habsent := [], expsw := sw }
def hdb : HttpDb := [(lbl "a", [hsig .v10 "", hsig .any "x"]), (lbl "b", [hsig .any ""])]
def hobs (v : HttpVersion) : HttpObs :=
  { version := v, horder := [⟨false, "Host", none⟩], habsent := [], expsw := "" }

-- HTTP/2 observation against `*`-version signatures (the class fixed by commit 343328d)
example : httpFind hdb (hobs .v20) = some (some (0, 1, 0)) ∧
    scanBest httpDistance hdb (hobs .v20) = some (0, 1, 0) := by decide
example : httpFind hdb (hobs .v10) = some (some (0, 0, 0)) := by decide

/-! ### the TCP index is exact on the decisive fields it encodes -/

/-- Equal `olayout_key` strings mean equal option layouts (the key is a faithful encoding). -/
theorem olayout_key_injective (a b : List TcpOption) (h : olayoutKey a = olayoutKey b) : a = b :=
  olayoutKey_inj a b h

/-- A signature sits in the bucket of an observation's key exactly when it agrees with the
observation on the three fields the key encodes: IP version (or wildcard), the whole option
layout, payload class (or wildcard). So a bucket holds no candidate with a different layout. -/
theorem tcp_bucket_exact (s : TcpSig) (o : TcpObs) (hv : o.version ≠ .any) (hp : o.pclass ≠ .any) :
    tcpObsKey o ∈ tcpSigKeys s ↔
      VersionOk o.version s.version ∧ s.olayout = o.olayout ∧ PclassOk o.pclass s.pclass := by
  simp only [tcpSigKeys, tcpObsKey, List.mem_flatMap, List.mem_map, VersionOk, PclassOk]
  constructor
  · rintro ⟨v, hvm, p, hpm, hk⟩
    simp only [TcpKey.mk.injEq] at hk
    obtain ⟨rfl, hl, rfl⟩ := hk
    refine ⟨?_, olayoutKey_inj _ _ hl, ?_⟩
    · by_cases hs : s.version = .any
      · exact .inl hs
      · simp only [hs, if_false, List.mem_singleton] at hvm; exact .inr hvm
    · by_cases hs : s.pclass = .any
      · exact .inl hs
      · simp only [hs, if_false, List.mem_singleton] at hpm; exact .inr hpm
  · rintro ⟨hver, hl, hpc⟩
    refine ⟨o.version, ?_, o.pclass, ?_, by rw [hl]⟩
    · by_cases hs : s.version = .any
      · simp only [hs, if_true]; cases hov : o.version <;> simp_all
      · simp only [hs, if_false, List.mem_singleton]
        rcases hver with h | h
        · exact absurd h hs
        · exact h
    · by_cases hs : s.pclass = .any
      · simp only [hs, if_true]; cases hop : o.pclass <;> simp_all
      · simp only [hs, if_false, List.mem_singleton]
        rcases hpc with h | h
        · exact absurd h hs
        · exact h

/-- No key is generated twice for a signature, so every entry sits at most once in a bucket and is
examined at most once per lookup. -/
theorem tcp_keys_nodup (s : TcpSig) : (tcpSigKeys s).Nodup := by
  unfold tcpSigKeys
  cases hv : s.version <;> cases hp : s.pclass <;> simp

theorem http_keys_nodup (s : HttpSig) : (httpSigKeys s).Nodup := by
  unfold httpSigKeys
  cases hv : s.version <;> simp

example : olayoutChars [.mss, .nop, .ws, .eol 1, .unknown 254] = "mss,nop,ws,eol+1,?254".toList := by
  have e1 : decChars 1 = ['1'] := by rw [decChars]; decide
  have e2 : decChars 2 = ['2'] := by rw [decChars]; decide
  have e25 : decChars 25 = ['2', '5'] := by rw [decChars]; simp [e2]; decide
  have e254 : decChars 254 = ['2', '5', '4'] := by rw [decChars]; simp [e25]; decide
  simp only [olayoutChars, List.map, optChars, e1, e254, joinComma]
  decide

end Huginn.Props.C02
