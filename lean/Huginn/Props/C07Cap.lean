import Huginn.Props.C07Http
set_option linter.unusedSimpArgs false
set_option linter.unusedSectionVars false
/-
"Within the configured connection capacity", made concrete.

The isolation theorems assume `NoEvict` — every `insert` along the trace finds room. Here that
hypothesis is *derived* from a condition on the traffic alone: if all flows the trace ever opens have
their keys in a list `K` with `K.length ≤ capacity` (at most `capacity` distinct flows), then nothing is
ever evicted, whatever the interleaving, the lengths, the content, and whether flows complete, time
out or are removed and re-opened. Hence isolation holds for every trace with at most `capacity`
distinct flows (TLS: directed 4-tuples; HTTP: the keys of SYN segments; TCP tracker: directed
4-tuple + role).
-/
namespace Huginn.Props.C07
open Huginn.Flow Huginn.FlowProgs

variable {κ σ γ ρ Pkt Out : Type} [DecidableEq κ]

/-- Every `insert` of the program uses a key from `K`. -/
inductive InsertsIn (K : List κ) : Prog κ σ γ ρ Out → Prop
  | ret (o) : InsertsIn K (.ret o)
  | get (k c) : (∀ r, InsertsIn K (c r)) → InsertsIn K (.get k c)
  | insert (k v ttl c) : k ∈ K → InsertsIn K c → InsertsIn K (.insert k v ttl c)
  | set (k v c) : InsertsIn K c → InsertsIn K (.set k v c)
  | remove (k c) : InsertsIn K c → InsertsIn K (.remove k c)
  | glob (f c) : (∀ r, InsertsIn K (c r)) → InsertsIn K (.glob f c)

/-- The table holds at most one entry per key, all keys from `K`. -/
def KeysIn (K : List κ) (m : TtlMap κ σ) : Prop :=
  (m.es.map (·.key)).Nodup ∧ ∀ e ∈ m.es, e.key ∈ K

theorem keysIn_empty (K : List κ) (cap : Nat) : KeysIn K ({ cap := cap } : TtlMap κ σ) :=
  ⟨List.nodup_nil, fun _ h => by cases h⟩

private theorem filter_keys (es : List (Entry κ σ)) (k : κ) :
    (es.filter (fun e => e.key ≠ k)).map (·.key) = (es.map (·.key)).filter (fun x => x ≠ k) := by
  rw [List.filter_map]; rfl

/-- With at most `cap` admissible keys, an insertion under an admissible key always finds room. -/
theorem fits_of_keysIn {K : List κ} {m : TtlMap κ σ} (h : KeysIn K m) (hK : K.length ≤ m.cap)
    (k : κ) (hk : k ∈ K) : m.Fits k := by
  unfold TtlMap.Fits
  have hnd : ((m.es.filter (fun e => e.key ≠ k)).map (·.key)).Nodup := by
    rw [filter_keys]; exact h.1.filter _
  have hsub : (m.es.filter (fun e => e.key ≠ k)).map (·.key) ⊆ K.filter (fun x => x ≠ k) := by
    intro x hx
    rw [filter_keys, List.mem_filter] at hx
    obtain ⟨hx1, hx2⟩ := hx
    obtain ⟨e, he, rfl⟩ := List.mem_map.1 hx1
    exact List.mem_filter.2 ⟨h.2 e he, hx2⟩
  have h1 := hnd.length_le_of_subset hsub
  have h2 : (K.filter (fun x => x ≠ k)).length < K.length := by
    apply List.length_filter_lt_length_iff_exists.2
    exact ⟨k, hk, by simp⟩
  rw [List.length_map] at h1
  omega

theorem keysIn_insert {K : List κ} {m : TtlMap κ σ} (h : KeysIn K m) (now : Nat) (k : κ) (v : σ)
    (ttl : Nat) (hk : k ∈ K) : KeysIn K (m.insert now k v ttl) := by
  have hbase : KeysIn K { m with es := m.es.filter (fun e => e.key ≠ k) ++ [⟨k, v, now + ttl⟩] } := by
    constructor
    · simp only [List.map_append, List.map_cons, List.map_nil]
      rw [filter_keys]
      rw [List.nodup_append]
      refine ⟨h.1.filter _, by simp, ?_⟩
      intro a ha b hb
      simp only [List.mem_singleton] at hb
      subst hb
      simpa using (List.mem_filter.1 ha).2
    · intro e he
      rcases List.mem_append.1 he with he | he
      · exact h.2 e (List.mem_filter.1 he).1
      · simp only [List.mem_singleton] at he; subst he; exact hk
  unfold TtlMap.insert
  simp only
  split
  · constructor
    · rw [List.map_drop]
      exact hbase.1.sublist (List.drop_sublist _ _)
    · intro e he
      exact hbase.2 e (List.mem_of_mem_drop he)
  · exact hbase

theorem keysIn_set {K : List κ} {m : TtlMap κ σ} (h : KeysIn K m) (now : Nat) (k : κ) (v : σ) :
    KeysIn K (m.set now k v) := by
  have hkeys : (m.set now k v).es.map (·.key) = m.es.map (·.key) := by
    unfold TtlMap.set
    simp only [List.map_map]
    apply List.map_congr_left
    intro e _
    simp only [Function.comp]
    split <;> rfl
  constructor
  · rw [hkeys]; exact h.1
  · intro e he
    have : e.key ∈ (m.set now k v).es.map (·.key) := List.mem_map.2 ⟨e, he, rfl⟩
    rw [hkeys] at this
    obtain ⟨e', he', hk'⟩ := List.mem_map.1 this
    rw [← hk']; exact h.2 e' he'

theorem keysIn_remove {K : List κ} {m : TtlMap κ σ} (h : KeysIn K m) (k : κ) : KeysIn K (m.remove k) := by
  constructor
  · unfold TtlMap.remove; simp only; rw [filter_keys]; exact h.1.filter _
  · intro e he; exact h.2 e (List.mem_filter.1 he).1

/-- One packet: nothing is evicted, and the table keeps its shape and capacity. -/
theorem progNoEvict_of_keysIn {K : List κ} (p : Prog κ σ γ ρ Out) (hp : InsertsIn K p) (now : Nat)
    (m : TtlMap κ σ) (g : γ) (h : KeysIn K m) (hK : K.length ≤ m.cap) :
    ProgNoEvict p now m g ∧ KeysIn K (p.run now m g).1 ∧ (p.run now m g).1.cap = m.cap := by
  induction hp generalizing m g with
  | ret o => exact ⟨trivial, h, rfl⟩
  | get k c _ ih => exact ih _ m g h hK
  | insert k v ttl c hk _ ih =>
    have hcap : (m.insert now k v ttl).cap = m.cap := rfl
    obtain ⟨a, b, c'⟩ := ih (m.insert now k v ttl) g (keysIn_insert h now k v ttl hk) (by rw [hcap]; exact hK)
    exact ⟨⟨fits_of_keysIn h hK k hk, a⟩, b, c'.trans hcap⟩
  | set k v c _ ih => exact ih (m.set now k v) g (keysIn_set h now k v) hK
  | remove k c _ ih => exact ih (m.remove k) g (keysIn_remove h k) hK
  | glob f c _ ih => exact ih _ m _ h hK

/-- **Capacity, concretely.** If every packet's program inserts only under keys of `K` and
`K.length ≤ capacity`, no trace ever evicts anything. -/
theorem noEvict_of_keysIn (A : Analyzer κ σ γ ρ Pkt Out) (K : List κ) (tr : List Pkt)
    (hA : ∀ p ∈ tr, InsertsIn K (A.prog p)) (m : TtlMap κ σ) (g : γ) (h : KeysIn K m)
    (hK : K.length ≤ m.cap) : NoEvict A (m, g) tr := by
  induction tr generalizing m g with
  | nil => trivial
  | cons p tr ih =>
    obtain ⟨a, b, c⟩ := progNoEvict_of_keysIn (A.prog p) (hA p (by simp)) (A.time p) m g h hK
    refine ⟨a, ?_⟩
    exact ih (fun q hq => hA q (by simp [hq])) _ _ b (by simp only [Analyzer.step]; rw [c]; exact hK)

/-! ### the three analyzers -/

theorem tlsBody_insertsIn {R S : Type} (P : TlsParams R S) (s : Seg) (K : List FlowKey)
    (hk : (⟨s.src, s.dst⟩ : FlowKey) ∈ K) : InsertsIn K (tlsBody P s) := by
  have hw : ∀ r, InsertsIn K (tlsWithReader P ⟨s.src, s.dst⟩ s.payload r) := by
    intro r; unfold tlsWithReader
    split
    · exact .remove _ _ (.ret _)
    · exact .set _ _ _ (.ret _)
    · exact .remove _ _ (.ret _)
  unfold tlsBody
  simp only
  split
  · exact .ret _
  · refine .get _ _ (fun a => ?_)
    split
    · exact .ret _
    · refine .get _ _ (fun r => ?_)
      cases r with
      | some r => exact hw r
      | none =>
        refine .insert _ _ _ _ hk (.get _ _ (fun r => ?_))
        cases r with
        | some r => exact hw r
        | none => exact .ret _

theorem tls_insertsIn {R S : Type} (P : TlsParams R S) (s : Seg) (K : List FlowKey)
    (hk : (⟨s.src, s.dst⟩ : FlowKey) ∈ K) : InsertsIn K (tlsProg P s) := by
  unfold tlsProg
  split
  · exact .remove _ _ (tlsBody_insertsIn P s K hk)
  · exact tlsBody_insertsIn P s K hk

/-- **TLS isolation for every trace with at most `cap` distinct flows.** -/
theorem tls_isolation_cap {R S : Type} (P : TlsParams R S) (c : FlowKey) (tr : List Seg) (cap : Nat)
    (K : List FlowKey) (hK : ∀ s ∈ tr, flowKeyOf s ∈ K) (hlen : K.length ≤ cap) :
    ((tlsAnalyzer P).runOuts ({ cap := cap }, ()) tr).filter (fun po => decide (flowKeyOf po.1 = c)) =
      (tlsAnalyzer P).runOuts ({ cap := cap }, ()) (tr.filter (fun p => decide (flowKeyOf p = c))) :=
  tls_isolation P c tr cap
    (noEvict_of_keysIn (tlsAnalyzer P) K tr (fun s hs => tls_insertsIn P s K (hK s hs)) _ _
      (keysIn_empty K cap) hlen)

theorem tcp_insertsIn {U : Type} (P : UptimeParams U) (fc : Seg → Bool) (s : Seg) (K : List TcpKey)
    (hk : tcpKeyOf fc s ∈ K) : InsertsIn K (tcpProg P fc s) := by
  unfold tcpProg
  split
  · exact .ret _
  · refine .get _ _ (fun r => ?_)
    cases r with
    | none => exact .insert _ _ _ _ hk (.ret _)
    | some ref =>
      dsimp only
      split
      · exact .ret _
      · split
        · exact .ret _
        · exact .insert _ _ _ _ hk (.ret _)

/-- **Uptime tracker isolation for every trace with at most `cap` distinct (connection, role) keys.** -/
theorem tcp_isolation_cap {U : Type} (P : UptimeParams U) (fc : Seg → Bool) (c : TcpKey)
    (tr : List Seg) (cap : Nat) (K : List TcpKey) (hK : ∀ s ∈ tr, tcpKeyOf fc s ∈ K)
    (hlen : K.length ≤ cap) :
    ((tcpAnalyzer P fc).runOuts ({ cap := cap }, ()) tr).filter
        (fun po => decide (tcpKeyOf fc po.1 = c)) =
      (tcpAnalyzer P fc).runOuts ({ cap := cap }, ())
        (tr.filter (fun p => decide (tcpKeyOf fc p = c))) :=
  tcp_isolation P fc c tr cap
    (noEvict_of_keysIn (tcpAnalyzer P fc) K tr (fun s hs => tcp_insertsIn P fc s K (hK s hs)) _ _
      (keysIn_empty K cap) hlen)

theorem http_insertsIn {γ Q P : Type} (H : HttpParams γ Q P) (s : Seg) (K : List FlowKey)
    (hk : s.syn = true → (⟨s.src, s.dst⟩ : FlowKey) ∈ K) : InsertsIn K (httpProg H s) := by
  have hfin : ∀ k f o, InsertsIn K (httpFinish (γ := γ) (Q := Q) (P := P) k f s o) := by
    intro k f o; unfold httpFinish
    split
    · exact .remove _ _ (.ret _)
    · split
      · exact .remove _ _ (.ret _)
      · exact .ret _
  have hreq : ∀ full k, (∀ q, InsertsIn K (k q)) → InsertsIn K (httpTryReq H full k) := by
    intro full k hk'; unfold httpTryReq
    split
    · exact hk' _
    · refine .glob _ _ (fun r1 => ?_)
      have hgo : InsertsIn K (Prog.glob (fun g => let (g', r) := H.parseReq g full; (g', PRes.req r))
          fun r3 => match r3 with | .req q => k q | .resp _ => k none) := by
        refine .glob _ _ (fun r3 => ?_); cases r3 <;> exact hk' _
      split
      · exact hgo
      · refine .glob _ _ (fun r2 => ?_)
        split
        · exact hgo
        · exact hk' _
  have hresp : ∀ full k, (∀ q, InsertsIn K (k q)) → InsertsIn K (httpTryResp H full k) := by
    intro full k hk'; unfold httpTryResp
    split
    · exact hk' _
    · refine .glob _ _ (fun r1 => ?_)
      have hgo : InsertsIn K (Prog.glob (fun g => let (g', r) := H.parseResp g full; (g', PRes.resp r))
          fun r3 => match r3 with | .resp q => k q | .req _ => k none) := by
        refine .glob _ _ (fun r3 => ?_); cases r3 <;> exact hk' _
      split
      · exact hgo
      · refine .glob _ _ (fun r2 => ?_)
        split
        · exact hgo
        · exact hk' _
  have hbody : ∀ k isC f, InsertsIn K (httpBody H k isC f s) := by
    intro k isC f
    unfold httpBody
    repeat (first
      | exact .ret _
      | exact hfin _ _ _
      | (refine .set _ _ _ ?_)
      | (refine hreq _ _ (fun q => ?_); cases q)
      | (refine hresp _ _ (fun q => ?_); cases q)
      | split
      | dsimp only)
  have hwith : ∀ k isC f, InsertsIn K (httpWithFlow H k isC f s) := by
    intro k isC f; unfold httpWithFlow
    split
    · exact .set _ _ _ (hbody _ _ _)
    · exact hbody _ _ _
  have hd : InsertsIn K (httpDispatch H s) := by
    unfold httpDispatch
    refine .get _ _ (fun r => ?_)
    cases r with
    | some f => exact hwith _ _ _
    | none =>
      refine .get _ _ (fun r => ?_)
      cases r with
      | some f => exact hwith _ _ _
      | none =>
        dsimp only
        by_cases hs : s.syn = true
        · rw [if_pos hs]; exact .insert _ _ _ _ (hk hs) (.ret _)
        · rw [if_neg hs]; exact .ret _
  unfold httpProg
  split
  · refine .get _ _ (fun f => ?_)
    split
    · exact hd
    · exact .remove _ _ (.remove _ _ hd)
  · exact hd

/-- **HTTP isolation for every trace that opens at most `cap` distinct flows** (keys of its SYN
segments), for parsers whose results do not depend on the processor state they find. -/
theorem http_isolation_cap {γ Q P : Type} (H : HttpParams γ Q P) (hri : ResultIndep H)
    (c : Ep × Ep) (tr : List Seg) (cap : Nat) (g : γ) (K : List FlowKey)
    (hK : ∀ s ∈ tr, s.syn = true → flowKeyOf s ∈ K) (hlen : K.length ≤ cap) :
    ((httpAnalyzer H).runOuts ({ cap := cap }, g) tr).filter (fun po => decide (httpConnOf po.1 = c)) =
      (httpAnalyzer H).runOuts ({ cap := cap }, g) (tr.filter (fun p => decide (httpConnOf p = c))) :=
  http_isolation H hri c tr cap g
    (noEvict_of_keysIn (httpAnalyzer H) K tr (fun s hs => http_insertsIn H s K (hK s hs)) _ _
      (keysIn_empty K cap) hlen)

/-- Non-vacuity: two flows, capacity two. -/
example : ∀ s ∈ [segA, segA', segB, segB'], s.syn = true → flowKeyOf s ∈ [flowKeyOf segA, flowKeyOf segB] := by
  decide

end Huginn.Props.C07
