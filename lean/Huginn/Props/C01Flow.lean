import Huginn.Props.C07Http
/-
C01, no poisoning, HTTP at full strength for the repaired code: `Props/C01.lean`'s
`http_not_poisoned` asks for parsers that never write processor state; the repaired HTTP/2 parser
rewrites its decoder object on every parse but no result depends on the state found
(`ResultIndep`, Props/C07Http.lean). After ANY history of other connections — however malformed,
whatever it leaves in the shared decoder — a probe connection is analysed exactly as by a fresh
processor.
-/
namespace Huginn.Props.C01
open Huginn.Flow Huginn.FlowProgs Huginn.Props.C07

theorem http_not_poisoned_full {γ Q P : Type} (H : HttpParams γ Q P) (hri : ResultIndep H) (g : γ)
    (c : Ep × Ep) (hist probe : List Seg) (cap : Nat)
    (hh : ∀ p ∈ hist, httpConnOf p ≠ c) (hp : ∀ p ∈ probe, httpConnOf p = c)
    (hne : NoEvict (httpAnalyzer H) ({ cap := cap }, g) (hist ++ probe)) :
    ((httpAnalyzer H).runOuts ({ cap := cap }, g) (hist ++ probe)).filter
        (fun po => decide (httpConnOf po.1 = c)) =
      (httpAnalyzer H).runOuts ({ cap := cap }, g) probe :=
  fresh_probe_sim (httpAnalyzer H) (httpAnalyzer (H.pure g)) (fun _ => rfl)
    (fun p => httpProg_sim H hri g p) httpConnOfKey httpConnOf
    (fun p => http_local (H.pure g) (pure_stateless H g) p) c hist probe cap g hh hp hne

end Huginn.Props.C01
