import Huginn.Props.C07Http
import Huginn.Props.C07Cap
import Huginn.Props.C01
/-
C01, no poisoning, HTTP at full strength for the repaired code: `Props/C01.lean`'s
`http_not_poisoned` asks for parsers that never write processor state; the repaired HTTP/2 parser
rewrites its decoder object on every parse but no result depends on the state found
(`ResultIndep`, Props/C07Http.lean). After ANY history of other connections — however malformed,
whatever it leaves in the shared decoder — a probe connection is analysed exactly as by a fresh
processor.
-/
namespace Huginn.Props.C01
open Huginn.Flow Huginn.FlowProgs Huginn.Props.C07

theorem http_not_poisoned_full {γ Q P : Type} (H : HttpParams γ Q P) (hri : ResultIndep H) (g : γ)
    (c : Ep × Ep) (hist probe : List Seg) (cap : Nat)
    (hh : ∀ p ∈ hist, httpConnOf p ≠ c) (hp : ∀ p ∈ probe, httpConnOf p = c)
    (hne : NoEvict (httpAnalyzer H) ({ cap := cap }, g) (hist ++ probe)) :
    ((httpAnalyzer H).runOuts ({ cap := cap }, g) (hist ++ probe)).filter
        (fun po => decide (httpConnOf po.1 = c)) =
      (httpAnalyzer H).runOuts ({ cap := cap }, g) probe :=
  fresh_probe_sim (httpAnalyzer H) (httpAnalyzer (H.pure g)) (fun _ => rfl)
    (fun p => httpProg_sim H hri g p) httpConnOfKey httpConnOf
    (fun p => http_local (H.pure g) (pure_stateless H g) p) c hist probe cap g hh hp hne

/-- No poisoning with the capacity condition on the traffic: after ANY history (malformed or not),
provided history and probe together open at most `cap` distinct flows, the probe connection is
analysed exactly as by a fresh analyzer. -/
theorem tls_not_poisoned_cap {R S : Type} (P : TlsParams R S) (c : FlowKey) (hist probe : List Seg)
    (cap : Nat) (hh : ∀ p ∈ hist, flowKeyOf p ≠ c) (hp : ∀ p ∈ probe, flowKeyOf p = c)
    (K : List FlowKey) (hK : ∀ s ∈ hist ++ probe, flowKeyOf s ∈ K) (hlen : K.length ≤ cap) :
    ((tlsAnalyzer P).runOuts ({ cap := cap }, ()) (hist ++ probe)).filter
        (fun po => decide (flowKeyOf po.1 = c)) =
      (tlsAnalyzer P).runOuts ({ cap := cap }, ()) probe :=
  tls_not_poisoned P c hist probe cap hh hp
    (noEvict_of_keysIn (tlsAnalyzer P) K _ (fun s hs => tls_insertsIn P s K (hK s hs)) _ _
      (keysIn_empty K cap) hlen)

theorem http_not_poisoned_cap {γ Q P : Type} (H : HttpParams γ Q P) (hri : ResultIndep H) (g : γ)
    (c : Ep × Ep) (hist probe : List Seg) (cap : Nat)
    (hh : ∀ p ∈ hist, httpConnOf p ≠ c) (hp : ∀ p ∈ probe, httpConnOf p = c)
    (K : List FlowKey) (hK : ∀ s ∈ hist ++ probe, s.syn = true → flowKeyOf s ∈ K) (hlen : K.length ≤ cap) :
    ((httpAnalyzer H).runOuts ({ cap := cap }, g) (hist ++ probe)).filter
        (fun po => decide (httpConnOf po.1 = c)) =
      (httpAnalyzer H).runOuts ({ cap := cap }, g) probe :=
  http_not_poisoned_full H hri g c hist probe cap hh hp
    (noEvict_of_keysIn (httpAnalyzer H) K _ (fun s hs => http_insertsIn H s K (hK s hs)) _ _
      (keysIn_empty K cap) hlen)

end Huginn.Props.C01
