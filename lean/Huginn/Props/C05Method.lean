import Huginn.Props.C05
/-
C05, the excluded point of `head_report_req`: its hypothesis `WFReq` restricts the method to the eighteen that
`Http1Parser::is_valid_method` accepts (the list is regenerated from the source, `Gen/HttpLists`). The statement
says "every well-formed HTTP/1.0 or 1.1 request head"; by RFC 7230 §3.1.1 the method is any token. At the excluded
point — `PURGE /x HTTP/1.1`, `SEARCH`, `get` — the parser answers `InvalidMethod` and nothing is reported: open
finding `KF.C05.unlistedMethod` (the closed list is pinned by the repository's own test `test_invalid_methods`,
which demands that `INVALID`, `123` and `get` be rejected). Here: the witness on the model and the statement's
failure at full strength.
-/
namespace Huginn.Props.C05
open Huginn.Http1 Huginn.Http1.Spec

private def stubH2 : H2 := ⟨fun _ => none, fun _ => none⟩

private def purge : ReqHead :=
  { method := ascii "PURGE", target := ascii "/x", ver := .v11,
    fields := [{ name := ascii "Host", ows1 := [32], value := ascii "a", ows2 := [] }], langs := [] }

/-- The statement at full strength: every well-formed head, whatever token its method is. -/
def FullHeadStatement : Prop :=
  ∀ (h2 : H2) (h : ReqHead) (body : Bytes), WFReqAnyMethod h →
    processorsParseRequest h2 (renderReq h ++ body) = some (some (reportReq h))

/-- `PURGE /x HTTP/1.1` with a Host line is well-formed by the RFC grammar, is not in the parser's list, and
the model (as the implementation, op `C05.hreq`) reports nothing for it. -/
theorem kf_unlistedMethod_witness :
    WFReqAnyMethod purge ∧ ¬ WFReq purge ∧ processorsParseRequest stubH2 (renderReq purge) = some none := by
  decide +kernel

theorem full_statement_fails : ¬ FullHeadStatement := by
  intro h
  have h1 := h stubH2 purge [] kf_unlistedMethod_witness.1
  rw [List.append_nil, kf_unlistedMethod_witness.2.2] at h1
  cases h1

/-- With the method in the parser's list the two notions of well-formedness coincide, so `head_report_req`
is the full statement restricted to those methods — nothing else is excluded. -/
theorem wfReq_iff (h : ReqHead) : WFReq h ↔ WFReqAnyMethod h ∧ h.method ∈ supportedMethods.map ascii := by
  unfold WFReq WFReqAnyMethod
  constructor
  · rintro ⟨a, b, c, d, e, f, g, i⟩
    refine ⟨⟨?_, b, c, d, e, f, g, i⟩, a⟩
    revert a
    generalize h.method = m
    intro a
    simp only [List.mem_map] at a
    obtain ⟨s, hs, rfl⟩ := a
    revert s
    decide +kernel
  · rintro ⟨⟨_, b, c, d, e, f, g, i⟩, a⟩
    exact ⟨a, b, c, d, e, f, g, i⟩

/-! ### obs-text: field values that are not UTF-8 -/

private def latin1 : ReqHead :=
  { method := ascii "GET", target := ascii "/", ver := .v11,
    fields := [{ name := ascii "Host", ows1 := [32], value := [0x63, 0x61, 0x66, 0xe9], ows2 := [] }], langs := [] }

private def latin1Res : ResHead :=
  { ver := .v11, status := ascii "200", reason := ascii "OK",
    fields := [{ name := ascii "Server", ows1 := [32], value := [0x63, 0x61, 0x66, 0xe9], ows2 := [] }] }

/-- The statement by the RFC grammar alone (any token as method, obs-text allowed in field values). -/
def FullHeadStatementRfc : Prop :=
  (∀ (h2 : H2) (h : ReqHead) (body : Bytes), WFReqRfc h →
    processorsParseRequest h2 (renderReq h ++ body) = some (some (reportReq h))) ∧
  (∀ (h2 : H2) (h : ResHead) (body : Bytes), WFResRfc h →
    processorsParseResponse h2 (renderRes h ++ body) = some (reportRes h))

/-- `Host: caf\xe9` (Latin-1) is a well-formed field by RFC 7230 §3.2 (`obs-text`), is not UTF-8, and the model
(as the implementation, ops `C05.hreq` / `C05.hres`: `InvalidUtf8`) reports nothing for the whole head. Open
finding `KF.C05.obsTextNotUtf8`; pinned by the repository's `test_invalid_utf8_handling`. -/
theorem kf_obsText_witness :
    WFReqRfc latin1 ∧ ¬ WFReq latin1 ∧ processorsParseRequest stubH2 (renderReq latin1) = some none ∧
    WFResRfc latin1Res ∧ ¬ WFRes latin1Res ∧ processorsParseResponse stubH2 (renderRes latin1Res) = none := by
  decide +kernel

theorem full_statement_rfc_fails : ¬ FullHeadStatementRfc := by
  intro h
  have h1 := h.1 stubH2 latin1 [] kf_obsText_witness.1
  rw [List.append_nil, kf_obsText_witness.2.2.1] at h1
  cases h1

end Huginn.Props.C05
