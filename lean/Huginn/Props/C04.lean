import Huginn.Lemmas.Ja4Conform
set_option linter.unusedSimpArgs false
/-
C04 — JA4 fingerprints equal the FoxIO specification for every ClientHello.

Objects: `Spec.specReport sha ch` (Spec/Ja4.lean, from JA4.md over an abstract RFC-shaped hello),
`modelReport sha bodyOk bytes` (Model/Ja4.lean, mirror of parse_tls_client_hello +
extract_tls_signature_from_client_hello + determine_tls_version + generate_ja4_with_order),
`Spec.encode` (RFC wire format). `sha` (SHA-256) and `bodyOk` (tls-parser's body check for the
extension types whose content the code ignores) are parameters: every theorem holds for all of them.
No bound on list lengths other than the wire format's own (u16/u24 length fields, one record).
Helper lemmas: Huginn/Lemmas/{TlsWire,Ja4Text,Ja4Extract,Ja4Conform}.lean.
-/
namespace Huginn.Props.C04
open Huginn.Tls Huginn.Tls.Spec Huginn.Gen.Tls
open Huginn.Lemmas.TlsWire Huginn.Lemmas.Ja4Text Huginn.Lemmas.Ja4Extract Huginn.Lemmas.Ja4Conform

/-- The full-strength statement (still false on the current tree: `kf_alpnNotUtf8_witness`). -/
def FullConformance (sha : Bytes → Bytes) (bodyOk : Nat → Bytes → Bool) : Prop :=
  ∀ (ch : ClientHello) (rep : Report), ch.WF bodyOk → specReport sha ch = some rep →
    modelReport sha bodyOk (encode ch) = some rep

/-- **Wire round trip**: the model of tls-parser applied to the RFC encoding of a well-formed hello
finds exactly that hello. -/
theorem encode_parse (bodyOk : Nat → Bytes → Bool) (ch : ClientHello) (h : ch.WF bodyOk) :
    parsePlaintext (encode ch) = some [Msg.hello (helloOf ch)] ∧
    parseClientHello bodyOk (encode ch) = .sig (extractSig bodyOk (helloOf ch)) :=
  ⟨parsePlaintext_encode bodyOk ch h, parseClientHello_encode bodyOk ch h⟩

/-- **JA4 conformance** (full strength minus the one class still open, `KF.C04.alpnNotUtf8`): for every
well-formed ClientHello whose first ALPN value is not an alphanumeric-ended non-UTF-8 string, and
wherever JA4.md defines the fingerprint, the model reports exactly the JA4, JA4_r, JA4_o, JA4_ro strings
and the version / SNI / ALPN / cipher / extension / signature-algorithm / group fields the
specification assigns to its bytes. -/
theorem ja4_conforms (sha : Bytes → Bytes) (bodyOk : Nat → Bytes → Bool)
    (ch : ClientHello) (rep : Report) (hwf : ch.WF bodyOk) (hk5 : ¬ KF.C04.alpnNotUtf8 ch)
    (hspec : specReport sha ch = some rep) :
    modelReport sha bodyOk (encode ch) = some rep := by
  have hwfx : ∀ x ∈ ch.exts, x.WF bodyOk := hwf.2.2.2.2.2.2.2.1
  unfold specReport at hspec
  cases hj : ja4 sha ch with
  | none => rw [hj] at hspec; simp at hspec
  | some j =>
    cases hvf : versionField ch with
    | none => rw [hj, hvf] at hspec; simp at hspec
    | some vname =>
      rw [hj, hvf] at hspec
      simp only [Option.some.injEq] at hspec
      subst hspec
      unfold ja4 at hj
      cases ha : partA ch with
      | none => rw [ha] at hj; simp at hj
      | some a =>
        rw [ha] at hj
        simp only [Option.map_some, Option.some.injEq] at hj
        subst hj
        unfold partA at ha
        cases hvn : versionNumber ch with
        | none => rw [hvn] at ha; simp at ha
        | some vn =>
          cases hal : alpnChars ch with
          | none => rw [hvn, hal] at ha; simp at ha
          | some fl =>
            obtain ⟨f, l⟩ := fl
            rw [hvn, hal] at ha
            simp only [Option.some.injEq] at ha
            subst ha
            unfold modelReport
            rw [parseClientHello_encode bodyOk ch hwf, extractSig_helloOf bodyOk ch hwf]
            simp only
            obtain ⟨hver, hvname⟩ := version_eq bodyOk ch hwfx vn hvn
            rw [hvf] at hvname
            simp only [Option.some.injEq] at hvname
            have hA : ['t'] ++ (versionOf ch.legacyVersion (accSpec ch.exts)).render
                ++ (if (accSpec ch.exts).sni.isSome then ['d'] else ['i'])
                ++ decW countWidth (min (filterGrease ch.ciphers).length cipherCountCap)
                ++ decW countWidth (min (accSpec ch.exts).extensions.length extCountCap)
                ++ [(alpnPair (accSpec ch.exts).alpn).1, (alpnPair (accSpec ch.exts).alpn).2]
              = ['t'] ++ versionCode vn ++ sniFlag ch ++ dec2 (min (cipherList ch).length 99)
                ++ dec2 (min (extList ch).length 99) ++ [f, l] := by
              rw [hver, sniFlag_eq bodyOk ch hwfx, decW_eq_dec2, decW_eq_dec2, ciphers_eq, extensions_eq ch,
                alpnChars_eq ch hk5 f l hal]
              rfl
            have hfe : filterGrease (accSpec ch.exts).extensions = extList ch := by
              rw [extensions_eq ch, filterGrease_eq_noGrease]
              unfold extList noGrease
              rw [List.filter_filter]
              simp
            have hfc : filterGrease (filterGrease ch.ciphers) = cipherList ch := by
              rw [ciphers_eq, filterGrease_eq_noGrease]
              unfold cipherList noGrease
              rw [List.filter_filter]
              simp
            have hfs : filterGrease (accSpec ch.exts).sigAlgs = sigList ch := by
              rw [sigAlgs_eq, filterGrease_eq_noGrease]; rfl
            unfold reportOf generateJa4
            simp only [hA, hfe, hfc, hfs, Bool.false_eq_true, if_false, if_true]
            have hLs : sortNat (cipherList ch) = ciphersFor true ch := by
              simp [ciphersFor, sortNat_eq_sortAsc]
            have hLo : cipherList ch = ciphersFor false ch := by simp [ciphersFor]
            have hBs := partB_eq (cipherList ch) false ch rfl
            have hBo := partB_eq (cipherList ch) true ch rfl
            have hEs := extsFor_eq (extList ch) false ch rfl
            have hEo := extsFor_eq (extList ch) true ch rfl
            simp only [Bool.false_eq_true, if_false, if_true, Bool.not_false, Bool.not_true] at hBs hBo hEs hEo
            have hCs := partC_eq _ (sigList ch) true ch hEs rfl
            have hCo : (if (hexList (sigList ch)).isEmpty then hexList (extList ch)
                else if (hexList (extList ch)).isEmpty then hexList (sigList ch)
                else hexList (extList ch) ++ ['_'] ++ hexList (sigList ch)) = partC false ch :=
              partC_eq (extList ch) (sigList ch) false ch (by rw [← hEo]) rfl
            rw [hBs, hBo, hCs, hCo, hEs, hLs]
            rw [hEo, hLo, hashB_eq sha true ch, hashB_eq sha false ch, hashC_eq sha true ch, hashC_eq sha false ch]
            rw [ciphers_eq, extensions_eq ch]
            rw [hvname, sni_eq bodyOk ch hwfx, alpn_eq ch hk5 (by rw [hal]; simp), sigAlgs_eq, groups_eq]
            rw [← hLo, ← hEo]

/-! ### non-vacuity of `ja4_conforms` -/

/-- a small TLS 1.3 hello: SNI, ALPN h2, supported_versions [GREASE, 1.3, 1.2], two signature algorithms, a
GREASE cipher and a GREASE extension -/
def ch0 : ClientHello where
  recordVersion := 0x0301
  legacyVersion := 0x0303
  random := List.replicate 32 7
  sessionId := [1, 2, 3]
  ciphers := [0x1a1a, 0x1302, 0x1301]
  compression := [0]
  extensions := some [Ext.other 0x0a0a [], Ext.serverName [(0, [0x61, 0x2e, 0x62])], Ext.other 23 [],
    Ext.alpn [[0x68, 0x32]], Ext.signatureAlgorithms [0x0804, 0x0403],
    Ext.supportedVersions [0x2a2a, 0x0304, 0x0303]]

example : ch0.WF knownBodyOk ∧ ¬ KF.C04.any ch0 ∧ (specReport (fun _ => []) ch0).isSome := by decide

example : (specReport (fun _ => []) ch0).map (·.ja4r) =
    some "t13d0205h2_1301,1302_000d,0017,002b_0804,0403".toList := by decide
example : (modelReport (fun _ => []) knownBodyOk (encode ch0)).map (·.ja4ro) =
    some "t13d0205h2_1302,1301_0000,0017,0010,000d,002b_0804,0403".toList := by decide

/-! ### invariance of the sorted variants (true of the model unconditionally) -/

/-- **Permutation invariance**: reordering cipher suites and extensions (any of the n! orders of each)
does not change the sorted fingerprint — hashed or raw. -/
theorem ja4_sorted_perm (sha : Bytes → Bytes) (s s' : Signature)
    (hc : s.ciphers.Perm s'.ciphers) (he : s.extensions.Perm s'.extensions)
    (hv : s.version = s'.version) (hs : s.sigAlgs = s'.sigAlgs) (hsni : s.sni = s'.sni)
    (hal : s.alpn = s'.alpn) :
    generateJa4 sha s false = generateJa4 sha s' false := by
  have h1 : sortNat (filterGrease s.ciphers) = sortNat (filterGrease s'.ciphers) :=
    sortNat_perm (hc.filter _)
  have h2 : sortNat ((filterGrease s.extensions).filter (fun e => !sortedDropIds.contains e)) =
      sortNat ((filterGrease s'.extensions).filter (fun e => !sortedDropIds.contains e)) :=
    sortNat_perm ((he.filter _).filter _)
  unfold generateJa4
  simp only [Bool.false_eq_true, if_false, h1, h2, hc.length_eq, he.length_eq, hv, hs, hsni, hal]

example : generateJa4 (fun _ => []) { (default : Signature) with ciphers := [3, 1, 2], extensions := [5, 0, 43] } false =
    generateJa4 (fun _ => []) { (default : Signature) with ciphers := [2, 3, 1], extensions := [43, 5, 0] } false :=
  ja4_sorted_perm _ _ _ (by decide) (by decide) rfl rfl rfl rfl

/-- The original-order variants do depend on the order (so the invariance above is not vacuous). -/
example : (generateJa4 (fun _ => []) { (default : Signature) with ciphers := [3, 1, 2] } true).raw ≠
    (generateJa4 (fun _ => []) { (default : Signature) with ciphers := [2, 3, 1] } true).raw := by decide

private theorem findSome_filter {β} (p : Ext → Option β) (q : Ext → Bool) (hq : ∀ x, q x = false → p x = none)
    (l : List Ext) : (l.filter q).findSome? p = l.findSome? p := by
  induction l with
  | nil => rfl
  | cons x t ih =>
    rw [List.filter_cons]
    cases hqx : q x with
    | true => simp only [if_true, List.findSome?_cons, ih]
    | false =>
      simp only [Bool.false_eq_true, if_false, List.findSome?_cons, hq x hqx, ih]

/-- an extension whose type is one of the 16 GREASE values -/
def isGreaseExt (x : Ext) : Bool := decide (IsGrease x.type)

private theorem types_filter_grease (es : List Ext) :
    ((es.filter (fun x => !isGreaseExt x)).map Ext.type).filter (fun t => !isGrease t) =
      (es.map Ext.type).filter (fun t => !isGrease t) := by
  induction es with
  | nil => rfl
  | cons x t ih =>
    rw [List.filter_cons]
    cases hg : isGreaseExt x with
    | false => simp only [Bool.not_false, if_true, List.map_cons, List.filter_cons, ih]
    | true =>
      have : isGrease x.type = true := (isGrease_iff _).mpr (by simpa [isGreaseExt] using hg)
      simp only [Bool.not_true, Bool.false_eq_true, if_false, List.map_cons, List.filter_cons, this, ih]

private theorem accSpec_filter_grease (es : List Ext) :
    accSpec (es.filter (fun x => !isGreaseExt x)) = accSpec es := by
  have hp : ∀ {β} (p : Ext → Option β) (t : Nat), (∀ y b, p y = some b → y.type = t) → ¬ IsGrease t →
      (es.filter (fun x => !isGreaseExt x)).findSome? p = es.findSome? p := by
    intro β p t hpt ht
    apply findSome_filter
    intro x hx
    cases hpx : p x with
    | none => rfl
    | some b =>
      have := hpt x b hpx
      simp only [isGreaseExt, Bool.not_eq_false', decide_eq_true_eq] at hx
      rw [this] at hx
      exact absurd hx ht
  unfold accSpec
  rw [hp pSni 0 pSni_type (by decide), hp pAlpn 16 pAlpn_type (by decide), hp pSig 13 pSig_type (by decide),
    hp pGrp 10 pGrp_type (by decide), hp pPf 11 pPf_type (by decide), hp pSv 43 pSv_type (by decide),
    types_filter_grease]

/-- **GREASE invariance** (through the bytes): two well-formed hellos that differ only by GREASE cipher
suites and GREASE extensions — any of the 16 values, any number, at any positions, any bodies — produce
the same report: all four fingerprints and all fields. In particular the sorted variants do not move. -/
theorem ja4_sorted_grease (sha : Bytes → Bytes) (bodyOk : Nat → Bytes → Bool) (ch ch' : ClientHello)
    (hwf : ch.WF bodyOk) (hwf' : ch'.WF bodyOk) (hl : ch.legacyVersion = ch'.legacyVersion)
    (hc : noGrease ch.ciphers = noGrease ch'.ciphers)
    (he : ch.exts.filter (fun x => !isGreaseExt x) = ch'.exts.filter (fun x => !isGreaseExt x)) :
    modelReport sha bodyOk (encode ch) = modelReport sha bodyOk (encode ch') := by
  unfold modelReport
  rw [parseClientHello_encode bodyOk ch hwf, parseClientHello_encode bodyOk ch' hwf',
    extractSig_helloOf bodyOk ch hwf, extractSig_helloOf bodyOk ch' hwf']
  have ha : accSpec ch.exts = accSpec ch'.exts := by
    rw [← accSpec_filter_grease ch.exts, he, accSpec_filter_grease]
  rw [ha, hl, filterGrease_eq_noGrease, filterGrease_eq_noGrease, hc]

/-- inserting a GREASE value anywhere in a list is invisible to `noGrease` -/
theorem noGrease_insert (l₁ l₂ : List Nat) (g : Nat) (hg : IsGrease g) :
    noGrease (l₁ ++ g :: l₂) = noGrease (l₁ ++ l₂) := by
  simp [noGrease, List.filter_append, List.filter_cons, hg]

/-- `ch0` with its GREASE cipher and GREASE extension removed -/
def ch0' : ClientHello :=
  { ch0 with ciphers := [0x1302, 0x1301],
             extensions := some [Ext.serverName [(0, [0x61, 0x2e, 0x62])], Ext.other 23 [],
               Ext.alpn [[0x68, 0x32]], Ext.signatureAlgorithms [0x0804, 0x0403],
               Ext.supportedVersions [0x2a2a, 0x0304, 0x0303]] }

example (sha : Bytes → Bytes) : modelReport sha knownBodyOk (encode ch0) = modelReport sha knownBodyOk (encode ch0') :=
  ja4_sorted_grease sha knownBodyOk ch0 ch0' (by decide) (by decide) rfl (by decide) (by decide)

/-! ### permutation invariance through the bytes -/

private theorem findSome_perm {β} (p : Ext → Option β) (t : Nat) (hp : ∀ y b, p y = some b → y.type = t) :
    ∀ {l l' : List Ext}, l.Perm l' → ((l.map Ext.type).filter (· = t)).length ≤ 1 →
      l.findSome? p = l'.findSome? p := by
  intro l l' h
  induction h with
  | nil => intro _; rfl
  | cons x _ ih =>
    intro hc
    simp only [List.findSome?_cons]
    cases hpx : p x with
    | some b => rfl
    | none =>
      simp only
      apply ih
      simp only [List.map_cons, List.filter_cons] at hc
      split at hc
      · simp only [List.length_cons] at hc; omega
      · exact hc
  | swap x y l =>
    intro hc
    simp only [List.findSome?_cons]
    cases hpx : p x with
    | none => cases hpy : p y <;> rfl
    | some b =>
      cases hpy : p y with
      | none => rfl
      | some c =>
        have hx := hp x b hpx
        have hy := hp y c hpy
        simp [List.filter_cons, hx, hy] at hc
  | trans h1 _ ih1 ih2 =>
    intro hc
    rw [ih1 hc]
    apply ih2
    rw [← ((h1.map Ext.type).filter _).length_eq]
    exact hc

private theorem accSpec_perm (es es' : List Ext) (h : es.Perm es') (hd : distinctDecoded es) :
    (accSpec es).extensions.Perm (accSpec es').extensions ∧ (accSpec es).sni = (accSpec es').sni ∧
    (accSpec es).alpn = (accSpec es').alpn ∧ (accSpec es).sigAlgs = (accSpec es').sigAlgs ∧
    (accSpec es).curves = (accSpec es').curves ∧
    (accSpec es).supportedVersions = (accSpec es').supportedVersions := by
  unfold accSpec
  simp only
  rw [findSome_perm pSni 0 pSni_type h (hd 0 (by decide)), findSome_perm pAlpn 16 pAlpn_type h (hd 16 (by decide)),
    findSome_perm pSig 13 pSig_type h (hd 13 (by decide)), findSome_perm pGrp 10 pGrp_type h (hd 10 (by decide)),
    findSome_perm pSv 43 pSv_type h (hd 43 (by decide))]
  exact ⟨(h.map _).filter _, rfl, rfl, rfl, rfl, rfl⟩

/-- **Permutation invariance through the bytes**: two well-formed hellos whose cipher-suite lists and
extension lists are permutations of each other (all n! orders of each, GREASE included) have the same
JA4 and JA4_r. -/
theorem ja4_sorted_perm_bytes (sha : Bytes → Bytes) (bodyOk : Nat → Bytes → Bool) (ch ch' : ClientHello)
    (hwf : ch.WF bodyOk) (hwf' : ch'.WF bodyOk) (hl : ch.legacyVersion = ch'.legacyVersion)
    (hc : ch.ciphers.Perm ch'.ciphers) (he : ch.exts.Perm ch'.exts) :
    (modelReport sha bodyOk (encode ch)).map (fun r => (r.ja4, r.ja4r)) =
      (modelReport sha bodyOk (encode ch')).map (fun r => (r.ja4, r.ja4r)) := by
  unfold modelReport
  rw [parseClientHello_encode bodyOk ch hwf, parseClientHello_encode bodyOk ch' hwf',
    extractSig_helloOf bodyOk ch hwf, extractSig_helloOf bodyOk ch' hwf']
  obtain ⟨hpe, hsni, halpn, hsig, _, hsv⟩ := accSpec_perm ch.exts ch'.exts he hwf.2.2.2.2.2.2.2.2.1
  have hver : versionOf ch.legacyVersion (accSpec ch.exts) = versionOf ch'.legacyVersion (accSpec ch'.exts) := by
    unfold versionOf determineVersion
    have : (accSpec ch.exts).extensions.contains (extIdOfName svExtName) =
        (accSpec ch'.exts).extensions.contains (extIdOfName svExtName) := by
      simp only [List.contains_eq_mem, hpe.mem_iff]
    rw [this, hl, hsv]
  have := ja4_sorted_perm sha
    { version := versionOf ch.legacyVersion (accSpec ch.exts),
      ciphers := filterGrease ch.ciphers, extensions := (accSpec ch.exts).extensions,
      curves := (accSpec ch.exts).curves, pointFormats := (accSpec ch.exts).pointFormats,
      sigAlgs := (accSpec ch.exts).sigAlgs, sni := (accSpec ch.exts).sni, alpn := (accSpec ch.exts).alpn }
    { version := versionOf ch'.legacyVersion (accSpec ch'.exts),
      ciphers := filterGrease ch'.ciphers, extensions := (accSpec ch'.exts).extensions,
      curves := (accSpec ch'.exts).curves, pointFormats := (accSpec ch'.exts).pointFormats,
      sigAlgs := (accSpec ch'.exts).sigAlgs, sni := (accSpec ch'.exts).sni, alpn := (accSpec ch'.exts).alpn }
    (hc.filter _) hpe hver hsig hsni halpn
  simp only [Option.map_some, reportOf, this]

/-! ### the original-order variants, the signature algorithms and the list fields follow the bytes -/

/-- how `generate_ja4_with_order` joins the extension part and the signature-algorithm part -/
def joinC (e s : Str) : Str := if s.isEmpty then e else if e.isEmpty then s else e ++ ['_'] ++ s

/-- **Original order follows the bytes.** For a well-formed hello the signature the model extracts lists the non-GREASE cipher suites, the non-GREASE extension types
(SNI and ALPN included) and the signature algorithms exactly in wire order, and JA4_ro / JA4_o are built
from those lists as they are — no sorting, nothing removed. -/
theorem ja4_original_follows_bytes (sha : Bytes → Bytes) (bodyOk : Nat → Bytes → Bool) (ch : ClientHello)
    (hwf : ch.WF bodyOk) :
    ∃ sg, parseClientHello bodyOk (encode ch) = .sig sg ∧
      sg.ciphers = cipherList ch ∧ sg.extensions = extList ch ∧ sg.sigAlgs = sigAlgsOf ch.exts ∧
      sg.curves = groupsOf ch.exts ∧
      (generateJa4 sha sg true).b = commaHex (cipherList ch) ∧
      (generateJa4 sha sg true).c = joinC (commaHex (extList ch)) (commaHex (sigList ch)) := by
  refine ⟨_, parseClientHello_encode bodyOk ch hwf, ?_⟩
  rw [extractSig_helloOf bodyOk ch hwf]
  have hfe : filterGrease (extList ch) = extList ch := by
    rw [filterGrease_eq_noGrease]; unfold extList noGrease; rw [List.filter_filter]; simp
  have hfc : filterGrease (cipherList ch) = cipherList ch := by
    rw [filterGrease_eq_noGrease]; unfold cipherList noGrease; rw [List.filter_filter]; simp
  refine ⟨ciphers_eq ch, extensions_eq ch, sigAlgs_eq ch, groups_eq ch, ?_, ?_⟩
  · simp only [generateJa4, if_true, ciphers_eq, hfc, hexList_eq_commaHex]
  · simp only [generateJa4, if_true, extensions_eq ch, hfe, sigAlgs_eq, hexList_eq_commaHex, joinC,
      filterGrease_eq_noGrease]
    rfl

/-- … and the rendering loses nothing: equal JA4_ro cipher parts mean the same cipher suites in the same order. -/
theorem original_order_determined (bodyOk : Nat → Bytes → Bool) (ch ch' : ClientHello)
    (hwf : ch.WF bodyOk) (hwf' : ch'.WF bodyOk)
    (h : commaHex (cipherList ch) = commaHex (cipherList ch')) : cipherList ch = cipherList ch' := by
  have hf : ∀ c : ClientHello, c.WF bodyOk → fits 65536 (cipherList c) := by
    intro c hc x hx
    exact hc.2.2.2.2.1 x (List.mem_filter.mp hx).1
  exact commaHex_inj _ _ (hf ch hwf) (hf ch' hwf') h

/-- **Signature-algorithm order is preserved**: in the sorted and in the original variant alike, the part
after `_` is the hello's signature algorithms without GREASE in wire order (never sorted). -/
theorem sigalgs_order_preserved (sha : Bytes → Bytes) (s : Signature) (original : Bool) :
    ∃ e : Str, (generateJa4 sha s original).c = joinC e (commaHex (noGrease s.sigAlgs)) := by
  refine ⟨hexList (if original then filterGrease s.extensions
      else sortNat ((filterGrease s.extensions).filter (fun e => !sortedDropIds.contains e))), ?_⟩
  simp only [generateJa4, joinC, hexList_eq_commaHex, filterGrease_eq_noGrease]

example : (generateJa4 (fun _ => []) { (default : Signature) with extensions := [13], sigAlgs := [0x0804, 0x0403] } false).c
    = "000d_0804,0403".toList := by decide +kernel
example : (generateJa4 (fun _ => []) { (default : Signature) with extensions := [13], sigAlgs := [0x0403, 0x0804] } false).c
    = "000d_0403,0804".toList := by decide +kernel

/-! ### the full statement still fails inside the one open class (kernel-checked witness, any SHA) -/

private theorem specReport_eq (sha : Bytes → Bytes) (ch : ClientHello) (a : Str) (v : String)
    (hA : partA ch = some a) (hv : versionField ch = some v) :
    specReport sha ch = some
      { ja4 := a ++ ['_'] ++ hashB sha true ch ++ ['_'] ++ hashC sha true ch,
        ja4r := a ++ ['_'] ++ partB true ch ++ ['_'] ++ partC true ch,
        ja4o := a ++ ['_'] ++ hashB sha false ch ++ ['_'] ++ hashC sha false ch,
        ja4ro := a ++ ['_'] ++ partB false ch ++ ['_'] ++ partC false ch,
        version := v, sni := sniField ch, alpn := alpnField ch, ciphers := cipherList ch,
        extensions := extList ch, sigAlgs := sigAlgsOf ch.exts, groups := groupsOf ch.exts } := by
  unfold specReport ja4
  rw [hA, hv]
  rfl

private theorem modelReport_wf (sha : Bytes → Bytes) (ch : ClientHello) (hwf : ch.WF knownBodyOk) :
    modelReport sha knownBodyOk (encode ch) = some (reportOf sha (extractSig knownBodyOk (helloOf ch))) := by
  unfold modelReport
  rw [parseClientHello_encode knownBodyOk ch hwf]

private theorem not_full_of_witness {α} (sha : Bytes → Bytes) (ch : ClientHello) (proj : Report → α)
    (a : Str) (v : String) (hA : partA ch = some a) (hv : versionField ch = some v)
    (hwf : ch.WF knownBodyOk)
    (hne : ∀ r, specReport sha ch = some r → proj (reportOf sha (extractSig knownBodyOk (helloOf ch))) ≠ proj r) :
    ¬ FullConformance sha knownBodyOk := by
  intro hfull
  have hs := specReport_eq sha ch a v hA hv
  have hm := hfull ch _ hwf hs
  rw [modelReport_wf sha ch hwf] at hm
  simp only [Option.some.injEq] at hm
  exact hne _ hs (congrArg proj hm)

private def wBase (legacy : Nat) (ciphers : List Nat) (exts : List Ext) : ClientHello :=
  { recordVersion := 0x0301, legacyVersion := legacy, random := List.replicate 32 0, sessionId := [],
    ciphers := ciphers, compression := [0], extensions := some exts }

/-- first ALPN value `68 ff 32`: dropped by the code, `h2` by JA4.md -/
def w5 : ClientHello := wBase 0x0303 [0x1301] [Ext.alpn [[0x68, 0xff, 0x32]], Ext.other 23 []]

theorem kf_alpnNotUtf8_witness (sha : Bytes → Bytes) :
    w5.WF knownBodyOk ∧ KF.C04.alpnNotUtf8 w5 ∧ ¬ FullConformance sha knownBodyOk := by
  refine ⟨by decide, by decide, not_full_of_witness sha w5 (·.alpn) "t12i0102h2".toList "V1_2"
    (by decide) (by decide) (by decide) ?_⟩
  intro r hr
  rw [specReport_eq sha w5 _ _ (by decide : partA w5 = some "t12i0102h2".toList) (by decide : versionField w5 = some "V1_2")] at hr
  simp only [Option.some.injEq] at hr
  subst hr
  show (extractSig knownBodyOk (helloOf w5)).alpn ≠ alpnField w5
  decide

/-! ### the witnesses of the four repaired classes now conform (regression, through `ja4_conforms`) -/

/-- supported_versions = [TLS 1.2] (was reported as 1.3) -/
def w1 : ClientHello := wBase 0x0303 [0x1301] [Ext.supportedVersions [0x0303], Ext.signatureAlgorithms [0x0403]]
/-- legacy version 0x0305, no supported_versions (was reported as 1.2) -/
def w2 : ClientHello := wBase 0x0305 [0x1301] [Ext.signatureAlgorithms [0x0403]]
/-- no cipher suites (the empty string was hashed) -/
def w3 : ClientHello := wBase 0x0303 [] [Ext.other 23 []]
/-- extension type 0x1a2a, GREASE-like but not GREASE (was dropped) -/
def w4 : ClientHello := wBase 0x0303 [0x1301] [Ext.other 0x1a2a [1, 2], Ext.other 23 []]

private theorem conforms_of (sha : Bytes → Bytes) (w : ClientHello) (hwf : w.WF knownBodyOk)
    (hk : ¬ KF.C04.alpnNotUtf8 w) (a : Str) (v : String) (hA : partA w = some a) (hv : versionField w = some v) :
    modelReport sha knownBodyOk (encode w) = specReport sha w := by
  rw [specReport_eq sha w a v hA hv]
  exact ja4_conforms sha knownBodyOk w _ hwf hk (specReport_eq sha w a v hA hv)

example (sha : Bytes → Bytes) : modelReport sha knownBodyOk (encode w1) = specReport sha w1 :=
  conforms_of sha w1 (by decide) (by decide) "t12i010200".toList "V1_2" (by decide) (by decide)
example (sha : Bytes → Bytes) : modelReport sha knownBodyOk (encode w2) = specReport sha w2 :=
  conforms_of sha w2 (by decide) (by decide) "t00i010100".toList "Unknown" (by decide) (by decide)
example (sha : Bytes → Bytes) : modelReport sha knownBodyOk (encode w3) = specReport sha w3 :=
  conforms_of sha w3 (by decide) (by decide) "t12i000100".toList "V1_2" (by decide) (by decide)
example (sha : Bytes → Bytes) : modelReport sha knownBodyOk (encode w4) = specReport sha w4 :=
  conforms_of sha w4 (by decide) (by decide) "t12i010200".toList "V1_2" (by decide) (by decide)
example (sha : Bytes → Bytes) : (specReport sha w3).map (fun r => r.ja4.take 23) =
    some "t12i000100_000000000000".toList := by
  rw [specReport_eq sha w3 _ _ (by decide : partA w3 = some "t12i000100".toList) (by decide : versionField w3 = some "V1_2")]
  have hB : hashB sha true w3 = zeros12 := by
    unfold hashB
    have : (ciphersFor true w3).isEmpty = true := by decide
    simp only [this, if_true]
  simp only [Option.map_some, hB, List.append_assoc]
  rfl

end Huginn.Props.C04
