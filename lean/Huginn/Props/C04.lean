import Huginn.Lemmas.Ja4Conform
set_option linter.unusedSimpArgs false
/-
C04 — JA4 fingerprints equal the FoxIO specification for every ClientHello.

Objects: `Spec.specReport sha ch` (Spec/Ja4.lean, from JA4.md over an abstract RFC-shaped hello),
`modelReport sha bodyOk bytes` (Model/Ja4.lean, mirror of parse_tls_client_hello +
extract_tls_signature_from_client_hello + determine_tls_version + generate_ja4_with_order),
`Spec.encode` (RFC wire format). `sha` (SHA-256) and `bodyOk` (tls-parser's body check for the
extension types whose content the code ignores) are parameters: every theorem holds for all of them.
No bound on list lengths other than the wire format's own (u16/u24 length fields, one record).
Helper lemmas: Huginn/Lemmas/{TlsWire,Ja4Text,Ja4Extract,Ja4Conform}.lean.
-/
namespace Huginn.Props.C04
open Huginn.Tls Huginn.Tls.Spec Huginn.Gen.Tls
open Huginn.Lemmas.TlsWire Huginn.Lemmas.Ja4Text Huginn.Lemmas.Ja4Extract Huginn.Lemmas.Ja4Conform

/-- The full-strength statement (false on the current tree, see the `kf_*_witness` theorems). -/
def FullConformance (sha : Bytes → Bytes) (bodyOk : Nat → Bytes → Bool) : Prop :=
  ∀ (ch : ClientHello) (rep : Report), ch.WF bodyOk → specReport sha ch = some rep →
    modelReport sha bodyOk (encode ch) = some rep

/-- **Wire round trip**: the model of tls-parser applied to the RFC encoding of a well-formed hello
finds exactly that hello. -/
theorem encode_parse (bodyOk : Nat → Bytes → Bool) (ch : ClientHello) (h : ch.WF bodyOk) :
    parsePlaintext (encode ch) = some [Msg.hello (helloOf ch)] ∧
    parseClientHello bodyOk (encode ch) = .sig (extractSig bodyOk (helloOf ch)) :=
  ⟨parsePlaintext_encode bodyOk ch h, parseClientHello_encode bodyOk ch h⟩

/-- **JA4 conformance, partial**: for every well-formed ClientHello outside the five known-finding
classes and wherever JA4.md defines the fingerprint, the model reports exactly the JA4, JA4_r, JA4_o,
JA4_ro strings and the version / SNI / ALPN / cipher / extension / signature-algorithm / group fields
the specification assigns to its bytes. -/
theorem ja4_conforms_partial (sha : Bytes → Bytes) (bodyOk : Nat → Bytes → Bool)
    (ch : ClientHello) (rep : Report) (hwf : ch.WF bodyOk) (hkf : ¬ KF.C04.any ch)
    (hspec : specReport sha ch = some rep) :
    modelReport sha bodyOk (encode ch) = some rep := by
  have hk1 : ¬ KF.C04.supportedVersionsNot13 ch := fun h => hkf (Or.inl h)
  have hk2 : ¬ KF.C04.unknownLegacyVersion ch := fun h => hkf (Or.inr (Or.inl h))
  have hk3 : ¬ KF.C04.emptyListHash ch := fun h => hkf (Or.inr (Or.inr (Or.inl h)))
  have hk4 : ¬ KF.C04.greaseLikeExtension ch := fun h => hkf (Or.inr (Or.inr (Or.inr (Or.inl h))))
  have hk5 : ¬ KF.C04.alpnNotUtf8 ch := fun h => hkf (Or.inr (Or.inr (Or.inr (Or.inr h))))
  have hwfx : ∀ x ∈ ch.exts, x.WF bodyOk := hwf.2.2.2.2.2.2.2.1
  -- non-empty lists (outside emptyListHash)
  have hc_ne : cipherList ch ≠ [] := fun h => hk3 (Or.inl h)
  have he_s : extsFor true ch ≠ [] := fun h => hk3 (Or.inr (Or.inl h))
  have he_o : extsFor false ch ≠ [] := fun h => hk3 (Or.inr (Or.inr h))
  -- what the specification says
  unfold specReport at hspec
  cases hj : ja4 sha ch with
  | none => rw [hj] at hspec; simp at hspec
  | some j =>
    cases hvf : versionField ch with
    | none => rw [hj, hvf] at hspec; simp at hspec
    | some vname =>
      rw [hj, hvf] at hspec
      simp only [Option.some.injEq] at hspec
      subst hspec
      unfold ja4 at hj
      cases ha : partA ch with
      | none => rw [ha] at hj; simp at hj
      | some a =>
        rw [ha] at hj
        simp only [Option.map_some, Option.some.injEq] at hj
        subst hj
        unfold partA at ha
        cases hvn : versionNumber ch with
        | none => rw [hvn] at ha; simp at ha
        | some vn =>
          cases hal : alpnChars ch with
          | none => rw [hvn, hal] at ha; simp at ha
          | some fl =>
            obtain ⟨f, l⟩ := fl
            rw [hvn, hal] at ha
            simp only [Option.some.injEq] at ha
            subst ha
            -- what the model computes
            unfold modelReport
            rw [parseClientHello_encode bodyOk ch hwf, extractSig_helloOf bodyOk ch hwf]
            simp only
            obtain ⟨hver, hvname⟩ := version_eq bodyOk ch hwfx hk1 hk2 vn hvn
            rw [hvf] at hvname
            simp only [Option.some.injEq] at hvname
            have hA : ['t'] ++ (determineVersion ch.legacyVersion (accSpec ch.exts).extensions).render
                ++ (if (accSpec ch.exts).sni.isSome then ['d'] else ['i'])
                ++ decW countWidth (min (filterGrease ch.ciphers).length cipherCountCap)
                ++ decW countWidth (min (accSpec ch.exts).extensions.length extCountCap)
                ++ [(alpnPair (accSpec ch.exts).alpn).1, (alpnPair (accSpec ch.exts).alpn).2]
              = ['t'] ++ versionCode vn ++ sniFlag ch ++ dec2 (min (cipherList ch).length 99)
                ++ dec2 (min (extList ch).length 99) ++ [f, l] := by
              rw [hver, sniFlag_eq bodyOk ch hwfx, decW_eq_dec2, decW_eq_dec2, ciphers_eq, extensions_eq ch hk4,
                alpnChars_eq ch hk5 f l hal]
              rfl
            have hfe : filterGrease (accSpec ch.exts).extensions = extList ch := by
              rw [extensions_eq ch hk4, filterGrease_eq_noGrease]
              unfold extList noGrease
              rw [List.filter_filter]
              simp
            have hfc : filterGrease (filterGrease ch.ciphers) = cipherList ch := by
              rw [ciphers_eq, filterGrease_eq_noGrease]
              unfold cipherList noGrease
              rw [List.filter_filter]
              simp
            have hfs : filterGrease (accSpec ch.exts).sigAlgs = sigList ch := by
              rw [sigAlgs_eq, filterGrease_eq_noGrease]; rfl
            unfold reportOf generateJa4
            simp only [hA, hfe, hfc, hfs, Bool.false_eq_true, if_false, if_true]
            have hBs := partB_eq (cipherList ch) false ch rfl
            have hBo := partB_eq (cipherList ch) true ch rfl
            have hEs := extsFor_eq (extList ch) false ch rfl
            have hEo := extsFor_eq (extList ch) true ch rfl
            simp only [Bool.false_eq_true, if_false, if_true, Bool.not_false, Bool.not_true] at hBs hBo hEs hEo
            have hCs := partC_eq _ (sigList ch) true ch hEs he_s rfl
            rw [hBs, hBo, hCs]
            have hCo' : (if (hexList (sigList ch)).isEmpty then hexList (extList ch)
                else if (hexList (extList ch)).isEmpty then hexList (sigList ch)
                else hexList (extList ch) ++ ['_'] ++ hexList (sigList ch)) = partC false ch :=
              partC_eq (extList ch) (sigList ch) false ch (by rw [← hEo]) he_o rfl
            rw [hCo']
            rw [hashB_eq sha true ch hc_ne, hashB_eq sha false ch hc_ne, hashC_eq sha true ch he_s,
              hashC_eq sha false ch he_o]
            rw [hvname, sni_eq bodyOk ch hwfx, alpn_eq ch hk5 (by rw [hal]; simp), ciphers_eq,
              extensions_eq ch hk4, sigAlgs_eq, groups_eq]

end Huginn.Props.C04
