import Huginn.Lemmas.TlsReader
/-
C08 — TLS ClientHello reassembly is segmentation-invariant and reports exactly once.

All theorems hold for an *arbitrary* ClientHello parser `parse : Bytes → PR σ` (the concrete one is
modelled in Model/Ja4.lean and is C04's subject), for every record length up to the reader's bound,
every tail and every list of segments — no bound on the number or size of segments.
Helper lemmas: Huginn/Lemmas/TlsReader.lean.
-/
namespace Huginn.Props.C08
open Huginn.Tls Huginn.Gen.Tls Huginn.Lemmas.TlsReader

variable {σ : Type}

/-- What the reader returns on the completing segment, as a function of the parser's verdict on the record. -/
def outOf : PR σ → Out σ
  | .sig s => .sig s
  | .notHello => .none
  | .err => .errParse

/-- Outputs after the completing segment `k`: nothing once a signature is stored; a fresh reader
after a non-ClientHello record (`reset`); the same parse error again while the record stays buffered. -/
def afterOf (parse : Bytes → PR σ) (r : Bytes) (later : List Bytes) : List (Out σ) :=
  match parse r with
  | .sig _ => List.replicate later.length Out.none
  | .notHello => Reader.run parse Reader.init later
  | .err => List.replicate later.length Out.errParse

/-- Invariant form (DESIGN §7 C08): from a state with `buffer = b` (a proper prefix of the record,
`signature = none`) and the remaining segments, the outputs are `none` up to the first segment whose
cumulative length reaches the record, then the parser's verdict on exactly the record, then `afterOf`. -/
theorem run_from_prefix (parse : Bytes → PR σ) {r tail : Bytes} (hr : IsRecord r) :
    ∀ (segs : List Bytes) (b : Bytes), b ++ segs.flatten = r ++ tail → b.length < r.length →
      Reader.run parse ({ buffer := b, signature := none } : Reader σ) segs =
        List.replicate (Spec.completionIdx (r.length - b.length) segs) Out.none
          ++ outOf (parse r) :: afterOf parse r (segs.drop (Spec.completionIdx (r.length - b.length) segs + 1)) := by
  intro segs
  induction segs with
  | nil =>
    intro b h hlt
    have := congrArg List.length h
    simp at this
    omega
  | cons seg rest ih =>
    intro b h hlt
    have h' : b ++ seg ++ rest.flatten = r ++ tail := by simpa [List.flatten_cons, List.append_assoc] using h
    by_cases hc : (b ++ seg).length < r.length
    · -- not yet complete
      have hk : Spec.completionIdx (r.length - b.length) (seg :: rest)
          = Spec.completionIdx (r.length - (b ++ seg).length) rest + 1 := by
        simp only [Spec.completionIdx]
        have : ¬ (r.length - b.length ≤ seg.length) := by simp at hc; omega
        rw [if_neg this]
        congr 2
        simp; omega
      rw [hk]
      simp only [Reader.run, step_before parse hr.toIsFrame h' hc, List.replicate_succ, List.cons_append, List.drop_succ_cons]
      exact congrArg _ (ih (b ++ seg) h' hc)
    · -- this segment completes the record
      have hge : r.length ≤ (b ++ seg).length := by omega
      have hk : Spec.completionIdx (r.length - b.length) (seg :: rest) = 0 := by
        simp only [Spec.completionIdx]
        have : r.length - b.length ≤ seg.length := by simp at hge; omega
        rw [if_pos this]
      rw [hk]
      simp only [Reader.run, List.replicate_zero, List.nil_append, List.drop_succ_cons, List.drop_zero]
      have hs := step_complete parse hr h' hge
      unfold afterOf outOf
      cases hp : parse r with
      | sig s =>
        rw [hp] at hs
        simp only [hs, run_done]
      | notHello =>
        rw [hp] at hs
        simp only [hs]
      | err =>
        rw [hp] at hs
        simp only [hs]
        have htake : (b ++ seg).take r.length = r := by
          have := congrArg (List.take r.length) h'
          rw [List.take_append_of_le_length hge, List.take_left' rfl] at this
          exact this
        have hsplit : b ++ seg = r ++ (b ++ seg).drop r.length := by
          conv => lhs; rw [← List.take_append_drop r.length (b ++ seg), htake]
        rw [hsplit]
        exact congrArg _ (run_err parse hr hp rest _)

/-- **Exactly once, on the completing segment, equal to the single-segment result** (reader API).
For every handshake record `r` within the 64 KiB bound that the parser accepts as a ClientHello with
signature `s`, every tail and every division of `r ++ tail` into segments (any number, any sizes,
empty ones included, *no* condition on the first segment at this level): the outputs are `None` for
the `k` segments before completion, `Some(s)` on the segment that completes the record, and `None`
for everything after it, where `k` is the first index whose cumulative length reaches `|r|`. -/
theorem reader_exactly_once (parse : Bytes → PR σ) {r tail : Bytes} {s : σ} (segs : List Bytes)
    (hr : IsRecord r) (hp : parse r = .sig s) (hcat : segs.flatten = r ++ tail) :
    Reader.run parse Reader.init segs =
      List.replicate (Spec.completionIdx r.length segs) Out.none ++ [Out.sig s]
        ++ List.replicate (segs.length - Spec.completionIdx r.length segs - 1) Out.none := by
  have h5 := hr.hdr
  have := run_from_prefix parse (tail := tail) hr segs [] (by simpa using hcat) (by simp; omega)
  simp only [List.length_nil, Nat.sub_zero] at this
  unfold Reader.init
  rw [this]
  simp only [outOf, afterOf, hp, List.length_drop, List.append_assoc, List.singleton_append]
  congr 3

/-- The completing index exists: the record does complete within the segments. -/
theorem completionIdx_lt (m : Nat) (l : List Bytes) (h1 : m ≤ l.flatten.length) (h2 : 0 < m) :
    Spec.completionIdx m l < l.length := by
  induction l generalizing m with
  | nil => simp at h1; omega
  | cons a t iht =>
    simp only [Spec.completionIdx]
    split
    · simp
    · simp only [List.length_cons, Nat.add_lt_add_iff_right]
      simp only [List.flatten_cons, List.length_append] at h1
      exact iht _ (by omega) (by omega)

theorem completion_lt {r tail : Bytes} (segs : List Bytes) (hr : IsRecord r) (hcat : segs.flatten = r ++ tail) :
    Spec.completionIdx r.length segs < segs.length := by
  have h5 := hr.hdr
  exact completionIdx_lt _ _ (by rw [hcat]; simp) (by omega)

/-- Segmentation invariance: any division gives the single-segment output, padded with `None`s. -/
theorem reader_segmentation_invariant (parse : Bytes → PR σ) {r tail : Bytes} {s : σ} (segs : List Bytes)
    (hr : IsRecord r) (hp : parse r = .sig s) (hcat : segs.flatten = r ++ tail) :
    Reader.run parse Reader.init [r ++ tail] = [Out.sig s] ∧
    (Reader.run parse Reader.init segs).filter Spec.isSig = [Out.sig s] := by
  constructor
  · have := reader_exactly_once parse (tail := tail) [r ++ tail] hr hp (by simp)
    simpa [Spec.completionIdx] using this
  · rw [reader_exactly_once parse segs hr hp hcat]
    simp only [List.filter_append, List.filter_replicate, Spec.isSig, List.filter_cons, List.filter_nil]
    simp

/-- Records that are not a ClientHello produce no result: nothing is reported up to and including the
completing segment, and the reader is reset; with no bytes after the record nothing is ever reported. -/
theorem non_hello_none (parse : Bytes → PR σ) {r : Bytes} (segs : List Bytes)
    (hr : IsRecord r) (hp : parse r = .notHello) (hcat : segs.flatten = r) :
    Reader.run parse Reader.init segs = List.replicate segs.length Out.none := by
  have h5 := hr.hdr
  have hk := completion_lt (tail := []) segs hr (by simpa using hcat)
  have := run_from_prefix parse (tail := []) hr segs [] (by simpa using hcat) (by simp; omega)
  simp only [List.length_nil, Nat.sub_zero] at this
  unfold Reader.init
  rw [this]
  simp only [outOf, afterOf, hp]
  -- the segments after the completing one are all empty
  have hempty : ∀ x ∈ segs.drop (Spec.completionIdx r.length segs + 1), x = [] := by
    -- lengths: the first k+1 segments already hold |r| bytes = the whole stream
    have key : ∀ (n : Nat) (l : List Bytes), l.flatten.length = n → 0 < n →
        ∀ x ∈ l.drop (Spec.completionIdx n l + 1), x = [] := by
      intro n l
      induction l generalizing n with
      | nil => intro _ _ x hx; simp at hx
      | cons a t iht =>
        intro h1 h2 x hx
        simp only [Spec.completionIdx] at hx
        split at hx
        · rename_i hle
          simp only [Nat.zero_add, List.drop_succ_cons, List.drop_zero] at hx
          have : t.flatten.length = 0 := by
            simp only [List.flatten_cons, List.length_append] at h1; omega
          have ht : t.flatten = [] := List.length_eq_zero_iff.mp this
          have := List.flatten_eq_nil_iff.mp ht
          exact this x hx
        · rename_i hnle
          simp only [List.drop_succ_cons] at hx
          exact iht (n - a.length) (by simp only [List.flatten_cons, List.length_append] at h1; omega) (by omega) x hx
    exact key r.length segs (by rw [hcat]) (by omega)
  have hrun : ∀ (l : List Bytes), (∀ x ∈ l, x = []) →
      Reader.run parse (Reader.init : Reader σ) l = List.replicate l.length Out.none := by
    intro l
    induction l with
    | nil => intro _; rfl
    | cons a t iht =>
      intro hall
      have ha : a = [] := hall a (by simp)
      subst ha
      have : (Reader.init : Reader σ).addBytes parse [] = (Reader.init, Out.none) := by
        simp [Reader.addBytes, Reader.addBytesT, Reader.init, readerHdrLen]
      simp only [Reader.run, this, List.length_cons, List.replicate_succ]
      exact congrArg _ (iht (fun x hx => hall x (by simp [hx])))
  rw [hrun _ hempty]
  rw [← List.replicate_succ, List.replicate_append_replicate]
  congr 1
  simp only [List.length_drop]
  omega

/-- A stream that does not start with the handshake content type produces nothing for as long as its
header is incomplete and on the segment that completes the five header bytes; at that point the buffer
is discarded, so the remaining segments are processed as a stream of their own (`reset` semantics;
the bytes are no longer accumulated). -/
theorem non_handshake_none (parse : Bytes → PR σ) (segs : List Bytes)
    (h : ∀ x ∈ segs.flatten.head?, x ≠ 0x16) :
    Reader.run parse Reader.init segs =
      List.replicate (min (Spec.completionIdx 5 segs + 1) segs.length) Out.none
        ++ Reader.run parse Reader.init (segs.drop (Spec.completionIdx 5 segs + 1)) := by
  cases hw : segs.flatten with
  | nil =>
    -- every segment is empty: nothing ever happens
    have hall := List.flatten_eq_nil_iff.mp hw
    have hrun : ∀ (l : List Bytes), (∀ x ∈ l, x = []) →
        Reader.run parse (Reader.init : Reader σ) l = List.replicate l.length Out.none := by
      intro l
      induction l with
      | nil => intro _; rfl
      | cons a t iht =>
        intro hall
        have ha : a = [] := hall a (by simp)
        subst ha
        have : (Reader.init : Reader σ).addBytes parse [] = (Reader.init, Out.none) := by
          simp [Reader.addBytes, Reader.addBytesT, Reader.init, readerHdrLen]
        simp only [Reader.run, this, List.length_cons, List.replicate_succ]
        exact congrArg _ (iht (fun x hx => hall x (by simp [hx])))
    rw [hrun segs hall, hrun _ (fun x hx => hall x (List.mem_of_mem_drop hx)), List.replicate_append_replicate]
    congr 1
    simp only [List.length_drop]
    omega
  | cons c rest =>
    have hc : c ≠ 0x16 := h c (by simp [hw])
    have := run_not_handshake parse c hc segs [] (by decide) (by simp [hw])
    simp only [List.length_nil, Nat.sub_zero] at this
    exact this

/-- A record the parser rejects (malformed ClientHello, record over tls-parser's limit, …) never
yields a signature: `None` before completion, the parse error from then on. -/
theorem rejected_record_no_result (parse : Bytes → PR σ) {r tail : Bytes} (segs : List Bytes)
    (hr : IsRecord r) (hp : parse r = .err) (hcat : segs.flatten = r ++ tail) :
    Reader.run parse Reader.init segs =
      List.replicate (Spec.completionIdx r.length segs) Out.none
        ++ List.replicate (segs.length - Spec.completionIdx r.length segs) Out.errParse := by
  have h5 := hr.hdr
  have hk := completion_lt segs hr hcat
  have := run_from_prefix parse (tail := tail) hr segs [] (by simpa using hcat) (by simp; omega)
  simp only [List.length_nil, Nat.sub_zero] at this
  unfold Reader.init
  rw [this]
  simp only [outOf, afterOf, hp, List.length_drop]
  rw [← List.replicate_succ]
  congr 2
  omega

/-! ### the model satisfies the executable specification used by the check, for every input -/

theorem run_length (parse : Bytes → PR σ) : ∀ (segs : List Bytes) (r : Reader σ),
    (Reader.run parse r segs).length = segs.length := by
  intro segs
  induction segs with
  | nil => intro _; rfl
  | cons s t ih => intro r; simp only [Reader.run, List.length_cons, ih]

/-- a record that never completes: nothing is ever reported -/
theorem run_incomplete (parse : Bytes → PR σ) {r pad : Bytes} (hr : IsFrame r) :
    ∀ (segs : List Bytes) (b : Bytes), b ++ segs.flatten ++ pad = r → (b ++ segs.flatten).length < r.length →
      Reader.run parse ({ buffer := b, signature := none } : Reader σ) segs =
        List.replicate segs.length Out.none := by
  intro segs
  induction segs with
  | nil => intro _ _ _; rfl
  | cons seg rest ih =>
    intro b h hlt
    have h' : b ++ seg ++ (rest.flatten ++ pad) = r ++ [] := by
      simpa [List.flatten_cons, List.append_assoc] using h
    have hc : (b ++ seg).length < r.length := by
      simp only [List.flatten_cons, List.length_append] at hlt ⊢; omega
    simp only [Reader.run, step_before parse hr h' hc, List.length_cons, List.replicate_succ]
    exact congrArg _ (ih (b ++ seg) (by simpa [List.flatten_cons, List.append_assoc] using h)
      (by simpa [List.flatten_cons, List.append_assoc] using hlt))

private theorem recordLen_append (w t : Bytes) (h : 5 ≤ w.length) : Spec.recordLen (w ++ t) = Spec.recordLen w := by
  unfold Spec.recordLen
  rw [getD_append_left w t 0 3 (by omega), getD_append_left w t 0 4 (by omega)]

private theorem recordLen_take (w : Bytes) (n : Nat) (h : 5 ≤ n) (hn : n ≤ w.length) :
    Spec.recordLen (w.take n) = Spec.recordLen w := by
  have := recordLen_append (w.take n) (w.drop n) (by simp; omega)
  rw [List.take_append_drop] at this
  exact this.symm

/-- **Model ⊨ executable specification.** For every parser, every list of segments: the outputs of the
reader model, together with its single-segment result, are never rejected by `Spec.readerSpec` — the
predicate the check evaluates on the implementation's outputs. -/
theorem reader_meets_spec [DecidableEq σ] (parse : Bytes → PR σ) (segs : List Bytes) :
    Spec.readerSpec segs (Reader.init.addBytes parse segs.flatten).2 (Reader.run parse Reader.init segs)
      ≠ some false := by
  unfold Spec.readerSpec
  cases segs with
  | nil => simp [Reader.run]
  | cons s0 rest =>
    simp only
    by_cases h5 : s0.length < 5
    · simp [h5]
    · simp only [h5, if_false, run_length, ne_eq, not_true_eq_false]
      generalize hw : (s0 :: rest).flatten = whole
      have hwl : 5 ≤ whole.length := by
        rw [← hw]; simp only [List.flatten_cons, List.length_append]; omega
      by_cases hty : whole.getD 0 0 ≠ 0x16
      · -- not a handshake stream: nothing for the first segment
        simp only [hty, if_true]
        have hne : ∀ x ∈ (s0 :: rest).flatten.head?, x ≠ 0x16 := by
          intro x hx
          rw [hw] at hx
          cases whole with
          | nil => simp at hwl
          | cons c t => simp at hx; subst hx; simpa using hty
        have hk : Spec.completionIdx 5 (s0 :: rest) = 0 := by
          simp only [Spec.completionIdx]; rw [if_pos (by omega)]
        rw [non_handshake_none parse (s0 :: rest) hne, hk]
        simp [Spec.allNone]
      · have hty' : whole.getD 0 0 = 0x16 := by simpa using hty
        simp only [hty, if_false]
        by_cases hinc : whole.length < Spec.recordLen whole
        · -- never completes
          simp only [hinc, if_true]
          let pad : Bytes := List.replicate (Spec.recordLen whole - whole.length) 0
          have hfr : IsFrame (whole ++ pad) := by
            refine ⟨by simp; omega, ?_, ?_⟩
            · rw [getD_append_left whole pad 0 0 (by omega)]; exact hty'
            · rw [recordLen_append whole pad hwl]; simp [pad]; omega
          have := run_incomplete parse (pad := pad) hfr (s0 :: rest) [] (by simp [hw])
            (by simp only [List.nil_append, hw, List.length_append, pad, List.length_replicate]; omega)
          unfold Reader.init
          rw [this]
          simp [Spec.allNone]
        · simp only [hinc, if_false]
          by_cases hbig : Spec.recordLen whole > 65536
          · simp [hbig]
          · simp only [hbig, if_false]
            -- a complete record within the bound
            have hn5 : 5 ≤ Spec.recordLen whole := by unfold Spec.recordLen; omega
            have hr : IsRecord (whole.take (Spec.recordLen whole)) := by
              refine ⟨⟨by simp; omega, ?_, ?_⟩, by simp; omega⟩
              · have := getD_append_left (whole.take (Spec.recordLen whole)) (whole.drop (Spec.recordLen whole)) 0 0
                  (by simp; omega)
                rw [List.take_append_drop] at this
                rw [← this]; exact hty'
              · rw [recordLen_take whole _ hn5 (by omega)]; simp; omega
            have hcat : (s0 :: rest).flatten = whole.take (Spec.recordLen whole) ++ whole.drop (Spec.recordLen whole) := by
              rw [List.take_append_drop]; exact hw
            have hrl : (whole.take (Spec.recordLen whole)).length = Spec.recordLen whole := by simp; omega
            have hgen := run_from_prefix parse (tail := whole.drop (Spec.recordLen whole)) hr (s0 :: rest) []
              (by simpa using hcat) (by simp; omega)
            simp only [List.length_nil, Nat.sub_zero, hrl] at hgen
            have hsingle : (Reader.init.addBytes parse whole).2 = outOf (parse (whole.take (Spec.recordLen whole))) := by
              have := step_complete parse (b := []) (seg := whole) (rest := []) (tail := whole.drop (Spec.recordLen whole)) hr
                (by simp) (by simp; omega)
              unfold Reader.init
              simp only [List.nil_append] at this
              rw [this]
              cases parse (whole.take (Spec.recordLen whole)) <;> rfl
            have hklt := completion_lt (tail := whole.drop (Spec.recordLen whole)) (s0 :: rest) hr hcat
            rw [hrl] at hklt
            unfold Reader.init at hsingle ⊢
            rw [hsingle, hgen]
            generalize Spec.completionIdx (Spec.recordLen whole) (s0 :: rest) = k at *
            cases hp : parse (whole.take (Spec.recordLen whole)) with
            | sig s =>
              simp only [outOf, afterOf, hp, List.length_drop, List.append_assoc, List.singleton_append]
              have : (s0 :: rest).length - (k + 1) = (s0 :: rest).length - k - 1 := by omega
              simp [this]
              omega
            | notHello =>
              simp only [outOf, afterOf, hp]
              simp [Spec.allNone, Spec.isSig, List.take_append_of_le_length, List.getD_eq_getElem?_getD]
            | err =>
              simp only [outOf, afterOf, hp]
              simp [Spec.allNone, Spec.isSig, List.take_append_of_le_length, List.getD_eq_getElem?_getD]

/-! ### packet level: one flow through `process_tcp_packet` and the `TtlCache` -/

section packets
variable {κ : Type} [DecidableEq κ]

private theorem flowRun_quiet (parse : Bytes → PR σ) :
    ∀ (later : List Bytes), (∀ x ∈ later, Spec.startsRecord x = false) →
      flowRun parse (none : Option (Reader σ)) later = List.replicate later.length POut.none := by
  intro later
  induction later with
  | nil => intro _; rfl
  | cons p rest ih =>
    intro h
    have hp : isTlsTraffic p = false := by rw [isTlsTraffic_eq_startsRecord]; exact h p (by simp)
    have hstep : flowStep parse (none : Option (Reader σ)) p = (none, POut.none) := by
      unfold flowStep
      by_cases he : p.isEmpty <;> simp [he, hp]
    simp only [flowRun, hstep, List.length_cons, List.replicate_succ]
    exact congrArg _ (ih (fun x hx => h x (by simp [hx])))

private theorem flowRun_active (parse : Bytes → PR σ) {r tail : Bytes} {s : σ} (hr : IsRecord r)
    (hp : parse r = .sig s) :
    ∀ (segs : List Bytes) (b : Bytes), b ++ segs.flatten = r ++ tail → b.length < r.length →
      flowRun parse (some ({ buffer := b, signature := none } : Reader σ)) segs =
        List.replicate (Spec.completionIdx (r.length - b.length) segs) POut.none
          ++ POut.sig s :: flowRun parse none (segs.drop (Spec.completionIdx (r.length - b.length) segs + 1)) := by
  intro segs
  induction segs with
  | nil =>
    intro b h hlt
    have := congrArg List.length h
    simp at this
    omega
  | cons seg rest ih =>
    intro b h hlt
    have h' : b ++ seg ++ rest.flatten = r ++ tail := by simpa [List.flatten_cons, List.append_assoc] using h
    by_cases hc : (b ++ seg).length < r.length
    · have hk : Spec.completionIdx (r.length - b.length) (seg :: rest)
          = Spec.completionIdx (r.length - (b ++ seg).length) rest + 1 := by
        simp only [Spec.completionIdx]
        have : ¬ (r.length - b.length ≤ seg.length) := by simp at hc; omega
        rw [if_neg this]
        congr 2
        simp; omega
      have hstep : flowStep parse (some ({ buffer := b, signature := none } : Reader σ)) seg =
          (some { buffer := b ++ seg, signature := none }, POut.none) := by
        unfold flowStep
        by_cases he : seg.isEmpty
        · have : seg = [] := by simpa using he
          subst this
          simp
        · simp only [he, Bool.false_eq_true, if_false, step_before parse hr.toIsFrame h' hc]
      rw [hk]
      simp only [flowRun, hstep, List.replicate_succ, List.cons_append, List.drop_succ_cons]
      exact congrArg _ (ih (b ++ seg) h' hc)
    · have hge : r.length ≤ (b ++ seg).length := by omega
      have hk : Spec.completionIdx (r.length - b.length) (seg :: rest) = 0 := by
        simp only [Spec.completionIdx]
        have : r.length - b.length ≤ seg.length := by simp at hge; omega
        rw [if_pos this]
      have hne : seg.isEmpty = false := by
        cases seg with
        | nil => simp at hge; omega
        | cons _ _ => rfl
      have hs := step_complete parse hr h' hge
      rw [hp] at hs
      have hstep : flowStep parse (some ({ buffer := b, signature := none } : Reader σ)) seg =
          (none, POut.sig s) := by
        unfold flowStep
        simp only [hne, Bool.false_eq_true, if_false, hs]
      rw [hk]
      simp only [flowRun, hstep, List.replicate_zero, List.nil_append, List.drop_succ_cons, List.drop_zero]

private theorem flowRun_rejected (parse : Bytes → PR σ) {r tail : Bytes} (hr : IsRecord r)
    (hp : ∀ s, parse r ≠ .sig s) :
    ∀ (segs : List Bytes) (b : Bytes), b ++ segs.flatten = r ++ tail → b.length < r.length →
      (flowRun parse (some ({ buffer := b, signature := none } : Reader σ)) segs).take
          (Spec.completionIdx (r.length - b.length) segs + 1) =
        List.replicate (Spec.completionIdx (r.length - b.length) segs + 1) POut.none := by
  intro segs
  induction segs with
  | nil =>
    intro b h hlt
    have := congrArg List.length h
    simp at this
    omega
  | cons seg rest ih =>
    intro b h hlt
    have h' : b ++ seg ++ rest.flatten = r ++ tail := by simpa [List.flatten_cons, List.append_assoc] using h
    by_cases hc : (b ++ seg).length < r.length
    · have hk : Spec.completionIdx (r.length - b.length) (seg :: rest)
          = Spec.completionIdx (r.length - (b ++ seg).length) rest + 1 := by
        simp only [Spec.completionIdx]
        have : ¬ (r.length - b.length ≤ seg.length) := by simp at hc; omega
        rw [if_neg this]
        congr 2
        simp; omega
      have hstep : flowStep parse (some ({ buffer := b, signature := none } : Reader σ)) seg =
          (some { buffer := b ++ seg, signature := none }, POut.none) := by
        unfold flowStep
        by_cases he : seg.isEmpty
        · have : seg = [] := by simpa using he
          subst this
          simp
        · simp only [he, Bool.false_eq_true, if_false, step_before parse hr.toIsFrame h' hc]
      rw [hk]
      simp only [flowRun, hstep, List.take_succ_cons, List.replicate_succ]
      exact congrArg _ (ih (b ++ seg) h' hc)
    · have hge : r.length ≤ (b ++ seg).length := by omega
      have hk : Spec.completionIdx (r.length - b.length) (seg :: rest) = 0 := by
        simp only [Spec.completionIdx]
        have : r.length - b.length ≤ seg.length := by simp at hge; omega
        rw [if_pos this]
      have hne : seg.isEmpty = false := by
        cases seg with
        | nil => simp at hge; omega
        | cons _ _ => rfl
      have hs := step_complete parse hr h' hge
      have hout : (flowStep parse (some ({ buffer := b, signature := none } : Reader σ)) seg).2 = POut.none := by
        unfold flowStep
        simp only [hne, Bool.false_eq_true, if_false]
        cases hpr : parse r with
        | sig s => exact absurd hpr (hp s)
        | notHello => rw [hpr] at hs; simp only [hs]
        | err => rw [hpr] at hs; simp only [hs]
      rw [hk]
      simp only [flowRun, hout, Nat.zero_add, List.take_succ_cons, List.take_zero, List.replicate_succ,
        List.replicate_zero]

/-- **Packet level: records that are not a ClientHello produce no result.** Same setting as
`flow_exactly_once`, but the parser does not accept `r` as a ClientHello (another handshake message, a
malformed hello, a record over the parser's limit): no packet up to and including the completing one
yields a result. -/
theorem flow_rejected_no_result {κ : Type} [DecidableEq κ] (parse : Bytes → PR σ) (f : Flows κ σ) (k : κ)
    {r tail : Bytes} (s0 : Bytes) (rest : List Bytes)
    (hcap : 1 ≤ f.cap) (hfresh : f.get? k = none)
    (hr : IsRecord r) (hp : ∀ s, parse r ≠ .sig s) (hcat : (s0 :: rest).flatten = r ++ tail)
    (hhead : Spec.startsRecord s0 = true) :
    (runPackets parse f ((s0 :: rest).map (fun p => (k, p)))).take (Spec.completionIdx r.length (s0 :: rest) + 1) =
      List.replicate (Spec.completionIdx r.length (s0 :: rest) + 1) POut.none := by
  have h5 := hr.hdr
  rw [runPackets_single parse k _ f hcap, hfresh]
  have htls : isTlsTraffic s0 = true := by rw [isTlsTraffic_eq_startsRecord]; exact hhead
  have hne : s0.isEmpty = false := by
    cases s0 with
    | nil => simp [Spec.startsRecord] at hhead
    | cons _ _ => rfl
  have hstart : flowRun parse (none : Option (Reader σ)) (s0 :: rest) =
      flowRun parse (some ({ buffer := [], signature := none } : Reader σ)) (s0 :: rest) := by
    have : flowStep parse (none : Option (Reader σ)) s0 =
        flowStep parse (some ({ buffer := [], signature := none } : Reader σ)) s0 := by
      unfold flowStep
      simp only [hne, Bool.false_eq_true, if_false, htls, if_true]
    simp only [flowRun, this]
  rw [hstart]
  have := flowRun_rejected parse (tail := tail) hr hp (s0 :: rest) [] (by simpa using hcat) (by simp; omega)
  simpa using this

/-- **Packet level, one flow.** Flow `k` is not tracked yet, the cache has room for at least one entry
(other flows may be in it). The first segment starts a handshake record of SSL3.0..TLS1.3 (this is
where "the first segment holds at least the five-byte record header" is needed: a new flow is only
admitted on such a header); the segments of the flow, in order, concatenate to `r ++ tail` with `r` a
record the parser accepts as a ClientHello. Side condition (DESIGN §7 C08): no segment after the
completing one itself starts a new handshake record. Then the per-packet results are: nothing for
the `k` packets before completion (continuation segments are appended whatever they look like), the
result on the completing packet, nothing afterwards (the flow was dropped). Empty payloads (bare ACKs)
may occur anywhere after the first segment. -/
theorem flow_exactly_once (parse : Bytes → PR σ) (f : Flows κ σ) (k : κ) {r tail : Bytes} {s : σ}
    (s0 : Bytes) (rest : List Bytes)
    (hcap : 1 ≤ f.cap) (hfresh : f.get? k = none)
    (hr : IsRecord r) (hp : parse r = .sig s) (hcat : (s0 :: rest).flatten = r ++ tail)
    (hhead : Spec.startsRecord s0 = true)
    (hlater : ∀ x ∈ (s0 :: rest).drop (Spec.completionIdx r.length (s0 :: rest) + 1), Spec.startsRecord x = false) :
    runPackets parse f ((s0 :: rest).map (fun p => (k, p))) =
      List.replicate (Spec.completionIdx r.length (s0 :: rest)) POut.none ++ [POut.sig s]
        ++ List.replicate ((s0 :: rest).length - Spec.completionIdx r.length (s0 :: rest) - 1) POut.none := by
  have h5 := hr.hdr
  rw [runPackets_single parse k _ f hcap, hfresh]
  have htls : isTlsTraffic s0 = true := by rw [isTlsTraffic_eq_startsRecord]; exact hhead
  have hne : s0.isEmpty = false := by
    cases s0 with
    | nil => simp [Spec.startsRecord] at hhead
    | cons _ _ => rfl
  have hstart : flowRun parse (none : Option (Reader σ)) (s0 :: rest) =
      flowRun parse (some ({ buffer := [], signature := none } : Reader σ)) (s0 :: rest) := by
    have : flowStep parse (none : Option (Reader σ)) s0 =
        flowStep parse (some ({ buffer := [], signature := none } : Reader σ)) s0 := by
      unfold flowStep
      simp only [hne, Bool.false_eq_true, if_false, htls, if_true]
    simp only [flowRun, this]
  rw [hstart]
  have := flowRun_active parse (tail := tail) hr hp (s0 :: rest) [] (by simpa using hcat) (by simp; omega)
  simp only [List.length_nil, Nat.sub_zero] at this
  rw [this, flowRun_quiet parse _ hlater]
  simp only [List.length_drop, List.append_assoc, List.singleton_append]
  congr 3

/-- A flow whose first segment does not start a handshake record is never tracked: as long as no later
segment starts one either, nothing is reported and the cache is not touched by it. -/
theorem flow_not_admitted (parse : Bytes → PR σ) (f : Flows κ σ) (k : κ) (segs : List Bytes)
    (hcap : 1 ≤ f.cap) (hfresh : f.get? k = none) (h : ∀ x ∈ segs, Spec.startsRecord x = false) :
    runPackets parse f (segs.map (fun p => (k, p))) = List.replicate segs.length POut.none := by
  rw [runPackets_single parse k _ f hcap, hfresh]
  exact flowRun_quiet parse segs h

end packets

/-! ### non-vacuity -/

/-- a 6-byte handshake record `16 03 01 00 01 aa`, a parser that accepts exactly it -/
private def r0 : Bytes := [0x16, 3, 1, 0, 1, 0xaa]
private def parse0 (b : Bytes) : PR Nat := if b = r0 then .sig 7 else .err
private theorem r0_record : IsRecord r0 := ⟨⟨by decide, by decide, by decide⟩, by decide⟩

example : Reader.run parse0 Reader.init [[0x16, 3], [1, 0, 1], [0xaa, 9], [9]] =
    [Out.none, Out.none, Out.sig 7, Out.none] := by
  have := reader_exactly_once parse0 (tail := [9, 9]) (s := 7) [[0x16, 3], [1, 0, 1], [0xaa, 9], [9]] r0_record
    (by decide) (by decide)
  simpa [Spec.completionIdx, r0] using this

example : Reader.run (fun _ => (PR.notHello : PR Nat)) Reader.init [[0x16, 3, 1], [0, 1, 0xaa]] =
    [Out.none, Out.none] :=
  non_hello_none _ [[0x16, 3, 1], [0, 1, 0xaa]] r0_record rfl (by decide)

example : Reader.run parse0 Reader.init [[0x17, 3, 3], [0, 1, 0], r0] =
    [Out.none, Out.none] ++ Reader.run parse0 Reader.init [r0] :=
  non_handshake_none parse0 [[0x17, 3, 3], [0, 1, 0], r0] (by decide)

/-- the executable specification is not trivially satisfied: a result reported one segment late is rejected -/
example : Spec.readerSpec [[0x16, 3, 1, 0, 1], [0xaa], [9]] (Out.sig 7) [Out.none, Out.none, Out.sig 7] = some false := by
  decide
example : Spec.readerSpec [[0x16, 3, 1, 0, 1], [0xaa], [9]] (Out.sig 7) [Out.none, Out.sig 7, Out.none] = some true := by
  decide

example : runPackets parse0 ({ cap := 1 } : Flows Nat Nat)
    [(5, [0x16, 3, 1, 0, 1]), (5, []), (5, [0xaa, 9]), (5, [9, 9])] =
    [POut.none, POut.none, POut.sig 7, POut.none] := by
  have := flow_exactly_once parse0 ({ cap := 1 } : Flows Nat Nat) 5 (tail := [9, 9, 9]) (s := 7)
    [0x16, 3, 1, 0, 1] [[], [0xaa, 9], [9, 9]] (by decide) rfl r0_record (by decide) (by decide) (by decide)
    (by decide)
  simpa [Spec.completionIdx, r0] using this

example : (runPackets (fun _ => (PR.notHello : PR Nat)) ({ cap := 2 } : Flows Nat Nat)
    [(5, [0x16, 3, 1, 0, 1]), (5, [0xaa])]).take 2 = [POut.none, POut.none] := by
  have := flow_rejected_no_result (fun _ => (PR.notHello : PR Nat)) ({ cap := 2 } : Flows Nat Nat) 5 (tail := [])
    [0x16, 3, 1, 0, 1] [[0xaa]] (by decide) rfl r0_record (by intro s h; cases h) (by decide) (by decide)
  simpa [Spec.completionIdx, r0] using this

end Huginn.Props.C08
