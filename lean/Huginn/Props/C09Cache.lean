import Huginn.Props.C09
import Huginn.Props.C09Bridge
import Huginn.Props.C07Cap
/-
C09 on the cache-program model: the reassembly theorem, proved for `HttpFlow.run` (finite map, no
expiry, no capacity), holds verbatim for the HTTP analyzer as a cache program over the TtlCache model
(`FlowProgs.httpAnalyzer`: insertion order, capacity, expiry) — the model that C07 (isolation), C10
(pools), C11 (bounds) and C01 (no poisoning) are about — for any arrival instants within one
time-to-live window and any capacity the history fits in.
-/
namespace Huginn.Props.C09
open Huginn.HttpFlow Huginn.HttpFlow.Spec Huginn.Props.C09Bridge

theorem reassembly_partition_cache {ρ σ : Type} (P : Parsers ρ σ) (hm : MinLen P) (c : Conn) (C S : Bytes)
    (ds : List DataPkt) (hne : c.client ≠ c.client.rev) (hpl : PlainData ds)
    (hC : C.length ≤ maxBufferedHeadBytes) (hS : S.length ≤ maxBufferedHeadBytes)
    (pC : PartitionOf c.isnC C (segsOf true ds)) (pS : PartitionOf c.isnS S (segsOf false ds))
    -- the same packets with arrival instants (cache clock, wall clock)
    (ps : List (Pkt × Nat × Nat)) (hps : ps.map (·.1) = c.packets ds)
    (a cap : Nat) (hwin : ∀ x ∈ ps, a ≤ x.2.1 ∧ x.2.1 ≤ a + (params P).ttlMs)
    (hfit : Huginn.Props.C07.NoEvict (Huginn.FlowProgs.httpAnalyzer (params P)) ({ cap := cap }, ())
      (ps.map (fun x => toSeg x.1 x.2.1 x.2.2))) :
    ((Huginn.FlowProgs.httpAnalyzer (params P)).runOuts ({ cap := cap }, ())
        (ps.map (fun x => toSeg x.1 x.2.1 x.2.2))).map (fun po => (po.2.req, po.2.resp)) =
      specConn P c ds := by
  rw [http_trace_bridge_fresh P a cap ps hwin hfit, hps, runS_conn P c ds (fun d hd => (hpl d hd).2.2)]
  exact reassembly_partition P hm c C S ds hne hpl hC hS pC pS

theorem params_resultIndep {ρ σ : Type} (P : Parsers ρ σ) : Huginn.Props.C07.ResultIndep (params P) :=
  ⟨fun _ _ _ => rfl, fun _ _ _ => rfl⟩

/-- **Reassembly inside arbitrary other traffic** (C09 ∘ C07): take ANY interleaved trace `tr` of any
number of connections that opens at most `cap` distinct flows. If the segments of connection `conn`
in it, in their order of arrival, are a division (any sizes, any permutation, any ISNs) of a client
stream `C` and a server stream `S` of at most 64 KiB, arriving within one TTL window, then what the
analyzer reports for `conn` in the interleaved run is exactly what the specification says for that
connection alone. -/
theorem reassembly_interleaved {ρ σ : Type} (P : Parsers ρ σ) (hm : MinLen P) (c : Conn) (C S : Bytes)
    (ds : List DataPkt) (hne : c.client ≠ c.client.rev) (hpl : PlainData ds)
    (hC : C.length ≤ maxBufferedHeadBytes) (hS : S.length ≤ maxBufferedHeadBytes)
    (pC : PartitionOf c.isnC C (segsOf true ds)) (pS : PartitionOf c.isnS S (segsOf false ds))
    (ps : List (Pkt × Nat × Nat)) (hps : ps.map (·.1) = c.packets ds)
    (a : Nat) (hwin : ∀ x ∈ ps, a ≤ x.2.1 ∧ x.2.1 ≤ a + (params P).ttlMs)
    -- the whole capture, and `conn`'s part of it
    (tr : List Huginn.FlowProgs.Seg) (conn : Huginn.FlowProgs.Ep × Huginn.FlowProgs.Ep)
    (hsel : tr.filter (fun s => decide (Huginn.FlowProgs.httpConnOf s = conn)) =
      ps.map (fun x => toSeg x.1 x.2.1 x.2.2))
    (cap : Nat) (K : List Huginn.FlowProgs.FlowKey)
    (hK : ∀ s ∈ tr, s.syn = true → Huginn.FlowProgs.flowKeyOf s ∈ K) (hlen : K.length ≤ cap) :
    (((Huginn.FlowProgs.httpAnalyzer (params P)).runOuts ({ cap := cap }, ()) tr).filter
        (fun po => decide (Huginn.FlowProgs.httpConnOf po.1 = conn))).map (fun po => (po.2.req, po.2.resp)) =
      specConn P c ds := by
  rw [Huginn.Props.C07.http_isolation_cap (params P) (params_resultIndep P) conn tr cap () K hK hlen, hsel]
  refine reassembly_partition_cache P hm c C S ds hne hpl hC hS pC pS ps hps a cap hwin ?_
  apply Huginn.Props.C07.noEvict_of_keysIn _ K _ _ _ _ (Huginn.Props.C07.keysIn_empty K cap) hlen
  intro s hs
  refine Huginn.Props.C07.http_insertsIn _ s K (hK s ?_)
  rw [← hsel] at hs
  exact (List.mem_filter.1 hs).1

end Huginn.Props.C09
