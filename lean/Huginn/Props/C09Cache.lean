import Huginn.Props.C09
import Huginn.Props.C09Bridge
/-
C09 on the cache-program model: the reassembly theorem, proved for `HttpFlow.run` (finite map, no
expiry, no capacity), holds verbatim for the HTTP analyzer as a cache program over the TtlCache model
(`FlowProgs.httpAnalyzer`: insertion order, capacity, expiry) — the model that C07 (isolation), C10
(pools), C11 (bounds) and C01 (no poisoning) are about — for any arrival instants within one
time-to-live window and any capacity the history fits in.
-/
namespace Huginn.Props.C09
open Huginn.HttpFlow Huginn.HttpFlow.Spec Huginn.Props.C09Bridge

theorem reassembly_partition_cache {ρ σ : Type} (P : Parsers ρ σ) (hm : MinLen P) (c : Conn) (C S : Bytes)
    (ds : List DataPkt) (hne : c.client ≠ c.client.rev) (hpl : PlainData ds)
    (hC : C.length ≤ maxBufferedHeadBytes) (hS : S.length ≤ maxBufferedHeadBytes)
    (pC : PartitionOf c.isnC C (segsOf true ds)) (pS : PartitionOf c.isnS S (segsOf false ds))
    -- the same packets with arrival instants (cache clock, wall clock)
    (ps : List (Pkt × Nat × Nat)) (hps : ps.map (·.1) = c.packets ds)
    (a cap : Nat) (hwin : ∀ x ∈ ps, a ≤ x.2.1 ∧ x.2.1 ≤ a + (params P).ttlMs)
    (hfit : Huginn.Props.C07.NoEvict (Huginn.FlowProgs.httpAnalyzer (params P)) ({ cap := cap }, ())
      (ps.map (fun x => toSeg x.1 x.2.1 x.2.2))) :
    ((Huginn.FlowProgs.httpAnalyzer (params P)).runOuts ({ cap := cap }, ())
        (ps.map (fun x => toSeg x.1 x.2.1 x.2.2))).map (fun po => (po.2.req, po.2.resp)) =
      specConn P c ds := by
  rw [http_trace_bridge_fresh P a cap ps hwin hfit, hps]
  exact reassembly_partition P hm c C S ds hne hpl hC hS pC pS

end Huginn.Props.C09
