import Huginn.Lemmas.WireChecked
set_option linter.unusedSimpArgs false
set_option maxRecDepth 100000
/-
C01 (wire level) — the frame decoders never fault.

`Model/WireChecked.lean` mirrors every indexing and slicing expression of packet_parser.rs,
raw_filter.rs and the three packet_hash.rs with checked accessors that fail exactly where Rust
panics, behind the guards as written. The theorems say: for every frame (every length from 0, every
content) — and every worker count, 0 included — the run is `.ok`, and its value is the one the
total model `Model/Wire.lean` computes (the model C15 and C18 reason about).
There are no loops in these functions (termination is structural); arithmetic is saturating /
`checked_rem` only. Third-party: `EthernetPacket::new` / `get_ethertype` are pnet (minimum size 14,
bytes 12–13), modelled as checked reads.
-/
namespace Huginn.Props.C01Wire
open Huginn.Wire Huginn.WireChecked

/-- **parse_packet** (packet_parser.rs ×4; `try_ethernet_format`, `try_raw_ip_format`,
`try_null_datalink_format`): no index or slice is out of range, for any frame. -/
theorem parse_packet_no_fault (p : Bytes) : parsePacketC p = .ok (parsePacket p) := parsePacketC_eq p

/-- **detect_datalink_format** (same file). -/
theorem detect_datalink_no_fault (p : Bytes) : ∃ r, detectDatalinkC p = .ok r := detectDatalinkC_total p

/-- **raw_filter.rs** `extract_quick_info` with `try_ethernet`, `try_raw_ip`, `try_null_datalink`,
`extract_ipv4_info`, `extract_ipv6_info` (×3 crates). -/
theorem raw_filter_extract_no_fault (p : Bytes) : rawFilterExtractC p = .ok (rawFilterExtract p) :=
  rawFilterExtractC_eq p

/-- **raw_filter::apply**, for every filter configuration. -/
theorem raw_filter_apply_no_fault (c : Huginn.Filter.Config) (p : Bytes) :
    rawFilterApplyC c p = .ok (rawFilterApply c p) := by
  unfold rawFilterApplyC rawFilterApply
  rw [rawFilterExtractC_eq]
  simp only [ok_bind]
  cases rawFilterExtract p <;> rfl

/-- **TCP `hash_source_ip`** and the worker index `parallel.rs` derives from it, every `n`. -/
theorem hash_source_ip_no_fault (H : HashIn → Nat) (n : Nat) (p : Bytes) :
    hashInputTcpC p = .ok (hashInputTcp p) ∧ workerTcpC H n p = .ok (workerTcp H n p) := by
  refine ⟨hashInputTcpC_eq p, ?_⟩
  unfold workerTcpC workerTcp; rw [hashInputTcpC_eq]; rfl

/-- **HTTP `hash_flow`** (`hash_ipv4_flow`, `hash_ipv6_flow`), every `n` including 0. -/
theorem hash_flow_http_no_fault (H : HashIn → Nat) (n : Nat) (p : Bytes) :
    workerHttpC H n p = .ok (workerHttp H n p) := by
  unfold workerHttpC workerHttp; rw [hashInputHttpC_eq]; rfl

/-- **TLS `hash_flow`**, every `n` including 0. -/
theorem hash_flow_tls_no_fault (H : HashIn → Nat) (n : Nat) (p : Bytes) :
    workerTlsC H n p = .ok (workerTls H n p) := by
  unfold workerTlsC workerTls; rw [hashInputTlsC_eq]; rfl

/-- In the form "the run is never an error". -/
theorem wire_never_faults (c : Huginn.Filter.Config) (H : HashIn → Nat) (n : Nat) (p : Bytes) (e : Fault) :
    parsePacketC p ≠ .error e ∧ detectDatalinkC p ≠ .error e ∧ rawFilterApplyC c p ≠ .error e ∧
    workerTcpC H n p ≠ .error e ∧ workerHttpC H n p ≠ .error e ∧ workerTlsC H n p ≠ .error e := by
  refine ⟨?_, ?_, ?_, ?_, ?_, ?_⟩
  · rw [parse_packet_no_fault]; exact fun h => nomatch h
  · obtain ⟨r, hr⟩ := detect_datalink_no_fault p; rw [hr]; exact fun h => nomatch h
  · rw [raw_filter_apply_no_fault]; exact fun h => nomatch h
  · rw [(hash_source_ip_no_fault H n p).2]; exact fun h => nomatch h
  · rw [hash_flow_http_no_fault]; exact fun h => nomatch h
  · rw [hash_flow_tls_no_fault]; exact fun h => nomatch h

/-! ### non-vacuity: the checked accessors do fail where a guard is missing, and the functions do
real work on real frames -/

example : idx ([] : Bytes) 0 = .error (.index 0 0) ∧ from_ [1, 2] 3 = .error (.slice 3 2 2) ∧
    range [1, 2, 3] 2 1 = .error (.slice 2 1 3) := by decide
-- an unguarded read of the ethertype faults on a 13-byte frame; `tryEthernetC` guards it
example : be16At (List.replicate 13 0) 12 13 = .error (.index 13 13) ∧
    tryEthernetC (List.replicate 13 0) = .ok none := by decide
example : (parsePacketC Huginn.Props.C15.wEth5).toOption.bind id ≠ none ∧
    (rawFilterExtractC Huginn.Props.C15.wIhl3).toOption.bind id ≠ none ∧
    workerHttpC Huginn.Props.C18.sumH 0 Huginn.Props.C15.wEth5 = .ok 0 ∧
    detectDatalinkC Huginn.Props.C15.wNull4 = .ok (some .null) := by decide

end Huginn.Props.C01Wire
