import Huginn.Spec.Filter
set_option linter.unusedSimpArgs false
/-
C14 — Packet filters decide exactly the documented boolean function.
Property theorems only (helper lemmas are local and marked `private`).
-/
namespace Huginn.Props.C14
open Huginn.Filter Huginn.Filter.Spec

/-! ### builders -/

def storeRanges (rs : List (Nat × Nat)) : List (Nat × Nat) :=
  (rs.filter (fun r => decide (r.1 < r.2))).map (fun r => (r.1, r.2 - 1))

private theorem foldl_src (rs : List (Nat × Nat)) (f : PortFilter) :
    rs.foldl (fun f r => f.sourceRange r.1 r.2) f =
      { f with srcRanges := f.srcRanges ++ storeRanges rs } := by
  induction rs generalizing f with
  | nil => simp [storeRanges]
  | cons r rs ih =>
    rw [List.foldl_cons, ih]
    unfold PortFilter.sourceRange storeRanges
    by_cases h : r.1 < r.2 <;> simp [h]

private theorem foldl_dst (rs : List (Nat × Nat)) (f : PortFilter) :
    rs.foldl (fun f r => f.destinationRange r.1 r.2) f =
      { f with dstRanges := f.dstRanges ++ storeRanges rs } := by
  induction rs generalizing f with
  | nil => simp [storeRanges]
  | cons r rs ih =>
    rw [List.foldl_cons, ih]
    unfold PortFilter.destinationRange storeRanges
    by_cases h : r.1 < r.2 <;> simp [h]

/-- What the builder calls store, in closed form. -/
theorem build_eq (u : UserPort) :
    u.build = { srcPorts := u.srcPorts, dstPorts := u.dstPorts,
                srcRanges := storeRanges u.srcRanges, dstRanges := storeRanges u.dstRanges,
                matchAny := u.anyPort } := by
  unfold UserPort.build
  simp only [foldl_src, foldl_dst, PortFilter.sourceList, PortFilter.destinationList,
    PortFilter.anyPort]
  cases u.anyPort <;> simp

/-- The range builder stores a pair that matches exactly the half-open range `lo..hi`
(every `lo`, `hi`, `p`; in particular `hi = 0` and `hi = 65535`). -/
theorem range_matches (lo hi p : Nat) :
    (storeRanges [(lo, hi)]).any (inRange p) = true ↔ lo ≤ p ∧ p < hi := by
  unfold storeRanges inRange
  by_cases h : lo < hi <;> simp [h] <;> omega

private theorem any_store (rs : List (Nat × Nat)) (p : Nat) :
    (storeRanges rs).any (inRange p) = true ↔ ∃ r ∈ rs, InHalfOpen p r := by
  unfold storeRanges inRange InHalfOpen
  simp only [List.any_map, List.any_filter, List.any_eq_true, Function.comp]
  constructor
  · rintro ⟨r, hr, h⟩
    refine ⟨r, hr, ?_⟩
    simp at h; omega
  · rintro ⟨r, hr, h⟩
    refine ⟨r, hr, ?_⟩
    simp; omega

private theorem store_isEmpty (rs : List (Nat × Nat)) :
    (storeRanges rs).isEmpty = true ↔ ¬ ∃ r ∈ rs, r.1 < r.2 := by
  unfold storeRanges
  simp [List.isEmpty_iff, List.filter_eq_nil_iff]

private theorem store_append (a b : List (Nat × Nat)) :
    storeRanges a ++ storeRanges b = storeRanges (a ++ b) := by
  simp [storeRanges]

private theorem listed_iff (ports : List Nat) (rs : List (Nat × Nat)) (p : Nat) :
    (ports.contains p || (storeRanges rs).any (inRange p)) = true ↔ Listed ports rs p := by
  unfold Listed
  rw [Bool.or_eq_true, any_store]
  simp

private theorem sideOk_iff (ports : List Nat) (rs : List (Nat × Nat)) (p : Nat) :
    ((ports.isEmpty && (storeRanges rs).isEmpty) ||
      (ports.contains p || (storeRanges rs).any (inRange p))) = true ↔
    (Constrained ports rs → Listed ports rs p) := by
  rw [Bool.or_eq_true, listed_iff, Bool.and_eq_true, store_isEmpty, List.isEmpty_iff]
  unfold Constrained
  constructor
  · rintro (⟨a, b⟩ | h) hc
    · rcases hc with hc | hc
      · exact absurd a hc
      · exact absurd hc b
    · exact h
  · intro h1
    by_cases hc : ports ≠ [] ∨ ∃ r ∈ rs, r.1 < r.2
    · exact Or.inr (h1 hc)
    · refine Or.inl ⟨?_, fun h => hc (Or.inr h)⟩
      exact Classical.byContradiction fun h => hc (Or.inl h)

/-- Port filter: stored configuration decides the documented rule. -/
theorem port_matches_iff (u : UserPort) (sp dp : Nat) :
    u.build.matches sp dp = true ↔ u.Matches sp dp := by
  rw [build_eq]
  unfold PortFilter.matches UserPort.Matches
  cases hany : u.anyPort
  · simp only [Bool.false_eq_true, if_false]
    rw [Bool.and_eq_true, sideOk_iff, sideOk_iff]
  · simp only [if_true]
    rw [store_append]
    have e : ∀ p, ((u.srcPorts ++ u.dstPorts).contains p
        || (storeRanges (u.srcRanges ++ u.dstRanges)).any (inRange p)) = true ↔
        Listed (u.srcPorts ++ u.dstPorts) (u.srcRanges ++ u.dstRanges) p := fun p => listed_iff _ _ p
    rw [← e sp, ← e dp]
    simp only [Bool.or_eq_true]
    constructor
    · rintro (((h | h) | h) | h)
      · exact Or.inl (Or.inl h)
      · exact Or.inr (Or.inl h)
      · exact Or.inl (Or.inr h)
      · exact Or.inr (Or.inr h)
    · rintro ((h | h) | (h | h))
      · exact Or.inl (Or.inl (Or.inl h))
      · exact Or.inl (Or.inr h)
      · exact Or.inl (Or.inl (Or.inr h))
      · exact Or.inr h

/-! ### addresses -/

theorem ip_matches_iff (f : IpFilter) (s d : Addr) :
    f.matches s d = true ↔ IpMatches f s d := by
  unfold IpFilter.matches IpMatches
  cases s <;> cases d <;> cases f.checkSrc <;> cases f.checkDst <;>
    simp [IpFilter.side, AddrListed]

/-- CIDR membership: the mask comparison is equality of the `pfx` leading bits,
for every width, prefix length `0..w` and pair of `w`-bit addresses. -/
theorem cidr_contains_iff (w : Nat) (n : Net) (ip : Nat)
    (hp : n.pfx ≤ w) (hip : ip < 2 ^ w) (ha : n.addr < 2 ^ w) :
    n.contains w ip = true ↔ InBlock w n ip := by
  unfold Net.contains InBlock
  rw [beq_iff_eq]
  constructor
  · intro h i hi
    have := congrArg (fun x => x.testBit (n.pfx - 1 - i)) h
    simp only [Nat.testBit_shiftRight] at this
    have e : w - n.pfx + (n.pfx - 1 - i) = w - 1 - i := by omega
    rwa [e] at this
  · intro h
    apply Nat.eq_of_testBit_eq
    intro j
    simp only [Nat.testBit_shiftRight]
    by_cases hj : w - n.pfx + j < w
    · have := h (n.pfx - 1 - j) (by omega)
      have e : w - 1 - (n.pfx - 1 - j) = w - n.pfx + j := by omega
      rwa [e] at this
    · have hw : 2 ^ w ≤ 2 ^ (w - n.pfx + j) := Nat.pow_le_pow_right (by decide) (by omega)
      rw [Nat.testBit_lt_two_pow (Nat.lt_of_lt_of_le hip hw),
          Nat.testBit_lt_two_pow (Nat.lt_of_lt_of_le ha hw)]

/-- Well-formed subnet filter: what `ipnetwork`'s parser can produce. -/
def SubnetWF (f : SubnetFilter) : Prop :=
  (∀ n ∈ f.v4, n.pfx ≤ 32 ∧ n.addr < 2 ^ 32) ∧ (∀ n ∈ f.v6, n.pfx ≤ 128 ∧ n.addr < 2 ^ 128)

def AddrWF : Addr → Prop
  | .v4 a => a < 2 ^ 32
  | .v6 a => a < 2 ^ 128

private theorem subnet_side_iff (f : SubnetFilter) (a : Addr) (hf : SubnetWF f) (ha : AddrWF a) :
    f.side a = true ↔ InSomeBlock f a := by
  cases a with
  | v4 a =>
    simp only [SubnetFilter.side, InSomeBlock, List.any_eq_true]
    constructor
    · rintro ⟨n, hn, h⟩
      exact ⟨n, hn, (cidr_contains_iff 32 n a (hf.1 n hn).1 ha (hf.1 n hn).2).1 h⟩
    · rintro ⟨n, hn, h⟩
      exact ⟨n, hn, (cidr_contains_iff 32 n a (hf.1 n hn).1 ha (hf.1 n hn).2).2 h⟩
  | v6 a =>
    simp only [SubnetFilter.side, InSomeBlock, List.any_eq_true]
    constructor
    · rintro ⟨n, hn, h⟩
      exact ⟨n, hn, (cidr_contains_iff 128 n a (hf.2 n hn).1 ha (hf.2 n hn).2).1 h⟩
    · rintro ⟨n, hn, h⟩
      exact ⟨n, hn, (cidr_contains_iff 128 n a (hf.2 n hn).1 ha (hf.2 n hn).2).2 h⟩

theorem subnet_matches_iff (f : SubnetFilter) (s d : Addr)
    (hf : SubnetWF f) (hs : AddrWF s) (hd : AddrWF d) :
    f.matches s d = true ↔ SubnetMatches f s d := by
  unfold SubnetFilter.matches SubnetMatches
  rw [Bool.or_eq_true]
  cases f.checkSrc <;> cases f.checkDst <;>
    simp [subnet_side_iff f s hf hs, subnet_side_iff f d hf hd]

/-! ### the configuration -/

def ConfigWF (c : UserConfig) : Prop := IfConfigured c.subnet SubnetWF

/-- **C14.** For every configuration the builders can produce and every endpoint pair,
`should_process` decides the documented rule. -/
theorem should_process_eq_spec (c : UserConfig) (s d : Addr) (sp dp : Nat)
    (hc : ConfigWF c) (hs : AddrWF s) (hd : AddrWF d) :
    c.build.shouldProcess s d sp dp = true ↔ Admits c s d sp dp := by
  obtain ⟨port, ip, subnet, mode⟩ := c
  have P : ∀ u : UserPort, u.build.matches sp dp = true ↔ u.Matches sp dp :=
    fun u => port_matches_iff u sp dp
  have I : ∀ f : IpFilter, f.matches s d = true ↔ IpMatches f s d :=
    fun f => ip_matches_iff f s d
  have P' : ∀ u : UserPort, u.build.matches sp dp = false ↔ ¬ u.Matches sp dp :=
    fun u => by rw [← Bool.not_eq_true, P u]
  have I' : ∀ f : IpFilter, f.matches s d = false ↔ ¬ IpMatches f s d :=
    fun f => by rw [← Bool.not_eq_true, I f]
  unfold Config.shouldProcess Admits AllMatch UserConfig.build
  cases subnet with
  | none =>
    cases port <;> cases ip <;> cases mode <;> simp [IfConfigured, P, I, P', I'] <;> grind
  | some f =>
    have S : f.matches s d = true ↔ SubnetMatches f s d :=
      subnet_matches_iff f s d (by simpa [ConfigWF, IfConfigured] using hc) hs hd
    have S' : f.matches s d = false ↔ ¬ SubnetMatches f s d := by rw [← Bool.not_eq_true, S]
    cases port <;> cases ip <;> cases mode <;> simp [IfConfigured, P, I, S, P', I', S'] <;> grind

/-- No sub-filter: everything passes. -/
theorem no_filter_passes (m : Mode) (s d : Addr) (sp dp : Nat) :
    ({ mode := m } : UserConfig).build.shouldProcess s d sp dp = true := by
  simp [UserConfig.build, Config.shouldProcess]

/-- Deny mode is the negation of allow mode whenever something is configured. -/
theorem deny_is_not_allow (c : UserConfig) (s d : Addr) (sp dp : Nat)
    (h : ¬ (c.port = none ∧ c.ip = none ∧ c.subnet = none)) :
    Admits { c with mode := .deny } s d sp dp ↔ ¬ Admits { c with mode := .allow } s d sp dp := by
  unfold Admits AllMatch
  simp [h]

/-! ### non-vacuity -/

example : ConfigWF { subnet := some { v4 := [⟨0x0a000032, 24⟩] }, port := some { dstRanges := [(0, 0), (80, 81)] } }
    ∧ AddrWF (.v4 0x0a000001) := by
  simp [ConfigWF, IfConfigured, SubnetWF, AddrWF]

example : (({ port := some { dstPorts := [80], dstRanges := [(0, 0)] } } : UserConfig).build.shouldProcess
    (.v4 1) (.v4 2) 5 0) = false := by decide

end Huginn.Props.C14
