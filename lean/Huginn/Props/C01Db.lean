import Huginn.Lemmas.SigTextTotal
set_option linter.unusedSimpArgs false
/-
C01 (signature-database text) — every parser of db_parse.rs and `Database::from_str` terminate and
return a value or an error for every input text.

Where could Rust panic, overflow or not return in huginn-net-db/src/db_parse.rs?
* index / slice / `unwrap` / `expect` / arithmetic of its own: **none** — the site inventory
  (extract/ex_sites.py, re-run on every check) lists no site in this file, so there is nothing to write
  with checked accessors.  Slicing happens inside nom (`&input[n..]`); what the model can say is that
  every parser hands on a *suffix* of what it was given (`*_only_consumes`), i.e. the offsets nom slices
  at lie within the input.
* loops: the five `separated_list0` loops and `for line in s.lines()`.  `Model/SigText.lean` makes the
  former structurally recursive with a fuel; `Model/SigTextChecked.lean` turns "out of fuel" into a
  fault and `separated_list_terminates` proves it is never raised — each round shortens the input — so
  termination does not rest on the fuel; `separated_list_never_errs` adds that nom's own infinite-loop
  check (an `Err`, not a hang) is dead code for these separators; `loader_loop_bounded` bounds the line loop.
* `str::parse::<u8/u16>()`: returns `Err` on overflow (std, assumed), and every use sits under `map_res`
  (since fix C06-1 also the `?n` option kind), so an out-of-range numeral is a parse error
  (`numbers_never_wrap`), never a wrapped value and never a panic.
* `impl_from_str!`: tests `remaining.is_empty()`, no slicing.
Third-party (nom, std `lines`/`trim`/`parse`): modelled at the interface, exercised by the C01 `db`
stream and by all C06 ops under `catch_unwind`; not proved.
-/
namespace Huginn.Props.C01Db
open Huginn.Sig Huginn.SigText

/-- **Every parser of db_parse.rs only consumes**: on success the remaining input is a suffix of the
input it was given — for every text.  (parse_tcp_signature, parse_http_signature, parse_label and the
loader's line parsers; their components `parse_ttl`, `parse_window_size`, `parse_tcp_option`,
`parse_quirk`, `parse_http_header`, `parse_key_value` are the lemmas `suffix_*`.) -/
theorem parsers_only_consume :
    Suffix parseTcpSig ∧ Suffix parseHttpSigL ∧ Suffix parseLabelL ∧ Suffix parseNamedValue ∧
    Suffix parseClasses ∧ Suffix parseUaOs ∧ Suffix parseModule ∧
    Suffix parseTtl ∧ Suffix parseWSize ∧ Suffix parseOpt ∧ Suffix parseQuirk ∧ Suffix parseHeaderL ∧
    Suffix parseKeyValue :=
  ⟨suffix_parseTcpSig, suffix_parseHttpSigL, suffix_parseLabelL, suffix_parseNamedValue, suffix_parseClasses,
   suffix_parseUaOs, suffix_parseModule, suffix_parseTtl, suffix_parseWSize, suffix_parseOpt, suffix_parseQuirk,
   suffix_parseHeaderL, suffix_parseKeyValue⟩

/-- **The `separated_list` loop terminates**, for any separator that consumes at least one character and
any element parser that only consumes: run with more fuel than the input is long, the checked loop
never reports `outOfFuel`, and returns what the model's loop returns.  Every input, every length. -/
theorem separated_list_terminates {α} {sep : Parser Unit} {p : Parser α} (hs : Strict sep) (hp : Suffix p)
    (fuel : Nat) (i : Str) (hf : i.length < fuel) :
    sepLoopC sep p fuel i = .ok (sepLoop sep p fuel i) :=
  sepLoopC_eq hs hp fuel i hf

/-- … instantiated for the five uses in db_parse.rs (`tag(",")` with `parse_tcp_option`, `parse_quirk`,
`parse_http_header` (×2), `alphanumeric1`, `parse_key_value`), at the fuel the model passes. -/
theorem db_parse_lists_terminate (i : Str) :
    sepLoopC comma parseOpt (i.length + 1) i = .ok (sepLoop comma parseOpt (i.length + 1) i) ∧
    sepLoopC comma parseQuirk (i.length + 1) i = .ok (sepLoop comma parseQuirk (i.length + 1) i) ∧
    sepLoopC comma parseHeaderL (i.length + 1) i = .ok (sepLoop comma parseHeaderL (i.length + 1) i) ∧
    sepLoopC comma alphanumeric1 (i.length + 1) i = .ok (sepLoop comma alphanumeric1 (i.length + 1) i) ∧
    sepLoopC comma parseKeyValue (i.length + 1) i = .ok (sepLoop comma parseKeyValue (i.length + 1) i) :=
  ⟨sepLoopC_eq strict_comma suffix_parseOpt _ i (by omega),
   sepLoopC_eq strict_comma suffix_parseQuirk _ i (by omega),
   sepLoopC_eq strict_comma suffix_parseHeaderL _ i (by omega),
   sepLoopC_eq strict_comma suffix_alphanumeric1 _ i (by omega),
   sepLoopC_eq strict_comma suffix_parseKeyValue _ i (by omega)⟩

/-- the fuel is only a termination argument: any two fuels above the input length give the same list -/
theorem separated_list_fuel_irrelevant {α} {sep : Parser Unit} {p : Parser α} (hs : Strict sep)
    (hp : Suffix p) (f1 f2 : Nat) (i : Str) (h1 : i.length < f1) (h2 : i.length < f2) :
    sepLoop sep p f1 i = sepLoop sep p f2 i :=
  sepLoop_fuel_irrelevant hs hp f1 f2 i h1 h2

/-- nom's infinite-loop check of `separated_list` (`Err(ErrorKind::SeparatedList)` when a round did not
consume) can never fire with a consuming separator: the loop always returns a list -/
theorem separated_list_never_errs {α} {sep : Parser Unit} {p : Parser α} (hs : Strict sep) (hp : Suffix p)
    (fuel : Nat) (i : Str) : ∃ xs r, sepLoop sep p fuel i = some (xs, r) :=
  sepLoop_isSome hs hp fuel i

/-- **Numbers never wrap**: `map_res(digit1, |s| s.parse::<uN>())` yields exactly the decimal value of the
digit string when it fits, and fails when it does not — however long the digit string. -/
theorem numbers_never_wrap (max : Nat) (d : Str) :
    (∀ v, parseMax max d = some v ↔ decVal d = v ∧ v ≤ max) ∧ (max < decVal d → parseMax max d = none) :=
  ⟨parseMax_exact max d, parseMax_overflow max d⟩

/-- **The loader's loop is bounded**: `for line in s.lines()` runs at most once per character of the text,
each iteration on a trimmed line no longer than the line, and stops at the first error. -/
theorem loader_loop_bounded (text : Str) (st : LoadState) :
    (lines text).length ≤ text.length ∧ loadSteps st (lines text) ≤ (lines text).length ∧
    ∀ l, (trim l).length ≤ l.length :=
  ⟨lines_length_le text, loadSteps_le st _, trim_length_le⟩

/-- **`Database::from_str` returns a database or one of the twelve error kinds, for every text** — and the
result is determined by the lines alone (no hidden state).  (A total Lean function trivially returns;
the content is that `loadDb` is built only from the pieces above: consuming parsers, terminating loops,
checked numbers, a bounded line loop — there is no other loop, index or arithmetic in db_parse.rs.) -/
theorem from_str_total (text : Str) :
    (∃ db, loadDb text = .ok db) ∨ (∃ e : LoadErr, loadDb text = .error e) := by
  cases h : loadDb text with
  | ok db => exact Or.inl ⟨db, rfl⟩
  | error e => exact Or.inr ⟨e, rfl⟩

/-- non-vacuity: a list loop that really iterates, and a numeral far beyond `u64` that is an error -/
example : (match sepLoopC comma parseQuirk 9 ",df,id+:0".toList with
      | .ok (some (qs, r)) => qs == [.df, .nonZeroID] && r == ":0".toList
      | _ => false) = true ∧
    parseMax 255 "99999999999999999999999999999999".toList = none := by decide +kernel

end Huginn.Props.C01Db
