import Huginn.Spec.HttpFlow
import Huginn.Lemmas.HttpFlowKey
import Huginn.Lemmas.HttpFlowRun
/-
C09 — HTTP stream reassembly is invariant to segmentation, sequence origin and order.
Property theorems only; helper lemmas live in Huginn/Lemmas/HttpFlow*.lean.
-/
namespace Huginn.Props.C09
open Huginn.HttpFlow Huginn.HttpFlow.Spec
set_option linter.unusedSimpArgs false
variable {ρ σ : Type}

/-! ### each head is reported at most once (unconditional) -/

/-- For the flow stored under `k`: after it is opened, at most one request and at most one response
report occur before it is opened again. `q`/`s`: a request / response was already seen. -/
def AtMostOnce (k : FlowKey) : Bool → Bool → List (Pkt × Event ρ σ) → Prop
  | _, _, [] => True
  | q, s, (_, .opened k') :: es => if k' = k then AtMostOnce k false false es else AtMostOnce k q s es
  | q, s, (_, .request k' _) :: es =>
    if k' = k then q = false ∧ AtMostOnce k true s es else AtMostOnce k q s es
  | q, s, (_, .response k' _) :: es =>
    if k' = k then s = false ∧ AtMostOnce k q true es else AtMostOnce k q s es

private theorem events_cases (o : StepOut ρ σ) :
    o.events = (match o.stored with
      | none => []
      | some k => (if o.opened then [Event.opened k] else []) ++
          (match o.request with | some r => [Event.request k r] | none => []) ++
          (match o.response with | some s => [Event.response k s] | none => [])) := by
  unfold StepOut.events; rfl

private theorem at_most_once_gen (P : Parsers ρ σ) (k : FlowKey) :
    ∀ (pkts : List Pkt) (m : FlowMap) (q s : Bool),
      (q = true → ClientDone m k) → (s = true → ServerDone m k) → AtMostOnce k q s (trace P m pkts)
  | [], _, _, _, _, _ => by simp [trace, AtMostOnce]
  | p :: ps, m, q, s, hq, hs => by
    have ih := at_most_once_gen P k ps (step P m p).map
    unfold trace
    simp only []
    rw [events_cases]
    cases hst : (step P m p).stored with
    | none =>
      simp only [List.map_nil, List.nil_append]
      have hfr := step_frame P m p k (by rw [hst]; simp)
      exact ih q s (fun h f hf => hq h f (by rw [← hfr]; exact hf)) (fun h f hf => hs h f (by rw [← hfr]; exact hf))
    | some k0 =>
      simp only []
      by_cases hk : k0 = k
      · subst hk
        cases hop : (step P m p).opened with
        | true =>
          obtain ⟨_, hr, hs', _⟩ := step_opened P m p hop
          simp only [hr, hs', if_true, List.append_nil, List.map_cons, List.map_nil, List.cons_append,
            List.nil_append, AtMostOnce]
          exact ih false false (by simp) (by simp)
        | false =>
          cases hreq : (step P m p).request with
          | some r =>
            obtain ⟨hst', _, hres, hdone, f, hf, hcp, _⟩ := step_request P m p r hreq
            rw [hst] at hst'; simp at hst'; subst hst'
            simp only [hres, Bool.false_eq_true, if_false, List.nil_append, List.append_nil, List.map_cons,
              List.map_nil, List.cons_append, AtMostOnce, if_true]
            refine ⟨?_, ih true s (fun _ => hdone) (fun h => ?_)⟩
            · cases q with
              | false => rfl
              | true => have := hq rfl f hf; rw [hcp] at this; simp at this
            · exact (step_server_mono P m p _ hst hop (hs h)).1
          | none =>
            cases hres : (step P m p).response with
            | some s' =>
              obtain ⟨k1, f, _, hst', _, _, hdone, hf, hsp, _, _⟩ := step_response P m p s' hres
              rw [hst] at hst'; simp at hst'; subst hst'
              simp only [Bool.false_eq_true, if_false, List.nil_append, List.append_nil, List.map_cons,
                List.map_nil, List.cons_append, AtMostOnce, if_true]
              refine ⟨?_, ih q true (fun h => ?_) (fun _ => hdone)⟩
              · cases s with
                | false => rfl
                | true => have := hs rfl f hf; rw [hsp] at this; simp at this
              · exact (step_client_mono P m p k0 hst hop (hq h)).1
            | none =>
              simp only [Bool.false_eq_true, if_false, List.nil_append, List.append_nil, List.map_nil]
              exact ih q s (fun h => (step_client_mono P m p k0 hst hop (hq h)).1)
                (fun h => (step_server_mono P m p k0 hst hop (hs h)).1)
      · -- the step worked on another key
        have hfr := step_frame P m p k (by rw [hst]; simp; exact hk)
        have ih' := ih q s (fun h f hf => hq h f (by rw [← hfr]; exact hf))
          (fun h f hf => hs h f (by rw [← hfr]; exact hf))
        cases (step P m p).opened <;> cases (step P m p).request <;> cases (step P m p).response <;>
          simp [AtMostOnce, hk, ih']

/-- **at_most_once.** For every packet sequence whatsoever (any flows, flags, payloads, orders),
every parser pair and every flow key: between two openings of the flow stored under that key the
analyzer reports at most one request and at most one response. -/
theorem at_most_once (P : Parsers ρ σ) (pkts : List Pkt) (k : FlowKey) :
    AtMostOnce k false false (trace P [] pkts) :=
  at_most_once_gen P k pkts [] false false (by simp) (by simp)

/-! ### reports are attributed to the direction that sent them (unconditional) -/

def DirectionOk (pe : Pkt × Event ρ σ) : Prop :=
  match pe.2 with
  | .opened k => k = pe.1.key ∧ hasFlag pe.1.flags SYN = true
  | .request k _ => pe.1.key = k
  | .response k _ => pe.1.key = k.rev

private theorem direction_gen (P : Parsers ρ σ) :
    ∀ (pkts : List Pkt) (m : FlowMap), KeyInv m → ∀ pe ∈ trace P m pkts, DirectionOk pe
  | [], _, _, pe, h => by simp [trace] at h
  | p :: ps, m, hi, pe, h => by
    unfold trace at h
    simp only [List.mem_append, List.mem_map] at h
    rcases h with ⟨e, he, rfl⟩ | h
    · rw [events_cases] at he
      cases hst : (step P m p).stored with
      | none => simp [hst] at he
      | some k0 =>
        simp only [hst, List.mem_append] at he
        rcases he with (he | he) | he
        · split at he
          · rename_i hop
            simp at he; subst he
            obtain ⟨h1, _, _, _, _, hsyn, _⟩ := step_opened P m p hop
            rw [hst] at h1; simp at h1
            exact ⟨h1, hsyn⟩
          · simp at he
        · cases hreq : (step P m p).request with
          | none => simp [hreq] at he
          | some r =>
            simp [hreq] at he; subst he
            obtain ⟨h1, _⟩ := step_request P m p r hreq
            rw [hst] at h1; simp at h1
            exact h1.symm
        · cases hres : (step P m p).response with
          | none => simp [hres] at he
          | some s =>
            simp [hres] at he; subst he
            obtain ⟨k1, f, _, h1, _, _, _, hf, _, hdir, _⟩ := step_response P m p s hres
            rw [hst] at h1; simp at h1; subst h1
            show p.key = k0.rev
            rcases hdir with rfl | ⟨rfl, hne⟩
            · exact (FlowKey.rev_rev _).symm
            · exfalso; apply hne
              obtain ⟨a, _, c, _⟩ := hi _ f hf
              exact ⟨a.symm, c.symm⟩
    · exact direction_gen P ps _ (step_keyInv P m p hi) pe h

/-- **direction_correct.** In every run from an empty flow table: a flow is opened under the 4-tuple
of a SYN packet; a request is reported only on a packet travelling in that same direction (from the
endpoint that sent the SYN), a response only on a packet of the reverse direction. -/
theorem direction_correct (P : Parsers ρ σ) (pkts : List Pkt) :
    ∀ pe ∈ trace P [] pkts, DirectionOk pe :=
  direction_gen P pkts [] keyInv_nil

/-- **report_from_own_direction** (unconditional). Whatever is reported is the parser's verdict on
the bytes assembled from the segments stored for *that direction of that flow* plus the packet at
hand — data of the other direction or of another flow never enters it — and it is produced only
while that direction's done-flag is still clear. -/
theorem report_from_own_direction (P : Parsers ρ σ) (m : FlowMap) (p : Pkt) :
    (∀ r, (step P m p).request = some r → ∃ f, m.get p.key = some f ∧ f.clientParsed = false ∧
        P.request (fullData (some f.clientIsn) (f.clientData ++ [⟨p.seq, p.payload⟩])) = some r) ∧
    (∀ s, (step P m p).response = some s → ∃ k f ic, m.get k = some f ∧ f.serverParsed = false ∧
        (k = p.key.rev ∨ k = p.key) ∧
        P.response (fullData (noteSynAck f ic p).serverIsn (f.serverData ++ [⟨p.seq, p.payload⟩])) = some s) := by
  constructor
  · intro r h
    obtain ⟨_, _, _, _, f, hf, hcp, hparse⟩ := step_request P m p r h
    exact ⟨f, hf, hcp, hparse⟩
  · intro s h
    obtain ⟨k, f, ic, _, _, _, _, hf, hsp, hdir, hparse⟩ := step_response P m p s h
    refine ⟨k, f, ic, hf, hsp, ?_, hparse⟩
    rcases hdir with h | ⟨h, _⟩
    · exact Or.inl h
    · exact Or.inr h

/-! ### reassembly -/

def PlainData (ds : List DataPkt) : Prop :=
  ∀ d ∈ ds, hasFlag d.flags FIN = false ∧ hasFlag d.flags RST = false ∧ hasFlag d.flags SYN = false
instance (ds) : Decidable (PlainData ds) := by unfold PlainData; exact inferInstance

/-- **reassembly_of_agreement.** Control flow is right unconditionally: for every connection, every
segmentation, every initial sequence numbers and every arrival order, *if* at each arrival the parsers
judge the bytes the analyzer assembled like the true stream (`Agrees`), the reports — which packet,
which direction, at most once, never before the head is complete — are exactly the specified ones. -/
theorem reassembly_of_agreement (P : Parsers ρ σ) (hm : MinLen P) (c : Conn) (ds : List DataPkt)
    (hne : c.client ≠ c.client.rev) (hpl : PlainData ds)
    (hcC : totalLen (segsOf true ds) ≤ maxBufferedHeadBytes)
    (hcS : totalLen (segsOf false ds) ≤ maxBufferedHeadBytes)
    (hag : Agrees P c [] [] ds) :
    run P [] (c.packets ds) = specConn P c ds := by
  obtain ⟨m, hrel, hrun⟩ := handshake P c hne
  rw [packets_eq, hrun]
  unfold specConn
  congr 2
  exact run_sim P hm c hne ds m {} hrel hpl hag (by simpa [totalLen] using hcC) (by simpa [totalLen] using hcS)

private theorem consistent_sub {isn : Nat} {S : Bytes} {a b : List Seg} (h : Consistent isn S b)
    (hs : ∀ s ∈ a, s ∈ b) : Consistent isn S a :=
  ⟨h.1, fun s hsa => h.2 s (hs s hsa)⟩

private theorem agrees_of_consistent (P : Parsers ρ σ) (c : Conn) (C S : Bytes) :
    ∀ (ds : List DataPkt) (accC accS : List Seg),
      Consistent c.isnC C (accC ++ segsOf true ds) → (∀ s ∈ accC, s.data ≠ []) →
      Consistent c.isnS S (accS ++ segsOf false ds) → (∀ s ∈ accS, s.data ≠ []) →
      Agrees P c accC accS ds
  | [], _, _, _, _, _, _ => trivial
  | d :: ds, accC, accS, kC, nC, kS, nS => by
    unfold Agrees
    rw [segsOf_cons] at kC kS
    cases he : d.payload.isEmpty with
    | true =>
      simp only [if_true]
      simp only [he, Bool.not_true, Bool.and_false, Bool.false_eq_true, if_false] at kC kS
      exact agrees_of_consistent P c C S ds accC accS kC nC kS nS
    | false =>
      have hdne : d.payload ≠ [] := by intro e; rw [e] at he; simp at he
      simp only [Bool.false_eq_true, if_false]
      cases hd : d.fromClient with
      | true =>
        simp only [if_true]
        simp only [hd, he, beq_self_eq_true, Bool.not_false, Bool.and_self, if_true] at kC
        have hS : (true == false && true) = false := rfl
        simp only [hd, he, Bool.not_false, hS, Bool.false_eq_true, if_false] at kS
        have e : accC ++ segOf d :: segsOf true ds = (accC ++ [segOf d]) ++ segsOf true ds := by simp
        rw [e] at kC
        have nC' : ∀ s ∈ accC ++ [segOf d], s.data ≠ [] := by
          intro s hs; simp only [List.mem_append, List.mem_singleton] at hs
          rcases hs with hs | rfl
          · exact nC s hs
          · exact hdne
        refine ⟨?_, agrees_of_consistent P c C S ds _ accS kC nC' kS nS⟩
        rw [show (⟨d.seq, d.payload⟩ : Seg) = segOf d from rfl,
          (fullData_eq_stream c.isnC C _ (consistent_sub kC (fun s hs => List.mem_append_left _ hs)) nC').1]
      | false =>
        simp only [Bool.false_eq_true, if_false]
        have hC : (false == true && true) = false := rfl
        simp only [hd, he, Bool.not_false, hC, Bool.false_eq_true, if_false] at kC
        simp only [hd, he, beq_self_eq_true, Bool.not_false, Bool.and_self, if_true] at kS
        have e : accS ++ segOf d :: segsOf false ds = (accS ++ [segOf d]) ++ segsOf false ds := by simp
        rw [e] at kS
        have nS' : ∀ s ∈ accS ++ [segOf d], s.data ≠ [] := by
          intro s hs; simp only [List.mem_append, List.mem_singleton] at hs
          rcases hs with hs | rfl
          · exact nS s hs
          · exact hdne
        refine ⟨?_, agrees_of_consistent P c C S ds accC _ kC nC kS nS'⟩
        rw [show (⟨d.seq, d.payload⟩ : Seg) = segOf d from rfl,
          (fullData_eq_stream c.isnS S _ (consistent_sub kS (fun s hs => List.mem_append_left _ hs)) nS').1]

/-- **reassembly** (C09 at full strength). For every pair of HTTP parsers, every connection opened
by a SYN and answered by a SYN-ACK, every client byte stream `C` and server byte stream `S` (each at
most 64 KiB), every division of those bytes into TCP segments — any number, any sizes, overlapping
or retransmitted pieces included, as long as the bytes offered per direction stay within the
analyzer's 64 KiB buffering bound (`hcC`, `hcS`; automatic for a plain division, see
`reassembly_partition`) —, every pair of initial sequence
numbers including those whose sequence space wraps, every arrival order of the segments and every
interleaving of the two directions: the per-packet reports of the analyzer are exactly those of the
sequence-space specification — each head reported once, on the packet that completes the gap-free
stream up to it, attributed to its direction, never assembled from non-contiguous segments. -/
theorem reassembly (P : Parsers ρ σ) (hm : MinLen P) (c : Conn) (C S : Bytes) (ds : List DataPkt)
    (hne : c.client ≠ c.client.rev) (hpl : PlainData ds)
    (hcC : totalLen (segsOf true ds) ≤ maxBufferedHeadBytes)
    (hcS : totalLen (segsOf false ds) ≤ maxBufferedHeadBytes)
    (hC : Consistent c.isnC C (segsOf true ds)) (hS : Consistent c.isnS S (segsOf false ds)) :
    run P [] (c.packets ds) = specConn P c ds :=
  reassembly_of_agreement P hm c ds hne hpl hcC hcS
    (agrees_of_consistent P c C S ds [] [] (by simpa using hC) (by simp) (by simpa using hS) (by simp))

/-- the segments offered in one direction are, in some arrival order, a division of the byte stream
`C` into consecutive non-empty pieces — no loss, no repetition -/
def PartitionOf (isn : Nat) (C : Bytes) (segs : List Seg) : Prop :=
  ∃ T, segs.Perm T ∧ tilesFrom isn 0 T = true ∧ T.flatMap (·.data) = C

private theorem tiles_pieces (isn : Nat) : ∀ (T : List Seg) (pre : Bytes), tilesFrom isn pre.length T = true →
    ∀ s ∈ T, rel isn s.seq + s.data.length ≤ (pre ++ T.flatMap (·.data)).length ∧
      s.data = ((pre ++ T.flatMap (·.data)).drop (rel isn s.seq)).take s.data.length
  | [], _, _, s, hs => by simp at hs
  | a :: T, pre, ht, s, hs => by
    simp only [tilesFrom, Bool.and_eq_true, beq_iff_eq] at ht
    simp only [List.mem_cons] at hs
    rcases hs with rfl | hs
    · refine ⟨by simp; omega, ?_⟩
      rw [ht.1]
      simp [List.flatMap_cons]
    · have ih := tiles_pieces isn T (pre ++ a.data) (by simpa using ht.2) s hs
      simpa [List.flatMap_cons, List.append_assoc] using ih

private theorem totalLen_flat : ∀ (T : List Seg), totalLen T = (T.flatMap (·.data)).length
  | [] => rfl
  | a :: T => by simp [totalLen, List.flatMap_cons, totalLen_flat T]

private theorem partition_facts {isn : Nat} {C : Bytes} {segs : List Seg} (h : PartitionOf isn C segs)
    (hC : C.length ≤ maxBufferedHeadBytes) :
    Consistent isn C segs ∧ totalLen segs ≤ maxBufferedHeadBytes := by
  obtain ⟨T, hp, ht, hflat⟩ := h
  have hcap : maxBufferedHeadBytes < Spec.M32 := by decide
  refine ⟨⟨by omega, ?_⟩, ?_⟩
  · intro s hs
    have := tiles_pieces isn T [] (by simpa using ht) s (hp.subset hs)
    simpa [hflat] using this
  · rw [totalLen_perm hp, totalLen_flat, hflat]; exact hC

/-- **reassembly_partition** (corollary). For every division of a client stream `C` and a server
stream `S` of at most 64 KiB each into segments, every initial sequence numbers (wrap included),
every permutation of the segments' arrival and every interleaving of the two directions, the
reports are those of the specification — no further hypothesis on the segments. -/
theorem reassembly_partition (P : Parsers ρ σ) (hm : MinLen P) (c : Conn) (C S : Bytes) (ds : List DataPkt)
    (hne : c.client ≠ c.client.rev) (hpl : PlainData ds)
    (hC : C.length ≤ maxBufferedHeadBytes) (hS : S.length ≤ maxBufferedHeadBytes)
    (pC : PartitionOf c.isnC C (segsOf true ds)) (pS : PartitionOf c.isnS S (segsOf false ds)) :
    run P [] (c.packets ds) = specConn P c ds := by
  obtain ⟨kC, lC⟩ := partition_facts pC hC
  obtain ⟨kS, lS⟩ := partition_facts pS hS
  exact reassembly P hm c C S ds hne hpl lC lS kC kS

/-! ### non-vacuity and regression: the witnesses of the repaired findings -/

/-- a toy parser pair: a head is complete when the bytes end in LF LF -/
private def toy : Parsers Bytes Bytes :=
  { request := fun d => if d.length ≥ 4 ∧ d.reverse.take 2 = [10, 10] then some d else none,
    response := fun d => if d.length ≥ 4 ∧ d.reverse.take 2 = [10, 10] then some d else none }

private def k0 : FlowKey := ⟨1, 2, 40000, 80⟩

private theorem toy_minLen : MinLen toy := by
  constructor <;>
  · intro d r h
    unfold toy at h
    simp only at h
    split at h
    · rename_i hc; exact hc.1
    · simp at h

/-- sequence wrap (was: never reported): ISN = 2^32 − 2, "ab\n\n" sent as "a" | "b\n\n" -/
private def wWrap : Conn × List DataPkt :=
  (⟨k0, 4294967294, 7⟩, [⟨true, 4294967295, 24, [97]⟩, ⟨true, 0, 24, [98, 10, 10]⟩])

example : Consistent wWrap.1.isnC [97, 98, 10, 10] (segsOf true wWrap.2) :=
  ⟨by decide, by decide +kernel⟩

example : run toy [] (wWrap.1.packets wWrap.2) = [(none, none), (none, none), (none, none), (some [97, 98, 10, 10], none)] := by
  decide +kernel

/-- a gap (was: "aa\n\n" reported): "aa" | "b" | "\n\n", segments 1 and 3 arrive first -/
private def wGap : Conn × List DataPkt :=
  (⟨k0, 1000, 7⟩, [⟨true, 1001, 24, [97, 97]⟩, ⟨true, 1004, 24, [10, 10]⟩, ⟨true, 1003, 24, [98]⟩])

example : run toy [] (wGap.1.packets wGap.2) =
    [(none, none), (none, none), (none, none), (none, none), (some [97, 97, 98, 10, 10], none)] := by decide +kernel

example : PartitionOf wGap.1.isnC [97, 97, 98, 10, 10] (segsOf true wGap.2) :=
  ⟨[⟨1001, [97, 97]⟩, ⟨1003, [98]⟩, ⟨1004, [10, 10]⟩], by decide, by decide +kernel, by decide⟩

/-- a retransmission (was: "aaaab\n\n" reported) -/
private def wDup : Conn × List DataPkt :=
  (⟨k0, 1000, 7⟩, [⟨true, 1001, 24, [97, 97]⟩, ⟨true, 1001, 24, [97, 97]⟩, ⟨true, 1003, 24, [98, 10, 10]⟩])

example : run toy [] (wDup.1.packets wDup.2) =
    [(none, none), (none, none), (none, none), (none, none), (some [97, 97, 98, 10, 10], none)] := by decide +kernel

/-- the hypotheses of `reassembly` are satisfiable together (the gap case, both directions present) -/
private def wOk : Conn × List DataPkt :=
  (⟨k0, 4294967295, 7⟩, [⟨true, 2, 24, [10, 10]⟩, ⟨false, 8, 24, [98, 98, 10]⟩, ⟨true, 0, 24, [97, 97]⟩,
    ⟨false, 11, 24, [10]⟩, ⟨false, 8, 24, [98, 98]⟩])

example : MinLen toy ∧ wOk.1.client ≠ wOk.1.client.rev ∧ PlainData wOk.2 ∧
    Consistent wOk.1.isnC [97, 97, 10, 10] (segsOf true wOk.2) ∧
    Consistent wOk.1.isnS [98, 98, 10, 10] (segsOf false wOk.2) :=
  ⟨toy_minLen, by decide, by decide +kernel, ⟨by decide, by decide +kernel⟩, ⟨by decide, by decide +kernel⟩⟩

example : specConn toy wOk.1 wOk.2 =
    [(none, none), (none, none), (none, none), (none, none), (some [97, 97, 10, 10], none), (none, some [98, 98, 10, 10]),
     (none, none)] := by decide +kernel

/-- non-vacuity of the two unconditional theorems: a run that opens a flow and reports once -/
example : (trace toy [] (wGap.1.packets [⟨true, 1001, 24, [97, 97, 10, 10]⟩, ⟨true, 1005, 24, [97, 97, 10, 10]⟩])).length = 2 := by
  decide +kernel

end Huginn.Props.C09
