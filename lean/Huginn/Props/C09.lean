import Huginn.Spec.HttpFlow
import Huginn.Lemmas.HttpFlowKey
import Huginn.Lemmas.HttpFlowRun
import Huginn.Lemmas.HttpFlowPerm
/-
C09 — HTTP stream reassembly is invariant to segmentation, sequence origin and order.
Property theorems only; helper lemmas live in Huginn/Lemmas/HttpFlow*.lean.
-/
namespace Huginn.Props.C09
open Huginn.HttpFlow Huginn.HttpFlow.Spec
set_option linter.unusedSimpArgs false
variable {ρ σ : Type}

/-! ### each head is reported at most once (unconditional) -/

/-- For the flow stored under `k`: after it is opened, at most one request and at most one response
report occur before it is opened again. `q`/`s`: a request / response was already seen. -/
def AtMostOnce (k : FlowKey) : Bool → Bool → List (Pkt × Event ρ σ) → Prop
  | _, _, [] => True
  | q, s, (_, .opened k') :: es => if k' = k then AtMostOnce k false false es else AtMostOnce k q s es
  | q, s, (_, .request k' _) :: es =>
    if k' = k then q = false ∧ AtMostOnce k true s es else AtMostOnce k q s es
  | q, s, (_, .response k' _) :: es =>
    if k' = k then s = false ∧ AtMostOnce k q true es else AtMostOnce k q s es

private theorem events_cases (o : StepOut ρ σ) :
    o.events = (match o.stored with
      | none => []
      | some k => (if o.opened then [Event.opened k] else []) ++
          (match o.request with | some r => [Event.request k r] | none => []) ++
          (match o.response with | some s => [Event.response k s] | none => [])) := by
  unfold StepOut.events; rfl

private theorem at_most_once_gen (P : Parsers ρ σ) (k : FlowKey) :
    ∀ (pkts : List Pkt) (m : FlowMap) (q s : Bool),
      (q = true → ClientDone m k) → (s = true → ServerDone m k) → AtMostOnce k q s (trace P m pkts)
  | [], _, _, _, _, _ => by simp [trace, AtMostOnce]
  | p :: ps, m, q, s, hq, hs => by
    have ih := at_most_once_gen P k ps (step P m p).map
    unfold trace
    simp only []
    rw [events_cases]
    cases hst : (step P m p).stored with
    | none =>
      simp only [List.map_nil, List.nil_append]
      have hfr := step_frame P m p k (by rw [hst]; simp)
      exact ih q s (fun h f hf => hq h f (by rw [← hfr]; exact hf)) (fun h f hf => hs h f (by rw [← hfr]; exact hf))
    | some k0 =>
      simp only []
      by_cases hk : k0 = k
      · subst hk
        cases hop : (step P m p).opened with
        | true =>
          obtain ⟨_, hr, hs', _⟩ := step_opened P m p hop
          simp only [hr, hs', if_true, List.append_nil, List.map_cons, List.map_nil, List.cons_append,
            List.nil_append, AtMostOnce]
          exact ih false false (by simp) (by simp)
        | false =>
          cases hreq : (step P m p).request with
          | some r =>
            obtain ⟨hst', _, hres, hdone, f, hf, hcp, _⟩ := step_request P m p r hreq
            rw [hst] at hst'; simp at hst'; subst hst'
            simp only [hres, Bool.false_eq_true, if_false, List.nil_append, List.append_nil, List.map_cons,
              List.map_nil, List.cons_append, AtMostOnce, if_true]
            refine ⟨?_, ih true s (fun _ => hdone) (fun h => ?_)⟩
            · cases q with
              | false => rfl
              | true => have := hq rfl f hf; rw [hcp] at this; simp at this
            · exact (step_server_mono P m p _ hst hop (hs h)).1
          | none =>
            cases hres : (step P m p).response with
            | some s' =>
              obtain ⟨k1, f, hst', _, _, hdone, hf, hsp, _, _⟩ := step_response P m p s' hres
              rw [hst] at hst'; simp at hst'; subst hst'
              simp only [Bool.false_eq_true, if_false, List.nil_append, List.append_nil, List.map_cons,
                List.map_nil, List.cons_append, AtMostOnce, if_true]
              refine ⟨?_, ih q true (fun h => ?_) (fun _ => hdone)⟩
              · cases s with
                | false => rfl
                | true => have := hs rfl f hf; rw [hsp] at this; simp at this
              · exact (step_client_mono P m p k0 hst hop (hq h)).1
            | none =>
              simp only [Bool.false_eq_true, if_false, List.nil_append, List.append_nil, List.map_nil]
              exact ih q s (fun h => (step_client_mono P m p k0 hst hop (hq h)).1)
                (fun h => (step_server_mono P m p k0 hst hop (hs h)).1)
      · -- the step worked on another key
        have hfr := step_frame P m p k (by rw [hst]; simp; exact hk)
        have ih' := ih q s (fun h f hf => hq h f (by rw [← hfr]; exact hf))
          (fun h f hf => hs h f (by rw [← hfr]; exact hf))
        cases (step P m p).opened <;> cases (step P m p).request <;> cases (step P m p).response <;>
          simp [AtMostOnce, hk, ih']

/-- **at_most_once.** For every packet sequence whatsoever (any flows, flags, payloads, orders),
every parser pair and every flow key: between two openings of the flow stored under that key the
analyzer reports at most one request and at most one response. -/
theorem at_most_once (P : Parsers ρ σ) (pkts : List Pkt) (k : FlowKey) :
    AtMostOnce k false false (trace P [] pkts) :=
  at_most_once_gen P k pkts [] false false (by simp) (by simp)

/-! ### reports are attributed to the direction that sent them (unconditional) -/

def DirectionOk (pe : Pkt × Event ρ σ) : Prop :=
  match pe.2 with
  | .opened k => k = pe.1.key ∧ hasFlag pe.1.flags SYN = true
  | .request k _ => pe.1.key = k
  | .response k _ => pe.1.key = k.rev

private theorem direction_gen (P : Parsers ρ σ) :
    ∀ (pkts : List Pkt) (m : FlowMap), KeyInv m → ∀ pe ∈ trace P m pkts, DirectionOk pe
  | [], _, _, pe, h => by simp [trace] at h
  | p :: ps, m, hi, pe, h => by
    unfold trace at h
    simp only [List.mem_append, List.mem_map] at h
    rcases h with ⟨e, he, rfl⟩ | h
    · rw [events_cases] at he
      cases hst : (step P m p).stored with
      | none => simp [hst] at he
      | some k0 =>
        simp only [hst, List.mem_append] at he
        rcases he with (he | he) | he
        · split at he
          · rename_i hop
            simp at he; subst he
            obtain ⟨h1, _, _, _, _, hsyn, _⟩ := step_opened P m p hop
            rw [hst] at h1; simp at h1
            exact ⟨h1, hsyn⟩
          · simp at he
        · cases hreq : (step P m p).request with
          | none => simp [hreq] at he
          | some r =>
            simp [hreq] at he; subst he
            obtain ⟨h1, _⟩ := step_request P m p r hreq
            rw [hst] at h1; simp at h1
            exact h1.symm
        · cases hres : (step P m p).response with
          | none => simp [hres] at he
          | some s =>
            simp [hres] at he; subst he
            obtain ⟨k1, f, h1, _, _, _, hf, _, hdir, _⟩ := step_response P m p s hres
            rw [hst] at h1; simp at h1; subst h1
            show p.key = k0.rev
            rcases hdir with rfl | ⟨rfl, hne⟩
            · exact (FlowKey.rev_rev _).symm
            · exfalso; apply hne
              obtain ⟨a, _, c, _⟩ := hi _ f hf
              exact ⟨a.symm, c.symm⟩
    · exact direction_gen P ps _ (step_keyInv P m p hi) pe h

/-- **direction_correct.** In every run from an empty flow table: a flow is opened under the 4-tuple
of a SYN packet; a request is reported only on a packet travelling in that same direction (from the
endpoint that sent the SYN), a response only on a packet of the reverse direction. -/
theorem direction_correct (P : Parsers ρ σ) (pkts : List Pkt) :
    ∀ pe ∈ trace P [] pkts, DirectionOk pe :=
  direction_gen P pkts [] keyInv_nil

/-- **report_from_own_direction** (unconditional). Whatever is reported is the parser's verdict on
the bytes assembled from the segments stored for *that direction of that flow* plus the packet at
hand — data of the other direction or of another flow never enters it — and it is produced only
while that direction's done-flag is still clear. -/
theorem report_from_own_direction (P : Parsers ρ σ) (m : FlowMap) (p : Pkt) :
    (∀ r, (step P m p).request = some r → ∃ f, m.get p.key = some f ∧ f.clientParsed = false ∧
        P.request (fullData (f.clientData ++ [⟨p.seq, p.payload⟩])) = some r) ∧
    (∀ s, (step P m p).response = some s → ∃ k f, m.get k = some f ∧ f.serverParsed = false ∧
        (k = p.key.rev ∨ k = p.key) ∧
        P.response (fullData (f.serverData ++ [⟨p.seq, p.payload⟩])) = some s) := by
  constructor
  · intro r h
    obtain ⟨_, _, _, _, f, hf, hcp, hparse⟩ := step_request P m p r h
    exact ⟨f, hf, hcp, hparse⟩
  · intro s h
    obtain ⟨k, f, _, _, _, _, hf, hsp, hdir, hparse⟩ := step_response P m p s h
    refine ⟨k, f, hf, hsp, ?_, hparse⟩
    rcases hdir with h | ⟨h, _⟩
    · exact Or.inl h
    · exact Or.inr h

/-! ### the statement at full strength, and where the code falls short of it -/

def PlainData (ds : List DataPkt) : Prop :=
  ∀ d ∈ ds, hasFlag d.flags FIN = false ∧ hasFlag d.flags RST = false ∧ hasFlag d.flags SYN = false
instance (ds) : Decidable (PlainData ds) := by unfold PlainData; exact inferInstance

/-- C09 as stated: for every connection, every division into segments, every initial sequence
number and every arrival order the reports are those of the reassembled streams (within the
64 KiB buffering bound of the analyzer). -/
def FullReassembly : Prop :=
  ∀ (P : Parsers Bytes Bytes) (c : Conn) (ds : List DataPkt),
    c.client ≠ c.client.rev → PlainData ds →
    totalLen (segsOf true ds) ≤ maxBufferedHeadBytes → totalLen (segsOf false ds) ≤ maxBufferedHeadBytes →
    run P [] (c.packets ds) = specConn P c ds

/-! ### reassembly: what is proved -/

/-- **reassembly_of_agreement.** Control flow is right unconditionally: for every connection, every
segmentation, every initial sequence numbers and every arrival order, *if* at each arrival the parsers
judge the bytes the analyzer assembled like the true stream (`Agrees`), the reports — which packet,
which direction, at most once, never before the head is complete — are exactly the specified ones.
Everything C09 can lose is therefore in the assembled bytes (`get_full_data`), see the witnesses. -/
theorem reassembly_of_agreement (P : Parsers ρ σ) (hm : MinLen P) (c : Conn) (ds : List DataPkt)
    (hne : c.client ≠ c.client.rev) (hpl : PlainData ds)
    (hcC : totalLen (segsOf true ds) ≤ maxBufferedHeadBytes)
    (hcS : totalLen (segsOf false ds) ≤ maxBufferedHeadBytes)
    (hag : Agrees P c [] [] ds) :
    run P [] (c.packets ds) = specConn P c ds := by
  obtain ⟨m, hrel, hrun⟩ := handshake P c hne
  rw [packets_eq, hrun]
  unfold specConn
  congr 2
  exact run_sim P hm c hne ds m {} hrel hpl hag (by simpa [totalLen] using hcC) (by simpa [totalLen] using hcS)

private theorem noWrap_mono {isn : Nat} {a b : List Seg} (h : NoWrap isn (a ++ b)) : NoWrap isn a :=
  fun s hs => h s (by simp [hs])

private theorem agrees_of_inorder (P : Parsers ρ σ) (c : Conn) :
    ∀ (ds : List DataPkt) (accC accS : List Seg),
      tilesFrom c.isnC 0 (accC ++ segsOf true ds) = true → NoWrap c.isnC (accC ++ segsOf true ds) →
      (∀ s ∈ accC, s.data ≠ []) →
      tilesFrom c.isnS 0 (accS ++ segsOf false ds) = true → NoWrap c.isnS (accS ++ segsOf false ds) →
      (∀ s ∈ accS, s.data ≠ []) →
      Agrees P c accC accS ds
  | [], _, _, _, _, _, _, _, _ => trivial
  | d :: ds, accC, accS, tC, wC, nC, tS, wS, nS => by
    unfold Agrees
    rw [segsOf_cons] at tC wC tS wS
    cases he : d.payload.isEmpty with
    | true =>
      simp only [if_true]
      simp only [he, Bool.not_true, Bool.and_false, Bool.false_eq_true, if_false] at tC wC tS wS
      exact agrees_of_inorder P c ds accC accS tC wC nC tS wS nS
    | false =>
      have hdne : d.payload ≠ [] := by intro e; rw [e] at he; simp at he
      simp only [Bool.false_eq_true, if_false]
      cases hd : d.fromClient with
      | true =>
        simp only [if_true]
        simp only [hd, he, beq_self_eq_true, Bool.not_false, Bool.and_self, if_true, Bool.true_and] at tC wC
        have hS : (true == false && true) = false := rfl
        simp only [hd, he, Bool.not_false, hS, Bool.false_eq_true, if_false] at tS wS
        have e : accC ++ segOf d :: segsOf true ds = (accC ++ [segOf d]) ++ segsOf true ds := by simp
        rw [e] at tC wC
        have nC' : ∀ s ∈ accC ++ [segOf d], s.data ≠ [] := by
          intro s hs; simp only [List.mem_append, List.mem_singleton] at hs
          rcases hs with hs | rfl
          · exact nC s hs
          · exact hdne
        refine ⟨?_, agrees_of_inorder P c ds _ accS tC wC nC' tS wS nS⟩
        have t1 : tilesFrom c.isnC 0 (accC ++ [segOf d]) = true := by
          rw [tilesFrom_append] at tC; simp only [Bool.and_eq_true] at tC; exact tC.1
        rw [show (⟨d.seq, d.payload⟩ : Seg) = segOf d from rfl,
          fullData_eq_stream c.isnC _ t1 (noWrap_mono wC) nC']
      | false =>
        simp only [Bool.false_eq_true, if_false]
        have hC : (false == true && true) = false := rfl
        simp only [hd, he, Bool.not_false, hC, Bool.false_eq_true, if_false] at tC wC
        simp only [hd, he, beq_self_eq_true, Bool.not_false, Bool.and_self, if_true] at tS wS
        have e : accS ++ segOf d :: segsOf false ds = (accS ++ [segOf d]) ++ segsOf false ds := by simp
        rw [e] at tS wS
        have nS' : ∀ s ∈ accS ++ [segOf d], s.data ≠ [] := by
          intro s hs; simp only [List.mem_append, List.mem_singleton] at hs
          rcases hs with hs | rfl
          · exact nS s hs
          · exact hdne
        refine ⟨?_, agrees_of_inorder P c ds accC _ tC wC nC tS wS nS'⟩
        have t1 : tilesFrom c.isnS 0 (accS ++ [segOf d]) = true := by
          rw [tilesFrom_append] at tS; simp only [Bool.and_eq_true] at tS; exact tS.1
        rw [show (⟨d.seq, d.payload⟩ : Seg) = segOf d from rfl,
          fullData_eq_stream c.isnS _ t1 (noWrap_mono wS) nS']

/-- in some order, the segments are a gap-free, overlap-free run from the first stream byte -/
def GapFree (isn : Nat) (l : List Seg) : Prop := ∃ T, l.Perm T ∧ tilesFrom isn 0 T = true

/-- at every arrival, the direction's received segments are gap-free (in whatever order they came),
or else the parsers judge the assembled bytes like the stream -/
def GapFreeOrAgrees (P : Parsers ρ σ) (c : Conn) : List Seg → List Seg → List DataPkt → Prop
  | _, _, [] => True
  | accC, accS, d :: ds =>
    if d.payload.isEmpty then GapFreeOrAgrees P c accC accS ds
    else if d.fromClient then
      (GapFree c.isnC (accC ++ [segOf d]) ∨
        P.request (fullData (accC ++ [segOf d])) = P.request (stream c.isnC (accC ++ [segOf d]))) ∧
      GapFreeOrAgrees P c (accC ++ [segOf d]) accS ds
    else
      (GapFree c.isnS (accS ++ [segOf d]) ∨
        P.response (fullData (accS ++ [segOf d])) = P.response (stream c.isnS (accS ++ [segOf d]))) ∧
      GapFreeOrAgrees P c accC (accS ++ [segOf d]) ds

private theorem agrees_of_gapFree (P : Parsers ρ σ) (c : Conn) :
    ∀ (ds : List DataPkt) (accC accS : List Seg),
      NoWrap c.isnC (accC ++ segsOf true ds) → (∀ s ∈ accC, s.data ≠ []) →
      NoWrap c.isnS (accS ++ segsOf false ds) → (∀ s ∈ accS, s.data ≠ []) →
      GapFreeOrAgrees P c accC accS ds → Agrees P c accC accS ds
  | [], _, _, _, _, _, _, _ => trivial
  | d :: ds, accC, accS, wC, nC, wS, nS, h => by
    unfold GapFreeOrAgrees at h
    unfold Agrees
    rw [segsOf_cons] at wC wS
    cases he : d.payload.isEmpty with
    | true =>
      simp only [he, if_true] at h ⊢
      simp only [he, Bool.not_true, Bool.and_false, Bool.false_eq_true, if_false] at wC wS
      exact agrees_of_gapFree P c ds accC accS wC nC wS nS h
    | false =>
      have hdne : d.payload ≠ [] := by intro e; rw [e] at he; simp at he
      simp only [he, Bool.false_eq_true, if_false] at h ⊢
      cases hd : d.fromClient with
      | true =>
        simp only [hd, if_true] at h ⊢
        simp only [hd, he, beq_self_eq_true, Bool.not_false, Bool.and_self, if_true] at wC
        have hS : (true == false && true) = false := rfl
        simp only [hd, he, Bool.not_false, hS, Bool.false_eq_true, if_false] at wS
        have e : accC ++ segOf d :: segsOf true ds = (accC ++ [segOf d]) ++ segsOf true ds := by simp
        rw [e] at wC
        have nC' : ∀ s ∈ accC ++ [segOf d], s.data ≠ [] := by
          intro s hs; simp only [List.mem_append, List.mem_singleton] at hs
          rcases hs with hs | rfl
          · exact nC s hs
          · exact hdne
        refine ⟨?_, agrees_of_gapFree P c ds _ accS wC nC' wS nS h.2⟩
        rcases h.1 with ⟨T, hp, ht⟩ | hag
        · rw [show (⟨d.seq, d.payload⟩ : Seg) = segOf d from rfl,
            fullData_eq_stream_of_perm c.isnC _ T hp ht
              (fun s hs => noWrap_mono wC s (hp.symm.subset hs))
              (fun s hs => nC' s (hp.symm.subset hs))]
        · exact hag
      | false =>
        simp only [hd, Bool.false_eq_true, if_false] at h ⊢
        have hC : (false == true && true) = false := rfl
        simp only [hd, he, Bool.not_false, hC, Bool.false_eq_true, if_false] at wC
        simp only [hd, he, beq_self_eq_true, Bool.not_false, Bool.and_self, if_true] at wS
        have e : accS ++ segOf d :: segsOf false ds = (accS ++ [segOf d]) ++ segsOf false ds := by simp
        rw [e] at wS
        have nS' : ∀ s ∈ accS ++ [segOf d], s.data ≠ [] := by
          intro s hs; simp only [List.mem_append, List.mem_singleton] at hs
          rcases hs with hs | rfl
          · exact nS s hs
          · exact hdne
        refine ⟨?_, agrees_of_gapFree P c ds accC _ wC nC wS nS' h.2⟩
        rcases h.1 with ⟨T, hp, ht⟩ | hag
        · rw [show (⟨d.seq, d.payload⟩ : Seg) = segOf d from rfl,
            fullData_eq_stream_of_perm c.isnS _ T hp ht
              (fun s hs => noWrap_mono wS s (hp.symm.subset hs))
              (fun s hs => nS' s (hp.symm.subset hs))]
        · exact hag

/-- **reassembly_any_order.** Arrival order as such is handled correctly: for every connection, every
segmentation, every initial sequence numbers without wrap and *every arrival order*, the reports are
the specified ones provided that at the moments when a direction's received segments still have a gap
the parsers do not tell the gapped concatenation from the stream (they reject both, typically).
At all gap-free moments — whatever the order the segments came in — nothing is assumed. -/
theorem reassembly_any_order (P : Parsers ρ σ) (hm : MinLen P) (c : Conn) (ds : List DataPkt)
    (hne : c.client ≠ c.client.rev) (hpl : PlainData ds)
    (hcC : totalLen (segsOf true ds) ≤ maxBufferedHeadBytes)
    (hcS : totalLen (segsOf false ds) ≤ maxBufferedHeadBytes)
    (k1 : ¬ KF.C09.seqWrap c ds) (hg : GapFreeOrAgrees P c [] [] ds) :
    run P [] (c.packets ds) = specConn P c ds := by
  have wC : NoWrap c.isnC (segsOf true ds) := by
    by_cases h : NoWrap c.isnC (segsOf true ds)
    · exact h
    · exact absurd (Or.inl h) k1
  have wS : NoWrap c.isnS (segsOf false ds) := by
    by_cases h : NoWrap c.isnS (segsOf false ds)
    · exact h
    · exact absurd (Or.inr h) k1
  exact reassembly_of_agreement P hm c ds hne hpl hcC hcS
    (agrees_of_gapFree P c ds [] [] (by simpa using wC) (by simp) (by simpa using wS) (by simp) hg)

/-- **reassembly_partial.** For every parser pair, every connection, every division of the two
byte streams into any number of segments of any sizes, every pair of initial sequence numbers
(`NoWrap`: no segment reaches across 2^32) and every interleaving of the two directions in which each
direction's segments arrive in stream order without loss or repetition (`AlwaysContiguous`), the
analyzer's reports are exactly those of the reassembled streams. The three excluded classes are the
known findings below. -/
theorem reassembly_partial (P : Parsers ρ σ) (hm : MinLen P) (c : Conn) (ds : List DataPkt)
    (hne : c.client ≠ c.client.rev) (hpl : PlainData ds)
    (hcC : totalLen (segsOf true ds) ≤ maxBufferedHeadBytes)
    (hcS : totalLen (segsOf false ds) ≤ maxBufferedHeadBytes)
    (k1 : ¬ KF.C09.seqWrap c ds) (k2 : ¬ KF.C09.duplicateSegment c ds) (k3 : ¬ KF.C09.gapAssembly c ds) :
    run P [] (c.packets ds) = specConn P c ds := by
  have wC : NoWrap c.isnC (segsOf true ds) := by
    by_cases h : NoWrap c.isnC (segsOf true ds)
    · exact h
    · exact absurd (Or.inl h) k1
  have wS : NoWrap c.isnS (segsOf false ds) := by
    by_cases h : NoWrap c.isnS (segsOf false ds)
    · exact h
    · exact absurd (Or.inr h) k1
  have oC : hasOverlap c.isnC (segsOf true ds) = false := by
    cases h : hasOverlap c.isnC (segsOf true ds) with
    | false => rfl
    | true => exact absurd (Or.inl h) k2
  have oS : hasOverlap c.isnS (segsOf false ds) = false := by
    cases h : hasOverlap c.isnS (segsOf false ds) with
    | false => rfl
    | true => exact absurd (Or.inr h) k2
  have tC : tilesFrom c.isnC 0 (segsOf true ds) = true := by
    cases h : tilesFrom c.isnC 0 (segsOf true ds) with
    | true => rfl
    | false => exact absurd (Or.inl ⟨oC, h⟩) k3
  have tS : tilesFrom c.isnS 0 (segsOf false ds) = true := by
    cases h : tilesFrom c.isnS 0 (segsOf false ds) with
    | true => rfl
    | false => exact absurd (Or.inr ⟨oS, h⟩) k3
  exact reassembly_of_agreement P hm c ds hne hpl hcC hcS
    (agrees_of_inorder P c ds [] [] (by simpa using tC) (by simpa using wC) (by simp)
      (by simpa using tS) (by simpa using wS) (by simp))

/-- a toy parser pair for the witnesses: a head is complete when the bytes end in LF LF -/
private def toy : Parsers Bytes Bytes :=
  { request := fun d => if d.length ≥ 4 ∧ d.reverse.take 2 = [10, 10] then some d else none,
    response := fun d => if d.length ≥ 4 ∧ d.reverse.take 2 = [10, 10] then some d else none }

private def k0 : FlowKey := ⟨1, 2, 40000, 80⟩

/-- sequence wrap: ISN = 2^32 − 2, stream "ab\n\n" sent as "a" | "b\n\n" in order — never reported -/
private def wWrap : Conn × List DataPkt :=
  (⟨k0, 4294967294, 7⟩, [⟨true, 4294967295, 24, [97]⟩, ⟨true, 0, 24, [98, 10, 10]⟩])

theorem kf_seqWrap_witness : ¬ FullReassembly := by
  intro hf
  have h := hf toy wWrap.1 wWrap.2 (by decide) (by decide +kernel) (by decide +kernel) (by decide +kernel)
  revert h; decide +kernel

example : KF.C09.seqWrap wWrap.1 wWrap.2 ∧ ¬ KF.C09.gapAssembly wWrap.1 wWrap.2 ∧
    ¬ KF.C09.duplicateSegment wWrap.1 wWrap.2 := by decide +kernel

/-- a gap: "aa" | "b" | "\n\n", segments 1 and 3 arrive first — "aa\n\n" is reported -/
private def wGap : Conn × List DataPkt :=
  (⟨k0, 1000, 7⟩, [⟨true, 1001, 24, [97, 97]⟩, ⟨true, 1004, 24, [10, 10]⟩, ⟨true, 1003, 24, [98]⟩])

theorem kf_gapAssembly_witness : ¬ FullReassembly := by
  intro hf
  have h := hf toy wGap.1 wGap.2 (by decide) (by decide +kernel) (by decide +kernel) (by decide +kernel)
  revert h; decide +kernel

example : KF.C09.gapAssembly wGap.1 wGap.2 ∧ ¬ KF.C09.seqWrap wGap.1 wGap.2 ∧
    ¬ KF.C09.duplicateSegment wGap.1 wGap.2 := by decide +kernel

/-- a retransmission: "aa" twice, then "b\n\n" — "aaaab\n\n" is reported -/
private def wDup : Conn × List DataPkt :=
  (⟨k0, 1000, 7⟩, [⟨true, 1001, 24, [97, 97]⟩, ⟨true, 1001, 24, [97, 97]⟩, ⟨true, 1003, 24, [98, 10, 10]⟩])

theorem kf_duplicateSegment_witness : ¬ FullReassembly := by
  intro hf
  have h := hf toy wDup.1 wDup.2 (by decide) (by decide +kernel) (by decide +kernel) (by decide +kernel)
  revert h; decide +kernel

example : KF.C09.duplicateSegment wDup.1 wDup.2 ∧ ¬ KF.C09.seqWrap wDup.1 wDup.2 := by decide +kernel

/-- non-vacuity of the two unconditional theorems: a run that opens a flow and reports once -/
example : (trace toy [] (wGap.1.packets [⟨true, 1001, 24, [97, 97, 10, 10]⟩, ⟨true, 1005, 24, [97, 97, 10, 10]⟩])).length = 2 := by
  decide +kernel

/-- non-vacuity of `reassembly_partial`: a connection in 2 + 2 segments, client ISN 2^32 − 1 (the
first data byte has sequence number 0), satisfying every hypothesis; both heads are reported -/
private def wOk : Conn × List DataPkt :=
  (⟨k0, 4294967295, 7⟩, [⟨true, 0, 24, [97, 97]⟩, ⟨false, 8, 24, [98, 98, 10]⟩, ⟨true, 2, 24, [10, 10]⟩,
    ⟨false, 11, 24, [10]⟩])

example : MinLen toy ∧ wOk.1.client ≠ wOk.1.client.rev ∧ PlainData wOk.2 ∧ ¬ KF.C09.seqWrap wOk.1 wOk.2 ∧
    ¬ KF.C09.duplicateSegment wOk.1 wOk.2 ∧ ¬ KF.C09.gapAssembly wOk.1 wOk.2 := by
  refine ⟨⟨?_, ?_⟩, by decide, by decide +kernel, by decide +kernel, by decide +kernel, by decide +kernel⟩ <;>
  · intro d r h
    unfold toy at h
    simp only at h
    split at h
    · rename_i hc; exact hc.1
    · simp at h

example : specConn toy wOk.1 wOk.2 =
    [(none, none), (none, none), (none, none), (none, none), (some [97, 97, 10, 10], none), (none, some [98, 98, 10, 10])] := by
  decide +kernel

/-- non-vacuity of `reassembly_any_order`: "aa" | "b" | "\n\n" arriving in the order 2, 1, 3 -/
private def wPerm : Conn × List DataPkt :=
  (⟨k0, 1000, 7⟩, [⟨true, 1003, 24, [98]⟩, ⟨true, 1001, 24, [97, 97]⟩, ⟨true, 1004, 24, [10, 10]⟩])

example : GapFreeOrAgrees toy wPerm.1 [] [] wPerm.2 := by
  refine ⟨Or.inr (by decide +kernel),
    Or.inl ⟨[⟨1001, [97, 97]⟩, ⟨1003, [98]⟩], by decide, by decide +kernel⟩,
    Or.inl ⟨[⟨1001, [97, 97]⟩, ⟨1003, [98]⟩, ⟨1004, [10, 10]⟩], by decide, by decide +kernel⟩, trivial⟩

example : run toy [] (wPerm.1.packets wPerm.2) =
    [(none, none), (none, none), (none, none), (none, none), (some [97, 97, 98, 10, 10], none)] := by decide +kernel

end Huginn.Props.C09
