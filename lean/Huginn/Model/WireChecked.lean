import Huginn.Model.Wire
/-
Checked-access mirrors of the wire-level functions (C01: analysis is total).

Every indexing `x[i]` and slicing `&x[i..]`, `&x[i..j]` expression of
  huginn-net-*/src/packet_parser.rs   (parse_packet, detect_datalink_format)
  huginn-net-*/src/raw_filter.rs      (extract_quick_info and what it calls)
  huginn-net-{tcp,http,tls}/src/packet_hash.rs
is written with `idx` / `from_` / `range`, which *fail* (`Except.error`) exactly where Rust panics,
and every guard is mirrored as written (including the short-circuit order of `&&` / `||`), so that
"no panic" is a statement to prove (Props/C01Wire.lean) and not a default of a total accessor.
Arithmetic in these files is `saturating_*` / `checked_rem` only (no overflow site); the values stay
far below `usize::MAX`, so `Nat` arithmetic is exact.
The results are the same objects Model/Wire.lean computes with total accessors; Props/C01Wire.lean
proves the two coincide, which also shows that the `getD` defaults of Model/Wire are never observed.
-/
namespace Huginn.WireChecked
open Huginn.Wire

inductive Fault
  | index (i len : Nat)          -- `x[i]` with `i >= x.len()`
  | slice (i j len : Nat)        -- `&x[i..j]` with `i > j` or `j > x.len()`
  deriving DecidableEq, Repr

abbrev M := Except Fault

deriving instance DecidableEq for Except

/-- `b[i]` (as a number). -/
def idx (b : Bytes) (i : Nat) : M Nat :=
  if h : i < b.length then .ok (b[i]).toNat else .error (.index i b.length)
/-- `b[i]` (as a byte). -/
def idx8 (b : Bytes) (i : Nat) : M UInt8 :=
  if h : i < b.length then .ok b[i] else .error (.index i b.length)
/-- `&b[i..]`. -/
def from_ (b : Bytes) (i : Nat) : M Bytes :=
  if i ≤ b.length then .ok (b.drop i) else .error (.slice i b.length b.length)
/-- `&b[i..j]`. -/
def range (b : Bytes) (i j : Nat) : M Bytes :=
  if i ≤ j ∧ j ≤ b.length then .ok ((b.take j).drop i) else .error (.slice i j b.length)
/-- `n` single-byte reads `b[i], b[i+1], …` (the address octets handed to `Ipv4Addr::new` /
`u16::from_be_bytes` one by one). -/
def readN (b : Bytes) (i : Nat) : Nat → M Bytes
  | 0 => .ok []
  | n + 1 => do
    let x ← idx8 b i
    let xs ← readN b (i + 1) n
    pure (x :: xs)
/-- `u16::from_be_bytes([b[i], b[j]])`. -/
def be16At (b : Bytes) (i j : Nat) : M Nat := do
  let x ← idx b i
  let y ← idx b j
  pure (x * 256 + y)

/-! ### packet_parser.rs -/

def tryEthernetC (p : Bytes) : M (Option Located) :=
  if p.length < 14 then pure none
  else do
    -- `EthernetPacket::new(packet)?` succeeds: pnet's minimum size is 14
    let ip ← from_ p 14                         -- `&packet[14..]`
    let et ← be16At p 12 13                     -- `ethernet.get_ethertype()` (bytes 12, 13 of the view)
    if et = 0x0800 then pure (if 20 ≤ ip.length then some ⟨.eth, .v4, ip⟩ else none)
    else if et = 0x86DD then pure (if 40 ≤ ip.length then some ⟨.eth, .v6, ip⟩ else none)
    else pure none

def tryRawIpC (p : Bytes) : M (Option Located) :=
  if p.length < 20 then pure none
  else do
    let b0 ← idx p 0                            -- `(packet[0] & 0xF0) >> 4`
    if b0 / 16 = 4 then pure (some ⟨.raw, .v4, p⟩)
    else if b0 / 16 = 6 then pure (if 40 ≤ p.length then some ⟨.raw, .v6, p⟩ else none)
    else pure none

def tryNullC (p : Bytes) : M (Option Located) :=
  -- `packet.len() < 24 || packet[0] != 0x1e || packet[1] != 0x00` evaluated left to right
  if p.length < 24 then pure none
  else do
    let b0 ← idx p 0
    if b0 ≠ 0x1e then pure none
    else do
      let b1 ← idx p 1
      if b1 ≠ 0 then pure none
      else do
        let ip ← from_ p 4                      -- `&packet[4..]`
        let v ← idx ip 0                        -- `(ip_data[0] & 0xF0) >> 4`
        if v / 16 = 4 then pure (some ⟨.null, .v4, ip⟩)
        else if v / 16 = 6 then pure (if 40 ≤ ip.length then some ⟨.null, .v6, ip⟩ else none)
        else pure none

def parsePacketC (p : Bytes) : M (Option Located) := do
  match ← tryEthernetC p with
  | some l => pure (some l)
  | none =>
    match ← tryRawIpC p with
    | some l => pure (some l)
    | none => tryNullC p

/-- `detect_datalink_format` (statistics helper of the same file; `ihl` is a `u8` product that
saturates at 255). -/
def detectDatalinkC (p : Bytes) : M (Option Framing) := do
  let nullHit ← (if 24 ≤ p.length then do
      let b0 ← idx p 0
      if b0 = 0x1e then do
        let b1 ← idx p 1
        if b1 = 0 then do
          let ip ← from_ p 4
          let v ← idx ip 0
          pure (decide (v / 16 = 4 ∨ v / 16 = 6))
        else pure false
      else pure false
    else pure false)
  if nullHit then pure (some .null)
  else do
    let rawHit ← (if 20 ≤ p.length then do
        let b0 ← idx p 0
        if b0 / 16 = 4 then do
          let b0' ← idx p 0                     -- `(packet[0] & 0x0F).saturating_mul(4)`
          let ihl := min (b0' % 16 * 4) 255
          pure (decide (20 ≤ ihl ∧ ihl ≤ p.length))
        else if b0 / 16 = 6 then pure (decide (40 ≤ p.length))
        else pure false
      else pure false)
    if rawHit then pure (some .raw)
    else if 14 ≤ p.length then do
      let et ← be16At p 12 13
      if et = 0x0800 ∨ et = 0x86DD then do
        let ip ← from_ p 14
        if ip.isEmpty then pure none
        else do
          let v ← idx ip 0
          pure (if (et = 0x0800 ∧ v / 16 = 4) ∨ (et = 0x86DD ∧ v / 16 = 6) then some .eth else none)
      else pure none
    else pure none

/-! ### raw_filter.rs -/

def extractV4C (ip : Bytes) : M (Option Ep) :=
  if ip.length < 20 then pure none
  else do
    let pr ← idx ip 9                           -- `packet[9] != 6`
    if pr ≠ 6 then pure none
    else do
      let src ← readN ip 12 4                   -- `packet[12] … packet[15]`
      let dst ← readN ip 16 4                   -- `packet[16] … packet[19]`
      let b0 ← idx ip 0                         -- `(packet[0] & 0x0F) as usize`
      let off := max (b0 % 16 * 4) 20           -- `.saturating_mul(4).max(20)`
      if ip.length < off + 4 then pure none
      else do
        let sp ← be16At ip off (off + 1)
        let dp ← be16At ip (off + 2) (off + 3)
        pure (some ⟨.v4, src, dst, sp, dp⟩)

def extractV6C (ip : Bytes) : M (Option Ep) :=
  if ip.length < 40 then pure none
  else do
    let nh ← idx ip 6                           -- `packet[6] != 6`
    if nh ≠ 6 then pure none
    else do
      let src ← readN ip 8 16                   -- `packet[8] … packet[23]`
      let dst ← readN ip 24 16                  -- `packet[24] … packet[39]`
      if ip.length < 44 then pure none
      else do
        let sp ← be16At ip 40 41
        let dp ← be16At ip 42 43
        pure (some ⟨.v6, src, dst, sp, dp⟩)

def rfEthernetC (p : Bytes) : M (Option Ep) :=
  if p.length < 14 then pure none
  else do
    let et ← be16At p 12 13
    if et = 0x0800 then do let ip ← from_ p 14; extractV4C ip
    else if et = 0x86DD then do let ip ← from_ p 14; extractV6C ip
    else pure none

def rfRawIpC (p : Bytes) : M (Option Ep) :=
  if p.length = 0 then pure none
  else do
    let b0 ← idx p 0                            -- `packet[0] >> 4`
    if b0 / 16 = 4 then extractV4C p
    else if b0 / 16 = 6 then extractV6C p
    else pure none

def rfNullC (p : Bytes) : M (Option Ep) :=
  if p.length < 4 then pure none
  else do
    -- `packet[0] == 0x1e && packet[1] == 0x00 && packet.len() > 4`, left to right
    let b0 ← idx p 0
    let sig ← (if b0 = 0x1e then do
        let b1 ← idx p 1
        pure (decide (b1 = 0 ∧ 4 < p.length))
      else pure false)
    if sig then do
      let v ← idx p 4                           -- `packet[4] >> 4`
      if v / 16 = 4 then do let ip ← from_ p 4; extractV4C ip
      else if v / 16 = 6 then do let ip ← from_ p 4; extractV6C ip
      else pure none
    else do
      let f0 ← idx p 0; let f1 ← idx p 1; let f2 ← idx p 2; let f3 ← idx p 3   -- `u32::from_ne_bytes`
      let fam := f0 + 256 * f1 + 65536 * f2 + 16777216 * f3
      if fam = 2 then do let ip ← from_ p 4; extractV4C ip
      else if fam = 30 ∨ fam = 28 then do let ip ← from_ p 4; extractV6C ip
      else pure none

def rawFilterExtractC (p : Bytes) : M (Option Ep) := do
  match ← rfEthernetC p with
  | some e => pure (some e)
  | none =>
    match ← rfRawIpC p with
    | some e => pure (some e)
    | none => rfNullC p

/-! ### packet_hash.rs -/

/-- `locate_ip` (fix C18), every index as written: `packet[12]`, `packet[13]` behind `len >= 14`;
`packet[0]` behind `len >= 20`; `packet[0]`, `packet[1]` (left to right, short-circuit) and `packet[4]`
behind `len >= 24`. -/
def locateIpC (p : Bytes) : M (Option (Nat × IpVer)) := do
  let eth ← (if 14 ≤ p.length then do
      let et ← be16At p 12 13                   -- `u16::from_be_bytes([packet[12], packet[13]])`
      if et = 0x0800 ∧ 34 ≤ p.length then pure (some (14, IpVer.v4))
      else if et = 0x86DD ∧ 54 ≤ p.length then pure (some (14, IpVer.v6))
      else pure none
    else pure none)
  match eth with
  | some r => pure (some r)
  | none => do
    let raw ← (if 20 ≤ p.length then do
        let b0 ← idx p 0                        -- `packet[0] >> 4`
        if b0 / 16 = 4 then pure (some (0, IpVer.v4))
        else if b0 / 16 = 6 ∧ 40 ≤ p.length then pure (some (0, IpVer.v6))
        else pure none
      else pure none)
    match raw with
    | some r => pure (some r)
    | none =>
      if 24 ≤ p.length then do
        let b0 ← idx p 0
        if b0 = 0x1e then do
          let b1 ← idx p 1
          if b1 = 0 then do
            let v ← idx p 4                     -- `packet[4] >> 4`
            if v / 16 = 4 then pure (some (4, IpVer.v4))
            else if v / 16 = 6 ∧ 44 ≤ p.length then pure (some (4, IpVer.v6))
            else pure none
          else pure none
        else pure none
      else pure none

def hashInputTcpC (p : Bytes) : M HashIn := do
  match ← locateIpC p with
  | none => pure (.bytes p)
  | some (off, ver) => do
    let ip ← from_ p off                        -- `&packet[ip_start..]`
    match ver with
    | .v4 =>
      if 16 ≤ ip.length then do let s ← range ip 12 16; pure (.bytes s) else pure (.bytes p)
    | .v6 =>
      if 24 ≤ ip.length then do let s ← range ip 8 24; pure (.bytes s) else pure (.bytes p)

/-- shared by HTTP (`some` continuation: canonical order) and TLS -/
def v4FlowC (ip : Bytes) : M (Option (Option (Bytes × Bytes × Nat × Nat))) :=
  -- outer none: too short (fallback / discard); inner none: "hash source address only" / discard
  if ip.length < 20 then pure none
  else do
    let pr ← idx ip 9
    if pr ≠ 6 then pure (some none)
    else do
      let b0 ← idx ip 0
      let off := max (b0 % 16 * 4) 20
      if ip.length < off + 4 then pure (some none)
      else do
        let s ← range ip 12 16
        let d ← range ip 16 20
        let t ← from_ ip off                    -- `&ip_packet[ip_header_len..]`
        let sp ← be16At t 0 1
        let dp ← be16At t 2 3
        pure (some (some (s, d, sp, dp)))

def v6FlowC (ip : Bytes) : M (Option (Option (Bytes × Bytes × Nat × Nat))) :=
  if ip.length < 40 then pure none
  else do
    let nh ← idx ip 6
    if nh ≠ 6 then pure (some none)
    else if ip.length < 44 then pure (some none)
    else do
      let s ← range ip 8 24
      let d ← range ip 24 40
      let t ← from_ ip 40
      let sp ← be16At t 0 1
      let dp ← be16At t 2 3
      pure (some (some (s, d, sp, dp)))

def hashV4FlowHttpC (ip : Bytes) : M HashIn := do
  match ← v4FlowC ip with
  | none => pure (.bytes ip)
  | some none => do let s ← range ip 12 16; pure (.bytes s)     -- `&ip_packet[12..16]`
  | some (some (s, d, sp, dp)) => pure (canonFlow s d sp dp)

def hashV6FlowHttpC (ip : Bytes) : M HashIn := do
  match ← v6FlowC ip with
  | none => pure (.bytes ip)
  | some none => do let s ← range ip 8 24; pure (.bytes s)
  | some (some (s, d, sp, dp)) => pure (canonFlow s d sp dp)

def hashInputHttpC (p : Bytes) : M HashIn := do
  match ← locateIpC p with
  | none => pure (.bytes p)
  | some (off, ver) =>
    if p.length < off + 40 then pure (.bytes p)
    else do
      let ip ← from_ p off
      match ver with
      | .v4 => hashV4FlowHttpC ip
      | .v6 => hashV6FlowHttpC ip

def hashInputTlsC (p : Bytes) : M (Option HashIn) := do
  match ← locateIpC p with
  | none => pure none
  | some (off, ver) =>
    if p.length < off + 40 then pure none
    else do
      let ip ← from_ p off
      match ver with
      | .v4 => do
        match ← v4FlowC ip with
        | some (some (s, d, sp, dp)) => pure (some (.flow s d sp dp))
        | _ => pure none
      | .v6 => do
        match ← v6FlowC ip with
        | some (some (s, d, sp, dp)) => pure (some (.flow s d sp dp))
        | _ => pure none

/-! ### the entry points as the callers use them -/

/-- `raw_filter::apply`: extraction, then `FilterConfig::should_process` (total, C14), fail-open. -/
def rawFilterApplyC (c : Huginn.Filter.Config) (p : Bytes) : M Bool := do
  match ← rawFilterExtractC p with
  | some e => pure (e.admittedBy c)
  | none => pure true

/-- worker index: `hash.checked_rem(n).unwrap_or(0)` (no division fault for `n = 0`). -/
def workerTcpC (H : HashIn → Nat) (n : Nat) (p : Bytes) : M Nat := do
  let i ← hashInputTcpC p; pure (remOr0 (H i) n)
def workerHttpC (H : HashIn → Nat) (n : Nat) (p : Bytes) : M Nat := do
  let i ← hashInputHttpC p; pure (remOr0 (H i) n)
def workerTlsC (H : HashIn → Nat) (n : Nat) (p : Bytes) : M (Option Nat) := do
  let i ← hashInputTlsC p; pure (i.map (fun x => remOr0 (H x) n))

end Huginn.WireChecked
