import Huginn.Gen.TlsConst
/-
Model of huginn-net-tls/src/tls_client_hello_reader.rs (`TlsClientHelloReader::{new, add_bytes,
reset}`) and of the per-flow packet processor `process_tcp_packet` in huginn-net-tls/src/process.rs
(with `is_tls_traffic` from tls_process.rs).

The ClientHello parser (`parse_tls_client_hello`) is a *parameter* `parse : Bytes → PR σ`:
`sig s` = `Ok(Some(s))`, `notHello` = `Ok(None)`, `err` = `Err(_)`. Its concrete model is
`Huginn.Tls.parseClientHello` in Model/Ja4.lean; every theorem of C08 holds for any `parse`.

`TtlCache<FlowKey, TlsClientHelloReader>` is an association list in insertion order with a
capacity (ttl_cache 0.5.1 = linked_hash_map + `remove_oldest` on overflow). Expiry is *not*
modelled: the harness cases last milliseconds, the TTL is 20 s (assumption recorded in
props/C08.json).
-/
namespace Huginn.Tls
open Huginn.Gen.Tls

abbrev Bytes := List UInt8

/-- Outcome of `parse_tls_client_hello`. -/
inductive PR (σ : Type) where
  | sig (s : σ)
  | notHello
  | err
  deriving Repr, DecidableEq

/-- Return value of `add_bytes`: `Ok(None)`, `Ok(Some(sig))`, `Err(Parse("TLS record too large"))`,
`Err(e)` propagated from the parser. -/
inductive Out (σ : Type) where
  | none
  | sig (s : σ)
  | errTooLarge
  | errParse
  deriving Repr, DecidableEq

/-- `TlsClientHelloReader { buffer, signature }`. -/
structure Reader (σ : Type) where
  buffer : Bytes := []
  signature : Option σ := none
  deriving Repr

def Reader.init {σ} : Reader σ := {}

/-- `u16::from_be_bytes([b3, b4]) as usize` -/
def be16 (a b : UInt8) : Nat := a.toNat * 256 + b.toNat

/-- `record_len.saturating_add(5)` on `usize` (never saturates: `record_len ≤ 65535`). The offsets
of the length field and the addend are the regenerated literals. -/
def neededOf (buf : Bytes) : Nat :=
  be16 (buf.getD readerLenHi 0) (buf.getD readerLenLo 0) + readerLenAdd

/-- `add_bytes`, with the branch taken as a tag. Literals come from Gen/TlsConst.lean. -/
def Reader.addBytesT {σ} (parse : Bytes → PR σ) (r : Reader σ) (data : Bytes) :
    Reader σ × Out σ × String :=
  if r.signature.isSome then (r, .none, "done")
  else
    let buf := r.buffer ++ data
    if buf.length < readerHdrLen then ({ r with buffer := buf }, .none, "short")
    else
      let needed := neededOf buf
      if (buf.getD 0 0).toNat ≠ readerHandshake then ({ r with buffer := [] }, .none, "not-handshake")
      else if buf.length < needed then ({ r with buffer := buf }, .none, "incomplete")
      else if needed > readerMaxNeeded then ({}, .errTooLarge, "too-large")
      else
        match parse (buf.take needed) with
        | .sig s => ({ buffer := buf.drop needed, signature := some s }, .sig s, "hello")
        | .notHello => ({}, .none, "not-hello")
        | .err => ({ r with buffer := buf }, .errParse, "parse-error")

def Reader.addBytes {σ} (parse : Bytes → PR σ) (r : Reader σ) (data : Bytes) : Reader σ × Out σ :=
  let x := r.addBytesT parse data
  (x.1, x.2.1)

/-- Feed segments one by one; per-segment outputs. -/
def Reader.run {σ} (parse : Bytes → PR σ) : Reader σ → List Bytes → List (Out σ)
  | _, [] => []
  | r, s :: rest => (r.addBytes parse s).2 :: Reader.run parse (r.addBytes parse s).1 rest

/-- Final reader state after the segments. -/
def Reader.after {σ} (parse : Bytes → PR σ) : Reader σ → List Bytes → Reader σ
  | r, [] => r
  | r, s :: rest => Reader.after parse (r.addBytes parse s).1 rest

/-! ### packet level -/

/-- `is_tls_traffic`: at least five bytes, content type 0x16, record version 0x0300..=0x0304. -/
def isTlsTraffic (p : Bytes) : Bool :=
  if p.length < trafficMinLen then false
  else if (p.getD 0 0).toNat = trafficHandshake then
    let v := be16 (p.getD 1 0) (p.getD 2 0)
    decide (recVersionLo ≤ v) && decide (v ≤ recVersionHi)
  else false

/-- `TtlCache` (no expiry): entries oldest first. -/
structure Flows (κ : Type) (σ : Type) where
  cap : Nat
  entries : List (κ × Reader σ) := []

variable {κ : Type} [DecidableEq κ] {σ : Type}

def Flows.get? (f : Flows κ σ) (k : κ) : Option (Reader σ) := f.entries.lookup k
def Flows.contains (f : Flows κ σ) (k : κ) : Bool := (f.get? k).isSome
def Flows.remove (f : Flows κ σ) (k : κ) : Flows κ σ :=
  { f with entries := f.entries.filter (fun e => e.1 ≠ k) }
/-- `get_mut` followed by mutation in place: position in the list is kept. -/
def Flows.set (f : Flows κ σ) (k : κ) (r : Reader σ) : Flows κ σ :=
  { f with entries := f.entries.map (fun e => if e.1 = k then (k, r) else e) }
/-- `insert`: linked_hash_map re-inserts at the back (an existing key is removed first); then the
oldest entry is dropped when the length exceeds the capacity. -/
def Flows.insert (f : Flows κ σ) (k : κ) (r : Reader σ) : Flows κ σ :=
  let es := (f.entries.filter (fun e => e.1 ≠ k)) ++ [(k, r)]
  { f with entries := if es.length > f.cap then es.drop 1 else es }

/-- Result of `process_tcp_packet`: `Ok(None)`, `Ok(Some(output))`, or the propagated
`Err(Parse("Failed to retrieve flow after insert"))` (only when the cache capacity is 0). -/
inductive POut (σ : Type) where
  | none
  | sig (s : σ)
  | errInsert
  deriving Repr, DecidableEq

/-- `process_tcp_packet` for one segment (`payload` of the flow `k`), with a branch tag. -/
def processTcpT (parse : Bytes → PR σ) (f : Flows κ σ) (k : κ) (payload : Bytes) :
    Flows κ σ × POut σ × String :=
  if payload.isEmpty then (f, .none, "empty")
  else
    let active := f.contains k
    let isTls := if active then true else isTlsTraffic payload
    if !isTls then (f, .none, "not-tls")
    else
      let pre := if active then "cont" else "new"
      let f1 := if active then f else f.insert k {}
      match f1.get? k with
      | none => (f1, .errInsert, "insert-failed")
      | some rd =>
        let x := rd.addBytesT parse payload
        match x.2.1 with
        | .sig s => (f1.remove k, .sig s, pre ++ "/" ++ x.2.2)
        | .none => (f1.set k x.1, .none, pre ++ "/" ++ x.2.2)
        | _ => (f1.remove k, .none, pre ++ "/" ++ x.2.2)

def processTcp (parse : Bytes → PR σ) (f : Flows κ σ) (k : κ) (payload : Bytes) :
    Flows κ σ × POut σ :=
  let x := processTcpT parse f k payload
  (x.1, x.2.1)

/-- A packet history (flow key, TCP payload) through one cache. -/
def runPackets (parse : Bytes → PR σ) : Flows κ σ → List (κ × Bytes) → List (POut σ)
  | _, [] => []
  | f, (k, p) :: rest =>
    (processTcp parse f k p).2 :: runPackets parse (processTcp parse f k p).1 rest

/-- `process_tcp_packet` with the SYN reset: a segment carrying SYN first drops whatever reader an earlier
connection on the same 4-tuple left behind. -/
def processTcpS (parse : Bytes → PR σ) (f : Flows κ σ) (k : κ) (syn : Bool) (payload : Bytes) :
    Flows κ σ × POut σ :=
  processTcp parse (if syn then f.remove k else f) k payload

/-- A packet history (flow key, SYN flag, TCP payload) through one cache. -/
def runPacketsS (parse : Bytes → PR σ) : Flows κ σ → List (κ × Bool × Bytes) → List (POut σ)
  | _, [] => []
  | f, (k, syn, p) :: rest =>
    (processTcpS parse f k syn p).2 :: runPacketsS parse (processTcpS parse f k syn p).1 rest

end Huginn.Tls
