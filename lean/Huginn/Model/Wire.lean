import Huginn.Model.Filter
/-
Model/Wire — the frame decoders that exist in the code, as *separate* functions over the
same `Bytes`, because C15 and C18 are about their (dis)agreement.

* `parsePacket`        huginn-net-{tcp,http,tls}/src/packet_parser.rs `parse_packet` (the three copies are
                       byte-identical, the unified crate's copy differs only in returning slices; the
                       extractor item `ex_wire.py` checks this on every run)
* `v4*/v6*/tcp*`       pnet_packet 0.35 header views (third-party, modelled at the interface, exercised):
                       `Ipv4Packet::new` needs 20 bytes, `Ipv6Packet::new` 40, `TcpPacket::new` 20;
                       `payload()` = `packet[start .. min(start+len_fn, packet.len())]`, empty when
                       `packet.len() <= start`
* `analyzerView`       what `process.rs` / `*_process.rs` of each analyzer decode before they touch any
                       state or report anything (the gates that make a frame inert)
* `rawFilterExtract`   huginn-net-{tcp,http,tls}/src/raw_filter.rs `extract_quick_info` (identical x3; after
                       the fixes 68f354c — ports at max(ihl*4,20) — and 1765a5f — `1e 00` loopback header)
* `locateIp`, `hashInputTcp/Http/Tls`  the three packet_hash.rs (after fix C18 — the hashers locate the
                       IP header as `parse_packet` does): which bytes / fields are fed to the hasher

Everything is total: every index is guarded by the same length test the Rust code performs, so the
default of `getD` is never observed on a path the code can take (C01 is about that; here the
correspondence run would show a panic as `PANIC`).
-/
namespace Huginn.Wire
open Huginn.Filter (Addr Config)

abbrev Bytes := List UInt8

/-- `b[i]` as a number (guarded by the callers' length tests). -/
def byte (b : Bytes) (i : Nat) : Nat := (b.getD i 0).toNat
/-- `u16::from_be_bytes([b[i], b[i+1]])`. -/
def be16 (b : Bytes) (i : Nat) : Nat := byte b i * 256 + byte b (i + 1)
/-- big-endian value of a byte string (addresses handed to the filter). -/
def beNat (b : Bytes) : Nat := b.foldl (fun a x => a * 256 + x.toNat) 0
/-- `&b[i .. i+n]`. -/
def slice (b : Bytes) (i n : Nat) : Bytes := (b.drop i).take n

inductive Framing | eth | raw | null
  deriving DecidableEq, Repr
inductive IpVer | v4 | v6
  deriving DecidableEq, Repr

/-- Result of a link-layer decode: which framing was chosen, which IP version, the IP bytes. -/
structure Located where
  fr  : Framing
  ver : IpVer
  ip  : Bytes
  deriving DecidableEq, Repr

/-! ### packet_parser.rs -/

/-- `try_ethernet_format`: 14-byte header, ethertype decides, `Ipv{4,6}Packet::new` minimum sizes.
(The version nibble is *not* looked at.) -/
def tryEthernet (p : Bytes) : Option Located :=
  if p.length < 14 then none
  else if be16 p 12 = 0x0800 then
    (if 20 ≤ (p.drop 14).length then some ⟨.eth, .v4, p.drop 14⟩ else none)
  else if be16 p 12 = 0x86DD then
    (if 40 ≤ (p.drop 14).length then some ⟨.eth, .v6, p.drop 14⟩ else none)
  else none

/-- `try_raw_ip_format`: at least 20 bytes, version nibble decides. -/
def tryRawIp (p : Bytes) : Option Located :=
  if p.length < 20 then none
  else if byte p 0 / 16 = 4 then some ⟨.raw, .v4, p⟩
  else if byte p 0 / 16 = 6 then (if 40 ≤ p.length then some ⟨.raw, .v6, p⟩ else none)
  else none

/-- `try_null_datalink_format`: at least 24 bytes starting `1e 00`, nibble of byte 4 decides. -/
def tryNull (p : Bytes) : Option Located :=
  if p.length < 24 ∨ byte p 0 ≠ 0x1e ∨ byte p 1 ≠ 0 then none
  else if byte (p.drop 4) 0 / 16 = 4 then some ⟨.null, .v4, p.drop 4⟩
  else if byte (p.drop 4) 0 / 16 = 6 then
    (if 40 ≤ (p.drop 4).length then some ⟨.null, .v6, p.drop 4⟩ else none)
  else none

/-- `parse_packet`: first strategy that succeeds. -/
def parsePacket (p : Bytes) : Option Located :=
  match tryEthernet p with
  | some l => some l
  | none =>
    match tryRawIp p with
    | some l => some l
    | none => tryNull p

/-! ### pnet header views -/

def v4Ihl (ip : Bytes) : Nat := byte ip 0 % 16
def v4TotalLen (ip : Bytes) : Nat := be16 ip 2
def v4Flags (ip : Bytes) : Nat := byte ip 6 / 32
def v4FragOff (ip : Bytes) : Nat := (byte ip 6 % 32) * 256 + byte ip 7
def v4Proto (ip : Bytes) : Nat := byte ip 9
/-- `20 + ipv4_options_length` where the latter is `(ihl*4).saturating_sub(20)`. -/
def v4PayloadStart (ip : Bytes) : Nat := 20 + (v4Ihl ip * 4 - 20)
/-- `Ipv4Packet::payload()`: `total_length.saturating_sub(ihl*4)` bytes from the start, clipped. -/
def v4Payload (ip : Bytes) : Bytes :=
  if ip.length ≤ v4PayloadStart ip then []
  else (ip.take (min (v4PayloadStart ip + (v4TotalLen ip - v4Ihl ip * 4)) ip.length)).drop
        (v4PayloadStart ip)

def v6PayloadLen (ip : Bytes) : Nat := be16 ip 4
def v6NextHeader (ip : Bytes) : Nat := byte ip 6
/-- `Ipv6Packet::payload()`: `payload_length` bytes from offset 40, clipped. -/
def v6Payload (ip : Bytes) : Bytes :=
  if ip.length ≤ 40 then [] else (ip.take (min (40 + v6PayloadLen ip) ip.length)).drop 40

def Located.proto (l : Located) : Nat :=
  match l.ver with | .v4 => v4Proto l.ip | .v6 => v6NextHeader l.ip
def Located.payload (l : Located) : Bytes :=
  match l.ver with | .v4 => v4Payload l.ip | .v6 => v6Payload l.ip
def Located.src (l : Located) : Bytes :=
  match l.ver with | .v4 => slice l.ip 12 4 | .v6 => slice l.ip 8 16
def Located.dst (l : Located) : Bytes :=
  match l.ver with | .v4 => slice l.ip 16 4 | .v6 => slice l.ip 24 16

def tcpSrcPort (t : Bytes) : Nat := be16 t 0
def tcpDstPort (t : Bytes) : Nat := be16 t 2
def tcpDataOff (t : Bytes) : Nat := byte t 12 / 16
def tcpFlags (t : Bytes) : Nat := byte t 13
/-- `TcpPacket::payload()`: from `20 + tcp_options_length` to the end of the slice. -/
def tcpPayload (t : Bytes) : Bytes :=
  let s := 20 + (if 5 < tcpDataOff t then tcpDataOff t * 4 - 20 else 0)
  if t.length ≤ s then [] else t.drop s

/-! ### endpoints -/

/-- Source / destination as raw address bytes (4 or 16) and ports. -/
structure Ep where
  ver : IpVer
  src : Bytes
  dst : Bytes
  sp  : Nat
  dp  : Nat
  deriving DecidableEq, Repr

def mkAddr (v : IpVer) (b : Bytes) : Addr :=
  match v with | .v4 => .v4 (beNat b) | .v6 => .v6 (beNat b)

/-- `FilterConfig::should_process(&src, &dst, sp, dp)` on an endpoint tuple (model of C14). -/
def Ep.admittedBy (e : Ep) (c : Config) : Bool :=
  c.shouldProcess (mkAddr e.ver e.src) (mkAddr e.ver e.dst) e.sp e.dp

def Ep.swap (e : Ep) : Ep := { e with src := e.dst, dst := e.src, sp := e.dp, dp := e.sp }

/-! ### what the analyzers see -/

inductive Analyzer | tcp | http | tls
  deriving DecidableEq, Repr

/-- The decoded frame an analyzer works on: link/IP decode plus the TCP segment pnet hands over. -/
structure View where
  loc : Located
  tcp : Bytes
  deriving DecidableEq, Repr

def View.ep (v : View) : Ep :=
  ⟨v.loc.ver, v.loc.src, v.loc.dst, tcpSrcPort v.tcp, tcpDstPort v.tcp⟩

/-- Common part of the three `process.rs`: `parse_packet`, protocol must be TCP (6), and
`TcpPacket::new(ip.payload())` must succeed (20 bytes). Otherwise the packet is dropped with an
error / an empty result before any state is consulted. -/
def baseView (p : Bytes) : Option View :=
  match parsePacket p with
  | none => none
  | some l =>
    if l.proto ≠ 6 then none
    else if l.payload.length < 20 then none
    else some ⟨l, l.payload⟩

/-- `tcp_process::is_valid(flags, flags & (SYN|ACK|FIN|RST))`. -/
def tcpFlagsValid (f : Nat) : Bool :=
  let fin := f % 2 = 1
  let syn := f / 2 % 2 = 1
  let rst := f / 4 % 2 = 1
  let ack := f / 16 % 2 = 1
  !((syn && (fin || rst)) || (fin && rst) || !(fin || syn || rst || ack))

/-- Per-analyzer gates passed before the first access to connection state:
TCP — `process_tcp_ipv4`: no fragment (offset 0 and MF clear), `visit_tcp`: `is_valid(flags)`;
HTTP — none (`process_tcp_packet` looks the flow up right away);
TLS — `process_tcp_packet`: the TCP payload is not empty. -/
def gate : Analyzer → View → Bool
  | .tcp, v =>
    (match v.loc.ver with
      | .v4 => decide (v4FragOff v.loc.ip = 0) && decide (v4Flags v.loc.ip % 2 = 0)
      | .v6 => true) && tcpFlagsValid (tcpFlags v.tcp)
  | .http, _ => true
  | .tls, v => !(tcpPayload v.tcp).isEmpty

def analyzerView (a : Analyzer) (p : Bytes) : Option View :=
  match baseView p with
  | none => none
  | some v => if gate a v then some v else none

/-- Source and destination the analyzer reports (and keys its flow state by) for this frame;
`none` when the frame is discarded before any state is touched. -/
def analyzerEndpoints (a : Analyzer) (p : Bytes) : Option Ep :=
  (analyzerView a p).map View.ep

/-! ### raw_filter.rs -/

/-- `ihl.saturating_mul(4).max(20)`: where pnet places the IPv4 payload (fix 68f354c; raw filter
and the HTTP/TLS hashers). -/
def v4PortOff (ip : Bytes) : Nat := max (v4Ihl ip * 4) 20

/-- `extract_ipv4_info`: 20 bytes, protocol 6, ports at `max(ihl*4, 20)` (4 bytes must be there). -/
def extractV4 (ip : Bytes) : Option Ep :=
  if ip.length < 20 then none
  else if byte ip 9 ≠ 6 then none
  else if ip.length < v4PortOff ip + 4 then none
  else some ⟨.v4, slice ip 12 4, slice ip 16 4, be16 ip (v4PortOff ip), be16 ip (v4PortOff ip + 2)⟩

/-- `extract_ipv6_info`: 40 bytes, next header 6, ports at 40 (44 bytes must be there). -/
def extractV6 (ip : Bytes) : Option Ep :=
  if ip.length < 40 then none
  else if byte ip 6 ≠ 6 then none
  else if ip.length < 44 then none
  else some ⟨.v6, slice ip 8 16, slice ip 24 16, be16 ip 40, be16 ip 42⟩

def rfEthernet (p : Bytes) : Option Ep :=
  if p.length < 14 then none
  else if be16 p 12 = 0x0800 then extractV4 (p.drop 14)
  else if be16 p 12 = 0x86DD then extractV6 (p.drop 14)
  else none

def rfRawIp (p : Bytes) : Option Ep :=
  if p.length = 0 then none
  else if byte p 0 / 16 = 4 then extractV4 p
  else if byte p 0 / 16 = 6 then extractV6 p
  else none

/-- `u32::from_ne_bytes` of the first four bytes on a little-endian target (x86-64, aarch64 —
the targets the harness runs on; a big-endian build would read the family from byte 3). -/
def nullFamily (p : Bytes) : Nat :=
  byte p 0 + 256 * byte p 1 + 65536 * byte p 2 + 16777216 * byte p 3

/-- `try_null_datalink`: the loopback header `1e 00 xx xx` exactly as packet_parser accepts it
(version from the first nibble of the IP header; fix 1765a5f), else the native-endian family. -/
def rfNull (p : Bytes) : Option Ep :=
  if p.length < 4 then none
  else if byte p 0 = 0x1e ∧ byte p 1 = 0 ∧ 4 < p.length then
    (if byte p 4 / 16 = 4 then extractV4 (p.drop 4)
     else if byte p 4 / 16 = 6 then extractV6 (p.drop 4)
     else none)
  else if nullFamily p = 2 then extractV4 (p.drop 4)
  else if nullFamily p = 30 ∨ nullFamily p = 28 then extractV6 (p.drop 4)
  else none

/-- `extract_quick_info`: first strategy that yields something. -/
def rawFilterExtract (p : Bytes) : Option Ep :=
  match rfEthernet p with
  | some e => some e
  | none =>
    match rfRawIp p with
    | some e => some e
    | none => rfNull p

/-- `raw_filter::apply`: fail-open when nothing can be extracted. -/
def rawFilterApply (c : Config) (p : Bytes) : Bool :=
  match rawFilterExtract p with
  | some e => e.admittedBy c
  | none => true

/-! ### the per-packet loop of lib.rs (`process_sequential` / `process_packet`)

Generic in the analyzer: `step` is everything after the filter test. A result is `none` when the
analyzer has nothing to report for the packet (sequential mode sends an empty struct, parallel
mode nothing: both are "no result"). -/

/-- One packet: the filter is consulted first; a rejected packet does not reach `step`. -/
def stepFiltered {σ ρ} (step : σ → Bytes → σ × Option ρ) (f : Option Config)
    (s : σ) (p : Bytes) : σ × Option ρ :=
  match f with
  | some c => if rawFilterApply c p then step s p else (s, none)
  | none => step s p

/-- The whole trace; returns the final state and the per-packet results in order. -/
def run {σ ρ} (step : σ → Bytes → σ × Option ρ) (f : Option Config) :
    σ → List Bytes → σ × List (Option ρ)
  | s, [] => (s, [])
  | s, p :: tr =>
    let (s', r) := stepFiltered step f s p
    let (s'', rs) := run step f s' tr
    (s'', r :: rs)

/-- The non-empty results, in order. -/
def results {ρ} (rs : List (Option ρ)) : List ρ := rs.filterMap id

/-! ### packet_hash.rs -/

/-- What is fed to `DefaultHasher`: one byte slice (`[u8]::hash`) or the four flow fields in the
order they are hashed (two slices, two `u16`). -/
inductive HashIn
  | bytes (b : Bytes)
  | flow (a b : Bytes) (p q : Nat)
  deriving DecidableEq, Repr

/-- Where each framing puts the IP header. -/
def Framing.offset : Framing → Nat
  | .eth => 14
  | .raw => 0
  | .null => 4

/-! `locate_ip` (textually identical in the three hashers, checked by `ex_wire.py`; fix C18): the
three strategies of `parse_packet` in the same order with the same length guards, returning the offset
of the IP header and the IP version the parser decides on. Written as the Rust is written (guards on
`packet.len()`, not on the remaining slice), *not* by calling `parsePacket`: that the two agree on every
byte string is theorem `locateIp_eq_parse` (Lemmas/Wire.lean). -/

/-- `if packet.len() >= 14 { match be16(12) { 0x0800 if len >= 34 => …, 0x86DD if len >= 54 => …, _ => {} } }` -/
def locEth (p : Bytes) : Option (Nat × IpVer) :=
  if p.length < 14 then none
  else if be16 p 12 = 0x0800 ∧ 34 ≤ p.length then some (14, .v4)
  else if be16 p 12 = 0x86DD ∧ 54 ≤ p.length then some (14, .v6)
  else none

/-- `if packet.len() >= 20 { match packet[0] >> 4 { 4 => …, 6 if len >= 40 => …, _ => {} } }` -/
def locRaw (p : Bytes) : Option (Nat × IpVer) :=
  if p.length < 20 then none
  else if byte p 0 / 16 = 4 then some (0, .v4)
  else if byte p 0 / 16 = 6 ∧ 40 ≤ p.length then some (0, .v6)
  else none

/-- `if packet.len() >= 24 && packet[0] == 0x1e && packet[1] == 0x00 { match packet[4] >> 4 { 4 => …,
6 if len >= 44 => …, _ => {} } }` -/
def locNull (p : Bytes) : Option (Nat × IpVer) :=
  if p.length < 24 ∨ byte p 0 ≠ 0x1e ∨ byte p 1 ≠ 0 then none
  else if byte p 4 / 16 = 4 then some (4, .v4)
  else if byte p 4 / 16 = 6 ∧ 44 ≤ p.length then some (4, .v6)
  else none

def locateIp (p : Bytes) : Option (Nat × IpVer) :=
  match locEth p with
  | some r => some r
  | none =>
    match locRaw p with
    | some r => some r
    | none => locNull p

/-- TCP `hash_source_ip`: source address bytes of the located IP header, else the whole frame. -/
def hashInputTcp (p : Bytes) : HashIn :=
  match locateIp p with
  | none => .bytes p
  | some (off, .v4) =>
    let ip := p.drop off
    if 16 ≤ ip.length then .bytes (slice ip 12 4) else .bytes p
  | some (off, .v6) =>
    let ip := p.drop off
    if 24 ≤ ip.length then .bytes (slice ip 8 16) else .bytes p

/-- lexicographic comparison of byte slices (`<[u8] as Ord>::cmp`). -/
def bytesCmp : Bytes → Bytes → Ordering
  | [], [] => .eq
  | [], _ :: _ => .lt
  | _ :: _, [] => .gt
  | x :: xs, y :: ys =>
    match compare x.toNat y.toNat with
    | .lt => .lt
    | .gt => .gt
    | .eq => bytesCmp xs ys

/-- `(a, p) <= (b, q)` on `(&[u8], u16)` tuples. -/
def endLe (a : Bytes) (p : Nat) (b : Bytes) (q : Nat) : Bool :=
  match bytesCmp a b with
  | .lt => true
  | .gt => false
  | .eq => decide (p ≤ q)

/-- the canonically ordered flow fed to the hasher by the HTTP hasher (after commit 55cc16a). -/
def canonFlow (s d : Bytes) (sp dp : Nat) : HashIn :=
  if endLe s sp d dp then .flow s d sp dp else .flow d s dp sp

def hashV4FlowHttp (ip : Bytes) : HashIn :=
  if ip.length < 20 then .bytes ip
  else if byte ip 9 ≠ 6 then .bytes (slice ip 12 4)
  else if ip.length < v4PortOff ip + 4 then .bytes (slice ip 12 4)
  else canonFlow (slice ip 12 4) (slice ip 16 4) (be16 ip (v4PortOff ip)) (be16 ip (v4PortOff ip + 2))

def hashV6FlowHttp (ip : Bytes) : HashIn :=
  if ip.length < 40 then .bytes ip
  else if byte ip 6 ≠ 6 then .bytes (slice ip 8 16)
  else if ip.length < 44 then .bytes (slice ip 8 16)
  else canonFlow (slice ip 8 16) (slice ip 24 16) (be16 ip 40) (be16 ip 42)

/-- HTTP `hash_flow`. -/
def hashInputHttp (p : Bytes) : HashIn :=
  match locateIp p with
  | none => .bytes p
  | some (off, ver) =>
    if p.length < off + 40 then .bytes p
    else
      match ver with
      | .v4 => hashV4FlowHttp (p.drop off)
      | .v6 => hashV6FlowHttp (p.drop off)

def hashV4FlowTls (ip : Bytes) : Option HashIn :=
  if ip.length < 20 then none
  else if byte ip 9 ≠ 6 then none
  else if ip.length < v4PortOff ip + 4 then none
  else some (.flow (slice ip 12 4) (slice ip 16 4) (be16 ip (v4PortOff ip)) (be16 ip (v4PortOff ip + 2)))

def hashV6FlowTls (ip : Bytes) : Option HashIn :=
  if ip.length < 40 then none
  else if byte ip 6 ≠ 6 then none
  else if ip.length < 44 then none
  else some (.flow (slice ip 8 16) (slice ip 24 16) (be16 ip 40) (be16 ip 42))

/-- TLS `hash_flow`: `None` = the dispatcher discards the frame. -/
def hashInputTls (p : Bytes) : Option HashIn :=
  match locateIp p with
  | none => none
  | some (off, ver) =>
    if p.length < off + 40 then none
    else
      match ver with
      | .v4 => hashV4FlowTls (p.drop off)
      | .v6 => hashV6FlowTls (p.drop off)

/-- `h.checked_rem(n).unwrap_or(0)`. -/
def remOr0 (h n : Nat) : Nat := if n = 0 then 0 else h % n

/-- Worker index, for an arbitrary hash function `H` (TCP: `parallel.rs` takes
`hash_source_ip(p).checked_rem(n)`, HTTP/TLS: inside `hash_flow`). -/
def workerTcp (H : HashIn → Nat) (n : Nat) (p : Bytes) : Nat := remOr0 (H (hashInputTcp p)) n
def workerHttp (H : HashIn → Nat) (n : Nat) (p : Bytes) : Nat := remOr0 (H (hashInputHttp p)) n
def workerTls (H : HashIn → Nat) (n : Nat) (p : Bytes) : Option Nat :=
  (hashInputTls p).map (fun i => remOr0 (H i) n)

end Huginn.Wire
