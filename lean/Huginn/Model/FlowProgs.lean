import Huginn.Model.Flow
import Huginn.Model.HttpFlow
import Huginn.Gen.FlowTtl
/-
Per-packet cache programs of the three stateful analyzers, mirroring the `TtlCache` traffic of
  * huginn-net-tcp/src/uptime.rs        `check_ts_tcp`
  * huginn-net-tls/src/process.rs       `process_tcp_packet`
  * huginn-net-http/src/http_process.rs `process_tcp_packet`
with everything that is not flow-table logic as a parameter (frequency estimation, the
ClientHello reader, the HTTP parsers). Addresses are opaque (`Ep` = address + port).
-/
namespace Huginn.FlowProgs
open Huginn.Flow

abbrev Bytes := List UInt8

structure Ep where
  addr : Nat          -- opaque address value (v4/v6 tagged by the caller)
  port : Nat
  deriving DecidableEq, Repr

/-- What every TCP segment looks like to the flow logic. -/
structure Seg where
  src : Ep
  dst : Ep
  seq : Nat
  syn : Bool
  ack : Bool
  fin : Bool
  rst : Bool
  payload : Bytes
  time : Nat            -- arrival instant on the cache's monotonic clock (`Instant`), ms
  wall : Nat            -- arrival instant on the wall clock (`SystemTime`) used by the uptime tracker, ms
  tsval : Option Nat    -- TCP timestamp option value, when present with ≥ 8 bytes
  deriving Repr

/-! ### TCP uptime tracker (`check_ts_tcp`) -/

structure TcpKey where
  src : Ep
  dst : Ep
  isClient : Bool
  deriving DecidableEq, Repr

structure TsEntry where
  tsVal : Nat
  recvMs : Nat
  bad : Bool
  deriving Repr

structure UptimeParams (U : Type) where
  /-- `calculate_frequency_p0f_style` + rounding + `calculate_uptime_from_frequency`:
  `none` = the error branch. Arguments: current (ts, ms), reference (ts, ms). -/
  estimate : Nat → Nat → Nat → Nat → Option U
  ttlMs : Nat := Huginn.Gen.FlowTtl.tcpTtlSecs * 1000     -- regenerated from uptime.rs

inductive UptimeOut (U : Type)
  | none
  | client (u : U)
  | server (u : U)
  deriving Repr

/-- `is_packet_from_client` is a parameter of the segment view: the caller computes `fromClient`. -/
def tcpProg {U : Type} (P : UptimeParams U) (fromClient : Seg → Bool) (s : Seg) :
    Prog TcpKey TsEntry Unit Unit (UptimeOut U) :=
  match s.tsval with
  | none => .ret .none
  | some ts =>
    let key : TcpKey := ⟨s.src, s.dst, fromClient s⟩
    .get key fun r =>
      match r with
      | some ref =>
        if ref.bad then .ret .none
        else match P.estimate ts s.wall ref.tsVal ref.recvMs with
          | some u => .ret (if fromClient s then .client u else .server u)
          | none => .insert key ⟨0, 0, true⟩ P.ttlMs (.ret .none)
      | none => .insert key ⟨ts, s.wall, false⟩ P.ttlMs (.ret .none)

/-! ### TLS (`huginn-net-tls/src/process.rs`) -/

structure FlowKey where
  src : Ep
  dst : Ep
  deriving DecidableEq, Repr

inductive AddRes (S : Type)
  | sig (s : S)
  | pending
  | err

structure TlsParams (R S : Type) where
  newReader : R
  addBytes : R → Bytes → R × AddRes S     -- `TlsClientHelloReader::add_bytes` (mutates the reader)
  isTls : Bytes → Bool                    -- `is_tls_traffic`
  ttlMs : Nat := Huginn.Gen.FlowTtl.tlsTtlSecs * 1000     -- regenerated from process.rs

/-- With the flow's reader in hand: `reader.add_bytes` mutates the reader in place; on success or
error the flow is removed right after, so the table ends up as after a plain `remove` (the transient
write is not modelled). -/
def tlsWithReader {R S : Type} (P : TlsParams R S) (key : FlowKey) (payload : Bytes) (r : R) :
    Prog FlowKey R Unit Unit (Option S) :=
  match P.addBytes r payload with
  | (_, .sig x) => .remove key (.ret (some x))
  | (r', .pending) => .set key r' (.ret none)
  | (_, .err) => .remove key (.ret none)

def tlsBody {R S : Type} (P : TlsParams R S) (s : Seg) :
    Prog FlowKey R Unit Unit (Option S) :=
  let key : FlowKey := ⟨s.src, s.dst⟩
  if s.payload.isEmpty then .ret none else
  .get key fun active =>                       -- contains_key
    if !(active.isSome || P.isTls s.payload) then .ret none else
    .get key fun r =>                          -- get_mut
      match r with
      | some r => tlsWithReader P key s.payload r
      | none =>
        .insert key P.newReader P.ttlMs <|
          .get key fun r =>
            match r with
            | some r => tlsWithReader P key s.payload r
            | none => .ret none                -- "Failed to retrieve flow after insert" → Err → no result

/-- `process_tcp_packet`: a SYN starts a new connection, so the reader an earlier connection on the same
4-tuple left behind is dropped first (`tcp_flows.remove(&flow_key)`), then the segment is handled. -/
def tlsProg {R S : Type} (P : TlsParams R S) (s : Seg) :
    Prog FlowKey R Unit Unit (Option S) :=
  if s.syn then .remove ⟨s.src, s.dst⟩ (tlsBody P s) else tlsBody P s

/-- `TlsClientHelloReader`: buffer and the "signature already parsed" flag. -/
structure Reader where
  buf : Bytes := []
  done : Bool := false
  deriving Repr

/-- `TlsClientHelloReader::add_bytes` with the ClientHello parser as a parameter
(`parse` gets `buffer[..needed]`). -/
def readerAdd {S : Type} (parse : Bytes → AddRes S) (r : Reader) (data : Bytes) : Reader × AddRes S :=
  if r.done then (r, .pending) else
  let buf := r.buf ++ data
  if buf.length < 5 then ({ buf := buf }, .pending) else
  let needed := (buf.getD 3 0).toNat * 256 + (buf.getD 4 0).toNat + 5
  if buf.getD 0 0 != 0x16 then ({}, .pending) else          -- discarded (fix c9b8c8f)
  if buf.length < needed then ({ buf := buf }, .pending) else
  if needed > 64 * 1024 then ({}, .err) else
  match parse (buf.take needed) with
  | .sig x => ({ buf := buf.drop needed, done := true }, .sig x)
  | .pending => ({}, .pending)                                -- not a ClientHello: reset
  | .err => ({ buf := buf }, .err)

/-- The TLS analyzer with the real reader logic (parser still a parameter). -/
def tlsParamsOf {S : Type} (parse : Bytes → AddRes S) (isTls : Bytes → Bool) : TlsParams Reader S :=
  { newReader := {}, addBytes := readerAdd parse, isTls := isTls }

/-! ### HTTP (`huginn-net-http/src/http_process.rs`) -/

/-- `TcpData { sequence, data }` — the segment record of Model/HttpFlow.lean (C09's model), so that
`get_full_data` is one definition for C07/C09/C10/C11. -/
abbrev TcpData := Huginn.HttpFlow.Seg

structure TcpFlow where
  client : Ep
  server : Ep
  clientData : List TcpData
  serverData : List TcpData
  clientParsed : Bool
  serverParsed : Bool
  clientIsn : Nat              -- sequence number of the SYN that opened the flow
  serverIsn : Option Nat       -- sequence number of the server's SYN-ACK, once seen
  deriving Repr

/-- `TcpFlow::get_full_data` (fix C09-1): segments ordered by their offset from ISN+1 modulo 2^32,
the gap-free run from the first byte, bytes already present skipped — `HttpFlow.fullData`. -/
def fullData (isn : Option Nat) (ds : List TcpData) : Bytes := Huginn.HttpFlow.fullData isn ds

/-- Parser results observed by the flow logic. The processors may carry state `γ`
(the HPACK decoder of `Http2Parser`). -/
inductive PRes (Q P : Type)
  | req (r : Option Q)
  | resp (r : Option P)

structure HttpParams (γ Q P : Type) where
  parseReq : γ → Bytes → γ × Option Q
  parseResp : γ → Bytes → γ × Option P
  ttlMs : Nat := Huginn.Gen.FlowTtl.httpTtlSecs * 1000    -- regenerated from http_process.rs
  maxHead : Nat := 64 * 1024      -- MAX_BUFFERED_HEAD_BYTES

structure HttpOut (Q P : Type) where
  req : Option Q := none
  resp : Option P := none

/-- `has_complete_http_data` then `parse_http_request`: three parser invocations at most. -/
def httpTryReq {γ Q P : Type} (H : HttpParams γ Q P) (full : Bytes)
    (k : Option Q → Prog FlowKey TcpFlow γ (PRes Q P) (HttpOut Q P)) :
    Prog FlowKey TcpFlow γ (PRes Q P) (HttpOut Q P) :=
  if full.length < 4 then k none else
  .glob (fun g => let (g', r) := H.parseReq g full; (g', .req r)) fun r1 =>
    let goParse : Prog FlowKey TcpFlow γ (PRes Q P) (HttpOut Q P) :=
      .glob (fun g => let (g', r) := H.parseReq g full; (g', .req r)) fun r3 =>
        match r3 with | .req q => k q | .resp _ => k none
    match r1 with
    | .req (some _) => goParse
    | _ =>
      .glob (fun g => let (g', r) := H.parseResp g full; (g', .resp r)) fun r2 =>
        match r2 with
        | .resp (some _) => goParse
        | _ => k none

def httpTryResp {γ Q P : Type} (H : HttpParams γ Q P) (full : Bytes)
    (k : Option P → Prog FlowKey TcpFlow γ (PRes Q P) (HttpOut Q P)) :
    Prog FlowKey TcpFlow γ (PRes Q P) (HttpOut Q P) :=
  if full.length < 4 then k none else
  .glob (fun g => let (g', r) := H.parseReq g full; (g', .req r)) fun r1 =>
    let goParse : Prog FlowKey TcpFlow γ (PRes Q P) (HttpOut Q P) :=
      .glob (fun g => let (g', r) := H.parseResp g full; (g', .resp r)) fun r3 =>
        match r3 with | .resp q => k q | .req _ => k none
    match r1 with
    | .req (some _) => goParse
    | _ =>
      .glob (fun g => let (g', r) := H.parseResp g full; (g', .resp r)) fun r2 =>
        match r2 with
        | .resp (some _) => goParse
        | _ => k none

/-- After the data handling: early removal when both sides are parsed, else removal on FIN/RST.
`rmKey` is the key the code passes to `remove`: `stored_key`, the key the flow is stored under. -/
def httpFinish {γ Q P : Type} (rmKey : FlowKey) (f : TcpFlow) (s : Seg) (o : HttpOut Q P) :
    Prog FlowKey TcpFlow γ (PRes Q P) (HttpOut Q P) :=
  if f.clientParsed && f.serverParsed then .remove rmKey (.ret o)
  else if s.fin || s.rst then .remove rmKey (.ret o)
  else .ret o

/-- Payload bytes held in one direction's segment list (`buffered_len`). -/
def sumLen (ds : List TcpData) : Nat := (ds.map (fun d => d.data.length)).sum

/-- The data handling of `process_tcp_packet` once the flow is in hand (and a SYN-ACK's sequence
number noted). The 64 KiB limit is on the bytes *stored* for the direction (every pushed segment,
whether or not it is part of the gap-free run `get_full_data` returns). -/
def httpBody {γ Q P : Type} (H : HttpParams γ Q P) (stored : FlowKey) (isClient : Bool)
    (f : TcpFlow) (s : Seg) : Prog FlowKey TcpFlow γ (PRes Q P) (HttpOut Q P) :=
  if s.payload.isEmpty then .ret {} else
  let d : TcpData := ⟨s.seq, s.payload⟩
  if isClient && s.src = f.client then
    if !f.clientParsed then
      let f1 := { f with clientData := f.clientData ++ [d] }
      if sumLen f1.clientData > H.maxHead then
        -- no head within the limit: the direction is abandoned
        let f2 := { f1 with clientData := [], clientParsed := true }
        .set stored f2 (httpFinish stored f2 s {})
      else
        let full := fullData (some f1.clientIsn) f1.clientData
        .set stored f1 <|
          httpTryReq H full fun q =>
            match q with
            | some q =>
              let f2 := { f1 with clientParsed := true }
              .set stored f2 (httpFinish stored f2 s { req := some q })
            | none => httpFinish stored f1 s {}
    else httpFinish stored f s {}
  else if s.src = f.server then
    if !f.serverParsed then
      let f1 := { f with serverData := f.serverData ++ [d] }
      if sumLen f1.serverData > H.maxHead then
        let f2 := { f1 with serverData := [], serverParsed := true }
        .set stored f2 (httpFinish stored f2 s {})
      else
        -- `get_full_data(is_client)`: the code passes `is_client` (false here unless the lookup by the
        -- packet's own key hit, in which case the client branch was taken above or the source differs
        -- from the stored client)
        let full := if isClient then fullData (some f1.clientIsn) f1.clientData
                    else fullData f1.serverIsn f1.serverData
        .set stored f1 <|
          httpTryResp H full fun r =>
            match r with
            | some r =>
              let f2 := { f1 with serverParsed := true }
              .set stored f2 (httpFinish stored f2 s { resp := some r })
            | none => httpFinish stored f1 s {}
    else httpFinish stored f s {}
  else httpFinish stored f s {}

/-- A SYN-flagged segment of the reverse direction gives the server's initial sequence number
(written through `get_mut`, before the payload is looked at). -/
def httpWithFlow {γ Q P : Type} (H : HttpParams γ Q P) (stored : FlowKey) (isClient : Bool)
    (f : TcpFlow) (s : Seg) : Prog FlowKey TcpFlow γ (PRes Q P) (HttpOut Q P) :=
  if s.syn && !isClient && f.serverIsn.isNone then
    let f' := { f with serverIsn := some s.seq }
    .set stored f' (httpBody H stored isClient f' s)
  else httpBody H stored isClient f s

def httpDispatch {γ Q P : Type} (H : HttpParams γ Q P) (s : Seg) :
    Prog FlowKey TcpFlow γ (PRes Q P) (HttpOut Q P) :=
  let key : FlowKey := ⟨s.src, s.dst⟩
  let rkey : FlowKey := ⟨s.dst, s.src⟩
  .get key fun f =>
    match f with
    | some f => httpWithFlow H key true f s
    | none =>
      .get rkey fun f =>
        match f with
        | some f => httpWithFlow H rkey false f s
        | none =>
          if s.syn then
            -- `TcpFlow::init`: data carried by the SYN starts one past the initial sequence number
            .insert key ⟨s.src, s.dst, [⟨Huginn.HttpFlow.wadd s.seq 1, s.payload⟩], [], false, false, s.seq, none⟩ H.ttlMs (.ret {})
          else .ret {}

/-- `process_tcp_packet`: a SYN without ACK opens a connection; a flow still stored for the 4-tuple (either
direction) that was not opened by this very SYN (a retransmission carries the same sequence number) belongs to
an earlier connection and is dropped first; then the segment is dispatched. -/
def httpProg {γ Q P : Type} (H : HttpParams γ Q P) (s : Seg) :
    Prog FlowKey TcpFlow γ (PRes Q P) (HttpOut Q P) :=
  if s.syn && !s.ack then
    .get ⟨s.src, s.dst⟩ fun f =>
      if (f.map (·.clientIsn)) == some s.seq then httpDispatch H s
      else .remove ⟨s.src, s.dst⟩ (.remove ⟨s.dst, s.src⟩ (httpDispatch H s))
  else httpDispatch H s

/-- HTTP connection identity: the unordered endpoint pair. -/
def Ep.le (a b : Ep) : Bool := a.addr < b.addr || (a.addr == b.addr && a.port ≤ b.port)

def connOf (a b : Ep) : Ep × Ep := if Ep.le a b then (a, b) else (b, a)

def httpConnOfKey (k : FlowKey) : Ep × Ep := connOf k.src k.dst
def httpConnOf (s : Seg) : Ep × Ep := connOf s.src s.dst

/-! ### The three analyzers -/

def tcpAnalyzer {U : Type} (P : UptimeParams U) (fc : Seg → Bool) :
    Analyzer TcpKey TsEntry Unit Unit Seg (UptimeOut U) := ⟨tcpProg P fc, Seg.time⟩

def tlsAnalyzer {R S : Type} (P : TlsParams R S) :
    Analyzer FlowKey R Unit Unit Seg (Option S) := ⟨tlsProg P, Seg.time⟩

def httpAnalyzer {γ Q P : Type} (H : HttpParams γ Q P) :
    Analyzer FlowKey TcpFlow γ (PRes Q P) Seg (HttpOut Q P) := ⟨httpProg H, Seg.time⟩

def tcpKeyOf (fc : Seg → Bool) (s : Seg) : TcpKey := ⟨s.src, s.dst, fc s⟩
def flowKeyOf (s : Seg) : FlowKey := ⟨s.src, s.dst⟩

/-! ### size and work measures (C11) -/

/-- Payload bytes a flow retains. -/
def TcpFlow.bytes (f : TcpFlow) : Nat := sumLen f.clientData + sumLen f.serverData

/-- Bytes copied, sorted, concatenated or handed to a parser for one segment, given the flow found
for it (`none`: no flow) and whether it was found under the packet's own key.
Per parser invocation and per concatenation: the length of the buffer; `has_complete_http_data`
plus the parse proper make at most three invocations. -/
def httpWork (maxHead : Nat) (f : Option TcpFlow) (isClient : Bool) (s : Seg) : Nat :=
  match f with
  | none => s.payload.length                      -- a SYN stores its payload
  | some f =>
    if s.payload.isEmpty then 0 else
    if isClient && s.src = f.client then
      if !f.clientParsed then
        let full := sumLen f.clientData + s.payload.length
        s.payload.length + full + (if full > maxHead then 0 else 3 * full)
      else 0
    else if s.src = f.server then
      if !f.serverParsed then
        let full := sumLen (if isClient then f.clientData else f.serverData) + s.payload.length
        s.payload.length + full + (if full > maxHead then 0 else 3 * full)
      else 0
    else 0

/-- TLS: append the payload; parse at most one record prefix of at most 64 KiB + 5. -/
def tlsWork (r : Option Reader) (s : Seg) : Nat :=
  s.payload.length + (match r with
    | some r => if r.done then 0 else min (r.buf.length + s.payload.length) (64 * 1024 + 4)
    | none => min s.payload.length (64 * 1024 + 4))

end Huginn.FlowProgs
