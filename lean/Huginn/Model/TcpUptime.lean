import Huginn.Model.TcpExtract
import Huginn.Model.Uptime
/-!
Glue between the packet processor and the uptime tracker: the `TIMESTAMPS` arm of `visit_tcp`
(`check_ts_tcp(connection_tracker, &connection, is_from_client, ts_val)` for every timestamp option
with at least 8 payload bytes; the last call's result is kept) and the `client_uptime` /
`server_uptime` outputs of `process.rs`.
-/
namespace Huginn.TcpUptime
open Huginn.TcpExtract Huginn.Uptime

def natOfBytes (b : List Nat) : Nat := b.foldl (fun acc x => acc * 256 + x) 0

/-- `(source, destination)` as the pnet accessors return them -/
def addrs (v6 : Bool) (b : Bytes) : Addr × Addr :=
  if v6 then ((true, natOfBytes ((b.drop 8).take 16)), (true, natOfBytes ((b.drop 24).take 16)))
  else ((false, natOfBytes ((b.drop 12).take 4)), (false, natOfBytes ((b.drop 16).take 4)))

def feed (c : Cache) (mono wall : Nat) (conn : Conn) : List (Bool × Nat) → Out → Cache × Out × List String
  | [], last => (c, last, [])
  | (fc, ts) :: rest, _ =>
    let r := checkTsT c mono wall conn fc ts
    let r2 := feed r.1 mono wall conn rest r.2.1
    (r2.1, r2.2.1, r.2.2 :: r2.2.2)

/-- `process_ipv4_packet` / `process_ipv6_packet` with a shared tracker: outcome of C03 plus the
uptime outputs; `none` = pnet refuses the buffer. -/
def processPacket (c : Cache) (mono wall : Nat) (v6 : Bool) (b : Bytes) : Cache × Option (Outcome × Out × List String) :=
  match decodeFields v6 b with
  | none => (c, none)
  | some (.error e) => (c, some (.error e, {}, []))
  | some (.ok f) =>
    match process f with
    | .error e => (c, some (.error e, {}, []))
    | .ok r =>
      let (s, d) := addrs v6 b
      let conn : Conn := { src := s, sport := f.tcp.sport, dst := d, dport := f.tcp.dport }
      let x := feed c mono wall conn r.tsCalls {}
      (x.1, some (.ok r, x.2.1, x.2.2))

end Huginn.TcpUptime
