import Huginn.Gen.HttpLists
/-
Model of huginn-net-http/src/http_process.rs (C09): `TcpFlow` (init on SYN, per-direction segment
lists and initial sequence numbers, `get_full_data` = stable sort by the offset from ISN+1 modulo 2^32 and the
gap-free, duplicate-free run from the first byte),
`has_complete_http_data`, `process_tcp_packet` (flow lookup by key / reversed key, when parsing is
attempted, at-most-once flags, the 64 KiB cap on the bytes *stored* per direction (`buffered_len`), flow removal under the stored key on
"both parsed" and on FIN/RST).

Parameters (not modelled here):
  * the two parsers `HttpProcessors::parse_request` / `parse_response` — a structure `Parsers`
    (C05 models the HTTP/1.x side; the driver instantiates `Parsers` with that model);
  * `ttl_cache::TtlCache` — a finite map without expiry or eviction (`FlowMap`): within a case no
    entry expires (TTL 60 s) and the capacity is never reached. `insert` replaces.
  * pnet's `Ipv4Packet` / `TcpPacket` views — a packet is the record `Pkt` of the fields the code
    reads (addresses, ports, sequence number, flags, payload).
-/
namespace Huginn.HttpFlow
open Huginn.Gen

abbrev Bytes := List UInt8

/-- (client ip, server ip, client port, server port) — `FlowKey` -/
structure FlowKey where
  srcIp : Nat
  dstIp : Nat
  srcPort : Nat
  dstPort : Nat
  deriving DecidableEq, Repr, Inhabited

def FlowKey.rev (k : FlowKey) : FlowKey := ⟨k.dstIp, k.srcIp, k.dstPort, k.srcPort⟩

/-- `TcpData` -/
structure Seg where
  seq : Nat          -- raw u32 sequence number of the segment
  data : Bytes
  deriving DecidableEq, Repr, Inhabited

structure TcpFlow where
  clientIp : Nat
  serverIp : Nat
  clientPort : Nat
  serverPort : Nat
  clientData : List Seg
  serverData : List Seg
  clientParsed : Bool
  serverParsed : Bool
  /-- sequence number of the SYN that opened the flow -/
  clientIsn : Nat
  /-- sequence number of the server's SYN-ACK, once seen -/
  serverIsn : Option Nat
  deriving DecidableEq, Repr, Inhabited

/-- what the code reads of a TCP/IP packet -/
structure Pkt where
  srcIp : Nat
  dstIp : Nat
  srcPort : Nat
  dstPort : Nat
  seq : Nat
  flags : Nat
  payload : Bytes
  deriving DecidableEq, Repr, Inhabited

def Pkt.key (p : Pkt) : FlowKey := ⟨p.srcIp, p.dstIp, p.srcPort, p.dstPort⟩

def FIN : Nat := 1
def SYN : Nat := 2
def RST : Nat := 4
def ACK : Nat := 16
def hasFlag (flags f : Nat) : Bool := (flags / f) % 2 == 1

/-! ### the flow table -/

abbrev FlowMap := List (FlowKey × TcpFlow)

def FlowMap.get : FlowMap → FlowKey → Option TcpFlow
  | [], _ => none
  | (k', v) :: r, k => if k' = k then some v else FlowMap.get r k

def FlowMap.erase (m : FlowMap) (k : FlowKey) : FlowMap := m.filter (fun e => !(e.1 == k))

def FlowMap.set (m : FlowMap) (k : FlowKey) (v : TcpFlow) : FlowMap := (k, v) :: m.erase k

/-! ### get_full_data -/

def M32 : Nat := 4294967296

/-- `u32::wrapping_sub` (irreducible: unfolding `+ 2^32` in definitional-equality checks never ends) -/
@[irreducible] def wsub (a b : Nat) : Nat := (a % M32 + M32 - b % M32) % M32
/-- `u32::wrapping_add` -/
@[irreducible] def wadd (a b : Nat) : Nat := (a + b) % M32

/-- insert before the first element with a key ≥ (stable for an element that arrived earlier) -/
def insertByKey (key : Seg → Nat) (a : Seg) : List Seg → List Seg
  | [] => [a]
  | b :: r => if key a ≤ key b then a :: b :: r else b :: insertByKey key a r

/-- `sort_by_key` (stable) on the arrival-ordered vector -/
def sortByKey (key : Seg → Nat) : List Seg → List Seg
  | [] => []
  | a :: r => insertByKey key a (sortByKey key r)

/-- `data.iter().map(|d| d.sequence).min()` -/
def minSeq : List Seg → Option Nat
  | [] => none
  | s :: r => match minSeq r with
    | none => some s.seq
    | some m => some (min s.seq m)

/-- sequence number of the first stream byte: ISN + 1, or the lowest sequence number seen when the
SYN-ACK was not -/
def baseOf (isn : Option Nat) (segs : List Seg) : Nat :=
  match isn with
  | some i => wadd i 1
  | none => (minSeq segs).getD 0

/-- the gap-free run from offset `next` through segments sorted by offset; bytes already present
(retransmissions, overlaps) are skipped -/
def walk (base : Nat) : List Seg → Nat → Bytes
  | [], _ => []
  | s :: r, next =>
    let off := wsub s.seq base
    if off > next then [] else
    let have_ := next - off
    if have_ < s.data.length then s.data.drop have_ ++ walk base r (wadd next (s.data.length - have_))
    else walk base r next

/-- `TcpFlow::get_full_data` -/
def fullData (isn : Option Nat) (segs : List Seg) : Bytes :=
  let base := baseOf isn segs
  walk base (sortByKey (fun s => wsub s.seq base) (segs.filter (fun s => !s.data.isEmpty))) 0

/-! ### parsers (parameters) -/

structure Parsers (ρ σ : Type) where
  request : Bytes → Option ρ
  response : Bytes → Option σ

/-- `has_complete_http_data` -/
def hasCompleteHttpData {ρ σ} (P : Parsers ρ σ) (d : Bytes) : Bool :=
  if d.length < HttpLists.flowMinLen then false
  else (P.request d).isSome || (P.response d).isSome

def maxBufferedHeadBytes : Nat := HttpLists.flowMaxBuffered

/-- `buffered_len`: bytes stored for one direction (every segment kept, in or out of order) -/
def bufferedLen : List Seg → Nat
  | [] => 0
  | s :: r => s.data.length + bufferedLen r

/-! ### process_tcp_packet -/

inductive Event (ρ σ : Type)
  | opened (k : FlowKey)
  | request (k : FlowKey) (r : ρ)      -- `k`: key the flow is stored under
  | response (k : FlowKey) (s : σ)
  deriving Repr

structure StepOut (ρ σ : Type) where
  map : FlowMap
  request : Option ρ := none
  response : Option σ := none
  /-- ghost: the key of the flow that produced a report / was opened (not observable as such; the
  implementation's output carries the packet's endpoints) -/
  stored : Option FlowKey := none
  opened : Bool := false

/-- client-direction branch: push, rebuild, cap, parse -/
def clientBranch {ρ σ} (P : Parsers ρ σ) (flow : TcpFlow) (seg : Seg) : TcpFlow × Option ρ :=
  if flow.clientParsed then (flow, none) else
  let data := flow.clientData ++ [seg]
  if bufferedLen data > maxBufferedHeadBytes then
    ({ flow with clientData := [], clientParsed := true }, none)
  else
  let full := fullData (some flow.clientIsn) data
  if hasCompleteHttpData P full then
    match P.request full with
    | some r => ({ flow with clientData := data, clientParsed := true }, some r)
    | none => ({ flow with clientData := data }, none)
  else ({ flow with clientData := data }, none)

def serverBranch {ρ σ} (P : Parsers ρ σ) (flow : TcpFlow) (seg : Seg) : TcpFlow × Option σ :=
  if flow.serverParsed then (flow, none) else
  let data := flow.serverData ++ [seg]
  if bufferedLen data > maxBufferedHeadBytes then
    ({ flow with serverData := [], serverParsed := true }, none)
  else
  let full := fullData flow.serverIsn data
  if hasCompleteHttpData P full then
    match P.response full with
    | some r => ({ flow with serverData := data, serverParsed := true }, some r)
    | none => ({ flow with serverData := data }, none)
  else ({ flow with serverData := data }, none)

/-- flow lookup by key, then by reversed key; the flag is `is_client` -/
def lookup (m : FlowMap) (p : Pkt) : Option (TcpFlow × Bool) :=
  match m.get p.key with
  | some f => some (f, true)
  | none => match m.get p.key.rev with
    | some f => some (f, false)
    | none => none

/-- the direction dispatch on a data segment -/
def dispatch {ρ σ} (P : Parsers ρ σ) (flow : TcpFlow) (isClient : Bool) (p : Pkt) : TcpFlow × Option ρ × Option σ :=
  let seg : Seg := ⟨p.seq, p.payload⟩
  if isClient && p.srcIp == flow.clientIp && p.srcPort == flow.clientPort then
    let x := clientBranch P flow seg; (x.1, x.2, none)
  else if p.srcIp == flow.serverIp && p.srcPort == flow.serverPort then
    let x := serverBranch P flow seg; (x.1, none, x.2)
  else (flow, none, none)

/-- the server's SYN-ACK gives its initial sequence number -/
def noteSynAck (flow : TcpFlow) (isClient : Bool) (p : Pkt) : TcpFlow :=
  if hasFlag p.flags SYN && !isClient && flow.serverIsn.isNone then { flow with serverIsn := some p.seq } else flow

/-- a packet of a known flow -/
def stepFound {ρ σ} (P : Parsers ρ σ) (m : FlowMap) (p : Pkt) (flow : TcpFlow) (isClient : Bool) : StepOut ρ σ :=
  let stored := if isClient then p.key else p.key.rev
  let flow1 := noteSynAck flow isClient p
  if p.payload.isEmpty then { map := m.set stored flow1, stored := some stored } else
  let x := dispatch P flow1 isClient p
  let m' := m.set stored x.1
  if x.1.clientParsed && x.1.serverParsed then
    { map := m'.erase stored, request := x.2.1, response := x.2.2, stored := some stored }
  else if hasFlag p.flags FIN || hasFlag p.flags RST then
    { map := m'.erase stored, request := x.2.1, response := x.2.2, stored := some stored }
  else { map := m', request := x.2.1, response := x.2.2, stored := some stored }

/-- a packet of no known flow: a SYN opens one -/
def stepNew {ρ σ} (m : FlowMap) (p : Pkt) : StepOut ρ σ :=
  if hasFlag p.flags SYN then
    let flow : TcpFlow :=
      { clientIp := p.srcIp, serverIp := p.dstIp, clientPort := p.srcPort, serverPort := p.dstPort,
        clientData := [⟨wadd p.seq 1, p.payload⟩], serverData := [], clientParsed := false, serverParsed := false,
        clientIsn := p.seq, serverIsn := none }
    { map := m.set p.key flow, stored := some p.key, opened := true }
  else { map := m }

/-- `process_tcp_packet` -/
def step {ρ σ} (P : Parsers ρ σ) (m : FlowMap) (p : Pkt) : StepOut ρ σ :=
  match lookup m p with
  | some (flow, isClient) => stepFound P m p flow isClient
  | none => stepNew m p

/-- The SYN reset of `process_tcp_packet`: a SYN without ACK opens a connection; a flow still stored for the
4-tuple (either direction) that was not opened by this very SYN (a retransmission carries the same sequence
number) belongs to an earlier connection and is dropped before the packet is dispatched. -/
def reset (m : FlowMap) (p : Pkt) : FlowMap :=
  if hasFlag p.flags SYN && !hasFlag p.flags ACK then
    if (m.get p.key).map (·.clientIsn) == some p.seq then m
    else (m.erase p.key).erase p.key.rev
  else m

/-- `process_tcp_packet` with the SYN reset (`step` is the dispatch that follows it) -/
def stepS {ρ σ} (P : Parsers ρ σ) (m : FlowMap) (p : Pkt) : StepOut ρ σ := step P (reset m p) p

/-- events of one packet -/
def StepOut.events {ρ σ} (o : StepOut ρ σ) : List (Event ρ σ) :=
  match o.stored with
  | none => []
  | some k =>
    (if o.opened then [Event.opened k] else []) ++
    (match o.request with | some r => [Event.request k r] | none => []) ++
    (match o.response with | some s => [Event.response k s] | none => [])

/-- run a packet sequence; per packet the observable pair (request report, response report) -/
def run {ρ σ} (P : Parsers ρ σ) : FlowMap → List Pkt → List (Option ρ × Option σ)
  | _, [] => []
  | m, p :: ps => let o := step P m p; (o.request, o.response) :: run P o.map ps

/-- `run` with the SYN reset before every packet -/
def runS {ρ σ} (P : Parsers ρ σ) : FlowMap → List Pkt → List (Option ρ × Option σ)
  | _, [] => []
  | m, p :: ps => let o := stepS P m p; (o.request, o.response) :: runS P o.map ps

def finalMapS {ρ σ} (P : Parsers ρ σ) : FlowMap → List Pkt → FlowMap
  | m, [] => m
  | m, p :: ps => finalMapS P (stepS P m p).map ps

def finalMap {ρ σ} (P : Parsers ρ σ) : FlowMap → List Pkt → FlowMap
  | m, [] => m
  | m, p :: ps => finalMap P (step P m p).map ps

/-- the ghost event trace of a run, each event with the packet that caused it -/
def trace {ρ σ} (P : Parsers ρ σ) : FlowMap → List Pkt → List (Pkt × Event ρ σ)
  | _, [] => []
  | m, p :: ps => let o := step P m p; o.events.map (fun e => (p, e)) ++ trace P o.map ps

end Huginn.HttpFlow
