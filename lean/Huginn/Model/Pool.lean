/-
Interleaving semantics of the worker pools (huginn-net-{tcp,http,tls}/src/parallel.rs).

Shared-memory objects and their atomic operations (third-party, assumed: crossbeam bounded channel
= FIFO with `try_send` failing iff full; `AtomicU64::fetch_add`; one `mpsc` result channel):
  * per-worker bounded FIFO queue      — `try_send` (dispatcher), `recv` (worker)
  * `dispatched_count`, `dropped_count`, `worker_dropped[w]` — one `fetch_add` each
  * the result channel                 — `send` (worker)
A *schedule* is any finite sequence of `Step`s; concurrent dispatchers, batch sizes and receive
timeouts only choose among enabled steps, so they are subsumed by "all schedules". A counter
increment that a `dispatch` call owes but has not yet executed is recorded in `pend*`
(the call has not returned yet); `Quiescent` = every call returned and every queue drained.

Variants (parameters of `Cfg`):
  * `attemptCounted`: TLS and HTTP pools increment `dispatched` before `try_send` (documented and
    pinned by a TLS test: "counts all packets that were attempted"); the TCP pool only on success.
  * `route p = none`: the TLS hash cannot extract a flow → counted dropped, never queued.
  * `errCountsWorkerDropped`: a worker adds its processing errors to its `dropped` counter. The HTTP
    worker did (former finding KF.C18.httpWorkerErrCountedDropped); since
    fixes/C18-http-worker-error-not-a-drop.patch no pool does: `tcpPool / httpPool / tlsPool` below all
    set it to `false`. The parameter stays in the generic invariant (it costs nothing).
-/
namespace Huginn.Pool

structure Cfg (Pkt : Type) where
  n : Nat                       -- workers
  qcap : Nat                    -- queue capacity
  route : Pkt → Option Nat      -- `hash % n`; `none` = unroutable (TLS)
  attemptCounted : Bool
  errCountsWorkerDropped : Bool

/-- The three pools of the repaired tree: they differ in when `dispatched` is counted and in
whether the hash can fail; none counts a worker's processing error as a drop. -/
def tcpPool {Pkt : Type} (n qcap : Nat) (route : Pkt → Nat) : Cfg Pkt :=
  { n := n, qcap := qcap, route := fun p => some (route p), attemptCounted := false,
    errCountsWorkerDropped := false }
def httpPool {Pkt : Type} (n qcap : Nat) (route : Pkt → Nat) : Cfg Pkt :=
  { n := n, qcap := qcap, route := fun p => some (route p), attemptCounted := true,
    errCountsWorkerDropped := false }
def tlsPool {Pkt : Type} (n qcap : Nat) (route : Pkt → Option Nat) : Cfg Pkt :=
  { n := n, qcap := qcap, route := route, attemptCounted := true, errCountsWorkerDropped := false }

/-- The sequential per-packet analysis run by each worker on its private state:
`none` = processing error (no result is sent). -/
structure Worker (S Pkt Out : Type) where
  init : S
  step : S → Pkt → S × Option Out

def upd {α : Type} (f : Nat → α) (i : Nat) (v : α) : Nat → α := fun j => if j = i then v else f j

inductive Outcome
  | queued (w : Nat)
  | droppedFull (w : Nat)
  | droppedUnroutable
  deriving DecidableEq, Repr

structure State (S Pkt Out : Type) where
  queue : Nat → List Pkt                 -- per worker, head = oldest
  wst : Nat → S                          -- per-worker private analyzer state
  processed : Nat → List Pkt             -- ghost: packets each worker has processed, in order
  results : List (Nat × Pkt × Out)       -- the result channel (ghost-tagged with worker and packet)
  dispatched : Nat
  dropped : Nat
  wdropped : Nat → Nat
  pendD : Nat                            -- increments owed by dispatch calls that have not returned
  pendX : Nat
  pendW : Nat → Nat
  outcomes : List (Pkt × Outcome)        -- ghost: what each dispatch call returns, in linearisation order
  werrs : Nat → Nat                      -- ghost: processing errors per worker

def init {S Pkt Out : Type} (W : Worker S Pkt Out) : State S Pkt Out :=
  { queue := fun _ => [], wst := fun _ => W.init, processed := fun _ => [], results := [],
    dispatched := 0, dropped := 0, wdropped := fun _ => 0, pendD := 0, pendX := 0,
    pendW := fun _ => 0, outcomes := [], werrs := fun _ => 0 }

inductive Step (Pkt : Type)
  | dispatch (p : Pkt)      -- the linearisation point of a dispatch call: hash + try_send
  | incD | incX | incW (w : Nat)   -- one owed `fetch_add`
  | work (w : Nat)          -- worker `w` receives the head of its queue, analyses it, sends the result

variable {S Pkt Out : Type}

def step (C : Cfg Pkt) (W : Worker S Pkt Out) (s : State S Pkt Out) : Step Pkt → State S Pkt Out
  | .dispatch p =>
    match C.route p with
    | none => { s with pendX := s.pendX + 1, outcomes := s.outcomes ++ [(p, .droppedUnroutable)] }
    | some w =>
      if (s.queue w).length < C.qcap then
        { s with pendD := s.pendD + 1, queue := upd s.queue w (s.queue w ++ [p]),
                 outcomes := s.outcomes ++ [(p, .queued w)] }
      else
        { s with pendD := s.pendD + (if C.attemptCounted then 1 else 0),
                 pendX := s.pendX + 1, pendW := upd s.pendW w (s.pendW w + 1),
                 outcomes := s.outcomes ++ [(p, .droppedFull w)] }
  | .incD => if s.pendD = 0 then s else { s with pendD := s.pendD - 1, dispatched := s.dispatched + 1 }
  | .incX => if s.pendX = 0 then s else { s with pendX := s.pendX - 1, dropped := s.dropped + 1 }
  | .incW w => if s.pendW w = 0 then s else
      { s with pendW := upd s.pendW w (s.pendW w - 1), wdropped := upd s.wdropped w (s.wdropped w + 1) }
  | .work w =>
    match s.queue w with
    | [] => s
    | p :: rest =>
      match (W.step (s.wst w) p).2 with
      | some o =>
        { s with queue := upd s.queue w rest, wst := upd s.wst w (W.step (s.wst w) p).1,
                 processed := upd s.processed w (s.processed w ++ [p]),
                 results := s.results ++ [(w, p, o)] }
      | none =>
        { s with queue := upd s.queue w rest, wst := upd s.wst w (W.step (s.wst w) p).1,
                 processed := upd s.processed w (s.processed w ++ [p]),
                 wdropped := upd s.wdropped w (s.wdropped w + (if C.errCountsWorkerDropped then 1 else 0)),
                 werrs := upd s.werrs w (s.werrs w + 1) }

def run (C : Cfg Pkt) (W : Worker S Pkt Out) : State S Pkt Out → List (Step Pkt) → State S Pkt Out
  | s, [] => s
  | s, a :: as => run C W (step C W s a) as

/-- Every dispatch call has returned and every queue is drained (detected in the harness by sentinels). -/
def Quiescent (C : Cfg Pkt) (s : State S Pkt Out) : Prop :=
  s.pendD = 0 ∧ s.pendX = 0 ∧ (∀ w, s.pendW w = 0) ∧ (∀ w, s.queue w = [])

/-- The worker's sequential run over a packet list: outputs (errors omitted) paired with packets. -/
def seqOuts (W : Worker S Pkt Out) : S → List Pkt → List (Pkt × Out)
  | _, [] => []
  | st, p :: ps =>
    let r := W.step st p
    match r.2 with
    | some o => (p, o) :: seqOuts W r.1 ps
    | none => seqOuts W r.1 ps

def seqFinal (W : Worker S Pkt Out) : S → List Pkt → S
  | st, [] => st
  | st, p :: ps => seqFinal W (W.step st p).1 ps

def errOf (o : Option Out) : Nat := match o with | none => 1 | some _ => 0

def seqErrs (W : Worker S Pkt Out) : S → List Pkt → Nat
  | _, [] => 0
  | st, p :: ps => errOf (W.step st p).2 + seqErrs W (W.step st p).1 ps

/-! ### counting the outcomes returned by dispatch calls -/

def nQueued (s : State S Pkt Out) : Nat := s.outcomes.countP (fun x => match x.2 with | .queued _ => true | _ => false)
def nFull (s : State S Pkt Out) : Nat := s.outcomes.countP (fun x => match x.2 with | .droppedFull _ => true | _ => false)
def nFullAt (s : State S Pkt Out) (w : Nat) : Nat := s.outcomes.countP (fun x => decide (x.2 = .droppedFull w))
def nUnroutable (s : State S Pkt Out) : Nat := s.outcomes.countP (fun x => decide (x.2 = .droppedUnroutable))
/-- Packets that a dispatch call reported `Queued` on worker `w`, in order. -/
def queuedAt (s : State S Pkt Out) (w : Nat) : List Pkt :=
  s.outcomes.filterMap (fun x => if x.2 = .queued w then some x.1 else none)

end Huginn.Pool
