import Huginn.Gen.H2Const
/-
Model of the HTTP/2 frame layer of `huginn-net-http/src/http2_parser.rs`:
`Http2Frame`, `parse_frames` / `parse_single_frame`, `parse_frames_with_offset`,
`parse_frames_skip_preface`, `Http2Frame::total_size`.

* bytes are `List UInt8`; lengths, stream ids and offsets are `Nat` (the Rust expressions are
  `u32`/`usize` with `saturating_add` on values < 2^24 + 9, so nothing wraps; `usize::try_from`
  of such a `u32` cannot fail on the 64-bit targets the workspace builds for);
* `Http2FrameType` is represented by its raw type byte (`From<u8>` is injective: ten named arms,
  `Unknown(other)` otherwise — the arms are regenerated in `Gen.H2.frameTypeArms`);
* the loop `while remaining.len() >= 9` becomes recursion with fuel = input length (every
  iteration consumes ≥ 9 bytes), so that the definitions reduce in the kernel.
-/
namespace Huginn.H2

abbrev Bytes := List UInt8

def be16 (a b : UInt8) : Nat := a.toNat * 256 + b.toNat
def be24 (a b c : UInt8) : Nat := a.toNat * 65536 + b.toNat * 256 + c.toNat
def be32 (a b c d : UInt8) : Nat := a.toNat * 16777216 + b.toNat * 65536 + c.toNat * 256 + d.toNat

/-- `Http2Frame` (the `length` field always equals `payload.len()` for frames produced by the
parser and by `Http2Frame::new`, so it is not stored). -/
structure Frame where
  ty      : UInt8
  flags   : UInt8
  sid     : Nat
  payload : Bytes
  deriving DecidableEq, Repr, Inhabited

/-- `Http2Frame::total_size` -/
def Frame.totalSize (f : Frame) : Nat := 9 + f.payload.length

def tyData : UInt8 := 0
def tyHeaders : UInt8 := 1
def tyPriority : UInt8 := 2
def tySettings : UInt8 := 4
def tyPing : UInt8 := 6
def tyWindowUpdate : UInt8 := 8
def tyContinuation : UInt8 := 9

/-- `calculate_frames_bytes_consumed` / the sum in `parse_frames_with_offset` -/
def consumed : List Frame → Nat
  | [] => 0
  | f :: fs => f.totalSize + consumed fs

/-- One iteration of the loop in `parse_frames` (including `parse_single_frame`):
`none` = the loop `break`s (fewer than 9 bytes, incomplete frame, or `FrameTooLarge`). -/
def parseOne (maxSize : Nat) : Bytes → Option (Frame × Bytes)
  | l0 :: l1 :: l2 :: ty :: fl :: s0 :: s1 :: s2 :: s3 :: rest =>
    let len := be24 l0 l1 l2
    if rest.length < len then none            -- `remaining.len() < frame_total_size` → break
    else if len > maxSize then none           -- `FrameTooLarge` → break
    else some ({ ty := ty, flags := fl, sid := be32 (s0 &&& 0x7f) s1 s2 s3, payload := rest.take len },
               rest.drop len)
  | _ => none

def parseFramesAux (maxSize : Nat) : Nat → Bytes → List Frame
  | 0, _ => []
  | fuel + 1, data =>
    match parseOne maxSize data with
    | none => []
    | some (f, rest) => f :: parseFramesAux maxSize fuel rest

/-- `Http2Parser::parse_frames` with `Http2Config { max_frame_size := maxSize, .. }`
(the function never returns `Err`). -/
def parseFramesWith (maxSize : Nat) (data : Bytes) : List Frame :=
  parseFramesAux maxSize data.length data

/-- `Http2Parser::new().parse_frames` -/
def parseFrames (data : Bytes) : List Frame := parseFramesWith Gen.H2.maxFrameSize data

def preface : Bytes := Gen.H2.preface

/-- `data.starts_with(HTTP2_CONNECTION_PREFACE)` -/
def hasPreface (data : Bytes) : Bool := preface.isPrefixOf data

/-- the `start` of `parse_frames_skip_preface` -/
def prefaceLen (data : Bytes) : Nat := if hasPreface data then preface.length else 0

/-- `parse_frames_skip_preface`: frames and bytes consumed (including the preface). -/
def parseFramesSkipPreface (data : Bytes) : List Frame × Nat :=
  let start := prefaceLen data
  let frames := parseFrames (data.drop start)
  (frames, start + consumed frames)

end Huginn.H2
