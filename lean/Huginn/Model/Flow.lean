/-
Flow state shared by the stateful analyzers: a model of `ttl_cache::TtlCache` (third-party,
modelled at its interface — see DESIGN §5) and a tiny language of *cache programs*, in which
the per-packet logic of the TCP-uptime, TLS and HTTP analyzers is written (Model/FlowProgs.lean).

`TtlCache` = `LinkedHashMap` in insertion order + capacity + per-entry expiry instant:
* `insert k v ttl`: re-inserting an existing key moves it to the back; afterwards, if `len > capacity`
  the *oldest-inserted* entry is popped (expired entries are not purged first: they count);
* `get`/`get_mut`/`contains_key`: the entry if present and not expired (`now > expiration` = expired);
  an expired entry stays in the map;
* `remove k`: unlinks the entry.
Time is an explicit parameter (`now`), identical for every operation of one packet.
-/
namespace Huginn.Flow

structure Entry (κ σ : Type) where
  key : κ
  val : σ
  exp : Nat
  deriving Repr

structure TtlMap (κ σ : Type) where
  cap : Nat
  es  : List (Entry κ σ) := []      -- oldest first

variable {κ σ : Type} [DecidableEq κ]

def TtlMap.find? (m : TtlMap κ σ) (k : κ) : Option (Entry κ σ) :=
  m.es.find? (fun e => e.key = k)

/-- `get` / `get_mut` / `contains_key`: present and not expired. -/
def TtlMap.get (m : TtlMap κ σ) (now : Nat) (k : κ) : Option σ :=
  match m.find? k with
  | some e => if now > e.exp then none else some e.val
  | none => none

/-- `insert`. -/
def TtlMap.insert (m : TtlMap κ σ) (now : Nat) (k : κ) (v : σ) (ttl : Nat) : TtlMap κ σ :=
  let es' := m.es.filter (fun e => e.key ≠ k) ++ [⟨k, v, now + ttl⟩]
  { m with es := if es'.length > m.cap then es'.drop 1 else es' }

/-- Writing through the `&mut V` returned by `get_mut` (value replaced, expiry and position kept).
Only meaningful after a successful `get`; on an absent/expired key the code has no reference to write through. -/
def TtlMap.set (m : TtlMap κ σ) (now : Nat) (k : κ) (v : σ) : TtlMap κ σ :=
  { m with es := m.es.map (fun e => if e.key = k ∧ ¬ now > e.exp then { e with val := v } else e) }

/-- `remove`. -/
def TtlMap.remove (m : TtlMap κ σ) (k : κ) : TtlMap κ σ :=
  { m with es := m.es.filter (fun e => e.key ≠ k) }

/-- Cache programs: what one packet does to the flow table. `γ` is processor-global state
(e.g. the HPACK decoder shared by every flow of one `HttpProcessors`). -/
inductive Prog (κ σ γ ρ Out : Type) : Type
  | ret    (o : Out)
  | get    (k : κ) (cont : Option σ → Prog κ σ γ ρ Out)
  | insert (k : κ) (v : σ) (ttl : Nat) (cont : Prog κ σ γ ρ Out)
  | set    (k : κ) (v : σ) (cont : Prog κ σ γ ρ Out)
  | remove (k : κ) (cont : Prog κ σ γ ρ Out)
  | glob   (f : γ → γ × ρ) (cont : ρ → Prog κ σ γ ρ Out)   -- read/modify global state, observe a result

/-- Interpretation of one packet's program at arrival time `now`. -/
def Prog.run {γ ρ Out : Type} : Prog κ σ γ ρ Out → Nat → TtlMap κ σ → γ → TtlMap κ σ × γ × Out
  | .ret o, _, m, g => (m, g, o)
  | .get k cont, now, m, g => (cont (m.get now k)).run now m g
  | .insert k v ttl cont, now, m, g => cont.run now (m.insert now k v ttl) g
  | .set k v cont, now, m, g => cont.run now (m.set now k v) g
  | .remove k cont, now, m, g => cont.run now (m.remove k) g
  | .glob f cont, now, m, g => let (g', x) := f g; (cont x).run now m g'

/-- Executable companion of `Props.C07.ProgNoEvict`: runs the program and also reports whether
every `insert` fitted (no eviction). -/
def Prog.runNE {γ ρ Out : Type} : Prog κ σ γ ρ Out → Nat → TtlMap κ σ → γ → (TtlMap κ σ × γ × Out) × Bool
  | .ret o, _, m, g => ((m, g, o), true)
  | .get k cont, now, m, g => (cont (m.get now k)).runNE now m g
  | .insert k v ttl cont, now, m, g =>
    let r := cont.runNE now (m.insert now k v ttl) g
    (r.1, r.2 && decide ((m.es.filter (fun e => e.key ≠ k)).length < m.cap))
  | .set k v cont, now, m, g => cont.runNE now (m.set now k v) g
  | .remove k cont, now, m, g => cont.runNE now (m.remove k) g
  | .glob f cont, now, m, g => let (g', x) := f g; (cont x).runNE now m g'

/-- Every key the program can touch satisfies `P`, and it never *changes* processor-global state
(it may consult it: a `glob` node whose function leaves the state as it found it). -/
inductive Prog.Local {γ ρ Out : Type} (P : κ → Prop) : Prog κ σ γ ρ Out → Prop
  | ret (o) : Local P (.ret o)
  | get (k cont) : P k → (∀ r, Local P (cont r)) → Local P (.get k cont)
  | insert (k v ttl cont) : P k → Local P cont → Local P (.insert k v ttl cont)
  | set (k v cont) : P k → Local P cont → Local P (.set k v cont)
  | remove (k cont) : P k → Local P cont → Local P (.remove k cont)
  | glob (f cont) : (∀ g, (f g).1 = g) → (∀ r, Local P (cont r)) → Local P (.glob f cont)

/-- An analyzer: a program per packet (a packet carries its arrival time). -/
structure Analyzer (κ σ γ ρ Pkt Out : Type) where
  prog : Pkt → Prog κ σ γ ρ Out
  time : Pkt → Nat

def Analyzer.step {γ ρ Pkt Out : Type} (A : Analyzer κ σ γ ρ Pkt Out)
    (s : TtlMap κ σ × γ) (p : Pkt) : (TtlMap κ σ × γ) × Out :=
  let r := (A.prog p).run (A.time p) s.1 s.2
  ((r.1, r.2.1), r.2.2)

/-- Outputs of a trace, one per packet, paired with the packet. -/
def Analyzer.runOuts {γ ρ Pkt Out : Type} (A : Analyzer κ σ γ ρ Pkt Out) :
    TtlMap κ σ × γ → List Pkt → List (Pkt × Out)
  | _, [] => []
  | s, p :: tr => let r := A.step s p; (p, r.2) :: A.runOuts r.1 tr

/-- Outputs of a trace plus "nothing was evicted anywhere". -/
def Analyzer.runOutsNE {γ ρ Pkt Out : Type} (A : Analyzer κ σ γ ρ Pkt Out) :
    TtlMap κ σ × γ → List Pkt → List Out × Bool
  | _, [] => ([], true)
  | s, p :: tr =>
    let r := (A.prog p).runNE (A.time p) s.1 s.2
    let rest := A.runOutsNE (r.1.1, r.1.2.1) tr
    (r.1.2.2 :: rest.1, r.2 && rest.2)

def Analyzer.finalState {γ ρ Pkt Out : Type} (A : Analyzer κ σ γ ρ Pkt Out) :
    TtlMap κ σ × γ → List Pkt → TtlMap κ σ × γ
  | s, [] => s
  | s, p :: tr => A.finalState (A.step s p).1 tr

end Huginn.Flow
