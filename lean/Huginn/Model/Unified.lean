/-
Model of the unified analyzer's glue: huginn-net/src/process.rs (`execute_analysis`,
`handle_http_tcp_tlc`) and the output assembly of `HuginnNet::analyze_tcp` in huginn-net/src/lib.rs
(`quality_match!` / `simple_quality_match!`).

The three protocol processors are parameters (`Sub`): the glue calls
`process_http_ipv4/6`, `process_tcp_ipv4/6`, `process_tls_ipv4/6` — the same functions the standalone
analyzers call — in this fixed order, each `?` aborting before the later processors run.
-/
namespace Huginn.Unified

structure Config where
  http : Bool := true
  tcp : Bool := true
  tls : Bool := true
  matcher : Bool := true
  deriving Repr, DecidableEq

/-- A stateful protocol processor: `none` = it rejects the packet (an `Err`). -/
structure Sub (S Pkt R : Type) where
  step : S → Pkt → S × Option R

/-- What `ObservablePackage` carries. -/
structure Obs (RH RT RL : Type) where
  http : RH
  tcp : RT
  tls : RL
  deriving Repr, DecidableEq

variable {SH ST Pkt RH RT RL : Type}

/-- `execute_analysis`: HTTP, then TCP, then TLS; `eh/et/el` are the empty packages used for a
disabled protocol. -/
def extract (cfg : Config) (H : Sub SH Pkt RH) (T : Sub ST Pkt RT) (L : Pkt → Option RL)
    (eh : RH) (et : RT) (el : RL) (s : SH × ST) (p : Pkt) : (SH × ST) × Option (Obs RH RT RL) :=
  let rh := if cfg.http then H.step s.1 p else (s.1, some eh)
  match rh.2 with
  | none => ((rh.1, s.2), none)
  | some h =>
    let rt := if cfg.tcp then T.step s.2 p else (s.2, some et)
    match rt.2 with
    | none => ((rh.1, rt.1), none)
    | some t =>
      match (if cfg.tls then L p else some el) with
      | none => ((rh.1, rt.1), none)
      | some l => ((rh.1, rt.1), some ⟨h, t, l⟩)

def runUnified (cfg : Config) (H : Sub SH Pkt RH) (T : Sub ST Pkt RT) (L : Pkt → Option RL)
    (eh : RH) (et : RT) (el : RL) : SH × ST → List Pkt → List (Option (Obs RH RT RL))
  | _, [] => []
  | s, p :: tr =>
    let r := extract cfg H T L eh et el s p
    r.2 :: runUnified cfg H T L eh et el r.1 tr

/-- A standalone analyzer's run. -/
def runSub {S R : Type} (A : Sub S Pkt R) : S → List Pkt → List (Option R)
  | _, [] => []
  | s, p :: tr => let r := A.step s p; r.2 :: runSub A r.1 tr

def finalSub {S R : Type} (A : Sub S Pkt R) : S → List Pkt → S
  | s, [] => s
  | s, p :: tr => finalSub A (A.step s p).1 tr

/-- What the union of the three standalone analyzers says about one packet, masked by the config. -/
def union (cfg : Config) (eh : RH) (et : RT) (el : RL)
    (h : Option RH) (t : Option RT) (l : Option RL) : Option (Obs RH RT RL) :=
  match (if cfg.http then h else some eh), (if cfg.tcp then t else some et),
        (if cfg.tls then l else some el) with
  | some h, some t, some l => some ⟨h, t, l⟩
  | _, _, _ => none

/-! ### Output assembly (`quality_match!`) -/

inductive Quality (Q : Type)
  | matched (q : Q)
  | notMatched
  | disabled
  deriving Repr, DecidableEq

structure Matched (Sig Lab Q : Type) where
  sig : Sig
  label : Option Lab
  quality : Quality Q
  deriving Repr, DecidableEq

/-- `quality_match!`: `enabled` = `config.matcher_enabled`, `matcher` = the optional matcher
(present iff a database was given and the protocol is enabled), `f` = the lookup. -/
def assemble {Sig Lab Q M : Type} (enabled : Bool) (matcher : Option M) (f : M → Sig → Option (Lab × Q))
    (sig : Sig) : Matched Sig Lab Q :=
  if enabled then
    match matcher.bind (fun m => f m sig) with
    | some (l, q) => ⟨sig, some l, .matched q⟩
    | none => ⟨sig, none, .notMatched⟩
  else ⟨sig, none, .disabled⟩

end Huginn.Unified
