import Huginn.Gen.H2Lists
import Huginn.Model.H2Frames
import Huginn.Model.Hpack
import Huginn.Model.Utf8
import Huginn.Model.Akamai
import Huginn.Model.Http1
/-
Model of the HTTP/2 message path of huginn-net-http, as it is:

* `http2_parser.rs`: `Http2Parser::parse_request` / `parse_response`, `find_primary_stream`,
  `build_stream` (resets the HPACK decoder, assembles the header blocks of the primary stream —
  `header_block_fragment` of each HEADERS frame plus the CONTINUATION payloads after it — and decodes
  each block), `parse_headers_payload`, `extract_settings`,
  `parse_cookies_from_headers`;
* `http2_process.rs`: `convert_http2_{request,response}_to_observable`,
  `convert_http2_headers_to_http_format`, `build_absent_headers_from_http2`,
  `Http2Processor::can_process_{request,response}`, `looks_like_http2_response`;
* `http_process.rs`: `HttpProcessors::parse_request` / `parse_response` restricted to inputs the
  HTTP/1 adapter rejects (`H1Rejects`);
* `huginn-net-db/src/display.rs`: `Display` of `Http{Request,Response}Observation` and `Header`;
* `http_languages.rs`: `get_highest_quality_language` for q-values in plain decimal notation.

Text is bytes (the UTF-8 of the Rust `String`s). `str::to_lowercase` and `str::trim` are modelled
for ASCII (`lowerAscii`, `trimAscii`); the harness keeps header names and cookie values free of
non-ASCII *letters/white space* (invalid UTF-8 becomes U+FFFD, which neither function touches).
-/
namespace Huginn.H2

/-! ### shared vocabulary of the outputs (`HttpHeader`, `HttpCookie`, `Http2Request`, …) -/

structure Hdr where
  name : Bytes
  value : Option Bytes
  position : Nat
  deriving DecidableEq, Repr, Inhabited

structure Cookie where
  name : Bytes
  value : Option Bytes
  position : Nat
  deriving DecidableEq, Repr, Inhabited

/-- `Http2Settings` -/
structure H2Settings where
  headerTableSize : Option Nat := none
  enablePush : Option Bool := none
  maxConcurrentStreams : Option Nat := none
  initialWindowSize : Option Nat := none
  maxFrameSize : Option Nat := none
  maxHeaderListSize : Option Nat := none
  deriving DecidableEq, Repr, Inhabited

/-- `Http2Request` (without the wall-clock field) -/
structure Request where
  method : Bytes
  path : Bytes
  authority : Option Bytes
  scheme : Option Bytes
  headers : List Hdr
  cookies : List Cookie
  referer : Option Bytes
  streamId : Nat
  headerCount : Nat
  totalHeadersLength : Nat
  frameSequence : List UInt8
  settings : H2Settings
  deriving DecidableEq, Repr, Inhabited

/-- `Http2Response` -/
structure Response where
  status : Nat
  headers : List Hdr
  streamId : Nat
  headerCount : Nat
  totalHeadersLength : Nat
  frameSequence : List UInt8
  server : Option Bytes
  contentType : Option Bytes
  deriving DecidableEq, Repr, Inhabited

inductive ParseErr | invalidPreface | hpackDecodingFailed | missingRequiredHeaders
  deriving DecidableEq, Repr

/-- `http::Header` -/
structure SigHdr where
  optional : Bool
  name : Bytes
  value : Option Bytes
  deriving DecidableEq, Repr, Inhabited

/-- `ObservableHttpRequest` -/
structure ObsRequest where
  horder : List SigHdr
  habsent : List SigHdr
  expsw : Bytes
  lang : Option Bytes
  userAgent : Option Bytes
  headers : List Hdr
  cookies : List Cookie
  referer : Option Bytes
  method : Bytes
  uri : Bytes
  deriving DecidableEq, Repr, Inhabited

/-- `ObservableHttpResponse` -/
structure ObsResponse where
  horder : List SigHdr
  habsent : List SigHdr
  expsw : Bytes
  headers : List Hdr
  status : Nat
  deriving DecidableEq, Repr, Inhabited

/-! ### text helpers -/

def lowerByte (b : UInt8) : UInt8 := if 65 ≤ b && b ≤ 90 then b + 32 else b
/-- `str::to_lowercase` on ASCII (non-ASCII bytes untouched) -/
def lowerAscii (s : Bytes) : Bytes := s.map lowerByte

def isWs (b : UInt8) : Bool := b == 32 || (9 ≤ b && b ≤ 13)
/-- `str::trim` for ASCII white space -/
def trimAscii (s : Bytes) : Bytes := ((s.dropWhile isWs).reverse.dropWhile isWs).reverse
def trimStartAscii (s : Bytes) : Bytes := s.dropWhile isWs

/-- `str::split(sep)` for a one-byte ASCII separator: always at least one piece -/
def splitOn (sep : UInt8) : Bytes → List Bytes
  | [] => [[]]
  | b :: r =>
    match splitOn sep r with
    | [] => [[b]]         -- unreachable
    | p :: ps => if b == sep then [] :: p :: ps else (b :: p) :: ps

/-- `u16::from_str`: optional `+`, at least one digit, value ≤ 65535 -/
def parseU16 (s : Bytes) : Option Nat :=
  let d := match s with | 43 :: r => r | _ => s
  if d.isEmpty || !d.all (fun b => 48 ≤ b && b ≤ 57) then none
  else
    let v := d.foldl (fun acc b => acc * 10 + (b.toNat - 48)) 0
    if v ≤ 65535 then some v else none

def sColon (s : String) : Bytes := s.toList.map (fun c => UInt8.ofNat c.toNat)

def nMethod : Bytes := [58, 109, 101, 116, 104, 111, 100]
def nPath : Bytes := [58, 112, 97, 116, 104]
def nAuthority : Bytes := [58, 97, 117, 116, 104, 111, 114, 105, 116, 121]
def nScheme : Bytes := [58, 115, 99, 104, 101, 109, 101]
def nStatus : Bytes := [58, 115, 116, 97, 116, 117, 115]
def nCookie : Bytes := [99, 111, 111, 107, 105, 101]
def nReferer : Bytes := [114, 101, 102, 101, 114, 101, 114]
def nUserAgent : Bytes := [117, 115, 101, 114, 45, 97, 103, 101, 110, 116]
def nAcceptLanguage : Bytes := [97, 99, 99, 101, 112, 116, 45, 108, 97, 110, 103, 117, 97, 103, 101]
def nServer : Bytes := [115, 101, 114, 118, 101, 114]
def nContentType : Bytes := [99, 111, 110, 116, 101, 110, 116, 45, 116, 121, 112, 101]
def unknownSw : Bytes := [63, 63, 63]   -- "???"

/-! ### http2_parser.rs -/

/-- `parse_headers_payload` after a successful decode: lossy names and values, `position` = index
in the decoded block -/
def toHdrs (fields : List Field) : List Hdr :=
  (fields.zipIdx).map fun (f, i) => { name := lossy f.1, value := some (lossy f.2), position := i }

/-- accumulator of `build_stream` -/
structure StreamAcc where
  headers : List Hdr := []       -- in order
  method : Option Bytes := none
  path : Option Bytes := none
  authority : Option Bytes := none
  scheme : Option Bytes := none
  status : Option Nat := none
  deriving DecidableEq, Repr, Inhabited

def StreamAcc.add (a : StreamAcc) (h : Hdr) : StreamAcc :=
  if h.name = nMethod then { a with method := some (h.value.getD []) }
  else if h.name = nPath then { a with path := some (h.value.getD []) }
  else if h.name = nAuthority then { a with authority := some (h.value.getD []) }
  else if h.name = nScheme then { a with scheme := some (h.value.getD []) }
  else if h.name = nStatus then { a with status := h.value.bind parseU16 }
  else { a with headers := a.headers ++ [h] }

/-- first loop of `build_stream` over the frames of the primary stream: `pending` block, finished
`blocks`. `none` = a HEADERS frame without a fragment (`HpackDecodingFailed`). -/
def assembleLoop : List Frame → Option Bytes → List Bytes → Option (List Bytes)
  | [], pending, acc => some (acc ++ pending.toList)
  | f :: r, pending, acc =>
    if f.ty == tyHeaders then
      match fragmentOf f with
      | none => none
      | some frag =>
        if f.flags &&& 4 != 0 then assembleLoop r none (acc ++ pending.toList ++ [frag])
        else assembleLoop r (some frag) (acc ++ pending.toList)
    else if f.ty == tyContinuation then
      match pending with
      | some b =>
        if f.flags &&& 4 != 0 then assembleLoop r none (acc ++ [b ++ f.payload])
        else assembleLoop r (some (b ++ f.payload)) acc
      | none => assembleLoop r none acc
    else assembleLoop r pending acc

/-- second loop: every block is decoded in turn, the decoder state is threaded from block to block.
`none` = `HpackDecodingFailed`. -/
def decodeBlocks (H : Hpack) : H.σ → List Bytes → StreamAcc → Option StreamAcc
  | _, [], a => some a
  | st, b :: r, a =>
    match H.dec st b with
    | (none, _) => none
    | (some fields, st') => decodeBlocks H st' r ((toHdrs fields).foldl StreamAcc.add a)

/-- `build_stream` (starts from a fresh decoder) -/
def buildStream (H : Hpack) (sid : Nat) (frames : List Frame) : Option StreamAcc :=
  match assembleLoop (frames.filter (fun f => f.sid == sid)) none [] with
  | none => none
  | some blocks => decodeBlocks H H.init blocks {}

/-- `find_primary_stream` -/
def findPrimary (frames : List Frame) : Option Nat :=
  (frames.find? (fun f => decide (f.sid > 0) && f.ty == tyHeaders)).map (·.sid)

/-- `extract_settings`: every SETTINGS frame (any stream), later values win -/
def settingsStep (s : H2Settings) (p : Nat × Nat) : H2Settings :=
  match p.1 with
  | 1 => { s with headerTableSize := some p.2 }
  | 2 => { s with enablePush := some (p.2 != 0) }
  | 3 => { s with maxConcurrentStreams := some p.2 }
  | 4 => { s with initialWindowSize := some p.2 }
  | 5 => { s with maxFrameSize := some p.2 }
  | 6 => { s with maxHeaderListSize := some p.2 }
  | _ => s

def extractH2Settings (frames : List Frame) : H2Settings :=
  (frames.filter (fun f => f.ty == tySettings)).foldl
    (fun s f => (parseSettingsPayload f.payload).foldl settingsStep s) {}

/-- one cookie-pair of `parse_cookies_from_headers` (already trimmed, non-empty) -/
def cookieOf (s : Bytes) (pos : Nat) : Cookie :=
  match s.findIdx? (· == 61) with
  | some i => { name := trimAscii (s.take i), value := some (trimAscii (s.drop (i + 1))), position := pos }
  | none => { name := s, value := none, position := pos }

/-- the trimmed, non-empty `;`-separated pieces of one cookie header value -/
def piecesOf : Option Bytes → List Bytes
  | some s => ((splitOn 59 s).map trimAscii).filter (fun p => !p.isEmpty)
  | none => []

/-- `parse_cookies_from_headers` -/
def parseCookies (values : List (Option Bytes)) : List Cookie :=
  ((values.flatMap piecesOf).zipIdx).map fun (p, i) => cookieOf p i

def hdrLen (h : Hdr) : Nat := h.name.length + (h.value.map List.length).getD 0

/-- last value among the headers (with a value) whose lower-cased name is `key`
(`headers_map.insert` overwrites) -/
def lastValue (hs : List Hdr) (key : Bytes) : Option Bytes :=
  (hs.filter (fun h => lowerAscii h.name == key && h.value.isSome)).getLast?.bind (·.value)

/-- the part of `parse_request` after `build_stream` -/
def finishRequest (st : StreamAcc) (sid : Nat) (frames : List Frame) : Except ParseErr (Option Request) :=
  match st.method, st.path with
  | some m, some p =>
    let cookieHdrs := st.headers.filter (fun h => lowerAscii h.name == nCookie)
    let referer := lastValue (st.headers.filter (fun h => lowerAscii h.name == nReferer)) nReferer
    let headers := st.headers.filter (fun h => lowerAscii h.name != nCookie && lowerAscii h.name != nReferer)
    .ok (some { method := m, path := p, authority := st.authority, scheme := st.scheme,
                headers := headers, cookies := parseCookies (cookieHdrs.map (·.value)),
                referer := referer, streamId := sid, headerCount := headers.length,
                totalHeadersLength := (headers.map hdrLen).sum,
                frameSequence := frames.map (·.ty), settings := extractH2Settings frames })
  | _, _ => .error .missingRequiredHeaders

/-- `Http2Parser::parse_request` -/
def parseRequest (H : Hpack) (data : Bytes) : Except ParseErr (Option Request) :=
  if !hasPreface data then .error .invalidPreface
  else
    let frames := parseFrames (data.drop preface.length)
    if frames.isEmpty then .ok none
    else match findPrimary frames with
      | none => .ok none
      | some sid =>
        match buildStream H sid frames with
        | none => .error .hpackDecodingFailed
        | some st => finishRequest st sid frames

/-- the part of `parse_response` after `build_stream` -/
def finishResponse (st : StreamAcc) (sid : Nat) (frames : List Frame) : Except ParseErr (Option Response) :=
  match st.status with
  | some s =>
    .ok (some { status := s, headers := st.headers, streamId := sid, headerCount := st.headers.length,
                totalHeadersLength := (st.headers.map hdrLen).sum, frameSequence := frames.map (·.ty),
                server := lastValue st.headers nServer, contentType := lastValue st.headers nContentType })
  | none => .error .missingRequiredHeaders

/-- `Http2Parser::parse_response` -/
def parseResponse (H : Hpack) (data : Bytes) : Except ParseErr (Option Response) :=
  let frames := parseFrames data
  if frames.isEmpty then .ok none
  else match findPrimary frames with
    | none => .ok none
    | some sid =>
      match buildStream H sid frames with
      | none => .error .hpackDecodingFailed
      | some st => finishResponse st sid frames

/-! ### http2_process.rs -/

/-- `list.iter().any(|l| l.eq_ignore_ascii_case(name))` -/
def listedIn (list : List Bytes) (name : Bytes) : Bool := list.any (fun l => lowerAscii l == lowerAscii name)

/-- `convert_http2_headers_to_http_format` -/
def toSigHeaders (optionalList skipList : List Bytes) (hs : List Hdr) : List SigHdr :=
  hs.map fun h =>
    if listedIn optionalList h.name then { optional := true, name := h.name, value := none }
    else if listedIn skipList h.name then { optional := false, name := h.name, value := none }
    else { optional := false, name := h.name, value := h.value }

/-- `build_absent_headers_from_http2` -/
def absentHeaders (commonList : List Bytes) (hs : List Hdr) : List SigHdr :=
  let present := hs.map (fun h => lowerAscii h.name)
  (commonList.filter (fun c => !present.contains (lowerAscii c))).map
    (fun c => { optional := false, name := c, value := none })

/-- `convert_http2_request_to_observable`; `lang` = `get_highest_quality_language` -/
def toObsRequest (lang : Bytes → Option Bytes) (r : Request) : ObsRequest :=
  let ua := lastValue r.headers nUserAgent
  { horder := toSigHeaders Gen.H2Lists.requestOptionalHeaders Gen.H2Lists.requestSkipValueHeaders r.headers,
    habsent := absentHeaders Gen.H2Lists.requestCommonHeaders r.headers,
    expsw := ua.getD unknownSw,
    lang := (lastValue r.headers nAcceptLanguage).bind lang,
    userAgent := ua, headers := r.headers, cookies := r.cookies, referer := r.referer,
    method := r.method, uri := r.path }

/-- `convert_http2_response_to_observable` -/
def toObsResponse (r : Response) : ObsResponse :=
  { horder := toSigHeaders Gen.H2Lists.responseOptionalHeaders Gen.H2Lists.responseSkipValueHeaders r.headers,
    habsent := absentHeaders Gen.H2Lists.responseCommonHeaders r.headers,
    expsw := r.server.getD unknownSw, headers := r.headers, status := r.status }

/-- `looks_like_http2_response` -/
def looksLikeH2Response : Bytes → Bool
  | l0 :: l1 :: l2 :: ty :: _ :: _ :: _ :: _ :: _ :: _ => be24 l0 l1 l2 ≤ 16384 && ty ≤ 10
  | _ => false

def http1Dot : Bytes := [72, 84, 84, 80, 47, 49, 46]    -- "HTTP/1."

/-- `Http2Processor::can_process_request || can_process_response` (`Http2ParserAdapter::can_parse`) -/
def h2CanParse (data : Bytes) : Bool :=
  (data.length ≥ 24 && hasPreface data) ||
  (data.length ≥ 9 && !(http1Dot.isPrefixOf (lossy (data.take 20))) && looksLikeH2Response data)

/-- inputs on which `Http1ParserAdapter::can_parse` is false for a structural reason: the client
preface, or a first byte 0x00 (no HTTP/1 method or version token starts with NUL) -/
def H1Rejects (data : Bytes) : Bool := hasPreface data || data.head? == some 0

/-- `HttpProcessors::parse_request` on inputs with `H1Rejects` -/
def processorsParseRequest (H : Hpack) (lang : Bytes → Option Bytes) (data : Bytes) : Option ObsRequest :=
  if h2CanParse data then
    match parseRequest H data with
    | .ok (some r) => some (toObsRequest lang r)
    | _ => none
  else none

/-- `HttpProcessors::parse_response` on inputs with `H1Rejects` -/
def processorsParseResponse (H : Hpack) (data : Bytes) : Option ObsResponse :=
  if h2CanParse data then
    match parseResponse H data with
    | .ok (some r) => some (toObsResponse r)
    | _ => none
  else none

/-! ### display.rs -/

/-- `Display for Header` -/
def SigHdr.render (h : SigHdr) : Bytes :=
  (if h.optional then [63] else []) ++ h.name ++
    (match h.value with | some v => [61, 91] ++ v ++ [93] | none => [])

/-- `format_http_display` with version `2` -/
def renderSig (horder habsent : List SigHdr) (expsw : Bytes) : Bytes :=
  [50, 58] ++ sepJoin 44 (horder.map SigHdr.render) ++ [58] ++ sepJoin 44 (habsent.map SigHdr.render) ++ [58] ++ expsw

/-! ### http_languages.rs -/

/-- `get_highest_quality_language` — one definition for HTTP/1 and HTTP/2: the model of the
repaired function in Model/Http1.lean (C05: weight = trim, strip one `q=`/`Q=`, `parse::<f32>`;
primary tag lower-cased). Outer `none`: a weight literal outside the modelled `f32` grammar
(exponent, `inf`, `nan`). -/
def highestLanguage? (v : Bytes) : Option (Option Bytes) := Huginn.Http1.highestQualityLanguage v

/-- total version used as the `lang` parameter of the message model (an unmodelled weight literal
counts as "no language": such inputs are not generated, and would show as a model difference) -/
def highestLanguage (v : Bytes) : Option Bytes := (highestLanguage? v).getD none

end Huginn.H2
