import Huginn.Model.WireChecked
import Huginn.Model.H2Frames
import Huginn.Model.Akamai
import Huginn.Model.H2Message
/-
Checked-access mirrors of the HTTP/2 byte-level functions (C01: analysis is total).

Every indexing `x[i]`, slicing `&x[i..]`, `&x[..j]`, `x[i..j]`, `&frames[i..]`, `s[..i]` (a `str` slice,
which also panics off a char boundary) expression of
  huginn-net-http/src/http2_parser.rs              (`parse_request`, `parse_frames` + `parse_single_frame`,
                                                    `parse_frames_skip_preface`, `extract_settings`,
                                                    `parse_cookies_from_headers`)
  huginn-net-http/src/http2_process.rs             (`can_process_request`, `can_process_response`,
                                                    `looks_like_http2_response`, `has_complete_data`,
                                                    `has_complete_frames`)
  huginn-net-http/src/akamai_extractor.rs          (`parse_window_update_payload`, `parse_priority_payload`,
                                                    `extract_pseudo_header_order`'s `&frames[i..]`)
  huginn-net-http/src/http2_fingerprint_extractor.rs (`add_bytes`: `&self.buffer[start_offset..]`)
is written with the checked accessors of Model/WireChecked.lean (`idx`, `idx8`, `from_`, `range`), which
*fail* (`Except.error`) exactly where Rust panics, behind the guards as written and in the order
written. Loops (`parse_frames`, `has_complete_frames`) carry explicit fuel; Props/C01H2.lean proves that
fuel = input length is never exhausted (every iteration consumes ≥ 9 octets) and that every run is
`.ok` of the total models (Model/H2Frames, Model/Akamai, Model/H2Message).
Arithmetic in these functions is `saturating_add` / `checked_sub` / `usize::try_from` on values below
2^24 + 9 (`satAdd32` mirrors `9_u32.saturating_add(length)`), plus `Iterator::sum` over frame sizes,
bounded by the input length (`consumed_le`).
Not here: hpack_patched, `String::from_utf8_lossy`, `str::{split, trim, find}`, `Vec` growth
(third-party / std, no index expression of the crate), `.get(..)` / `split_first` / `checked_sub` /
`chunks_exact` accesses, which cannot fault.
-/
namespace Huginn.H2Checked
open Huginn.H2 Huginn.WireChecked

/-- `a.saturating_add(b)` on `u32` -/
def satAdd32 (a b : Nat) : Nat := min (a + b) (2 ^ 32 - 1)

/-- `u32::from_be_bytes([0, d[0], d[1], d[2]])` with checked reads -/
def len24C (d : Bytes) : M Nat := do
  let a ← idx d 0
  let b ← idx d 1
  let c ← idx d 2
  pure (a * 65536 + b * 256 + c)

/-! ### http2_parser.rs -/

/-- `parse_single_frame`: `none` = `Err(IncompleteFrame | FrameTooLarge)` -/
def parseSingleFrameC (maxSize : Nat) (data : Bytes) : M (Option (Frame × Bytes)) :=
  if data.length < 9 then pure none
  else do
    let length ← len24C data
    let ty ← idx8 data 3
    let flags ← idx8 data 4
    let s0 ← idx8 data 5
    let s1 ← idx8 data 6
    let s2 ← idx8 data 7
    let s3 ← idx8 data 8
    if length > maxSize then pure none
    else
      let total := satAdd32 9 length                       -- `usize::try_from` of a u32 cannot fail (64-bit)
      if data.length < total then pure none
      else do
        let payload ← range data 9 total                   -- `data[payload_start..payload_end]`
        let rest ← from_ data total                        -- `&data[payload_end..]`
        pure (some ({ ty := ty, flags := flags, sid := be32 (s0 &&& 0x7f) s1 s2 s3, payload := payload }, rest))

/-- one iteration of the `while remaining.len() >= 9` loop of `parse_frames`: `none` = `break` -/
def parseFramesStepC (maxSize : Nat) (remaining : Bytes) : M (Option (Frame × Bytes)) :=
  if remaining.length ≥ 9 then do
    let frameLength ← len24C remaining
    let total := satAdd32 9 frameLength
    if remaining.length < total then pure none
    else parseSingleFrameC maxSize remaining
  else pure none

/-- `parse_frames` with fuel -/
def parseFramesC (maxSize : Nat) : Nat → Bytes → M (List Frame)
  | 0, _ => pure []
  | fuel + 1, remaining => do
    match ← parseFramesStepC maxSize remaining with
    | none => pure []
    | some (f, rest) => do
      let fs ← parseFramesC maxSize fuel rest
      pure (f :: fs)

/-- `parse_frames_skip_preface`: `&data[start..]` -/
def parseFramesSkipPrefaceC (data : Bytes) : M (List Frame × Nat) := do
  let start := if hasPreface data then preface.length else 0
  let d ← from_ data start
  let frames ← parseFramesC Gen.H2.maxFrameSize d.length d
  pure (frames, start + consumed frames)

/-- the prefix handling of `parse_request`: `&data[HTTP2_CONNECTION_PREFACE.len()..]` behind `has_http2_preface` -/
def requestFramesC (data : Bytes) : M (Option (List Frame)) :=
  if !hasPreface data then pure none
  else do
    let d ← from_ data preface.length
    let frames ← parseFramesC Gen.H2.maxFrameSize d.length d
    pure (some frames)

/-- `payload.chunks_exact(6)` -/
def chunksExact6 : Bytes → List Bytes
  | a :: b :: c :: d :: e :: f :: rest => [a, b, c, d, e, f] :: chunksExact6 rest
  | _ => []

/-- one chunk of `extract_settings`: `chunk[0]` … `chunk[5]` behind `if chunk.len() == 6` -/
def settingOfChunkC (chunk : Bytes) : M (Option (Nat × Nat)) :=
  if chunk.length = 6 then do
    let a ← idx8 chunk 0
    let b ← idx8 chunk 1
    let c ← idx8 chunk 2
    let d ← idx8 chunk 3
    let e ← idx8 chunk 4
    let f ← idx8 chunk 5
    pure (some (be16 a b, be32 c d e f))
  else pure none

def settingsOfPayloadC (payload : Bytes) : M (List (Nat × Nat)) :=
  (chunksExact6 payload).foldr (fun ch acc => do
    let r ← settingOfChunkC ch
    let rest ← acc
    pure (match r with | some p => p :: rest | none => rest)) (pure [])

/-- `i` is a char boundary of the UTF-8 string `s` (`str::is_char_boundary`) -/
def isCharBoundary (s : Bytes) (i : Nat) : Bool :=
  i == 0 || i == s.length || (match s[i]? with | some b => !(0x80 ≤ b && b ≤ 0xBF) | none => false)

/-- `&s[..i]` on a `str`: panics unless `i ≤ len` and `i` is a char boundary -/
def strUpTo (s : Bytes) (i : Nat) : M Bytes :=
  if i ≤ s.length ∧ isCharBoundary s i then .ok (s.take i) else .error (.slice 0 i s.length)

/-- one cookie of `parse_cookies_from_headers`: `cookie_str[..eq_pos]` with `eq_pos = find('=')` -/
def cookieOfC (s : Bytes) (pos : Nat) : M Cookie :=
  match s.findIdx? (· == 61) with
  | some i => do
    let name ← strUpTo s i
    pure { name := trimAscii name, value := some (trimAscii (s.drop (i + 1))), position := pos }
  | none => pure { name := s, value := none, position := pos }

/-! ### http2_process.rs -/

/-- `looks_like_http2_response` -/
def looksLikeH2ResponseC (data : Bytes) : M Bool :=
  if data.length < 9 then pure false
  else do
    let frameLength ← len24C data
    let ty ← idx8 data 3
    if frameLength > 16384 then pure false
    else pure (decide (ty ≤ 10))

/-- `Http2Processor::can_process_response`: `&data[..data.len().min(20)]` -/
def canProcessResponseC (data : Bytes) : M Bool :=
  if data.length < 9 then pure false
  else do
    let head ← range data 0 (min data.length 20)
    if http1Dot.isPrefixOf (lossy head) then pure false
    else looksLikeH2ResponseC data

/-- `Http2Processor::can_process_request` (no index expression) -/
def canProcessRequest (data : Bytes) : Bool := !(decide (data.length < 24)) && hasPreface data

/-- one iteration of `has_complete_frames`: `.inl r` = `return r`, `.inr rest` = next iteration -/
def hasCompleteStepC (remaining : Bytes) : M (Bool ⊕ Bytes) := do
  let length ← len24C remaining
  let ty ← idx8 remaining 3
  let _flags ← idx8 remaining 4
  let s0 ← idx8 remaining 5
  let s1 ← idx8 remaining 6
  let s2 ← idx8 remaining 7
  let s3 ← idx8 remaining 8
  let sid := be32 (s0 &&& 0x7f) s1 s2 s3
  let total := satAdd32 9 length
  if remaining.length < total then pure (.inl false)
  else if ty == 1 && decide (sid > 0) then pure (.inl true)
  else do
    let rest ← from_ remaining total                        -- `&remaining[frame_total_size..]`
    pure (.inr rest)

/-- `has_complete_frames` with fuel -/
def hasCompleteFramesC : Nat → Bytes → M Bool
  | 0, _ => pure false
  | fuel + 1, remaining =>
    if remaining.length ≥ 9 then do
      match ← hasCompleteStepC remaining with
      | .inl r => pure r
      | .inr rest => hasCompleteFramesC fuel rest
    else pure false

/-- total model of `has_complete_frames` (over the frame splitter's `parseOne` with no size limit) -/
def hasCompleteFrames : Nat → Bytes → Bool
  | 0, _ => false
  | fuel + 1, remaining =>
    match parseOne 16777216 remaining with
    | none => false
    | some (f, rest) => if f.ty == 1 && decide (f.sid > 0) then true else hasCompleteFrames fuel rest

/-- `has_complete_data`: `&data[PREFACE.len()..]` behind `starts_with` -/
def hasCompleteDataC (data : Bytes) : M Bool :=
  if hasPreface data then do
    let d ← from_ data preface.length
    hasCompleteFramesC d.length d
  else hasCompleteFramesC data.length data

/-! ### akamai_extractor.rs -/

/-- `parse_window_update_payload` -/
def parseWindowUpdateC (payload : Bytes) : M (Option Nat) :=
  if payload.length < 4 then pure none
  else do
    let a ← idx8 payload 0
    let b ← idx8 payload 1
    let c ← idx8 payload 2
    let d ← idx8 payload 3
    pure (some (be32 (a &&& 0x7f) b c d))

/-- `parse_priority_payload` -/
def parsePriorityC (sid : Nat) (payload : Bytes) : M (Option Priority) :=
  if payload.length < 5 then pure none
  else do
    let a ← idx8 payload 0
    let a' ← idx8 payload 0
    let b ← idx8 payload 1
    let c ← idx8 payload 2
    let d ← idx8 payload 3
    let w ← idx8 payload 4
    pure (some { sid := sid, excl := a &&& 0x80 != 0, dep := be32 (a' &&& 0x7f) b c d, weight := w.toNat })

/-- `&frames[i..]` -/
def framesFrom (frames : List Frame) (i : Nat) : M (List Frame) :=
  if i ≤ frames.length then .ok (frames.drop i) else .error (.slice i frames.length frames.length)

/-- the frames handed to `header_block` by `extract_pseudo_header_order`:
`frames.iter().position(p).and_then(|i| header_block(&frames[i..]))` -/
def headerFramesC (frames : List Frame) : M (Option (List Frame)) :=
  match frames.findIdx? (fun f => f.ty == tyHeaders && f.sid > 0) with
  | some i => do
    let l ← framesFrom frames i
    pure (some l)
  | none => pure none

/-! ### http2_fingerprint_extractor.rs -/

/-- `add_bytes` with the checked slice `&self.buffer[start_offset..]`, for an arbitrary state -/
def addBytesC (H : Hpack) (s : Extractor) (data : Bytes) : M (Extractor × Option Fingerprint) :=
  if s.fingerprint.isSome then pure (s, none)
  else
    let buffer := s.buffer ++ data
    let start := if hasPreface buffer then preface.length else 0
    do
      let frameData ← from_ buffer start
      if frameData.length ≥ 9 then do
        let frames ← parseFramesC Gen.H2.maxFrameSize frameData.length frameData
        if frames.isEmpty then pure ({ s with buffer := buffer }, none)
        else
          let off := start + consumed frames
          match extractAkamai H frames with
          | some fp => pure ({ buffer := buffer, parsedOffset := off, fingerprint := some fp }, some fp)
          | none => pure ({ buffer := buffer, parsedOffset := off, fingerprint := none }, none)
      else pure ({ s with buffer := buffer }, none)

/-- a whole chunk sequence through one extractor, starting anywhere -/
def runC (H : Hpack) : Extractor → List Bytes → M (List (Option Fingerprint))
  | _, [] => pure []
  | s, c :: cs => do
    let r ← addBytesC H s c
    let rest ← runC H r.1 cs
    pure (r.2 :: rest)

end Huginn.H2Checked
