import Huginn.Gen.HpackTables
import Huginn.Model.H2Frames
/-
HPACK.

1. `Hpack` — the *interface* at which the third-party crate `hpack_patched` is modelled in every
   theorem: a state type, the state of `Decoder::new()`, and `decode : σ → block → result × σ`
   (the state is returned on failure too: `Decoder::decode` mutates its dynamic table while it
   goes and leaves it mutated when it returns `Err`).

2. `Hpack.crate` — an executable instance mirroring `hpack-patched 0.3.0` (`decoder.rs`,
   `huffman.rs`, `lib.rs`): integer codec with its 5-octet limit, string codec, Huffman decoder with
   its padding rules, static table (regenerated from the crate source, including its entry 15
   `accept-`), dynamic table with FIFO eviction, size updates. It is used by the driver and is
   correspondence-checked against the real crate (`C17.hpack` op); no theorem depends on it except
   the kernel-evaluated witnesses.
-/
namespace Huginn.H2

abbrev Field := Bytes × Bytes

structure Hpack where
  σ : Type
  init : σ
  /-- `Decoder::decode`: `none` = `Err(_)` -/
  dec : σ → Bytes → Option (List Field) × σ

namespace HpackCrate

/-- `DynamicTable`: `table` front = most recently added. -/
structure Dyn where
  table : List Field := []
  size : Nat := 0
  maxSize : Nat := Gen.Hpack.defaultDynSize
  deriving DecidableEq, Repr, Inhabited

def entrySize (e : Field) : Nat := e.1.length + e.2.length + 32

/-- `consolidate_table`: evict from the back while `size > max_size`. Recursion on the number of
entries (the Rust `panic!("Size of table != 0, but no headers left!")` arm is the `[]` case with
`size > max`; it is unreachable when `size` is the sum of the entry sizes, see `Props`). -/
def consolidate (maxSize : Nat) : Nat → List Field → Nat → List Field × Nat
  | 0, t, s => (t, s)
  | n + 1, t, s =>
    if s > maxSize then
      match t.getLast? with
      | some e => consolidate maxSize n t.dropLast (s - entrySize e)
      | none => (t, s)
    else (t, s)

def Dyn.fit (d : Dyn) : Dyn :=
  let r := consolidate d.maxSize d.table.length d.table d.size
  { d with table := r.1, size := r.2 }

/-- `set_max_table_size` -/
def Dyn.setMax (d : Dyn) (n : Nat) : Dyn := Dyn.fit { d with maxSize := n }

/-- `add_header` -/
def Dyn.add (d : Dyn) (e : Field) : Dyn :=
  Dyn.fit { d with table := e :: d.table, size := d.size + entrySize e }

/-- `HeaderTable::get_from_table` (1-based; static table first, then the dynamic table). -/
def Dyn.get (d : Dyn) (index : Nat) : Option Field :=
  if index = 0 then none
  else
    let i := index - 1
    if i < Gen.Hpack.staticTable.length then Gen.Hpack.staticTable[i]?
    else d.table[i - Gen.Hpack.staticTable.length]?

/-- continuation octets of `decode_integer`; `total` = octets used so far. -/
def decIntCont : Bytes → (value m total : Nat) → Option (Nat × Nat)
  | [], _, _, _ => none                                 -- NotEnoughOctets
  | b :: rest, value, m, total =>
    let total := total + 1
    let value := value + (b &&& 127).toNat * 2 ^ m
    if b &&& 128 != 128 then some (value, total)
    else if total = Gen.Hpack.octetLimit then none       -- TooManyOctets
    else decIntCont rest value (m + 7) total

/-- `decode_integer(buf, prefix_size)` for `1 ≤ prefix_size ≤ 8`: value and octets consumed. -/
def decInt (buf : Bytes) (prefixBits : Nat) : Option (Nat × Nat) :=
  match buf with
  | [] => none
  | b0 :: rest =>
    let mask := 2 ^ prefixBits - 1
    let v := b0.toNat % 2 ^ prefixBits
    if v < mask then some (v, 1) else decIntCont rest v 0 1

/-- bits of a byte string, most significant first (`BitIterator`). -/
def bitsOf : Bytes → List Bool
  | [] => []
  | b :: r =>
    [b &&& 128 != 0, b &&& 64 != 0, b &&& 32 != 0, b &&& 16 != 0,
     b &&& 8 != 0, b &&& 4 != 0, b &&& 2 != 0, b &&& 1 != 0] ++ bitsOf r

/-- the Huffman table grouped by code length (`HashMap<u8, HashMap<u32, _>>` in the crate):
entry `len` = the `(code, symbol)` pairs of that length -/
def huffIndex (tbl : List (Nat × Nat)) : Array (List (Nat × Nat)) :=
  (Array.range 33).map fun len => (tbl.zipIdx.filter (fun e => e.1.2 == len)).map (fun e => (e.1.1, e.2))

def huffByLen : Array (List (Nat × Nat)) := huffIndex Gen.Hpack.huffman

/-- symbol with code `(code, len)`, if any. -/
def huffFind (idx : Array (List (Nat × Nat))) (code len : Nat) : Option Nat :=
  (idx.getD len []).lookup code

def eosCode : Nat × Nat := Gen.Hpack.huffman.getD 256 (0, 0)

/-- the loop of `HuffmanDecoder::decode`: `none` = `EOSInString`; otherwise the decoded bytes
(reversed) and the leftover `(current, current_len)`. -/
def huffLoop (tbl : Array (List (Nat × Nat))) : List Bool → (cur len : Nat) → (acc : Bytes) → Option (Bytes × Nat × Nat)
  | [], cur, len, acc => some (acc, cur, len)
  | b :: bs, cur, len, acc =>
    let len := len + 1
    let cur := cur * 2 + (if b then 1 else 0)
    match huffFind tbl cur len with
    | some sym => if sym = 256 then none else huffLoop tbl bs 0 0 (UInt8.ofNat sym :: acc)
    | none => huffLoop tbl bs cur len acc

/-- `HuffmanDecoder::decode` -/
def huffDecode (buf : Bytes) : Option Bytes :=
  match huffLoop huffByLen (bitsOf buf) 0 0 [] with
  | none => none
  | some (acc, cur, len) =>
    if len > 7 then none                                   -- PaddingTooLarge
    else
      -- padding must equal the `len` most significant bits of EOS
      let eos := eosCode
      if cur = eos.1 / 2 ^ (eos.2 - len) then some acc.reverse else none   -- InvalidPadding

/-- `decode_string`: the string and the octets consumed. -/
def decString (buf : Bytes) : Option (Bytes × Nat) :=
  match decInt buf 7 with
  | none => none
  | some (len, used) =>
    if used + len > buf.length then none
    else
      let raw := (buf.drop used).take len
      match buf with
      | b0 :: _ =>
        if b0 &&& 128 = 128 then
          match huffDecode raw with
          | some s => some (s, used + len)
          | none => none
        else some (raw, used + len)
      | [] => none

/-- `decode_literal(buf, index)`: field and octets consumed. -/
def decLiteral (d : Dyn) (buf : Bytes) (indexed : Bool) : Option (Field × Nat) :=
  match decInt buf (if indexed then 6 else 4) with
  | none => none
  | some (ti, used) =>
    let nameR : Option (Bytes × Nat) :=
      if ti = 0 then
        match decString (buf.drop used) with
        | some (n, k) => some (n, used + k)
        | none => none
      else
        match d.get ti with
        | some (n, _) => some (n, used)
        | none => none
    match nameR with
    | none => none
    | some (name, used) =>
      match decString (buf.drop used) with
      | some (v, k) => some ((name, v), used + k)
      | none => none

/-- One iteration of `decode_with_cb`: emitted field (if any), new table, octets consumed. -/
def decStep (d : Dyn) (buf : Bytes) : Option (Option Field × Dyn × Nat) :=
  match buf with
  | [] => none
  | b0 :: _ =>
    if b0 &&& 128 = 128 then                         -- Indexed
      match decInt buf 7 with
      | none => none
      | some (i, used) =>
        match d.get i with
        | some f => some (some f, d, used)
        | none => none
    else if b0 &&& 64 = 64 then                      -- LiteralWithIncrementalIndexing
      match decLiteral d buf true with
      | some (f, used) => some (some f, d.add f, used)
      | none => none
    else if b0 &&& 32 = 32 then                      -- SizeUpdate
      match decInt buf 5 with
      | some (n, used) => some (none, d.setMax n, used)
      | none => none
    else                                             -- LiteralNeverIndexed / LiteralWithoutIndexing
      match decLiteral d buf false with
      | some (f, used) => some (some f, d, used)
      | none => none

/-- `decode_with_cb` + collecting callback; fuel = block length (each step consumes ≥ 1 octet). -/
def decLoop : Nat → Dyn → Bytes → List Field → Option (List Field) × Dyn
  | 0, d, buf, acc => (if buf.isEmpty then some acc.reverse else none, d)
  | fuel + 1, d, buf, acc =>
    if buf.isEmpty then (some acc.reverse, d)
    else
      match decStep d buf with
      | none => (none, d)
      | some (f, d', used) =>
        decLoop fuel d' (buf.drop used) (match f with | some x => x :: acc | none => acc)

/-- `Decoder::decode` -/
def decode (d : Dyn) (buf : Bytes) : Option (List Field) × Dyn := decLoop buf.length d buf []

end HpackCrate

/-- the crate as an instance of the interface -/
def Hpack.crate : Hpack := { σ := HpackCrate.Dyn, init := {}, dec := HpackCrate.decode }

end Huginn.H2
