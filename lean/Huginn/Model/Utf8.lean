import Huginn.Model.H2Frames
/-
`std::str::from_utf8` validity and `String::from_utf8_lossy` (third-party = Rust std; modelled
from the Unicode "well-formed UTF-8 byte sequences" table, exercised through the harness).

`lossy` returns the UTF-8 bytes of the resulting `String`: every maximal ill-formed prefix
("maximal subpart" in Unicode terms, which is what `Utf8Chunks` yields) is replaced by U+FFFD
(`EF BF BD`).
-/
namespace Huginn.H2

def isCont (b : UInt8) : Bool := 0x80 ≤ b && b ≤ 0xBF

/-- allowed range of the *second* byte after lead byte `b0` (Unicode table 3-7). -/
def second (b0 b1 : UInt8) : Bool :=
  if b0 == 0xE0 then 0xA0 ≤ b1 && b1 ≤ 0xBF
  else if b0 == 0xED then 0x80 ≤ b1 && b1 ≤ 0x9F
  else if b0 == 0xF0 then 0x90 ≤ b1 && b1 ≤ 0xBF
  else if b0 == 0xF4 then 0x80 ≤ b1 && b1 ≤ 0x8F
  else isCont b1

/-- length of the sequence a lead byte announces: 1..4, or 0 if it cannot start a sequence. -/
def leadLen (b0 : UInt8) : Nat :=
  if b0 < 0x80 then 1
  else if 0xC2 ≤ b0 && b0 ≤ 0xDF then 2
  else if 0xE0 ≤ b0 && b0 ≤ 0xEF then 3
  else if 0xF0 ≤ b0 && b0 ≤ 0xF4 then 4
  else 0

/-- decode one scalar value: `some n` = the first `n` bytes are one well-formed sequence;
`none` = ill-formed. -/
def utf8Step : Bytes → Option Nat
  | [] => none
  | b0 :: r =>
    match leadLen b0, r with
    | 1, _ => some 1
    | 2, b1 :: _ => if isCont b1 then some 2 else none
    | 3, b1 :: b2 :: _ => if second b0 b1 && isCont b2 then some 3 else none
    | 4, b1 :: b2 :: b3 :: _ => if second b0 b1 && isCont b2 && isCont b3 then some 4 else none
    | _, _ => none

def utf8ValidAux : Nat → Bytes → Bool
  | 0, b => b.isEmpty
  | fuel + 1, b =>
    if b.isEmpty then true
    else match utf8Step b with
      | some n => utf8ValidAux fuel (b.drop n)
      | none => false

/-- `std::str::from_utf8(b).is_ok()` -/
def utf8Valid (b : Bytes) : Bool := utf8ValidAux b.length b

/-- length (≥ 1) of the maximal ill-formed subpart at the head of `b`
(`b` non-empty, `utf8Step b = none`). -/
def badLen : Bytes → Nat
  | [] => 0
  | b0 :: r =>
    match leadLen b0, r with
    | 0, _ => 1
    | 1, _ => 1
    | 2, _ => 1
    | 3, b1 :: _ => if second b0 b1 then 2 else 1
    | 4, b1 :: b2 :: _ => if second b0 b1 then (if isCont b2 then 3 else 2) else 1
    | 4, [b1] => if second b0 b1 then 2 else 1
    | _, _ => 1

def replacement : Bytes := [0xEF, 0xBF, 0xBD]

def lossyAux : Nat → Bytes → Bytes
  | 0, _ => []
  | fuel + 1, b =>
    if b.isEmpty then []
    else match utf8Step b with
      | some n => b.take n ++ lossyAux fuel (b.drop n)
      | none => replacement ++ lossyAux fuel (b.drop (badLen b))

/-- UTF-8 bytes of `String::from_utf8_lossy(b)` -/
def lossy (b : Bytes) : Bytes := lossyAux b.length b

end Huginn.H2
