import Huginn.Model.TcpExtract
/-!
Checked-access mirrors of the TCP-level functions (C01: analysis is total), in the style of
`Model/WireChecked.lean`.

Every indexing `x[i]`, slicing `&x[i..]` / `x[i..j]`, integer `%` / `/` by a non-literal, unguarded
`-` and fallible conversion of
  huginn-net-tcp/src/tcp_process.rs  (`visit_tcp`: the option walk incl. the advance
                                      `buf = &buf[opt.packet_size().min(buf.len())..]`, the MSS /
                                      WSCALE / TIMESTAMPS arms; `process_tcp_ipv4/6`)
  huginn-net-tcp/src/window_size.rs  (`check_mss_div!` / `check_mtu_div!`: `window_size % $div`,
                                      `window_size / $div`; the constant subtractions)
  huginn-net-tcp/src/ip_options.rs   (`payload[1]`)
  huginn-net-tcp/src/mtu.rs          (saturating arithmetic only: no panic-capable expression)
is written with accessors that *fail* (`Except.error`) exactly where Rust panics (or, for
`try_into()`, where the code would take its unreachable `Err` path), behind the guards as written.
The pnet views the walk is built on (`TcpOptionPacket::new/get_number/get_length_raw/payload/
packet_size`, `TcpPacket::get_options_raw/payload`, `Ipv4Packet/Ipv6Packet::payload`) are mirrored the
same way from the macro templates (third party; as read).
Props/C01Tcp.lean proves that no run faults and that the results are the ones the total model
`Model/TcpExtract.lean` computes — so the `getD`/`take`/`drop` defaults of that model are never
observed.
-/
namespace Huginn.TcpChecked
open Huginn.Sig Huginn.TcpExtract Huginn.Gen

inductive Fault
  | index (i len : Nat)        -- `x[i]` with `i >= x.len()`
  | slice (i j len : Nat)      -- `&x[i..j]` with `i > j` or `j > x.len()`
  | divZero                    -- `a % 0`, `a / 0`
  | overflow                   -- unguarded `a - b` with `b > a` (debug build)
  | tryInto (len : Nat)        -- `<[u8; 4]>::try_from(slice)` on a slice of another length
  deriving DecidableEq, Repr

abbrev M := Except Fault

instance decEqM {α : Type} [DecidableEq α] : DecidableEq (M α) := fun a b =>
  match a, b with
  | .ok x, .ok y => if h : x = y then isTrue (by rw [h]) else isFalse (fun e => h (Except.ok.inj e))
  | .error x, .error y => if h : x = y then isTrue (by rw [h]) else isFalse (fun e => h (Except.error.inj e))
  | .ok _, .error _ => isFalse (fun e => nomatch e)
  | .error _, .ok _ => isFalse (fun e => nomatch e)

/-- `b[i]` -/
def idx (b : Bytes) (i : Nat) : M Nat :=
  if h : i < b.length then .ok b[i] else .error (.index i b.length)
/-- `&b[i..]` -/
def from_ (b : Bytes) (i : Nat) : M Bytes :=
  if i ≤ b.length then .ok (b.drop i) else .error (.slice i b.length b.length)
/-- `&b[i..j]` -/
def range (b : Bytes) (i j : Nat) : M Bytes :=
  if i ≤ j ∧ j ≤ b.length then .ok ((b.take j).drop i) else .error (.slice i j b.length)
def cmod (a b : Nat) : M Nat := if b = 0 then .error .divZero else .ok (a % b)
def cdiv (a b : Nat) : M Nat := if b = 0 then .error .divZero else .ok (a / b)
def csub (a b : Nat) : M Nat := if b ≤ a then .ok (a - b) else .error .overflow
/-- `slice.try_into::<[u8; 4]>()` followed by `u32::from_be_bytes` -/
def be32Of (s : Bytes) : M Nat :=
  match s with
  | [a, b, c, d] => .ok (be32 a b c d)
  | _ => .error (.tryInto s.length)

/-! ### pnet `TcpOptionPacket` (third party, as read from the macro templates) -/

/-- `tcp_option_length`: 0 for EOL/NOP, else 1; reads `packet[0]` (`new` guarantees one byte) -/
def optLenFieldC (buf : Bytes) : M Nat := do
  let k ← idx buf 0
  pure (if k = 0 ∨ k = 1 then 0 else 1)

/-- `get_length_raw()`: `&packet[1 .. min(1 + tcp_option_length, len)]` -/
def lengthRawC (buf : Bytes) : M Bytes := do
  let l ← optLenFieldC buf
  range buf 1 (min (1 + l) buf.length)

/-- `tcp_option_payload_length` -/
def optPayloadLenC (buf : Bytes) : M Nat := do
  let raw ← lengthRawC buf
  pure (match raw.head? with
    | some l => if l ≥ 2 then l - 2 else 0     -- `*len as usize - 2` behind `*len >= 2`
    | none => 0)

/-- `packet_size()` -/
def optSizeC (buf : Bytes) : M Nat := do
  let l ← optLenFieldC buf
  let p ← optPayloadLenC buf
  pure (1 + l + p)

/-- `payload()`: `if len <= start { &[] } else { &packet[start .. min(start + payload_len, len)] }` -/
def optPayloadC (buf : Bytes) : M Bytes := do
  let l ← optLenFieldC buf
  let p ← optPayloadLenC buf
  let start := 1 + l
  if buf.length ≤ start then pure []
  else range buf start (min (start + p) buf.length)

/-! ### tcp_process.rs: the arms of the option `match` -/

/-- one iteration body, `data = opt.payload()`, `rest` = the advanced `buf` -/
def walkStepC (ty kind : Nat) (data rest : Bytes) (st : WalkSt) : M WalkSt :=
  match kind with
  | 0 => pure (walkStep ty 0 data rest st)                 -- no index, `buf.len() as u8` truncates
  | 1 => pure (walkStep ty 1 data rest st)
  | 2 =>
    if data.length ≥ 2 then do                              -- `if data.len() >= 2`
      let a ← idx data 0                                    -- `data[0]`
      let b ← idx data 1                                    -- `data[1]`
      pure { st with olayout := st.olayout ++ [.mss], mss := some (be16 a b) }
    else pure { st with olayout := st.olayout ++ [.mss] }
  | 3 => pure (walkStep ty 3 data rest st)                  -- `data.first()` (after the fix commit)
  | 4 => pure (walkStep ty 4 data rest st)
  | 5 => pure (walkStep ty 5 data rest st)
  | 8 => do
    let q1 : List Quirk ← (if data.length ≥ 4 then do       -- `if data.len() >= 4`
        let s ← range data 0 4                              -- `data[..4]`
        let v ← be32Of s                                    -- `.try_into().map_err(..)?`
        pure (if v = 0 then [Quirk.ownTimestampZero] else [])
      else pure [])
    let q2 : List Quirk ← (if data.length ≥ 8 ∧ ty = SYN then do   -- `data.len() >= 8 && tcp_type == SYN`
        let s ← range data 4 8                              -- `data[4..8]`
        let v ← be32Of s
        pure (if v ≠ 0 then [Quirk.peerTimestampNonZero] else [])
      else pure [])
    let calls : List Nat ← (if data.length ≥ 8 then do      -- `if data.len() >= 8`
        let s ← range data 0 4                              -- `data[..4]`
        let v ← be32Of s
        pure [v]
      else pure [])
    -- each push guarded by `!quirks.contains(..)` (no index)
    pure { st with olayout := st.olayout ++ [.ts], quirks := addNew st.quirks (q1 ++ q2),
                   tsCalls := st.tsCalls ++ calls }
  | k => pure (walkStep ty k data rest st)

/-- `while let Some(opt) = TcpOptionPacket::new(buf) { buf = &buf[opt.packet_size().min(buf.len())..]; … }`
with explicit fuel. -/
def walkC (ty : Nat) : Nat → Bytes → WalkSt → M WalkSt
  | 0, _, st => pure st
  | _ + 1, [], st => pure st                               -- `TcpOptionPacket::new(&[])` is `None`
  | n + 1, k :: tl, st => do
    let buf := k :: tl
    let size ← optSizeC buf
    let rest ← from_ buf (min size buf.length)             -- the advance
    let data ← optPayloadC buf
    let kind ← idx buf 0                                   -- `opt.get_number()`
    let st' ← walkStepC ty kind data rest st
    walkC ty n rest st'

/-! ### window_size.rs -/

/-- `check_mss_div!` / `check_mtu_div!`: `$div != 0 && window_size % $div == 0`, then
`window_size / $div`, then `multiplier <= MAX_MULTIPLIER` (so `as u8` does not truncate) -/
def checkDivC (w d : Nat) : M (Option Nat) :=
  if d ≠ 0 then do
    let r ← cmod w d
    if r = 0 then do
      let q ← cdiv w d
      pure (if q ≤ TcpConst.maxMultiplier then some q else none)
    else pure none
  else pure none

def firstDivC (w : Nat) : List Nat → M (Option Nat)
  | [] => pure none
  | d :: r => do
    match ← checkDivC w d with
    | some n => pure (some n)
    | none => firstDivC w r

/-- the divisors of steps 3–4, the constant subtractions `ETH_MTU - MIN_TCP4 [- TS_SIZE]` checked -/
def mtuDivsC (mss hdr : Nat) (ts : Bool) (ver : IpVersion) : M (List Nat) := do
  let fixed ← (match ver with
    | .v4 => do
      let a ← csub TcpConst.ethMtu TcpConst.minTcp4
      if ts then do let b ← csub a TcpConst.tsSize; pure [a, b] else pure [a]
    | .v6 => do
      let a ← csub TcpConst.ethMtu TcpConst.minTcp6
      if ts then do let b ← csub a TcpConst.tsSize; pure [a, b] else pure [a]
    | .any => pure [])
  pure ([TcpConst.ethMtu] ++ fixed ++
    (if mss > 0 then
      (if hdr > 0 then chkAdd16 mss hdr
       else match ver with
        | .v4 => chkAdd16 mss TcpConst.minTcp4
        | .v6 => chkAdd16 mss TcpConst.minTcp6
        | .any => [])
     else []))

def detectWinC (w mss hdr : Nat) (ts : Bool) (ver : IpVersion) : M WindowSize :=
  if w = 0 ∨ mss < TcpConst.minMss then pure (.value w)
  else do
    match ← firstDivC w (mssDivs mss ts) with               -- `saturating_sub(TS_SIZE)`: no site
    | some n => pure (.mss n)
    | none =>
      match TcpConst.modulos.find? (fun m => m ≠ 0 ∧ w % m = 0) with   -- `checked_rem`
      | some m => pure (.mod m)
      | none => do
        let ds ← mtuDivsC mss hdr ts ver
        match ← firstDivC w ds with
        | some n => pure (.mtu n)
        | none => pure (.value w)

/-! ### ip_options.rs -/

/-- `calculate_ipv6_length(next_header, payload)` (`IpNextHeaderProtocols::Tcp` = 6, `Ipv6Frag` = 44);
`checked_add(1).and_then(checked_mul(8)).unwrap_or(0)` on `usize` cannot overflow for a byte;
`len as u8` truncates. -/
def calcIpv6LenC (next : Nat) (payload : Bytes) : M Nat :=
  if next = 6 then pure 0
  else if payload.isEmpty then pure 0
  else if next = 44 then pure 8
  else if payload.length ≥ 2 then do
    let h ← idx payload 1                                   -- `payload[1]`
    pure (((h + 1) * 8) % 256)
  else pure 0

/-! ### tcp_process.rs: `visit_tcp`, `process_tcp_ipv4/6` -/

def visitTcpC (t : TcpHdr) (ver : IpVersion) (ittl : Ttl) (ipHdrLen olen : Nat) (q0 : List Quirk) :
    M Outcome :=
  let fl := t.flags
  let ty := tcpType fl
  if !isValid fl ty then pure (.error .flags)
  else do
    let st ← walkC ty t.opts.length t.opts { quirks := q0 ++ tcpQuirks q0 t }
    -- `options_malformed`: `split_first` / `first` / `get(len..)` only — no index, slice or arithmetic
    let quirks := st.quirks ++ (if optionsMalformed t.opts then [.optBad] else [])
    let mtu : Option Nat := match st.mss, ver with          -- mtu.rs: saturating arithmetic only
      | some m, .v4 => extractMtu4 fl ipHdrLen t.doff m
      | some m, .v6 => extractMtu6 fl ipHdrLen t.doff m
      | _, _ => none
    let wsize ← detectWinC t.window (st.mss.getD 0) 0 (st.olayout.contains .ts) ver
    let sig : TcpSig :=
      { version := ver, ittl := ittl, olen := olen, mss := st.mss, wsize := wsize, wscale := st.wscale,
        olayout := st.olayout, quirks := quirks,
        pclass := if t.payLen = 0 then .zero else .nonZero }
    let fc := fromClient fl
    pure (.ok { syn := if fc then some sig else none,
                synAck := if !fc then some sig else none,
                mtu := if fc then mtu else none,
                tsCalls := st.tsCalls.map (fun v => (isPacketFromClient fl t.sport t.dport, v)) })

def processC (f : Fields) : M Outcome :=
  if f.ip.v6 then
    if f.ip.proto ≠ PROTO_TCP then pure (.error .unsupported)
    else visitTcpC f.tcp .v6 (calculateTtl f.ip.ttl) TcpConst.ipv6HdrLen ipv6OptLen (ipQuirksV6 f.ip)
  else
    if f.ip.proto ≠ PROTO_TCP then pure (.error .unsupported)
    else if f.ip.fragOff > 0 ∨ f.ip.flags &&& IP_MF = IP_MF then pure (.error .unexpected)
    else visitTcpC f.tcp .v4 (calculateTtl f.ip.ttl) f.ip.ihl (ipv4OptLen f.ip.ihl) (ipQuirksV4 f.ip)

/-! ### pnet packet views used by `process.rs` / `tcp_process.rs` (third party, as read) -/

/-- `TcpPacket::new(p)`, `get_options_raw()` = `&packet[20 .. min(20 + options_len, len)]`, the fixed
header fields at their offsets -/
def decodeTcpC (p : Bytes) : M (Option TcpHdr) :=
  if p.length < 20 then pure none
  else do
    let b12 ← idx p 12
    let b13 ← idx p 13
    let doff := b12 / 16
    let optLen := if doff > 5 then doff * 4 - 20 else 0     -- `data_offset as usize * 4 - 20` behind `> 5`
    let opts ← range p 20 (min (20 + optLen) p.length)
    pure (some { sport := u16At p 0, dport := u16At p 2, seq := u32At p 4, ack := u32At p 8, doff := doff,
                 flags := b13, window := u16At p 14, urg := u16At p 18, opts := opts,
                 payLen := p.length - (20 + optLen) })

/-- `Ipv4Packet::payload()`: `if len <= start { &[] } else { &packet[start .. min(start + plen, len)] }` -/
def ip4PayloadC (b : Bytes) : M Bytes := do
  let b0 ← idx b 0
  let ihl := b0 % 16
  let start := 20 + (ihl * 4 - 20)                          -- `saturating_sub`
  let plen := u16At b 2 - ihl * 4                           -- `saturating_sub`
  if b.length ≤ start then pure [] else range b start (min (start + plen) b.length)

def ip6PayloadC (b : Bytes) : M Bytes :=
  if b.length ≤ 40 then pure [] else range b 40 (min (40 + u16At b 4) b.length)

end Huginn.TcpChecked
