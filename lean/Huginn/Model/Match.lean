import Huginn.Model.Sig
import Huginn.Gen.Score
/-
Model of the matching layer of huginn-net-db *as it is*:

  tcp.rs                               `distance_ip_version`, `distance_ttl`, `distance_window_size`,
                                       `distance_payload_size`, `TcpMatchQuality::distance_to_score`
  http.rs                              `HttpMatchQuality::distance_to_score`
  observable_tcp_signals_matching.rs   `distance_{olen,mss,wscale,olayout,quirks}`, `calculate_distance`,
                                       `generate_index_key`, `generate_index_keys_for_db_entry`
  observable_http_signals_matching.rs  `distance_ip_version` (HTTP version), `distance_header`,
                                       `distance_expsw`, `calculate_http_distance`, `generate_http_index_keys`
  observable_signals.rs                `generate_index_key` of the two HTTP observations
  db.rs                                `FingerprintCollection::new`, `find_best_match`

Numbers are `Nat`; `u32`/`u8` saturating additions are explicit (`satAdd32`, `satAdd8`).
The `as_score` values, the two score tables, `MAX_DISTANCE` and the error bands of
`distance_header` come from the regenerated `Gen/Score.lean`.
`std::collections::HashMap` is a finite map: an association list from key to the vector of
`(label_idx, sig_idx)` pushed under it, in insertion order.
-/
namespace Huginn.Match
open Huginn.Sig

def u32Max : Nat := 4294967295
def satAdd32 (a b : Nat) : Nat := min (a + b) u32Max
def satAdd8 (a b : Nat) : Nat := min (a + b) 255

/-! ### quality classes (`as_score`) -/

def asScore (t : List (String × Nat)) (name : String) : Nat := (t.lookup name).getD 0

def tcpHigh : Nat := asScore Gen.Score.tcpAsScore "High"
def tcpMedium : Nat := asScore Gen.Score.tcpAsScore "Medium"
def tcpLow : Nat := asScore Gen.Score.tcpAsScore "Low"
def httpHigh : Nat := asScore Gen.Score.httpAsScore "High"
def httpBad : Nat := asScore Gen.Score.httpAsScore "Bad"

/-- `if a == b { High } else { Low }` -/
def eqLow (c : Bool) : Option Nat := if c then some tcpHigh else some tcpLow

/-! ### TCP component distances (receiver = observation, argument = signature) -/

/-- `IpVersion::distance_ip_version(&self /*observed*/, other /*signature*/)` -/
def distIpVersion (obs sig : IpVersion) : Option Nat :=
  if sig = .any then some tcpHigh
  else match obs, sig with
    | .v4, .v4 => some tcpHigh
    | .v6, .v6 => some tcpHigh
    | _, _ => none

/-- `Ttl::distance_ttl` -/
def distTtl (obs sig : Ttl) : Option Nat :=
  match obs, sig with
  | .value a, .value b => eqLow (a == b)
  | .distance a1 a2, .distance b1 b2 => eqLow (a1 == b1 && a2 == b2)
  | .distance a1 a2, .value b1 => eqLow (satAdd8 a1 a2 == b1)
  | .guess a, .guess b => eqLow (a == b)
  | .bad a, .bad b => eqLow (a == b)
  | .guess a, .value b => eqLow (a == b)
  | .value a, .distance b1 b2 => eqLow (a == satAdd8 b1 b2)
  | .value a, .guess b => eqLow (a == b)
  | _, _ => none

/-- `WindowSize::distance_window_size(&self /*observed*/, other /*signature*/, mss /*observed*/)`.
`a.checked_div(mss)` / `a.checked_rem(b)` are `None` exactly for a zero divisor;
`*b as u16 == ratio`. -/
def distWindow (obs sig : WindowSize) (mss : Option Nat) : Option Nat :=
  match obs, sig with
  | .mss a, .mss b => eqLow (a == b)
  | .mtu a, .mtu b => eqLow (a == b)
  | .value a, .mss b =>
    match mss with
    | some m => if m = 0 then some tcpLow else eqLow (b == a / m && a % m == 0)
    | none => some tcpLow
  | .mod a, .mod b => eqLow (a == b || (a != 0 && b != 0 && a % b == 0))
  | .value a, .mod b => eqLow (b != 0 && a % b == 0)
  | .value a, .value b => eqLow (a == b)
  | _, .any => some tcpHigh
  | _, _ => none

def distOlen (obs : TcpObs) (sig : TcpSig) : Option Nat := eqLow (obs.olen == sig.olen)

def distMss (obs : TcpObs) (sig : TcpSig) : Option Nat :=
  if sig.mss.isNone || obs.mss == sig.mss then some tcpHigh else some tcpLow

def distWscale (obs : TcpObs) (sig : TcpSig) : Option Nat :=
  if sig.wscale.isNone || obs.wscale == sig.wscale then some tcpHigh else some tcpMedium

def distOlayout (obs : TcpObs) (sig : TcpSig) : Option Nat :=
  if obs.olayout = sig.olayout then some tcpHigh else none

def distQuirks (obs : TcpObs) (sig : TcpSig) : Option Nat :=
  if obs.quirks = sig.quirks then some tcpHigh else none

/-- `PayloadSize::distance_payload_size` -/
def distPayload (obs sig : PayloadSize) : Option Nat :=
  if sig = .any ∨ obs = sig then some tcpHigh else none

/-- `<tcp::Signature as DatabaseSignature<TcpObservation>>::calculate_distance` -/
def tcpDistance (sig : TcpSig) (obs : TcpObs) : Option Nat := do
  let d0 ← distIpVersion obs.version sig.version
  let d1 ← distTtl obs.ittl sig.ittl
  let d2 ← distOlen obs sig
  let d3 ← distMss obs sig
  let d4 ← distWindow obs.wsize sig.wsize obs.mss
  let d5 ← distWscale obs sig
  let d6 ← distOlayout obs sig
  let d7 ← distQuirks obs sig
  let d8 ← distPayload obs.pclass sig.pclass
  pure (satAdd32 (satAdd32 (satAdd32 (satAdd32 (satAdd32 (satAdd32 (satAdd32 (satAdd32 d0 d1) d2) d3) d4) d5) d6) d7) d8)

/-! ### HTTP component distances -/

/-- `HttpDistance::distance_ip_version` (it compares HTTP versions) -/
def distHttpVersion (obs sig : HttpVersion) : Option Nat :=
  if sig = .any ∨ obs = sig then some httpHigh else none

def reqErr (s : Header) : Nat := if s.optional then 0 else 1

/-- The error count of the two-pointer loop of `distance_header` (before saturation). Every
iteration of the first `while` advances the signature pointer, so the recursion is structural
on the signature list; the two trailing `while`s are the two base cases. -/
def hdrErrors : List Header → List Header → Nat
  | os, [] => os.length
  | [], s :: ss => reqErr s + hdrErrors [] ss
  | o :: os, s :: ss =>
    if o.name = s.name ∧ (s.value = none ∨ o.value = s.value) then hdrErrors os ss
    else if o.name = s.name then reqErr s + hdrErrors os ss
    else if s.optional then hdrErrors (o :: os) ss
    else 1 + hdrErrors (o :: os) ss

/-- First-match lookup in a table of rows `(lo, hi, v)`. -/
def bandFind {α} (t : List (Nat × Nat × α)) (d : Nat) : Option α :=
  (t.find? (fun r => decide (r.1 ≤ d ∧ d ≤ r.2.1))).map (·.2.2)

/-- `match errors { 0..=2 => Some(High) … _ => None }` -/
def errorBand (e : Nat) : Option Nat :=
  match bandFind Gen.Score.headerErrorBands e with
  | some (some q) => some (asScore Gen.Score.httpAsScore q)
  | _ => none

/-- `HttpDistance::distance_header(observed, signature)`; `errors` is a saturating `u32`. -/
def distHeader (obs sig : List Header) : Option Nat := errorBand (min (hdrErrors obs sig) u32Max)

/-- `p` occurs in `l` as a contiguous block (`str::contains` on the characters). -/
def isInfixOf (p : List Char) : List Char → Bool
  | [] => p.isEmpty
  | c :: l => p.isPrefixOf (c :: l) || isInfixOf p l

/-- `distance_expsw`: `other /*signature*/ .expsw.contains(self /*observed*/ .expsw)`. -/
def distExpsw (obs sig : String) : Option Nat :=
  if isInfixOf obs.toList sig.toList then some httpHigh else some httpBad

/-- `calculate_http_distance` (shared by request and response observations). -/
def httpDistance (sig : HttpSig) (obs : HttpObs) : Option Nat := do
  let d0 ← distHttpVersion obs.version sig.version
  let d1 ← distHeader obs.horder sig.horder
  let d2 ← distHeader obs.habsent sig.habsent
  let d3 ← distExpsw obs.expsw sig.expsw
  pure (satAdd32 (satAdd32 (satAdd32 d0 d1) d2) d3)

/-! ### distance → quality (hundredths) -/

def scoreOf (t : List (Nat × Nat × Nat)) (d : Nat) : Nat := (bandFind t d).getD 0

/-- `TcpMatchQuality::distance_to_score`, in hundredths. -/
def tcpScore (d : Nat) : Nat := scoreOf Gen.Score.tcpScoreTable d
/-- `HttpMatchQuality::distance_to_score`, in hundredths. -/
def httpScore (d : Nat) : Nat := scoreOf Gen.Score.httpScoreTable d

/-- What Rust's `{}` prints for the `f32` literal `c/100` (two decimals at most). -/
def renderCenti (c : Nat) : String :=
  let i := c / 100
  let f := c % 100
  if f = 0 then toString i
  else if f % 10 = 0 then s!"{i}.{f / 10}"
  else if f < 10 then s!"{i}.0{f}"
  else s!"{i}.{f}"

/-! ### index keys -/

def digitChar (n : Nat) : Char := Char.ofNat (48 + n)

/-- Decimal rendering (`{n}` of an unsigned integer). -/
def decChars (n : Nat) : List Char :=
  if _ : n < 10 then [digitChar n] else decChars (n / 10) ++ [digitChar (n % 10)]
termination_by n
decreasing_by omega

/-- `impl Display for TcpOption` (display.rs). -/
def optChars : TcpOption → List Char
  | .eol n => ['e', 'o', 'l', '+'] ++ decChars n
  | .nop => ['n', 'o', 'p']
  | .mss => ['m', 's', 's']
  | .ws => ['w', 's']
  | .sok => ['s', 'o', 'k']
  | .sack => ['s', 'a', 'c', 'k']
  | .ts => ['t', 's']
  | .unknown n => '?' :: decChars n

/-- `parts.join(",")` -/
def joinComma : List (List Char) → List Char
  | [] => []
  | t :: r => t ++ r.flatMap (fun x => ',' :: x)

def olayoutChars (l : List TcpOption) : List Char := joinComma (l.map optChars)

/-- The `olayout_key` string of `TcpIndexKey`. -/
def olayoutKey (l : List TcpOption) : String := String.ofList (olayoutChars l)

structure TcpKey where
  version : IpVersion
  olayout : String
  pclass  : PayloadSize
  deriving DecidableEq, Repr

structure HttpKey where
  version : HttpVersion
  deriving DecidableEq, Repr

/-- `TcpObservation::generate_index_key` -/
def tcpObsKey (o : TcpObs) : TcpKey := ⟨o.version, olayoutKey o.olayout, o.pclass⟩

/-- `tcp::Signature::generate_index_keys_for_db_entry` (version loop outside, pclass loop inside). -/
def tcpSigKeys (s : TcpSig) : List TcpKey :=
  let vs := if s.version = .any then [IpVersion.v4, IpVersion.v6] else [s.version]
  let ps := if s.pclass = .any then [PayloadSize.zero, PayloadSize.nonZero] else [s.pclass]
  vs.flatMap (fun v => ps.map (fun p => ⟨v, olayoutKey s.olayout, p⟩))

/-- `Http{Request,Response}Observation::generate_index_key` -/
def httpObsKey (o : HttpObs) : HttpKey := ⟨o.version⟩

/-- `generate_http_index_keys` -/
def httpSigKeys (s : HttpSig) : List HttpKey :=
  if s.version = .any then [⟨.v10⟩, ⟨.v11⟩, ⟨.v20⟩, ⟨.v30⟩] else [⟨s.version⟩]

/-! ### the index and the lookup (generic in signature `σ`, observation `ω`, key `κ`) -/

/-- `HashMap<K, Vec<(usize, usize)>>` as a finite map. -/
abbrev Index (κ : Type) := List (κ × List (Nat × Nat))

variable {κ σ ω lbl : Type} [DecidableEq κ]

/-- `index.get(&k)` -/
def Index.get : Index κ → κ → Option (List (Nat × Nat))
  | [], _ => none
  | (k', vs) :: r, k => if k' = k then some vs else Index.get r k

/-- `index.entry(k).or_insert_with(Vec::new).push(v)` -/
def Index.push : Index κ → κ → Nat × Nat → Index κ
  | [], k, v => [(k, [v])]
  | (k', vs) :: r, k, v => if k' = k then (k', vs ++ [v]) :: r else (k', vs) :: Index.push r k v

/-- The `(key, (label_idx, sig_idx))` pushes performed for one label's signature vector,
`sig_idx` counting from `si`. -/
def sigPushes (keysOf : σ → List κ) (li : Nat) : Nat → List σ → List (κ × (Nat × Nat))
  | _, [] => []
  | si, s :: r => (keysOf s).map (fun k => (k, (li, si))) ++ sigPushes keysOf li (si + 1) r

/-- All pushes of the three nested loops of `FingerprintCollection::new`, in execution order. -/
def dbPushes (keysOf : σ → List κ) : Nat → List (lbl × List σ) → List (κ × (Nat × Nat))
  | _, [] => []
  | li, e :: r => sigPushes keysOf li 0 e.2 ++ dbPushes keysOf (li + 1) r

/-- `FingerprintCollection::new(entries).index` -/
def mkIndex (keysOf : σ → List κ) (db : List (lbl × List σ)) : Index κ :=
  (dbPushes keysOf 0 db).foldl (fun idx p => idx.push p.1 p.2) []

/-- The candidate loop of `find_best_match`. Outer `none` = an index panic
(`self.entries[label_idx]` / `sig_vec[sig_idx]` out of bounds). State: best candidate so far
and `min_distance`. -/
def findLoop (dist : σ → ω → Option Nat) (db : List (lbl × List σ)) (o : ω) :
    List (Nat × Nat) → Option (Nat × Nat) → Nat → Option (Option (Nat × Nat) × Nat)
  | [], best, m => some (best, m)
  | c :: r, best, m =>
    match db[c.1]? with
    | none => none
    | some e =>
      match e.2[c.2]? with
      | none => none
      | some s =>
        match dist s o with
        | some d => if d < m then findLoop dist db o r (some c) d else findLoop dist db o r best m
        | none => findLoop dist db o r best m

/-- `find_best_match`: `some none` = `None`; `some (some (li, si, d))` = the label `li`, its
signature `si` and `min_distance = d` (the reported quality is the score of `d`); `none` = panic. -/
def findBest (dist : σ → ω → Option Nat) (keyOf : ω → κ) (idx : Index κ)
    (db : List (lbl × List σ)) (o : ω) : Option (Option (Nat × Nat × Nat)) :=
  match idx.get (keyOf o) with
  | none => some none
  | some cands =>
    if cands.isEmpty then some none
    else (findLoop dist db o cands none u32Max).map
      (fun st => st.1.map (fun c => (c.1, c.2, st.2)))

abbrev TcpDb := List (Label × List TcpSig)
abbrev HttpDb := List (Label × List HttpSig)

def tcpFind (db : TcpDb) (o : TcpObs) : Option (Option (Nat × Nat × Nat)) :=
  findBest tcpDistance tcpObsKey (mkIndex tcpSigKeys db) db o

/-- Request and response collections run the same code (`HttpDistance` default methods). -/
def httpFind (db : HttpDb) (o : HttpObs) : Option (Option (Nat × Nat × Nat)) :=
  findBest httpDistance httpObsKey (mkIndex httpSigKeys db) db o

end Huginn.Match
