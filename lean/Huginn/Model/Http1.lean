import Huginn.Gen.HttpLists
/-
Model of the HTTP/1.x path of huginn-net-http (C05):

  http1_parser.rs   head_bytes, Http1Parser::{parse_request, parse_response, parse_request_line,
                    parse_status_line, parse_headers, parse_cookies, is_valid_method}
  http1_process.rs  Http1Processor::{can_process_request, can_process_response},
                    convert_headers_to_http_format, build_absent_headers_from_new_parser,
                    convert_http1_{request,response}_to_observable, parse_http1_{request,response}
  http_process.rs   HttpProcessors::{parse_request, parse_response} (adapter order H1 then H2,
                    `can_parse` gates; the HTTP/2 parser itself is a parameter `H2`)
  http2_process.rs  only the two gates Http2Processor::can_process_{request,response},
                    looks_like_http2_response, is_http2_traffic
  http_languages.rs get_highest_quality_language
  huginn-net-db     display.rs (HttpDisplayFormat, Header), http.rs (lists via Gen.HttpLists)

Representation (one, everywhere): text is `Bytes`; the only place where the code cares about
UTF-8 is `std::str::from_utf8(head_bytes(data))`, mirrored by `utf8Valid`. After that boundary
every `&str` operation the code uses is mirrored bytewise:
  * `split("\r\n")`, `split('\n')`, `find(':')`, `split(';')` … act on ASCII separators, which never
    occur inside a multi-byte sequence of valid UTF-8;
  * `trim`, `split_whitespace` strip Unicode `White_Space` — mirrored by matching the UTF-8
    encodings of the 25 code points (`ws1`, `ws2`, `ws3`);
  * `to_lowercase` is mirrored for ASCII only (header names with non-ASCII *cased* letters are
    outside the model; the RFC 7230 token grammar is ASCII);
  * `String::from_utf8_lossy(data).lines().next()` in the gates: invalid bytes become U+FFFD, which
    is neither white space nor ASCII, so token boundaries and every comparison against the ASCII
    constants are the same on the raw bytes.
All functions are structurally recursive so that closed instances evaluate by `decide`.
-/
namespace Huginn.Http1
open Huginn.Gen

abbrev Bytes := List UInt8

/-- bytes of an ASCII string literal -/
def ascii (s : String) : Bytes := s.toList.map (fun c => UInt8.ofNat c.toNat)

def CR : UInt8 := 13
def LF : UInt8 := 10
def SP : UInt8 := 32
def HT : UInt8 := 9

/-! ### byte-string kit -/

/-- position of the first occurrence of `pat` (`windows(n).position(..)`, `str::find`) -/
def findSub (pat : Bytes) : Bytes → Option Nat
  | [] => if pat.isEmpty then some 0 else none
  | a :: as =>
    if pat.isPrefixOf (a :: as) then some 0
    else match findSub pat as with
      | some n => some (n + 1)
      | none => none

def containsSub (pat d : Bytes) : Bool := (findSub pat d).isSome

def consHead (a : UInt8) : List Bytes → List Bytes
  | [] => [[a]]
  | l :: ls => (a :: l) :: ls

/-- `str::split('x')` for a one-byte separator: always at least one piece. -/
def splitByte (s : UInt8) : Bytes → List Bytes
  | [] => [[]]
  | a :: rest => if a = s then [] :: splitByte s rest else consHead a (splitByte s rest)

/-- `str::split("\r\n")` -/
def splitCRLF : Bytes → List Bytes
  | [] => [[]]
  | [a] => [[a]]
  | a :: b :: rest =>
    if a = CR ∧ b = LF then [] :: splitCRLF rest else consHead a (splitCRLF (b :: rest))

/-- split at the first occurrence of a byte (`find(c)` + the two slices) -/
def splitFirst (s : UInt8) : Bytes → Option (Bytes × Bytes)
  | [] => none
  | a :: rest =>
    if a = s then some ([], rest)
    else match splitFirst s rest with
      | some (l, r) => some (a :: l, r)
      | none => none

/-- `splitn(3, ' ')` -/
def splitn3 (s : UInt8) (d : Bytes) : List Bytes :=
  match splitFirst s d with
  | none => [d]
  | some (a, r) =>
    match splitFirst s r with
    | none => [a, r]
    | some (b, r2) => [a, b, r2]

/-! ### Unicode White_Space on UTF-8 bytes (`char::is_whitespace`) -/

/-- U+0009..U+000D, U+0020 -/
def ws1 (b : UInt8) : Bool := b == 0x20 || b == 0x09 || b == 0x0A || b == 0x0B || b == 0x0C || b == 0x0D
/-- U+0085, U+00A0 -/
def ws2 (b c : UInt8) : Bool := b == 0xC2 && (c == 0x85 || c == 0xA0)
/-- U+1680, U+2000..U+200A, U+2028, U+2029, U+202F, U+205F, U+3000 -/
def ws3 (b c d : UInt8) : Bool :=
  (b == 0xE1 && c == 0x9A && d == 0x80) ||
  (b == 0xE2 && c == 0x80 &&
    (d == 0x80 || d == 0x81 || d == 0x82 || d == 0x83 || d == 0x84 || d == 0x85 || d == 0x86 ||
     d == 0x87 || d == 0x88 || d == 0x89 || d == 0x8A || d == 0xA8 || d == 0xA9 || d == 0xAF)) ||
  (b == 0xE2 && c == 0x81 && d == 0x9F) ||
  (b == 0xE3 && c == 0x80 && d == 0x80)

/-- `str::trim_start` -/
def trimStart : Bytes → Bytes
  | [] => []
  | b :: r =>
    if ws1 b then trimStart r else
    match r with
    | [] => b :: r
    | c :: r2 =>
      if ws2 b c then trimStart r2 else
      match r2 with
      | [] => b :: r
      | d :: r3 => if ws3 b c d then trimStart r3 else b :: r

/-- `trim_start` on the reversed string (patterns reversed) -/
def trimStartRev : Bytes → Bytes
  | [] => []
  | b :: r =>
    if ws1 b then trimStartRev r else
    match r with
    | [] => b :: r
    | c :: r2 =>
      if ws2 c b then trimStartRev r2 else
      match r2 with
      | [] => b :: r
      | d :: r3 => if ws3 d c b then trimStartRev r3 else b :: r

def trimEnd (d : Bytes) : Bytes := (trimStartRev d.reverse).reverse

/-- `str::trim` -/
def trim (d : Bytes) : Bytes := trimEnd (trimStart d)

/-- `char::is_ascii_whitespace`: SP, HT, LF, FF, CR (not VT) -/
def isAsciiWs (b : UInt8) : Bool := b == 0x20 || b == 0x09 || b == 0x0A || b == 0x0C || b == 0x0D

/-- `trim_ascii_ws` = `s.trim_matches(|c| c.is_ascii_whitespace())` (http1_parser.rs): header and
cookie values lose ASCII white space only -/
def trimAscii (d : Bytes) : Bytes := ((d.dropWhile isAsciiWs).reverse.dropWhile isAsciiWs).reverse

def flushTok (cur : Bytes) (rest : List Bytes) : List Bytes :=
  if cur.isEmpty then rest else cur.reverse :: rest

/-- `split_whitespace().collect()`; `cur` is the current token, reversed -/
def splitWsAux : Bytes → Bytes → List Bytes
  | [], cur => flushTok cur []
  | [b], cur => if ws1 b then flushTok cur [] else flushTok (b :: cur) []
  | [b, c], cur =>
    if ws1 b then flushTok cur (splitWsAux [c] [])
    else if ws2 b c then flushTok cur []
    else splitWsAux [c] (b :: cur)
  | b :: c :: d :: r, cur =>
    if ws1 b then flushTok cur (splitWsAux (c :: d :: r) [])
    else if ws2 b c then flushTok cur (splitWsAux (d :: r) [])
    else if ws3 b c d then flushTok cur (splitWsAux r [])
    else splitWsAux (c :: d :: r) (b :: cur)

def splitWs (d : Bytes) : List Bytes := splitWsAux d []

/-! ### `std::str::from_utf8` (Unicode 3.9, table 3-7) -/

def cont (b : UInt8) : Bool := decide (0x80 ≤ b) && decide (b ≤ 0xBF)

def lead3 (b0 b1 : UInt8) : Bool :=
  (b0 == 0xE0 && decide (0xA0 ≤ b1) && decide (b1 ≤ 0xBF)) ||
  (decide (0xE1 ≤ b0) && decide (b0 ≤ 0xEC) && cont b1) ||
  (b0 == 0xED && decide (0x80 ≤ b1) && decide (b1 ≤ 0x9F)) ||
  (decide (0xEE ≤ b0) && decide (b0 ≤ 0xEF) && cont b1)

def lead4 (b0 b1 : UInt8) : Bool :=
  (b0 == 0xF0 && decide (0x90 ≤ b1) && decide (b1 ≤ 0xBF)) ||
  (decide (0xF1 ≤ b0) && decide (b0 ≤ 0xF3) && cont b1) ||
  (b0 == 0xF4 && decide (0x80 ≤ b1) && decide (b1 ≤ 0x8F))

def utf8Valid : Bytes → Bool
  | [] => true
  | b0 :: r =>
    if b0 < 0x80 then utf8Valid r else
    match r with
    | [] => false
    | b1 :: r1 =>
      if 0xC2 ≤ b0 ∧ b0 ≤ 0xDF then cont b1 && utf8Valid r1 else
      match r1 with
      | [] => false
      | b2 :: r2 =>
        if lead3 b0 b1 then cont b2 && utf8Valid r2 else
        match r2 with
        | [] => false
        | b3 :: r3 => lead4 b0 b1 && cont b2 && cont b3 && utf8Valid r3

/-! ### small text functions -/

/-- ASCII `to_lowercase` (see header comment) -/
def lowerByte (b : UInt8) : UInt8 := if 65 ≤ b ∧ b ≤ 90 then b + 32 else b
def lower (d : Bytes) : Bytes := d.map lowerByte

def isDigit (b : UInt8) : Bool := decide (48 ≤ b) && decide (b ≤ 57)

def digitsVal : Bytes → Nat → Nat
  | [], acc => acc
  | b :: r, acc => digitsVal r (acc * 10 + (b.toNat - 48))

/-- `str::parse::<uN>()` for an unsigned type with maximum `max`: optional `+`, one or more
ASCII digits, value ≤ max. -/
def parseUnsigned (max : Nat) (d : Bytes) : Option Nat :=
  let ds := match d with
    | b :: r => if b = 43 then r else d
    | [] => d
  if ds.isEmpty || !(ds.all isDigit) then none
  else
    let v := digitsVal ds 0
    if v ≤ max then some v else none

/-! ### head_bytes -/

def crlfcrlf : Bytes := [CR, LF, CR, LF]
def lflf : Bytes := [LF, LF]
def crlf : Bytes := [CR, LF]

/-- `head_bytes` -/
def headBytes (data : Bytes) : Bytes :=
  let a := (findSub crlfcrlf data).map (· + 4)
  let b := (findSub lflf data).map (· + 2)
  let e := match a, b with
    | some a, some b => min a b
    | some a, none => a
    | none, some b => b
    | none, none => data.length
  data.take e

/-! ### parser types -/

inductive Ver | v10 | v11 | v20 | v30
  deriving DecidableEq, Repr, Inhabited

/-- `http::Version::parse`, over the regenerated arm table -/
def verOfName : String → Option Ver
  | "V10" => some .v10 | "V11" => some .v11 | "V20" => some .v20 | "V30" => some .v30 | _ => none

def parseVersion (d : Bytes) : Option Ver :=
  match HttpLists.versionArms.find? (fun a => ascii a.1 == d) with
  | some a => verOfName a.2
  | none => none

inductive PErr
  | invalidRequestLine | invalidStatusLine | invalidVersion | invalidMethod | invalidStatusCode
  | headerTooLong | tooManyHeaders | malformedHeader | incompleteData | invalidUtf8
  deriving DecidableEq, Repr, Inhabited

structure Hdr where
  name : Bytes
  value : Option Bytes
  pos : Nat
  deriving DecidableEq, Repr, Inhabited

structure Cookie where
  name : Bytes
  value : Option Bytes
  pos : Nat
  deriving DecidableEq, Repr, Inhabited

structure Meta where
  headerCount : Nat
  dups : List Bytes
  malformed : Bool
  requestLineLen : Nat
  totalLen : Nat
  deriving DecidableEq, Repr, Inhabited

structure ParsedReq where
  method : Bytes
  uri : Bytes
  ver : Ver
  headers : List Hdr
  cookies : List Cookie
  referer : Option Bytes
  contentLength : Option Nat
  transferEncoding : Option Bytes
  connection : Option Bytes
  host : Option Bytes
  userAgent : Option Bytes
  acceptLanguage : Option Bytes
  rawLine : Bytes
  info : Meta
  deriving DecidableEq, Repr, Inhabited

structure ParsedRes where
  ver : Ver
  status : Nat
  reason : Bytes
  headers : List Hdr
  contentLength : Option Nat
  transferEncoding : Option Bytes
  server : Option Bytes
  contentType : Option Bytes
  rawLine : Bytes
  info : Meta
  deriving DecidableEq, Repr, Inhabited

/-- `Result<Option<T>, Http1ParseError>` -/
inductive Outcome (α : Type)
  | ok (x : α)
  | incomplete          -- Ok(None)
  | err (e : PErr)
  deriving DecidableEq, Repr, Inhabited

/-! ### start lines -/

def isValidMethod (m : Bytes) : Bool := HttpLists.parserMethods.any (fun s => ascii s == m)

/-- `parse_request_line` -/
def parseRequestLine (line : Bytes) : Except PErr (Bytes × Bytes × Ver) :=
  if line.length > HttpLists.maxRequestLineLength then .error .invalidRequestLine else
  match splitWs line with
  | [m, u, v] =>
    match parseVersion v with
    | none => .error .invalidVersion
    | some ver =>
      if !(ver == .v10 || ver == .v11) then .error .invalidVersion
      else if !isValidMethod m then .error .invalidMethod
      else .ok (m, u, ver)
  | _ => .error .invalidRequestLine

/-- `parse_status_line` -/
def parseStatusLine (line : Bytes) : Except PErr (Ver × Nat × Bytes) :=
  match splitn3 SP line with
  | v :: c :: rest =>
    match parseVersion v with
    | none => .error .invalidVersion
    | some ver =>
      if !(ver == .v10 || ver == .v11) then .error .invalidVersion else
      match parseUnsigned 65535 c with
      | none => .error .invalidStatusCode
      | some code => .ok (ver, code, rest.headD [])
  | _ => .error .invalidStatusLine

/-! ### header lines -/

/-- One header line: `none` = no colon or empty name (malformed, skipped in lenient mode). -/
def parseHeaderLine (line : Bytes) (pos : Nat) : Option Hdr :=
  match splitFirst 58 line with
  | none => none
  | some (n, v) =>
    let name := trim n
    if name.isEmpty then none else some { name := name, value := some (trimAscii v), pos := pos }

def parseHeaderLines : List Bytes → Nat → List Hdr
  | [], _ => []
  | l :: ls, pos =>
    match parseHeaderLine l pos with
    | some h => h :: parseHeaderLines ls (pos + 1)
    | none => parseHeaderLines ls (pos + 1)

/-- `duplicate_headers`: the lower-cased name of every header that repeats an earlier one -/
def dupNames : List Hdr → List Bytes → List Bytes
  | [], _ => []
  | h :: hs, seen =>
    let n := lower h.name
    if seen.contains n then n :: dupNames hs (n :: seen) else dupNames hs (n :: seen)

def sumLens : List Bytes → Nat
  | [] => 0
  | l :: ls => l.length + sumLens ls

/-- `parse_headers` (default configuration: lenient). The loop `break`s at an empty line. -/
def parseHeaders (lines : List Bytes) : Except PErr (List Hdr × Meta) :=
  if lines.length > HttpLists.maxHeaders then .error .tooManyHeaders else
  let ls := lines.takeWhile (fun l => !l.isEmpty)
  if ls.any (fun l => decide (l.length > HttpLists.maxHeaderLength)) then .error .headerTooLong else
  if HttpLists.strictParsing && ls.any (fun l => (parseHeaderLine l 0).isNone) then .error .malformedHeader else
  let hs := parseHeaderLines ls 0
  .ok (hs, { headerCount := hs.length, dups := dupNames hs [],
             malformed := ls.any (fun l => (parseHeaderLine l 0).isNone),
             requestLineLen := 0, totalLen := sumLens ls })

/-! ### cookies -/

def parseCookiePiece (piece : Bytes) (pos : Nat) : Option Cookie :=
  let p := trimAscii piece
  if p.isEmpty then none else
  match splitFirst 61 p with
  | some (n, v) => some { name := trimAscii n, value := some (trimAscii v), pos := pos }
  | none => some { name := p, value := none, pos := pos }

def parseCookiePieces : List Bytes → Nat → List Cookie
  | [], _ => []
  | p :: ps, pos =>
    match parseCookiePiece p pos with
    | some c => c :: parseCookiePieces ps (pos + 1)
    | none => parseCookiePieces ps pos

/-- `parse_cookies` -/
def parseCookies (v : Bytes) : List Cookie := parseCookiePieces (splitByte 59 v) 0

/-! ### parse_request / parse_response -/

/-- the line list of a decoded head: `split("\r\n")` if the head contains CRLF, else `split('\n')` -/
def headLines (hd : Bytes) : List Bytes :=
  if containsSub crlf hd then splitCRLF hd else splitByte LF hd

def hasBlankLine (hd : Bytes) : Bool := containsSub crlfcrlf hd || containsSub lflf hd

/-- `lines[1..header_end]` where `header_end` is the index of the first empty line.
(`lines[0]` is non-empty whenever this is reached: an empty start line was rejected before.) -/
def headerLinesOf (lines : List Bytes) : List Bytes :=
  (lines.drop 1).takeWhile (fun l => !l.isEmpty)

/-- first-wins `headers_map.entry(lower(name)).or_insert(value)` followed by `.get(key)` -/
def firstValue (hs : List Hdr) (key : Bytes) : Option Bytes :=
  match hs.find? (fun h => lower h.name == key && h.value.isSome) with
  | some h => h.value
  | none => none

/-- last value of the headers whose lower-cased name is `key` (`cookie_header_value = Some(..)` overwrites) -/
def lastValue : List Hdr → Bytes → Option Bytes
  | [], _ => none
  | h :: r, key =>
    match lastValue r key with
    | some v => some v
    | none => if lower h.name == key then h.value else none

def usizeMax : Nat := 18446744073709551615

/-- the values of all Cookie lines, in wire order, joined with "; " (`cookie_header_value`) -/
def joinSemi : List Bytes → Option Bytes
  | [] => none
  | v :: vs => some (vs.foldl (fun a x => a ++ [59, 32] ++ x) v)

def cookieHeader (all : List Hdr) : Option Bytes :=
  joinSemi ((all.filter (fun h => lower h.name == ascii "cookie")).filterMap (·.value))

def cookiesOfHeader : Option Bytes → List Cookie
  | some v => parseCookies v
  | none => []

/-- the second half of `parse_request`: split out Cookie / Referer, first-wins map, cookies -/
def assembleReq (m u : Bytes) (ver : Ver) (all : List Hdr) (l0 : Bytes) (info : Meta) : ParsedReq :=
  let isCookie := fun (h : Hdr) => lower h.name == ascii "cookie"
  let isReferer := fun (h : Hdr) => lower h.name == ascii "referer"
  let headers := all.filter (fun h => !isCookie h && !isReferer h)
  let cookies := if HttpLists.parseCookies then cookiesOfHeader (cookieHeader all) else []
  { method := m, uri := u, ver := ver, headers := headers, cookies := cookies,
    referer := lastValue all (ascii "referer"),
    contentLength := (firstValue headers (ascii "content-length")).bind (parseUnsigned usizeMax),
    transferEncoding := firstValue headers (ascii "transfer-encoding"),
    connection := firstValue headers (ascii "connection"),
    host := firstValue headers (ascii "host"),
    userAgent := firstValue headers (ascii "user-agent"),
    acceptLanguage := firstValue headers (ascii "accept-language"),
    rawLine := l0,
    info := { info with requestLineLen := l0.length } }

def parseRequestHead (hd : Bytes) : Outcome ParsedReq :=
  if !utf8Valid hd then .err .invalidUtf8 else
  if !hasBlankLine hd then .incomplete else
  let lines := headLines hd
  let l0 := lines.headD []
  match parseRequestLine l0 with
  | .error e => .err e
  | .ok (m, u, ver) =>
    match parseHeaders (headerLinesOf lines) with
    | .error e => .err e
    | .ok (all, info) => .ok (assembleReq m u ver all l0 info)

/-- `Http1Parser::parse_request` -/
def parseRequest (data : Bytes) : Outcome ParsedReq := parseRequestHead (headBytes data)

def assembleRes (ver : Ver) (code : Nat) (reason : Bytes) (headers : List Hdr) (l0 : Bytes) (info : Meta) : ParsedRes :=
  { ver := ver, status := code, reason := reason, headers := headers,
    contentLength := (firstValue headers (ascii "content-length")).bind (parseUnsigned usizeMax),
    transferEncoding := firstValue headers (ascii "transfer-encoding"),
    server := firstValue headers (ascii "server"),
    contentType := firstValue headers (ascii "content-type"),
    rawLine := l0, info := info }

def parseResponseHead (hd : Bytes) : Outcome ParsedRes :=
  if !utf8Valid hd then .err .invalidUtf8 else
  if !hasBlankLine hd then .incomplete else
  let lines := headLines hd
  let l0 := lines.headD []
  match parseStatusLine l0 with
  | .error e => .err e
  | .ok (ver, code, reason) =>
    match parseHeaders (headerLinesOf lines) with
    | .error e => .err e
    | .ok (headers, info) => .ok (assembleRes ver code reason headers l0 info)

/-- `Http1Parser::parse_response` -/
def parseResponse (data : Bytes) : Outcome ParsedRes := parseResponseHead (headBytes data)

/-! ### http_languages.rs -/

/-- A quality value as an exact rational `± num / 10^scale` (the code uses `f32`; for literals with
at most 6 significant digits — in particular the RFC 7231 `qvalue` grammar — `f32` rounding is
injective and monotone, so comparisons agree; exercised by the harness, not proved). -/
structure Q where
  neg : Bool
  num : Nat
  scale : Nat
  deriving DecidableEq, Repr, Inhabited

def Q.one : Q := ⟨false, 1, 0⟩

/-- `a < b` on exact values (−0 = +0) -/
def Q.lt (a b : Q) : Bool :=
  let x := a.num * 10 ^ b.scale
  let y := b.num * 10 ^ a.scale
  match a.neg, b.neg with
  | false, false => decide (x < y)
  | true, true => decide (y < x)
  | true, false => !(x == 0 && y == 0)
  | false, true => false

/-- what may follow the mantissa's `e`/`E` for Rust to accept the literal: `[+-]? digit+` -/
def validExponent (r : Bytes) : Bool :=
  let ds := match r with
    | b :: t => if b = 43 || b = 45 then t else r
    | [] => r
  !ds.isEmpty && ds.all isDigit

/-- `str::parse::<f32>()` restricted to `[+-]? digits* [. digits*]` with at least one digit.
`none`: the literal is rejected by Rust. Literals Rust accepts but this grammar does not
(exponents, `inf`, `nan`) yield `some none` = outside the model. -/
def parseQ (d : Bytes) : Option (Option Q) :=
  let (neg, ds) := match d with
    | b :: r => if b = 43 then (false, r) else if b = 45 then (true, r) else (false, d)
    | [] => (false, d)
  let lw := lower ds
  if lw == ascii "inf" || lw == ascii "infinity" || lw == ascii "nan" then some none else
  let ip := ds.takeWhile isDigit
  let rest := ds.dropWhile isDigit
  match rest with
  | [] => if ip.isEmpty then none else some (some ⟨neg, digitsVal ip 0, 0⟩)
  | b :: fr =>
    if b = 46 then
      let fp := fr.takeWhile isDigit
      let rest2 := fr.dropWhile isDigit
      if ip.isEmpty && fp.isEmpty then none else
      match rest2 with
      | [] => some (some ⟨neg, digitsVal (ip ++ fp) 0, fp.length⟩)
      | e :: ex => if (e = 101 || e = 69) && validExponent ex then some none else none
    else if (b = 101 || b = 69) && !ip.isEmpty && validExponent fr then some none
    else none

/-- `q.strip_prefix("q=").or_else(|| q.strip_prefix("Q=")).unwrap_or(q)` -/
def stripQPrefix : Bytes → Bytes
  | 113 :: 61 :: r => r
  | 81 :: 61 :: r => r
  | d => d

def langName (code : Bytes) : Option Bytes :=
  match HttpLists.languages.find? (fun p => ascii p.1 == code) with
  | some p => some (ascii p.2)
  | none => none

/-- one comma-separated part → `(quality, language name)`; outer `none` = outside the model -/
def langPart (part : Bytes) : Option (Option (Q × Bytes)) :=
  let pieces := splitByte 59 part
  let full := trim (pieces.headD [])
  if full.isEmpty then some none else
  let code := lower ((splitByte 45 full).headD [])       -- `to_ascii_lowercase`
  let q : Option Q := match pieces.drop 1 with
    | [] => some Q.one
    | qs :: _ => match parseQ (stripQPrefix (trim qs)) with
      | none => some Q.one
      | some none => none
      | some (some q) => some q
  match q with
  | none => none
  | some q => some ((langName code).map (fun n => (q, n)))

/-- `max_by` with (quality, reversed index): the earliest among the maxima. -/
def pickBest : List (Q × Bytes) → Option (Q × Bytes) → Option (Q × Bytes)
  | [], best => best
  | c :: cs, none => pickBest cs (some c)
  | c :: cs, some b => if Q.lt b.1 c.1 then pickBest cs (some c) else pickBest cs (some b)

def langCandidates : List Bytes → Option (List (Q × Bytes))
  | [] => some []
  | p :: ps =>
    match langPart p, langCandidates ps with
    | some (some c), some cs => some (c :: cs)
    | some none, some cs => some cs
    | _, _ => none

/-- `get_highest_quality_language`; outer `none` = input outside the model's `f32` grammar -/
def highestQualityLanguage (al : Bytes) : Option (Option Bytes) :=
  match langCandidates (splitByte 44 al) with
  | none => none
  | some cs => some ((pickBest cs none).map (·.2))

/-! ### observable signature (http1_process.rs, huginn-net-db display.rs) -/

structure SigHdr where
  optional : Bool
  name : Bytes
  value : Option Bytes
  deriving DecidableEq, Repr, Inhabited

structure ObsReq where
  ver : Ver
  horder : List SigHdr
  habsent : List SigHdr
  expsw : Bytes
  lang : Option Bytes
  userAgent : Option Bytes
  headers : List Hdr
  cookies : List Cookie
  referer : Option Bytes
  method : Bytes
  uri : Bytes
  deriving DecidableEq, Repr, Inhabited

structure ObsRes where
  ver : Ver
  horder : List SigHdr
  habsent : List SigHdr
  expsw : Bytes
  headers : List Hdr
  status : Nat
  deriving DecidableEq, Repr, Inhabited

def optionalList (isReq : Bool) : List String :=
  if isReq then HttpLists.requestOptional else HttpLists.responseOptional
def skipValueList (isReq : Bool) : List String :=
  if isReq then HttpLists.requestSkipValue else HttpLists.responseSkipValue
def commonList (isReq : Bool) : List String :=
  if isReq then HttpLists.requestCommon else HttpLists.responseCommon

/-- `list.iter().any(|h| h.eq_ignore_ascii_case(name))` -/
def inList (l : List String) (n : Bytes) : Bool := l.any (fun s => lower (ascii s) == lower n)

/-- `convert_headers_to_http_format`: case-insensitive list membership, name reported as it is -/
def convertHeader (isReq : Bool) (h : Hdr) : SigHdr :=
  if inList (optionalList isReq) h.name then { optional := true, name := h.name, value := none }
  else if inList (skipValueList isReq) h.name then { optional := false, name := h.name, value := none }
  else { optional := false, name := h.name, value := h.value }

def convertHeaders (isReq : Bool) (hs : List Hdr) : List SigHdr := hs.map (convertHeader isReq)

/-- `build_absent_headers_from_new_parser`: case-insensitive presence -/
def absentHeaders (isReq : Bool) (hs : List Hdr) : List SigHdr :=
  let present := hs.map (fun h => lower h.name)
  ((commonList isReq).filter (fun c => !present.contains (lower (ascii c)))).map
    (fun c => { optional := false, name := ascii c, value := none })

def unknownSw : Bytes := ascii "???"

/-- `req.accept_language.and_then(get_highest_quality_language)`; outer `none`: outside the model's grammar -/
def langOfHeader : Option Bytes → Option (Option Bytes)
  | none => some none
  | some al => highestQualityLanguage al

/-- outer `none`: Accept-Language outside the model's grammar -/
def toObsReq (r : ParsedReq) : Option ObsReq :=
  (langOfHeader r.acceptLanguage).map (fun lang =>
    { ver := r.ver, horder := convertHeaders true r.headers, habsent := absentHeaders true r.headers,
      expsw := r.userAgent.getD unknownSw, lang := lang, userAgent := r.userAgent,
      headers := r.headers, cookies := r.cookies, referer := r.referer,
      method := r.method, uri := r.uri })

def toObsRes (r : ParsedRes) : ObsRes :=
  { ver := r.ver, horder := convertHeaders false r.headers, habsent := absentHeaders false r.headers,
    expsw := r.server.getD unknownSw, headers := r.headers, status := r.status }

/-! Display (`HttpDisplayFormat`) -/

def verDigit : Ver → UInt8
  | .v10 => 48 | .v11 => 49 | .v20 => 50 | .v30 => 51

def showSigHdr (h : SigHdr) : Bytes :=
  (if h.optional then [63] else []) ++ h.name ++
  (match h.value with | some v => [61, 91] ++ v ++ [93] | none => [])

def joinComma : List Bytes → Bytes
  | [] => []
  | [x] => x
  | x :: xs => x ++ [44] ++ joinComma xs

def showSig (ver : Ver) (horder habsent : List SigHdr) (expsw : Bytes) : Bytes :=
  [verDigit ver, 58] ++ joinComma (horder.map showSigHdr) ++ [58] ++
  joinComma (habsent.map showSigHdr) ++ [58] ++ expsw

/-! ### the gates of the two processors -/

/-- `String::from_utf8_lossy(data).lines().next().unwrap_or("")`, on bytes -/
def firstLine (data : Bytes) : Bytes :=
  match splitFirst LF data with
  | none => data
  | some (l, _) => match l.reverse with
    | 13 :: r => r.reverse
    | _ => l

def isHttp2Traffic (data : Bytes) : Bool := HttpLists.h2Preface.isPrefixOf data

/-- `looks_like_http2_response` -/
def looksLikeHttp2Response (data : Bytes) : Bool :=
  match data with
  | b0 :: b1 :: b2 :: ty :: rest =>
    decide (rest.length + 4 ≥ HttpLists.h2FrameHeaderLen) &&
    decide (b0.toNat * 65536 + b1.toNat * 256 + b2.toNat ≤ HttpLists.h2MaxFrameLen) &&
    decide (HttpLists.h2FrameTypeLo ≤ ty.toNat) && decide (ty.toNat ≤ HttpLists.h2FrameTypeHi)
  | _ => false

def isHttp1VersionTok (t : Bytes) : Bool := t == ascii "HTTP/1.0" || t == ascii "HTTP/1.1"

/-- `Http1Processor::can_process_request` -/
def h1CanRequest (data : Bytes) : Bool :=
  if data.length < HttpLists.gateRequestMinLen then false
  else if isHttp2Traffic data then false
  else match splitWs (firstLine data) with
    | [m, _u, v] => HttpLists.gateMethods.any (fun s => ascii s == m) && isHttp1VersionTok v
    | _ => false

/-- `Http1Processor::can_process_response` -/
def h1CanResponse (data : Bytes) : Bool :=
  if data.length < HttpLists.gateResponseMinLen then false
  else if decide (data.length ≥ 9) && looksLikeHttp2Response data then false
  else match splitn3 SP (firstLine data) with
    | v :: c :: _ => isHttp1VersionTok v && c.length == HttpLists.gateStatusDigits && c.all isDigit
    | _ => false

/-- `looks_like_http1_response` (public helper; `split_whitespace` instead of `splitn`) -/
def looksLikeHttp1Response (data : Bytes) : Bool :=
  if data.length < HttpLists.gateResponseMinLen then false
  else if decide (data.length ≥ 9) && looksLikeHttp2Response data then false
  else match splitWs (firstLine data) with
    | v :: c :: _ => isHttp1VersionTok v && c.length == HttpLists.gateStatusDigits && c.all isDigit
    | _ => false

/-- `Http2Processor::can_process_request` -/
def h2CanRequest (data : Bytes) : Bool :=
  decide (data.length ≥ HttpLists.h2GateRequestMinLen) && isHttp2Traffic data

/-- `Http2Processor::can_process_response` -/
def h2CanResponse (data : Bytes) : Bool :=
  decide (data.length ≥ HttpLists.h2GateResponseMinLen) &&
  !((ascii HttpLists.h2GateNotPrefix).isPrefixOf (data.take HttpLists.h2GatePrefixWindow)) &&
  looksLikeHttp2Response data

def h1CanParse (data : Bytes) : Bool := h1CanRequest data || h1CanResponse data
def h2CanParse (data : Bytes) : Bool := h2CanRequest data || h2CanResponse data

/-- The HTTP/2 processor (C16 models it); here a parameter. -/
structure H2 where
  request : Bytes → Option ObsReq
  response : Bytes → Option ObsRes

/-- `parse_http1_request(..).ok().flatten()`; outer `none` = outside the model (language grammar) -/
def h1ProcessRequest (data : Bytes) : Option (Option ObsReq) :=
  match parseRequest data with
  | .ok r => (toObsReq r).map some
  | _ => some none

def h1ProcessResponse (data : Bytes) : Option ObsRes :=
  match parseResponse data with
  | .ok r => some (toObsRes r)
  | _ => none

/-- `HttpProcessors::parse_request` -/
def processorsParseRequest (h2 : H2) (data : Bytes) : Option (Option ObsReq) :=
  let r1 : Option (Option ObsReq) := if h1CanParse data then h1ProcessRequest data else some none
  match r1 with
  | none => none
  | some (some r) => some (some r)
  | some none => some (if h2CanParse data then h2.request data else none)

/-- `HttpProcessors::parse_response` -/
def processorsParseResponse (h2 : H2) (data : Bytes) : Option ObsRes :=
  let r1 := if h1CanParse data then h1ProcessResponse data else none
  match r1 with
  | some r => some r
  | none => if h2CanParse data then h2.response data else none

/-- `has_complete_headers` (trait method `has_complete_data`; not on the analysis path) -/
def hasCompleteHeaders (data : Bytes) : Bool := containsSub crlfcrlf data

end Huginn.Http1
