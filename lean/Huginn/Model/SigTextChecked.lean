import Huginn.Model.SigText
/-
Checked mirrors for C01 (totality) of the database text side.

huginn-net-db/src/db_parse.rs contains no index, slice, `unwrap`, `expect` or arithmetic expression
of its own (the site inventory of extract/ex_sites.py lists none), so there is no checked *accessor*
to write here.  What can go wrong in that file is a loop that does not end: the only loops are nom's
`separated_list0/1` (five uses) and `for line in s.lines()`.  `Model/SigText.lean` makes the
`separated_list` loop structurally recursive with a fuel argument; this file states the loop
*without trusting the fuel*: `sepLoopC` fails with `outOfFuel` where the fuel would be the reason to
stop, so "the loop terminates" is a statement to prove (Props/C01Db.lean), not a default.
-/
namespace Huginn.SigText

inductive LoopFault
  | outOfFuel
  deriving DecidableEq, Repr

/-- `sepLoop` with the fuel made visible: running out of it is a fault, not a result. -/
def sepLoopC {α} (sep : Parser Unit) (p : Parser α) : Nat → Str → Except LoopFault (Option (List α × Str))
  | 0, _ => .error .outOfFuel
  | f + 1, i =>
    match sep i with
    | none => .ok (some ([], i))
    | some (_, i1) =>
      match p i1 with
      | none => .ok (some ([], i))
      | some (o, i2) =>
        if i2.length = i.length then .ok none   -- nom's infinite-loop check: an error, not a hang
        else match sepLoopC sep p f i2 with
          | .error e => .error e
          | .ok none => .ok none
          | .ok (some (os, r)) => .ok (some (o :: os, r))

/-- the number of `loadLine` calls `Database::from_str` makes before it stops (all lines, or up to and
including the first faulty one) -/
def loadSteps : LoadState → List Str → Nat
  | _, [] => 0
  | st, l :: ls =>
    match loadLine st l with
    | .ok st' => 1 + loadSteps st' ls
    | .error _ => 1

end Huginn.SigText
