import Huginn.Model.TcpExtract
import Huginn.Model.Match
import Huginn.Gen.BundledSig
/-
Composition layer for C13: traffic → observation (`Model/TcpExtract.lean`, C03) → table → index →
distance (`Model/Match.lean`, C02/C12) over the bundled database (`Gen/BundledSig.lean`).

* `process.rs` (tcp crate) with a matcher: a SYN's observation is looked up in `tcp_request`, every
  other accepted segment's in `tcp_response`.
* `http1_process.rs` `convert_headers_to_http_format`, `build_absent_headers_from_new_parser`,
  `extract_traffic_classification`, `convert_http1_{request,response}_to_observable` (the part that
  builds the matching observation from the parsed header list), and `process.rs` (http crate): a
  request observation is looked up in `http_request`, a response observation in `http_response`.
-/
namespace Huginn.Reach
open Huginn.Sig Huginn.Match Huginn.TcpExtract

def noLabel : Label := { ty := .specified, cls := none, name := "", flavor := none }

/-- A generated collection as the `entries` of a `FingerprintCollection`. -/
def toDb {σ : Type} (c : List (Nat × String × List (Nat × σ))) : List (Label × List σ) :=
  c.map (fun e => (noLabel, e.2.2.map (·.2)))

def bundledTcpRequest : TcpDb := toDb Gen.BundledSig.tcpRequest
def bundledTcpResponse : TcpDb := toDb Gen.BundledSig.tcpResponse
def bundledHttpRequest : HttpDb := toDb Gen.BundledSig.httpRequest
def bundledHttpResponse : HttpDb := toDb Gen.BundledSig.httpResponse

/-- Label text and p0f.fp line of entry `(i, j)` of a generated collection. -/
def lineOf {σ : Type} (c : List (Nat × String × List (Nat × σ))) (i j : Nat) : Option (String × Nat) :=
  match c[i]? with
  | none => none
  | some e => (e.2.2[j]?).map (fun s => (e.2.1, s.1))

/-- What `process_ipv{4,6}_packet(…, Some(matcher))` reports for the OS match: `none` — nothing
to match (error / no signature); `some (isSyn, obs, r)` — the observation and `find_best_match`'s
result on the table chosen by the role. -/
def tcpAnalyze (req resp : TcpDb) (f : Fields) :
    Option (Bool × TcpObs × Option (Option (Nat × Nat × Nat))) :=
  match process f with
  | .error _ => none
  | .ok r =>
    match r.syn with
    | some o => some (true, o, tcpFind req o)
    | none =>
      match r.synAck with
      | some o => some (false, o, tcpFind resp o)
      | none => none

/-! ### HTTP/1.x: parsed header list → matching observation -/

def asciiLower (s : String) : String := String.ofList (s.toList.map Char.toLower)

/-- `list.iter().any(|h| h.eq_ignore_ascii_case(name))` (fix 7200a1a: the optional and skip-value
lists are matched ignoring ASCII case) -/
def inListCI (l : List String) (n : String) : Bool := l.any (fun s => asciiLower s == asciiLower n)

/-- `convert_headers_to_http_format(headers, is_request)`; headers are `(name, value)` in wire
order (`http_common::HttpHeader`, value always present for HTTP/1.x). The name is reported as it
is on the wire. -/
def convertHeader (isReq : Bool) (h : String × Option String) : Header :=
  let optional := if isReq then Gen.BundledSig.requestOptionalHeaders else Gen.BundledSig.responseOptionalHeaders
  let skip := if isReq then Gen.BundledSig.requestSkipValueHeaders else Gen.BundledSig.responseSkipValueHeaders
  if inListCI optional h.1 then { optional := true, name := h.1, value := none }
  else if inListCI skip h.1 then { optional := false, name := h.1, value := none }
  else { optional := false, name := h.1, value := h.2 }

def convertHeaders (isReq : Bool) (hs : List (String × Option String)) : List Header :=
  hs.map (convertHeader isReq)

/-- `build_absent_headers_from_new_parser` (names compared in lower case). -/
def absentHeaders (isReq : Bool) (hs : List (String × Option String)) : List Header :=
  let common := if isReq then Gen.BundledSig.requestCommonHeaders else Gen.BundledSig.responseCommonHeaders
  let present := hs.map (fun h => asciiLower h.1)
  (common.filter (fun c => !present.contains (asciiLower c))).map
    (fun c => { optional := false, name := c, value := none })

/-- `extract_traffic_classification(user_agent / server)` -/
def trafficClass (v : Option String) : String := v.getD "???"

/-- `Http1Parser::parse_request` moves `Cookie` and `Referer` out of the header list it hands on
(`parse_response` keeps every header). -/
def keptHeader (isReq : Bool) (h : String × Option String) : Bool :=
  !(isReq && (asciiLower h.1 == "cookie" || asciiLower h.1 == "referer"))

def parsedHeaders (isReq : Bool) (hs : List (String × Option String)) : List (String × Option String) :=
  hs.filter (keptHeader isReq)

/-- The matching observation of an HTTP/1.x message: version, the header list on the wire, and the
value of `User-Agent` (request) / `Server` (response) as found by the parser. -/
def httpObsOf (isReq : Bool) (version : HttpVersion) (hs : List (String × Option String))
    (sw : Option String) : HttpObs :=
  { version := version, horder := convertHeaders isReq (parsedHeaders isReq hs),
    habsent := absentHeaders isReq (parsedHeaders isReq hs), expsw := trafficClass sw }

def httpAnalyze (req resp : HttpDb) (isReq : Bool) (o : HttpObs) : Option (Option (Nat × Nat × Nat)) :=
  httpFind (if isReq then req else resp) o

end Huginn.Reach
