/-
Shared p0f vocabulary (mirror of the *types* in huginn-net-db/src/{tcp,http,db}.rs and
observable_signals.rs). Numeric fields are `Nat`; the Rust field widths are recorded in
the `WF` predicates. Text is `String` (ASCII in the database vocabulary).
Functions over these types (printers, parsers, distances, index) live in other Model files.
-/
namespace Huginn.Sig

inductive IpVersion | v4 | v6 | any
  deriving DecidableEq, Repr, Inhabited

/-- `tcp::Ttl` — `value t`, `distance t d` (printed `t+d`), `guess t` (printed `t+?`), `bad t` (printed `t-`). -/
inductive Ttl
  | value (t : Nat)
  | distance (t d : Nat)
  | guess (t : Nat)
  | bad (t : Nat)
  deriving DecidableEq, Repr, Inhabited

/-- `tcp::WindowSize` — `mss n` = `mss*n`, `mtu n` = `mtu*n`, `value n`, `mod n` = `%n`, `any` = `*`. -/
inductive WindowSize
  | mss (n : Nat)
  | mtu (n : Nat)
  | value (n : Nat)
  | mod (n : Nat)
  | any
  deriving DecidableEq, Repr, Inhabited

inductive TcpOption
  | eol (pad : Nat)
  | nop | mss | ws | sok | sack | ts
  | unknown (kind : Nat)
  deriving DecidableEq, Repr, Inhabited

inductive Quirk
  | df | nonZeroID | zeroID | ecn | mustBeZero | flowID | seqNumZero | ackNumNonZero | ackNumZero
  | nonZeroURG | urg | push | ownTimestampZero | peerTimestampNonZero | trailingNonZero
  | excessiveWindowScaling | optBad
  deriving DecidableEq, Repr, Inhabited

inductive PayloadSize | zero | nonZero | any
  deriving DecidableEq, Repr, Inhabited

/-- `tcp::Signature` and `observable_signals::TcpObservation` have the same fields. -/
structure TcpSig where
  version : IpVersion
  ittl    : Ttl
  olen    : Nat
  mss     : Option Nat
  wsize   : WindowSize
  wscale  : Option Nat
  olayout : List TcpOption
  quirks  : List Quirk
  pclass  : PayloadSize
  deriving DecidableEq, Repr, Inhabited

abbrev TcpObs := TcpSig

inductive HttpVersion | v10 | v11 | v20 | v30 | any
  deriving DecidableEq, Repr, Inhabited

structure Header where
  optional : Bool
  name     : String
  value    : Option String
  deriving DecidableEq, Repr, Inhabited

/-- `http::Signature` and `Http{Request,Response}Observation` have the same fields. -/
structure HttpSig where
  version : HttpVersion
  horder  : List Header
  habsent : List Header
  expsw   : String
  deriving DecidableEq, Repr, Inhabited

abbrev HttpObs := HttpSig

inductive LabelType | specified | generic
  deriving DecidableEq, Repr, Inhabited

structure Label where
  ty     : LabelType
  cls    : Option String
  name   : String
  flavor : Option String
  deriving DecidableEq, Repr, Inhabited

end Huginn.Sig
