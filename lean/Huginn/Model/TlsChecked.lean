import Huginn.Model.WireChecked
import Huginn.Model.Ja4
/-
Checked-access mirrors of the TLS byte-level functions (C01: analysis is total).

Every indexing `x[i]`, slicing `&x[..n]` and `drain(..n)` expression of
  huginn-net-tls/src/tls_client_hello_reader.rs   (`add_bytes`)
  huginn-net-tls/src/tls_process.rs               (`is_tls_traffic`, `parse_tls_client_hello`'s prefix
                                                   selection, `process_tls_tcp`)
is written with the checked accessors of Model/WireChecked.lean (`idx`, `idx8`, `range`), which *fail*
(`Except.error`) exactly where Rust panics, behind the guards as written and in the order written.
`record_len.saturating_add(5)` is `usize` saturating addition (`satAdd`), not plain `+`.
The literals are the regenerated ones of Gen/TlsConst.lean, as in Model/TlsReader.lean: an edit of a
guard (`< 5` → `< 4`, the offsets 3/4, …) is re-checked against these proofs.
What is *not* here: tls-parser, nom, sha2, ttl_cache (third-party safe Rust; exercised by the C01
fault-injection streams), `Vec::extend_from_slice` (allocation), and the `debug!`/`error!` arguments,
which use `.get(..)` / `.min(..)` and cannot fault.
-/
namespace Huginn.TlsChecked
open Huginn.Tls Huginn.Gen.Tls Huginn.WireChecked

/-- `usize::MAX` on the 64-bit targets the crates build for -/
def usizeMax : Nat := 2 ^ 64 - 1
/-- `a.saturating_add(b)` on `usize` -/
def satAdd (a b : Nat) : Nat := min (a + b) usizeMax

/-- `&x[..n]` and `x.drain(..n)` both panic iff `n > x.len()` -/
def upTo (b : Bytes) (n : Nat) : M Bytes := range b 0 n

variable {σ : Type}

/-- `TlsClientHelloReader::add_bytes` with checked accesses:
`self.buffer[0]`, `self.buffer[3]`, `self.buffer[4]`, `&self.buffer[..needed]`, `self.buffer.drain(..needed)`. -/
def addBytesC (parse : Bytes → PR σ) (r : Reader σ) (data : Bytes) : M (Reader σ × Out σ) :=
  if r.signature.isSome then pure (r, .none)
  else
    let buf := r.buffer ++ data
    if buf.length < readerHdrLen then pure ({ r with buffer := buf }, .none)
    else do
      let contentType ← idx buf 0
      let hi ← idx buf readerLenHi
      let lo ← idx buf readerLenLo
      let needed := satAdd (hi * 256 + lo) readerLenAdd
      if contentType ≠ readerHandshake then pure ({ r with buffer := [] }, .none)
      else if buf.length < needed then pure ({ r with buffer := buf }, .none)
      else if needed > readerMaxNeeded then pure ({}, .errTooLarge)
      else do
        let pre ← upTo buf needed                       -- `&self.buffer[..needed]`
        match parse pre with
        | .sig s => do
          let _ ← upTo buf needed                       -- `self.buffer.drain(..needed)`
          pure ({ buffer := buf.drop needed, signature := some s }, .sig s)
        | .notHello => pure ({}, .none)
        | .err => pure ({ r with buffer := buf }, .errParse)

/-- a whole history through one reader, starting anywhere -/
def runC (parse : Bytes → PR σ) : Reader σ → List Bytes → M (List (Out σ))
  | _, [] => pure []
  | r, s :: rest => do
    let x ← addBytesC parse r s
    let xs ← runC parse x.1 rest
    pure (x.2 :: xs)

/-- `is_tls_traffic`: `payload[0]`, `payload[1]`, `payload[2]` behind `payload.len() < 5`. -/
def isTlsTrafficC (p : Bytes) : M Bool :=
  if p.length < trafficMinLen then pure false
  else do
    let contentType ← idx p 0
    if contentType = trafficHandshake then do
      let v ← be16At p 1 2
      pure (decide (recVersionLo ≤ v) && decide (v ≤ recVersionHi))
    else pure false

/-- the prefix selection of `parse_tls_client_hello`: `data[3]`, `data[4]`, `&data[..needed]` behind
`data.len() >= 5` and `data.len() >= needed`; `none` = `Err("Not enough data …")`. -/
def prefixC (data : Bytes) : M (Option Bytes) :=
  if data.length ≥ 5 then do
    let hi ← idx data 3
    let lo ← idx data 4
    let needed := satAdd (hi * 256 + lo) 5
    if data.length ≥ needed then do
      let d ← upTo data needed
      pure (some d)
    else pure (some data)
  else pure none

/-- `parse_tls_client_hello` (everything after the prefix selection is tls-parser / iterator code). -/
def parseClientHelloC (bodyOk : Nat → Bytes → Bool) (data : Bytes) : M (PR Signature) := do
  match ← prefixC data with
  | none => pure .err
  | some d =>
    match parsePlaintext d with
    | none => pure .err
    | some ms =>
      match firstHello ms with
      | some h => pure (.sig (extractSig bodyOk h))
      | none => pure .notHello

/-- `process_tls_tcp` (the stateless path of `process_tls_ipv4/6`), total version. -/
def processTlsTcp (bodyOk : Nat → Bytes → Bool) (payload : Bytes) : Option Signature :=
  if payload.isEmpty then none
  else if !isTlsTraffic payload then none
  else match parseClientHello bodyOk payload with
    | .sig s => some s
    | _ => none

/-- `process_tls_tcp` with checked accesses: `let first_byte = payload[0];` after the emptiness check, and
`!payload.is_empty() && (payload[0] == 0x17 || payload[0] == 0x15 || payload[0] == 0x14)` in the
non-TLS branch (short-circuit order as written). -/
def processTlsTcpC (bodyOk : Nat → Bytes → Bool) (payload : Bytes) : M (Option Signature) :=
  if payload.isEmpty then pure none
  else do
    let _firstByte ← idx payload 0
    let isTls ← isTlsTrafficC payload
    if !isTls then do
      if !payload.isEmpty then do
        let a ← idx payload 0
        if a = 0x17 then pure none
        else do
          let b ← idx payload 0
          if b = 0x15 then pure none
          else do
            let _c ← idx payload 0
            pure none
      else pure none
    else do
      match ← parseClientHelloC bodyOk payload with
      | .sig s => pure (some s)
      | _ => pure none

end Huginn.TlsChecked
