/-
SHA-256 (FIPS 180-4) over byte lists, for the driver only: `hash_fingerprint` in akamai.rs is
`hex(Sha256(fingerprint))[..32]`. Theorems treat the digest as an arbitrary function of the
fingerprint string; this file is validated by the `#guard`s at its end (standard vectors) and by the
correspondence run (every emitted fingerprint's hash is compared with the sha2 crate's).
-/
namespace Huginn.H2Sha256

def K : Array UInt32 := #[
  0x428a2f98, 0x71374491, 0xb5c0fbcf, 0xe9b5dba5, 0x3956c25b, 0x59f111f1, 0x923f82a4, 0xab1c5ed5,
  0xd807aa98, 0x12835b01, 0x243185be, 0x550c7dc3, 0x72be5d74, 0x80deb1fe, 0x9bdc06a7, 0xc19bf174,
  0xe49b69c1, 0xefbe4786, 0x0fc19dc6, 0x240ca1cc, 0x2de92c6f, 0x4a7484aa, 0x5cb0a9dc, 0x76f988da,
  0x983e5152, 0xa831c66d, 0xb00327c8, 0xbf597fc7, 0xc6e00bf3, 0xd5a79147, 0x06ca6351, 0x14292967,
  0x27b70a85, 0x2e1b2138, 0x4d2c6dfc, 0x53380d13, 0x650a7354, 0x766a0abb, 0x81c2c92e, 0x92722c85,
  0xa2bfe8a1, 0xa81a664b, 0xc24b8b70, 0xc76c51a3, 0xd192e819, 0xd6990624, 0xf40e3585, 0x106aa070,
  0x19a4c116, 0x1e376c08, 0x2748774c, 0x34b0bcb5, 0x391c0cb3, 0x4ed8aa4a, 0x5b9cca4f, 0x682e6ff3,
  0x748f82ee, 0x78a5636f, 0x84c87814, 0x8cc70208, 0x90befffa, 0xa4506ceb, 0xbef9a3f7, 0xc67178f2]

def H0 : Array UInt32 := #[0x6a09e667, 0xbb67ae85, 0x3c6ef372, 0xa54ff53a, 0x510e527f, 0x9b05688c, 0x1f83d9ab, 0x5be0cd19]

def rotr (x : UInt32) (n : UInt32) : UInt32 := (x >>> n) ||| (x <<< (32 - n))

def pad (msg : List UInt8) : List UInt8 :=
  let l := msg.length
  let k := (119 - l % 64) % 64          -- zero bytes so that l + 1 + k + 8 ≡ 0 (mod 64)
  let bits := l * 8
  msg ++ [(0x80 : UInt8)] ++ List.replicate k (0 : UInt8) ++
    (List.range 8).map (fun i => UInt8.ofNat ((bits >>> (8 * (7 - i))) % 256))

def word (b : Array UInt8) (i : Nat) : UInt32 :=
  (b[i]!.toUInt32 <<< 24) ||| (b[i+1]!.toUInt32 <<< 16) ||| (b[i+2]!.toUInt32 <<< 8) ||| b[i+3]!.toUInt32

def schedule (blk : Array UInt8) : Array UInt32 := Id.run do
  let mut w : Array UInt32 := Array.mkEmpty 64
  for i in [0:16] do
    w := w.push (word blk (4 * i))
  for i in [16:64] do
    let a := w[i-15]!
    let b := w[i-2]!
    let s0 := rotr a 7 ^^^ rotr a 18 ^^^ (a >>> 3)
    let s1 := rotr b 17 ^^^ rotr b 19 ^^^ (b >>> 10)
    w := w.push (w[i-16]! + s0 + w[i-7]! + s1)
  return w

def compress (h : Array UInt32) (blk : Array UInt8) : Array UInt32 := Id.run do
  let w := schedule blk
  let mut a := h[0]!; let mut b := h[1]!; let mut c := h[2]!; let mut d := h[3]!
  let mut e := h[4]!; let mut f := h[5]!; let mut g := h[6]!; let mut hh := h[7]!
  for i in [0:64] do
    let s1 := rotr e 6 ^^^ rotr e 11 ^^^ rotr e 25
    let ch := (e &&& f) ^^^ ((~~~ e) &&& g)
    let t1 := hh + s1 + ch + K[i]! + w[i]!
    let s0 := rotr a 2 ^^^ rotr a 13 ^^^ rotr a 22
    let mj := (a &&& b) ^^^ (a &&& c) ^^^ (b &&& c)
    let t2 := s0 + mj
    hh := g; g := f; f := e; e := d + t1; d := c; c := b; b := a; a := t1 + t2
  return #[h[0]! + a, h[1]! + b, h[2]! + c, h[3]! + d, h[4]! + e, h[5]! + f, h[6]! + g, h[7]! + hh]

def blocks (p : Array UInt8) : List (Array UInt8) :=
  (List.range (p.size / 64)).map (fun i => p.extract (64 * i) (64 * i + 64))

def digestWords (msg : List UInt8) : Array UInt32 :=
  (blocks (pad msg).toArray).foldl compress H0

def hexDigit (n : Nat) : UInt8 := if n < 10 then UInt8.ofNat (48 + n) else UInt8.ofNat (87 + n)

/-- lowercase hex of the digest, as ASCII bytes (`format!("{result:x}")`) -/
def hex (msg : List UInt8) : List UInt8 :=
  (digestWords msg).toList.flatMap fun w =>
    (List.range 8).map fun i => hexDigit ((w.toNat >>> (4 * (7 - i))) % 16)

def hexString (msg : List UInt8) : String :=
  String.ofList ((hex msg).map fun b => Char.ofNat b.toNat)

#guard hexString [] = "e3b0c44298fc1c149afbf4c8996fb92427ae41e4649b934ca495991b7852b855"
#guard hexString [97, 98, 99] = "ba7816bf8f01cfea414140de5dae2223b00361a396177a9cb410ff61f20015ad"
#guard hexString ("abcdbcdecdefdefgefghfghighijhijkijkljklmklmnlmnomnopnopq".toUTF8.toList) =
  "248d6a61d20638b8e5c026930c3e6039a33ce45964ff2167f6ecedd419db06c1"

end Huginn.H2Sha256
