import Huginn.Model.TlsReader
/-
Model of the JA4 path of huginn-net-tls:

  tls.rs          `TlsVersion` + `Display`, `Signature`, `first_last_alpn`, `hash12`,
                  `Signature::generate_ja4_with_order`
  tls_process.rs  `parse_tls_client_hello`, `extract_tls_signature_from_client_hello`,
                  `determine_tls_version`

and, at its interface, of the parts of the third-party crate tls-parser 0.12.2 those functions call:
`parse_tls_plaintext` (record header, `MAX_RECORD_LEN`, per-record-type message loop),
`parse_tls_message_handshake` (framing of every handshake type; the body of a ClientHello in full,
of the other types only success/failure), `parse_tls_extensions` (the extension walk; bodies of
SNI / supported_groups / ec_point_formats / signature_algorithms / ALPN / supported_versions decoded,
GREASE-like types `t & 0x0f0f == 0x0a0a` filed under `Grease` with their wire type as tls-parser does;
for every other type only success/failure of the body parser — a parameter `bodyOk` of the model,
instantiated in the driver by `knownBodyOk`, which mirrors the 20 remaining body parsers tls-parser has).

nom semantics used: `streaming` primitives return `Incomplete` on short input, `complete(p)` turns
that into `Error`, `many0/many1(complete(p))` stop at the first `Error` keeping what was parsed
(`many1` needs one success), `map_parser(take(n), p)` discards what `p` leaves, `opt(p)` maps `Error`
to `None`. Text is `String`; SNI / ALPN values are the UTF-8 bytes of the Rust `String`.
SHA-256 is a parameter `sha`.
-/
namespace Huginn.Tls
open Huginn.Gen.Tls

/-! ## tls.rs -/

inductive Version where
  | v13 | v12 | v11 | v10 | ssl30 | ssl20
  | unknown (n : Nat)
  deriving DecidableEq, Repr, Inhabited

def Version.name : Version → String
  | .v13 => "V1_3" | .v12 => "V1_2" | .v11 => "V1_1" | .v10 => "V1_0"
  | .ssl30 => "Ssl3_0" | .ssl20 => "Ssl2_0" | .unknown _ => "Unknown"

def Version.ofName (s : String) : Version :=
  if s = "V1_3" then .v13 else if s = "V1_2" then .v12 else if s = "V1_1" then .v11
  else if s = "V1_0" then .v10 else if s = "Ssl3_0" then .ssl30 else if s = "Ssl2_0" then .ssl20
  else .unknown 0

/-- `tls::Signature`. `sni`/`alpn` hold the UTF-8 bytes of the `String`. -/
structure Signature where
  version : Version
  ciphers : List Nat
  extensions : List Nat
  curves : List Nat
  pointFormats : List Nat
  sigAlgs : List Nat
  sni : Option Bytes
  alpn : Option Bytes
  deriving DecidableEq, Repr, Inhabited

/-- text is built as `List Char` (converted to `String` by the driver) -/
abbrev Str := List Char

structure Ja4Payload where
  a : Str
  b : Str
  c : Str
  full : Str
  raw : Str
  deriving DecidableEq, Repr, Inhabited

/-- `impl Display for TlsVersion` (arms regenerated from the source). -/
def Version.render (v : Version) : Str := ((versionDisplay.lookup v.name).getD "??").toList

/-- `format!("{n:0wx}")` for `n < 16^w` (the arguments are `u16`, `w` = 4): exactly `w` digits. -/
def hexW (w n : Nat) : Str := (List.range w).reverse.map (fun i => Nat.digitChar (n / 16 ^ i % 16))
/-- `format!("{n:0w}")` for `n < 10^w` (the arguments are `len.min(99)`, `w` = 2). -/
def decW (w n : Nat) : Str := (List.range w).reverse.map (fun i => Nat.digitChar (n / 10 ^ i % 10))

def isGrease (v : Nat) : Bool := greaseValues.contains v
/-- `filter_grease_values` -/
def filterGrease (l : List Nat) : List Nat := l.filter (fun v => !isGrease v)

/-- `.collect::<Vec<String>>().join(sep)` -/
def joinWith (sep : Str) : List Str → Str
  | [] => []
  | [a] => a
  | a :: b :: r => a ++ sep ++ joinWith sep (b :: r)

def hexList (l : List Nat) : Str := joinWith [','] (l.map (hexW hexWidth))

def isCont (b : UInt8) : Bool := decide (0x80 ≤ b.toNat) && decide (b.toNat < 0xC0)
def asciiOr9 (b : UInt8) : Char := if b.toNat < 0x80 then Char.ofNat b.toNat else '9'

/-- `first_last_alpn` on the UTF-8 bytes of a valid string: a char is ASCII iff its (only) byte is
`< 0x80`; the string has exactly one char iff exactly one byte is not a continuation byte (then
`next_back()` after `next()` is `None`, i.e. `'0'`); `s.len() == 1` is subsumed. -/
def firstLastAlpn (s : Bytes) : Char × Char :=
  match s with
  | [] => ('0', '0')
  | b0 :: _ =>
    let nChars := (s.filter (fun b => !isCont b)).length
    (asciiOr9 b0, if nChars ≤ 1 then '0' else asciiOr9 (s.getLastD 0))

/-- `match &self.alpn { Some(alpn) => first_last_alpn(alpn), None => ('0', '0') }` -/
def alpnPair : Option Bytes → Char × Char
  | some a => firstLastAlpn a
  | none => ('0', '0')

/-- bytes of an ASCII text -/
def strBytes (s : Str) : Bytes := s.map (fun c => UInt8.ofNat c.toNat)
def hexOfBytes (b : Bytes) : Str :=
  b.flatMap (fun x => [Nat.digitChar (x.toNat / 16), Nat.digitChar (x.toNat % 16)])

/-- `hash12`: `format!("{:x}", Sha256::digest(input))[..12]` -/
def hash12 (sha : Bytes → Bytes) (s : Str) : Str := (hexOfBytes (sha (strBytes s))).take hashLen

def sortNat (l : List Nat) : List Nat := l.mergeSort (fun a b => decide (a ≤ b))

/-- `Signature::generate_ja4_with_order(original_order)` -/
def generateJa4 (sha : Bytes → Bytes) (s : Signature) (original : Bool) : Ja4Payload :=
  let fc := filterGrease s.ciphers
  let fe := filterGrease s.extensions
  let fs := filterGrease s.sigAlgs
  let sniInd : Str := if s.sni.isSome then ['d'] else ['i']
  let cc := decW countWidth (min s.ciphers.length cipherCountCap)
  let ec := decW countWidth (min s.extensions.length extCountCap)
  let al := alpnPair s.alpn
  let a := ['t'] ++ s.version.render ++ sniInd ++ cc ++ ec ++ [al.1, al.2]
  let cb := if original then fc else sortNat fc
  let b := hexList cb
  let ce := if original then fe else sortNat (fe.filter (fun e => !sortedDropIds.contains e))
  let es := hexList ce
  let ss := hexList fs
  let c := if ss.isEmpty then es else if es.isEmpty then ss else es ++ ['_'] ++ ss
  { a := a, b := b, c := c,
    full := a ++ ['_'] ++ (if cb.isEmpty then emptyListHash.toList else hash12 sha b) ++ ['_']
      ++ (if ce.isEmpty then emptyListHash.toList else hash12 sha c),
    raw := a ++ ['_'] ++ b ++ ['_'] ++ c }

/-! ## nom primitives (on `List UInt8`, `Option` = `Ok`/`Error|Incomplete` under `complete`) -/

def take? (n : Nat) (i : Bytes) : Option (Bytes × Bytes) :=
  if n ≤ i.length then some (i.take n, i.drop n) else none

def u8? : Bytes → Option (Nat × Bytes)
  | a :: r => some (a.toNat, r)
  | _ => none
def u16? : Bytes → Option (Nat × Bytes)
  | a :: b :: r => some (be16 a b, r)
  | _ => none
def u24? : Bytes → Option (Nat × Bytes)
  | a :: b :: c :: r => some (a.toNat * 65536 + be16 b c, r)
  | _ => none

/-- `length_data(be_u8)` -/
def lengthData8? (i : Bytes) : Option (Bytes × Bytes) :=
  match u8? i with | some (n, r) => take? n r | none => none
/-- `length_data(be_u16)` -/
def lengthData16? (i : Bytes) : Option (Bytes × Bytes) :=
  match u16? i with | some (n, r) => take? n r | none => none
/-- `length_data(be_u24)` -/
def lengthData24? (i : Bytes) : Option (Bytes × Bytes) :=
  match u24? i with | some (n, r) => take? n r | none => none

/-- `many0(complete(be_u16))` on a slice: a trailing odd byte is left over. -/
def pairs16 : Bytes → List Nat
  | a :: b :: r => be16 a b :: pairs16 r
  | _ => []

/-- `parse_cipher_suites` / `parse_named_groups` / `parse_tls_versions` on an exact slice:
odd length is an error. -/
def chunks16? (i : Bytes) : Option (List Nat) :=
  if i.length % 2 = 1 then none else some (pairs16 i)

/-! ## tls-parser: extensions -/

/-- What `extract_tls_signature_from_client_hello` can observe of a `TlsExtension`. -/
inductive ExtV where
  | sni (l : List (Nat × Bytes))
  | curves (l : List Nat)
  | pointFormats (b : Bytes)
  | sigAlgs (l : List Nat)
  | alpn (l : List Bytes)
  | supportedVersions (l : List Nat)
  | grease (wireType : Nat)
  | other (ty : Nat)
  deriving DecidableEq, Repr, Inhabited

/-- the `ext_type` of the extraction loop: `TlsExtension::Grease(t, _) => *t` (the type on the wire — tls-parser
itself would report `TlsExtensionType::Grease = 0xfafa` for every GREASE-like type), otherwise
`TlsExtensionType::from(&ext)`. -/
def ExtV.type : ExtV → Nat
  | .sni _ => 0 | .curves _ => 10 | .pointFormats _ => 11 | .sigAlgs _ => 13 | .alpn _ => 16
  | .supportedVersions _ => 43 | .grease t => t | .other t => t

/-- `many0(complete(parse_tls_extension_sni_hostname))` -/
def sniNames : Nat → Bytes → List (Nat × Bytes)
  | 0, _ => []
  | f + 1, i =>
    match u8? i with
    | none => []
    | some (t, r) =>
      match lengthData16? r with
      | none => []
      | some (v, rest) => (t, v) :: sniNames f rest

/-- `parse_tls_extension_sni_content` -/
def parseSni (d : Bytes) : Option ExtV :=
  if d.isEmpty then some (.sni [])
  else match lengthData16? d with
    | some (l, _) => some (.sni (sniNames l.length l))
    | none => none

/-- `many0(complete(parse_protocol_name))` -/
def protoNames : Nat → Bytes → List Bytes
  | 0, _ => []
  | f + 1, i =>
    match lengthData8? i with
    | none => []
    | some (p, rest) => p :: protoNames f rest

def parseAlpn (d : Bytes) : Option ExtV :=
  match lengthData16? d with
  | some (l, _) => some (.alpn (protoNames l.length l))
  | none => none

def parseCurves (d : Bytes) : Option ExtV :=
  match lengthData16? d with
  | some (l, _) => (chunks16? l).map .curves
  | none => none

def parsePointFormats (d : Bytes) : Option ExtV :=
  match lengthData8? d with
  | some (l, _) => some (.pointFormats l)
  | none => none

def parseSigAlgs (d : Bytes) : Option ExtV :=
  match lengthData16? d with
  | some (l, _) => some (.sigAlgs (pairs16 l))
  | none => none

/-- `parse_tls_extension_supported_versions_content`: a two-byte body is one version (ServerHello form),
otherwise a length byte (not checked) and the rest as 16-bit versions (odd rest = error). -/
def parseSupportedVersions (d : Bytes) : Option ExtV :=
  match d with
  | [a, b] => some (.supportedVersions [be16 a b])
  | [] => none
  | _ :: r => (chunks16? r).map .supportedVersions

/-- `ext_type & 0x0f0f == 0x0a0a` (for `ext_type < 65536`). -/
def greaseLike (t : Nat) : Bool := t % 16 == 10 && t / 256 % 16 == 10

/-- Success of the body parsers of tls-parser's `parse_tls_extension` for the types whose content
huginn-net does not look at (every type not in the table is `Unknown` and always succeeds). -/
def knownBodyOk (ty : Nat) (d : Bytes) : Bool :=
  let n := d.length
  if ty = 1 ∨ ty = 15 then decide (1 ≤ n)                                  -- be_u8
  else if ty = 22 ∨ ty = 23 ∨ ty = 49 ∨ ty = 13172 then decide (n = 0)      -- must be empty
  else if ty = 28 then decide (2 ≤ n)                                      -- be_u16
  else if ty = 42 then decide (n = 0 ∨ 4 ≤ n)                              -- cond(len > 0, be_u32)
  else if ty = 45 ∨ ty = 0xff01 then (lengthData8? d).isSome
  else if ty = 48 then (lengthData16? d).isSome
  else if ty = 0xffce then                                                 -- encrypted_server_name
    match take? 4 d with
    | none => false
    | some (_, r) =>
      match lengthData16? r with
      | none => false
      | some (_, r) =>
        match lengthData16? r with
        | none => false
        | some (_, r) => (lengthData16? r).isSome
  else true   -- 5, 18, 21, 35, 40, 41, 44, 51: never fail; anything else: Unknown

/-- One step of `parse_tls_extension`. -/
def parseExt (bodyOk : Nat → Bytes → Bool) (i : Bytes) : Option (ExtV × Bytes) :=
  match u16? i with
  | none => none
  | some (ty, r) =>
    match lengthData16? r with
    | none => none
    | some (d, rest) =>
      if greaseLike ty then some (.grease ty, rest)
      else
        let v :=
          if ty = 0 then parseSni d
          else if ty = 10 then parseCurves d
          else if ty = 11 then parsePointFormats d
          else if ty = 13 then parseSigAlgs d
          else if ty = 16 then parseAlpn d
          else if ty = 43 then parseSupportedVersions d
          else if bodyOk ty d then some (.other ty) else none
        v.map (fun x => (x, rest))

/-- `parse_tls_extensions = many0(complete(parse_tls_extension))`: stops silently at the first
extension that does not parse. -/
def parseExts (bodyOk : Nat → Bytes → Bool) : Nat → Bytes → List ExtV
  | 0, _ => []
  | f + 1, i =>
    match parseExt bodyOk i with
    | none => []
    | some (x, rest) => x :: parseExts bodyOk f rest

/-! ## tls-parser: ClientHello and the other handshake messages -/

/-- `TlsClientHelloContents` -/
structure Hello where
  version : Nat
  random : Bytes
  sid : Bytes
  ciphers : List Nat
  comp : Bytes
  ext : Option Bytes
  deriving DecidableEq, Repr, Inhabited

/-- `parse_tls_handshake_client_hello` -/
def parseHelloBody (i : Bytes) : Option Hello :=
  match u16? i with
  | none => none
  | some (version, i) =>
  match take? 32 i with
  | none => none
  | some (random, i) =>
  match u8? i with
  | none => none
  | some (sidlen, i) =>
  if sidlen > 32 then none else
  match take? sidlen i with
  | none => none
  | some (sid, i) =>
  match u16? i with
  | none => none
  | some (clen, i) =>
  if clen % 2 = 1 then none else
  match take? clen i with
  | none => none
  | some (cs, i) =>
  match lengthData8? i with
  | none => none
  | some (comp, i) =>
    some { version := version, random := random, sid := sid, ciphers := pairs16 cs, comp := comp,
           ext := (lengthData16? i).map (·.1) }

/-- Does the body of a non-ClientHello handshake message parse? (arms of
`parse_tls_message_handshake`; `raw` is exactly the `hl` bytes of the message) -/
def otherMsgOk (ht : Nat) (raw : Bytes) : Bool :=
  let n := raw.length
  let sh12 (hasExt : Bool) : Bool :=   -- parse_tls_server_hello_tlsv12
    let _ := hasExt
    match take? 34 raw with
    | none => false
    | some (_, r) =>
      match u8? r with
      | none => false
      | some (sl, r) => decide (sl ≤ 32) && decide (sl + 3 ≤ r.length)
  if ht = 0x00 ∨ ht = 0x05 then true                       -- HelloRequest, EndOfEarlyData
  else if ht = 0x02 then                                    -- ServerHello
    match u16? raw with
    | none => false
    | some (v, _) =>
      if v = 0x7f12 then decide (36 ≤ n)
      else if v = 0x0303 ∨ v = 0x0302 ∨ v = 0x0301 then sh12 true
      else if v = 0x0300 then sh12 false
      else false
  else if ht = 0x04 then decide (4 ≤ n)                     -- NewSessionTicket
  else if ht = 0x06 then decide (4 ≤ n)                     -- HelloRetryRequest
  else if ht = 0x0b then (lengthData24? raw).isSome         -- Certificate
  else if ht = 0x0c ∨ ht = 0x0e ∨ ht = 0x0f ∨ ht = 0x10 ∨ ht = 0x14 then true   -- take(hl)
  else if ht = 0x0d then                                    -- CertificateRequest: alt(full, nosigalg)
    match lengthData8? raw with
    | none => false
    | some (_, r) =>
      (match lengthData16? r with
       | none => false
       | some (_, r2) => (lengthData16? r2).isSome) || (lengthData16? r).isSome
  else if ht = 0x16 then                                    -- CertificateStatus
    match u8? raw with
    | none => false
    | some (_, r) => (lengthData24? r).isSome
  else if ht = 0x18 then decide (1 ≤ n)                     -- KeyUpdate
  else if ht = 0x43 then                                    -- NextProtocol
    match lengthData8? raw with
    | none => false
    | some (_, r) => (lengthData8? r).isSome
  else false

inductive Msg where
  | hello (h : Hello)
  | other
  deriving DecidableEq, Repr, Inhabited

/-- `parse_tls_message_handshake` -/
def parseMsg (i : Bytes) : Option (Msg × Bytes) :=
  match u8? i with
  | none => none
  | some (ht, r) =>
    match lengthData24? r with
    | none => none
    | some (raw, rest) =>
      if ht = 0x01 then (parseHelloBody raw).map (fun h => (.hello h, rest))
      else if otherMsgOk ht raw then some (.other, rest) else none

/-- the loop of `many1(complete(parse_tls_message_handshake))` -/
def parseMsgs : Nat → Bytes → List Msg
  | 0, _ => []
  | f + 1, i =>
    match parseMsg i with
    | none => []
    | some (m, rest) => m :: parseMsgs f rest

/-- tls-parser `MAX_RECORD_LEN = (1 << 14) + 256` -/
def maxRecordLen : Nat := 16384 + 256

/-- `parse_tls_plaintext`: `none` = `Err`, `some msgs` = the messages of the record. -/
def parsePlaintext (i : Bytes) : Option (List Msg) :=
  match i with
  | ty :: _ :: _ :: l1 :: l2 :: r =>
    let len := be16 l1 l2
    if len > maxRecordLen then none
    else match take? len r with
      | none => none
      | some (body, _) =>
        let t := ty.toNat
        if t = 0x16 then
          let ms := parseMsgs body.length body
          if ms.isEmpty then none else some ms
        else if t = 0x14 then (if body.head?.map (·.toNat) = some 1 then some [] else none)
        else if t = 0x15 then (if 2 ≤ body.length then some [] else none)
        else if t = 0x18 then
          (match body with
           | _ :: p1 :: p2 :: rest => if be16 p1 p2 ≤ rest.length then some [] else none
           | _ => none)
        else none    -- 0x17: many1 over a parser that consumes nothing on its second call → Error
  | _ => none

/-! ## tls_process.rs -/

/-- name of the `tls_parser::TlsVersion` constant with this value (used to look the arms up). -/
def legacyName (v : Nat) : String :=
  if v = 0x0300 then "Ssl30" else if v = 0x0301 then "Tls10" else if v = 0x0302 then "Tls11"
  else if v = 0x0303 then "Tls12" else if v = 0x0304 then "Tls13"
  else if v = 0x7f12 then "Tls13Draft18" else if v = 0x7f13 then "Tls13Draft19"
  else if v = 0x7f14 then "Tls13Draft20" else if v = 0x7f15 then "Tls13Draft21"
  else if v = 0x7f16 then "Tls13Draft22" else if v = 0x7f17 then "Tls13Draft23"
  else if v = 0xfeff then "DTls10" else if v = 0xfefe then "DTls11" else if v = 0xfefd then "DTls12"
  else "?"

/-- value of the `TlsExtensionType` constant named in `determine_tls_version`. -/
def extIdOfName (s : String) : Nat :=
  if s = "SupportedVersions" then 43 else if s = "ServerName" then 0
  else if s = "ApplicationLayerProtocolNegotiation" then 16 else if s = "SignatureAlgorithms" then 13
  else if s = "SupportedGroups" then 10 else if s = "KeyShare" then 51 else 65536

/-- `determine_tls_version` -/
def determineVersion (legacy : Nat) (exts : List Nat) : Version :=
  if exts.contains (extIdOfName svExtName) then Version.ofName svForces
  else match legacyArms.lookup (legacyName legacy) with
    | some n => Version.ofName n
    | none =>
      match legacyCodeArms.lookup legacy with
      | some n => Version.ofName n
      | none => if legacyDefaultCarriesCode then .unknown legacy else Version.ofName legacyDefault

/-- `std::str::from_utf8(..).is_ok()` (Unicode table 3-7). -/
def utf8Step : Bytes → Option Bytes
  | [] => none
  | b0 :: r =>
    let x := b0.toNat
    let cont (lo hi : Nat) (r : Bytes) : Option Bytes :=
      match r with
      | b :: r' => if lo ≤ b.toNat ∧ b.toNat ≤ hi then some r' else none
      | [] => none
    if x < 0x80 then some r
    else if 0xC2 ≤ x ∧ x ≤ 0xDF then cont 0x80 0xBF r
    else if x = 0xE0 then (cont 0xA0 0xBF r).bind (cont 0x80 0xBF)
    else if (0xE1 ≤ x ∧ x ≤ 0xEC) ∨ x = 0xEE ∨ x = 0xEF then (cont 0x80 0xBF r).bind (cont 0x80 0xBF)
    else if x = 0xED then (cont 0x80 0x9F r).bind (cont 0x80 0xBF)
    else if x = 0xF0 then ((cont 0x90 0xBF r).bind (cont 0x80 0xBF)).bind (cont 0x80 0xBF)
    else if 0xF1 ≤ x ∧ x ≤ 0xF3 then ((cont 0x80 0xBF r).bind (cont 0x80 0xBF)).bind (cont 0x80 0xBF)
    else if x = 0xF4 then ((cont 0x80 0x8F r).bind (cont 0x80 0xBF)).bind (cont 0x80 0xBF)
    else none

def validUtf8F : Nat → Bytes → Bool
  | _, [] => true
  | 0, _ => false
  | f + 1, s => match utf8Step s with | some r => validUtf8F f r | none => false
def validUtf8 (s : Bytes) : Bool := validUtf8F s.length s

def utf8? (s : Bytes) : Option Bytes := if validUtf8 s then some s else none

/-- State of the extraction loop over the parsed extensions. -/
structure Acc where
  extensions : List Nat := []
  sni : Option Bytes := none
  alpn : Option Bytes := none
  sigAlgs : List Nat := []
  curves : List Nat := []
  pointFormats : List Nat := []
  supportedVersions : Option (List Nat) := none
  deriving DecidableEq, Repr, Inhabited

def Acc.step (a : Acc) (x : ExtV) : Acc :=
  let a := if isGrease x.type then a else { a with extensions := a.extensions ++ [x.type] }
  match x with
  | .sni l => (match l.head? with | some (_, h) => { a with sni := utf8? h } | none => a)
  | .alpn l => (match l.head? with | some p => { a with alpn := utf8? p } | none => a)
  | .sigAlgs l => { a with sigAlgs := l }
  | .curves l => { a with curves := l }
  | .pointFormats b => { a with pointFormats := b.map (·.toNat) }
  | .supportedVersions l => { a with supportedVersions := some l }
  | _ => a

/-- `Iterator::max` -/
def maxList : List Nat → Option Nat
  | [] => none
  | x :: r => some (r.foldl max x)

/-- `highest_supported` and the `let version = match highest_supported { … }` of the extraction -/
def versionOf (legacy : Nat) (a : Acc) : Version :=
  match a.supportedVersions.bind (fun vs => maxList (filterGrease vs)) with
  | some highest => determineVersion highest []
  | none => determineVersion legacy a.extensions

/-- `if let Some(ext_data) = &client_hello.ext { parse_tls_extensions(ext_data) }` -/
def parsedExts (bodyOk : Nat → Bytes → Bool) : Option Bytes → List ExtV
  | some d => parseExts bodyOk d.length d
  | none => []

/-- `extract_tls_signature_from_client_hello` -/
def extractSig (bodyOk : Nat → Bytes → Bool) (h : Hello) : Signature :=
  let xs := parsedExts bodyOk h.ext
  let a := xs.foldl Acc.step {}
  { version := versionOf h.version a,
    ciphers := filterGrease h.ciphers,
    extensions := a.extensions,
    curves := a.curves, pointFormats := a.pointFormats, sigAlgs := a.sigAlgs,
    sni := a.sni, alpn := a.alpn }

def firstHello : List Msg → Option Hello
  | [] => none
  | .hello h :: _ => some h
  | .other :: r => firstHello r

/-- `parse_tls_client_hello`: selects the first complete record as prefix when there is one. -/
def parseClientHello (bodyOk : Nat → Bytes → Bool) (data : Bytes) : PR Signature :=
  if data.length < 5 then .err
  else
    let needed := be16 (data.getD 3 0) (data.getD 4 0) + 5
    let d := if needed ≤ data.length then data.take needed else data
    match parsePlaintext d with
    | none => .err
    | some ms =>
      match firstHello ms with
      | some h => .sig (extractSig bodyOk h)
      | none => .notHello

/-- Everything the implementation reports about a ClientHello (the observables of C04). -/
structure Report where
  ja4 : Str
  ja4r : Str
  ja4o : Str
  ja4ro : Str
  version : String        -- name of the `TlsVersion` variant
  sni : Option Bytes
  alpn : Option Bytes
  ciphers : List Nat
  extensions : List Nat
  sigAlgs : List Nat
  groups : List Nat
  deriving DecidableEq, Repr, Inhabited

def reportOf (sha : Bytes → Bytes) (sg : Signature) : Report :=
  let j := generateJa4 sha sg false
  let o := generateJa4 sha sg true
  { ja4 := j.full, ja4r := j.raw, ja4o := o.full, ja4ro := o.raw, version := sg.version.name,
    sni := sg.sni, alpn := sg.alpn, ciphers := sg.ciphers, extensions := sg.extensions,
    sigAlgs := sg.sigAlgs, groups := sg.curves }

/-- `parse_tls_client_hello(bytes)` followed by `generate_ja4()` / `generate_ja4_original()`. -/
def modelReport (sha : Bytes → Bytes) (bodyOk : Nat → Bytes → Bool) (b : Bytes) : Option Report :=
  match parseClientHello bodyOk b with
  | .sig sg => some (reportOf sha sg)
  | _ => none

end Huginn.Tls
