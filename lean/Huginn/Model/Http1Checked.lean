import Huginn.Model.WireChecked
import Huginn.Model.Http1
/-
Checked-access mirrors of the HTTP/1.x byte-level functions (C01: analysis is total).

Every indexing `x[i]` and slicing `&x[i..j]`, `x[..i]` expression of
  huginn-net-http/src/http1_parser.rs   parse_request, parse_response (`lines[0]`, `&lines[1..header_end]`),
                                        parse_request_line (`parts[0..2]`), parse_status_line (`parts[0]`,
                                        `parts[1]`), parse_headers (`line[..colon_pos]`), parse_cookies
                                        (`cookie_str[..eq_pos]`)
  huginn-net-http/src/http1_process.rs  can_process_request (`parts[0]`, `parts[1]`, `parts[2]`),
                                        can_process_response / looks_like_http1_response (`parts[0]`,
                                        `parts[1]`), has_complete_headers (`data[i]` in the bounded `for` loop)
is written with accessors that *fail* (`Except.error`) exactly where Rust panics, behind the guards
as written, so that "no panic" is a statement to prove (Props/C01Http1.lean).
`str` slices at an index returned by `find(':')` / `find('=')` are on a character boundary (the
needle is ASCII); the byte-level model has no other failure mode for them than the length.
Arithmetic in these files is `saturating_add` / `saturating_sub` / `wrapping_*` only, apart from the
constant `64 * 1024`; `enumerate` positions and lengths stay below `usize::MAX`.
http_process.rs (`process_tcp_packet`, `get_full_data`) and http_languages.rs contain no indexing,
slicing, division or unchecked arithmetic: `Vec::get(have..)`, `wrapping_sub/add`, `unwrap_or`,
iterator adaptors; their models (Model/HttpFlow.lean, `highestQualityLanguage`) are total functions.
-/
namespace Huginn.Http1Checked
open Huginn.Http1 Huginn.WireChecked Huginn.Gen

/-- `l[i]` on a `Vec` / slice of anything -/
def nth {α} (l : List α) (i : Nat) : M α :=
  if h : i < l.length then .ok l[i] else .error (.index i l.length)

/-- `&l[i..j]` on a slice of anything -/
def sliceL {α} (l : List α) (i j : Nat) : M (List α) :=
  if i ≤ j ∧ j ≤ l.length then .ok ((l.take j).drop i) else .error (.slice i j l.length)

/-- `s[..i]` on a `str` -/
def upTo (b : Bytes) (i : Nat) : M Bytes :=
  if i ≤ b.length then .ok (b.take i) else .error (.slice 0 i b.length)

/-- `str::find(c)` for an ASCII needle -/
def findByte (c : UInt8) : Bytes → Option Nat
  | [] => none
  | a :: r => if a = c then some 0 else (findByte c r).map (· + 1)

/-! ### http1_parser.rs -/

/-- `parse_request_line`: `parts.len() != 3` guards `parts[0]`, `parts[1]`, `parts[2]` -/
def parseRequestLineC (line : Bytes) : M (Except PErr (Bytes × Bytes × Ver)) :=
  if line.length > HttpLists.maxRequestLineLength then pure (.error .invalidRequestLine) else
  let parts := splitWs line
  if parts.length ≠ 3 then pure (.error .invalidRequestLine) else do
    let m ← nth parts 0
    let u ← nth parts 1
    let v ← nth parts 2
    match parseVersion v with
    | none => pure (.error .invalidVersion)          -- the error value reads `parts[2]` again
    | some ver =>
      if !(ver == .v10 || ver == .v11) then pure (.error .invalidVersion)
      else if !isValidMethod m then pure (.error .invalidMethod)
      else pure (.ok (m, u, ver))

/-- `parse_status_line`: `parts.len() < 2` guards `parts[0]`, `parts[1]`; `parts.get(2)` is checked -/
def parseStatusLineC (line : Bytes) : M (Except PErr (Ver × Nat × Bytes)) :=
  let parts := splitn3 SP line
  if parts.length < 2 then pure (.error .invalidStatusLine) else do
    let v ← nth parts 0
    match parseVersion v with
    | none => pure (.error .invalidVersion)
    | some ver =>
      if !(ver == .v10 || ver == .v11) then pure (.error .invalidVersion) else do
      let c ← nth parts 1
      match parseUnsigned 65535 c with
      | none => pure (.error .invalidStatusCode)
      | some code => pure (.ok (ver, code, (parts[2]?).getD []))

/-- one line of `parse_headers`: `line[..colon_pos]`, `line.get(colon_pos + 1..)` -/
def parseHeaderLineC (line : Bytes) (pos : Nat) : M (Option Hdr) :=
  match findByte 58 line with
  | none => pure none
  | some colon => do
    let n ← upTo line colon
    let name := trim n
    -- `line.get(colon_pos.saturating_add(1)..)`: `None` if out of range (it never is)
    let value : Option Bytes := if colon + 1 ≤ line.length then some (trimAscii (line.drop (colon + 1))) else none
    if name.isEmpty then pure none else pure (some { name := name, value := value, pos := pos })

def parseHeaderLinesC : List Bytes → Nat → M (List Hdr)
  | [], _ => pure []
  | l :: ls, pos => do
    let h ← parseHeaderLineC l pos
    let rest ← parseHeaderLinesC ls (pos + 1)
    pure (match h with | some h => h :: rest | none => rest)

/-- one piece of `parse_cookies`: `cookie_str[..eq_pos]`, `cookie_str.get(eq_pos + 1..)` -/
def parseCookiePieceC (piece : Bytes) (pos : Nat) : M (Option Cookie) :=
  let p := trimAscii piece
  if p.isEmpty then pure none else
  match findByte 61 p with
  | some eq => do
    let n ← upTo p eq
    let v := if eq + 1 ≤ p.length then p.drop (eq + 1) else []       -- `.get(..).unwrap_or("")`
    pure (some { name := trimAscii n, value := some (trimAscii v), pos := pos })
  | none => pure (some { name := p, value := none, pos := pos })

def parseCookiePiecesC : List Bytes → Nat → M (List Cookie)
  | [], _ => pure []
  | p :: ps, pos => do
    match ← parseCookiePieceC p pos with
    | some c => do let rest ← parseCookiePiecesC ps (pos + 1); pure (c :: rest)
    | none => parseCookiePiecesC ps pos

def parseCookiesC (v : Bytes) : M (List Cookie) := parseCookiePiecesC (splitByte 59 v) 0

/-- index of the first empty line, or the number of lines (`position(..).unwrap_or(lines.len())`) -/
def headerEnd : List Bytes → Nat
  | [] => 0
  | l :: ls => if l.isEmpty then 0 else headerEnd ls + 1

/-- `parse_request` after the UTF-8 / blank-line tests: `lines.is_empty()` guards `lines[0]`; then
`&lines[1..header_end]` -/
def parseRequestHeadC (hd : Bytes) : M (Outcome ParsedReq) :=
  if !utf8Valid hd then pure (.err .invalidUtf8) else
  if !hasBlankLine hd then pure .incomplete else
  let lines := headLines hd
  if lines.isEmpty then pure (.err .incompleteData) else do
    let l0 ← nth lines 0
    match ← parseRequestLineC l0 with
    | .error e => pure (.err e)
    | .ok (m, u, ver) => do
      let hl ← sliceL lines 1 (headerEnd lines)
      match parseHeaders hl with
      | .error e => pure (.err e)
      | .ok (all, info) => do
        let l0' ← nth lines 0        -- `lines[0].len()`, `lines[0].to_string()`
        pure (.ok (assembleReq m u ver all l0' info))

def parseResponseHeadC (hd : Bytes) : M (Outcome ParsedRes) :=
  if !utf8Valid hd then pure (.err .invalidUtf8) else
  if !hasBlankLine hd then pure .incomplete else
  let lines := headLines hd
  if lines.isEmpty then pure (.err .incompleteData) else do
    let l0 ← nth lines 0
    match ← parseStatusLineC l0 with
    | .error e => pure (.err e)
    | .ok (ver, code, reason) => do
      let hl ← sliceL lines 1 (headerEnd lines)
      match parseHeaders hl with
      | .error e => pure (.err e)
      | .ok (headers, info) => do
        let l0' ← nth lines 0
        pure (.ok (assembleRes ver code reason headers l0' info))

/-! ### http1_process.rs -/

/-- `can_process_request`: `parts.len() != 3` guards `parts[0]`, `parts[2]`, `parts[1]` (`&&` left to right) -/
def h1CanRequestC (data : Bytes) : M Bool :=
  if data.length < HttpLists.gateRequestMinLen then pure false
  else if isHttp2Traffic data then pure false
  else
    let parts := splitWs (firstLine data)
    if parts.length ≠ 3 then pure false else do
      let m ← nth parts 0
      if !(HttpLists.gateMethods.any (fun s => ascii s == m)) then pure false else do
      let v ← nth parts 2
      if !isHttp1VersionTok v then pure false else do
      let u ← nth parts 1
      pure (!u.isEmpty)

/-- `can_process_response`: `parts.len() < 2` guards `parts[0]`, `parts[1]` -/
def h1CanResponseC (data : Bytes) : M Bool :=
  if data.length < HttpLists.gateResponseMinLen then pure false
  else if decide (data.length ≥ 9) && looksLikeHttp2Response data then pure false
  else
    let parts := splitn3 SP (firstLine data)
    if parts.length < 2 then pure false else do
      let v ← nth parts 0
      if !isHttp1VersionTok v then pure false else do
      let c ← nth parts 1
      pure (c.length == HttpLists.gateStatusDigits && c.all isDigit)

/-- `looks_like_http1_response`: `parts.len() < 2` guards `parts[0]`, `parts[1]` -/
def looksLikeHttp1ResponseC (data : Bytes) : M Bool :=
  if data.length < HttpLists.gateResponseMinLen then pure false
  else if decide (data.length ≥ 9) && looksLikeHttp2Response data then pure false
  else
    let parts := splitWs (firstLine data)
    if parts.length < 2 then pure false else do
      let v ← nth parts 0
      if !isHttp1VersionTok v then pure false else do
      let c ← nth parts 1
      pure (c.length == HttpLists.gateStatusDigits && c.all isDigit)

/-- the loop of `has_complete_headers`: `for i in 0..n` reads `data[i]` (panicking index) and
`data.get(i + 1 ..= i + 3)` (checked); `k` is the number of iterations left -/
def completeLoopC (data : Bytes) : Nat → Nat → M Bool
  | _, 0 => pure false
  | i, k + 1 => do
    let b ← idx8 data i
    if b = CR ∧ data[i + 1]? = some LF ∧ data[i + 2]? = some CR ∧ data[i + 3]? = some LF then pure true
    else completeLoopC data (i + 1) k

/-- `has_complete_headers`: `data.len() < 4` guard, then the loop over `0..len.saturating_sub(3)` -/
def hasCompleteHeadersC (data : Bytes) : M Bool :=
  if data.length < 4 then pure false else completeLoopC data 0 (data.length - 3)

end Huginn.Http1Checked
