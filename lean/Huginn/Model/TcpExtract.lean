import Huginn.Model.Sig
import Huginn.Gen.TcpConst
/-!
Mirror of the TCP signature extractor of huginn-net-tcp *as it is* (including its defects):

* `ttl.rs`            `guess_distance`, `calculate_ttl`
* `window_size.rs`    `detect_win_multiplicator`
* `ip_options.rs`     `IpOptions::calculate_ipv4_length / calculate_ipv6_length`
* `mtu.rs`            `extract_from_ipv4 / extract_from_ipv6`
* `tcp_process.rs`    `from_client`, `from_server`, `is_packet_from_client`, `is_valid`,
                      `process_tcp_ipv4 / process_tcp_ipv6`, `visit_tcp` (incl. the option walk),
                      `options_malformed`
* `process.rs`        the output glue of `process_ipv4_packet / process_ipv6_packet` (matcher = `None`)
* `signature_matcher.rs` `matching_by_mtu`

All numbers are `Nat`; the Rust widths are recorded in `Fields.WF`. `x - y` on `Nat` is
`saturating_sub`; `saturating_add` on `u16` is `satAdd16`, `checked_add` is `chkAdd16`. Byte strings are `List Nat` (each `< 256`).

Third party (pnet 0.35.0), modelled at its interface from the `#[packet]` macro templates and the
`length_fn`s in `pnet_packet/src/{ipv4,ipv6,tcp}.rs`, exercised by the harness, not proved:
`Ipv4Packet/Ipv6Packet/TcpPacket/TcpOptionPacket::new` (minimum sizes 20/40/20/1), field accessors,
`payload()` (start/end clipping), `get_options_raw()`, `TcpOptionPacket::packet_size()`.
-/
namespace Huginn.TcpExtract
open Huginn.Sig Huginn.Gen

abbrev Bytes := List Nat

/-! ### pnet constants (third party) -/
def FIN : Nat := 1
def SYN : Nat := 2
def RST : Nat := 4
def PSH : Nat := 8
def ACK : Nat := 16
def URG : Nat := 32
def ECE : Nat := 64
def CWR : Nat := 128
/-- `Ipv4Flags::DontFragment`, `Ipv4Flags::MoreFragments` (the flags field is 3 bits wide) -/
def IP_DF : Nat := 2
def IP_MF : Nat := 1
/-- `IpNextHeaderProtocols::Tcp` -/
def PROTO_TCP : Nat := 6

/-! ### header fields (what the pnet accessors return) -/

structure IpHdr where
  v6      : Bool
  ttl     : Nat        -- v4 ttl / v6 hop limit (u8)
  ihl     : Nat := 5   -- v4 header_length nibble (u4); unused for v6
  ecn     : Nat := 0   -- v4 `get_ecn()` (u2) / v6 `get_traffic_class()` (u8)
  flags   : Nat := 0   -- v4 `get_flags()` (u3): 4 = reserved, 2 = DF, 1 = MF; unused for v6
  ipid    : Nat := 0   -- v4 identification (u16)
  fragOff : Nat := 0   -- v4 fragment offset (u13)
  flow    : Nat := 0   -- v6 flow label (u20)
  proto   : Nat := 6   -- v4 next_level_protocol / v6 next_header (u8)
  deriving DecidableEq, Repr, Inhabited

structure TcpHdr where
  sport   : Nat := 0
  dport   : Nat := 0
  seq     : Nat := 0
  ack     : Nat := 0
  doff    : Nat := 5   -- data offset nibble (u4)
  flags   : Nat := 2   -- u8
  window  : Nat := 0
  urg     : Nat := 0
  opts    : Bytes := []   -- `get_options_raw()` (already clipped to the buffer)
  payLen  : Nat := 0      -- `payload().len()`
  deriving DecidableEq, Repr, Inhabited

structure Fields where
  ip  : IpHdr
  tcp : TcpHdr
  deriving DecidableEq, Repr, Inhabited

/-- Widths guaranteed by the Rust/pnet types. -/
def Fields.WF (f : Fields) : Prop :=
  f.ip.ttl < 256 ∧ f.ip.ihl < 16 ∧ f.ip.ecn < (if f.ip.v6 then 256 else 4) ∧ f.ip.flags < 8 ∧
  f.ip.ipid < 65536 ∧ f.ip.fragOff < 8192 ∧ f.ip.flow < 1048576 ∧ f.ip.proto < 256 ∧
  f.tcp.sport < 65536 ∧ f.tcp.dport < 65536 ∧ f.tcp.seq < 4294967296 ∧ f.tcp.ack < 4294967296 ∧
  f.tcp.doff < 16 ∧ f.tcp.flags < 256 ∧ f.tcp.window < 65536 ∧ f.tcp.urg < 65536 ∧
  f.tcp.opts.length ≤ 40 ∧ (∀ b ∈ f.tcp.opts, b < 256)
instance (f : Fields) : Decidable f.WF := by unfold Fields.WF; exact inferInstance

/-! ### ttl.rs -/

def guessDistanceAux (ttl : Nat) : List (Nat × Nat) → Nat
  | [] => TcpConst.ttlLastInit - ttl
  | (lo, init) :: r => if ttl > lo then init - ttl else guessDistanceAux ttl r

def guessDistance (ttl : Nat) : Nat := guessDistanceAux ttl TcpConst.ttlBands

def calculateTtl (t : Nat) : Ttl :=
  if t = 0 then .bad t
  else
    let d := guessDistance t
    if d ≤ TcpConst.maxHops then .distance t d else .value t

/-! ### window_size.rs -/

def satAdd16 (a b : Nat) : Nat := min (a + b) 65535
/-- `u16::checked_add` as the list of divisors it lets through -/
def chkAdd16 (a b : Nat) : List Nat := if a + b ≤ 65535 then [a + b] else []

/-- `check_mss_div!` / `check_mtu_div!`: `Some(multiplier)` when the macro returns. -/
def checkDiv (w d : Nat) : Option Nat :=
  if d ≠ 0 ∧ w % d = 0 then
    (if w / d ≤ TcpConst.maxMultiplier then some (w / d) else none)
  else none

def firstDiv (w : Nat) : List Nat → Option Nat
  | [] => none
  | d :: r => match checkDiv w d with
    | some n => some n
    | none => firstDiv w r

/-- The divisors tried by step 1 (in order). -/
def mssDivs (mss : Nat) (ts : Bool) : List Nat :=
  if mss > 0 then [mss] ++ (if ts && decide (mss > TcpConst.tsSize) then [mss - TcpConst.tsSize] else []) else []

/-- The divisors tried by steps 3 and 4 (in order). -/
def mtuDivs (mss hdr : Nat) (ts : Bool) (ver : IpVersion) : List Nat :=
  [TcpConst.ethMtu] ++
  (match ver with
   | .v4 => [TcpConst.ethMtu - TcpConst.minTcp4] ++ (if ts then [TcpConst.ethMtu - TcpConst.minTcp4 - TcpConst.tsSize] else [])
   | .v6 => [TcpConst.ethMtu - TcpConst.minTcp6] ++ (if ts then [TcpConst.ethMtu - TcpConst.minTcp6 - TcpConst.tsSize] else [])
   | .any => []) ++
  (if mss > 0 then
    (if hdr > 0 then chkAdd16 mss hdr
     else match ver with
      | .v4 => chkAdd16 mss TcpConst.minTcp4
      | .v6 => chkAdd16 mss TcpConst.minTcp6
      | .any => [])
   else [])

/-- `detect_win_multiplicator(window_size, mss, total_header, has_ts, ip_ver)`; second component
names the arm taken. -/
def detectWinT (w mss hdr : Nat) (ts : Bool) (ver : IpVersion) : WindowSize × String :=
  if w = 0 ∨ mss < TcpConst.minMss then (.value w, "raw-guard")
  else match firstDiv w (mssDivs mss ts) with
    | some n => (.mss n, "mss")
    | none =>
      match TcpConst.modulos.find? (fun m => m ≠ 0 ∧ w % m = 0) with
      | some m => (.mod m, "mod")
      | none =>
        match firstDiv w (mtuDivs mss hdr ts ver) with
        | some n => (.mtu n, "mtu")
        | none => (.value w, "raw")

def detectWin (w mss hdr : Nat) (ts : Bool) (ver : IpVersion) : WindowSize :=
  (detectWinT w mss hdr ts ver).1

/-! ### ip_options.rs -/

def ipv4OptLen (ihl : Nat) : Nat :=
  if ihl > TcpConst.ihlGuard then min ((ihl - TcpConst.ihlSub) * TcpConst.ihlMul) 255 else 0

/-- `calculate_ipv6_length` is only reached with `next_header == Tcp`, where it returns 0. -/
def ipv6OptLen : Nat := 0

/-! ### tcp_process.rs: roles and flag sanity -/

def fromClient (fl : Nat) : Bool := (fl &&& SYN != 0) && (fl &&& ACK == 0)
def fromServer (fl : Nat) : Bool := (fl &&& SYN != 0) && (fl &&& ACK != 0)

def isPacketFromClient (fl sport dport : Nat) : Bool :=
  if fromClient fl then true
  else if fromServer fl then false
  else decide (sport > TcpConst.portHeurSrcGt) && decide (dport ≤ TcpConst.portHeurDstLe)

def tcpType (fl : Nat) : Nat := fl &&& (SYN ||| ACK ||| FIN ||| RST)

def isValid (fl ty : Nat) : Bool :=
  !((((fl &&& SYN) == SYN) && ((fl &&& (FIN ||| RST)) != 0))
    || ((fl &&& (FIN ||| RST)) == (FIN ||| RST))
    || (ty == 0))

/-! ### mtu.rs -/

def mtuTcpTerm (doff guard sub mul : Nat) : Nat :=
  let t := doff * mul
  if t > guard then t - sub else t

def extractMtu4 (tcpFlags ihl doff mss : Nat) : Option Nat :=
  if tcpFlags &&& SYN == SYN then
    some (satAdd16 (satAdd16 mss (ihl * TcpConst.mtu4IhlMul))
      (mtuTcpTerm doff TcpConst.mtu4TcpGuard TcpConst.mtu4TcpSub TcpConst.mtu4DoffMul))
  else none

def extractMtu6 (tcpFlags hdrLen doff mss : Nat) : Option Nat :=
  if tcpFlags &&& SYN == SYN then
    some (satAdd16 (satAdd16 mss hdrLen)
      (mtuTcpTerm doff TcpConst.mtu6TcpGuard TcpConst.mtu6TcpSub TcpConst.mtu6DoffMul))
  else none

/-! ### signature_matcher.rs -/

def matchingByMtu (tbl : List (String × List Nat)) (m : Nat) : Option String :=
  (tbl.find? (fun e => e.2.contains m)).map (·.1)

/-! ### tcp_process.rs: the option walk -/

/-- `TcpOptionPacket::packet_size()` on a non-empty buffer (pnet `tcp_option_length`,
`tcp_option_payload_length`): kinds 0/1 have no length byte; otherwise the size is
`2 + (len ≥ 2 ? len − 2 : 0)`, with a missing length byte read as "no payload". -/
def optSize : Bytes → Nat
  | [] => 0
  | k :: rest =>
    if k = 0 ∨ k = 1 then 1
    else match rest with
      | [] => 2
      | l :: _ => if l ≥ 2 then 2 + (l - 2) else 2

/-- `TcpOptionPacket::payload()`: `packet[start .. min(start + payload_len, len)]`, empty when
`len ≤ start`. -/
def optPayload : Bytes → Bytes
  | [] => []
  | k :: rest =>
    if k = 0 ∨ k = 1 then []
    else match rest with
      | [] => []
      | l :: data => data.take (if l ≥ 2 then l - 2 else 0)

def be16 (a b : Nat) : Nat := a * 256 + b
def be32 (a b c d : Nat) : Nat := ((a * 256 + b) * 256 + c) * 256 + d

structure WalkSt where
  mss     : Option Nat := none
  wscale  : Option Nat := none
  olayout : List TcpOption := []
  quirks  : List Quirk := []
  /-- TSval of every timestamp option that reaches `check_ts_tcp`, in order -/
  tsCalls : List Nat := []
  deriving DecidableEq, Repr, Inhabited

/-- `if … && !quirks.contains(&q) { quirks.push(q) }` for each candidate in turn: a quirk already in
the list is not pushed again (the four pushes inside the option loop, since
fixes/C03-option-quirks-reported-once.patch; the same idiom as the TCP-level `ecn`). -/
def addNew : List Quirk → List Quirk → List Quirk
  | qs, [] => qs
  | qs, q :: r => addNew (if qs.contains q then qs else qs ++ [q]) r

/-- the quirks one iteration of the option loop wants to push (before the `contains` guards), in the
order of the pushes: `opt+` (EOL with a non-zero byte after it), `exws`, `ts1-` then `ts2+` -/
def stepQuirks (ty : Nat) (kind : Nat) (data rest : Bytes) : List Quirk :=
  match kind with
  | 0 => if rest.any (· != 0) then [.trailingNonZero] else []
  | 3 =>
    match data with
    | shift :: _ => if shift > TcpConst.maxWscale then [.excessiveWindowScaling] else []
    | [] => []
  | 8 =>
    (match data with
      | a :: b :: c :: d :: _ => if be32 a b c d = 0 then [.ownTimestampZero] else []
      | _ => []) ++
    (match data with
      | _ :: _ :: _ :: _ :: e :: f :: g :: h :: _ =>
        if ty = SYN ∧ be32 e f g h ≠ 0 then [.peerTimestampNonZero] else []
      | _ => [])
  | _ => []

/-- One iteration of `while let Some(opt) = TcpOptionPacket::new(buf)` on a non-empty `buf`;
`rest` is `buf` after `buf = &buf[opt.packet_size().min(buf.len())..]`. -/
def walkStep (ty : Nat) (kind : Nat) (data rest : Bytes) (st : WalkSt) : WalkSt :=
  let quirks := addNew st.quirks (stepQuirks ty kind data rest)
  match kind with
  | 0 => { st with olayout := st.olayout ++ [.eol (rest.length % 256)], quirks := quirks }
  | 1 => { st with olayout := st.olayout ++ [.nop] }
  | 2 =>
    { st with olayout := st.olayout ++ [.mss],
              mss := match data with
                | a :: b :: _ => some (be16 a b)
                | _ => st.mss }
  | 3 =>
    match data with
    | shift :: _ => { st with olayout := st.olayout ++ [.ws], wscale := some shift, quirks := quirks }
    | [] => { st with olayout := st.olayout ++ [.ws] }
  | 4 => { st with olayout := st.olayout ++ [.sok] }
  | 5 => { st with olayout := st.olayout ++ [.sack] }
  | 8 =>
    let calls : List Nat := match data with
      | a :: b :: c :: d :: _ :: _ :: _ :: _ :: _ => [be32 a b c d]
      | _ => []
    { st with olayout := st.olayout ++ [.ts], quirks := quirks, tsCalls := st.tsCalls ++ calls }
  | k => { st with olayout := st.olayout ++ [.unknown k] }

/-- The loop, with explicit fuel (`walk` supplies `buf.length`, which always suffices:
`Props.C03.walk_fuel`). -/
def walkAux (ty : Nat) : Nat → Bytes → WalkSt → WalkSt
  | 0, _, st => st
  | _ + 1, [], st => st
  | n + 1, k :: tl, st =>
    let buf := k :: tl
    let rest := buf.drop (min (optSize buf) buf.length)
    walkAux ty n rest (walkStep ty k (optPayload buf) rest st)

def walk (ty : Nat) (buf : Bytes) (st : WalkSt) : WalkSt := walkAux ty buf.length buf st

/-! ### tcp_process.rs: `options_malformed` (the `bad` quirk) -/

/-- the size table of `options_malformed`: the length byte a fixed-format option must carry
(regenerated from the `match number` arms), any other kind needs `len >= optionMinLen` -/
def optSizeOk (kind len : Nat) : Bool :=
  match TcpConst.optionSizes.find? (fun e => e.1 == kind) with
  | some e => e.2.contains len
  | none => decide (len ≥ TcpConst.optionMinLen)

/-- The loop of `options_malformed` with explicit fuel: `EOL => return false`, `NOP => buf = rest`,
otherwise the length byte must exist (`rest.first()`), pass the size table and stay inside the buffer
(`buf.get(len..)`). Kinds 0 / 1 are pnet's `TcpOptionNumbers::EOL / NOP`. -/
def optionsMalformedAux : Nat → Bytes → Bool
  | 0, _ => false
  | _ + 1, [] => false
  | n + 1, k :: rest =>
    if k = 0 then false
    else if k = 1 then optionsMalformedAux n rest
    else match rest with
      | [] => true
      | len :: _ =>
        if optSizeOk k len = true ∧ len ≤ rest.length + 1 then optionsMalformedAux n ((k :: rest).drop len)
        else true

/-- `options_malformed(tcp.get_options_raw())` (every iteration consumes at least one byte, so the
fuel `buf.length` suffices: `Lemmas.TcpWalk.optionsMalformedAux_fuel`) -/
def optionsMalformed (buf : Bytes) : Bool := optionsMalformedAux buf.length buf

/-- which exit of `options_malformed` is taken (coverage tags only): no length byte, length byte
below 2, wrong size of the fixed-format option of kind `k`, option running past the area -/
def malformedKindAux : Nat → Bytes → Option String
  | 0, _ => none
  | _ + 1, [] => none
  | n + 1, k :: rest =>
    if k = 0 then none
    else if k = 1 then malformedKindAux n rest
    else match rest with
      | [] => some "nolen"
      | len :: _ =>
        if len < 2 then some "short"
        else if !optSizeOk k len then some s!"size{k}"
        else if len > rest.length + 1 then some "past"
        else malformedKindAux n ((k :: rest).drop len)

def malformedKind (buf : Bytes) : Option String := malformedKindAux buf.length buf

/-! ### tcp_process.rs: the header quirks -/

def ipQuirksV4 (ip : IpHdr) : List Quirk :=
  (if ip.ecn &&& (TcpConst.ipTosCe ||| TcpConst.ipTosEct) ≠ 0 then [.ecn] else []) ++
  (if ip.flags &&& TcpConst.ip4Mbz ≠ 0 then [.mustBeZero] else []) ++
  (if ip.flags &&& IP_DF ≠ 0 then
      [.df] ++ (if ip.ipid ≠ 0 then [.nonZeroID] else [])
   else if ip.ipid = 0 then [.zeroID] else [])

def ipQuirksV6 (ip : IpHdr) : List Quirk :=
  (if ip.flow ≠ 0 then [.flowID] else []) ++
  (if ip.ecn &&& (TcpConst.ipTosCe ||| TcpConst.ipTosEct) ≠ 0 then [.ecn] else [])

/-- the TCP-level quirks pushed by `visit_tcp`, given the IP-level ones `q0` already in the list -/
def tcpQuirks (q0 : List Quirk) (t : TcpHdr) : List Quirk :=
  let fl := t.flags
  (if fl &&& (ECE ||| CWR) ≠ 0 ∧ ¬ q0.contains .ecn then [.ecn] else []) ++
  (if t.seq = 0 then [.seqNumZero] else []) ++
  (if fl &&& ACK = ACK then (if t.ack = 0 then [.ackNumZero] else [])
   else if t.ack ≠ 0 ∧ fl &&& RST = 0 then [.ackNumNonZero] else []) ++
  (if fl &&& URG = URG then [.urg] else if t.urg ≠ 0 then [.nonZeroURG] else []) ++
  (if fl &&& PSH = PSH then [.push] else [])

/-! ### outcome -/

inductive Err | parse | unsupported | unexpected | flags
  deriving DecidableEq, Repr, Inhabited

/-- `ObservableTCPPackage` / `TcpAnalysisResult` with the matcher disabled. -/
structure Report where
  syn     : Option TcpSig
  synAck  : Option TcpSig
  mtu     : Option Nat
  /-- arguments of the `check_ts_tcp` calls made while walking the options: `(is_from_client, ts_val)` -/
  tsCalls : List (Bool × Nat) := []
  deriving DecidableEq, Repr, Inhabited

abbrev Outcome := Except Err Report

instance : DecidableEq Outcome := fun a b => by
  cases a <;> cases b <;> simp <;> exact inferInstance

/-- `visit_tcp` -/
def visitTcp (t : TcpHdr) (ver : IpVersion) (ittl : Ttl) (ipHdrLen olen : Nat) (q0 : List Quirk) : Outcome :=
  let fl := t.flags
  let ty := tcpType fl
  if !isValid fl ty then .error .flags
  else
    let st := walk ty t.opts { quirks := q0 ++ tcpQuirks q0 t }
    -- after the loop: `if options_malformed(tcp.get_options_raw()) { quirks.push(Quirk::OptBad) }`
    let quirks := st.quirks ++ (if optionsMalformed t.opts then [.optBad] else [])
    let mtu : Option Nat := match st.mss, ver with
      | some m, .v4 => extractMtu4 fl ipHdrLen t.doff m
      | some m, .v6 => extractMtu6 fl ipHdrLen t.doff m
      | _, _ => none
    let wsize := detectWin t.window (st.mss.getD 0) 0 (st.olayout.contains .ts) ver
    let sig : TcpSig :=
      { version := ver, ittl := ittl, olen := olen, mss := st.mss, wsize := wsize, wscale := st.wscale,
        olayout := st.olayout, quirks := quirks,
        pclass := if t.payLen = 0 then .zero else .nonZero }
    let fc := fromClient fl
    .ok { syn := if fc then some sig else none,
          synAck := if !fc then some sig else none,
          mtu := if fc then mtu else none,
          tsCalls := st.tsCalls.map (fun v => (isPacketFromClient fl t.sport t.dport, v)) }

/-- `process_tcp_ipv4` / `process_tcp_ipv6` behind `process_ipv4_packet` / `process_ipv6_packet`
(the `TcpPacket::new` failure is part of `decode*`). -/
def process (f : Fields) : Outcome :=
  if f.ip.v6 then
    if f.ip.proto ≠ PROTO_TCP then .error .unsupported
    else visitTcp f.tcp .v6 (calculateTtl f.ip.ttl) TcpConst.ipv6HdrLen ipv6OptLen (ipQuirksV6 f.ip)
  else
    if f.ip.proto ≠ PROTO_TCP then .error .unsupported
    else if f.ip.fragOff > 0 ∨ f.ip.flags &&& IP_MF = IP_MF then .error .unexpected
    else visitTcp f.tcp .v4 (calculateTtl f.ip.ttl) f.ip.ihl (ipv4OptLen f.ip.ihl) (ipQuirksV4 f.ip)

def optLetter : TcpOption → Char
  | .eol _ => 'e' | .nop => 'n' | .mss => 'm' | .ws => 'w' | .sok => 'k' | .sack => 'a' | .ts => 't' | .unknown _ => 'u'
def quirkLetter : Quirk → Char
  | .df => 'd' | .nonZeroID => 'i' | .zeroID => 'z' | .ecn => 'e' | .mustBeZero => 'o' | .flowID => 'f'
  | .seqNumZero => 's' | .ackNumNonZero => 'A' | .ackNumZero => 'a' | .nonZeroURG => 'u' | .urg => 'U'
  | .push => 'p' | .ownTimestampZero => 't' | .peerTimestampNonZero => 'T' | .trailingNonZero => 'x'
  | .excessiveWindowScaling => 'w' | .optBad => 'b'
/-- Arm of `process` taken, for coverage: version, role, window arm, option shape, the exit of
`options_malformed` (`:bad-…`), and the sets of layout tokens (`L=`) and quirks (`Q=`) emitted. -/
def processTag (f : Fields) : String :=
  let v := if f.ip.v6 then "v6" else "v4"
  match process f with
  | .error .parse => v ++ ":err-parse"
  | .error .unsupported => v ++ ":err-proto"
  | .error .unexpected => v ++ ":err-frag"
  | .error .flags => v ++ ":err-flags"
  | .ok r =>
    let role := if r.syn.isSome then "syn" else "other"
    let sig := (r.syn.orElse fun _ => r.synAck)
    let w := match sig with
      | some s => (match s.wsize with
        | .mss _ => "wmss" | .mtu _ => "wmtu" | .value _ => "wraw" | .mod _ => "wmod" | .any => "wany")
      | none => "-"
    let o := match sig with
      | some s => if s.olayout.isEmpty then "noopt" else if s.olayout.any (fun o => match o with | .eol _ => true | _ => false) then "eol" else "opts"
      | none => "-"
    -- one of the 8 layout tokens / 17 quirks is singled out per case (rotating with the input), so that
    -- the tag space stays small while every token and quirk is seen both present and absent
    let focus := (f.tcp.seq + f.tcp.window + f.tcp.opts.length + f.ip.ttl + f.tcp.flags) % 25
    let suffix := match sig with
      | none => ""
      | some s =>
        if focus < 8 then
          let c := "enmwkatu".toList.getD focus 'e'
          s!"|L{if (s.olayout.map optLetter).contains c then "+" else "-"}{c}"
        else
          let c := "dizeofsAauUptTxwb".toList.getD (focus - 8) 'd'
          s!"|Q{if (s.quirks.map quirkLetter).contains c then "+" else "-"}{c}"
    let bad := match malformedKind f.tcp.opts with | some k => ":bad-" ++ k | none => ""
    s!"{v}:{role}:{w}:{o}{if r.mtu.isSome then ":mtu" else ""}{bad}{suffix}"

/-! ### frame decoding (pnet accessors) -/

def u16At (b : Bytes) (i : Nat) : Nat := be16 (b.getD i 0) (b.getD (i + 1) 0)
def u32At (b : Bytes) (i : Nat) : Nat := be32 (b.getD i 0) (b.getD (i + 1) 0) (b.getD (i + 2) 0) (b.getD (i + 3) 0)

/-- `TcpPacket::new(p)` and its accessors. -/
def decodeTcp (p : Bytes) : Option TcpHdr :=
  if p.length < 20 then none
  else
    let doff := p.getD 12 0 / 16
    let optLen := if doff > 5 then doff * 4 - 20 else 0
    some { sport := u16At p 0, dport := u16At p 2, seq := u32At p 4, ack := u32At p 8, doff := doff,
           flags := p.getD 13 0, window := u16At p 14, urg := u16At p 18,
           opts := (p.drop 20).take optLen,
           payLen := p.length - (20 + optLen) }

/-- `Ipv4Packet::new(b)` (needs 20 bytes), accessors and `payload()`:
`packet[start .. min(start + (total_length − ihl·4), len)]` with `start = 20 + (ihl·4 − 20)`. -/
def decodeIp4 (b : Bytes) : Option (IpHdr × Bytes) :=
  if b.length < 20 then none
  else
    let ihl := b.getD 0 0 % 16
    let total := u16At b 2
    let start := 20 + (ihl * 4 - 20)
    let payLen := total - ihl * 4
    let ff := u16At b 6
    some ({ v6 := false, ttl := b.getD 8 0, ihl := ihl, ecn := b.getD 1 0 % 4, flags := ff / 8192,
            ipid := u16At b 4, fragOff := ff % 8192, proto := b.getD 9 0 },
          (b.drop start).take payLen)

/-- `Ipv6Packet::new(b)` (needs 40 bytes); `payload()` = `packet[40 .. min(40 + payload_length, len)]`. -/
def decodeIp6 (b : Bytes) : Option (IpHdr × Bytes) :=
  if b.length < 40 then none
  else
    let w0 := u32At b 0
    some ({ v6 := true, ttl := b.getD 7 0, ecn := (w0 / 1048576) % 256, flow := w0 % 1048576,
            proto := b.getD 6 0 },
          (b.drop 40).take (u16At b 4))

/-- Bytes of an IP packet → header fields; `none` = the harness' `Ipv4Packet::new` fails;
`some (error parse)` = `TcpPacket::new(ip.payload())` fails in `process.rs`. -/
def decodeFields (v6 : Bool) (b : Bytes) : Option (Except Err Fields) :=
  match (if v6 then decodeIp6 b else decodeIp4 b) with
  | none => none
  | some (ip, pl) =>
    match decodeTcp pl with
    | none => some (.error .parse)
    | some t => some (.ok { ip := ip, tcp := t })

def processPacket (v6 : Bool) (b : Bytes) : Option Outcome :=
  (decodeFields v6 b).map fun r => match r with
    | .error e => .error e
    | .ok f => process f

/-! ### printers (mirror of huginn-net-db `display.rs` for the observation; to be unified with
`Model/SigText.lean`) -/

def showVer : IpVersion → String | .v4 => "4" | .v6 => "6" | .any => "*"
def showTtl : Ttl → String
  | .value t => s!"{t}" | .distance t d => s!"{t}+{d}" | .guess t => s!"{t}+?" | .bad t => s!"{t}-"
def showWin : WindowSize → String
  | .mss n => s!"mss*{n}" | .mtu n => s!"mtu*{n}" | .value n => s!"{n}" | .mod n => s!"%{n}" | .any => "*"
def showOpt : TcpOption → String
  | .eol n => s!"eol+{n}" | .nop => "nop" | .mss => "mss" | .ws => "ws" | .sok => "sok"
  | .sack => "sack" | .ts => "ts" | .unknown n => s!"?{n}"
def showQuirk : Quirk → String
  | .df => "df" | .nonZeroID => "id+" | .zeroID => "id-" | .ecn => "ecn" | .mustBeZero => "0+"
  | .flowID => "flow" | .seqNumZero => "seq-" | .ackNumNonZero => "ack+" | .ackNumZero => "ack-"
  | .nonZeroURG => "uptr+" | .urg => "urgf+" | .push => "pushf+" | .ownTimestampZero => "ts1-"
  | .peerTimestampNonZero => "ts2+" | .trailingNonZero => "opt+" | .excessiveWindowScaling => "exws"
  | .optBad => "bad"
def showPay : PayloadSize → String | .zero => "0" | .nonZero => "+" | .any => "*"
def showOptNat : Option Nat → String | some n => s!"{n}" | none => "*"

def showSig (s : TcpSig) : String :=
  s!"{showVer s.version}:{showTtl s.ittl}:{s.olen}:{showOptNat s.mss}:{showWin s.wsize},{showOptNat s.wscale}:" ++
  ",".intercalate (s.olayout.map showOpt) ++ ":" ++ ",".intercalate (s.quirks.map showQuirk) ++ ":" ++ showPay s.pclass

end Huginn.TcpExtract
