/-
Model of `huginn-net-{tcp,http,tls}/src/filter.rs` (the three copies are
byte-identical modulo the crate name in doc comments; the extractor checks it).

Ports are `Nat` (< 65536 in the code, no arithmetic except the builders'
`saturating_sub(1)`, which is exactly truncated subtraction on `Nat`).
Addresses are `Nat` (the big-endian integer value of the 4 / 16 octets).
-/
namespace Huginn.Filter

inductive Mode | allow | deny
  deriving DecidableEq, Repr

inductive Addr
  | v4 (a : Nat)
  | v6 (a : Nat)
  deriving DecidableEq, Repr

structure PortFilter where
  srcPorts  : List Nat := []
  dstPorts  : List Nat := []
  srcRanges : List (Nat × Nat) := []   -- stored inclusive pairs
  dstRanges : List (Nat × Nat) := []
  matchAny  : Bool := false
  deriving Repr

/-- `PortFilter::destination_range(start..end)`: an empty range is ignored, otherwise
`(start, end.saturating_sub(1))` is pushed. -/
def PortFilter.destinationRange (f : PortFilter) (lo hi : Nat) : PortFilter :=
  if lo < hi then { f with dstRanges := f.dstRanges ++ [(lo, hi - 1)] } else f
def PortFilter.sourceRange (f : PortFilter) (lo hi : Nat) : PortFilter :=
  if lo < hi then { f with srcRanges := f.srcRanges ++ [(lo, hi - 1)] } else f
def PortFilter.destination (f : PortFilter) (p : Nat) : PortFilter :=
  { f with dstPorts := f.dstPorts ++ [p] }
def PortFilter.source (f : PortFilter) (p : Nat) : PortFilter :=
  { f with srcPorts := f.srcPorts ++ [p] }
def PortFilter.destinationList (f : PortFilter) (ps : List Nat) : PortFilter :=
  { f with dstPorts := f.dstPorts ++ ps }
def PortFilter.sourceList (f : PortFilter) (ps : List Nat) : PortFilter :=
  { f with srcPorts := f.srcPorts ++ ps }
def PortFilter.anyPort (f : PortFilter) : PortFilter := { f with matchAny := true }

def inRange (p : Nat) (r : Nat × Nat) : Bool := decide (r.1 ≤ p) && decide (p ≤ r.2)

/-- `PortFilter::matches`. -/
def PortFilter.matches (f : PortFilter) (sp dp : Nat) : Bool :=
  if f.matchAny then
    let allPorts := f.srcPorts ++ f.dstPorts
    let allRanges := f.srcRanges ++ f.dstRanges
    allPorts.contains sp || allPorts.contains dp
      || allRanges.any (inRange sp) || allRanges.any (inRange dp)
  else
    let srcMatch := f.srcPorts.contains sp || f.srcRanges.any (inRange sp)
    let dstMatch := f.dstPorts.contains dp || f.dstRanges.any (inRange dp)
    let srcOk := (f.srcPorts.isEmpty && f.srcRanges.isEmpty) || srcMatch
    let dstOk := (f.dstPorts.isEmpty && f.dstRanges.isEmpty) || dstMatch
    srcOk && dstOk

structure IpFilter where
  v4 : List Nat := []
  v6 : List Nat := []
  checkSrc : Bool := true
  checkDst : Bool := true
  deriving Repr

def IpFilter.side (f : IpFilter) : Addr → Bool
  | .v4 a => f.v4.contains a
  | .v6 a => f.v6.contains a

/-- `IpFilter::matches`. -/
def IpFilter.matches (f : IpFilter) (s d : Addr) : Bool :=
  (if f.checkSrc then f.side s else false) || (if f.checkDst then f.side d else false)

/-- A CIDR block as parsed by `ipnetwork`: the address as written (not normalised) and the prefix. -/
structure Net where
  addr : Nat
  pfx  : Nat
  deriving Repr, DecidableEq

/-- `Ipv4Network::contains` / `Ipv6Network::contains` for width `w` (32 / 128):
`(ip & mask) == (addr & mask)` with `mask` = the top `pfx` bits; on `Nat` this is
equality after dropping the low `w - pfx` bits. (third-party `ipnetwork`; exercised
by the correspondence check, see DESIGN §5). -/
def Net.contains (w : Nat) (n : Net) (ip : Nat) : Bool :=
  (ip >>> (w - n.pfx)) == (n.addr >>> (w - n.pfx))

structure SubnetFilter where
  v4 : List Net := []
  v6 : List Net := []
  checkSrc : Bool := true
  checkDst : Bool := true
  deriving Repr

def SubnetFilter.side (f : SubnetFilter) : Addr → Bool
  | .v4 a => f.v4.any (fun n => n.contains 32 a)
  | .v6 a => f.v6.any (fun n => n.contains 128 a)

def SubnetFilter.matches (f : SubnetFilter) (s d : Addr) : Bool :=
  (if f.checkSrc then f.side s else false) || (if f.checkDst then f.side d else false)

structure Config where
  port   : Option PortFilter := none
  ip     : Option IpFilter := none
  subnet : Option SubnetFilter := none
  mode   : Mode := .allow
  deriving Repr

/-- `FilterConfig::should_process`, arm by arm. -/
def Config.shouldProcess (c : Config) (s d : Addr) (sp dp : Nat) : Bool :=
  if c.port.isNone && c.ip.isNone && c.subnet.isNone then true
  else match c.mode with
    | .allow =>
      match c.port with
      | some f => if !f.matches sp dp then false else
        match c.ip with
        | some g => if !g.matches s d then false else
          match c.subnet with
          | some h => if !h.matches s d then false else true
          | none => true
        | none =>
          match c.subnet with
          | some h => if !h.matches s d then false else true
          | none => true
      | none =>
        match c.ip with
        | some g => if !g.matches s d then false else
          match c.subnet with
          | some h => if !h.matches s d then false else true
          | none => true
        | none =>
          match c.subnet with
          | some h => if !h.matches s d then false else true
          | none => true
    | .deny =>
      let a0 := true
      let a1 := match c.port with | some f => a0 && f.matches sp dp | none => a0
      let a2 := match c.ip with | some g => a1 && g.matches s d | none => a1
      let a3 := match c.subnet with | some h => a2 && h.matches s d | none => a2
      !a3

end Huginn.Filter
