import Huginn.Gen.Uptime
/-!
Mirror of huginn-net-tcp/src/uptime.rs *as it is*: `calculate_frequency_p0f_style`,
`guess_frequency`, `round_frequency_p0f_style`, `calculate_uptime_from_frequency`, `check_ts_tcp`
on a `TtlCache<ConnectionKey, TcpTimestamp>`.

Time is explicit: `wall` is what `get_unix_time_ms()` returns (the verif clock hook), `mono` is the
cache's own monotonic clock (`Instant::now()`, milliseconds here), which decides expiry.

Floating point. The code computes in `f64`; the model computes with exact rationals `n/d`
(`Freq`). Agreement argument (DESIGN §7 C19): every operand is an integer below 2^42 and every
quotient has a denominator ≤ 600000·15, so an `f64` result is the correctly rounded image of a
rational whose distance to any threshold it is compared with (1, 1500, k+½ in `round()`, the ±10 %
snap edges, integers in `as u32`, multiples of 60/3600/86400 seconds) is either 0 — then the
operands are exactly representable and the float comparison is exact — or at least 1/(600000·1500·
86400) relative to values below 2^33, far above 2^-52. The harness enumerates the values adjacent to
every threshold. No Lean proof about IEEE arithmetic is claimed.

Third party: `ttl_cache::TtlCache` over `linked_hash_map` (insertion-ordered; re-inserting a key
moves it to the back; capacity eviction pops the front; expired entries are ignored by `get` but
keep their slot) — modelled by `Cache`, exercised for capacity, not for expiry (no clock hook).
-/
namespace Huginn.Uptime
open Huginn.Gen

def U32 : Nat := 4294967296

/-- `IpAddr` as (is-v6, value) -/
abbrev Addr := Bool × Nat

structure Conn where
  src   : Addr
  sport : Nat
  dst   : Addr
  dport : Nat
  deriving DecidableEq, Repr, Inhabited

/-- `ConnectionKey` -/
structure Key where
  conn     : Conn
  isClient : Bool
  deriving DecidableEq, Repr, Inhabited

/-- `TcpTimestamp` -/
structure Stamp where
  tsVal  : Nat
  recvMs : Nat
  bad    : Bool := false
  deriving DecidableEq, Repr, Inhabited

def badMarker : Stamp := { tsVal := 0, recvMs := 0, bad := true }

/-- `ObservableUptime` (`freq` is integer-valued in every reachable state) -/
structure Uptime where
  days    : Nat
  hours   : Nat
  min     : Nat
  modDays : Nat
  freq    : Nat
  deriving DecidableEq, Repr, Inhabited

/-! ### TtlCache -/

structure Cache where
  cap     : Nat
  /-- oldest first; `(key, value, expiry instant)` -/
  entries : List (Key × Stamp × Nat) := []
  deriving Repr, Inhabited

def Cache.get (c : Cache) (mono : Nat) (k : Key) : Option Stamp :=
  match c.entries.find? (fun e => e.1 == k) with
  | some e => if mono > e.2.2 then none else some e.2.1
  | none => none

def Cache.insert (c : Cache) (mono : Nat) (k : Key) (v : Stamp) (ttlMs : Nat) : Cache :=
  let es := c.entries.filter (fun e => !(e.1 == k)) ++ [(k, v, mono + ttlMs)]
  { c with entries := if es.length > c.cap then es.drop 1 else es }

def cacheTtlMs : Nat := Uptime.cacheTtlSecs * 1000

/-! ### frequency -/

/-- an exact non-negative rational `num / den` (`den > 0`) -/
structure Freq where
  num : Nat
  den : Nat
  deriving DecidableEq, Repr, Inhabited

/-- `calculate_frequency_p0f_style(current, reference)`; `none` = `Err`. Second component: the arm. -/
def calcFreqT (curTs curMs refTs refMs : Nat) : Option Freq × String :=
  let ms := curMs - refMs
  let td := (curTs + U32 - refTs) % U32
  if ms < Uptime.minTwait then (none, "short")
  else if ms > Uptime.maxTwait then (none, "long")
  else
    let inv := U32 - 1 - td
    -- `is_backward = ts_diff > !ts_diff`: withheld
    if td > inv then (none, "backward")
    else if td < Uptime.minTsDiff then (none, "ticks-small")
    else
      let d := max ms 1
      let n := td * Uptime.freqScale
      -- `(MIN_FINAL_HZ..=MAX_FINAL_HZ).contains(&raw_freq)`
      if n * Uptime.minFinalHz.2 < Uptime.minFinalHz.1 * d then (none, "slow")
      else if n * Uptime.maxFinalHz.2 > Uptime.maxFinalHz.1 * d then (none, "fast")
      else (some ⟨n, d⟩, "ok")

def calcFreq (curTs curMs refTs refMs : Nat) : Option Freq := (calcFreqT curTs curMs refTs refMs).1

/-- `guess_frequency(raw, base, tolerance)` for an integer base: `Some(base · m)` with
`m = round(raw/base)` (half away from zero) iff `raw / m` is within `base·tolerance` of `base`. -/
def guessFrequency (r : Freq) (base : Nat) (tol : Nat × Nat) : Option Nat :=
  if r.num = 0 ∨ base = 0 then none
  else
    let mult := (2 * r.num + r.den * base) / (2 * r.den * base)
    if mult = 0 then none
    else
      -- |num/(den·mult) − base| ≤ base·tol
      let lhs := (if r.num ≥ base * r.den * mult then r.num - base * r.den * mult else base * r.den * mult - r.num) * tol.2
      if lhs ≤ base * tol.1 * r.den * mult then some (base * mult) else none

def roundArm (x : Nat) : List (Nat × Nat × Nat × Nat) → Nat
  | [] => (x + Uptime.roundDefault.1) / Uptime.roundDefault.2 * Uptime.roundDefault.2
  | (lo, hi, add, dv) :: rest => if lo ≤ x ∧ x ≤ hi then (x + add) / dv * dv else roundArm x rest

/-- `round_frequency_p0f_style(freq)` (`freq as u32` = floor) -/
def roundFrequency (r : Freq) : Nat :=
  let x := r.num / r.den
  if x = 0 then Uptime.roundZero
  else if Uptime.roundIdent.1 ≤ x ∧ x ≤ Uptime.roundIdent.2 then x
  else roundArm x Uptime.roundArms

/-- the `final_freq` chain of `check_ts_tcp`; second component: which step decided -/
def finalFreqT (r : Freq) : Nat × String :=
  match guessFrequency r Uptime.guessHz1k.1 Uptime.guessTolerance with
  | some f => (f, "snap1k")
  | none =>
    match guessFrequency r Uptime.guessHz100.1 Uptime.guessTolerance with
    | some f => (f, "snap100")
    | none => (roundFrequency r, "round")

def finalFreq (r : Freq) : Nat := (finalFreqT r).1

/-- `calculate_uptime_from_frequency(ts_val, freq_hz)` with `uptime_seconds = ts_val / freq`. -/
def uptimeFrom (ts f : Nat) : Uptime :=
  { days := ts / (f * 86400),
    hours := (ts % (f * 86400)) / (f * 3600),
    min := (ts % (f * 3600)) / (f * 60),
    modDays := (U32 - 1) / (f * 60 * 60 * 24),
    freq := f }

/-! ### check_ts_tcp -/

structure Out where
  client : Option Uptime := none
  server : Option Uptime := none
  deriving DecidableEq, Repr, Inhabited

/-- `check_ts_tcp(tracker, connection, from_client, ts_val)` at wall time `wall`, cache time `mono`;
third component: the arm. -/
def checkTsT (c : Cache) (mono wall : Nat) (conn : Conn) (fromClient : Bool) (ts : Nat) : Cache × Out × String :=
  let key : Key := ⟨conn, fromClient⟩
  match c.get mono key with
  | some ref =>
    if ref.bad then (c, {}, "bad-skip")
    else
      let (fr, arm) := calcFreqT ts wall ref.tsVal ref.recvMs
      match fr with
      | some r =>
        let (f, how) := finalFreqT r
        let u := uptimeFrom ts f
        (c, (if fromClient then { client := some u } else { server := some u }), arm ++ "/" ++ how)
      | none => (c.insert mono key badMarker cacheTtlMs, {}, "mark-bad:" ++ arm)
  | none =>
    (c.insert mono key { tsVal := ts, recvMs := wall } cacheTtlMs, {},
     if (c.entries.find? (fun e => e.1 == key)).isSome then "store:expired" else "store")

def checkTs (c : Cache) (mono wall : Nat) (conn : Conn) (fromClient : Bool) (ts : Nat) : Cache × Out :=
  let r := checkTsT c mono wall conn fromClient ts
  (r.1, r.2.1)

/-- One observation of a history. -/
structure Obs where
  mono       : Nat := 0
  wall       : Nat
  conn       : Conn
  fromClient : Bool
  ts         : Nat
  deriving DecidableEq, Repr, Inhabited

def run (c : Cache) : List Obs → List Out
  | [] => []
  | o :: rest =>
    let r := checkTs c o.mono o.wall o.conn o.fromClient o.ts
    r.2 :: run r.1 rest

/-- The estimate for a current observation against a reference (no cache): what `check_ts_tcp`
reports when the reference entry is live and not a bad marker. -/
def estimate (t0 v0 t1 v1 : Nat) : Option Uptime :=
  match calcFreq v1 t1 v0 t0 with
  | some r => some (uptimeFrom v1 (finalFreq r))
  | none => none

def showUptime (u : Uptime) : String := s!"{u.days}:{u.hours}:{u.min}:{u.modDays}:{u.freq}"
def showOut (o : Out) : String :=
  match o.client, o.server with
  | none, none => "-"
  | some u, none => "c:" ++ showUptime u
  | none, some u => "s:" ++ showUptime u
  | some u, some w => "c:" ++ showUptime u ++ "+s:" ++ showUptime w

end Huginn.Uptime
