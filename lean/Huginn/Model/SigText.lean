import Huginn.Model.Sig
import Huginn.Gen.Tokens
/-
Textual side of the p0f vocabulary: mirror of huginn-net-db/src/display.rs (printers),
huginn-net-db/src/db_parse.rs (nom parsers, `impl_from_str!`, `impl FromStr for Database`).

Text is `List Char`.  A parser is `Str → Option (α × Str)`; every nom error is `none`
(no `cut`/`Failure` is used in db_parse.rs, so `alt` = first success).
Plain-tag tables (ip version, quirks, payload class, http version, the six plain TCP option
names, label type) are *the regenerated tables* of `Gen/Tokens.lean`; the structured
alternatives (ttl, window size, `eol+n`, `?n`) are written out here and `Props/C06.lean`
proves that their literals and order equal the regenerated ones (`gen_*` theorems).
-/
namespace Huginn.SigText
open Huginn.Sig

abbrev Str := List Char
abbrev Parser (α : Type) := Str → Option (α × Str)

/-! ## nom combinator kit -/

def stripPrefix : Str → Str → Option Str
  | [], s => some s
  | _ :: _, [] => none
  | t :: ts, c :: cs => if t = c then stripPrefix ts cs else none

/-- `tag("…")` -/
def tag (t : Str) : Parser Unit := fun s =>
  match stripPrefix t s with
  | some r => some ((), r)
  | none => none

/-- `alt((p, q, …))`: first success. -/
def alt {α} : List (Parser α) → Parser α
  | [] => fun _ => none
  | p :: ps => fun s =>
    match p s with
    | some x => some x
    | none => alt ps s

/-- `alt` of `map(tag(tok), |_| value)` arms. -/
def altTags {α} : List (Str × α) → Parser α
  | [] => fun _ => none
  | (t, a) :: rest => fun s =>
    match stripPrefix t s with
    | some r => some (a, r)
    | none => altTags rest s

/-- `take_while(pred)` (zero or more). -/
def many0 (p : Char → Bool) : Parser Str := fun s => some (s.takeWhile p, s.dropWhile p)

/-- `digit1`, `alpha1`, `alphanumeric1`: one or more. -/
def many1 (p : Char → Bool) : Parser Str := fun s =>
  match s with
  | [] => none
  | c :: cs => if p c then some (c :: cs.takeWhile p, cs.dropWhile p) else none

def digit1 : Parser Str := many1 Char.isDigit
def alpha1 : Parser Str := many1 Char.isAlpha
def alphanumeric1 : Parser Str := many1 Char.isAlphanum
def isSpaceTab (c : Char) : Bool := c == ' ' || c == '\t'
/-- `space0`: spaces and tabs. -/
def space0 : Parser Unit := fun s => some ((), s.dropWhile isSpaceTab)

/-- decimal value of a digit string (`str::parse::<uN>` on the output of `digit1`) -/
def decVal (ds : Str) : Nat := Nat.ofDigitChars 10 ds 0

/-- `s.parse::<uN>()` on a non-empty ASCII digit string: succeeds iff the value fits (leading zeros accepted). -/
def parseMax (max : Nat) (ds : Str) : Option Nat :=
  if decVal ds ≤ max then some (decVal ds) else none

/-- what `{}` prints for an unsigned integer -/
def natDigits (n : Nat) : Str := Nat.toDigits 10 n

/-- `map_res(digit1, |s| s.parse::<uN>())` -/
def number (max : Nat) : Parser Nat := fun s =>
  match digit1 s with
  | none => none
  | some (d, r) =>
    match parseMax max d with
    | some v => some (v, r)
    | none => none

/-- `take_until(c)`: the text before the first `c`; fails when `c` does not occur. -/
def takeUntil (c : Char) : Parser Str
  | [] => none
  | x :: xs =>
    if x = c then some ([], x :: xs)
    else match takeUntil c xs with
      | some (a, r) => some (x :: a, r)
      | none => none

def rest : Parser Str := fun s => some (s, [])

def opt {α} (p : Parser α) : Parser (Option α) := fun s =>
  match p s with
  | some (a, r) => some (some a, r)
  | none => some (none, s)

/-- the loop of nom 8 `separated_list0/1` after the first element.  `fuel` only makes the
recursion structural (callers pass the input length + 1; every round consumes input). -/
def sepLoop {α} (sep : Parser Unit) (p : Parser α) : Nat → Parser (List α)
  | 0 => fun i => some ([], i)
  | f + 1 => fun i =>
    match sep i with
    | none => some ([], i)
    | some (_, i1) =>
      match p i1 with
      | none => some ([], i)
      | some (o, i2) =>
        if i2.length = i.length then none   -- nom's infinite-loop check
        else match sepLoop sep p f i2 with
          | none => none
          | some (os, r) => some (o :: os, r)

def sepList0 {α} (sep : Parser Unit) (p : Parser α) : Parser (List α) := fun i =>
  match p i with
  | none => some ([], i)
  | some (o, i1) =>
    match sepLoop sep p (i1.length + 1) i1 with
    | none => none
    | some (os, r) => some (o :: os, r)

def sepList1 {α} (sep : Parser Unit) (p : Parser α) : Parser (List α) := fun i =>
  match p i with
  | none => none
  | some (o, i1) =>
    match sepLoop sep p (i1.length + 1) i1 with
    | none => none
    | some (os, r) => some (o :: os, r)

/-- `impl_from_str!`: the parser must consume everything. -/
def full {α} (p : Parser α) (s : Str) : Option α :=
  match p s with
  | some (a, []) => some a
  | _ => none

/-! ## token tables (regenerated) -/

open Huginn.Gen.Tokens in
/-- the `tag` arms of a regenerated `alt` list, with the Rust variant mapped to the model value -/
def tagTable {α} (ofName : String → Option α) (arms : List Arm) : List (Str × α) :=
  arms.filterMap fun (kind, tok, _, v) =>
    if kind = "tag" then (ofName v).map (fun a => (tok.toList, a)) else none

/-- the printed form of a variant according to a regenerated `Display` table -/
def printTok (tbl : List (String × String)) (variant : String) : Str :=
  match tbl.lookup variant with
  | some t => t.toList
  | none => []

def ipVersionName : IpVersion → String
  | .v4 => "V4" | .v6 => "V6" | .any => "Any"
def ipVersionOfName : String → Option IpVersion
  | "V4" => some .v4 | "V6" => some .v6 | "Any" => some .any | _ => none

def quirkName : Quirk → String
  | .df => "Df" | .nonZeroID => "NonZeroID" | .zeroID => "ZeroID" | .ecn => "Ecn"
  | .mustBeZero => "MustBeZero" | .flowID => "FlowID" | .seqNumZero => "SeqNumZero"
  | .ackNumNonZero => "AckNumNonZero" | .ackNumZero => "AckNumZero" | .nonZeroURG => "NonZeroURG"
  | .urg => "Urg" | .push => "Push" | .ownTimestampZero => "OwnTimestampZero"
  | .peerTimestampNonZero => "PeerTimestampNonZero" | .trailingNonZero => "TrailinigNonZero"
  | .excessiveWindowScaling => "ExcessiveWindowScaling" | .optBad => "OptBad"
def allQuirks : List Quirk :=
  [.df, .nonZeroID, .zeroID, .ecn, .mustBeZero, .flowID, .seqNumZero, .ackNumNonZero, .ackNumZero,
   .nonZeroURG, .urg, .push, .ownTimestampZero, .peerTimestampNonZero, .trailingNonZero,
   .excessiveWindowScaling, .optBad]
def quirkOfName (n : String) : Option Quirk := allQuirks.find? (fun q => quirkName q == n)

def payloadName : PayloadSize → String
  | .zero => "Zero" | .nonZero => "NonZero" | .any => "Any"
def payloadOfName : String → Option PayloadSize
  | "Zero" => some .zero | "NonZero" => some .nonZero | "Any" => some .any | _ => none

def httpVersionName : HttpVersion → String
  | .v10 => "V10" | .v11 => "V11" | .v20 => "V20" | .v30 => "V30" | .any => "Any"
def httpVersionOfName : String → Option HttpVersion
  | "V10" => some .v10 | "V11" => some .v11 | "V20" => some .v20 | "V30" => some .v30
  | "Any" => some .any | _ => none

def labelTypeName : LabelType → String
  | .specified => "Specified" | .generic => "Generic"
def labelTypeOfName : String → Option LabelType
  | "Specified" => some .specified | "Generic" => some .generic | _ => none

/-- the plain (argument-free) TCP options -/
def plainOptOfName : String → Option TcpOption
  | "Nop" => some .nop | "Mss" => some .mss | "Ws" => some .ws | "Sok" => some .sok
  | "Sack" => some .sack | "TS" => some .ts | _ => none
def tcpOptionName : TcpOption → String
  | .eol _ => "Eol" | .nop => "Nop" | .mss => "Mss" | .ws => "Ws" | .sok => "Sok"
  | .sack => "Sack" | .ts => "TS" | .unknown _ => "Unknown"

def ipVersionTable := tagTable ipVersionOfName Gen.Tokens.ipVersionParse
def quirkTable := tagTable quirkOfName Gen.Tokens.quirkParse
def payloadTable := tagTable payloadOfName Gen.Tokens.payloadParse
def httpVersionTable := tagTable httpVersionOfName Gen.Tokens.httpVersionParse
def labelTypeTable := tagTable labelTypeOfName Gen.Tokens.labelTypeParse
def plainOptTable := tagTable plainOptOfName Gen.Tokens.tcpOptionParse

/-! ## printers (display.rs) -/

def printIpVersion (v : IpVersion) : Str := printTok Gen.Tokens.ipVersionPrint (ipVersionName v)
def printQuirk (q : Quirk) : Str := printTok Gen.Tokens.quirkPrint (quirkName q)
def printPayload (p : PayloadSize) : Str := printTok Gen.Tokens.payloadPrint (payloadName p)
def printHttpVersion (v : HttpVersion) : Str := printTok Gen.Tokens.httpVersionPrint (httpVersionName v)

def printTtl : Ttl → Str
  | .value t => natDigits t
  | .distance t d => natDigits t ++ '+' :: natDigits d
  | .guess t => natDigits t ++ ['+', '?']
  | .bad t => natDigits t ++ ['-']

def printWSize : WindowSize → Str
  | .mss n => 'm' :: 's' :: 's' :: '*' :: natDigits n
  | .mtu n => 'm' :: 't' :: 'u' :: '*' :: natDigits n
  | .value n => natDigits n
  | .mod n => '%' :: natDigits n
  | .any => ['*']

def printOpt : TcpOption → Str
  | .eol n => 'e' :: 'o' :: 'l' :: '+' :: natDigits n
  | .unknown n => '?' :: natDigits n
  | o => printTok Gen.Tokens.tcpOptionPrint (tcpOptionName o)

def printOptNat : Option Nat → Str
  | some n => natDigits n
  | none => ['*']

/-- `for (i, x) in xs.iter().enumerate() { if i > 0 { "," } x }` -/
def joinComma {α} (pr : α → Str) : List α → Str
  | [] => []
  | [x] => pr x
  | x :: y :: r => pr x ++ ',' :: joinComma pr (y :: r)

/-- `format_tcp_display` -/
def printTcpSig (s : TcpSig) : Str :=
  printIpVersion s.version ++ ':' :: printTtl s.ittl ++ ':' :: natDigits s.olen ++ ':' ::
  printOptNat s.mss ++ ':' :: printWSize s.wsize ++ ',' :: printOptNat s.wscale ++ ':' ::
  joinComma printOpt s.olayout ++ ':' :: joinComma printQuirk s.quirks ++ ':' :: printPayload s.pclass

/-- `http::Header` with `List Char` text (the parsers work on these; `Sig.Header` carries `String`s). -/
structure HeaderL where
  optional : Bool
  name     : Str
  value    : Option Str
  deriving DecidableEq, Repr, Inhabited

structure HttpSigL where
  version : HttpVersion
  horder  : List HeaderL
  habsent : List HeaderL
  expsw   : Str
  deriving DecidableEq, Repr, Inhabited

def HeaderL.ofSig (h : Header) : HeaderL := ⟨h.optional, h.name.toList, h.value.map String.toList⟩
def HeaderL.toSig (h : HeaderL) : Header := ⟨h.optional, String.ofList h.name, h.value.map String.ofList⟩
def HttpSigL.ofSig (s : HttpSig) : HttpSigL :=
  ⟨s.version, s.horder.map HeaderL.ofSig, s.habsent.map HeaderL.ofSig, s.expsw.toList⟩
def HttpSigL.toSig (s : HttpSigL) : HttpSig :=
  ⟨s.version, s.horder.map HeaderL.toSig, s.habsent.map HeaderL.toSig, String.ofList s.expsw⟩

/-- `Display for Header` -/
def printHeaderL (h : HeaderL) : Str :=
  (if h.optional then ['?'] else []) ++ h.name ++
  (match h.value with | some v => '=' :: '[' :: v ++ [']'] | none => [])

/-- `format_http_display` -/
def printHttpSigL (s : HttpSigL) : Str :=
  printHttpVersion s.version ++ ':' :: joinComma printHeaderL s.horder ++ ':' ::
  joinComma printHeaderL s.habsent ++ ':' :: s.expsw

def printHttpSig (s : HttpSig) : Str := printHttpSigL (.ofSig s)

structure LabelL where
  ty     : LabelType
  cls    : Option Str
  name   : Str
  flavor : Option Str
  deriving DecidableEq, Repr, Inhabited

def LabelL.ofSig (l : Label) : LabelL := ⟨l.ty, l.cls.map String.toList, l.name.toList, l.flavor.map String.toList⟩
def LabelL.toSig (l : LabelL) : Label := ⟨l.ty, l.cls.map String.ofList, String.ofList l.name, l.flavor.map String.ofList⟩

/-- `Display for Label` (`Type` prints its `Debug` name; absent class/flavor print as empty). -/
def printLabelL (l : LabelL) : Str :=
  (labelTypeName l.ty).toList ++ ':' :: (l.cls.getD []) ++ ':' :: l.name ++ ':' :: (l.flavor.getD [])

/-! ## parsers (db_parse.rs) -/

def parseIpVersion : Parser IpVersion := altTags ipVersionTable
def parseQuirk : Parser Quirk := altTags quirkTable
def parsePayload : Parser PayloadSize := altTags payloadTable
def parseHttpVersion : Parser HttpVersion := altTags httpVersionTable
def parseLabelType : Parser LabelType := altTags labelTypeTable

def u8Max : Nat := 255
def u16Max : Nat := 65535

def ttlBad : Parser Ttl := fun s =>
  match digit1 s with
  | none => none
  | some (d, r) =>
    match tag ['-'] r with
    | none => none
    | some (_, r) => (parseMax u8Max d).map fun v => (.bad v, r)

def ttlGuess : Parser Ttl := fun s =>
  match digit1 s with
  | none => none
  | some (d, r) =>
    match tag ['+', '?'] r with
    | none => none
    | some (_, r) => (parseMax u8Max d).map fun v => (.guess v, r)

def ttlDistance : Parser Ttl := fun s =>
  match digit1 s with
  | none => none
  | some (d1, r) =>
    match tag ['+'] r with
    | none => none
    | some (_, r) =>
      match digit1 r with
      | none => none
      | some (d2, r) =>
        match parseMax u8Max d1, parseMax u8Max d2 with
        | some a, some b => some (.distance a b, r)
        | _, _ => none

def ttlValue : Parser Ttl := fun s => (number u8Max s).map fun (v, r) => (.value v, r)

def parseTtl : Parser Ttl := alt [ttlBad, ttlGuess, ttlDistance, ttlValue]

/-- `map_res(preceded(tag(pre), digit1), |s| s.parse::<uN>().map(mk))` -/
def prefixNum {α} (pre : Str) (max : Nat) (mk : Nat → α) : Parser α := fun s =>
  match tag pre s with
  | none => none
  | some (_, r) => (number max r).map fun (v, r) => (mk v, r)

def parseWSize : Parser WindowSize :=
  alt [fun s => (tag ['*'] s).map fun (_, r) => (.any, r),
       prefixNum ['m', 's', 's', '*'] u8Max .mss,
       prefixNum ['m', 't', 'u', '*'] u8Max .mtu,
       prefixNum ['%'] u16Max .mod,
       fun s => (number u16Max s).map fun (v, r) => (.value v, r)]

def parseOpt : Parser TcpOption :=
  alt [prefixNum ['e', 'o', 'l', '+'] u8Max .eol, altTags plainOptTable, prefixNum ['?'] u8Max .unknown]

/-- `alt((tag("*").map(|_| None), map_res(digit1, …Some)))` -/
def optNum (max : Nat) : Parser (Option Nat) :=
  alt [fun s => (tag ['*'] s).map fun (_, r) => (none, r),
       fun s => (number max s).map fun (v, r) => (some v, r)]

def colon : Parser Unit := tag [':']
def comma : Parser Unit := tag [',']

def parseTcpSig : Parser TcpSig := fun s => do
  let (version, s) ← parseIpVersion s
  let (_, s) ← colon s
  let (ittl, s) ← parseTtl s
  let (_, s) ← colon s
  let (olen, s) ← number u8Max s
  let (_, s) ← colon s
  let (mss, s) ← optNum u16Max s
  let (_, s) ← colon s
  let (wsize, s) ← parseWSize s
  let (_, s) ← comma s
  let (wscale, s) ← optNum u8Max s
  let (_, s) ← colon s
  let (olayout, s) ← sepList0 comma parseOpt s
  let (_, s) ← colon s
  let (quirks, s) ← sepList0 comma parseQuirk s
  let (_, s) ← colon s
  let (pclass, s) ← parsePayload s
  pure ({ version, ittl, olen, mss, wsize, wscale, olayout, quirks, pclass }, s)

/-- `<tcp::Signature as FromStr>::from_str` -/
def parseTcpSigFull (s : Str) : Option TcpSig := full parseTcpSig s

def isNameChar (c : Char) : Bool := (c.isAlphanum || c == '-') && c != ':' && c != '='

/-- `opt(preceded(tag("=["), terminated(take_until("]"), char(']'))))` -/
def bracketValue : Parser Str := fun s =>
  match tag ['=', '['] s with
  | none => none
  | some (_, r) =>
    match takeUntil ']' r with
    | none => none
    | some (v, r) =>
      match tag [']'] r with
      | none => none
      | some (_, r) => some (v, r)

def parseHeaderL : Parser HeaderL := fun s =>
  match opt (tag ['?']) s with
  | none => none
  | some (o, s) =>
    match many1 isNameChar s with
    | none => none
    | some (name, s) =>
      match opt bracketValue s with
      | none => none
      | some (v, s) => some ({ optional := o.isSome, name := name, value := v }, s)

/-- `parse_http_signature` before its name filter: `habsent` as `separated_list0` returned it -/
def parseHttpSigRawL : Parser HttpSigL := fun s => do
  let (version, s) ← parseHttpVersion s
  let (_, s) ← colon s
  let (horder, s) ← sepList0 comma parseHeaderL s
  let (_, s) ← colon s
  let (habsent, s) ← opt (sepList0 comma parseHeaderL) s
  let (_, s) ← colon s
  let (expsw, s) ← rest s
  pure ({ version, horder, habsent := habsent.getD [], expsw }, s)

/-- `.filter(|h| !h.name.is_empty())` on `habsent` -/
def filterHabsent (s : HttpSigL) : HttpSigL :=
  { s with habsent := s.habsent.filter (fun h => !h.name.isEmpty) }

def parseHttpSigL : Parser HttpSigL := fun s =>
  match parseHttpSigRawL s with
  | some (v, r) => some (filterHabsent v, r)
  | none => none

def parseHttpSigFullL (s : Str) : Option HttpSigL := full parseHttpSigL s
/-- `<http::Signature as FromStr>::from_str` -/
def parseHttpSigFull (s : Str) : Option HttpSig := (parseHttpSigFullL s).map HttpSigL.toSig

/-- `alt((map(tag("!"), |_| None), map(take_until(":"), Some)))` -/
def parseLabelClass : Parser (Option Str) :=
  alt [fun s => (tag ['!'] s).map fun (_, r) => (none, r),
       fun s => (takeUntil ':' s).map fun (c, r) => (some c, r)]

/-- `opt(preceded(tag(":"), rest))` -/
def parseLabelFlavor : Parser (Option Str) :=
  opt (fun s => match colon s with | some (_, r) => rest r | none => none)

def parseLabelL : Parser LabelL := fun s => do
  let (ty, s) ← parseLabelType s
  let (_, s) ← colon s
  let (cls, s) ← parseLabelClass s
  let (_, s) ← colon s
  let (name, s) ← takeUntil ':' s
  let (flavor, s) ← parseLabelFlavor s
  pure ({ ty, cls, name, flavor := flavor.bind fun f => if f.isEmpty then none else some f }, s)

def parseLabelFull (s : Str) : Option Label := (full parseLabelL s).map LabelL.toSig

/-! ## the database loader (`impl FromStr for Database`) -/

/-- Rust `char::is_whitespace` (Unicode `White_Space`) -/
def isWs (c : Char) : Bool :=
  let n := c.toNat
  (9 ≤ n && n ≤ 13) || n == 32 || n == 0x85 || n == 0xA0 || n == 0x1680 ||
  (0x2000 ≤ n && n ≤ 0x200A) || n == 0x2028 || n == 0x2029 || n == 0x202F || n == 0x205F || n == 0x3000

/-- `str::trim` -/
def trim (s : Str) : Str := ((s.dropWhile isWs).reverse.dropWhile isWs).reverse

/-- `split_inclusive('\n')` pieces with the `\n` removed -/
def splitNl : Str → List Str
  | [] => []
  | c :: cs =>
    if c = '\n' then [] :: splitNl cs
    else match splitNl cs with
      | [] => [[c]]
      | l :: ls => (c :: l) :: ls

/-- `str::lines` (a `\r` directly before the `\n` is dropped too) -/
def lines (s : Str) : List Str :=
  -- `splitNl` cannot tell "a\n" from "a": both give ["a"], as `lines` does; "a\n\n" gives ["a", ""].
  -- The `\r` stripping only applies to lines that were terminated by `\n`; every line is trimmed
  -- by the loader anyway, so the distinction is not observable there.
  (splitNl s).map fun l => match l.reverse with | '\r' :: r => r.reverse | _ => l

inductive LoadErr
  | classes | uaOs | module | namedValue | mtuValue | mtuNoLabel | label
  | tcpNoLabel | httpNoLabel | tcpSig | httpSig | outside
  deriving DecidableEq, Repr, Inhabited

def LoadErr.name : LoadErr → String
  | .classes => "classes" | .uaOs => "ua_os" | .module => "module" | .namedValue => "named-value"
  | .mtuValue => "mtu-value" | .mtuNoLabel => "mtu-no-label" | .label => "label"
  | .tcpNoLabel => "tcp-sig-no-label" | .httpNoLabel => "http-sig-no-label"
  | .tcpSig => "tcp-sig" | .httpSig => "http-sig" | .outside => "outside-module"

abbrev Table (σ : Type) := List (Label × List σ)

structure Db where
  classes  : List Str := []
  mtu      : List (Str × List Nat) := []
  uaOs     : List (Str × Option Str) := []
  tcpReq   : Table TcpSig := []
  tcpResp  : Table TcpSig := []
  httpReq  : Table HttpSig := []
  httpResp : Table HttpSig := []
  deriving DecidableEq, Repr, Inhabited

structure LoadState where
  db     : Db := {}
  curMod : Option (Str × Option Str) := none
  deriving Repr, Inhabited

/-- `(name, _, "=", _, rest)` -/
def parseNamedValue : Parser (Str × Str) := fun s => do
  let (name, s) ← alphanumeric1 s
  let (_, s) ← space0 s
  let (_, s) ← tag ['='] s
  let (_, s) ← space0 s
  let (value, s) ← rest s
  pure ((name, value), s)

def classesKw : Str := "classes".toList
def uaOsKw : Str := "ua_os".toList

def parseClasses : Parser (List Str) := fun s => do
  let (_, s) ← tag classesKw s
  let (_, s) ← space0 s
  let (_, s) ← tag ['='] s
  let (_, s) ← space0 s
  sepList0 comma alphanumeric1 s

def isRuleNameChar (c : Char) : Bool := c != ',' && c != '='

/-- `pair(take_while1(|c| c != ',' && c != '='), opt(preceded(tag("=["), terminated(take_until("]"), char(']')))))` -/
def parseKeyValue : Parser (Str × Option Str) := fun s =>
  match many1 isRuleNameChar s with
  | none => none
  | some (name, s) =>
    match opt bracketValue s with
    | none => none
    | some (v, s) => some ((name, v), s)

def parseUaOs : Parser (List (Str × Option Str)) := fun s => do
  let (_, s) ← tag uaOsKw s
  let (_, s) ← space0 s
  let (_, s) ← tag ['='] s
  let (_, s) ← space0 s
  sepList0 comma parseKeyValue s

def parseModule : Parser (Str × Option Str) := fun s => do
  let (_, s) ← tag ['['] s
  let (m, s) ← alpha1 s
  let (d, s) ← opt (fun s => match colon s with | some (_, r) => alpha1 r | none => none) s
  let (_, s) ← tag [']'] s
  pure ((m, d), s)

/-- `entries.last_mut()` then `values.push(x)` -/
def pushLast {κ σ} : List (κ × List σ) → σ → Option (List (κ × List σ))
  | [], _ => none
  | [(l, v)], x => some [(l, v ++ [x])]
  | e :: f :: r, x => (pushLast (f :: r) x).map (e :: ·)

inductive TableId | tcpReq | tcpResp | httpReq | httpResp
  deriving DecidableEq, Repr

def tableOf (m : Str) (d : Option Str) : Option TableId :=
  if m = "tcp".toList ∧ d = some "request".toList then some .tcpReq
  else if m = "tcp".toList ∧ d = some "response".toList then some .tcpResp
  else if m = "http".toList ∧ d = some "request".toList then some .httpReq
  else if m = "http".toList ∧ d = some "response".toList then some .httpResp
  else none

def mtuKw : Str := "mtu".toList

/-- `uN::from_str` accepts one leading `+` -/
def stripPlus : Str → Str
  | '+' :: r => r
  | s => s

/-- one non-comment line inside module `(m, d)` -/
def loadNamed (db : Db) (m : Str) (d : Option Str) (line : Str) : Except LoadErr Db :=
  match parseNamedValue line with
  | none => .error .namedValue
  | some ((name, value), _) =>
    if name = "label".toList ∧ m = mtuKw then
      .ok { db with mtu := db.mtu ++ [(value, [])] }
    else if name = "sig".toList ∧ m = mtuKw then
      match db.mtu with
      | [] => .error .mtuNoLabel
      | _ :: _ =>
        -- `value.parse::<u16>()`: optional `+`, then at least one ASCII digit, value ≤ 65535
        let ds := stripPlus value
        if ds ≠ [] ∧ ds.all Char.isDigit ∧ decVal ds ≤ u16Max then
          match pushLast db.mtu (decVal ds) with
          | some t => .ok { db with mtu := t }
          | none => .error .mtuNoLabel
        else .error .mtuValue
    else if name = "label".toList then
      match parseLabelL value with
      | none => .error .label
      | some (l, _) =>
        match tableOf m d with
        | some .tcpReq => .ok { db with tcpReq := db.tcpReq ++ [(l.toSig, [])] }
        | some .tcpResp => .ok { db with tcpResp := db.tcpResp ++ [(l.toSig, [])] }
        | some .httpReq => .ok { db with httpReq := db.httpReq ++ [(l.toSig, [])] }
        | some .httpResp => .ok { db with httpResp := db.httpResp ++ [(l.toSig, [])] }
        | none => .ok db
    else if name = "sig".toList then
      match tableOf m d with
      | some .tcpReq =>
        if db.tcpReq.isEmpty then .error .tcpNoLabel else
        match parseTcpSigFull value with
        | none => .error .tcpSig
        | some sg => match pushLast db.tcpReq sg with
          | some t => .ok { db with tcpReq := t } | none => .error .tcpNoLabel
      | some .tcpResp =>
        if db.tcpResp.isEmpty then .error .tcpNoLabel else
        match parseTcpSigFull value with
        | none => .error .tcpSig
        | some sg => match pushLast db.tcpResp sg with
          | some t => .ok { db with tcpResp := t } | none => .error .tcpNoLabel
      | some .httpReq =>
        if db.httpReq.isEmpty then .error .httpNoLabel else
        match parseHttpSigFull value with
        | none => .error .httpSig
        | some sg => match pushLast db.httpReq sg with
          | some t => .ok { db with httpReq := t } | none => .error .httpNoLabel
      | some .httpResp =>
        if db.httpResp.isEmpty then .error .httpNoLabel else
        match parseHttpSigFull value with
        | none => .error .httpSig
        | some sg => match pushLast db.httpResp sg with
          | some t => .ok { db with httpResp := t } | none => .error .httpNoLabel
      | none => .ok db
    else .ok db   -- `sys`, and every other name: skipped

/-- one iteration of `for line in s.lines()` -/
def loadLine (st : LoadState) (raw : Str) : Except LoadErr LoadState :=
  let line := trim raw
  if line.isEmpty ∨ line.head? = some ';' then .ok st
  else if (stripPrefix classesKw line).isSome then
    match parseClasses line with
    | some (cs, _) => .ok { st with db := { st.db with classes := st.db.classes ++ cs } }
    | none => .error .classes
  else if (stripPrefix uaOsKw line).isSome then
    match parseUaOs line with
    | some (us, []) => .ok { st with db := { st.db with uaOs := st.db.uaOs ++ us } }
    | _ => .error .uaOs   -- parse error, or an unparsed rest of the line
  else if line.head? = some '[' ∧ line.getLast? = some ']' then
    match parseModule line with
    | some (md, _) => .ok { st with curMod := some md }
    | none => .error .module
  else match st.curMod with
    | some (m, d) => (loadNamed st.db m d line).map fun db => { st with db := db }
    | none => .error .outside

def loadLines : LoadState → List Str → Except LoadErr LoadState
  | st, [] => .ok st
  | st, l :: ls =>
    match loadLine st l with
    | .ok st' => loadLines st' ls
    | .error e => .error e

/-- `Database::from_str` (the index of `FingerprintCollection::new` is not part of C06) -/
def loadDb (text : Str) : Except LoadErr Db :=
  (loadLines {} (lines text)).map (·.db)

end Huginn.SigText
