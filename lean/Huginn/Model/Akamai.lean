import Huginn.Model.H2Frames
import Huginn.Model.Hpack
import Huginn.Model.Utf8
/-
Model of `huginn-net-http/src/akamai_extractor.rs`, `akamai.rs` (fingerprint string) and
`http2_fingerprint_extractor.rs` (`Http2FingerprintExtractor::add_bytes`), as they are.

Text is kept as bytes (`Bytes`): the only non-ASCII text that can reach the fingerprint string is the
name of an unknown pseudo-header, which the code copies verbatim after checking that it is UTF-8.
HPACK is the structure parameter `H : Hpack`. The SHA-256 of `hash_fingerprint` is outside the
model (the hash is a function of the string; the driver computes it).
-/
namespace Huginn.H2

/-! ### akamai.rs -/

/-- decimal digits of a natural number, ASCII (`{}` of an unsigned integer) -/
def natDigits : Nat → Nat → List UInt8
  | 0, _ => []
  | fuel + 1, n => if n < 10 then [UInt8.ofNat (48 + n)] else natDigits fuel (n / 10) ++ [UInt8.ofNat (48 + n % 10)]
def dec (n : Nat) : Bytes := natDigits (n + 1) n

def sepJoin (sep : UInt8) : List Bytes → Bytes
  | [] => []
  | [x] => x
  | x :: y :: r => x ++ sep :: sepJoin sep (y :: r)

/-- `SettingId::from(id).as_u16()` through the regenerated arms. -/
def settingIdRoundTrip (id : Nat) : Nat :=
  match Gen.H2.settingFromArms.lookup id with
  | some name => (Gen.H2.settingAsArms.lookup name).getD id
  | none => id

structure Priority where
  sid : Nat
  excl : Bool
  dep : Nat
  weight : Nat
  deriving DecidableEq, Repr, Inhabited

/-- `Display for PseudoHeader` ∘ `PseudoHeader::from` -/
def pseudoToken (name : Bytes) : Bytes :=
  match Gen.H2.pseudoFromArms.lookup name with
  | some v => (Gen.H2.pseudoDisplayArms.lookup v).getD []
  | none => Gen.H2.pseudoUnknownPrefix ++ name

/-- the four components of `AkamaiFingerprint` -/
structure Fingerprint where
  settings : List (Nat × Nat)
  windowUpdate : Nat
  priorities : List Priority
  pseudo : List Bytes            -- already rendered tokens
  deriving DecidableEq, Repr, Inhabited

def colon : UInt8 := 58

/-- `AkamaiFingerprint::generate_fingerprint_string` -/
def Fingerprint.render (f : Fingerprint) : Bytes :=
  let s := sepJoin 59 (f.settings.map fun p => dec (settingIdRoundTrip p.1) ++ colon :: dec p.2)
  let w := if f.windowUpdate = 0 then Gen.H2.windowAbsent else dec f.windowUpdate
  let p := if f.priorities.isEmpty then Gen.H2.priorityAbsent
    else sepJoin 44 (f.priorities.map fun p =>
      dec p.sid ++ colon :: dec (if p.excl then 1 else 0) ++ colon :: dec p.dep ++ colon :: dec (p.weight + 1))
  let ps := sepJoin 44 f.pseudo
  s ++ Gen.H2.fieldSep :: w ++ Gen.H2.fieldSep :: p ++ Gen.H2.fieldSep :: ps

/-! ### akamai_extractor.rs -/

/-- `parse_settings_payload` -/
def parseSettingsPayload : Bytes → List (Nat × Nat)
  | a :: b :: c :: d :: e :: f :: rest => (be16 a b, be32 c d e f) :: parseSettingsPayload rest
  | _ => []

/-- `extract_settings_parameters` -/
def extractSettings (frames : List Frame) : List (Nat × Nat) :=
  match frames.find? (fun f => f.ty == tySettings && f.sid == 0) with
  | some f => parseSettingsPayload f.payload
  | none => []

/-- `parse_window_update_payload` -/
def parseWindowUpdate : Bytes → Option Nat
  | a :: b :: c :: d :: _ => some (be32 (a &&& 0x7f) b c d)
  | _ => none

/-- `extract_window_update` -/
def extractWindowUpdate (frames : List Frame) : Nat :=
  match frames.find? (fun f => f.ty == tyWindowUpdate && f.sid == 0) with
  | some f => (parseWindowUpdate f.payload).getD 0
  | none => 0

/-- `parse_priority_payload` -/
def parsePriority (sid : Nat) : Bytes → Option Priority
  | a :: b :: c :: d :: w :: _ =>
    some { sid := sid, excl := a &&& 0x80 != 0, dep := be32 (a &&& 0x7f) b c d, weight := w.toNat }
  | _ => none

/-- `extract_priority_frames` -/
def extractPriorities (frames : List Frame) : List Priority :=
  (frames.filter (fun f => f.ty == tyPriority)).filterMap (fun f => parsePriority f.sid f.payload)

/-- `decode_headers` followed by the `starts_with(':')` filter and `PseudoHeader::from`: a fresh
decoder is applied to the assembled block; fields whose *name* is not UTF-8 are dropped. -/
def pseudoOfBlock (H : Hpack) (block : Bytes) : List Bytes :=
  match (H.dec H.init block).1 with
  | none => []
  | some hs =>
    ((hs.filter (fun h => utf8Valid h.1)).filter (fun h => h.1.head? == some colon)).map
      (fun h => pseudoToken h.1)

/-- `http2_parser::header_block_fragment` -/
def fragmentOf (f : Frame) : Option Bytes :=
  let r1 : Option (Nat × Bytes) :=
    if f.flags &&& 8 != 0 then (match f.payload with | pl :: r => some (pl.toNat, r) | [] => none)
    else some (0, f.payload)
  match r1 with
  | none => none
  | some (pad, p) =>
    let r2 : Option Bytes := if f.flags &&& 0x20 != 0 then (if 5 ≤ p.length then some (p.drop 5) else none) else some p
    match r2 with
    | none => none
    | some p2 => if pad ≤ p2.length then some (p2.take (p2.length - pad)) else none

/-- the loop of `header_block` over the later frames of the same stream: CONTINUATION payloads up to
END_HEADERS (or up to the first other frame, or the end) -/
def contLoop : List Frame → Bytes
  | [] => []
  | f :: r =>
    if f.ty != tyContinuation then []
    else if f.flags &&& 4 != 0 then f.payload
    else f.payload ++ contLoop r

/-- `http2_parser::header_block(&frames[i..])` -/
def headerBlockOf : List Frame → Option Bytes
  | [] => none
  | first :: rest =>
    match fragmentOf first with
    | none => none
    | some frag =>
      if first.flags &&& 4 != 0 then some frag
      else some (frag ++ contLoop (rest.filter (fun f => f.sid == first.sid)))

/-- `extract_pseudo_header_order` -/
def extractPseudo (H : Hpack) (frames : List Frame) : List Bytes :=
  match headerBlockOf (frames.dropWhile (fun f => !(f.ty == tyHeaders && f.sid > 0))) with
  | some block => pseudoOfBlock H block
  | none => []

/-- `extract_akamai_fingerprint` -/
def extractAkamai (H : Hpack) (frames : List Frame) : Option Fingerprint :=
  let s := extractSettings frames
  if s.isEmpty then none
  else some { settings := s, windowUpdate := extractWindowUpdate frames,
              priorities := extractPriorities frames, pseudo := extractPseudo H frames }

/-- `extract_akamai_fingerprint_from_bytes` -/
def oneShot (H : Hpack) (data : Bytes) : Option Fingerprint :=
  extractAkamai H (parseFramesSkipPreface data).1

/-! ### http2_fingerprint_extractor.rs -/

structure Extractor where
  buffer : Bytes := []
  parsedOffset : Nat := 0
  fingerprint : Option Fingerprint := none
  deriving Repr, Inhabited

/-- `Http2FingerprintExtractor::add_bytes` (never `Err`: `parse_frames` never fails). Every call
parses all frames of the buffer (after the preface). -/
def Extractor.addBytes (H : Hpack) (s : Extractor) (data : Bytes) : Extractor × Option Fingerprint :=
  if s.fingerprint.isSome then (s, none)
  else
    let buffer := s.buffer ++ data
    let start := if hasPreface buffer then preface.length else 0
    let frameData := buffer.drop start
    if frameData.length ≥ 9 then
      let frames := parseFrames frameData
      if frames.isEmpty then ({ s with buffer := buffer }, none)
      else
        let off := start + consumed frames
        match extractAkamai H frames with
        | some fp => ({ buffer := buffer, parsedOffset := off, fingerprint := some fp }, some fp)
        | none => ({ buffer := buffer, parsedOffset := off, fingerprint := none }, none)
    else ({ s with buffer := buffer }, none)

/-- outputs of feeding `chunks` one after the other to a fresh extractor -/
def Extractor.run (H : Hpack) : Extractor → List Bytes → List (Option Fingerprint)
  | _, [] => []
  | s, c :: cs => let r := s.addBytes H c; r.2 :: Extractor.run H r.1 cs

def incremental (H : Hpack) (chunks : List Bytes) : List (Option Fingerprint) :=
  Extractor.run H {} chunks

end Huginn.H2
