import Huginn.Model.Wire
/-
SipHash-1-3 with zero keys = `std::collections::hash_map::DefaultHasher::new()`, and the byte
stream the `Hash` impls used by packet_hash.rs feed to it:
  `<[u8] as Hash>::hash`  = `write_length_prefix(len)` (= `write_usize`, 8 bytes little-endian on the
                            64-bit targets) then `write(bytes)`
  `<u16 as Hash>::hash`   = `write(&n.to_ne_bytes())` (2 bytes little-endian)
`Hasher::write` calls are equivalent to one write of the concatenation.
Only the driver uses this file (to compare worker indices exactly); the theorems of C18 hold for
every hash function. Third-party/std behaviour: exercised, not proved.
-/
namespace Huginn.SipHash
open Huginn.Wire

def rotl (x : UInt64) (b : UInt64) : UInt64 := (x <<< b) ||| (x >>> (64 - b))

structure St where
  v0 : UInt64
  v1 : UInt64
  v2 : UInt64
  v3 : UInt64

def round (s : St) : St :=
  let v0 := s.v0 + s.v1
  let v1 := rotl s.v1 13
  let v1 := v1 ^^^ v0
  let v0 := rotl v0 32
  let v2 := s.v2 + s.v3
  let v3 := rotl s.v3 16
  let v3 := v3 ^^^ v2
  let v0 := v0 + v3
  let v3 := rotl v3 21
  let v3 := v3 ^^^ v0
  let v2 := v2 + v1
  let v1 := rotl v1 17
  let v1 := v1 ^^^ v2
  let v2 := rotl v2 32
  ⟨v0, v1, v2, v3⟩

/-- little-endian word of up to 8 bytes -/
def leWord (b : Bytes) : UInt64 :=
  b.foldr (fun x acc => (acc <<< 8) ||| x.toUInt64) 0

def compress (s : St) (m : UInt64) : St :=
  let s := { s with v3 := s.v3 ^^^ m }
  let s := round s
  { s with v0 := s.v0 ^^^ m }

/-- absorb full 8-byte words; returns the state and the tail (< 8 bytes). Fuel = length. -/
def absorb : Nat → St → Bytes → St × Bytes
  | 0, s, b => (s, b)
  | fuel + 1, s, b =>
    if b.length < 8 then (s, b) else absorb fuel (compress s (leWord (b.take 8))) (b.drop 8)

def sipHash13 (k0 k1 : UInt64) (msg : Bytes) : UInt64 :=
  let s : St := ⟨k0 ^^^ 0x736f6d6570736575, k1 ^^^ 0x646f72616e646f6d,
                 k0 ^^^ 0x6c7967656e657261, k1 ^^^ 0x7465646279746573⟩
  let (s, tail) := absorb msg.length s msg
  let last := leWord tail ||| ((UInt64.ofNat (msg.length % 256)) <<< 56)
  let s := compress s last
  let s := { s with v2 := s.v2 ^^^ 0xff }
  let s := round (round (round s))
  s.v0 ^^^ s.v1 ^^^ s.v2 ^^^ s.v3

def le64 (n : Nat) : Bytes := (List.range 8).map (fun i => UInt8.ofNat (n / 256 ^ i % 256))
def le16 (n : Nat) : Bytes := [UInt8.ofNat (n % 256), UInt8.ofNat (n / 256 % 256)]

/-- the byte stream written into the hasher -/
def stream : HashIn → Bytes
  | .bytes b => le64 b.length ++ b
  | .flow a b p q => le64 a.length ++ a ++ (le64 b.length ++ b) ++ le16 p ++ le16 q

/-- `DefaultHasher` on a hash input, as a number (`finish() as usize`, 64-bit). -/
def defaultHash (i : HashIn) : Nat := (sipHash13 0 0 (stream i)).toNat

-- SipHash-1-3 reference values are not published in the paper; the function is validated by the
-- correspondence run against std (C18.w). Sanity: empty input with zero keys is a fixed value.
end Huginn.SipHash
