import Huginn.Model.Hpack
/-
HPACK as RFC 7541 defines it — an independent reference decoder (not a mirror of the crate):

* Appendix A static table (61 entries, written out from the RFC);
* Appendix B Huffman code, given by its 257 code lengths: the code is the *canonical* code of
  these lengths (codes assigned in order of (length, symbol)); decoding = repeatedly strip the
  unique code word that is a prefix of the remaining bits; §5.2 padding: fewer than 8 bits, all
  ones; a decoded EOS is an error;
* §5.1 integers with an N-bit prefix (no octet limit: RFC 7541 leaves the limit to the implementation);
* §6 representations; §4 dynamic table: entry size = |name| + |value| + 32, eviction from the oldest
  end until the new entry fits, an entry larger than the table empties it; §4.2/§6.3 size update must
  not exceed the protocol limit (4096 unless changed by SETTINGS);
* §2.3.3 index address space: 1..61 static, 62.. dynamic, newest first.

`decodeBlock` additionally returns the static indices the block referenced (used to delimit the
third-party finding "static entry 15").
-/
namespace Huginn.Spec.Hpack
open Huginn.H2

def a (s : String) : Bytes := s.toList.map (fun c => UInt8.ofNat c.toNat)

/-- RFC 7541 Appendix A -/
def staticTable : List Field := [
  (a ":authority", a ""), (a ":method", a "GET"), (a ":method", a "POST"), (a ":path", a "/"),
  (a ":path", a "/index.html"), (a ":scheme", a "http"), (a ":scheme", a "https"), (a ":status", a "200"),
  (a ":status", a "204"), (a ":status", a "206"), (a ":status", a "304"), (a ":status", a "400"),
  (a ":status", a "404"), (a ":status", a "500"), (a "accept-charset", a ""), (a "accept-encoding", a "gzip, deflate"),
  (a "accept-language", a ""), (a "accept-ranges", a ""), (a "accept", a ""), (a "access-control-allow-origin", a ""),
  (a "age", a ""), (a "allow", a ""), (a "authorization", a ""), (a "cache-control", a ""),
  (a "content-disposition", a ""), (a "content-encoding", a ""), (a "content-language", a ""), (a "content-length", a ""),
  (a "content-location", a ""), (a "content-range", a ""), (a "content-type", a ""), (a "cookie", a ""),
  (a "date", a ""), (a "etag", a ""), (a "expect", a ""), (a "expires", a ""),
  (a "from", a ""), (a "host", a ""), (a "if-match", a ""), (a "if-modified-since", a ""),
  (a "if-none-match", a ""), (a "if-range", a ""), (a "if-unmodified-since", a ""), (a "last-modified", a ""),
  (a "link", a ""), (a "location", a ""), (a "max-forwards", a ""), (a "proxy-authenticate", a ""),
  (a "proxy-authorization", a ""), (a "range", a ""), (a "referer", a ""), (a "refresh", a ""),
  (a "retry-after", a ""), (a "server", a ""), (a "set-cookie", a ""), (a "strict-transport-security", a ""),
  (a "transfer-encoding", a ""), (a "user-agent", a ""), (a "vary", a ""), (a "via", a ""),
  (a "www-authenticate", a "")]

/-- RFC 7541 Appendix B: code length of each symbol 0..255 and EOS (256) -/
def huffLengths : List Nat := [
  13, 23, 28, 28, 28, 28, 28, 28, 28, 24, 30, 28, 28, 30, 28, 28, 28, 28, 28, 28, 28, 28, 30, 28, 28, 28, 28, 28,
  28, 28, 28, 28, 6, 10, 10, 12, 13, 6, 8, 11, 10, 10, 8, 11, 8, 6, 6, 6, 5, 5, 5, 6, 6, 6, 6, 6, 6, 6, 7, 8, 15,
  6, 12, 10, 13, 6, 7, 7, 7, 7, 7, 7, 7, 7, 7, 7, 7, 7, 7, 7, 7, 7, 7, 7, 7, 7, 7, 7, 8, 7, 8, 13, 19, 13, 14, 6,
  15, 5, 6, 5, 6, 5, 6, 6, 6, 5, 7, 7, 6, 6, 6, 5, 6, 7, 6, 5, 5, 6, 7, 7, 7, 7, 7, 15, 11, 14, 13, 28, 20, 22,
  20, 20, 22, 22, 22, 23, 22, 23, 23, 23, 23, 23, 24, 23, 24, 24, 22, 23, 24, 23, 23, 23, 23, 21, 22, 23, 22, 23,
  23, 24, 22, 21, 20, 22, 22, 23, 23, 21, 23, 22, 22, 24, 21, 22, 23, 23, 21, 21, 22, 21, 23, 22, 23, 23, 20, 22,
  22, 22, 23, 22, 22, 23, 26, 26, 20, 19, 22, 23, 22, 25, 26, 26, 26, 27, 27, 26, 24, 25, 19, 21, 26, 27, 27, 26,
  27, 24, 21, 21, 26, 26, 28, 27, 27, 27, 20, 24, 20, 21, 22, 21, 21, 23, 22, 22, 25, 25, 24, 24, 26, 23, 26, 27,
  26, 26, 27, 27, 27, 27, 27, 28, 27, 27, 27, 27, 27, 26, 30]

/-- symbols of a given length, in increasing symbol order -/
def symsOfLen (l : Nat) : List Nat := (List.range 257).filter (fun s => huffLengths.getD s 0 == l)

/-- canonical code assignment: walk the lengths 1..30; `code` is the next free code word of the
current length. Result: `(symbol, code, length)`. -/
def canonical : Nat → Nat → Nat → List (Nat × Nat × Nat)
  | 0, _, _ => []
  | fuel + 1, l, code =>
    let ss := symsOfLen l
    ((ss.zipIdx).map fun (s, i) => (s, code + i, l)) ++ canonical fuel (l + 1) ((code + ss.length) * 2)

/-- the Huffman code of Appendix B: `(symbol, code, length)` -/
def huffCode : List (Nat × Nat × Nat) := canonical 30 1 0

def bitsToNat (bs : List Bool) : Nat := bs.foldl (fun acc b => acc * 2 + (if b then 1 else 0)) 0

/-- code words grouped by length: entry `l` = `(code, symbol)` of the symbols of length `l` -/
def byLength : Array (List (Nat × Nat)) :=
  (Array.range 31).map fun l => (huffCode.filter (fun e => e.2.2 == l)).map (fun e => (e.2.1, e.1))

/-- try the prefixes of `pre` of length `l`, `l+1`, … (`v` = value of the first `l` bits) -/
def matchFrom : Nat → Nat → Nat → List Bool → Option (Nat × Nat)
  | 0, _, _, _ => none
  | fuel + 1, l, v, rest =>
    match (byLength.getD l []).lookup v with
    | some sym => some (sym, l)
    | none =>
      match rest with
      | [] => none
      | b :: r => matchFrom fuel (l + 1) (v * 2 + (if b then 1 else 0)) r

/-- the symbol whose code word is a prefix of `bits` (the code is prefix-free, so at most one) -/
def matchSym (bits : List Bool) : Option (Nat × Nat) := matchFrom 32 0 0 (bits.take 30)

def huffDecodeBits : Nat → List Bool → Option Bytes
  | 0, bits => if bits.isEmpty then some [] else none
  | fuel + 1, bits =>
    match matchSym bits with
    | some (sym, len) =>
      if sym == 256 then none                                   -- EOS in the string: error (§5.2)
      else (huffDecodeBits fuel (bits.drop len)).map (fun r => UInt8.ofNat sym :: r)
    | none => if (bits.take 8).length < 8 && bits.all id then some [] else none   -- padding: < 8 bits of ones

def huffDecode (s : Bytes) : Option Bytes :=
  let bits := HpackCrate.bitsOf s
  huffDecodeBits (bits.length + 1) bits

/-- §5.1: `(value, remaining octets)`; `first` = the prefix bits of the first octet -/
def intTail : Bytes → Nat → Nat → Option (Nat × Bytes)
  | [], _, _ => none
  | b :: r, acc, m =>
    let acc := acc + (b.toNat % 128) * 2 ^ m
    if b.toNat ≥ 128 then intTail r acc (m + 7) else some (acc, r)

def decodeInt (n : Nat) (buf : Bytes) : Option (Nat × Bytes) :=
  match buf with
  | [] => none
  | b :: r =>
    let i := b.toNat % 2 ^ n
    if i < 2 ^ n - 1 then some (i, r) else intTail r i 0

/-- §5.2 string literal -/
def decodeStr (buf : Bytes) : Option (Bytes × Bytes) :=
  match buf with
  | [] => none
  | b :: _ =>
    match decodeInt 7 buf with
    | none => none
    | some (len, r) =>
      if r.length < len then none
      else
        let raw := r.take len
        if b.toNat ≥ 128 then (huffDecode raw).map (fun s => (s, r.drop len)) else some (raw, r.drop len)

structure Table where
  entries : List Field := []      -- newest first
  maxSize : Nat := 4096
  deriving DecidableEq, Repr, Inhabited

def size (es : List Field) : Nat := (es.map (fun e => e.1.length + e.2.length + 32)).sum

/-- keep the newest entries that fit into `max` octets -/
def keepFitting (max : Nat) : List Field → Nat → List Field
  | [], _ => []
  | e :: r, used =>
    let u := used + e.1.length + e.2.length + 32
    if u ≤ max then e :: keepFitting max r u else []

def Table.insert (t : Table) (e : Field) : Table := { t with entries := keepFitting t.maxSize (e :: t.entries) 0 }
def Table.resize (t : Table) (n : Nat) : Table := { entries := keepFitting n t.entries 0, maxSize := n }

def Table.lookup (t : Table) (i : Nat) : Option Field :=
  if i = 0 then none
  else if i ≤ 61 then staticTable[i - 1]?
  else t.entries[i - 62]?

/-- protocol limit on the dynamic table size (SETTINGS_HEADER_TABLE_SIZE default) -/
def protocolMax : Nat := 4096

/-- `staticRefs`: static indices referenced; `feats`: which encodings occurred
(`i` indexed static, `d` indexed dynamic, `L` incremental, `w` without indexing, `n` never indexed,
`u` size update, `r` name reference, `l` literal name, `h` Huffman string, `p` plain string) -/
structure Out where
  fields : List Field
  table : Table
  staticRefs : List Nat
  feats : List Char

def strFeat (buf : Bytes) : Char := match buf with | b :: _ => if b.toNat ≥ 128 then 'h' else 'p' | [] => 'p'

def literal (t : Table) (n : Nat) (buf : Bytes) : Option (Field × Bytes × List Nat × List Char) :=
  match decodeInt n buf with
  | none => none
  | some (idx, r) =>
    if idx = 0 then
      match decodeStr r with
      | none => none
      | some (name, r2) => (decodeStr r2).map (fun (v, r3) => ((name, v), r3, [], ['l', strFeat r, strFeat r2]))
    else
      match t.lookup idx with
      | none => none
      | some (name, _) =>
        (decodeStr r).map (fun (v, r2) => ((name, v), r2, if idx ≤ 61 then [idx] else [], ['r', strFeat r]))

/-- §6, one representation at a time; fuel = octets remaining + 1 -/
def decodeLoop : Nat → Table → Bytes → List Field → List Nat → List Char → Option Out
  | 0, _, _, _, _, _ => none
  | fuel + 1, t, buf, acc, refs, fs =>
    match buf with
    | [] => some { fields := acc.reverse, table := t, staticRefs := refs, feats := fs }
    | b :: _ =>
      let x := b.toNat
      if x ≥ 128 then                                    -- §6.1 indexed
        match decodeInt 7 buf with
        | none => none
        | some (i, r) =>
          match t.lookup i with
          | none => none
          | some f => decodeLoop fuel t r (f :: acc) (if i ≤ 61 then i :: refs else refs) ((if i ≤ 61 then 'i' else 'd') :: fs)
      else if x ≥ 64 then                                -- §6.2.1 incremental indexing
        match literal t 6 buf with
        | none => none
        | some (f, r, rf, ff) => decodeLoop fuel (t.insert f) r (f :: acc) (rf ++ refs) ('L' :: ff ++ fs)
      else if x ≥ 32 then                                -- §6.3 size update
        match decodeInt 5 buf with
        | none => none
        | some (n, r) => if n ≤ protocolMax then decodeLoop fuel (t.resize n) r acc refs ('u' :: fs) else none
      else                                               -- §6.2.2 / §6.2.3
        match literal t 4 buf with
        | none => none
        | some (f, r, rf, ff) => decodeLoop fuel t r (f :: acc) (rf ++ refs) ((if x ≥ 16 then 'n' else 'w') :: ff ++ fs)

def decodeBlock (t : Table) (buf : Bytes) : Option Out := decodeLoop (buf.length + 1) t buf [] [] []

end Huginn.Spec.Hpack

namespace Huginn.H2
/-- RFC 7541 as an instance of the HPACK interface (state after a failed block: unchanged) -/
def Hpack.rfc : Hpack :=
  { σ := Spec.Hpack.Table, init := {},
    dec := fun t b => match Spec.Hpack.decodeBlock t b with
      | some o => (some o.fields, o.table)
      | none => (none, t) }
end Huginn.H2
