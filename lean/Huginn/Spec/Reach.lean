import Huginn.Spec.TcpSig
import Huginn.Spec.Match
import Huginn.Model.Pipeline
/-
Specification for C13 — "every bundled signature is reachable by the traffic it describes".

Written from the property statement and the p0f field definitions (README §"TCP signatures",
§"HTTP signatures"), reusing the header views, the option-area grammar and the quirk conditions of
`Spec/TcpSig.lean` (C03) and the instance relation of `Spec/Match.lean` (C12):

* `ConformsTcp resp f a s` — the segment with header fields `f` (option area `a`) is traffic the
  signature `s` describes: role, IP version, a TTL at most 30 hops below the signature's, option
  layout, MSS / scale / window as the signature's fields demand (wildcards free), exactly the
  signature's quirks, payload class.
* `ConformsHttp isReq v hs sw s` — the message with version `v`, header list `hs` and software
  string `sw` is one the signature describes: headers in the signature's order with the optional
  ones in or out, demanded values, none of the headers that must be absent, software string
  containing the token.
* `Good …` — what the statement demands of the lookup: a match at distance 0 (quality 1.0) on an
  entry that is the signature's own or an earlier one in database order which the observation
  instantiates as well.
* `ReachTcp` / `ReachHttp` — decidable *shape* predicates on a signature, discovered by the proof:
  the signatures for which every conforming segment / message is matched that way.
-/
namespace Huginn.Reach.Spec
open Huginn.Sig Huginn.TcpExtract Huginn.TcpSig.Spec Huginn.Match Huginn.Match.Spec

/-! ## TCP -/

/-- p0f's window field against the raw window, the MSS option value and the minimal header size. -/
def WinConf (w : WindowSize) (win : Nat) (mss : Option Nat) (minHdr : Nat) : Prop :=
  match w with
  | .any => True
  | .value v => win = v
  | .mod n => n ≠ 0 ∧ win % n = 0
  | .mss n => onOpt mss False fun m => win = n * m
  | .mtu n => onOpt mss False fun m => win = n * (m + minHdr)
instance (w win mss h) : Decidable (WinConf w win mss h) := by
  cases w <;> (unfold WinConf; exact inferInstance)

/-- p0f's ittl field against the observed TTL: at most 30 hops below the initial TTL; `T-` ("bad
TTL") only bounds it from above. -/
def TtlConf (t : Ttl) (ttl : Nat) : Prop :=
  match t with
  | .value T => 1 ≤ ttl ∧ ttl ≤ T ∧ T - ttl ≤ 30
  | .bad T => ttl ≤ T
  | _ => False
instance (t ttl) : Decidable (TtlConf t ttl) := by
  cases t <;> (unfold TtlConf; exact inferInstance)

def PclassConf (p : PayloadSize) (payLen : Nat) : Prop :=
  match p with | .zero => payLen = 0 | .nonZero => 0 < payLen | .any => True
instance (p n) : Decidable (PclassConf p n) := by
  cases p <;> (unfold PclassConf; exact inferInstance)

/-- Quirks that exist only in an IPv4 header; `flow` only in an IPv6 header. For a signature with a
wildcard IP version p0f ignores the quirks that cannot occur in the packet's IP version
(README: "df … ignored for IPv6", "flow … ignored for IPv4"). -/
def v4OnlyQuirks : List Quirk := [.df, .nonZeroID, .zeroID, .mustBeZero]

def maskedQuirks (s : TcpSig) (v6 : Bool) : List Quirk :=
  if s.version = .any then
    s.quirks.filter (fun q => if v6 then !v4OnlyQuirks.contains q else q != .flowID)
  else s.quirks

instance (a : Area) : Decidable a.WF := by unfold Area.WF; exact inferInstance

structure ConformsTcp (resp : Bool) (f : Fields) (a : Area) (s : TcpSig) : Prop where
  proto   : f.ip.proto = 6
  nofrag  : f.ip.v6 = true ∨ (f.ip.fragOff = 0 ∧ ¬ Mf f)
  /-- a SYN (request table) or a SYN+ACK (response table), no FIN / RST -/
  role    : Syn f ∧ (Ack f ↔ resp = true) ∧ ¬ FinF f ∧ ¬ Rst f
  version : s.version = .any ∨ s.version = (if f.ip.v6 then .v6 else .v4)
  ttl     : TtlConf s.ittl f.ip.ttl
  olen    : if f.ip.v6 then s.olen = 0 else 5 ≤ f.ip.ihl ∧ s.olen = (f.ip.ihl - 5) * 4
  opts    : f.tcp.opts = a.encode ∧ a.WF ∧ ¬ a.Ambiguous
  layout  : a.layout = s.olayout
  /-- a fixed MSS is the option's value; every MSS is a positive number -/
  mss     : (onOpt s.mss True fun m => (mssValues a).head? = some m) ∧ ∀ v ∈ mssValues a, 1 ≤ v
  /-- a fixed scale is the option's shift, 0 when there is no window-scale option -/
  wscale  : onOpt s.wscale True fun k => (wsValues a).head?.getD 0 = k
  window  : WinConf s.wsize f.tcp.window (mssValues a).head? (minHdr f)
  /-- exactly the signature's quirks (those relevant to the packet's IP version), in p0f's
  canonical order -/
  quirks  : maskedQuirks s f.ip.v6 = allQuirks.filter (fun q => decide (QuirkCond f (some a) q))
  pclass  : PclassConf s.pclass f.tcp.payLen

instance (resp f a s) : Decidable (ConformsTcp resp f a s) :=
  decidable_of_iff
    (f.ip.proto = 6 ∧ (f.ip.v6 = true ∨ (f.ip.fragOff = 0 ∧ ¬ Mf f)) ∧
     (Syn f ∧ (Ack f ↔ resp = true) ∧ ¬ FinF f ∧ ¬ Rst f) ∧
     (s.version = .any ∨ s.version = (if f.ip.v6 then .v6 else .v4)) ∧ TtlConf s.ittl f.ip.ttl ∧
     (if f.ip.v6 then s.olen = 0 else 5 ≤ f.ip.ihl ∧ s.olen = (f.ip.ihl - 5) * 4) ∧
     (f.tcp.opts = a.encode ∧ a.WF ∧ ¬ a.Ambiguous) ∧ a.layout = s.olayout ∧
     ((onOpt s.mss True fun m => (mssValues a).head? = some m) ∧ ∀ v ∈ mssValues a, 1 ≤ v) ∧
     (onOpt s.wscale True fun k => (wsValues a).head?.getD 0 = k) ∧
     WinConf s.wsize f.tcp.window (mssValues a).head? (minHdr f) ∧
     maskedQuirks s f.ip.v6 = allQuirks.filter (fun q => decide (QuirkCond f (some a) q)) ∧
     PclassConf s.pclass f.tcp.payLen)
    ⟨fun ⟨h1, h2, h3, h4, h5, h6, h7, h8, h9, h10, h11, h12, h13⟩ =>
      ⟨h1, h2, h3, h4, h5, h6, h7, h8, h9, h10, h11, h12, h13⟩,
     fun h => ⟨h.proto, h.nofrag, h.role, h.version, h.ttl, h.olen, h.opts, h.layout, h.mss, h.wscale,
       h.window, h.quirks, h.pclass⟩⟩

variable {σ ω : Type}

/-- The lookup result the statement demands for traffic built for entry `own`: a match at distance 0
on `own` itself or on an entry before it in database order that the observation instantiates too. -/
def Good (inst : ω → σ → Prop) (db : List (Label × List σ)) (own : Nat × Nat × σ) (o : ω)
    (r : Option (Option (Nat × Nat × Nat))) : Prop :=
  ∃ i j s' pre post, r = some (some (i, j, 0)) ∧ entries db = pre ++ (i, j, s') :: post ∧
    (own = (i, j, s') ∨ own ∈ post) ∧ inst o s'

/-- Quirks whose extraction order agrees with p0f's canonical order whatever the option layout. -/
def orderSafeQuirks : List Quirk :=
  [.df, .nonZeroID, .zeroID, .seqNumZero, .ackNumNonZero, .ackNumZero, .nonZeroURG, .urg, .push,
   .ownTimestampZero]

/-- The window field survives the extractor's re-classification for every conforming segment of
the given IP version. -/
def WindowReach (v6 : Bool) (s : TcpSig) : Prop :=
  match s.wsize with
  | .any => True
  | .mss n => .mss ∈ s.olayout ∧ n ≤ 255
  | .value w =>
    w = 0 ∨ .mss ∉ s.olayout ∨
    (onOpt s.mss False fun m =>
      detectWin w m 0 (s.olayout.contains .ts) (if v6 then .v6 else .v4) = .value w)
  | .mtu n =>
    onOpt s.mss False fun m => .mss ∈ s.olayout ∧
      (n * (m + (if v6 then 60 else 40)) ≤ 65535 →
       detectWin (n * (m + (if v6 then 60 else 40))) m 0 (s.olayout.contains .ts)
        (if v6 then .v6 else .v4) = .mtu n)
  | .mod _ => False
instance (v6 s) : Decidable (WindowReach v6 s) := by
  unfold WindowReach
  cases s.wsize <;> simp only [] <;> exact inferInstance

/-- Initial TTL one of the values the extractor guesses. -/
def ttlShape (s : TcpSig) : Bool :=
  match s.ittl with | .value T => initialTtls.contains T | _ => false

/-- An end-of-options token carries no padding. -/
def eolShape (s : TcpSig) : Bool :=
  s.olayout.all (fun o => match o with | .eol n => n == 0 | _ => true)

/-- Only quirks whose extraction order is the canonical one. -/
def quirkShape (s : TcpSig) : Bool := s.quirks.all (fun q => orderSafeQuirks.contains q)

/-- A fixed window scale comes with a `ws` option. -/
def scaleShape (s : TcpSig) : Bool := !(s.wscale.isSome && !s.olayout.contains .ws)

/-- The signature lists no quirk that cannot occur in a packet of this IP version (the code compares
quirk lists verbatim, p0f masks them). -/
def versionQuirkShape (v6 : Bool) (s : TcpSig) : Bool := maskedQuirks s v6 == s.quirks

/-- **Shape predicate (TCP)**, for traffic of one IP version. -/
def ReachTcp (v6 : Bool) (s : TcpSig) : Prop :=
  ttlShape s = true ∧ eolShape s = true ∧ quirkShape s = true ∧ scaleShape s = true ∧
  versionQuirkShape v6 s = true ∧ WindowReach v6 s
instance (v6 s) : Decidable (ReachTcp v6 s) := by unfold ReachTcp; exact inferInstance

/-! ### the classes of unreachable (dead or partly dead) TCP signatures, by reason -/

inductive DeadTcp
  | badTtl          -- `T-`: the extractor reports `Bad` only for TTL 0
  | oddTtl          -- initial TTL other than 32/64/128/255
  | eolPadding      -- `eol+n`, n > 0: padding is walked as further options (C03 optionsAfterEol)
  | quirkOrder      -- quirk list whose p0f order differs from the extraction order (`ecn`, `0+`, …)
  | scaleWithoutOption  -- a fixed scale (`,0`) without a `ws` option: observed scale is "absent"
  | windowReclassified  -- fixed window / `mtu*N` re-expressed as `mss*N`, `%N` or `mtu*N` by the extractor
  | versionQuirks       -- wildcard-version signature with IPv4-only quirks (`df`, `id+`, …) met by IPv6 traffic (or `flow` by IPv4)
  deriving DecidableEq, Repr

def ttlReason (s : TcpSig) : DeadTcp := match s.ittl with | .bad _ => .badTtl | _ => .oddTtl

def deadReasons (v6 : Bool) (s : TcpSig) : List DeadTcp :=
  [(ttlShape s, ttlReason s), (eolShape s, .eolPadding), (quirkShape s, .quirkOrder),
   (scaleShape s, .scaleWithoutOption), (versionQuirkShape v6 s, .versionQuirks),
   (decide (WindowReach v6 s), .windowReclassified)].filterMap
    (fun p => if p.1 then none else some p.2)

/-! ## HTTP -/

/-- Message headers against the signature's ordered list: optional headers in or out, names
equal, a demanded value present as such. -/
inductive HdrConf : List (String × Option String) → List Header → Prop
  | nil : HdrConf [] []
  | keep {h s hs ss} : h.1 = s.name → (∀ v, s.value = some v → h.2 = some v) → HdrConf hs ss →
      HdrConf (h :: hs) (s :: ss)
  | skip {s hs ss} : s.optional = true → HdrConf hs ss → HdrConf hs (s :: ss)

/-- Decision procedure for `HdrConf` by full backtracking. -/
def hdrConfB : List (String × Option String) → List Header → Bool
  | [], [] => true
  | _ :: _, [] => false
  | [], s :: ss => s.optional && hdrConfB [] ss
  | h :: hs, s :: ss =>
    (decide (h.1 = s.name ∧ (s.value = none ∨ h.2 = s.value)) && hdrConfB hs ss) ||
    (s.optional && hdrConfB (h :: hs) ss)

theorem hdrConfB_iff (hs : List (String × Option String)) (ss : List Header) :
    hdrConfB hs ss = true ↔ HdrConf hs ss := by
  have hval : ∀ (h : String × Option String) (s : Header),
      (s.value = none ∨ h.2 = s.value) ↔ (∀ v, s.value = some v → h.2 = some v) := by
    intro h s
    cases hv : s.value with
    | none => simp
    | some v => simp
  induction ss generalizing hs with
  | nil =>
    cases hs with
    | nil => simp [hdrConfB, HdrConf.nil]
    | cons h hs => simp [hdrConfB]; intro h; cases h
  | cons s ss ih =>
    cases hs with
    | nil =>
      simp only [hdrConfB, Bool.and_eq_true, ih]
      constructor
      · rintro ⟨h1, h2⟩; exact .skip h1 h2
      · intro h; cases h with | skip h1 h2 => exact ⟨h1, h2⟩
    | cons h hs =>
      simp only [hdrConfB, Bool.or_eq_true, Bool.and_eq_true, decide_eq_true_eq, ih, hval]
      constructor
      · rintro (⟨⟨h1, h2⟩, h3⟩ | ⟨h1, h2⟩)
        · exact .keep h1 h2 h3
        · exact .skip h1 h2
      · intro hh
        cases hh with
        | keep h1 h2 h3 => exact .inl ⟨⟨h1, h2⟩, h3⟩
        | skip h1 h2 => exact .inr ⟨h1, h2⟩

instance (hs ss) : Decidable (HdrConf hs ss) := decidable_of_iff _ (hdrConfB_iff hs ss)

structure ConformsHttp (isReq : Bool) (v : HttpVersion) (hs : List (String × Option String))
    (sw : Option String) (s : HttpSig) : Prop where
  version : v ≠ .any ∧ (s.version = .any ∨ s.version = v)
  headers : HdrConf hs s.horder
  /-- none of the headers that must be absent is present (names compared case-insensitively) -/
  absent  : ∀ h ∈ s.habsent, Huginn.Reach.asciiLower h.name ∉ hs.map (fun x => Huginn.Reach.asciiLower x.1)
  /-- the User-Agent / Server value contains the expected token -/
  software : SwInst (Huginn.Reach.trafficClass sw) s.expsw

theorem conformsHttp_iff (isReq : Bool) (v : HttpVersion) (hs : List (String × Option String))
    (sw : Option String) (s : HttpSig) :
    ConformsHttp isReq v hs sw s ↔
      ((v ≠ HttpVersion.any ∧ (s.version = HttpVersion.any ∨ s.version = v)) ∧ HdrConf hs s.horder ∧
       (∀ h ∈ s.habsent, Huginn.Reach.asciiLower h.name ∉ hs.map (fun x => Huginn.Reach.asciiLower x.1)) ∧
       SwInst (Huginn.Reach.trafficClass sw) s.expsw) :=
  ⟨fun h => ⟨h.version, h.headers, h.absent, h.software⟩,
   fun h => { version := h.1, headers := h.2.1, absent := h.2.2.1, software := h.2.2.2 }⟩

instance (isReq v hs sw s) : Decidable (ConformsHttp isReq v hs sw s) :=
  decidable_of_iff _ (conformsHttp_iff isReq v hs sw s).symm

/-- **Shape predicate (HTTP)**: no header named twice; a header with a demanded value is not one
whose value the observation drops (optional / skip-value lists). -/
def ReachHttp (isReq : Bool) (s : HttpSig) : Prop :=
  (s.horder.map (·.name)).Nodup ∧ (s.habsent.map (·.name)).Nodup ∧
  (∀ h ∈ s.horder, h.value.isSome →
    Huginn.Reach.inListCI (if isReq then Gen.BundledSig.requestOptionalHeaders else Gen.BundledSig.responseOptionalHeaders) h.name = false ∧
    Huginn.Reach.inListCI (if isReq then Gen.BundledSig.requestSkipValueHeaders else Gen.BundledSig.responseSkipValueHeaders) h.name = false) ∧
  -- a header the request parser takes out of the list (`Cookie`, `Referer`) is optional
  (∀ h ∈ s.horder, Huginn.Reach.keptHeader isReq (h.name, none) = false → h.optional = true)
instance (r s) : Decidable (ReachHttp r s) := by unfold ReachHttp; exact inferInstance

end Huginn.Reach.Spec

/-! ## known-finding classes of C13 (decidable on the case) -/
namespace Huginn.KF.C13
open Huginn.Sig Huginn.Reach.Spec

/-- The signature is outside `ReachTcp` for the named reason. -/
def deadTcp (v6 : Bool) (s : TcpSig) : Prop := deadReasons v6 s ≠ []
instance (v6 s) : Decidable (deadTcp v6 s) := by unfold deadTcp; exact inferInstance

def badTtl (v6 : Bool) (s : TcpSig) : Prop := DeadTcp.badTtl ∈ deadReasons v6 s
instance (v6 s) : Decidable (badTtl v6 s) := by unfold badTtl; exact inferInstance
def oddTtl (v6 : Bool) (s : TcpSig) : Prop := DeadTcp.oddTtl ∈ deadReasons v6 s
instance (v6 s) : Decidable (oddTtl v6 s) := by unfold oddTtl; exact inferInstance
def eolPadding (v6 : Bool) (s : TcpSig) : Prop := DeadTcp.eolPadding ∈ deadReasons v6 s
instance (v6 s) : Decidable (eolPadding v6 s) := by unfold eolPadding; exact inferInstance
def quirkOrder (v6 : Bool) (s : TcpSig) : Prop := DeadTcp.quirkOrder ∈ deadReasons v6 s
instance (v6 s) : Decidable (quirkOrder v6 s) := by unfold quirkOrder; exact inferInstance
def scaleWithoutOption (v6 : Bool) (s : TcpSig) : Prop := DeadTcp.scaleWithoutOption ∈ deadReasons v6 s
instance (v6 s) : Decidable (scaleWithoutOption v6 s) := by unfold scaleWithoutOption; exact inferInstance
def windowReclassified (v6 : Bool) (s : TcpSig) : Prop := DeadTcp.windowReclassified ∈ deadReasons v6 s
instance (v6 s) : Decidable (windowReclassified v6 s) := by unfold windowReclassified; exact inferInstance
def versionQuirks (v6 : Bool) (s : TcpSig) : Prop := DeadTcp.versionQuirks ∈ deadReasons v6 s
instance (v6 s) : Decidable (versionQuirks v6 s) := by unfold versionQuirks; exact inferInstance

/-- The signature is outside `ReachHttp`: a header named twice, a demanded value on a header
whose value the observation drops, or a required `Cookie` / `Referer`. -/
def httpHeaderShape (isReq : Bool) (s : HttpSig) : Prop := ¬ ReachHttp isReq s
instance (r s) : Decidable (httpHeaderShape r s) := by unfold httpHeaderShape; exact inferInstance

/-- C12's open `expswReversed` on the observed software string (the whole User-Agent / Server
value): only a value that is itself a substring of the token passes. -/
def httpSoftwareString (obsSw sigSw : String) : Prop := Huginn.KF.C12.expswReversed obsSw sigSw
instance (a b) : Decidable (httpSoftwareString a b) := by unfold httpSoftwareString; exact inferInstance

/-- The common headers missing from the message are not what the signature's absent list says
(the observation lists *every* missing common header, the greedy comparison then runs off). -/
def httpAbsentList (obsAbsent sigAbsent : List Header) : Prop := ¬ Huginn.Match.Spec.HdrInst obsAbsent sigAbsent
instance (a b) : Decidable (httpAbsentList a b) := by unfold httpAbsentList; exact inferInstance

end Huginn.KF.C13
