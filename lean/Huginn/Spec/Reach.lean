import Huginn.Spec.TcpSig
import Huginn.Spec.Match
import Huginn.Model.Pipeline
/-
Specification for C13 — "every bundled signature is reachable by the traffic it describes".

Written from the property statement and the p0f field definitions (README §"TCP signatures",
§"HTTP signatures"), reusing the header views, the option-area grammar and the quirk conditions of
`Spec/TcpSig.lean` (C03) and the instance relation of `Spec/Match.lean` (C12):

* `ConformsTcp resp f a s` — the segment with header fields `f` (option area `a`) is traffic the
  signature `s` describes: role, IP version, a TTL at most 30 hops below the signature's, option
  layout, MSS / scale / window as the signature's fields demand (wildcards free), exactly the
  signature's quirks, payload class.
* `ConformsHttp isReq v hs sw s` — the message with version `v`, header list `hs` and software
  string `sw` is one the signature describes: headers in the signature's order with the optional
  ones in or out, demanded values, none of the headers that must be absent, software string
  containing the token.
* `Good …` — what the statement demands of the lookup: a match at distance 0 (quality 1.0) on an
  entry that is the signature's own or an earlier one in database order which the observation
  instantiates as well.
* `ReachTcp` / `ReachHttp` — decidable *shape* predicates on a signature, discovered by the proof:
  the signatures for which every conforming segment / message is matched that way.
-/
namespace Huginn.Reach.Spec
open Huginn.Sig Huginn.TcpExtract Huginn.TcpSig.Spec Huginn.Match Huginn.Match.Spec

/-! ## TCP -/

/-- p0f's window field against the raw window, the MSS option value and the minimal header size. -/
def WinConf (w : WindowSize) (win : Nat) (mss : Option Nat) (minHdr : Nat) : Prop :=
  match w with
  | .any => True
  | .value v => win = v
  | .mod n => n ≠ 0 ∧ win % n = 0
  | .mss n => ∃ m, mss = some m ∧ win = n * m
  | .mtu n => ∃ m, mss = some m ∧ win = n * (m + minHdr)

/-- p0f's ittl field against the observed TTL: at most 30 hops below the initial TTL; `T-` ("bad
TTL") only bounds it from above. -/
def TtlConf (t : Ttl) (ttl : Nat) : Prop :=
  match t with
  | .value T => 1 ≤ ttl ∧ ttl ≤ T ∧ T - ttl ≤ 30
  | .bad T => ttl ≤ T
  | _ => False

structure ConformsTcp (resp : Bool) (f : Fields) (a : Area) (s : TcpSig) : Prop where
  proto   : f.ip.proto = 6
  nofrag  : f.ip.v6 = true ∨ (f.ip.fragOff = 0 ∧ ¬ Mf f)
  /-- a SYN (request table) or a SYN+ACK (response table), no FIN / RST -/
  role    : Syn f ∧ (Ack f ↔ resp = true) ∧ ¬ FinF f ∧ ¬ Rst f
  version : s.version = .any ∨ s.version = (if f.ip.v6 then .v6 else .v4)
  ttl     : TtlConf s.ittl f.ip.ttl
  olen    : if f.ip.v6 then s.olen = 0 else 5 ≤ f.ip.ihl ∧ s.olen = (f.ip.ihl - 5) * 4
  opts    : f.tcp.opts = a.encode ∧ a.WF ∧ ¬ a.Ambiguous
  layout  : a.layout = s.olayout
  /-- a fixed MSS is the option's value; every MSS is a positive number -/
  mss     : (∀ m, s.mss = some m → (mssValues a).head? = some m) ∧ ∀ v ∈ mssValues a, 1 ≤ v
  /-- a fixed scale is the option's shift, 0 when there is no window-scale option -/
  wscale  : ∀ k, s.wscale = some k → (wsValues a).head?.getD 0 = k
  window  : WinConf s.wsize f.tcp.window (mssValues a).head? (minHdr f)
  /-- exactly the signature's quirks, in p0f's canonical order -/
  quirks  : s.quirks = allQuirks.filter (fun q => decide (QuirkCond f (some a) q))
  pclass  : match s.pclass with | .zero => f.tcp.payLen = 0 | .nonZero => 0 < f.tcp.payLen | .any => True

variable {σ ω : Type}

/-- The lookup result the statement demands for traffic built for entry `own`: a match at distance 0
on `own` itself or on an entry before it in database order that the observation instantiates too. -/
def Good (inst : ω → σ → Prop) (db : List (Label × List σ)) (own : Nat × Nat × σ) (o : ω)
    (r : Option (Option (Nat × Nat × Nat))) : Prop :=
  ∃ i j s' pre post, r = some (some (i, j, 0)) ∧ entries db = pre ++ (i, j, s') :: post ∧
    (own = (i, j, s') ∨ own ∈ post) ∧ inst o s'

/-- Quirks whose extraction order agrees with p0f's canonical order whatever the option layout. -/
def orderSafeQuirks : List Quirk :=
  [.df, .nonZeroID, .zeroID, .seqNumZero, .ackNumNonZero, .ackNumZero, .nonZeroURG, .urg, .push,
   .ownTimestampZero]

/-- `total_header` as the call site passes it to the window classifier (IHL in words / 40). -/
def codeHdrOf (v6 : Bool) (olen : Nat) : Nat := if v6 then 40 else 5 + olen / 4

def versionsOf (v : IpVersion) : List Bool :=
  match v with | .v4 => [false] | .v6 => [true] | .any => [false, true]

/-- The window field survives the extractor's re-classification for every conforming segment. -/
def WindowReach (s : TcpSig) : Prop :=
  match s.wsize with
  | .any => True
  | .mss n => .mss ∈ s.olayout ∧ n ≤ 255
  | .value w =>
    w = 0 ∨ .mss ∉ s.olayout ∨
    (∃ m, s.mss = some m ∧ ∀ v6 ∈ versionsOf s.version,
      detectWin w m (codeHdrOf v6 s.olen) (s.olayout.contains .ts) (if v6 then .v6 else .v4) = .value w)
  | .mtu n =>
    ∃ m, s.mss = some m ∧ .mss ∈ s.olayout ∧ ∀ v6 ∈ versionsOf s.version,
      n * (m + (if v6 then 60 else 40)) ≤ 65535 →
      detectWin (n * (m + (if v6 then 60 else 40))) m (codeHdrOf v6 s.olen) (s.olayout.contains .ts)
        (if v6 then .v6 else .v4) = .mtu n
  | .mod _ => False
instance (s) : Decidable (WindowReach s) := by
  unfold WindowReach
  cases s.wsize <;> simp only [] <;> try exact inferInstance
  all_goals (cases s.mss <;> simp <;> exact inferInstance)

/-- Initial TTL one of the values the extractor guesses. -/
def ttlShape (s : TcpSig) : Bool :=
  match s.ittl with | .value T => initialTtls.contains T | _ => false

/-- An end-of-options token carries no padding. -/
def eolShape (s : TcpSig) : Bool :=
  s.olayout.all (fun o => match o with | .eol n => n == 0 | _ => true)

/-- Only quirks whose extraction order is the canonical one. -/
def quirkShape (s : TcpSig) : Bool := s.quirks.all (fun q => orderSafeQuirks.contains q)

/-- A fixed window scale comes with a `ws` option. -/
def scaleShape (s : TcpSig) : Bool := !(s.wscale.isSome && !s.olayout.contains .ws)

/-- **Shape predicate (TCP).** -/
def ReachTcp (s : TcpSig) : Prop :=
  ttlShape s = true ∧ eolShape s = true ∧ quirkShape s = true ∧ scaleShape s = true ∧ WindowReach s
instance (s) : Decidable (ReachTcp s) := by unfold ReachTcp; exact inferInstance

/-! ### the classes of unreachable (dead or partly dead) TCP signatures, by reason -/

inductive DeadTcp
  | badTtl          -- `T-`: the extractor reports `Bad` only for TTL 0
  | oddTtl          -- initial TTL other than 32/64/128/255
  | eolPadding      -- `eol+n`, n > 0: padding is walked as further options (C03 optionsAfterEol)
  | quirkOrder      -- quirk list whose p0f order differs from the extraction order (`ecn`, `0+`, …)
  | scaleWithoutOption  -- a fixed scale (`,0`) without a `ws` option: observed scale is "absent"
  | windowReclassified  -- fixed window / `mtu*N` re-expressed as `mss*N`, `%N` or `mtu*N` by the extractor
  deriving DecidableEq, Repr

def ttlReason (s : TcpSig) : DeadTcp := match s.ittl with | .bad _ => .badTtl | _ => .oddTtl

def deadReasons (s : TcpSig) : List DeadTcp :=
  [(ttlShape s, ttlReason s), (eolShape s, .eolPadding), (quirkShape s, .quirkOrder),
   (scaleShape s, .scaleWithoutOption), (decide (WindowReach s), .windowReclassified)].filterMap
    (fun p => if p.1 then none else some p.2)

/-! ## HTTP -/

/-- Message headers against the signature's ordered list: optional headers in or out, names
equal, a demanded value present as such. -/
inductive HdrConf : List (String × Option String) → List Header → Prop
  | nil : HdrConf [] []
  | keep {h s hs ss} : h.1 = s.name → (∀ v, s.value = some v → h.2 = some v) → HdrConf hs ss →
      HdrConf (h :: hs) (s :: ss)
  | skip {s hs ss} : s.optional = true → HdrConf hs ss → HdrConf hs (s :: ss)

structure ConformsHttp (isReq : Bool) (v : HttpVersion) (hs : List (String × Option String))
    (sw : Option String) (s : HttpSig) : Prop where
  version : v ≠ .any ∧ (s.version = .any ∨ s.version = v)
  headers : HdrConf hs s.horder
  /-- none of the headers that must be absent is present (names compared case-insensitively) -/
  absent  : ∀ h ∈ s.habsent, Huginn.Reach.asciiLower h.name ∉ hs.map (fun x => Huginn.Reach.asciiLower x.1)
  /-- the User-Agent / Server value contains the expected token -/
  software : SwInst (Huginn.Reach.trafficClass sw) s.expsw

/-- **Shape predicate (HTTP)**: no header named twice; a header with a demanded value is not one
whose value the observation drops (optional / skip-value lists). -/
def ReachHttp (isReq : Bool) (s : HttpSig) : Prop :=
  (s.horder.map (·.name)).Nodup ∧ (s.habsent.map (·.name)).Nodup ∧
  ∀ h ∈ s.horder, h.value.isSome →
    h.name ∉ (if isReq then Gen.BundledSig.requestOptionalHeaders else Gen.BundledSig.responseOptionalHeaders) ∧
    h.name ∉ (if isReq then Gen.BundledSig.requestSkipValueHeaders else Gen.BundledSig.responseSkipValueHeaders)
instance (r s) : Decidable (ReachHttp r s) := by unfold ReachHttp; exact inferInstance

end Huginn.Reach.Spec

/-! ## known-finding classes of C13 (decidable on the case) -/
namespace Huginn.KF.C13
open Huginn.Sig Huginn.Reach.Spec

/-- The signature is outside `ReachTcp` for the named reason. -/
def deadTcp (s : TcpSig) : Prop := deadReasons s ≠ []
instance (s) : Decidable (deadTcp s) := by unfold deadTcp; exact inferInstance

/-- The common headers missing from the message are not what the signature's absent list says
(the observation lists *every* missing common header, the greedy comparison then runs off). -/
def httpAbsentList (obsAbsent sigAbsent : List Header) : Prop := ¬ Huginn.Match.Spec.HdrInst obsAbsent sigAbsent
instance (a b) : Decidable (httpAbsentList a b) := by unfold httpAbsentList; exact inferInstance

end Huginn.KF.C13
