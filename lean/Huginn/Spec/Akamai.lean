import Huginn.Spec.H2
import Huginn.Model.Hpack
import Huginn.Model.Utf8
import Huginn.Model.Akamai
/-
Specification of the Akamai HTTP/2 fingerprint (Shuster et al., "Passive Fingerprinting of HTTP/2
Clients", Black Hat EU 2017) as restated by property C17:

    S|WU|P|PS
    S   the first SETTINGS frame's `id:value` pairs in wire order, joined by `;`
    WU  the first connection-level WINDOW_UPDATE increment, or `00` if there is none
    P   every PRIORITY frame as `stream:exclusive:dependency:weight` (weight = wire byte + 1),
        joined by `,`; `0` if there is none
    PS  the order of the pseudo-headers of the first request header block: m, a, s, p joined by `,`

and of the incremental contract: one fingerprint, reported on the chunk that completes the first
SETTINGS frame, equal to the one-shot fingerprint of the bytes received so far.

Written over *frames* (RFC 7540 §6.3 PRIORITY, §6.5 SETTINGS, §6.9 WINDOW_UPDATE payload layouts,
§6.2/§6.10 header blocks via `Spec.H2.headerBlock`) and parametric in HPACK. The only vocabulary
shared with the model is `Frame`, `Bytes`, the decimal printer `H2.dec` and `utf8Valid`.

`Legal` delimits what the statement quantifies over (frames with the payload sizes RFC 7540
prescribes, a decodable request block whose pseudo-headers are the four request pseudo-headers).
Outside `Legal` the fingerprint is unspecified. The `KF.C17.*` predicates are the input classes on
which the current code is known to deviate (three after the fixes of fixes/C17-*.patch).
-/
namespace Huginn.Spec.Akamai
open Huginn.H2 Huginn.Spec.H2

def val32 (a b c d : UInt8) : Nat := ((a.toNat * 256 + b.toNat) * 256 + c.toNat) * 256 + d.toNat

def isSettings (f : Frame) : Bool := f.ty.toNat == 4 && f.sid == 0
def isConnWindowUpdate (f : Frame) : Bool := f.ty.toNat == 8 && f.sid == 0
def isPriority (f : Frame) : Bool := f.ty.toNat == 2
def isRequestHeaders (f : Frame) : Bool := f.ty.toNat == 1 && f.sid != 0

/-- §6.5.1: the `i`-th setting of a SETTINGS payload: 16-bit identifier, 32-bit value -/
def settingAt (p : Bytes) (i : Nat) : Nat × Nat :=
  let g := fun k => p.getD (6 * i + k) 0
  ((g 0).toNat * 256 + (g 1).toNat, val32 (g 2) (g 3) (g 4) (g 5))

def settingsOf (p : Bytes) : List (Nat × Nat) := (List.range (p.length / 6)).map (settingAt p)

/-- §6.9: reserved bit + 31-bit increment -/
def incrementOf (p : Bytes) : Nat := val32 (p.getD 0 0) (p.getD 1 0) (p.getD 2 0) (p.getD 3 0) % 2 ^ 31

structure Prio where
  stream : Nat
  exclusive : Bool
  dependency : Nat
  weight : Nat            -- 1..256
  deriving DecidableEq, Repr

/-- §6.3: E bit + 31-bit dependency, weight octet (value + 1) -/
def prioOf (f : Frame) : Prio :=
  let v := val32 (f.payload.getD 0 0) (f.payload.getD 1 0) (f.payload.getD 2 0) (f.payload.getD 3 0)
  { stream := f.sid, exclusive := decide (v ≥ 2 ^ 31), dependency := v % 2 ^ 31,
    weight := (f.payload.getD 4 0).toNat + 1 }

def ascii (s : String) : Bytes := s.toList.map (fun c => UInt8.ofNat c.toNat)

def pMethod : Bytes := [58, 109, 101, 116, 104, 111, 100]                       -- ":method"
def pAuthority : Bytes := [58, 97, 117, 116, 104, 111, 114, 105, 116, 121]      -- ":authority"
def pScheme : Bytes := [58, 115, 99, 104, 101, 109, 101]                        -- ":scheme"
def pPath : Bytes := [58, 112, 97, 116, 104]                                    -- ":path"

/-- the paper's letters -/
def letter (name : Bytes) : Option UInt8 :=
  if name = pMethod then some 109 else if name = pAuthority then some 97
  else if name = pScheme then some 115 else if name = pPath then some 112 else none

def isPseudo (h : Field) : Bool := h.1.head? == some 58

/-- the first request header block, if the frames contain the start of one -/
def requestBlock (frames : List Frame) : Option Block :=
  (firstWithRest isRequestHeaders frames).map (fun x => headerBlock x.1 x.2)

/-- PS: letters of the pseudo-headers of the first request block, in order; empty while no complete
block has been seen -/
def pseudoOrder (H : Hpack) (frames : List Frame) : List UInt8 :=
  match requestBlock frames with
  | some (.complete b) =>
    match (H.dec H.init b).1 with
    | some hs => (hs.filter isPseudo).filterMap (fun h => letter h.1)
    | none => []
  | _ => []

def joinWith (sep : UInt8) (xs : List Bytes) : Bytes :=
  match xs with
  | [] => []
  | x :: r => r.foldl (fun acc y => acc ++ [sep] ++ y) x

def renderS (s : List (Nat × Nat)) : Bytes := joinWith 59 (s.map fun p => dec p.1 ++ [58] ++ dec p.2)
def renderWU : Option Nat → Bytes
  | none => [48, 48]
  | some n => dec n
def renderP (ps : List Prio) : Bytes :=
  if ps = [] then [48]
  else joinWith 44 (ps.map fun p =>
    dec p.stream ++ [58] ++ (if p.exclusive then [49] else [48]) ++ [58] ++ dec p.dependency ++ [58] ++ dec p.weight)
def renderPS (ls : List UInt8) : Bytes := joinWith 44 (ls.map fun l => [l])

/-- the fingerprint string of a frame sequence; `none` = no SETTINGS frame yet, no fingerprint -/
def fingerprint (H : Hpack) (frames : List Frame) : Option Bytes :=
  match (frames.filter isSettings).head? with
  | none => none
  | some s =>
    let wu := ((frames.filter isConnWindowUpdate).head?).map (fun f => incrementOf f.payload)
    let p := (frames.filter isPriority).map prioOf
    some (renderS (settingsOf s.payload) ++ [124] ++ renderWU wu ++ [124] ++ renderP p ++ [124]
          ++ renderPS (pseudoOrder H frames))

/-! ### what the statement quantifies over -/

def requestBlockLegal (H : Hpack) (frames : List Frame) : Bool :=
  match requestBlock frames with
  | none => true
  | some .incomplete => true
  | some .malformed => false
  | some (.complete b) =>
    match (H.dec H.init b).1 with
    | none => false
    | some hs => (hs.filter isPseudo).all (fun h => (letter h.1).isSome)

def sizesLegal (f : Frame) : Bool :=
  (!isSettings f || f.payload.length % 6 == 0) &&
  (!isConnWindowUpdate f || f.payload.length == 4) &&
  (!isPriority f || f.payload.length == 5)

def firstSettingsNotAck (frames : List Frame) : Bool :=
  match (frames.filter isSettings).head? with
  | some f => !flagSet f.flags 1
  | none => true

/-- SETTINGS payloads are whole settings, WINDOW_UPDATE payloads 4 octets, PRIORITY payloads 5
octets (RFC 7540 §6.5, §6.9, §6.3: anything else is a FRAME_SIZE_ERROR); the first SETTINGS frame
is not an acknowledgement; the first request header block, if complete, decodes and carries only
request pseudo-headers. -/
def Legal (H : Hpack) (frames : List Frame) : Prop :=
  frames.all sizesLegal = true ∧ firstSettingsNotAck frames = true ∧ requestBlockLegal H frames = true

instance (H : Hpack) (frames : List Frame) : Decidable (Legal H frames) := by
  unfold Legal; infer_instance

/-! ### the incremental contract -/

/-- report `f (bytes so far)` once, on the first chunk where it is defined -/
def reportOnce {α} (f : Bytes → Option α) : (seen : Bytes) → (done : Bool) → List Bytes → List (Option α)
  | _, _, [] => []
  | seen, done, c :: cs =>
    let seen' := seen ++ c
    if done then none :: reportOnce f seen' true cs
    else match f seen' with
      | some x => some x :: reportOnce f seen' true cs
      | none => none :: reportOnce f seen' false cs

end Huginn.Spec.Akamai

/-! ### known-finding classes of C17 (decidable input classes) -/
namespace Huginn.KF.C17
open Huginn.H2 Huginn.Spec.H2 Huginn.Spec.Akamai

/-- the first SETTINGS frame carries no setting (legal: RFC 7540 §3.5 "which MAY be empty"):
the code reports no fingerprint at all, the format says `|WU|P|PS` with an empty S -/
def emptyFirstSettings (frames : List Frame) : Bool :=
  match (frames.filter isSettings).head? with
  | some s => s.payload.length < 6
  | none => false

/-- a connection-level WINDOW_UPDATE with increment 0 is printed `00` (= absent) instead of `0` -/
def zeroWindowIncrement (frames : List Frame) : Bool :=
  match (frames.filter isConnWindowUpdate).head? with
  | some f => incrementOf f.payload == 0
  | none => false

/-- the first request header block has started but its END_HEADERS has not arrived (the block is
incomplete in the bytes seen): the code decodes the fragments received so far, the specification
reports no pseudo-header order yet -/
def headersContinued (frames : List Frame) : Bool :=
  requestBlock frames == some .incomplete

end Huginn.KF.C17
