import Huginn.Model.Sig
import Huginn.Gen.Score
/-
Specification for C12 (match distances obey signature semantics) and C02 (best match =
optimum of a full scan), written from the property statements and the p0f signature
language they cite (p0f README §5: `*` wildcards, `%n` / `mss*n` / `mtu*n` window forms,
`?name` optional headers, `name=[value]`, the software substring), not from the code.

C12 is phrased field by field. For every field the specification says whether the observed
value *instantiates* the signature's value (`…Inst`), and otherwise whether the two values are
of *comparable form* (`…Comparable`) — then the field costs exactly its fixed penalty — or
not, in which case the statement says nothing about this pair and the case is unspecified.

C02 is `scanBest`: one pass over *all* entries in database order keeping the first strict
minimum, characterised declaratively by `IsBest`.
-/
namespace Huginn.Match.Spec
open Huginn.Sig

/-! ## C12 — vocabulary -/

/-- "any plausible hop count" (the analyzer's own bound is `MAX_HOPS_ACCEPTABLE = 30`). -/
def maxHops : Nat := 30

/-- Penalty classes of the two quality enums, looked up by name in the regenerated tables. -/
def classScore (t : List (String × Nat)) (name : String) : Nat := (t.lookup name).getD 0
def penTtl : Nat := classScore Gen.Score.tcpAsScore "Low"
def penOlen : Nat := classScore Gen.Score.tcpAsScore "Low"
def penMss : Nat := classScore Gen.Score.tcpAsScore "Low"
def penWindow : Nat := classScore Gen.Score.tcpAsScore "Low"
def penWscale : Nat := classScore Gen.Score.tcpAsScore "Medium"
def penExpsw : Nat := classScore Gen.Score.httpAsScore "Bad"

inductive Rel | inst | differ | incomparable
  deriving DecidableEq, Repr

/-! ### TTL -/

/-- Field widths (`u8`) and: an initial TTL `t + d` is itself a TTL. -/
def TtlWF : Ttl → Prop
  | .value t => t ≤ 255
  | .distance t d => t + d ≤ 255
  | .guess t => t ≤ 255
  | .bad t => t ≤ 255
instance : DecidablePred TtlWF := fun t => by cases t <;> (unfold TtlWF; exact inferInstance)

/-- `TtlInst obs sig`: the observed TTL is what a host with the signature's TTL produces.
A signature `T` (initial TTL) is instantiated by the raw value `T`, by the guess `T+?` and by
`t+d` whenever `t + d = T` for a plausible hop count `d`; `T-` only by `T-`; the (unusual)
signature forms `t+d` and `T+?` by themselves and by the raw value they stand for. -/
def TtlInst : Ttl → Ttl → Prop
  | .value a, .value T => a = T
  | .guess a, .value T => a = T
  | .distance t d, .value T => t + d = T ∧ d ≤ maxHops
  | .bad a, .bad T => a = T
  | .guess a, .guess T => a = T
  | .value a, .guess T => a = T
  | .distance a b, .distance t d => a = t ∧ b = d
  | .value a, .distance t d => a = t + d
  | _, _ => False
instance (o s) : Decidable (TtlInst o s) := by
  cases o <;> cases s <;> (unfold TtlInst; exact inferInstance)

/-- Pairs of forms that can be compared at all. `t+d` against `T` with `t + d = T` but an
implausible `d` is left open (neither an instance nor a definite mismatch). -/
def TtlComparable : Ttl → Ttl → Prop
  | .value _, .value _ => True
  | .guess _, .value _ => True
  | .distance t d, .value T => ¬ (t + d = T ∧ maxHops < d)
  | .bad _, .bad _ => True
  | .guess _, .guess _ => True
  | .value _, .guess _ => True
  | .distance _ _, .distance _ _ => True
  | .value _, .distance _ _ => True
  | _, _ => False
instance (o s) : Decidable (TtlComparable o s) := by
  cases o <;> cases s <;> (unfold TtlComparable; exact inferInstance)

def ttlRel (o s : Ttl) : Rel :=
  if TtlInst o s then .inst else if TtlComparable o s then .differ else .incomparable

/-! ### window size

An observed form summarises a concrete 16-bit window `w` (given the observed MSS):
`value w` — exactly `w`; `%m` — some multiple of `m`; `mss*k`, `mtu*k` — `k` times the MSS / MTU.
A signature form is a set of windows: `*` all, `v` one value, `%n` the multiples of `n`,
`mss*n` / `mtu*n` exactly `n` times the MSS / MTU. The observation instantiates the signature
when everything it can stand for lies in that set. -/

def WinWF : WindowSize → Prop
  | .mss n => n ≤ 255
  | .mtu n => n ≤ 255
  | .value n => n ≤ 65535
  | .mod n => n ≤ 65535
  | .any => True
instance : DecidablePred WinWF := fun t => by cases t <;> (unfold WinWF; exact inferInstance)

def WinInst (o s : WindowSize) (mss : Option Nat) : Prop :=
  match o, s with
  | _, .any => True
  | .value a, .value b => a = b
  | .mss a, .mss b => a = b
  | .mtu a, .mtu b => a = b
  | .mod a, .mod b => a = b ∨ (0 < b ∧ 0 < a ∧ a % b = 0)
  | .value a, .mod b => 0 < b ∧ a % b = 0
  | .value a, .mss b => match mss with | some m => 0 < m ∧ a = b * m | none => False
  | _, _ => False
instance (o s m) : Decidable (WinInst o s m) := by
  cases o <;> cases s <;> (unfold WinInst; try exact inferInstance)
  all_goals (cases m <;> exact inferInstance)

/-- Same form, or a raw value against an MSS multiple or a modulus. -/
def WinComparable (o s : WindowSize) : Prop :=
  match o, s with
  | _, .any => True
  | .value _, .value _ => True
  | .mss _, .mss _ => True
  | .mtu _, .mtu _ => True
  | .mod _, .mod _ => True
  | .value _, .mss _ => True
  | .value _, .mod _ => True
  | _, _ => False
instance (o s) : Decidable (WinComparable o s) := by
  cases o <;> cases s <;> (unfold WinComparable; exact inferInstance)

def winRel (o s : WindowSize) (mss : Option Nat) : Rel :=
  if WinInst o s mss then .inst else if WinComparable o s then .differ else .incomparable

/-! ### the other TCP fields -/

/-- `*` in the signature, or the same concrete value. -/
def OptInst (o s : Option Nat) : Prop := s = none ∨ o = s
instance (o s : Option Nat) : Decidable (OptInst o s) := by unfold OptInst; exact inferInstance

def VersionOk (o s : IpVersion) : Prop := s = .any ∨ o = s
instance (o s) : Decidable (VersionOk o s) := by unfold VersionOk; exact inferInstance
def PclassOk (o s : PayloadSize) : Prop := s = .any ∨ o = s
instance (o s) : Decidable (PclassOk o s) := by unfold PclassOk; exact inferInstance

/-- What an analyzer can emit: concrete version and payload class, fields within their widths. -/
def TcpObsWF (o : TcpObs) : Prop :=
  o.version ≠ .any ∧ o.pclass ≠ .any ∧ TtlWF o.ittl ∧ WinWF o.wsize ∧ o.wsize ≠ .any ∧
  o.olen ≤ 255 ∧ (∀ m, o.mss = some m → m ≤ 65535) ∧ (∀ w, o.wscale = some w → w ≤ 255)
instance (o) : Decidable (TcpObsWF o) := by
  unfold TcpObsWF
  have : Decidable (∀ m, o.mss = some m → m ≤ 65535) := by
    cases h : o.mss with
    | none => exact isTrue (by simp)
    | some m => exact decidable_of_iff (m ≤ 65535) (by simp)
  have : Decidable (∀ w, o.wscale = some w → w ≤ 255) := by
    cases h : o.wscale with
    | none => exact isTrue (by simp)
    | some m => exact decidable_of_iff (m ≤ 255) (by simp)
  exact inferInstance

def TcpSigWF (s : TcpSig) : Prop := TtlWF s.ittl ∧ WinWF s.wsize
instance (s) : Decidable (TcpSigWF s) := by unfold TcpSigWF; exact inferInstance

/-- The decisive fields of a TCP signature: IP version, option layout, quirks, payload class. -/
def TcpDecisiveOk (o : TcpObs) (s : TcpSig) : Prop :=
  VersionOk o.version s.version ∧ o.olayout = s.olayout ∧ o.quirks = s.quirks ∧
  PclassOk o.pclass s.pclass
instance (o s) : Decidable (TcpDecisiveOk o s) := by unfold TcpDecisiveOk; exact inferInstance

/-- `TcpInst o s`: the observation instantiates the signature. -/
def TcpInst (o : TcpObs) (s : TcpSig) : Prop :=
  TcpDecisiveOk o s ∧ TtlInst o.ittl s.ittl ∧ o.olen = s.olen ∧ OptInst o.mss s.mss ∧
  WinInst o.wsize s.wsize o.mss ∧ OptInst o.wscale s.wscale
instance (o s) : Decidable (TcpInst o s) := by unfold TcpInst; exact inferInstance

def relPenalty (r : Rel) (p : Nat) : Nat := match r with | .differ => p | _ => 0

/-- The distance the statement demands: `some none` — never accepted; `some (some d)` — accepted
with distance `d` (0 for an instance, plus the fixed penalty of every non-decisive field that
differs in comparable form); `none` — the statement does not determine this pair. -/
def specTcp (s : TcpSig) (o : TcpObs) : Option (Option Nat) :=
  if ¬ (TcpObsWF o ∧ TcpSigWF s) then none
  else if ¬ TcpDecisiveOk o s then some none
  else
    let rt := ttlRel o.ittl s.ittl
    let rw := winRel o.wsize s.wsize o.mss
    if rt = .incomparable ∨ rw = .incomparable then none
    else some (some (
      relPenalty rt penTtl + (if o.olen = s.olen then 0 else penOlen) +
      (if OptInst o.mss s.mss then 0 else penMss) + relPenalty rw penWindow +
      (if OptInst o.wscale s.wscale then 0 else penWscale)))

/-! ### HTTP -/

def HttpVersionOk (o s : HttpVersion) : Prop := s = .any ∨ o = s
instance (o s) : Decidable (HttpVersionOk o s) := by unfold HttpVersionOk; exact inferInstance

/-- A header of the signature without `=[…]` accepts any value; with `=[v]` it asks for `v`. -/
def ValueOk (o s : Header) : Prop := s.value = none ∨ o.value = s.value
instance (o s) : Decidable (ValueOk o s) := by unfold ValueOk; exact inferInstance

/-- `HdrInst obs sig`: the observed header list is the signature's list with every `?optional`
header either present or left out, in the same order, names equal, values as demanded. -/
inductive HdrInst : List Header → List Header → Prop
  | nil : HdrInst [] []
  | keep {o s os ss} : o.name = s.name → ValueOk o s → HdrInst os ss → HdrInst (o :: os) (s :: ss)
  | skip {s os ss} : s.optional = true → HdrInst os ss → HdrInst os (s :: ss)

/-- Decision procedure for `HdrInst` by full backtracking. -/
def hdrInstB : List Header → List Header → Bool
  | [], [] => true
  | _ :: _, [] => false
  | [], s :: ss => s.optional && hdrInstB [] ss
  | o :: os, s :: ss =>
    (decide (o.name = s.name ∧ ValueOk o s) && hdrInstB os ss) || (s.optional && hdrInstB (o :: os) ss)

theorem hdrInstB_iff (os ss : List Header) : hdrInstB os ss = true ↔ HdrInst os ss := by
  induction ss generalizing os with
  | nil =>
    cases os with
    | nil => simp [hdrInstB, HdrInst.nil]
    | cons o os => simp [hdrInstB]; intro h; cases h
  | cons s ss ih =>
    cases os with
    | nil =>
      simp only [hdrInstB, Bool.and_eq_true, ih]
      constructor
      · rintro ⟨h1, h2⟩; exact .skip h1 h2
      · intro h; cases h with | skip h1 h2 => exact ⟨h1, h2⟩
    | cons o os =>
      simp only [hdrInstB, Bool.or_eq_true, Bool.and_eq_true, decide_eq_true_eq, ih]
      constructor
      · rintro (⟨⟨h1, h2⟩, h3⟩ | ⟨h1, h2⟩)
        · exact .keep h1 h2 h3
        · exact .skip h1 h2
      · intro h
        cases h with
        | keep h1 h2 h3 => exact .inl ⟨⟨h1, h2⟩, h3⟩
        | skip h1 h2 => exact .inr ⟨h1, h2⟩

instance (os ss) : Decidable (HdrInst os ss) := decidable_of_iff _ (hdrInstB_iff os ss)

/-- The software string *contains* the expected token. -/
def SwInst (obsSw sigSw : String) : Prop := sigSw.toList <:+: obsSw.toList

/-- `needle` occurs at some offset of `hay` (decision procedure for `<:+:` that the kernel can run). -/
def occursAt (needle hay : List Char) : Bool :=
  (List.range (hay.length + 1)).any (fun i => (hay.drop i).take needle.length == needle)

theorem occursAt_iff (needle hay : List Char) : occursAt needle hay = true ↔ needle <:+: hay := by
  unfold occursAt
  simp only [List.any_eq_true, List.mem_range, beq_iff_eq]
  constructor
  · rintro ⟨i, _, h⟩
    refine ⟨hay.take i, (hay.drop i).drop needle.length, ?_⟩
    rw [List.append_assoc]
    conv => lhs; rhs; lhs; rw [← h]
    rw [List.take_append_drop, List.take_append_drop]
  · rintro ⟨s, t, rfl⟩
    refine ⟨s.length, by simp; omega, ?_⟩
    simp

instance instDecInfix (a b : List Char) : Decidable (a <:+: b) :=
  decidable_of_iff _ (occursAt_iff a b)
instance (a b) : Decidable (SwInst a b) := by unfold SwInst; exact instDecInfix _ _

def HttpInst (o : HttpObs) (s : HttpSig) : Prop :=
  HttpVersionOk o.version s.version ∧ HdrInst o.horder s.horder ∧ HdrInst o.habsent s.habsent ∧
  SwInst o.expsw s.expsw
instance (o s) : Decidable (HttpInst o s) := by unfold HttpInst; exact inferInstance

/-- Demanded HTTP distance: rejected on a version mismatch; for header lists that instantiate
the signature's, 0 or the software-string penalty; otherwise not determined by the statement
(header lists that differ have no single "fixed penalty"). -/
def specHttp (s : HttpSig) (o : HttpObs) : Option (Option Nat) :=
  if o.version = .any then none
  else if ¬ HttpVersionOk o.version s.version then some none
  else if HdrInst o.horder s.horder ∧ HdrInst o.habsent s.habsent then
    some (some (if SwInst o.expsw s.expsw then 0 else penExpsw))
  else none

/-- Component specification of the header comparison alone. -/
def specHeader (obs sig : List Header) : Option (Option Nat) :=
  if HdrInst obs sig then some (some 0) else none

def specExpsw (obsSw sigSw : String) : Option (Option Nat) :=
  some (some (if SwInst obsSw sigSw then 0 else penExpsw))

/-! ### quality -/

/-- What the statement asks of a distance → quality map `q` (hundredths), at one distance `d`
and its successor. -/
def ScoreOkAt (q : Nat → Nat) (d : Nat) : Prop :=
  5 ≤ q d ∧ q d ≤ 100 ∧ (q d = 100 ↔ d = 0) ∧ q (d + 1) ≤ q d
instance (q d) : Decidable (ScoreOkAt q d) := by unfold ScoreOkAt; exact inferInstance

end Huginn.Match.Spec

/-! ## known-finding classes of C12 (decidable predicates on the input) -/
namespace Huginn.KF.C12
open Huginn.Sig Huginn.Match.Spec

/-- The two containment directions disagree: the code tests `sig.expsw.contains(obs.expsw)`. -/
def expswReversed (obsSw sigSw : String) : Prop :=
  ¬ (SwInst obsSw sigSw ↔ obsSw.toList <:+: sigSw.toList)
instance (obsSw sigSw : String) : Decidable (expswReversed obsSw sigSw) := by
  unfold expswReversed
  have := instDecInfix obsSw.toList sigSw.toList
  exact inferInstance

/-- The signature's header list names a header twice (`?A,A`): the greedy two-pointer walk binds
an observed `A` to the first, possibly optional, occurrence. -/
def headerRepeatedName (sig : List Header) : Prop := ¬ (sig.map (·.name)).Nodup
instance (s) : Decidable (headerRepeatedName s) := by unfold headerRepeatedName; exact inferInstance

end Huginn.KF.C12

/-! ## C02 — exhaustive scan -/
namespace Huginn.Match.Spec

variable {σ ω lbl : Type}

/-- All `(label_idx, sig_idx, signature)` triples in database order, labels numbered from `li`. -/
def entriesFrom : Nat → List (lbl × List σ) → List (Nat × Nat × σ)
  | _, [] => []
  | li, e :: r => (e.2.zipIdx.map (fun p => (li, p.2, p.1))) ++ entriesFrom (li + 1) r

def entries (db : List (lbl × List σ)) : List (Nat × Nat × σ) := entriesFrom 0 db

/-- One step of the scan: an accepting entry replaces the current best only if strictly closer. -/
def scanStep (dist : σ → ω → Option Nat) (o : ω) (best : Option (Nat × Nat × Nat))
    (e : Nat × Nat × σ) : Option (Nat × Nat × Nat) :=
  match dist e.2.2 o with
  | none => best
  | some d =>
    match best with
    | none => some (e.1, e.2.1, d)
    | some b => if d < b.2.2 then some (e.1, e.2.1, d) else some b

/-- Exhaustive scan of the whole database, no index: `(label_idx, sig_idx, distance)` of the
first entry in database order with the smallest distance among the accepting ones. -/
def scanBest (dist : σ → ω → Option Nat) (db : List (lbl × List σ)) (o : ω) :
    Option (Nat × Nat × Nat) :=
  (entries db).foldl (scanStep dist o) none

/-- Declarative reading of the statement over a list of entries. -/
def IsBest (dist : σ → ω → Option Nat) (es : List (Nat × Nat × σ)) (o : ω) :
    Option (Nat × Nat × Nat) → Prop
  | none => ∀ e ∈ es, dist e.2.2 o = none
  | some (i, j, d) =>
    ∃ pre s post, es = pre ++ (i, j, s) :: post ∧ dist s o = some d ∧
      (∀ e ∈ pre, ∀ d', dist e.2.2 o = some d' → d < d') ∧
      (∀ e ∈ post, ∀ d', dist e.2.2 o = some d' → d ≤ d')

end Huginn.Match.Spec
